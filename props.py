# Per-property configuration of ./check.  prop_files are the theorem-only files; dispatch is the
# Coq entry point of the executable model used by the correspondence check.
PROPS = {
    "C16": {
        "prop_files": ["Properties/C16.v"],
        "dispatch_mod": "Model.DispC16", "dispatch": "dispatch_C16",
        "assumptions": [
            "fmt %d and strings.Split/HasPrefix/TrimSuffix of the Go standard library are modelled (Prim/Dec.v print_dec, Model/Dn.v), not verified",
            "hand-written models Model/Sid.v and Model/Dn.v are tied to network/ldap/sid.go and utils.go by differential runs only",
        ],
    },
}
