#!/usr/bin/env python3
"""Development-time tool (never run by a check): writes coq/Model/SmbKnown.v and coq/Proofs/C04Instances.v
from the CURRENT tree's regenerated layouts. Run only on the unchanged tree, review the diff, commit."""
import subprocess, re, os
COQ = "/verif/coq"
src = '''From Coq Require Import List NArith ZArith String Bool.
From Mant Require Import Model.SmbLayout Model.SmbAnalysis Spec.C04 Gen.SmbLayouts.
Import ListNotations. Open Scope string_scope.
Definition sep := "@@".
Eval vm_compute in ("RT", String.concat sep (flat_map rt_mismatches all_cmds)).
Eval vm_compute in ("ENC", String.concat sep (flat_map enc_mismatches all_cmds)).
Eval vm_compute in ("GUARD", String.concat sep (flat_map guard_mismatches all_cmds)).
Eval vm_compute in ("FIXED", String.concat sep (map cd_name (filter simple_fixed all_cmds))).
Eval vm_compute in ("ALL", String.concat sep (map cd_name all_cmds)).
'''
open("/verif/.build/gen_known.v", "w").write(src)
out = subprocess.run("coqc -Q %s Mant -w none gen_known.v" % COQ, shell=True, cwd="/verif/.build", capture_output=True, text=True).stdout
out = re.sub(r"\s+", " ", out)
def grab(tag):
    m = re.search(r'\("%s",\s*"(.*?)"\)' % tag, out)
    s = m.group(1).replace(" ", "")
    return [x for x in s.split("@@") if x]
def uniq(l):
    seen, r = set(), []
    for x in l:
        if x not in seen:
            seen.add(x); r.append(x)
    return r
rt, enc, guard, fixed, allc = uniq(grab("RT")), uniq(grab("ENC")), uniq(grab("GUARD")), grab("FIXED"), grab("ALL")
def coqlist(name, l, comment):
    body = ";\n  ".join('"%s"' % x for x in l)
    return "(* %s *)\nDefinition %s : list string := [\n  %s\n].\n\n" % (comment, name, body)
v = ("(* Exemptions for the static layout analysis (Model/SmbAnalysis.v): the mismatches between Marshal and\n"
     "   Unmarshal that the UNCHANGED tree already has. Each line is a known finding (KNOWN_FINDINGS.json lists the\n"
     "   same keys). Written once by tools/gen_smb_known.py from the pinned tree and committed; never written by a\n"
     "   check. A structure/field/kind that is not listed here and appears in the regenerated analysis breaks the\n"
     "   obligations of Proofs/C04Tables.v. *)\n"
     "From Coq Require Import List String.\nImport ListNotations.\nOpen Scope string_scope.\n\n")
v += coqlist("known_rt", rt, "round-trip relevant (C04)")
v += coqlist("known_enc", enc, "encoding (C05): big-endian integers, declared widths")
v += coqlist("known_guard", guard, "totality (C07): an access not covered by its guard, or an untranslated Unmarshal")
v += coqlist("fixed_fragment", fixed, "structures inside the all-integer fragment, proved to round-trip (Proofs/C04Instances.v)")
open(os.path.join(COQ, "Model", "SmbKnown.v"), "w").write(v)
inst = ("(* One obligation per structure of the all-integer fragment: the regenerated description still satisfies the\n"
        "   decidable shape condition, hence (simple_fixed_roundtrips) it round-trips every field value. Written by\n"
        "   tools/gen_smb_known.py from the pinned tree; a structure that leaves the fragment breaks its own lemma. *)\n"
        "From Coq Require Import List NArith String Bool.\n"
        "From Mant Require Import Model.SmbLayout Model.SmbAnalysis Spec.C04 Proofs.C04Proofs Gen.SmbLayouts.\n\n")
for n in fixed:
    inst += "Lemma fixed_%s : simple_fixed cmd_%s = true. Proof. vm_cast_no_check (@eq_refl bool true). Qed.\n" % (n, n)
    inst += "Lemma rt_%s : roundtrips cmd_%s. Proof. exact (simple_fixed_roundtrips _ fixed_%s). Qed.\n" % (n, n, n)
open(os.path.join(COQ, "Proofs", "C04Instances.v"), "w").write(inst)
print(len(rt), len(enc), len(guard), len(fixed), len(allc))
