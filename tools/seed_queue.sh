#!/bin/bash
# evaluates every delivered mutation that has no result yet, 3 lanes in parallel
cd /verif
todo=()
for d in /tmp/mut/out/C*/m*/; do
  p=$(basename $(dirname $d)); m=$(basename $d)
  [ -f $d/patch.diff ] || continue
  [ -f /tmp/mut/results/$p-$m.json ] && continue
  todo+=("$p $m")
done
printf '%s\n' "${todo[@]}" | awk 'NF' | nl -v0 | while read n p m; do echo "$((n%3)) $p $m"; done > /tmp/mut/queue.txt
for lane in 0 1 2; do
  ( grep "^$lane " /tmp/mut/queue.txt | while read l p m; do python3 tools/seed_eval.py $p $m --lane $lane 2>&1 | tail -1; done ) &
done
wait
