#!/usr/bin/env python3
"""Development-time tool (never run by a registered check): re-run the property's check against an already confirmed
seeded change (or a harmless refactoring), in a private copy of /verif and a scratch worktree of /repo.

  tools/seed_recheck.py <name> <patch> <Cxx> [--lane N] [--tier quick]
Writes /tmp/mut/results2/<name>.json and, for seeded/<name>, refreshes meta.json["checks"]."""
import sys, os, re, json, subprocess, shutil, time

ENV = dict(os.environ, GOFLAGS="-mod=mod", GOPROXY="off")
ENV.pop("GOSUMDB", None)


def sh(cmd, cwd=None, timeout=3600, env=None):
    p = subprocess.run(cmd, cwd=cwd, shell=True, stdout=subprocess.PIPE, stderr=subprocess.STDOUT, timeout=timeout, env=env or ENV)
    return p.returncode, p.stdout.decode("utf-8", "replace")


def main():
    a = sys.argv[1:]
    name, patch, pid = a[0], a[1], a[2]
    lane = a[a.index("--lane") + 1] if "--lane" in a else "0"
    tier = a[a.index("--tier") + 1] if "--tier" in a else "quick"
    W = "/tmp/mut/eval/repo-%s" % lane
    V = "/tmp/mut/eval/verif-%s" % lane
    os.makedirs("/tmp/mut/eval", exist_ok=True)
    sh("git -C /repo worktree remove --force %s" % W)
    shutil.rmtree(W, ignore_errors=True)
    sh("git -C /repo worktree prune")
    rc, out = sh("git -C /repo worktree add -q --detach %s HEAD" % W)
    assert rc == 0, out
    rc, out = sh("git apply %s" % patch, cwd=W)
    assert rc == 0, out
    rc, out = sh("rsync -a --delete --exclude .git --exclude '.build/run' --exclude '.build/apidiff' --exclude replays /verif/ %s/" % V, timeout=1800)
    assert rc == 0, out
    gm = os.path.join(V, "harness", "go.mod")
    txt = open(gm).read().replace("=> /repo", "=> " + W)
    open(gm, "w").write(txt)
    t0 = time.time()
    rc, out = sh("./check %s --tier %s" % (pid, tier), cwd=V, timeout=5400, env=dict(ENV, VERIF_REPO=W))
    lines = [l for l in out.split("\n") if l.startswith(("VIOLATION", "BROKEN", "NOTE"))]
    rep = {}
    for l in lines:
        m = re.search(r"replay=(\S+)", l)
        if m and os.path.exists(m.group(1)):
            try: rep = json.load(open(m.group(1)))
            except Exception: pass
            break
    tie = {}
    try:
        tie = json.load(open(os.path.join(V, "evidence", pid + ".json")))["coverage"].get("source_shape_tie", {})
    except Exception:
        pass
    res = {"rc": rc, "detected": rc == 1 and any(l.startswith("VIOLATION") for l in lines),
           "lines": [l[:500] for l in lines][:6], "wall_s": round(time.time() - t0, 1),
           "replay": {k: (str(v)[:600]) for k, v in rep.items() if k in ("kind", "name", "key", "detail", "args", "no_failing_input_found")},
           "tie": {"identical": tie.get("identical"), "verdict": tie.get("revalidation", {}).get("verdict"),
                   "differences": [d.get("callable", "") + ": " + d.get("what", "") for d in tie.get("revalidation", {}).get("differences", [])][:3],
                   "uncovered": [u.get("function") for u in tie.get("revalidation", {}).get("uncovered", [])][:4]},
           "tail": out[-300:]}
    sh("git -C /repo worktree remove --force %s" % W)
    shutil.rmtree(W, ignore_errors=True)
    sh("git -C /repo worktree prune")
    os.makedirs("/tmp/mut/results2", exist_ok=True)
    json.dump({"name": name, "property": pid, "check": res}, open("/tmp/mut/results2/%s.json" % name, "w"), indent=1)
    mp = "/verif/seeded/%s/meta.json" % name
    if os.path.exists(mp):
        meta = json.load(open(mp))
        meta["checks"] = {pid: res}
        json.dump(meta, open(mp, "w"), indent=1)
    print("%s rc=%d %s tie=%s %s" % (name, rc, "DETECTED" if res["detected"] else "passes", res["tie"]["verdict"] or ("identical" if res["tie"]["identical"] else "-"),
                                      "no-input" if res["replay"].get("no_failing_input_found") == "True" else res["replay"].get("key", "")))


if __name__ == "__main__":
    sys.exit(main())
