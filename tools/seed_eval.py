#!/usr/bin/env python3
"""Development-time tool (never run by a registered check): confirm a seeded change produced by an independent
sub-agent and run the property's check against it, in isolation from /repo and /verif.

  tools/seed_eval.py <Cxx> <mK> [--lane N] [--props C03,C04] [--src /tmp/mut/out]

Steps (all in scratch copies, removed/reused per lane):
  1. scratch worktree of /repo HEAD, `git apply patch.diff`
  2. the whole existing test suite must still pass with the patch
  3. the demonstration must fail with the patch and pass without it
  4. a copy of /verif (rsync, lane-private) runs `./check <prop>` with VERIF_REPO = the patched worktree
  5. result -> /verif/seeded/<Cxx>-<mK>/{patch.diff, demo*, notes.md, meta.json}
"""
import sys, os, re, json, subprocess, shutil, time, glob

ENV = dict(os.environ, GOFLAGS="-mod=mod", GOPROXY="off")
ENV.pop("GOSUMDB", None)


def sh(cmd, cwd=None, timeout=3600, env=None):
    p = subprocess.run(cmd, cwd=cwd, shell=True, stdout=subprocess.PIPE, stderr=subprocess.STDOUT,
                       timeout=timeout, env=env or ENV)
    return p.returncode, p.stdout.decode("utf-8", "replace")


def main():
    a = sys.argv[1:]
    pid, mk = a[0], a[1]
    lane = a[a.index("--lane") + 1] if "--lane" in a else "0"
    src = a[a.index("--src") + 1] if "--src" in a else "/tmp/mut/out"
    props = a[a.index("--props") + 1].split(",") if "--props" in a else [pid]
    d = os.path.join(src, pid, mk)
    patch = os.path.join(d, "patch.diff")
    W = "/tmp/mut/eval/repo-%s" % lane
    V = "/tmp/mut/eval/verif-%s" % lane
    os.makedirs("/tmp/mut/eval", exist_ok=True)
    res = {"property": pid, "mutation": mk, "steps": {}}

    sh("git -C /repo worktree remove --force %s" % W)
    shutil.rmtree(W, ignore_errors=True)
    sh("git -C /repo worktree prune")
    rc, out = sh("git -C /repo worktree add -q --detach %s HEAD" % W)
    assert rc == 0, out
    rc, out = sh("git apply %s" % patch, cwd=W)
    res["steps"]["apply"] = {"rc": rc, "out": out[-500:]}
    if rc != 0:
        print(json.dumps(res, indent=1)); return 2
    rc, out = sh("go build ./... && go test -vet=off -count=1 ./... 2>&1 | grep -v '^ok\\|no test files'", cwd=W, timeout=1800)
    suite_ok = ("FAIL" not in out) and ("panic" not in out) and ("cannot" not in out)
    res["steps"]["suite_with_patch"] = {"pass": suite_ok, "out": out[-800:]}

    # demonstration
    demo = None
    tests = glob.glob(os.path.join(d, "*_test.go"))
    mains = glob.glob(os.path.join(d, "demo", "main.go")) + glob.glob(os.path.join(d, "main.go"))
    notes = open(os.path.join(d, "notes.md")).read() if os.path.exists(os.path.join(d, "notes.md")) else ""
    if tests:
        t = tests[0]
        txt = open(t).read()
        pkg = re.search(r"^package\s+(\w+)", txt, re.M).group(1)
        # candidate directories: paths mentioned in the test header or notes that exist in the worktree
        cands = re.findall(r"([A-Za-z0-9_./-]+/)[A-Za-z0-9_]*_test\.go", txt + "\n" + notes)
        cands += re.findall(r"`?((?:network|crypto|windows|utils)/[A-Za-z0-9_./-]+)`?", txt[:3000] + "\n" + notes)
        target = None
        for c in cands:
            c = c.strip("/").replace("/tmp/mut/%s/" % pid, "")
            c = re.sub(r"^.*?/tmp/mut/[A-Z0-9]+/", "", c)
            if c.endswith(".go"):
                c = os.path.dirname(c)
            full = os.path.join(W, c)
            if os.path.isdir(full) and glob.glob(os.path.join(full, "*.go")):
                base = pkg[:-5] if pkg.endswith("_test") else pkg
                gp = open(glob.glob(os.path.join(full, "*.go"))[0]).read()
                m = re.search(r"^package\s+(\w+)", gp, re.M)
                if m and (m.group(1) == base or m.group(1) == pkg):
                    target = c; break
        if target is None:
            res["steps"]["demo"] = {"error": "cannot locate package directory for demo test", "cands": cands[:10]}
        else:
            names = re.findall(r"^func (Test\w+)\(", txt, re.M)
            dst = os.path.join(W, target, "zz_seed_demo_test.go")
            shutil.copyfile(t, dst)
            cmd = "go test -vet=off -count=1 -run '^(%s)$' ./%s/" % ("|".join(names), target)
            demo = (cmd, dst)
    elif mains:
        os.makedirs(os.path.join(W, "zz_seed_demo"), exist_ok=True)
        dst = os.path.join(W, "zz_seed_demo", "main.go")
        shutil.copyfile(mains[0], dst)
        demo = ("go run ./zz_seed_demo", dst)
    else:
        res["steps"]["demo"] = {"error": "no demonstration found", "files": os.listdir(d)}
    demo_ok = False
    if demo:
        cmd, dst = demo
        rc1, out1 = sh("timeout 600 " + cmd, cwd=W, timeout=700)
        sh("git apply -R %s" % patch, cwd=W)
        rc0, out0 = sh("timeout 600 " + cmd, cwd=W, timeout=700)
        sh("git apply %s" % patch, cwd=W)
        demo_ok = rc1 != 0 and rc0 == 0
        res["steps"]["demo"] = {"cmd": cmd, "with_patch_rc": rc1, "with_patch_out": out1[-600:],
                                "without_patch_rc": rc0, "without_patch_out": out0[-300:], "confirmed": demo_ok}
        if os.path.basename(dst) == "main.go":
            shutil.rmtree(os.path.dirname(dst), ignore_errors=True)
        else:
            os.remove(dst)
    res["confirmed"] = bool(suite_ok and demo_ok)

    # the checks, in a private copy of /verif
    rc, out = sh("rsync -a --delete --exclude .git --exclude '.build/run' --exclude replays /verif/ %s/" % V, timeout=1800)
    assert rc == 0, out
    gm = os.path.join(V, "harness", "go.mod")
    s = open(gm).read().replace("=> /repo", "=> " + W)
    open(gm, "w").write(s)
    res["checks"] = {}
    for p in props:
        t0 = time.time()
        rc, out = sh("./check %s --tier quick" % p, cwd=V, timeout=3600, env=dict(ENV, VERIF_REPO=W))
        lines = [l for l in out.split("\n") if l.startswith(("VIOLATION", "BROKEN"))]
        rep = {}
        for l in lines:
            m = re.search(r"replay=(\S+)", l)
            if m and os.path.exists(m.group(1)):
                try:
                    rep = json.load(open(m.group(1)))
                except Exception:
                    pass
                break
        res["checks"][p] = {"rc": rc, "detected": rc == 1 and any(l.startswith("VIOLATION") for l in lines),
                            "lines": [l[:400] for l in lines][:6], "wall_s": round(time.time() - t0, 1),
                            "replay": {k: (str(v)[:600]) for k, v in rep.items() if k in ("kind", "name", "key", "detail", "args", "no_failing_input_found")},
                            "tail": out[-300:]}
    sh("git -C /repo worktree remove --force %s" % W)
    shutil.rmtree(W, ignore_errors=True)
    sh("git -C /repo worktree prune")

    os.makedirs("/tmp/mut/results", exist_ok=True)
    json.dump(res, open("/tmp/mut/results/%s-%s.json" % (pid, mk), "w"), indent=1)
    if res["confirmed"]:
        sd = "/verif/seeded/%s-%s" % (pid, mk)
        os.makedirs(sd, exist_ok=True)
        for f in os.listdir(d):
            fp = os.path.join(d, f)
            if os.path.isfile(fp) and (f in ("patch.diff", "notes.md") or f.endswith("_test.go") or f == "main.go"):
                shutil.copyfile(fp, os.path.join(sd, f))
        if os.path.isdir(os.path.join(d, "demo")):
            shutil.copytree(os.path.join(d, "demo"), os.path.join(sd, "demo"), dirs_exist_ok=True)
        meta = {"property": pid, "mutation": mk, "breaks": pid,
                "needs_to_manifest": "see notes.md (written by the independent sub-agent)",
                "confirmed": {"suite_passes_with_patch": suite_ok, "demo": res["steps"].get("demo", {})},
                "what_i_ran": ["git worktree add <scratch> HEAD; git apply patch.diff",
                               "go test -vet=off -count=1 ./...   (with the patch: passes)",
                               res["steps"].get("demo", {}).get("cmd", "") + "   (fails with the patch, passes without)",
                               "VERIF_REPO=<scratch> ./check <prop> --tier quick   (in a private copy of /verif)"],
                "checks": res["checks"], "repo_head": sh("git -C /repo rev-parse --short HEAD")[1].strip()}
        json.dump(meta, open(os.path.join(sd, "meta.json"), "w"), indent=1)
    summary = {p: ("DETECTED" if c["detected"] else "missed rc=%d" % c["rc"]) for p, c in res["checks"].items()}
    print("%s-%s confirmed=%s %s" % (pid, mk, res["confirmed"], summary))
    return 0


if __name__ == "__main__":
    sys.exit(main())
