#!/usr/bin/env python3
"""Development-time tool (never run by a check): records, for every SMB command structure whose description contains
statements the translator reports as opaque, the CURRENT regenerated description (Gen/SmbLayouts.v) as the committed
expectation coq/Model/SmbOpaqueExpected.v, and writes coq/Properties/SmbOpaque.v. Run on the unchanged tree; review; commit."""
import re, os
ROOT = os.path.dirname(os.path.dirname(os.path.abspath(__file__)))
s = open(os.path.join(ROOT, "coq/Gen/SmbLayouts.v")).read()
defs = re.findall(r"(Definition cmd_(\w+) : cmd_desc := \{\|.*?\|\}\.)", s, re.S)
out = ["(* The regenerated descriptions of the SMB command structures that contain statements the translator cannot follow\n"
       "   (cd_opaque non-empty), as they were when those structures were last examined by hand.  These structures have no\n"
       "   theorem of their own (C04 static comparison, C05 deviations and C07 guard analysis skip them; the Go-side oracles\n"
       "   cover them), so that nothing about them changes unnoticed their whole description - recognised statements AND the\n"
       "   text of the opaque ones - is required to stay what it was (Properties/SmbOpaque.v).  Recorded by\n"
       "   tools/gen_smb_opaque_expected.py, reviewed, committed; never written by a check. *)\n"
       "From Coq Require Import List NArith String.\nFrom Mant Require Import Model.SmbTypes Model.SmbLayout.\nImport ListNotations.\n"
       "Open Scope string_scope.\nOpen Scope N_scope.\n"]
names = []
for d, n in defs:
    m = re.search(r"cd_opaque := \[(.*?)\]\n\|\}", d, re.S)
    if m and m.group(1).strip():
        names.append(n)
        out.append(d.replace("Definition cmd_%s " % n, "Definition expected_cmd_%s " % n))
out.append("Definition expected_untranslated : list cmd_desc := [\n  " + ";\n  ".join("expected_cmd_" + n for n in names) + "\n].\n")
open(os.path.join(ROOT, "coq/Model/SmbOpaqueExpected.v"), "w").write("\n".join(out))
v = ("(* The SMB command structures the translator cannot follow completely are, statement for statement, what they were when\n"
     "   they were examined by hand (the recognised read/emit programs and the text of every opaque statement).  Statement only. *)\n"
     "From Coq Require Import List NArith String Bool.\n"
     "From Mant Require Import Model.SmbLayout Model.SmbOpaqueExpected Gen.SmbLayouts.\n\n"
     "Theorem smb_untranslated_unchanged :\n  filter (fun c => negb (cd_translated c)) all_cmds = expected_untranslated.\n"
     "Proof. reflexivity. Qed.\nPrint Assumptions smb_untranslated_unchanged.\n")
open(os.path.join(ROOT, "coq/Properties/SmbOpaque.v"), "w").write(v)
print(len(names), names)
