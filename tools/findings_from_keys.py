#!/usr/bin/env python3
"""Development-time tool: turns /verif/.build/Cxx-keys.json (from collect_findings.py) into props/Cxx.findings.json,
one finding per structure (key Cxx/<Structure>/*) plus template-wide keys kept as they are. Review before committing."""
import sys, json, collections, re
pid = sys.argv[1]
keys = json.load(open("/verif/.build/%s-keys.json" % pid))
groups = collections.OrderedDict()
for k, v in keys.items():
    parts = k.split("/")
    if len(parts) >= 3:
        g = "/".join(parts[:2]) + "/*"
    else:
        g = k
    groups.setdefault(g, []).append((k, v))
out = []
for g, items in groups.items():
    kinds = sorted(set("/".join(k.split("/")[2:]) or k for k, _ in items))
    det = next((v[3] for _, v in items if len(v) > 3), "")
    out.append({"property": pid, "key": g,
                "what": ("%s fails on the unchanged tree (%s)" % (g.split("/")[1] if "/" in g else g, ", ".join(kinds)))[:300],
                "witness": det[:500]})
extra = "/verif/props/%s.findings.extra.json" % pid
try:
    out += json.load(open(extra))
except FileNotFoundError:
    pass
json.dump(out, open("/verif/props/%s.findings.json" % pid, "w"), indent=1)
print(len(out))
