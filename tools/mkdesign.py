#!/usr/bin/env python3
"""Development-time tool: rewrites the generated appendices of DESIGN.md (between the BEGIN/END GENERATED markers)
from props/*.json, KNOWN_FINDINGS.json, evidence/*.json and seeded/*/meta.json."""
import json, glob, os, re
ROOT = os.path.dirname(os.path.dirname(os.path.abspath(__file__)))
os.chdir(ROOT)
out = []
out.append("### F.1 Claimed level, obligations and correspondence volume (from the last committed evidence)\n")
out.append("| Property | level | theorems discharged | model/impl cases (distinct) | oracle checks | in-Coq replay | known findings that reproduce | quick wall time |")
out.append("|---|---|---|---|---|---|---|---|")
for pid in ["C%02d" % i for i in range(1, 21)]:
    p = "evidence/%s.json" % pid
    if not os.path.exists(p):
        continue
    e = json.load(open(p)); c = e["coverage"]
    out.append("| %s | %s | %d/%d | %d | %d | %d | %d | %.0f s |" % (pid, e["level"], c["discharged"], c["obligations"], c.get("distinct_nontrivial", 0),
               c.get("oracle_checks", 0), c.get("coq_vm_compute_replayed", 0), len(c.get("known_findings_reproduced", [])), e["wall_s"]))
k = json.load(open("KNOWN_FINDINGS.json"))
out.append("\n### F.2 Repairs committed to /repo (`fix:` commits; each line is also in KNOWN_FINDINGS.json `fixed`)\n")
for l in k["fixed"]:
    out.append("* " + l.replace("fixed: ", ""))
out.append("\n### F.3 Known findings (recorded, not repaired)\n")
by = {}
for f in k["findings"]:
    by.setdefault(f["property"], []).append(f)
for pid in sorted(by):
    fs = by[pid]
    if len(fs) > 12:
        kinds = {}
        for f in fs:
            kinds.setdefault(f["key"].split("/")[-1], []).append(f["key"])
        out.append("* **%s** — %d keys: " % (pid, len(fs)) + "; ".join("%d × `…/%s`" % (len(v), kk) for kk, v in sorted(kinds.items(), key=lambda x: -len(x[1]))))
    else:
        for f in fs:
            out.append("* **%s** `%s` — %s" % (pid, f["key"], f["what"][:260]))
out.append("\n### F.4 Seeded changes (written by independent sub-agents from the property text only) and the checks that catch them\n")
out.append("| Seed | what the change does (agent's notes, first line) | confirmed (suite passes, demo fails/passes) | check → result | replay |")
out.append("|---|---|---|---|---|")
for d in sorted(glob.glob("seeded/*/meta.json")):
    m = json.load(open(d))
    sd = os.path.dirname(d)
    notes = ""
    np_ = os.path.join(sd, "notes.md")
    if os.path.exists(np_):
        for line in open(np_):
            line = line.strip().lstrip("#").strip()
            if len(line) > 25 and not line.lower().startswith(("notes", "mutation", "c0", "c1", "c2")):
                notes = line[:170]; break
    res = []; rep = []
    for p, c in m.get("checks", {}).items():
        res.append("%s: %s" % (p, "DETECTED" if c["detected"] else "missed"))
        r = c.get("replay", {})
        if c["detected"]:
            x = r.get("key") or ("no-failing-input-found" if r.get("no_failing_input_found") else r.get("kind", ""))
            t = c.get("tie", {})
            if not r.get("key") and t.get("verdict") == "differs" and t.get("differences"):
                x += "`; behaviour differs from the baseline at `" + t["differences"][0].split("/")[-1][:70]
            elif not r.get("key") and t.get("verdict") == "not-covered" and t.get("uncovered"):
                x += "`; changed statements not reached under comparison in `" + str(t["uncovered"][0]).split("/")[-1][:60]
            rep.append(x)
    conf = m.get("confirmed", {})
    out.append("| %s | %s | %s | %s | %s |" % (os.path.basename(sd), notes.replace("|", "/"), "yes" if conf.get("suite_passes_with_patch") and conf.get("demo", {}).get("confirmed") else "NO",
               "; ".join(res), "; ".join("`%s`" % x for x in rep)))
out.append("\n### F.5 Semantics-preserving refactorings (written by further sub-agents; `harmless/<name>/`) and what the checks say\n")
out.append("| Refactoring | what it does (agent's notes, first line) | check → result | source-shape tie |")
out.append("|---|---|---|---|")
for d in sorted(glob.glob("harmless/*/meta.json")):
    m = json.load(open(d))
    sd = os.path.dirname(d)
    notes = ""
    np_ = os.path.join(sd, "notes.md")
    if os.path.exists(np_):
        for line in open(np_):
            line = line.strip().lstrip("#").strip()
            if len(line) > 25 and not line.lower().startswith(("notes", "refactoring", "c0", "c1", "c2")):
                notes = line[:170]; break
    c = m["check"]
    t = c.get("tie", {})
    tie = "identical" if t.get("identical") else (t.get("verdict") or "-")
    if t.get("verdict") == "not-covered" and t.get("uncovered"):
        tie += " (`%s`)" % str(t["uncovered"][0]).split("/")[-1][:60]
    res = "passes" if c["rc"] == 0 else ("reported, `no-failing-input-found`" if c.get("replay", {}).get("no_failing_input_found") else "reported")
    out.append("| %s | %s | %s: %s | %s |" % (os.path.basename(sd), notes.replace("|", "/"), m["property"], res, tie))
gen = "\n".join(out) + "\n"
s = open("DESIGN.md").read()
b, e = "<!-- BEGIN GENERATED -->\n", "<!-- END GENERATED -->\n"
if b in s:
    s = s[:s.index(b) + len(b)] + gen + s[s.index(e):]
else:
    s += "\n## Appendix F — as built (generated by tools/mkdesign.py; do not edit by hand)\n\n" + b + gen + e
open("DESIGN.md", "w").write(s)
print("ok", len(gen))
