#!/usr/bin/env python3
"""Regenerates MANIFEST.json and KNOWN_FINDINGS.json from props/*.json, props/*.findings.json, props/*.fixed.txt."""
import json, os, re, glob
ROOT = os.path.dirname(os.path.dirname(os.path.abspath(__file__)))
props = [json.loads(l) for l in open(os.path.join(ROOT, "properties.jsonl"))]
cfgs = {}
for f in sorted(glob.glob(os.path.join(ROOT, "props", "C*.json"))):
    b = os.path.basename(f)
    if re.match(r"^C\d+\.json$", b):
        cfgs[b[:-5]] = json.load(open(f))
ready = set(open(os.path.join(ROOT, "props", "ready.txt")).read().split())
cfgs = {k: v for k, v in cfgs.items() if k in ready}
NA = {}
na_path = os.path.join(ROOT, "props", "not_applicable.json")
if os.path.exists(na_path):
    NA = json.load(open(na_path))
hooks = []
hp = os.path.join(ROOT, "props", "hooks.txt")
if os.path.exists(hp):
    hooks = [l.strip() for l in open(hp) if l.strip() and not l.startswith("#")]
m = {"version": 1,
     "setup_cmd": "./check setup",
     "hooks": {"guard": "verif",
               "enable": "go build -tags 'verif cNN' in /verif/harness (its go.mod replaces the Manticore module by /repo); hook files in /repo carry //go:build verif",
               "baseline_off_cmd": "cd /repo && GOFLAGS=-mod=mod GOPROXY=off go test -vet=off -count=1 ./...",
               "source_commits": hooks, "add_only": True},
     "engines": [{"name": "rocq-proof+correspondence", "path": "/verif/check", "serves_properties": sorted(cfgs),
                  "kind_free_text": "Coq 8.16.1 theorems over a model regenerated from source (go2coq) or hand-written and tied by a differential correspondence check (extracted OCaml + in-Coq vm_compute replay); Go-side oracles for search and replay"}],
     "checks": [], "not_applicable": [],
     "notes": "See DESIGN.md. ./check <id> --replay <file> re-executes a replay. KNOWN_FINDINGS.json lists recorded defects (KNOWN-FINDING lines) and fixed ones."}
for p in props:
    pid = p["id"]
    if pid in cfgs:
        c = cfgs[pid]
        m["checks"].append({
            "property_id": pid,
            "quick_cmd": "./check %s --tier quick" % pid,
            "thorough_cmd": "./check %s --tier thorough" % pid,
            "evidence_file": "/verif/evidence/%s.json" % pid,
            "replay_cmd_template": "./check %s --replay {path}" % pid,
            "engine": "rocq-proof+correspondence",
            "level_claimed": {"category": c.get("level", "proof"), "text": c.get("level_text", ""), "design_ref": "DESIGN.md section 6 (%s)" % pid},
            "level_note": c.get("level_note", ""),
            "technique": c.get("technique", "machine-checked proof in Rocq (Coq 8.16.1) + model/implementation correspondence")})
    else:
        m["not_applicable"].append({"property_id": pid, "reason": NA.get(pid, "not yet built in this revision of /verif (work in progress; see DESIGN.md section 11 for the build order)")})
json.dump(m, open(os.path.join(ROOT, "MANIFEST.json"), "w"), indent=1)

findings, fixed = [], []
for f in sorted(glob.glob(os.path.join(ROOT, "props", "*.findings.json"))):
    findings += json.load(open(f))
for f in sorted(glob.glob(os.path.join(ROOT, "props", "*.fixed.txt"))):
    fixed += [l.strip() for l in open(f) if l.strip()]
k = {"_comment": "Committed, never written at run time. 'findings' are genuine defects recorded rather than repaired (keyed narrowly; a check prints KNOWN-FINDING for each that still reproduces and exits 0). 'fixed' entries suppress nothing.",
     "findings": findings, "fixed": fixed}
json.dump(k, open(os.path.join(ROOT, "KNOWN_FINDINGS.json"), "w"), indent=1)
print("claimed:", sorted(cfgs), "findings:", len(findings), "fixed:", len(fixed))
