#!/usr/bin/env python3
"""Development-time tool (never run by a check): runs a property's harness on the CURRENT tree with several
seeds and tiers, and lists the oracle failure keys seen, to help write props/Cxx.findings.json by hand/with review."""
import sys, json, subprocess, os, collections
pid = sys.argv[1]; n = int(sys.argv[2]) if len(sys.argv) > 2 else 6
keys = collections.OrderedDict()
for seed in range(1, n + 1):
    for tier in ("quick", "thorough"):
        d = "/verif/.build/run/%s-collect" % pid
        subprocess.run(["/verif/.build/harness-" + pid, "-prop", pid, "-tier", tier, "-seed", str(seed), "-out", d],
                       stdout=subprocess.DEVNULL, stderr=subprocess.DEVNULL, timeout=3000)
        st = json.load(open(d + "/stats.json"))
        for k, v in st["hist"].items():
            if k.startswith("oraclefail:"):
                keys.setdefault(k[len("oraclefail:"):], [seed, tier, v])
        for l in open(d + "/failures.jsonl"):
            f = json.loads(l)
            if len(keys[f["key"]]) == 3:
                keys[f["key"]].append(f["detail"][:400])
json.dump(keys, open("/verif/.build/%s-keys.json" % pid, "w"), indent=1)
print(len(keys))
for k, v in keys.items():
    print(k, v[:3])
