#!/usr/bin/env python3
"""Re-validation of the structural ties by differential execution against the pinned baseline (DESIGN 12.9).

  apidiff.py <repo> <dir,dir,...> <seconds> <workdir> [seed]

Builds a scratch program that holds, side by side, the packages <dir> of <repo>'s working tree and the same packages
at the baseline commit (props/baseline.txt), runs random API call sequences on both in lockstep (apidiff/rt), and
reports: behavioural differences, and which statements of the functions whose text changed were executed.
The verdict `re-established` needs: no difference, no crash/hang confined to the current code, and every statement of
every changed function executed while being compared.
"""
import json, os, shutil, subprocess, sys

ROOT = os.path.dirname(os.path.dirname(os.path.abspath(__file__)))
BUILD = os.path.join(ROOT, ".build")
MOD = "github.com/TheManticoreProject/Manticore"


def sh(cmd, cwd=None, timeout=900, env=None):
    e = dict(os.environ)
    e.setdefault("GOFLAGS", "-mod=mod")
    e.setdefault("GOPROXY", "off")
    if env:
        e.update(env)
    try:
        p = subprocess.run(cmd, shell=isinstance(cmd, str), cwd=cwd, timeout=timeout, env=e,
                           stdout=subprocess.PIPE, stderr=subprocess.STDOUT, text=True, errors="replace")
        return p.returncode, p.stdout
    except subprocess.TimeoutExpired as ex:
        return 124, (ex.stdout or "") if isinstance(ex.stdout, str) else ""


def baseline_commit():
    return open(os.path.join(ROOT, "props", "baseline.txt")).read().split()[0]


def run(repo, dirs, seconds, work, seed=1, shards=8):
    """returns a dict: verdict in {re-established, differs, not-covered, unavailable}, plus details"""
    res = {"verdict": "unavailable", "dirs": dirs, "seconds": seconds, "seed": seed}
    shutil.rmtree(work, ignore_errors=True)
    os.makedirs(os.path.join(work, "base"))
    base = baseline_commit()
    res["baseline"] = base
    rc, out = sh("git -C %s archive %s %s | tar -x -C %s" % (repo, base, " ".join(dirs), os.path.join(work, "base")))
    if rc != 0 or any(not os.path.isdir(os.path.join(work, "base", d)) for d in dirs):
        res["why"] = "baseline sources not available: " + out[-400:]
        return res
    gen = os.path.join(BUILD, "apidiffgen")
    rc, out = sh("go build -o %s ." % gen, cwd=os.path.join(ROOT, "apidiff", "gen"))
    if rc != 0:
        res["why"] = "generator does not build: " + out[-800:]
        return res
    mod = os.path.join(work, "mod")
    os.makedirs(mod)
    rc, out = sh([gen, "-repo", repo, "-base", os.path.join(work, "base"), "-dirs", ",".join(dirs), "-out", mod])
    if rc != 0:
        res["why"] = "generator failed: " + out[-800:]
        return res
    shutil.copy(os.path.join(ROOT, "apidiff", "rt", "rt.go"), os.path.join(mod, "rt.go"))
    gomod = open(os.path.join(ROOT, "harness", "go.mod")).read().replace("module verif/harness", "module verifdiff")
    gomod = gomod.replace("=> /repo", "=> " + repo)
    open(os.path.join(mod, "go.mod"), "w").write(gomod)
    shutil.copy(os.path.join(ROOT, "harness", "go.sum"), os.path.join(mod, "go.sum"))
    ch = json.load(open(os.path.join(mod, "changed.json")))
    ch["changed"] = ch.get("changed") or []
    res["changed"] = ch["changed"]
    res["info"] = ch["info"]
    coverpkg = "verifdiff," + ",".join(MOD + "/" + d for d in dirs)
    rc, out = sh("go build -cover -coverpkg=%s -o apidiff.bin ." % coverpkg, cwd=mod, timeout=900)
    if rc != 0:
        res["why"] = "the comparison program does not build (the baseline package no longer compiles against the current tree): " + out[-1500:]
        return res
    cov = os.path.join(work, "cov")
    outd = os.path.join(work, "out")
    os.makedirs(cov); os.makedirs(outd)
    rc, out = sh("ulimit -v 24000000; timeout %d ./apidiff.bin -seed %d -shards %d -seconds %d -out %s" % (
        seconds + 120, seed, shards, seconds, outd), cwd=mod, timeout=seconds + 180, env={"GOCOVERDIR": cov, "GOMEMLIMIT": "2GiB"})
    diffs, events = [], []
    calls = {}
    notes = {}
    seqs = steps = 0
    for fn in sorted(os.listdir(outd)):
        p = os.path.join(outd, fn)
        if fn.startswith("result."):
            for l in open(p):
                try: diffs.append(json.loads(l))
                except Exception: pass
        elif fn == "events.jsonl":
            for l in open(p):
                try: events.append(json.loads(l))
                except Exception: pass
        elif fn.startswith("stats.") and fn.endswith(".json"):
            st = json.load(open(p))
            seqs += st["sequences"]; steps += st["steps"]
            for c in st["callables"]:
                calls[c["name"]] = calls.get(c["name"], 0) + c["calls"]
                if c.get("skip"): notes[c["name"]] = "not called: " + c["skip"]
                elif c.get("note") and "not compared" in c["note"]: notes[c["name"]] = c["note"]
    res["sequences"], res["steps"] = seqs, steps
    res["calls"] = calls
    res["notes"] = notes
    for ev in events:
        if ev.get("confirmed"):
            diffs.append({"callable": ev["callable"], "seq": ev["seq"], "step": ev["step"],
                          "what": "the current code %s where the baseline returned" % ("does not return" if ev["kind"] == "hang" else "crashes the process")})
    res["differences"] = diffs
    res["events"] = events
    # statement coverage of the changed functions (current code)
    prof = os.path.join(work, "cover.txt")
    rc, out = sh("go tool covdata textfmt -i=%s -o=%s" % (cov, prof), cwd=mod)
    covered = {}
    if rc == 0 and os.path.exists(prof):
        for l in open(prof):
            if l.startswith("mode:"): continue
            try:
                loc, nst, cnt = l.rsplit(" ", 2)
                f, rng = loc.rsplit(":", 1)
                a, b = rng.split(",")
                key = (f, int(a.split(".")[0]), int(b.split(".")[0]), int(a.split(".")[1]), int(b.split(".")[1]))
                covered[key] = max(covered.get(key, 0), int(cnt))
            except Exception:
                pass
    unc = []
    for c in ch["changed"]:
        if c["Key"] == "<package>":
            unc.append({"function": c["Dir"], "why": "package has no baseline"}); continue
        f = MOD + "/" + c["Dir"] + "/" + c["File"]
        blocks = [(k, v) for k, v in covered.items() if k[0] == f and k[1] >= c["Start"] and k[2] <= c["End"]]
        # only the statements that differ from the baseline have to be reached (an untouched, unreachable error
        # branch of the same function says nothing about the change)
        lines = set(c.get("Lines") or [])
        try:
            srcl = open(os.path.join(repo, c["Dir"], c["File"]), errors="replace").read().split("\n")
        except OSError:
            srcl = []

        def stmt_lines(k):
            # the lines on which the block has statement text (a block that opens after a `{` at the end of a line
            # starts on the next line; one that ends at a `}` that stands alone ends on the line before)
            lo, hi = k[1], k[2]
            if lo - 1 < len(srcl) and srcl[lo - 1][k[3] - 1:].strip() in ("", "{"):
                lo += 1
            if hi - 1 < len(srcl) and srcl[hi - 1][:k[4] - 1].strip() in ("", "}"):
                hi -= 1
            return range(lo, hi + 1)
        rel = [(k, v) for k, v in blocks if any(l in lines for l in stmt_lines(k))]
        miss = sorted(k[1] for k, v in rel if v == 0)
        name = c["Dir"] + "." + c["Key"]
        if not blocks:
            unc.append({"function": name, "why": "never executed" + ((": " + c["Taint"]) if c.get("Taint") else "")})
        elif miss:
            unc.append({"function": name, "why": "statements never executed", "file": c["File"], "lines": miss[:12]})
    res["uncovered"] = unc
    nondet_changed = [n for n, t in notes.items() if "not a function" in t]
    res["not_compared"] = nondet_changed
    # a changed function that is reached through a call whose outcome is not a function of its inputs (clock, random
    # numbers) was executed but not compared
    try:
        focus = set(json.load(open(os.path.join(mod, "focus.json"))))
    except Exception:
        focus = set()
    for n in nondet_changed:
        if n in focus:
            unc.append({"function": n, "why": "reaches changed code but is not a function of its inputs (clock, random numbers): executed, not compared"})
    if diffs:
        res["verdict"] = "differs"
    elif seqs == 0:
        res["verdict"] = "unavailable"; res["why"] = "the comparison program did not run: " + out[-500:]
    elif unc or not ch["changed"]:
        res["verdict"] = "not-covered"
    else:
        res["verdict"] = "re-established"
    return res


if __name__ == "__main__":
    repo, dirs, seconds, work = sys.argv[1], sys.argv[2].split(","), int(sys.argv[3]), sys.argv[4]
    seed = int(sys.argv[5]) if len(sys.argv) > 5 else 1
    r = run(repo, dirs, seconds, work, seed)
    r.pop("calls", None)
    for d in r.get("differences", []):
        d["history"] = d.get("history", [])[-6:]
    print(json.dumps(r, indent=1))
