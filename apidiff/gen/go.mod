module verif/apidiffgen

go 1.23
