// apidiff/gen: generates the scratch program that compares the exported API of packages of /repo's current
// working tree with the same packages at the pinned baseline commit (the tree the hand-written models were
// validated against).  See DESIGN.md section 12.9.
//
//	gen -repo /repo -base <dir holding the baseline copies of the packages> -dirs a/b,c/d -out <scratch module dir>
//
// It writes <out>/old/p<i>/*.go (baseline sources), <out>/tables.go (the callables and types of both versions, a
// dictionary of the literals of both versions, the functions that must not be called because they reach the network,
// the file system, the clock's Sleep or os.Exit) and <out>/changed.json (the functions whose text differs from the
// baseline, with their line ranges in the current source: the coverage requirement of the re-validation).
package main

import (
	"bytes"
	"encoding/json"
	"flag"
	"fmt"
	"go/ast"
	"go/parser"
	"go/printer"
	"go/token"
	"os"
	"path/filepath"
	"sort"
	"strconv"
	"strings"
)

const modPath = "github.com/TheManticoreProject/Manticore"

type fn struct {
	Key   string // "F" or "T.M"
	Recv  string
	Name  string
	File  string
	Start int
	End   int
	Text  string
	Decl  *ast.FuncDecl
	calls []string // callee keys inside the package (by bare name) and "pkg.Func"
	taint string
}

type pkg struct {
	dir     string
	name    string
	fset    *token.FileSet
	files   map[string]*ast.File
	funcs   map[string]*fn
	types   map[string]*ast.TypeSpec
	ints    map[int64]bool
	strs    map[string]bool
	imports map[string]string // alias -> path, per package (merged over files)
	src     map[string][]string
	falseC  map[string]bool     // package-level constants that are literally false
	dead    map[string][][2]int // file -> line ranges of blocks guarded by such a constant
}

func nodeStr(fset *token.FileSet, n ast.Node) string {
	var b bytes.Buffer
	printer.Fprint(&b, fset, n)
	return strings.Join(strings.Fields(b.String()), " ")
}

var taintPkgs = map[string]bool{"net": true, "os": true, "os/exec": true, "net/http": true, "crypto/tls": true,
	"syscall": true, "os/signal": true, "github.com/go-ldap/ldap/v3": true, "bufio": false}

func load(root, dir string) *pkg {
	p := &pkg{dir: dir, fset: token.NewFileSet(), files: map[string]*ast.File{}, funcs: map[string]*fn{},
		types: map[string]*ast.TypeSpec{}, ints: map[int64]bool{}, strs: map[string]bool{}, imports: map[string]string{}, src: map[string][]string{}, falseC: map[string]bool{}, dead: map[string][][2]int{}}
	ents, err := os.ReadDir(filepath.Join(root, dir))
	if err != nil {
		return nil
	}
	for _, e := range ents {
		n := e.Name()
		if e.IsDir() || !strings.HasSuffix(n, ".go") || strings.HasSuffix(n, "_test.go") {
			continue
		}
		src, err := os.ReadFile(filepath.Join(root, dir, n))
		if err != nil {
			continue
		}
		if bytes.Contains(src, []byte("//go:build verif")) {
			continue
		}
		f, err := parser.ParseFile(p.fset, n, src, 0)
		if err != nil {
			continue
		}
		p.files[n] = f
		p.src[n] = strings.Split(string(src), "\n")
		p.name = f.Name.Name
		for _, im := range f.Imports {
			path, _ := strconv.Unquote(im.Path.Value)
			alias := filepath.Base(path)
			if strings.HasPrefix(alias, "v") && len(alias) <= 3 { // .../ldap/v3
				alias = filepath.Base(filepath.Dir(path))
			}
			if im.Name != nil {
				alias = im.Name.Name
			}
			p.imports[alias] = path
		}
		for _, d := range f.Decls {
			switch x := d.(type) {
			case *ast.FuncDecl:
				if x.Body == nil {
					continue
				}
				k := x.Name.Name
				recv := ""
				if x.Recv != nil && len(x.Recv.List) > 0 {
					t := x.Recv.List[0].Type
					if st, ok := t.(*ast.StarExpr); ok {
						t = st.X
					}
					if ix, ok := t.(*ast.IndexExpr); ok {
						t = ix.X
					}
					if id, ok := t.(*ast.Ident); ok {
						recv = id.Name
					}
					k = recv + "." + k
				}
				fd := &fn{Key: k, Recv: recv, Name: x.Name.Name, File: n, Decl: x,
					Start: p.fset.Position(x.Pos()).Line, End: p.fset.Position(x.End()).Line,
					Text: nodeStr(p.fset, x)}
				ast.Inspect(x.Body, func(y ast.Node) bool {
					ce, ok := y.(*ast.CallExpr)
					if !ok {
						return true
					}
					switch f := ce.Fun.(type) {
					case *ast.Ident:
						fd.calls = append(fd.calls, f.Name)
					case *ast.SelectorExpr:
						if id, ok := f.X.(*ast.Ident); ok && id.Obj == nil {
							if path, ok := p.imports[id.Name]; ok {
								fd.calls = append(fd.calls, path+"."+f.Sel.Name)
								return true
							}
						}
						fd.calls = append(fd.calls, "."+f.Sel.Name)
					}
					return true
				})
				p.funcs[k] = fd
			case *ast.GenDecl:
				for _, sp := range x.Specs {
					if ts, ok := sp.(*ast.TypeSpec); ok {
						p.types[ts.Name.Name] = ts
					}
				}
			}
		}
		// constant expressions over literals (48 << 10, 4 * 1024, 1<<16 - 1) are values a condition may be keyed on
		var fold func(e ast.Expr) (int64, bool)
		fold = func(e ast.Expr) (int64, bool) {
			switch x := e.(type) {
			case *ast.ParenExpr:
				return fold(x.X)
			case *ast.BasicLit:
				if x.Kind == token.INT {
					v, err := strconv.ParseInt(strings.ReplaceAll(x.Value, "_", ""), 0, 64)
					return v, err == nil
				}
			case *ast.BinaryExpr:
				a, ok1 := fold(x.X)
				b, ok2 := fold(x.Y)
				if ok1 && ok2 {
					switch x.Op {
					case token.SHL:
						if b >= 0 && b < 62 {
							return a << uint(b), true
						}
					case token.MUL:
						return a * b, true
					case token.ADD:
						return a + b, true
					case token.SUB:
						return a - b, true
					}
				}
			}
			return 0, false
		}
		ast.Inspect(f, func(y ast.Node) bool {
			if be, ok := y.(*ast.BinaryExpr); ok {
				if v, ok := fold(be); ok {
					p.ints[v] = true
				}
			}
			if bl, ok := y.(*ast.BasicLit); ok {
				switch bl.Kind {
				case token.INT:
					if v, err := strconv.ParseInt(strings.ReplaceAll(bl.Value, "_", ""), 0, 64); err == nil {
						p.ints[v] = true
					}
				case token.STRING:
					if s, err := strconv.Unquote(bl.Value); err == nil && len(s) <= 80 {
						p.strs[s] = true
					}
				case token.CHAR:
					if s, err := strconv.Unquote(bl.Value); err == nil && len(s) > 0 {
						p.ints[int64([]rune(s)[0])] = true
					}
				}
			}
			return true
		})
	}
	if len(p.files) == 0 {
		return nil
	}
	for _, f := range p.files {
		for _, d := range f.Decls {
			if gd, ok := d.(*ast.GenDecl); ok && gd.Tok == token.CONST {
				for _, sp := range gd.Specs {
					vs := sp.(*ast.ValueSpec)
					for i, nm := range vs.Names {
						if i < len(vs.Values) {
							if id, ok := vs.Values[i].(*ast.Ident); ok && id.Name == "false" {
								p.falseC[nm.Name] = true
							}
						}
					}
				}
			}
		}
	}
	// a local `x := false` that is never assigned again guards dead code too
	for n, f := range p.files {
		for _, d := range f.Decls {
			fd, ok := d.(*ast.FuncDecl)
			if !ok || fd.Body == nil {
				continue
			}
			falseL := map[string]int{}
			ast.Inspect(fd.Body, func(y ast.Node) bool {
				switch s := y.(type) {
				case *ast.AssignStmt:
					for i, l := range s.Lhs {
						id, ok := l.(*ast.Ident)
						if !ok {
							continue
						}
						if s.Tok == token.DEFINE && len(s.Lhs) == len(s.Rhs) {
							if r, ok := s.Rhs[i].(*ast.Ident); ok && r.Name == "false" {
								falseL[id.Name]++
								continue
							}
						}
						falseL[id.Name] += 2 // any other assignment disqualifies
					}
				case *ast.UnaryExpr:
					if id, ok := s.X.(*ast.Ident); ok && s.Op == token.AND {
						falseL[id.Name] += 2
					}
				}
				return true
			})
			ast.Inspect(fd.Body, func(y ast.Node) bool {
				if is, ok := y.(*ast.IfStmt); ok && is.Init == nil {
					if id, ok := is.Cond.(*ast.Ident); ok && falseL[id.Name] == 1 {
						p.dead[n] = append(p.dead[n], [2]int{p.fset.Position(is.Body.Pos()).Line, p.fset.Position(is.Body.End()).Line})
					}
				}
				return true
			})
		}
	}
	// `if err != nil { return ..., <something built from err> }`: pure propagation of a callee's failure.  Such a block
	// can only hand the error on; when no input makes the callee fail (des.NewCipher on an 8-byte key) it can never
	// run, and it is not required to have run.  A block that swallows the error (`return nil`) does not qualify.
	for n, f := range p.files {
		ast.Inspect(f, func(y ast.Node) bool {
			is, ok := y.(*ast.IfStmt)
			if !ok || is.Else != nil || len(is.Body.List) != 1 {
				return true
			}
			be, ok := is.Cond.(*ast.BinaryExpr)
			if !ok || be.Op != token.NEQ {
				return true
			}
			x, ok1 := be.X.(*ast.Ident)
			z, ok2 := be.Y.(*ast.Ident)
			if !ok1 || !ok2 || z.Name != "nil" || !strings.HasPrefix(strings.ToLower(x.Name), "err") {
				return true
			}
			rs, ok := is.Body.List[0].(*ast.ReturnStmt)
			if !ok || len(rs.Results) == 0 {
				return true
			}
			uses := false
			ast.Inspect(rs.Results[len(rs.Results)-1], func(q ast.Node) bool {
				if id, ok := q.(*ast.Ident); ok && id.Name == x.Name {
					uses = true
				}
				return true
			})
			if uses {
				p.dead[n] = append(p.dead[n], [2]int{p.fset.Position(is.Body.Pos()).Line, p.fset.Position(is.Body.End()).Line})
			}
			return true
		})
	}
	for n, f := range p.files {
		ast.Inspect(f, func(y ast.Node) bool {
			if is, ok := y.(*ast.IfStmt); ok && is.Init == nil {
				if id, ok := is.Cond.(*ast.Ident); ok && p.falseC[id.Name] && (id.Obj == nil || id.Obj.Kind == ast.Con) {
					p.dead[n] = append(p.dead[n], [2]int{p.fset.Position(is.Body.Pos()).Line, p.fset.Position(is.Body.End()).Line})
				}
			}
			return true
		})
	}
	return p
}

// taint: functions that (transitively, inside the package) call into net, os, exec, ... or Sleep/Exit/Fatal
func (p *pkg) computeTaint() {
	for _, f := range p.funcs {
		for _, c := range f.calls {
			i := strings.LastIndex(c, ".")
			if i <= 0 {
				continue
			}
			path, name := c[:i], c[i+1:]
			if taintPkgs[path] {
				// pure helpers of os/net that touch nothing
				if path == "net" && (name == "ParseIP" || name == "IP" || name == "IPv4" || name == "ParseCIDR" || name == "IPMask" || name == "CIDRMask" || name == "HardwareAddr" || name == "ParseMAC") {
					continue
				}
				if path == "os" && (name == "Getenv" || name == "IsNotExist") {
					continue
				}
				f.taint = path + "." + name
			}
			if path == "time" && (name == "Sleep" || name == "After" || name == "NewTimer" || name == "NewTicker" || name == "Tick" || name == "AfterFunc") {
				f.taint = "time." + name
			}
			if path == "log" && strings.HasPrefix(name, "Fatal") {
				f.taint = "log." + name
			}
		}
		if f.taint == "" {
			ast.Inspect(f.Decl.Body, func(y ast.Node) bool {
				switch y.(type) {
				case *ast.GoStmt, *ast.SelectStmt:
					f.taint = "goroutine/select"
				}
				return true
			})
		}
	}
	for changed := true; changed; {
		changed = false
		for _, f := range p.funcs {
			if f.taint != "" {
				continue
			}
			for _, c := range f.calls {
				var cal []*fn
				if strings.HasPrefix(c, ".") {
					for _, g := range p.funcs {
						if g.Recv != "" && g.Name == c[1:] {
							cal = append(cal, g)
						}
					}
				} else if !strings.Contains(c, ".") {
					if g, ok := p.funcs[c]; ok {
						cal = append(cal, g)
					}
				}
				for _, g := range cal {
					if g.taint != "" {
						f.taint = "calls " + g.Key
						changed = true
					}
				}
			}
		}
	}
}

// changedLines: the lines of the new function that are not in the old one (longest common subsequence over the
// lines with blanks and comments removed), plus the line after every place where old lines were deleted
func changedLines(oldL, newL []string, newStart int) []int {
	norm := func(l string) string {
		if i := strings.Index(l, "//"); i >= 0 && !strings.Contains(l[:i], "\"") {
			l = l[:i]
		}
		return strings.Join(strings.Fields(l), " ")
	}
	a := make([]string, len(oldL))
	b := make([]string, len(newL))
	for i, l := range oldL {
		a[i] = norm(l)
	}
	for i, l := range newL {
		b[i] = norm(l)
	}
	n, m := len(a), len(b)
	lcs := make([][]int, n+1)
	for i := range lcs {
		lcs[i] = make([]int, m+1)
	}
	for i := n - 1; i >= 0; i-- {
		for j := m - 1; j >= 0; j-- {
			if a[i] == b[j] {
				lcs[i][j] = lcs[i+1][j+1] + 1
			} else if lcs[i+1][j] >= lcs[i][j+1] {
				lcs[i][j] = lcs[i+1][j]
			} else {
				lcs[i][j] = lcs[i][j+1]
			}
		}
	}
	set := map[int]bool{}
	i, j := 0, 0
	for i < n || j < m {
		switch {
		case i < n && j < m && a[i] == b[j]:
			i++
			j++
		case j < m && (i == n || lcs[i][j+1] >= lcs[i+1][j]):
			if b[j] != "" {
				set[newStart+j] = true
			}
			j++
		default:
			if a[i] != "" {
				// a deleted line: the statement that now stands here must be reached
				k := j
				for k < m && b[k] == "" {
					k++
				}
				if k < m {
					set[newStart+k] = true
				}
				if j > 0 {
					set[newStart+j-1] = true
				}
			}
			i++
		}
	}
	var out []int
	for l := range set {
		out = append(out, l)
	}
	sort.Ints(out)
	return out
}

func exported(s string) bool { return s != "" && s[0] >= 'A' && s[0] <= 'Z' }

func main() {
	repo := flag.String("repo", "/repo", "")
	base := flag.String("base", "", "")
	dirs := flag.String("dirs", "", "")
	out := flag.String("out", "", "")
	flag.Parse()
	var tb strings.Builder
	tb.WriteString("// generated by apidiff/gen: do not edit\npackage main\n\nimport (\n\t\"reflect\"\n")
	var body strings.Builder
	type changedFn struct {
		Dir, Key, File, Taint string
		Start, End            int
		New                   bool
		Lines                 []int
	}
	var changed []changedFn
	ints := map[int64]bool{}
	strs := map[string]bool{}
	focus := map[string]bool{}
	newInts := map[int64]bool{}
	newStrs := map[string]bool{}
	skips := map[string]string{}
	var infos []string
	for i, dir := range strings.Split(*dirs, ",") {
		dir = strings.TrimSpace(dir)
		if dir == "" {
			continue
		}
		np := load(*repo, dir)
		op := load(*base, dir)
		if np == nil || op == nil {
			infos = append(infos, "package "+dir+" missing on one side")
			changed = append(changed, changedFn{Dir: dir, Key: "<package>", New: true})
			continue
		}
		np.computeTaint()
		op.computeTaint()
		// copy the baseline sources
		od := filepath.Join(*out, "old", fmt.Sprintf("p%d", i))
		os.MkdirAll(od, 0o755)
		for n := range op.files {
			src, _ := os.ReadFile(filepath.Join(*base, dir, n))
			os.WriteFile(filepath.Join(od, n), src, 0o644)
		}
		oa, na := fmt.Sprintf("o%d", i), fmt.Sprintf("n%d", i)
		usedO, usedN := false, false
		var names []string
		for k, f := range np.funcs {
			if f.Recv == "" && exported(f.Name) && f.Decl.Type.TypeParams == nil {
				if g, ok := op.funcs[k]; ok && g.Recv == "" && g.Decl.Type.TypeParams == nil {
					names = append(names, k)
				}
			}
		}
		sort.Strings(names)
		for _, k := range names {
			fmt.Fprintf(&body, "\tcallables = append(callables, &callable{Name: %q, Old: reflect.ValueOf(%s.%s), New: reflect.ValueOf(%s.%s)})\n", dir+"."+k, oa, k, na, k)
			usedO, usedN = true, true
		}
		names = nil
		for k, ts := range np.types {
			if !exported(k) || ts.TypeParams != nil || ts.Assign != 0 {
				continue
			}
			if _, ok := ts.Type.(*ast.InterfaceType); ok {
				continue
			}
			if ots, ok := op.types[k]; ok && ots.TypeParams == nil && ots.Assign == 0 {
				if _, ok := ots.Type.(*ast.InterfaceType); !ok {
					names = append(names, k)
				}
			}
		}
		sort.Strings(names)
		for _, k := range names {
			fmt.Fprintf(&body, "\ttypePairs = append(typePairs, &typePair{Name: %q, Old: reflect.TypeOf((*%s.%s)(nil)).Elem(), New: reflect.TypeOf((*%s.%s)(nil)).Elem()})\n", dir+"."+k, oa, k, na, k)
			usedO, usedN = true, true
		}
		fmt.Fprintf(&body, "\tpkgs = append(pkgs, pkgInfo{Dir: %q, OldPath: %q, NewPath: %q})\n", dir, fmt.Sprintf("verifdiff/old/p%d", i), modPath+"/"+dir)
		if usedO {
			fmt.Fprintf(&tb, "\t%s %q\n", oa, fmt.Sprintf("verifdiff/old/p%d", i))
		} else {
			fmt.Fprintf(&tb, "\t_ %q\n", fmt.Sprintf("verifdiff/old/p%d", i))
		}
		if usedN {
			fmt.Fprintf(&tb, "\t%s %q\n", na, modPath+"/"+dir)
		} else {
			fmt.Fprintf(&tb, "\t_ %q\n", modPath+"/"+dir)
		}
		for v := range np.ints {
			if !op.ints[v] {
				newInts[v] = true
			}
		}
		for s := range np.strs {
			if !op.strs[s] {
				newStrs[s] = true
			}
		}
		for _, q := range []*pkg{np, op} {
			for v := range q.ints {
				ints[v] = true
			}
			for s := range q.strs {
				strs[s] = true
			}
			for k, f := range q.funcs {
				if f.taint != "" {
					skips[dir+"."+k] = f.taint
				}
			}
		}
		// the functions through which changed code is reached (callers, transitively, inside the package)
		reach := map[string]bool{}
		for k, f := range np.funcs {
			if g, ok := op.funcs[k]; !ok || g.Text != f.Text {
				reach[k] = true
			}
		}
		for grew := true; grew; {
			grew = false
			for k, f := range np.funcs {
				if reach[k] {
					continue
				}
				for _, c := range f.calls {
					hit := false
					if strings.HasPrefix(c, ".") {
						for k2, g := range np.funcs {
							if reach[k2] && g.Recv != "" && g.Name == c[1:] {
								hit = true
							}
						}
					} else if !strings.Contains(c, ".") && reach[c] {
						hit = true
					}
					if hit {
						reach[k] = true
						grew = true
						break
					}
				}
			}
		}
		for k := range reach {
			focus[dir+"."+k] = true
		}
		for k, f := range np.funcs {
			g, ok := op.funcs[k]
			if !ok || g.Text != f.Text {
				var oldL []string
				if ok {
					oldL = op.src[g.File][g.Start-1 : g.End]
				}
				cf := changedFn{Dir: dir, Key: k, File: f.File, Start: f.Start, End: f.End, Taint: f.taint, New: !ok}
				cf.Lines = changedLines(oldL, np.src[f.File][f.Start-1:f.End], f.Start)
				// statements under `if debug {` with debug a constant false can never run
				var live []int
				for _, l := range cf.Lines {
					isDead := false
					for _, r := range np.dead[f.File] {
						if l > r[0] && l <= r[1] {
							isDead = true
						}
					}
					if !isDead {
						live = append(live, l)
					}
				}
				cf.Lines = live
				changed = append(changed, cf)
			}
		}
	}
	tb.WriteString(")\n\nfunc init() {\n")
	tb.WriteString(body.String())
	var iv []int64
	for v := range ints {
		iv = append(iv, v)
	}
	sort.Slice(iv, func(a, b int) bool { return iv[a] < iv[b] })
	tb.WriteString("\tdictInts = []int64{")
	for _, v := range iv {
		fmt.Fprintf(&tb, "%d, ", v)
	}
	tb.WriteString("}\n")
	var sv []string
	for s := range strs {
		sv = append(sv, s)
	}
	sort.Strings(sv)
	tb.WriteString("\tdictStrs = []string{")
	for _, s := range sv {
		fmt.Fprintf(&tb, "%q, ", s)
	}
	tb.WriteString("}\n")
	iv = nil
	for v := range newInts {
		iv = append(iv, v)
	}
	sort.Slice(iv, func(a, b int) bool { return iv[a] < iv[b] })
	tb.WriteString("\tdictNewInts = []int64{")
	for _, v := range iv {
		fmt.Fprintf(&tb, "%d, ", v)
	}
	tb.WriteString("}\n")
	sv = nil
	for s := range newStrs {
		sv = append(sv, s)
	}
	sort.Strings(sv)
	tb.WriteString("\tdictNewStrs = []string{")
	for _, s := range sv {
		fmt.Fprintf(&tb, "%q, ", s)
	}
	tb.WriteString("}\n")
	var fk []string
	for k := range focus {
		fk = append(fk, k)
	}
	sort.Strings(fk)
	tb.WriteString("\tfocusNames = map[string]bool{\n")
	for _, k := range fk {
		fmt.Fprintf(&tb, "\t\t%q: true,\n", k)
	}
	tb.WriteString("\t}\n")
	fj, _ := json.Marshal(fk)
	os.WriteFile(filepath.Join(*out, "focus.json"), fj, 0o644)
	var sk []string
	for k := range skips {
		sk = append(sk, k)
	}
	sort.Strings(sk)
	tb.WriteString("\tskipNames = map[string]string{\n")
	for _, k := range sk {
		fmt.Fprintf(&tb, "\t\t%q: %q,\n", k, skips[k])
	}
	tb.WriteString("\t}\n}\n")
	os.WriteFile(filepath.Join(*out, "tables.go"), []byte(tb.String()), 0o644)
	sort.Slice(changed, func(a, b int) bool { return changed[a].Dir+changed[a].Key < changed[b].Dir+changed[b].Key })
	js, _ := json.MarshalIndent(map[string]interface{}{"changed": changed, "info": infos}, "", " ")
	os.WriteFile(filepath.Join(*out, "changed.json"), js, 0o644)
}
