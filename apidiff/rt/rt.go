// apidiff runtime: feedback-directed differential execution of two versions of the same packages.
// Three "worlds" run in lockstep on identical random API call sequences: the baseline packages (old), the current
// packages (new) and the current packages a second time (new2, to recognise behaviour that is not a function of the
// inputs: clocks, random numbers, map order).  After every call the results, the arguments as the call left them and
// the whole pool of earlier results are dumped canonically and compared.  A difference old/new with new == new2 that
// reproduces on a fresh re-run is reported.  See DESIGN.md section 12.9.
package main

import (
	"bytes"
	"crypto/aes"
	"crypto/des"
	"crypto/md5"
	"crypto/sha256"
	"encoding/json"
	"flag"
	"fmt"
	"hash/fnv"
	"io"
	"log"
	"math/rand"
	"net"
	"os"
	"os/exec"
	"path/filepath"
	"reflect"
	"sort"
	"strconv"
	"strings"
	"sync/atomic"
	"time"
	"unsafe"
)

type callable struct {
	Name     string
	Old, New reflect.Value
	skip     string
	nondet   bool
	differs  bool
	calls    int
	nondetN  int // calls whose outcome differed between two runs of the current code
}

type typePair struct {
	Name     string
	Old, New reflect.Type
}

type pkgInfo struct{ Dir, OldPath, NewPath string }

var (
	callables []*callable
	typePairs []*typePair
	pkgs      []pkgInfo
	dictInts  []int64
	dictStrs  []string
	// literals of the current source that the baseline does not have: what a changed function may be keyed on
	dictNewInts []int64
	dictNewStrs []string
	skipNames   map[string]string
	// callables through which a changed function is reached
	focusNames map[string]bool
)

var (
	errType    = reflect.TypeOf((*error)(nil)).Elem()
	readerType = reflect.TypeOf((*io.Reader)(nil)).Elem()
	writerType = reflect.TypeOf((*io.Writer)(nil)).Elem()
	timeType   = reflect.TypeOf(time.Time{})
	bytesType  = reflect.TypeOf([]byte(nil))
)

// ---------------------------------------------------------------------------------------------- canonical dump

type dumper struct {
	b     strings.Builder
	seen  map[uintptr]bool
	limit int
}

func hashBytes(p []byte) string {
	h := fnv.New64a()
	h.Write(p)
	return fmt.Sprintf("#%d:%x", len(p), h.Sum64())
}

func (d *dumper) dump(v reflect.Value, depth int) {
	if !v.IsValid() {
		d.b.WriteString("<invalid>")
		return
	}
	if depth > 12 || d.b.Len() > d.limit {
		d.b.WriteString("...")
		return
	}
	t := v.Type()
	if t.Implements(errType) && (v.Kind() == reflect.Interface || v.Kind() == reflect.Ptr) {
		if v.IsNil() {
			d.b.WriteString("nil")
		} else {
			d.b.WriteString("ERR")
		}
		return
	}
	if t == timeType {
		if v.CanInterface() {
			tm := v.Interface().(time.Time)
			_, off := tm.Zone()
			fmt.Fprintf(&d.b, "T(%d,%d)", tm.UnixNano(), off)
		} else {
			d.b.WriteString("T(?)")
		}
		return
	}
	switch v.Kind() {
	case reflect.Bool:
		fmt.Fprintf(&d.b, "%v", v.Bool())
	case reflect.Int, reflect.Int8, reflect.Int16, reflect.Int32, reflect.Int64:
		d.b.WriteString(strconv.FormatInt(v.Int(), 10))
	case reflect.Uint, reflect.Uint8, reflect.Uint16, reflect.Uint32, reflect.Uint64, reflect.Uintptr:
		d.b.WriteString(strconv.FormatUint(v.Uint(), 10))
	case reflect.Float32, reflect.Float64:
		fmt.Fprintf(&d.b, "%x", v.Float())
	case reflect.Complex64, reflect.Complex128:
		fmt.Fprintf(&d.b, "%v", v.Complex())
	case reflect.String:
		s := v.String()
		if len(s) > 96 {
			d.b.WriteString("s" + hashBytes([]byte(s)))
		} else {
			d.b.WriteString(strconv.Quote(s))
		}
	case reflect.Slice, reflect.Array:
		n := v.Len()
		if t.Elem().Kind() == reflect.Uint8 {
			var p []byte
			if v.Kind() == reflect.Slice {
				p = v.Bytes()
			} else {
				p = make([]byte, n)
				for i := 0; i < n; i++ {
					p[i] = byte(v.Index(i).Uint())
				}
			}
			if n > 96 {
				d.b.WriteString("b" + hashBytes(p))
			} else {
				fmt.Fprintf(&d.b, "x%x", p)
			}
			return
		}
		d.b.WriteString("[")
		for i := 0; i < n; i++ {
			if i > 0 {
				d.b.WriteString(",")
			}
			d.dump(v.Index(i), depth+1)
			if d.b.Len() > d.limit {
				break
			}
		}
		d.b.WriteString("]")
	case reflect.Map:
		if v.IsNil() || v.Len() == 0 {
			d.b.WriteString("map{}")
			return
		}
		type kv struct{ k, v string }
		var items []kv
		it := v.MapRange()
		for it.Next() {
			dk := &dumper{seen: d.seen, limit: d.limit}
			dk.dump(it.Key(), depth+1)
			dv := &dumper{seen: d.seen, limit: d.limit}
			dv.dump(it.Value(), depth+1)
			items = append(items, kv{dk.b.String(), dv.b.String()})
		}
		sort.Slice(items, func(a, b int) bool { return items[a].k < items[b].k })
		d.b.WriteString("map{")
		for _, x := range items {
			d.b.WriteString(x.k + ":" + x.v + ";")
		}
		d.b.WriteString("}")
	case reflect.Ptr:
		if v.IsNil() {
			d.b.WriteString("nil")
			return
		}
		p := v.Pointer()
		if d.seen[p] {
			d.b.WriteString("&cycle")
			return
		}
		d.seen[p] = true
		d.b.WriteString("&")
		d.dump(v.Elem(), depth+1)
		delete(d.seen, p)
	case reflect.Interface:
		if v.IsNil() {
			d.b.WriteString("nil")
			return
		}
		d.b.WriteString("i(" + v.Elem().Type().String() + ")")
		d.dump(v.Elem(), depth+1)
	case reflect.Struct:
		d.b.WriteString("{")
		for i := 0; i < v.NumField(); i++ {
			f := t.Field(i)
			// synchronisation primitives carry no observable value
			if strings.HasPrefix(f.Type.String(), "sync.") || strings.HasPrefix(f.Type.String(), "atomic.") {
				continue
			}
			d.b.WriteString(f.Name + ":")
			d.dump(v.Field(i), depth+1)
			d.b.WriteString(";")
		}
		d.b.WriteString("}")
	case reflect.Func:
		if v.IsNil() {
			d.b.WriteString("nil")
		} else {
			d.b.WriteString("func")
		}
	case reflect.Chan:
		d.b.WriteString("chan")
	default:
		d.b.WriteString("?" + v.Kind().String())
	}
}

func dumpVals(vs []reflect.Value) string {
	d := &dumper{seen: map[uintptr]bool{}, limit: 1 << 20}
	for i, v := range vs {
		if i > 0 {
			d.b.WriteString(" | ")
		}
		d.dump(v, 0)
	}
	return d.b.String()
}

// fakeConn: a net.Conn that serves scripted bytes (optionally a few at a time) and records what is written
type fakeConn struct {
	In     []byte
	Pos    int
	Chunk  int
	Out    []byte
	Closed bool
}

type fakeAddr struct{}

func (fakeAddr) Network() string { return "fake" }
func (fakeAddr) String() string  { return "fake" }

func (c *fakeConn) Read(p []byte) (int, error) {
	if c.Closed {
		return 0, io.ErrClosedPipe
	}
	if c.Pos >= len(c.In) {
		return 0, io.EOF
	}
	n := len(p)
	if c.Chunk > 0 && n > c.Chunk {
		n = c.Chunk
	}
	n = copy(p[:n], c.In[c.Pos:])
	c.Pos += n
	return n, nil
}
func (c *fakeConn) Write(p []byte) (int, error) {
	if c.Closed {
		return 0, io.ErrClosedPipe
	}
	c.Out = append(c.Out, p...)
	return len(p), nil
}
func (c *fakeConn) Close() error                       { c.Closed = true; return nil }
func (c *fakeConn) LocalAddr() net.Addr                { return fakeAddr{} }
func (c *fakeConn) RemoteAddr() net.Addr               { return fakeAddr{} }
func (c *fakeConn) SetDeadline(t time.Time) error      { return nil }
func (c *fakeConn) SetReadDeadline(t time.Time) error  { return nil }
func (c *fakeConn) SetWriteDeadline(t time.Time) error { return nil }

var connType = reflect.TypeOf((*net.Conn)(nil)).Elem()

// ---------------------------------------------------------------------------------------------- generation

type world struct {
	idx  int // 0 old, 1 new, 2 new again
	pool []poolEnt
	// byte slices handed out with spare capacity (filled with 0xA5): a callee must not write there
	spare map[uintptr]bool
}

type poolEnt struct {
	key string
	v   reflect.Value
}

func (w *world) typ(tp *typePair) reflect.Type {
	if w.idx == 0 {
		return tp.Old
	}
	return tp.New
}

func (w *world) fn(c *callable) reflect.Value {
	if w.idx == 0 {
		return c.Old
	}
	return c.New
}

func typeKey(t reflect.Type) string { return t.String() }

var boundaries = []int64{0, 1, 2, 3, 7, 8, 15, 16, 31, 32, 63, 64, 127, 128, 129, 254, 255, 256, 257, 511, 512, 1023, 1024,
	4095, 4096, 32767, 32768, 32769, 65534, 65535, 65536, 65537, 1 << 24, 1<<31 - 1, 1 << 31, 1<<32 - 1, 1 << 32, 1<<63 - 1, -1, -2, -128, -32768, -1 << 31, -1 << 63}

func pickInt(r *rand.Rand) int64 {
	if len(dictNewInts) > 0 && r.Intn(100) < 12 {
		return dictNewInts[r.Intn(len(dictNewInts))] + int64(r.Intn(3)-1)
	}
	switch x := r.Intn(100); {
	case x < 40:
		return int64(r.Intn(20))
	case x < 55:
		return boundaries[r.Intn(len(boundaries))]
	case x < 75 && len(dictInts) > 0:
		v := dictInts[r.Intn(len(dictInts))]
		return v + int64(r.Intn(3)-1)
	case x < 85:
		return int64(r.Intn(70000))
	default:
		return int64(r.Uint64())
	}
}

func pickLen(r *rand.Rand) int {
	if len(dictNewInts) > 0 && r.Intn(100) < 8 {
		if v := dictNewInts[r.Intn(len(dictNewInts))] + int64(r.Intn(3)-1); v >= 0 && v <= 300000 {
			return int(v)
		}
	}
	switch x := r.Intn(100); {
	case x < 55:
		return r.Intn(24)
	case x < 80:
		return r.Intn(80)
	case x < 88:
		return r.Intn(700)
	case x < 94 && len(dictInts) > 0:
		v := dictInts[r.Intn(len(dictInts))] + int64(r.Intn(3)-1)
		if v >= 0 && v <= 200000 {
			return int(v)
		}
		return r.Intn(40)
	case x < 98:
		v := boundaries[r.Intn(len(boundaries))]
		if v >= 0 && v <= 70000 {
			return int(v)
		}
		return r.Intn(40)
	default:
		return r.Intn(70000)
	}
}

var alphabets = []string{"0123456789abcdef", "0123456789ABCDEF", "0123456789", "abcdefghijklmnopqrstuvwxyz", "ABCDEFGHIJKLMNOPQRSTUVWXYZ", "-", ":", ".", ",", "=", "\\", "/", "@", "{", "}", " ", "$", "*", "\x00", "é", "€", "𝄞", "S-1-5-21-", "DC=", "CN=", "OU="}

func genBytes(r *rand.Rand, w *world) []byte {
	// a mutated copy of something the API produced earlier (decoders need well-formed input)
	if r.Intn(100) < 35 {
		var cands []int
		for i, e := range w.pool {
			if e.key == "[]uint8" {
				cands = append(cands, i)
			}
		}
		if len(cands) > 0 {
			src := w.pool[cands[r.Intn(len(cands))]].v.Bytes()
			p := append([]byte{}, src...)
			for k := r.Intn(3); k >= 0 && len(p) > 0; k-- {
				switch r.Intn(7) {
				case 0:
					p = p[:r.Intn(len(p)+1)]
				case 1:
					p[r.Intn(len(p))] ^= byte(1 << uint(r.Intn(8)))
				case 2:
					p[r.Intn(len(p))] = byte(pickInt(r))
				case 3:
					for j := r.Intn(9); j > 0; j-- {
						p = append(p, byte(r.Intn(256)))
					}
				case 4:
					p = append(p, 0)
				case 5:
					i := r.Intn(len(p))
					p = append(p[:i], p[i+1:]...)
				case 6:
					// keep as it is: decode exactly what was encoded
				}
			}
			return spliceDict(r, stampLength(r, p))
		}
	}
	n := pickLen(r)
	p := make([]byte, n)
	switch r.Intn(6) {
	case 0:
		// zeros
	case 1:
		small := []byte{0, 1, 2, 0xff, 'A', 0x80}
		for i := range p {
			p[i] = small[r.Intn(len(small))]
		}
	case 2:
		for i := range p {
			p[i] = byte(32 + r.Intn(95))
		}
	case 3:
		b := byte(r.Intn(256))
		for i := range p {
			p[i] = b
		}
	default:
		for i := range p {
			p[i] = byte(r.Intn(256))
		}
	}
	if n > 0 && r.Intn(4) == 0 && len(dictInts) > 0 {
		p[r.Intn(min(n, 8))] = byte(dictInts[r.Intn(len(dictInts))])
	}
	return spliceDict(r, stampLength(r, p))
}

// self-describing formats carry their own length near the front: one time in six, write len(p)-delta at one of the
// first positions, in 1..4 bytes, in either byte order
func stampLength(r *rand.Rand, p []byte) []byte {
	if len(p) < 2 || r.Intn(6) != 0 {
		return p
	}
	w := 1 + r.Intn(4)
	pos := r.Intn(5)
	if pos+w > len(p) {
		return p
	}
	v := uint32(len(p) - r.Intn(9))
	for i := 0; i < w; i++ {
		if r.Intn(2) == 0 || w == 1 {
			p[pos+i] = byte(v >> (8 * uint(w-1-i))) // big-endian
		} else {
			p[pos+i] = byte(v >> (8 * uint(i)))
		}
	}
	if r.Intn(3) == 0 && pos > 0 {
		p[0] = 0
	}
	return p
}

// literal strings of the sources, written over the start, the end or the middle of a byte string
func spliceDict(r *rand.Rand, p []byte) []byte {
	var d string
	switch x := r.Intn(100); {
	case x < 10 && len(dictNewStrs) > 0:
		d = dictNewStrs[r.Intn(len(dictNewStrs))]
	case x < 16 && len(dictStrs) > 0:
		d = dictStrs[r.Intn(len(dictStrs))]
	default:
		return p
	}
	if r.Intn(3) == 0 && len(d) > 1 { // a literal used as a set of characters
		rs := []rune(d)
		d = string(rs[r.Intn(len(rs))])
	}
	switch r.Intn(4) {
	case 0:
		return append(p, d...)
	case 1:
		return append([]byte(d), p...)
	case 2:
		if len(p) >= len(d) {
			copy(p[len(p)-len(d):], d)
		}
	default:
		if len(p) > 0 {
			i := r.Intn(len(p))
			return append(append(append([]byte{}, p[:i]...), d...), p[i:]...)
		}
	}
	return p
}

func genString(r *rand.Rand, w *world) string {
	if len(dictNewStrs) > 0 && r.Intn(100) < 10 {
		return dictNewStrs[r.Intn(len(dictNewStrs))]
	}
	switch x := r.Intn(100); {
	case x < 20 && len(dictStrs) > 0:
		return dictStrs[r.Intn(len(dictStrs))]
	case x < 45:
		var cands []int
		for i, e := range w.pool {
			if e.key == "string" {
				cands = append(cands, i)
			}
		}
		if len(cands) > 0 {
			s := w.pool[cands[r.Intn(len(cands))]].v.String()
			if r.Intn(2) == 0 || len(s) == 0 {
				return s
			}
			b := spliceDict(r, []byte(s))
			switch r.Intn(5) {
			case 0:
				b = b[:r.Intn(len(b)+1)]
			case 1:
				b[r.Intn(len(b))] = alphabets[0][r.Intn(16)]
			case 2:
				b = append(b, alphabets[r.Intn(len(alphabets))]...)
			case 3:
				b = append([]byte(" "), append(b, ' ')...)
			case 4:
				b = bytes.ToUpper(b)
			}
			return string(b)
		}
	}
	var sb strings.Builder
	parts := 1 + r.Intn(4)
	if r.Intn(10) == 0 {
		parts += r.Intn(12)
	}
	for i := 0; i < parts; i++ {
		a := alphabets[r.Intn(len(alphabets))]
		if len(a) >= 10 {
			ar := []rune(a)
			for k := r.Intn(13); k > 0; k-- {
				sb.WriteRune(ar[r.Intn(len(ar))])
			}
		} else {
			sb.WriteString(a)
		}
		if r.Intn(8) == 0 && len(dictStrs) > 0 {
			sb.WriteString(dictStrs[r.Intn(len(dictStrs))])
		}
	}
	return sb.String()
}

// implementers of an interface among the types of the compared packages (same order in every world)
func (w *world) implementers(it reflect.Type) []reflect.Type {
	var out []reflect.Type
	for _, tp := range typePairs {
		po, pn := reflect.PtrTo(tp.Old), reflect.PtrTo(tp.New)
		if po.Implements(it) == pn.Implements(it) && pn.Implements(it) {
			out = append(out, reflect.PtrTo(w.typ(tp)))
		}
	}
	return out
}

func (w *world) gen(t reflect.Type, r *rand.Rand, depth int) (v reflect.Value, ok bool) {
	v = reflect.New(t).Elem()
	if t == timeType {
		v.Set(reflect.ValueOf(time.Unix(pickInt(r)%(1<<40), int64(r.Intn(1e9))).UTC()))
		return v, true
	}
	switch t.Kind() {
	case reflect.Bool:
		v.SetBool(r.Intn(2) == 0)
	case reflect.Int, reflect.Int8, reflect.Int16, reflect.Int32, reflect.Int64:
		v.SetInt(pickInt(r))
	case reflect.Uint, reflect.Uint8, reflect.Uint16, reflect.Uint32, reflect.Uint64, reflect.Uintptr:
		v.SetUint(uint64(pickInt(r)))
	case reflect.Float32, reflect.Float64:
		v.SetFloat([]float64{0, 1, -1, 0.5, 1e9, 1e18, float64(pickInt(r))}[r.Intn(7)])
	case reflect.String:
		v.SetString(genString(r, w))
	case reflect.Slice:
		if t.Elem().Kind() == reflect.Uint8 {
			b := genBytes(r, w)
			extra := 0
			if r.Intn(5) == 0 {
				extra = 1 + r.Intn(24)
			}
			s := reflect.MakeSlice(t, len(b)+extra, len(b)+extra)
			reflect.Copy(s, reflect.ValueOf(b))
			for i := len(b); i < len(b)+extra; i++ {
				s.Index(i).SetUint(0xA5)
			}
			if extra > 0 && s.Len() > 0 {
				if w.spare == nil {
					w.spare = map[uintptr]bool{}
				}
				w.spare[s.Pointer()] = true
			}
			v.Set(s.Slice(0, len(b)))
			return v, true
		}
		n := r.Intn(4)
		if r.Intn(12) == 0 {
			n = pickLen(r) % 300
		}
		if depth > 5 {
			n = 0
		}
		s := reflect.MakeSlice(t, 0, n)
		for i := 0; i < n; i++ {
			e, ok := w.gen(t.Elem(), r, depth+1)
			if !ok {
				return v, false
			}
			s = reflect.Append(s, e)
		}
		v.Set(s)
	case reflect.Array:
		for i := 0; i < t.Len(); i++ {
			e, ok := w.gen(t.Elem(), r, depth+1)
			if !ok {
				return v, false
			}
			v.Index(i).Set(e)
		}
	case reflect.Map:
		m := reflect.MakeMap(t)
		for i := r.Intn(3); i > 0 && depth < 5; i-- {
			k, ok1 := w.gen(t.Key(), r, depth+1)
			e, ok2 := w.gen(t.Elem(), r, depth+1)
			if !ok1 || !ok2 {
				return v, false
			}
			m.SetMapIndex(k, e)
		}
		v.Set(m)
	case reflect.Ptr:
		if depth > 0 && r.Intn(8) == 0 || depth > 6 {
			return v, true // nil
		}
		e, ok := w.gen(t.Elem(), r, depth+1)
		if !ok {
			return v, false
		}
		p := reflect.New(t.Elem())
		p.Elem().Set(e)
		v.Set(p)
	case reflect.Struct:
		mode := r.Intn(4) // 0: zero value, else fill exported fields
		for i := 0; i < t.NumField(); i++ {
			f := t.Field(i)
			if f.PkgPath != "" && f.Type == connType && v.Field(i).CanAddr() && r.Intn(10) < 8 {
				// a transport object without a connection can do nothing: give it a scripted one
				fc := &fakeConn{In: genBytes(r, w)}
				if r.Intn(3) == 0 {
					fc.Chunk = 1 + r.Intn(7)
				}
				reflect.NewAt(f.Type, unsafe.Pointer(v.Field(i).UnsafeAddr())).Elem().Set(reflect.ValueOf(fc))
				continue
			}
			if f.PkgPath != "" || mode == 0 {
				continue
			}
			if e, ok := w.gen(f.Type, r, depth+1); ok {
				v.Field(i).Set(e)
			}
		}
	case reflect.Interface:
		switch {
		case t == errType:
			// nil
		case t.NumMethod() == 0:
			switch r.Intn(3) {
			case 0:
				v.Set(reflect.ValueOf(genString(r, w)))
			case 1:
				v.Set(reflect.ValueOf(pickInt(r)))
			default:
				v.Set(reflect.ValueOf(genBytes(r, w)))
			}
		case readerType.Implements(t) || t == readerType:
			v.Set(reflect.ValueOf(bytes.NewReader(genBytes(r, w))))
		case t == writerType:
			v.Set(reflect.ValueOf(&bytes.Buffer{}))
		case t == connType:
			v.Set(reflect.ValueOf(&fakeConn{In: genBytes(r, w)}))
		case t.String() == "cipher.Block":
			key := make([]byte, []int{16, 24, 32}[r.Intn(3)])
			for i := range key {
				key[i] = byte(r.Intn(256))
			}
			if r.Intn(4) == 0 {
				blk, _ := des.NewCipher(key[:8])
				v.Set(reflect.ValueOf(blk))
			} else {
				blk, _ := aes.NewCipher(key)
				v.Set(reflect.ValueOf(blk))
			}
		case t.String() == "hash.Hash":
			if r.Intn(2) == 0 {
				v.Set(reflect.ValueOf(sha256.New()))
			} else {
				v.Set(reflect.ValueOf(md5.New()))
			}
		default:
			impl := w.implementers(t)
			if len(impl) == 0 || depth > 5 {
				return v, depth > 0 // inside a struct: leave nil; as a parameter: cannot be generated
			}
			e, ok := w.gen(impl[r.Intn(len(impl))], r, depth+1)
			if !ok {
				return v, false
			}
			v.Set(e)
		}
	case reflect.Func, reflect.Chan, reflect.UnsafePointer:
		return v, depth > 0
	}
	return v, true
}

// argument for a parameter of type t: an earlier result of the same type, or a fresh value
func (w *world) arg(t reflect.Type, r *rand.Rand) (reflect.Value, bool) {
	key := typeKey(t)
	var cands []int
	for i, e := range w.pool {
		if e.key == key {
			cands = append(cands, i)
		}
	}
	usePool := r.Intn(100) < 65
	if t.Kind() == reflect.Ptr && t.Elem().Kind() == reflect.Struct {
		usePool = r.Intn(100) < 85
	}
	if len(cands) > 0 && usePool {
		pv := w.pool[cands[r.Intn(len(cands))]].v
		if pv.Kind() == reflect.Slice && !pv.IsNil() && pv.Cap() > pv.Len() {
			// an earlier result handed on as an argument shares its elements with that result but not its spare
			// capacity: how much room an encoder left behind its output is allocation detail (make+append versus a
			// composite literal), and a callee reslicing past len would otherwise turn it into a behavioural difference
			pv = pv.Slice3(0, pv.Len(), pv.Len())
		}
		return pv, true
	}
	if t.Kind() == reflect.Struct {
		// a value receiver: copy of a pooled *T
		pk := "*" + key
		for i, e := range w.pool {
			if e.key == pk && !e.v.IsNil() {
				cands = append(cands, i)
			}
		}
		if len(cands) > 0 && r.Intn(100) < 70 {
			return w.pool[cands[r.Intn(len(cands))]].v.Elem(), true
		}
	}
	return w.gen(t, r, 0)
}

func (w *world) add(v reflect.Value) {
	if !v.IsValid() {
		return
	}
	t := v.Type()
	if t.Implements(errType) {
		return
	}
	switch v.Kind() {
	case reflect.Slice, reflect.Map, reflect.Ptr, reflect.Interface:
		if v.IsNil() {
			return
		}
		if v.Kind() == reflect.Interface {
			// keep it under its interface type and under its dynamic type
			w.pool = append(w.pool, poolEnt{typeKey(t), v})
			w.add(v.Elem())
			return
		}
		w.pool = append(w.pool, poolEnt{typeKey(t), v})
	case reflect.String:
		w.pool = append(w.pool, poolEnt{typeKey(t), v})
	case reflect.Struct, reflect.Array:
		p := reflect.New(t)
		p.Elem().Set(v)
		w.pool = append(w.pool, poolEnt{typeKey(p.Type()), p})
	case reflect.Uint8, reflect.Uint16, reflect.Uint32, reflect.Uint64, reflect.Int, reflect.Int64, reflect.Int32:
		if t.PkgPath() != "" { // named integer types (flags, codes): worth feeding back
			w.pool = append(w.pool, poolEnt{typeKey(t), v})
		}
	}
}

func (w *world) has(v reflect.Value) bool {
	k := typeKey(v.Type())
	for _, e := range w.pool {
		if e.key != k || e.v.Kind() != v.Kind() {
			continue
		}
		switch v.Kind() {
		case reflect.String:
			if e.v.String() == v.String() {
				return true
			}
		case reflect.Slice:
			if v.Type().Elem().Kind() == reflect.Uint8 && e.v.Len() == v.Len() && bytes.Equal(e.v.Bytes(), v.Bytes()) {
				return true
			}
		}
	}
	return false
}

func (w *world) poolDump() []string {
	out := make([]string, len(w.pool))
	for i, e := range w.pool {
		out[i] = dumpVals([]reflect.Value{e.v})
	}
	return out
}

// ---------------------------------------------------------------------------------------------- execution

var inflight *os.File

var callStarted atomic.Int64 // unix nanoseconds of the call in flight, 0 when none

func noteInflight(seq int64, step, widx int, name string) {
	if inflight == nil {
		return
	}
	if seq >= 0 {
		callStarted.Store(time.Now().UnixNano())
	}
	s := fmt.Sprintf("%d %d %d %s\n", seq, step, widx, name)
	b := make([]byte, 160)
	copy(b, s)
	for i := len(s); i < len(b); i++ {
		b[i] = ' '
	}
	inflight.WriteAt(b, 0)
}

func safeCall(fn reflect.Value, args []reflect.Value) (res []reflect.Value, panicked bool) {
	defer func() {
		if e := recover(); e != nil {
			res, panicked = nil, true
		}
	}()
	if fn.Type().IsVariadic() {
		return fn.CallSlice(args), false
	}
	return fn.Call(args), false
}

type stepOut struct {
	desc    string // what was done, with the arguments before the call
	results string
	after   string // arguments (receiver first) after the call
	pool    []string
	ok      bool
	rvals   []reflect.Value
	written [][]byte // what the call wrote to fake connections held by its arguments
	fresh   []reflect.Value // the arguments of the call: pooled too, so that later calls meet the same names and keys again
}

var active, focusActive []*callable

// one step in one world; every random choice comes from r, which is seeded identically in the three worlds
func (w *world) step(seq int64, stepNo int, r *rand.Rand) (c *callable, o stepOut) {
	kind := r.Intn(100)
	switch {
	case kind < 8 && len(typePairs) > 0:
		tp := typePairs[r.Intn(len(typePairs))]
		t := w.typ(tp)
		v, ok := w.gen(t, r, 0)
		if !ok {
			return nil, stepOut{ok: false}
		}
		p := reflect.New(t)
		p.Elem().Set(v)
		w.pool = append(w.pool, poolEnt{typeKey(p.Type()), p})
		o.desc = "new " + tp.Name + " = " + clip(dumpVals([]reflect.Value{p}))
		o.ok = true
	case kind < 18:
		// assign an exported field of a pooled structure
		var cands []int
		for i, e := range w.pool {
			if e.v.Kind() == reflect.Ptr && !e.v.IsNil() && e.v.Elem().Kind() == reflect.Struct && e.v.Elem().NumField() > 0 {
				cands = append(cands, i)
			}
		}
		if len(cands) == 0 {
			return nil, stepOut{ok: false}
		}
		pi := cands[r.Intn(len(cands))]
		sv := w.pool[pi].v.Elem()
		fi := r.Intn(sv.NumField())
		f := sv.Type().Field(fi)
		if f.PkgPath != "" || !sv.Field(fi).CanSet() {
			return nil, stepOut{ok: false}
		}
		nv, ok := w.arg(f.Type, r)
		if !ok {
			return nil, stepOut{ok: false}
		}
		sv.Field(fi).Set(nv)
		o.desc = fmt.Sprintf("pool[%d].%s = %s", pi, f.Name, clip(dumpVals([]reflect.Value{nv})))
		o.ok = true
	case kind < 30 && w.hasDyn():
		// a method of a pooled value whose type the packages do not export (handed out behind an interface)
		var cands []int
		for i, e := range w.pool {
			if _, ok := w.dynType(e.v); ok {
				cands = append(cands, i)
			}
		}
		pi := cands[r.Intn(len(cands))]
		v := w.pool[pi].v
		if v.Kind() == reflect.Interface {
			v = v.Elem()
		}
		tname, _ := w.dynType(v)
		var names []string
		for i := 0; i < v.NumMethod(); i++ {
			names = append(names, v.Type().Method(i).Name)
		}
		mn := names[r.Intn(len(names))]
		c = dynCallable(tname + "." + mn)
		if c.skip != "" || c.nondet || c.differs {
			return nil, stepOut{ok: false}
		}
		m := v.MethodByName(mn)
		args := make([]reflect.Value, m.Type().NumIn())
		for i := range args {
			a, ok := w.arg(m.Type().In(i), r)
			if !ok {
				c.skip = "parameter type cannot be generated: " + m.Type().In(i).String()
				return nil, stepOut{ok: false}
			}
			args[i] = a
		}
		o.desc = fmt.Sprintf("pool[%d].%s(%s)", pi, mn, clip(dumpVals(args)))
		noteInflight(seq, stepNo, w.idx, c.Name)
		res, panicked := safeCall(m, args)
		callStarted.Store(0)
		if panicked {
			o.results = "PANIC"
		} else {
			o.results = dumpVals(res)
			o.rvals = res
		}
		o.after = w.dumpAfter(args)
		o.ok = true
	default:
		if len(active) == 0 {
			return nil, stepOut{ok: false}
		}
		if len(focusActive) > 0 && r.Intn(100) < 55 {
			c = focusActive[r.Intn(len(focusActive))]
		} else {
			c = active[r.Intn(len(active))]
		}
		fn := w.fn(c)
		ft := fn.Type()
		args := make([]reflect.Value, ft.NumIn())
		for i := range args {
			a, ok := w.arg(ft.In(i), r)
			if !ok {
				return c, stepOut{ok: false}
			}
			args[i] = a
		}
		// two byte-slice arguments are sometimes two views of one buffer (in-place and overlapping use)
		if r.Intn(100) < 12 {
			var bi []int
			for i, a := range args {
				if a.Kind() == reflect.Slice && a.Type() == bytesType {
					bi = append(bi, i)
				}
			}
			if len(bi) >= 2 {
				a, b := bi[0], bi[1]
				na, nb := args[a].Len(), args[b].Len()
				buf := make([]byte, na+nb+8)
				copy(buf, args[a].Bytes())
				copy(buf[na:], args[b].Bytes())
				oa := r.Intn(8)
				ob := r.Intn(na + 8)
				if oa+na <= len(buf) && ob+nb <= len(buf) {
					args[a] = reflect.ValueOf(buf[oa : oa+na : oa+na])
					args[b] = reflect.ValueOf(buf[ob : ob+nb : ob+nb])
				}
			}
		}
		o.desc = c.Name + "(" + clip(dumpVals(args)) + ")"
		o.fresh = args
		noteInflight(seq, stepNo, w.idx, c.Name)
		res, panicked := safeCall(fn, args)
		callStarted.Store(0)
		if panicked {
			o.results = "PANIC"
		} else {
			o.results = dumpVals(res)
			o.rvals = res
		}
		o.after = w.dumpAfter(args)
		o.written = connOutputs(args)
		o.ok = true
	}
	o.pool = w.poolDump()
	return c, o
}

// dynType: the value's type is declared, unexported, in one of the compared packages and has methods
func (w *world) dynType(v reflect.Value) (string, bool) {
	if !v.IsValid() {
		return "", false
	}
	if v.Kind() == reflect.Interface {
		if v.IsNil() {
			return "", false
		}
		v = v.Elem()
	}
	t := v.Type()
	b := t
	if b.Kind() == reflect.Ptr {
		if v.IsNil() {
			return "", false
		}
		b = b.Elem()
	}
	if b.Name() == "" || (b.Name()[0] >= 'A' && b.Name()[0] <= 'Z') || v.NumMethod() == 0 {
		return "", false
	}
	for _, p := range pkgs {
		if (w.idx == 0 && b.PkgPath() == p.OldPath) || (w.idx != 0 && b.PkgPath() == p.NewPath) {
			return p.Dir + "." + b.Name(), true
		}
	}
	return "", false
}

func (w *world) hasDyn() bool {
	for _, e := range w.pool {
		if _, ok := w.dynType(e.v); ok {
			return true
		}
	}
	return false
}

var dynCallables = map[string]*callable{}

func dynCallable(name string) *callable {
	if c, ok := dynCallables[name]; ok {
		return c
	}
	c := &callable{Name: name}
	if why, ok := skipNames[name]; ok {
		c.skip = "reaches " + why
	}
	dynCallables[name] = c
	callables = append(callables, c)
	return c
}

// the arguments as the call left them; for byte slices that were handed out with spare capacity, that region too
func (w *world) dumpAfter(args []reflect.Value) string {
	s := dumpVals(args)
	for i, a := range args {
		if a.Kind() == reflect.Slice && a.Type().Elem().Kind() == reflect.Uint8 && a.Cap() > a.Len() && a.Cap() > 0 && w.spare[a.Slice(0, a.Cap()).Pointer()] {
			s += fmt.Sprintf(" | spare%d:%x", i, a.Slice(a.Len(), a.Cap()).Bytes())
		}
	}
	return s
}

func connOutputs(args []reflect.Value) [][]byte {
	var out [][]byte
	for _, a := range args {
		if a.Kind() == reflect.Ptr && !a.IsNil() && a.Elem().Kind() == reflect.Struct {
			sv := a.Elem()
			for i := 0; i < sv.NumField(); i++ {
				f := sv.Field(i)
				if f.Kind() == reflect.Interface && !f.IsNil() && f.Elem().Type() == reflect.TypeOf(&fakeConn{}) {
					fc := (*fakeConn)(unsafe.Pointer(f.Elem().Pointer()))
					if len(fc.Out) > 0 {
						out = append(out, append([]byte{}, fc.Out...))
					}
				}
			}
		}
	}
	return out
}

func clip(s string) string {
	if len(s) > 600 {
		return s[:600] + "..."
	}
	return s
}

type difference struct {
	Callable string   `json:"callable"`
	Seq      int64    `json:"seq"`
	Step     int      `json:"step"`
	What     string   `json:"what"`
	History  []string `json:"history"`
	Old      string   `json:"old"`
	New      string   `json:"new"`
}

func firstDiff(a, b string) string {
	i := 0
	for i < len(a) && i < len(b) && a[i] == b[i] {
		i++
	}
	lo := i - 60
	if lo < 0 {
		lo = 0
	}
	return fmt.Sprintf("at offset %d: old ...%s  new ...%s", i, clip(a[lo:min(len(a), i+200)]), clip(b[lo:min(len(b), i+200)]))
}

// runSeq executes one sequence; it returns the first difference old/new (nil if none) and whether the
// sequence ended because of behaviour that is not a function of the inputs
func runSeq(seed, seq int64, maxSteps int) (*difference, bool) {
	ws := []*world{{idx: 0}, {idx: 1}, {idx: 2}}
	var hist []string
	for st := 0; st < maxSteps; st++ {
		var outs [3]stepOut
		var c *callable
		for i, w := range ws {
			r := rand.New(rand.NewSource(seed*1000003 + seq*131 + int64(st)))
			c, outs[i] = w.step(seq, st, r)
		}
		if !outs[0].ok || !outs[1].ok || !outs[2].ok {
			continue
		}
		if outs[0].desc != outs[1].desc || outs[1].desc != outs[2].desc {
			return nil, true // the three generators no longer draw the same values: give the sequence up
		}
		hist = append(hist, outs[1].desc)
		if c != nil {
			c.calls++
		}
		same := func(a, b stepOut) (bool, string, string, string) {
			if a.results != b.results {
				return false, "result", a.results, b.results
			}
			if a.after != b.after {
				return false, "arguments after the call", a.after, b.after
			}
			if len(a.pool) != len(b.pool) {
				return false, "pool size", fmt.Sprint(len(a.pool)), fmt.Sprint(len(b.pool))
			}
			for i := range a.pool {
				if a.pool[i] != b.pool[i] {
					return false, fmt.Sprintf("earlier value pool[%d] (no longer what it was)", i), a.pool[i], b.pool[i]
				}
			}
			return true, "", "", ""
		}
		if ok, _, _, _ := same(outs[1], outs[2]); !ok {
			if c != nil {
				// not a function of the inputs on THIS call (NewDateTime(0) reads the clock, NewDateTime(t) does not):
				// the call is not compared; the callable is given up only when most of its calls are like that
				c.nondetN++
				if c.nondetN >= 8 && c.nondetN*2 > c.calls {
					c.nondet = true
					rebuildActive()
				}
			}
			return nil, true
		}
		if ok, what, a, b := same(outs[0], outs[1]); !ok {
			name := "<field assignment>"
			if c != nil {
				name = c.Name
			}
			return &difference{Callable: name, Seq: seq, Step: st, What: what, History: append([]string{}, hist...),
				Old: firstDiff(a, b), New: ""}, false
		}
		for i, w := range ws {
			for _, rv := range outs[i].rvals {
				w.add(rv)
			}
			for _, b := range outs[i].written {
				w.add(reflect.ValueOf(b))
			}
			for j, a := range outs[i].fresh {
				// strings, byte strings and named values (addresses, types, codes) that were passed in
				if j == 0 && a.Kind() == reflect.Ptr {
					continue // receivers are in the pool already
				}
				switch a.Kind() {
				case reflect.String, reflect.Slice:
					if a.Len() > 0 && a.Len() <= 64 && !w.has(a) {
						w.add(a)
					}
				}
			}
			if len(w.pool) > 40 {
				w.pool = w.pool[len(w.pool)-40:]
			}
		}
	}
	return nil, false
}

func rebuildActive() {
	active, focusActive = active[:0], focusActive[:0]
	for _, c := range callables {
		if c.skip == "" && !c.nondet && !c.differs && c.Old.IsValid() {
			active = append(active, c)
			if focusNames[c.Name] {
				focusActive = append(focusActive, c)
			}
		}
	}
}

func sameSig(a, b reflect.Type) bool {
	if a.NumIn() != b.NumIn() || a.NumOut() != b.NumOut() || a.IsVariadic() != b.IsVariadic() {
		return false
	}
	for i := 0; i < a.NumIn(); i++ {
		if typeKey(a.In(i)) != typeKey(b.In(i)) {
			return false
		}
	}
	for i := 0; i < a.NumOut(); i++ {
		if typeKey(a.Out(i)) != typeKey(b.Out(i)) {
			return false
		}
	}
	return true
}

func setup() {
	for _, tp := range typePairs {
		po, pn := reflect.PtrTo(tp.Old), reflect.PtrTo(tp.New)
		for i := 0; i < pn.NumMethod(); i++ {
			m := pn.Method(i)
			mo, ok := po.MethodByName(m.Name)
			if !ok {
				continue
			}
			callables = append(callables, &callable{Name: tp.Name + "." + m.Name, Old: mo.Func, New: m.Func})
		}
	}
	sort.SliceStable(callables, func(a, b int) bool { return callables[a].Name < callables[b].Name })
	w0, w1 := &world{idx: 0}, &world{idx: 1}
	for _, c := range callables {
		if why, ok := skipNames[c.Name]; ok {
			c.skip = "reaches " + why
			continue
		}
		if !sameSig(c.Old.Type(), c.New.Type()) {
			c.skip = "signature differs from the baseline"
			continue
		}
		r := rand.New(rand.NewSource(1))
		for i := 0; i < c.New.Type().NumIn(); i++ {
			if _, ok := w1.gen(c.New.Type().In(i), r, 0); !ok {
				c.skip = "parameter type cannot be generated: " + c.New.Type().In(i).String()
			}
			if _, ok := w0.gen(c.Old.Type().In(i), r, 0); !ok {
				c.skip = "parameter type cannot be generated: " + c.Old.Type().In(i).String()
			}
		}
	}
	rebuildActive()
}

// ---------------------------------------------------------------------------------------------- worker / supervisor

func worker(seed int64, shard, shards int, seconds int, outdir string, only int64, startSeq int64) {
	res, _ := os.OpenFile(filepath.Join(outdir, fmt.Sprintf("result.%d.jsonl", shard)), os.O_CREATE|os.O_APPEND|os.O_WRONLY, 0o644)
	inflight, _ = os.OpenFile(filepath.Join(outdir, fmt.Sprintf("inflight.%d", shard)), os.O_CREATE|os.O_RDWR, 0o644)
	devnull, _ := os.OpenFile(os.DevNull, os.O_WRONLY, 0)
	os.Stdout, os.Stderr = devnull, devnull
	log.SetOutput(io.Discard)
	setup()
	go func() {
		// a call that has not returned after 5 s: leave (the supervisor reads the in-flight record, puts the callable
		// on the skip list and starts a fresh worker)
		for {
			time.Sleep(500 * time.Millisecond)
			if t := callStarted.Load(); t != 0 && time.Now().UnixNano()-t > 5e9 {
				os.Exit(3)
			}
		}
	}()
	if b, err := os.ReadFile(filepath.Join(outdir, "skip.txt")); err == nil {
		for _, n := range strings.Fields(string(b)) {
			for _, c := range callables {
				if c.Name == n {
					c.skip = "does not return (or exhausts memory) on some input, at the baseline too"
				}
			}
			skipNames[n] = "does not return (or exhausts memory) on some input, at the baseline too"
		}
		rebuildActive()
	}
	deadline := time.Now().Add(time.Duration(seconds) * time.Second)
	nseq, nsteps, ndiff, nnondet := 0, 0, 0, 0
	var seq int64
	type cs struct {
		Name  string `json:"name"`
		Calls int    `json:"calls"`
		Skip  string `json:"skip,omitempty"`
		Note  string `json:"note,omitempty"`
	}
	writeStats := func() {
		var stats []cs
		for _, c := range callables {
			note := ""
			if c.nondet {
				note = "not a function of its inputs (differs between two runs of the current code): not compared"
			}
			stats = append(stats, cs{c.Name, c.calls, c.skip, note})
		}
		js, _ := json.Marshal(map[string]interface{}{"sequences": nseq, "steps": nsteps, "differences": ndiff, "nondeterministic_sequences": nnondet, "last_seq": seq, "callables": stats})
		tmp := filepath.Join(outdir, fmt.Sprintf("stats.%d.%d.json.tmp", shard, startSeq))
		os.WriteFile(tmp, js, 0o644)
		os.Rename(tmp, filepath.Join(outdir, fmt.Sprintf("stats.%d.%d.json", shard, startSeq)))
	}
	lastStats := time.Now()
	emit := func(d *difference) {
		js, _ := json.Marshal(d)
		res.Write(append(js, '\n'))
		res.Sync()
	}
	seq = startSeq
	if only >= 0 {
		seq = only
	}
	for ; time.Now().Before(deadline) && ndiff < 6; seq++ {
		if time.Since(lastStats) > 2*time.Second && only < 0 {
			writeStats()
			lastStats = time.Now()
		}
		if int(seq%int64(shards)) != shard && only < 0 {
			continue
		}
		steps := 6 + int(seq*7%31)
		d, nd := runSeq(seed, seq, steps)
		nseq++
		nsteps += steps
		if nd {
			nnondet++
		}
		if d != nil {
			// a difference must reproduce on fresh worlds, twice
			rep := 0
			for k := 0; k < 2; k++ {
				if d2, _ := runSeq(seed, seq, steps); d2 != nil && d2.Step == d.Step && d2.Callable == d.Callable {
					rep++
				}
			}
			if rep == 2 {
				emit(d)
				ndiff++
				for _, c := range callables {
					if c.Name == d.Callable {
						c.differs = true
					}
				}
				rebuildActive()
			}
		}
		if only >= 0 {
			break
		}
	}
	if only < 0 {
		writeStats()
	}
	noteInflight(-1, 0, 0, "done")
}

func main() {
	seed := flag.Int64("seed", 1, "")
	shards := flag.Int("shards", 8, "")
	seconds := flag.Int("seconds", 30, "")
	outdir := flag.String("out", ".", "")
	isWorker := flag.Bool("worker", false, "")
	shard := flag.Int("shard", 0, "")
	only := flag.Int64("only", -1, "")
	startSeq := flag.Int64("startseq", 0, "")
	flag.Parse()
	if *isWorker {
		worker(*seed, *shard, *shards, *seconds, *outdir, *only, *startSeq)
		return
	}
	os.MkdirAll(*outdir, 0o755)
	self, _ := os.Executable()
	type wk struct {
		cmd   *exec.Cmd
		done  chan error
		start int64
	}
	deadline := time.Now().Add(time.Duration(*seconds) * time.Second)
	events, _ := os.OpenFile(filepath.Join(*outdir, "events.jsonl"), os.O_CREATE|os.O_APPEND|os.O_WRONLY, 0o644)
	readInflight := func(i int) (seq int64, step, widx int, name string) {
		b, err := os.ReadFile(filepath.Join(*outdir, fmt.Sprintf("inflight.%d", i)))
		if err != nil {
			return -1, 0, 0, ""
		}
		fmt.Sscanf(string(b), "%d %d %d %s", &seq, &step, &widx, &name)
		return
	}
	launch := func(i int, start int64, only int64, secs int) *wk {
		args := []string{"-worker", "-shard", fmt.Sprint(i), "-shards", fmt.Sprint(*shards), "-seed", fmt.Sprint(*seed),
			"-seconds", fmt.Sprint(secs), "-out", *outdir, "-startseq", fmt.Sprint(start), "-only", fmt.Sprint(only)}
		c := exec.Command(self, args...)
		c.Env = os.Environ()
		w := &wk{cmd: c, done: make(chan error, 1), start: start}
		c.Start()
		go func() { w.done <- c.Wait() }()
		return w
	}
	results := make(chan string, *shards)
	for i := 0; i < *shards; i++ {
		go func(i int) {
			start := int64(0)
			crashes := 0
			for time.Now().Before(deadline) && crashes < 20 {
				left := int(time.Until(deadline).Seconds())
				if left < 1 {
					break
				}
				w := launch(i, start, -1, left)
				var err error
				hung := false
				lastSeq, lastChange := int64(-2), time.Now()
			wait:
				for {
					select {
					case err = <-w.done:
						break wait
					case <-time.After(2 * time.Second):
						s, st, _, _ := readInflight(i)
						if s*1000+int64(st) != lastSeq {
							lastSeq, lastChange = s*1000+int64(st), time.Now()
						} else if time.Since(lastChange) > 12*time.Second {
							hung = true
							w.cmd.Process.Kill()
							<-w.done
							break wait
						}
					}
				}
				if err == nil && !hung {
					break // finished its time
				}
				crashes++
				seq, step, widx, name := readInflight(i)
				kind := "crash"
				if ee, ok := err.(*exec.ExitError); hung || (ok && ee.ExitCode() == 3) {
					kind = "hang"
				}
				ev := map[string]interface{}{"kind": kind, "seq": seq, "step": step, "world": widx, "callable": name, "shard": i}
				if widx == 1 && seq >= 0 {
					// (a crash in the third world is not counted: it shares the package-level state of the second)
					// the baseline returned from this call and the current code did not: confirm on a fresh process
					w2 := launch(i, 0, seq, 60)
					var err2 error
					select {
					case err2 = <-w2.done:
					case <-time.After(40 * time.Second):
						w2.cmd.Process.Kill()
						<-w2.done
						err2 = fmt.Errorf("hang")
					}
					s2, _, widx2, name2 := readInflight(i)
					if err2 != nil && s2 == seq && widx2 == 1 && name2 == name {
						ev["confirmed"] = true
					}
				}
				js, _ := json.Marshal(ev)
				events.Write(append(js, '\n'))
				if name != "" && name != "done" {
					if f, err := os.OpenFile(filepath.Join(*outdir, "skip.txt"), os.O_CREATE|os.O_APPEND|os.O_WRONLY, 0o644); err == nil {
						f.WriteString(name + "\n")
						f.Close()
					}
				}
				if seq < start {
					seq = start
				}
				start = seq + 1
				for start%int64(*shards) != int64(i) {
					start++
				}
			}
			results <- "done"
		}(i)
	}
	for i := 0; i < *shards; i++ {
		<-results
	}
}
