#!/bin/bash
# usage: goal.sh File.v LINE  -- show the proof state after LINE lines of File.v
f=$1; n=$2
tmp=$(dirname $f)/_goal_tmp.v
head -n $n $f > $tmp
echo "Show. " >> $tmp
cd /verif/coq && timeout 120 coqc -Q . Mant -w none $tmp 2>&1 | tail -${3:-40}
rm -f $tmp $(dirname $f)/_goal_tmp.vo $(dirname $f)/_goal_tmp.glob $(dirname $f)/._goal_tmp.aux $(dirname $f)/_goal_tmp.vok $(dirname $f)/_goal_tmp.vos
