(* CMAC, written from NIST SP 800-38B (sections 5.3, 6.1, 6.2) / RFC 4493 (sections 2.3, 2.4),
   in a Section over an abstract block cipher E (already keyed) and its block size in bytes
   (8 or 16).  Instances with AES and DES.  Definitions only; executable. *)
From Coq Require Import List NArith Bool.
From Mant Require Import Prim.Bytes Algo.Word Algo.AES Algo.DES.
Import ListNotations.
Open Scope N_scope.

Section CMAC.
  Variable E : list N -> list N.   (* CIPH_K: one block -> one block *)
  Variable bsz : nat.              (* block size in bytes: 16 (b = 128) or 8 (b = 64) *)

  (* 5.3: R_128 = 0^120 10000111, R_64 = 0^59 11011 *)
  Definition cmac_Rb : N := if Nat.eqb bsz 8 then 0x1B else 0x87.

  (* the block as a big-endian integer, shifted left by one bit, truncated to b bits *)
  Definition shl1_block (blk : list N) : list N :=
    be_bytes bsz ((2 * be_val blk) mod 2 ^ (8 * N.of_nat bsz)).

  Definition msb_set (blk : list N) : bool :=
    match blk with b :: _ => 0x80 <=? b | [] => false end.

  (* 6.1 steps 2-3: if MSB(L) = 0 then K := L << 1 else K := (L << 1) xor Rb *)
  Definition cmac_dbl (blk : list N) : list N :=
    let s := shl1_block blk in
    if msb_set blk then xor_bytes s (zeros (bsz - 1) ++ [cmac_Rb]) else s.

  (* 6.1: L = CIPH_K(0^b); K1 = dbl L; K2 = dbl K1 *)
  Definition cmac_subkeys : list N * list N :=
    let L := E (zeros bsz) in
    let K1 := cmac_dbl L in
    (K1, cmac_dbl K1).

  (* 6.2 steps 5-6: C_0 = 0^b, C_i = CIPH_K(C_{i-1} xor M_i) over all blocks but the last;
     the last block is complete (-> xor K1) or is padded with 10^j (-> xor K2) *)
  Fixpoint cmac_loop (K1 K2 : list N) (C : list N) (blocks : list (list N)) : list N :=
    match blocks with
    | [] => E (xor_bytes (xor_bytes (0x80 :: zeros (bsz - 1)) K2) C)        (* empty message *)
    | [last] =>
        if Nat.eqb (length last) bsz
        then E (xor_bytes (xor_bytes last K1) C)
        else E (xor_bytes (xor_bytes (last ++ 0x80 :: zeros (bsz - length last - 1)) K2) C)
    | m :: r => cmac_loop K1 K2 (E (xor_bytes C m)) r
    end.

  (* 6.2: T = MSB_Tlen(C_n) with Tlen = b (the full block) *)
  Definition cmac (msg : list N) : list N :=
    let '(K1, K2) := cmac_subkeys in
    cmac_loop K1 K2 (zeros bsz) (chunks bsz msg).
End CMAC.

Definition cmac_spec (E : list N -> list N) (bsz : nat) (msg : list N) : list N := cmac E bsz msg.

(* AES-CMAC (RFC 4493) for 16/24/32-byte keys, DES-CMAC for 8-byte keys *)
Definition cmac_aes (key msg : list N) : list N :=
  let rks := aes_round_keys key in cmac_spec (aes_cipher rks) 16 msg.
Definition cmac_des (key msg : list N) : list N :=
  let ks := des_subkeys key in cmac_spec (des_crypt ks) 8 msg.
