(* MD5 message digest, written from RFC 1321 (section 3).  Reference implementation:
   definitions only; executable.  Bytes are N (< 256), words are N (< 2^32). *)
From Coq Require Import List NArith.
From Mant Require Import Prim.Bytes Algo.Word.
Import ListNotations.
Open Scope N_scope.

(* RFC 1321 3.4: auxiliary functions
     F(X,Y,Z) = XY v not(X) Z
     G(X,Y,Z) = XZ v Y not(Z)
     H(X,Y,Z) = X xor Y xor Z
     I(X,Y,Z) = Y xor (X v not(Z)) *)
Definition md5_F (x y z : N) : N := N.lor (N.land x y) (N.land (not32 x) z).
Definition md5_G (x y z : N) : N := N.lor (N.land x z) (N.land y (not32 z)).
Definition md5_H (x y z : N) : N := N.lxor (N.lxor x y) z.
Definition md5_I (x y z : N) : N := N.lxor y (N.lor x (not32 z)).

Definition md5_state : Type := (N * N * N * N)%type.

(* RFC 1321 3.3 *)
Definition md5_init : md5_state := (0x67452301, 0xefcdab89, 0x98badcfe, 0x10325476).

(* One operation [abcd k s i]:  a = b + ((a + f(b,c,d) + X[k] + T[i]) <<< s).
   Registers rotate (a,b,c,d) -> (d,a',b,c), realising [ABCD ..] [DABC ..] [CDAB ..] [BCDA ..]. *)
Definition md5_op (f : N -> N -> N -> N) (X : list N) (st : md5_state) (e : nat * N * N) : md5_state :=
  let '(a, b, c, d) := st in
  let '(k, s, t) := e in
  (d, w32 (b + rotl32 (a + f b c d + nth k X 0 + t) s), b, c).

Definition md5_e (k : nat) (s t : N) : nat * N * N := (k, s, t).

(* Round tables (k, s, T[i]) in the order of RFC 1321 3.4; T[i] = floor(2^32 * abs(sin i)). *)
Definition md5_round1 : list (nat * N * N) :=
  [
    md5_e 0 7 0xd76aa478; md5_e 1 12 0xe8c7b756; md5_e 2 17 0x242070db; md5_e 3 22 0xc1bdceee;
    md5_e 4 7 0xf57c0faf; md5_e 5 12 0x4787c62a; md5_e 6 17 0xa8304613; md5_e 7 22 0xfd469501;
    md5_e 8 7 0x698098d8; md5_e 9 12 0x8b44f7af; md5_e 10 17 0xffff5bb1; md5_e 11 22 0x895cd7be;
    md5_e 12 7 0x6b901122; md5_e 13 12 0xfd987193; md5_e 14 17 0xa679438e; md5_e 15 22 0x49b40821 ].

Definition md5_round2 : list (nat * N * N) :=
  [
    md5_e 1 5 0xf61e2562; md5_e 6 9 0xc040b340; md5_e 11 14 0x265e5a51; md5_e 0 20 0xe9b6c7aa;
    md5_e 5 5 0xd62f105d; md5_e 10 9 0x02441453; md5_e 15 14 0xd8a1e681; md5_e 4 20 0xe7d3fbc8;
    md5_e 9 5 0x21e1cde6; md5_e 14 9 0xc33707d6; md5_e 3 14 0xf4d50d87; md5_e 8 20 0x455a14ed;
    md5_e 13 5 0xa9e3e905; md5_e 2 9 0xfcefa3f8; md5_e 7 14 0x676f02d9; md5_e 12 20 0x8d2a4c8a ].

Definition md5_round3 : list (nat * N * N) :=
  [
    md5_e 5 4 0xfffa3942; md5_e 8 11 0x8771f681; md5_e 11 16 0x6d9d6122; md5_e 14 23 0xfde5380c;
    md5_e 1 4 0xa4beea44; md5_e 4 11 0x4bdecfa9; md5_e 7 16 0xf6bb4b60; md5_e 10 23 0xbebfbc70;
    md5_e 13 4 0x289b7ec6; md5_e 0 11 0xeaa127fa; md5_e 3 16 0xd4ef3085; md5_e 6 23 0x04881d05;
    md5_e 9 4 0xd9d4d039; md5_e 12 11 0xe6db99e5; md5_e 15 16 0x1fa27cf8; md5_e 2 23 0xc4ac5665 ].

Definition md5_round4 : list (nat * N * N) :=
  [
    md5_e 0 6 0xf4292244; md5_e 7 10 0x432aff97; md5_e 14 15 0xab9423a7; md5_e 5 21 0xfc93a039;
    md5_e 12 6 0x655b59c3; md5_e 3 10 0x8f0ccc92; md5_e 10 15 0xffeff47d; md5_e 1 21 0x85845dd1;
    md5_e 8 6 0x6fa87e4f; md5_e 15 10 0xfe2ce6e0; md5_e 6 15 0xa3014314; md5_e 13 21 0x4e0811a1;
    md5_e 4 6 0xf7537e82; md5_e 11 10 0xbd3af235; md5_e 2 15 0x2ad7d2bb; md5_e 9 21 0xeb86d391 ].

(* RFC 1321 3.4: process one 16-word block X. *)
Definition md5_compress (st : md5_state) (X : list N) : md5_state :=
  let '(aa, bb, cc, dd) := st in
  let st1 := fold_left (md5_op md5_F X) md5_round1 st in
  let st2 := fold_left (md5_op md5_G X) md5_round2 st1 in
  let st3 := fold_left (md5_op md5_H X) md5_round3 st2 in
  let st4 := fold_left (md5_op md5_I X) md5_round4 st3 in
  let '(a, b, c, d) := st4 in
  (w32 (a + aa), w32 (b + bb), w32 (c + cc), w32 (d + dd)).

(* RFC 1321 3.1 + 3.2 *)
Definition md5_pad (msg : list N) : list N := md_pad_le msg.

(* RFC 1321 3.5 *)
Definition md5_output (st : md5_state) : list N :=
  let '(a, b, c, d) := st in word_le a ++ word_le b ++ word_le c ++ word_le d.

Definition md5_blocks (st : md5_state) (ws : list N) : md5_state := fold_blocks16 md5_compress st ws.

Definition md5 (msg : list N) : list N :=
  md5_output (md5_blocks md5_init (words_le (md5_pad msg))).
