(* SHA-1, written from FIPS 180-4 (sections 4.1.1, 4.2.1, 5.1.1, 5.3.1, 6.1.2).
   Reference implementation: definitions only; executable. *)
From Coq Require Import List NArith.
From Mant Require Import Prim.Bytes Algo.Word.
Import ListNotations.
Open Scope N_scope.

(* 4.1.1: f_t(x,y,z) = Ch (0<=t<=19), Parity (20<=t<=39), Maj (40<=t<=59), Parity (60<=t<=79) *)
Definition sha_Ch (x y z : N) : N := N.lxor (N.land x y) (N.land (not32 x) z).
Definition sha_Parity (x y z : N) : N := N.lxor (N.lxor x y) z.
Definition sha_Maj (x y z : N) : N := N.lxor (N.lxor (N.land x y) (N.land x z)) (N.land y z).

Definition sha1_f (t : nat) : N -> N -> N -> N :=
  if Nat.ltb t 20 then sha_Ch else if Nat.ltb t 40 then sha_Parity
  else if Nat.ltb t 60 then sha_Maj else sha_Parity.

(* 4.2.1 *)
Definition sha1_K (t : nat) : N :=
  if Nat.ltb t 20 then 0x5a827999 else if Nat.ltb t 40 then 0x6ed9eba1
  else if Nat.ltb t 60 then 0x8f1bbcdc else 0xca62c1d6.

Definition sha1_state : Type := (N * N * N * N * N)%type.

(* 5.3.1 *)
Definition sha1_init : sha1_state := (0x67452301, 0xefcdab89, 0x98badcfe, 0x10325476, 0xc3d2e1f0).

(* 6.1.2 step 1: message schedule.  [win] holds W(t-16) .. W(t-1);
   W(t) = ROTL1 (W(t-3) xor W(t-8) xor W(t-14) xor W(t-16)).  Returns W(t), W(t+1), ... (n words). *)
Fixpoint sha1_expand (n : nat) (win : list N) : list N :=
  match n with
  | O => []
  | S n' =>
      match win with
      | [w0; w1; w2; w3; w4; w5; w6; w7; w8; w9; w10; w11; w12; w13; w14; w15] =>
          let w := rotl32 (N.lxor (N.lxor (N.lxor w13 w8) w2) w0) 1 in
          w :: sha1_expand n' [w1; w2; w3; w4; w5; w6; w7; w8; w9; w10; w11; w12; w13; w14; w15; w]
      | _ => []
      end
  end.

Definition sha1_schedule (M : list N) : list N := M ++ sha1_expand 64 M.

(* 6.1.2 step 3: T = ROTL5(a) + f_t(b,c,d) + e + K_t + W_t; e=d; d=c; c=ROTL30(b); b=a; a=T *)
Fixpoint sha1_rounds (t : nat) (W : list N) (st : sha1_state) : sha1_state :=
  match W with
  | [] => st
  | wt :: W' =>
      let '(a, b, c, d, e) := st in
      let T := w32 (rotl32 a 5 + sha1_f t b c d + e + sha1_K t + wt) in
      sha1_rounds (S t) W' (T, a, rotl32 b 30, c, d)
  end.

(* 6.1.2: one 16-word block M *)
Definition sha1_compress (st : sha1_state) (M : list N) : sha1_state :=
  let '(h0, h1, h2, h3, h4) := st in
  let '(a, b, c, d, e) := sha1_rounds 0 (sha1_schedule M) st in
  (w32 (a + h0), w32 (b + h1), w32 (c + h2), w32 (d + h3), w32 (e + h4)).

(* 5.1.1: padding (big-endian 64-bit bit length) *)
Definition sha1_pad (msg : list N) : list N := md_pad_be msg.

Definition sha1_output (st : sha1_state) : list N :=
  let '(h0, h1, h2, h3, h4) := st in
  word_be h0 ++ word_be h1 ++ word_be h2 ++ word_be h3 ++ word_be h4.

Definition sha1_blocks (st : sha1_state) (ws : list N) : sha1_state := fold_blocks16 sha1_compress st ws.

Definition sha1 (msg : list N) : list N :=
  sha1_output (sha1_blocks sha1_init (words_be (sha1_pad msg))).

(* the digest of a message whose first [pre] bytes (a multiple of 64) have already been absorbed
   into [st]; sha1 msg = sha1_finish sha1_init 0 msg *)
Definition sha1_finish (st : sha1_state) (pre : N) (msg : list N) : list N :=
  sha1_output (sha1_blocks st (words_be (md_pad_be_from pre msg))).
