(* UTF-16 (RFC 2781): Unicode scalar values <-> 16-bit code units <-> little-endian bytes.
   Code points, code units and bytes are N.  Definitions only; executable.

   Totalisation (as Go's unicode/utf16 does, so that the functions can be run against it on
   every input): a code point that is not a Unicode scalar value (a surrogate D800..DFFF or a
   value above 10FFFF) is encoded as U+FFFD; an unpaired surrogate code unit decodes to U+FFFD.
   On scalar values / well-formed unit sequences this is exactly RFC 2781 sections 2.1 and 2.2. *)
From Coq Require Import List NArith Bool.
Import ListNotations.
Open Scope N_scope.

Definition scalar_value (c : N) : Prop := c < 0xD800 \/ (0xE000 <= c /\ c <= 0x10FFFF).
Definition scalar_valueb (c : N) : bool := (c <? 0xD800) || ((0xE000 <=? c) && (c <=? 0x10FFFF)).

Definition is_high_surrogate (u : N) : bool := (0xD800 <=? u) && (u <? 0xDC00).
Definition is_low_surrogate (u : N) : bool := (0xDC00 <=? u) && (u <? 0xE000).

Definition replacement_char : N := 0xFFFD.

(* RFC 2781 2.1 *)
Definition utf16_encode_cp (c : N) : list N :=
  if c <? 0x10000 then
    if is_high_surrogate c || is_low_surrogate c then [replacement_char] else [c]
  else if c <=? 0x10FFFF then
    let c' := c - 0x10000 in
    [0xD800 + c' / 0x400; 0xDC00 + c' mod 0x400]
  else [replacement_char].

Definition utf16_encode (cps : list N) : list N := flat_map utf16_encode_cp cps.

(* RFC 2781 2.2 *)
Fixpoint utf16_decode (us : list N) : list N :=
  match us with
  | [] => []
  | u :: r =>
      if is_high_surrogate u then
        match r with
        | v :: r' =>
            if is_low_surrogate v
            then (0x10000 + (u - 0xD800) * 0x400 + (v - 0xDC00)) :: utf16_decode r'
            else replacement_char :: utf16_decode r
        | [] => [replacement_char]
        end
      else if is_low_surrogate u then replacement_char :: utf16_decode r
      else u :: utf16_decode r
  end.

(* code units <-> little-endian bytes; a trailing odd byte is ignored *)
Definition unit_le (u : N) : list N := [u mod 256; (u / 256) mod 256].
Definition units_to_le (us : list N) : list N := flat_map unit_le us.
Fixpoint units_of_le (bs : list N) : list N :=
  match bs with
  | a :: b :: r => (a + 256 * b) :: units_of_le r
  | _ => []
  end.

Definition utf16le_encode (cps : list N) : list N := units_to_le (utf16_encode cps).
Definition utf16le_decode (bs : list N) : list N := utf16_decode (units_of_le bs).

(* big-endian variant (RFC 2781 3.1), for completeness *)
Definition unit_be (u : N) : list N := [(u / 256) mod 256; u mod 256].
Definition utf16be_encode (cps : list N) : list N := flat_map unit_be (utf16_encode cps).
