(* Advanced Encryption Standard, written from FIPS 197 (sections 4.2, 5.1, 5.2, 5.3):
   AES-128 / AES-192 / AES-256 encryption and decryption of one 16-byte block, and CBC mode
   (NIST SP 800-38A 6.2) over lists of blocks.  The state is the list of its 16 bytes in input
   order, i.e. column by column: s[r,c] = byte (r + 4c).  Definitions only; executable. *)
From Coq Require Import List NArith Bool.
From Mant Require Import Prim.Bytes Algo.Word.
Import ListNotations.
Open Scope N_scope.

(* ------------------------------------------------------------------ *)
(* 4.2: multiplication in GF(2^8) modulo x^8 + x^4 + x^3 + x + 1 *)

Definition xtime (b : N) : N :=
  let s := 2 * b in if s <? 256 then s else N.lxor s 0x11b.

(* a . b, by repeated xtime over the 8 bits of b (4.2.1) *)
Fixpoint gmul_loop (n : nat) (a b : N) : N :=
  match n with
  | O => 0
  | S n' => N.lxor (if N.odd b then a else 0) (gmul_loop n' (xtime a) (N.div2 b))
  end.
Definition gmul (a b : N) : N := gmul_loop 8 a b.

(* ------------------------------------------------------------------ *)
(* 5.1.1 SubBytes: Figure 7, row = high nibble x, column = low nibble y *)

Definition aes_sbox : list (list N) :=
  [
    [0x63; 0x7c; 0x77; 0x7b; 0xf2; 0x6b; 0x6f; 0xc5; 0x30; 0x01; 0x67; 0x2b; 0xfe; 0xd7; 0xab; 0x76];
    [0xca; 0x82; 0xc9; 0x7d; 0xfa; 0x59; 0x47; 0xf0; 0xad; 0xd4; 0xa2; 0xaf; 0x9c; 0xa4; 0x72; 0xc0];
    [0xb7; 0xfd; 0x93; 0x26; 0x36; 0x3f; 0xf7; 0xcc; 0x34; 0xa5; 0xe5; 0xf1; 0x71; 0xd8; 0x31; 0x15];
    [0x04; 0xc7; 0x23; 0xc3; 0x18; 0x96; 0x05; 0x9a; 0x07; 0x12; 0x80; 0xe2; 0xeb; 0x27; 0xb2; 0x75];
    [0x09; 0x83; 0x2c; 0x1a; 0x1b; 0x6e; 0x5a; 0xa0; 0x52; 0x3b; 0xd6; 0xb3; 0x29; 0xe3; 0x2f; 0x84];
    [0x53; 0xd1; 0x00; 0xed; 0x20; 0xfc; 0xb1; 0x5b; 0x6a; 0xcb; 0xbe; 0x39; 0x4a; 0x4c; 0x58; 0xcf];
    [0xd0; 0xef; 0xaa; 0xfb; 0x43; 0x4d; 0x33; 0x85; 0x45; 0xf9; 0x02; 0x7f; 0x50; 0x3c; 0x9f; 0xa8];
    [0x51; 0xa3; 0x40; 0x8f; 0x92; 0x9d; 0x38; 0xf5; 0xbc; 0xb6; 0xda; 0x21; 0x10; 0xff; 0xf3; 0xd2];
    [0xcd; 0x0c; 0x13; 0xec; 0x5f; 0x97; 0x44; 0x17; 0xc4; 0xa7; 0x7e; 0x3d; 0x64; 0x5d; 0x19; 0x73];
    [0x60; 0x81; 0x4f; 0xdc; 0x22; 0x2a; 0x90; 0x88; 0x46; 0xee; 0xb8; 0x14; 0xde; 0x5e; 0x0b; 0xdb];
    [0xe0; 0x32; 0x3a; 0x0a; 0x49; 0x06; 0x24; 0x5c; 0xc2; 0xd3; 0xac; 0x62; 0x91; 0x95; 0xe4; 0x79];
    [0xe7; 0xc8; 0x37; 0x6d; 0x8d; 0xd5; 0x4e; 0xa9; 0x6c; 0x56; 0xf4; 0xea; 0x65; 0x7a; 0xae; 0x08];
    [0xba; 0x78; 0x25; 0x2e; 0x1c; 0xa6; 0xb4; 0xc6; 0xe8; 0xdd; 0x74; 0x1f; 0x4b; 0xbd; 0x8b; 0x8a];
    [0x70; 0x3e; 0xb5; 0x66; 0x48; 0x03; 0xf6; 0x0e; 0x61; 0x35; 0x57; 0xb9; 0x86; 0xc1; 0x1d; 0x9e];
    [0xe1; 0xf8; 0x98; 0x11; 0x69; 0xd9; 0x8e; 0x94; 0x9b; 0x1e; 0x87; 0xe9; 0xce; 0x55; 0x28; 0xdf];
    [0x8c; 0xa1; 0x89; 0x0d; 0xbf; 0xe6; 0x42; 0x68; 0x41; 0x99; 0x2d; 0x0f; 0xb0; 0x54; 0xbb; 0x16] ].

(* 5.3.2 InvSubBytes: Figure 14 *)
Definition aes_inv_sbox : list (list N) :=
  [
    [0x52; 0x09; 0x6a; 0xd5; 0x30; 0x36; 0xa5; 0x38; 0xbf; 0x40; 0xa3; 0x9e; 0x81; 0xf3; 0xd7; 0xfb];
    [0x7c; 0xe3; 0x39; 0x82; 0x9b; 0x2f; 0xff; 0x87; 0x34; 0x8e; 0x43; 0x44; 0xc4; 0xde; 0xe9; 0xcb];
    [0x54; 0x7b; 0x94; 0x32; 0xa6; 0xc2; 0x23; 0x3d; 0xee; 0x4c; 0x95; 0x0b; 0x42; 0xfa; 0xc3; 0x4e];
    [0x08; 0x2e; 0xa1; 0x66; 0x28; 0xd9; 0x24; 0xb2; 0x76; 0x5b; 0xa2; 0x49; 0x6d; 0x8b; 0xd1; 0x25];
    [0x72; 0xf8; 0xf6; 0x64; 0x86; 0x68; 0x98; 0x16; 0xd4; 0xa4; 0x5c; 0xcc; 0x5d; 0x65; 0xb6; 0x92];
    [0x6c; 0x70; 0x48; 0x50; 0xfd; 0xed; 0xb9; 0xda; 0x5e; 0x15; 0x46; 0x57; 0xa7; 0x8d; 0x9d; 0x84];
    [0x90; 0xd8; 0xab; 0x00; 0x8c; 0xbc; 0xd3; 0x0a; 0xf7; 0xe4; 0x58; 0x05; 0xb8; 0xb3; 0x45; 0x06];
    [0xd0; 0x2c; 0x1e; 0x8f; 0xca; 0x3f; 0x0f; 0x02; 0xc1; 0xaf; 0xbd; 0x03; 0x01; 0x13; 0x8a; 0x6b];
    [0x3a; 0x91; 0x11; 0x41; 0x4f; 0x67; 0xdc; 0xea; 0x97; 0xf2; 0xcf; 0xce; 0xf0; 0xb4; 0xe6; 0x73];
    [0x96; 0xac; 0x74; 0x22; 0xe7; 0xad; 0x35; 0x85; 0xe2; 0xf9; 0x37; 0xe8; 0x1c; 0x75; 0xdf; 0x6e];
    [0x47; 0xf1; 0x1a; 0x71; 0x1d; 0x29; 0xc5; 0x89; 0x6f; 0xb7; 0x62; 0x0e; 0xaa; 0x18; 0xbe; 0x1b];
    [0xfc; 0x56; 0x3e; 0x4b; 0xc6; 0xd2; 0x79; 0x20; 0x9a; 0xdb; 0xc0; 0xfe; 0x78; 0xcd; 0x5a; 0xf4];
    [0x1f; 0xdd; 0xa8; 0x33; 0x88; 0x07; 0xc7; 0x31; 0xb1; 0x12; 0x10; 0x59; 0x27; 0x80; 0xec; 0x5f];
    [0x60; 0x51; 0x7f; 0xa9; 0x19; 0xb5; 0x4a; 0x0d; 0x2d; 0xe5; 0x7a; 0x9f; 0x93; 0xc9; 0x9c; 0xef];
    [0xa0; 0xe0; 0x3b; 0x4d; 0xae; 0x2a; 0xf5; 0xb0; 0xc8; 0xeb; 0xbb; 0x3c; 0x83; 0x53; 0x99; 0x61];
    [0x17; 0x2b; 0x04; 0x7e; 0xba; 0x77; 0xd6; 0x26; 0xe1; 0x69; 0x14; 0x63; 0x55; 0x21; 0x0c; 0x7d] ].

Definition box_lookup (box : list (list N)) (b : N) : N :=
  nth (N.to_nat (N.land b 15)) (nth (N.to_nat (N.shiftr b 4)) box []) 0.

Definition sub_byte (b : N) : N := box_lookup aes_sbox b.
Definition inv_sub_byte (b : N) : N := box_lookup aes_inv_sbox b.

Definition sub_bytes (st : list N) : list N := map sub_byte st.
Definition inv_sub_bytes (st : list N) : list N := map inv_sub_byte st.

(* ------------------------------------------------------------------ *)
(* 5.1.2 ShiftRows: s'[r,c] = s[r, (c + r) mod 4];   5.3.1 InvShiftRows: s'[r,(c + r) mod 4] = s[r,c].
   As index tables into the 16-byte state (output byte k = input byte tbl[k]). *)

Definition select (tbl : list nat) (st : list N) : list N := map (fun i => nth i st 0) tbl.

Definition shift_rows_tbl : list nat :=
  [0; 5; 10; 15;  4; 9; 14; 3;  8; 13; 2; 7;  12; 1; 6; 11]%nat.
Definition inv_shift_rows_tbl : list nat :=
  [0; 13; 10; 7;  4; 1; 14; 11;  8; 5; 2; 15;  12; 9; 6; 3]%nat.

Definition shift_rows (st : list N) : list N := select shift_rows_tbl st.
Definition inv_shift_rows (st : list N) : list N := select inv_shift_rows_tbl st.

(* ------------------------------------------------------------------ *)
(* 5.1.3 MixColumns: each column times {03}x^3 + {01}x^2 + {01}x + {02};
   5.3.3 InvMixColumns: times {0b}x^3 + {0d}x^2 + {09}x + {0e}. *)

Definition xor4 (a b c d : N) : N := N.lxor (N.lxor a b) (N.lxor c d).

Definition mix_column (s0 s1 s2 s3 : N) : list N :=
  [ xor4 (gmul 2 s0) (gmul 3 s1) s2 s3;
    xor4 s0 (gmul 2 s1) (gmul 3 s2) s3;
    xor4 s0 s1 (gmul 2 s2) (gmul 3 s3);
    xor4 (gmul 3 s0) s1 s2 (gmul 2 s3) ].

Definition inv_mix_column (s0 s1 s2 s3 : N) : list N :=
  [ xor4 (gmul 0x0e s0) (gmul 0x0b s1) (gmul 0x0d s2) (gmul 0x09 s3);
    xor4 (gmul 0x09 s0) (gmul 0x0e s1) (gmul 0x0b s2) (gmul 0x0d s3);
    xor4 (gmul 0x0d s0) (gmul 0x09 s1) (gmul 0x0e s2) (gmul 0x0b s3);
    xor4 (gmul 0x0b s0) (gmul 0x0d s1) (gmul 0x09 s2) (gmul 0x0e s3) ].

Fixpoint map_columns (f : N -> N -> N -> N -> list N) (st : list N) : list N :=
  match st with
  | s0 :: s1 :: s2 :: s3 :: r => f s0 s1 s2 s3 ++ map_columns f r
  | _ => []
  end.

Definition mix_columns (st : list N) : list N := map_columns mix_column st.
Definition inv_mix_columns (st : list N) : list N := map_columns inv_mix_column st.

(* 5.1.4 AddRoundKey *)
Definition add_round_key (st rk : list N) : list N := xor_bytes st rk.

(* ------------------------------------------------------------------ *)
(* 5.2 Key expansion.  Words are 4-byte lists; the schedule is built in reverse (newest word
   first) so that w[i-1] is the head and w[i-Nk] is at depth Nk-1. *)

Definition sub_word (w : list N) : list N := map sub_byte w.
Definition rot_word (w : list N) : list N :=
  match w with a :: r => r ++ [a] | [] => [] end.

(* Rcon[i] = [x^(i-1), 0, 0, 0], i >= 1 *)
Fixpoint rcon_pow (n : nat) : N := match n with O => 1 | S n' => xtime (rcon_pow n') end.
Definition rcon (i : nat) : list N := [rcon_pow (pred i); 0; 0; 0].

Fixpoint key_words (key : list N) : list (list N) :=
  match key with
  | a :: b :: c :: d :: r => [a; b; c; d] :: key_words r
  | _ => []
  end.

(* generate words w[i], i = i0 .. i0+n-1, given rev [w[0..i0-1]] *)
Fixpoint expand_loop (n : nat) (Nk : nat) (i : nat) (racc : list (list N)) : list (list N) :=
  match n with
  | O => racc
  | S n' =>
      let temp := hd [] racc in
      let temp' :=
        if Nat.eqb (Nat.modulo i Nk) 0 then xor_bytes (sub_word (rot_word temp)) (rcon (Nat.div i Nk))
        else if Nat.ltb 6 Nk && Nat.eqb (Nat.modulo i Nk) 4 then sub_word temp
        else temp in
      let w := xor_bytes (nth (pred Nk) racc []) temp' in
      expand_loop n' Nk (S i) (w :: racc)
  end.

(* w[0 .. 4*(Nr+1)-1] with Nk = key length / 4, Nr = Nk + 6 *)
Definition key_expansion (key : list N) : list (list N) :=
  let ws := key_words key in
  let Nk := length ws in
  rev (expand_loop (4 * (Nk + 7) - Nk) Nk Nk (rev ws)).

(* round keys: consecutive groups of four words, as 16-byte lists *)
Fixpoint round_keys_of (ws : list (list N)) : list (list N) :=
  match ws with
  | a :: b :: c :: d :: r => (a ++ b ++ c ++ d) :: round_keys_of r
  | _ => []
  end.
Definition aes_round_keys (key : list N) : list (list N) := round_keys_of (key_expansion key).

(* ------------------------------------------------------------------ *)
(* 5.1 Cipher *)

(* rounds 1 .. Nr-1 with keys rks (all but the last), then the final round *)
Fixpoint cipher_rounds (rks : list (list N)) (st : list N) : list N :=
  match rks with
  | [] => st
  | [last] => add_round_key (shift_rows (sub_bytes st)) last
  | rk :: rks' => cipher_rounds rks' (add_round_key (mix_columns (shift_rows (sub_bytes st))) rk)
  end.

Definition aes_cipher (rks : list (list N)) (block : list N) : list N :=
  match rks with
  | [] => block
  | rk0 :: rks' => cipher_rounds rks' (add_round_key block rk0)
  end.

(* 5.3 Inverse cipher: takes the round keys in REVERSE order (last round key first) *)
Fixpoint inv_cipher_rounds (rrks : list (list N)) (st : list N) : list N :=
  match rrks with
  | [] => st
  | [rk0] => add_round_key (inv_sub_bytes (inv_shift_rows st)) rk0
  | rk :: rrks' =>
      inv_cipher_rounds rrks' (inv_mix_columns (add_round_key (inv_sub_bytes (inv_shift_rows st)) rk))
  end.

Definition aes_inv_cipher (rrks : list (list N)) (block : list N) : list N :=
  match rrks with
  | [] => block
  | rkN :: rrks' => inv_cipher_rounds rrks' (add_round_key block rkN)
  end.

(* key: 16, 24 or 32 bytes; block: 16 bytes *)
Definition aes_encrypt (key block : list N) : list N := aes_cipher (aes_round_keys key) block.
Definition aes_decrypt (key block : list N) : list N := aes_inv_cipher (rev (aes_round_keys key)) block.

Definition aes128_encrypt := aes_encrypt.
Definition aes128_decrypt := aes_decrypt.
Definition aes256_encrypt := aes_encrypt.
Definition aes256_decrypt := aes_decrypt.

(* ------------------------------------------------------------------ *)
(* CBC mode (SP 800-38A 6.2) for any block cipher E / D, over a list of blocks *)

Fixpoint cbc_encrypt_blocks (E : list N -> list N) (iv : list N) (blocks : list (list N)) : list (list N) :=
  match blocks with
  | [] => []
  | p :: r => let c := E (xor_bytes p iv) in c :: cbc_encrypt_blocks E c r
  end.

Fixpoint cbc_decrypt_blocks (D : list N -> list N) (iv : list N) (blocks : list (list N)) : list (list N) :=
  match blocks with
  | [] => []
  | c :: r => xor_bytes (D c) iv :: cbc_decrypt_blocks D c r
  end.

(* on byte strings whose length is a multiple of the block size bsz *)
Definition cbc_encrypt (E : list N -> list N) (bsz : nat) (iv data : list N) : list N :=
  concat (cbc_encrypt_blocks E iv (chunks bsz data)).
Definition cbc_decrypt (D : list N -> list N) (bsz : nat) (iv data : list N) : list N :=
  concat (cbc_decrypt_blocks D iv (chunks bsz data)).

(* AES-CBC with the key schedule computed once *)
Definition aes_cbc_encrypt (key iv data : list N) : list N :=
  let rks := aes_round_keys key in cbc_encrypt (aes_cipher rks) 16 iv data.
Definition aes_cbc_decrypt (key iv data : list N) : list N :=
  let rrks := rev (aes_round_keys key) in cbc_decrypt (aes_inv_cipher rrks) 16 iv data.
