(* PBKDF2, written from RFC 8018 section 5.2, generic in the pseudorandom function
   PRF : key -> text -> output of hLen bytes; instance with HMAC-SHA-1 (and HMAC-SHA-256).
   The iteration count c is an N and is iterated with N.iter (never converted to nat).
   Definitions only; executable. *)
From Coq Require Import List NArith.
From Mant Require Import Prim.Bytes Algo.Word Algo.HMAC.
Import ListNotations.
Open Scope N_scope.

Section PBKDF2.
  Variable PRF : list N -> list N -> list N.

  (* F(P, S, c, i) = U_1 xor U_2 xor ... xor U_c,
     U_1 = PRF(P, S || INT(i)),  U_j = PRF(P, U_{j-1}).
     The pair carried through the iteration is (U_j, U_1 xor ... xor U_j).
     (c = 0 is outside the RFC; it gives U_1, as x/crypto/pbkdf2 does.)
     [prf] is PRF keyed with the password, PRF P. *)
  Definition pbkdf2_step (prf : list N -> list N) (ua : list N * list N) : list N * list N :=
    let u' := prf (fst ua) in (u', xor_bytes (snd ua) u').

  Definition pbkdf2_F (prf : list N -> list N) (S : list N) (c : N) (i : N) : list N :=
    let u1 := prf (S ++ be_bytes 4 i) in
    snd (N.iter (c - 1) (pbkdf2_step prf) (u1, u1)).

  (* T_1 || T_2 || ... || T_l starting at block index i *)
  Fixpoint pbkdf2_blocks (prf : list N -> list N) (S : list N) (c : N) (i : N) (l : nat) : list N :=
    match l with
    | O => []
    | Datatypes.S l' => pbkdf2_F prf S c i ++ pbkdf2_blocks prf S c (i + 1) l'
    end.

  (* DK = first dkLen bytes of T_1 || ... || T_l,  l = ceil(dkLen / hLen) *)
  Definition pbkdf2 (hLen : nat) (P S : list N) (c : N) (dkLen : nat) : list N :=
    let l := Nat.div (dkLen + hLen - 1) hLen in
    let prf := PRF P in
    firstn dkLen (pbkdf2_blocks prf S c 1 l).
End PBKDF2.

Definition pbkdf2_hmac_sha1 (P S : list N) (c : N) (dkLen : nat) : list N :=
  pbkdf2 hmac_sha1 20 P S c dkLen.
Definition pbkdf2_hmac_sha256 (P S : list N) (c : N) (dkLen : nat) : list N :=
  pbkdf2 hmac_sha256 32 P S c dkLen.

(* The same function computed with the key blocks of HMAC absorbed once per password
   (two SHA-1 compressions per iteration instead of four); equal to pbkdf2_hmac_sha1
   (AlgoProofs.pbkdf2_hmac_sha1_fast_eq).  Use this one in executable models. *)
Definition pbkdf2_hmac_sha1_fast (P S : list N) (c : N) (dkLen : nat) : list N :=
  pbkdf2 hmac_sha1_keyed 20 P S c dkLen.
