(* Shared helpers of the reference algorithms (Algo/*.v): 32-bit word arithmetic on N with the
   reduction mod 2^32 written out, byte <-> word conversions, block iteration, byte-string xor.
   Everything is executable (vm_compute and extraction with ExtrOcamlBasic only). *)
From Coq Require Import List Arith NArith Lia Bool.
From Coq Require Import ZifyN ZifyNat ZifyBool.
From Mant Require Import Prim.Bytes.
Import ListNotations.
Open Scope N_scope.

(* ------------------------------------------------------------------ *)
(* 32-bit words *)

(* x mod 2^32, computed with a mask (see w32_spec). *)
Definition w32 (x : N) : N := N.land x 0xFFFFFFFF.

Lemma w32_spec x : w32 x = x mod 2 ^ 32.
Proof. unfold w32. change 0xFFFFFFFF with (N.ones 32). apply N.land_ones. Qed.

Lemma w32_lt x : w32 x < 2 ^ 32.
Proof. rewrite w32_spec. apply N.mod_lt. discriminate. Qed.

Definition add32 (a b : N) : N := w32 (a + b).
Definition not32 (x : N) : N := N.lxor (w32 x) 0xFFFFFFFF.

(* circular left / right shift of a 32-bit word by 0 < s < 32 *)
Definition rotl32 (x s : N) : N := N.lor (w32 (N.shiftl x s)) (N.shiftr (w32 x) (32 - s)).
Definition rotr32 (x s : N) : N := N.lor (N.shiftr (w32 x) s) (w32 (N.shiftl x (32 - s))).
Definition shr32 (x s : N) : N := N.shiftr (w32 x) s.

(* 64-bit words (length fields) *)
Definition w64 (x : N) : N := N.land x 0xFFFFFFFFFFFFFFFF.
Lemma w64_spec x : w64 x = x mod 2 ^ 64.
Proof. unfold w64. change 0xFFFFFFFFFFFFFFFF with (N.ones 64). apply N.land_ones. Qed.

(* ------------------------------------------------------------------ *)
(* bytes <-> 32-bit words; an incomplete trailing group is dropped (callers pad first) *)

Fixpoint words_le (l : list N) : list N :=
  match l with
  | a :: b :: c :: d :: r => (a + 256 * b + 65536 * c + 16777216 * d) :: words_le r
  | _ => []
  end.

Fixpoint words_be (l : list N) : list N :=
  match l with
  | a :: b :: c :: d :: r => (16777216 * a + 65536 * b + 256 * c + d) :: words_be r
  | _ => []
  end.

(* the four bytes of a word (computed with shifts and masks; equal to le_bytes 4 / be_bytes 4) *)
Definition byte_at (w : N) (sh : N) : N := N.land (N.shiftr w sh) 0xFF.
Definition word_le (w : N) : list N := [byte_at w 0; byte_at w 8; byte_at w 16; byte_at w 24].
Definition word_be (w : N) : list N := [byte_at w 24; byte_at w 16; byte_at w 8; byte_at w 0].

Lemma byte_at_spec w sh : byte_at w sh = (w / 2 ^ sh) mod 256.
Proof.
  unfold byte_at. rewrite N.shiftr_div_pow2. change 0xFF with (N.ones 8). now rewrite N.land_ones.
Qed.

Lemma word_le_spec w : word_le w = le_bytes 4 w.
Proof.
  unfold word_le. rewrite !byte_at_spec. cbn [le_bytes].
  rewrite !N.div_div by discriminate. rewrite N.div_1_r. reflexivity.
Qed.

Lemma word_be_spec w : word_be w = be_bytes 4 w.
Proof.
  unfold be_bytes. rewrite <- word_le_spec. reflexivity.
Qed.

Lemma length_word_le w : length (word_le w) = 4%nat. Proof. reflexivity. Qed.
Lemma length_word_be w : length (word_be w) = 4%nat. Proof. reflexivity. Qed.
Lemma wf_word_le w : wf_bytes (word_le w). Proof. rewrite word_le_spec. apply wf_le_bytes. Qed.
Lemma wf_word_be w : wf_bytes (word_be w). Proof. rewrite word_be_spec. apply wf_be_bytes. Qed.

(* ------------------------------------------------------------------ *)
(* iterate a compression function over 16-word blocks (structural: 16 words at a time) *)

Fixpoint fold_blocks16 {S : Type} (f : S -> list N -> S) (st : S) (ws : list N) : S :=
  match ws with
  | x0 :: x1 :: x2 :: x3 :: x4 :: x5 :: x6 :: x7 :: x8 :: x9 :: x10 :: x11 :: x12 :: x13 :: x14 :: x15 :: r =>
      fold_blocks16 f (f st [x0; x1; x2; x3; x4; x5; x6; x7; x8; x9; x10; x11; x12; x13; x14; x15]) r
  | _ => st
  end.

(* ------------------------------------------------------------------ *)
(* generic chunking: split into pieces of n (the last may be shorter); fuel = length *)

Fixpoint chunks_fuel {A} (fuel n : nat) (l : list A) : list (list A) :=
  match fuel with
  | O => []
  | S fuel' =>
      match l with
      | [] => []
      | _ => firstn n l :: chunks_fuel fuel' n (skipn n l)
      end
  end.
Definition chunks {A} (n : nat) (l : list A) : list (list A) := chunks_fuel (length l) n l.

(* ------------------------------------------------------------------ *)
(* xor of byte strings; the result has the length of the FIRST argument (missing bytes of the
   second count as 0) *)

Fixpoint xor_bytes (a b : list N) : list N :=
  match a with
  | [] => []
  | x :: a' =>
      match b with
      | [] => x :: xor_bytes a' []
      | y :: b' => N.lxor x y :: xor_bytes a' b'
      end
  end.

Lemma length_xor_bytes a b : length (xor_bytes a b) = length a.
Proof. revert b; induction a as [|x a IH]; intros [|y b]; simpl; auto. Qed.

Lemma lxor_byte x y : x < 256 -> y < 256 -> N.lxor x y < 256.
Proof.
  intros Hx Hy. change 256 with (2 ^ 8) in *.
  destruct (N.eq_dec (N.lxor x y) 0) as [E|NE]; [rewrite E; reflexivity|].
  apply N.log2_lt_pow2; [lia|].
  eapply N.le_lt_trans; [apply N.log2_lxor|].
  apply N.max_lub_lt.
  - destruct (N.eq_dec x 0) as [->|]; [reflexivity|]. apply N.log2_lt_pow2; lia.
  - destruct (N.eq_dec y 0) as [->|]; [reflexivity|]. apply N.log2_lt_pow2; lia.
Qed.

Lemma wf_xor_bytes a b : wf_bytes a -> wf_bytes b -> wf_bytes (xor_bytes a b).
Proof.
  unfold wf_bytes. intros Ha; revert b; induction Ha as [|x a Hx Ha IH]; intros b Hb; simpl.
  - constructor.
  - destruct Hb as [|y b Hy Hb]; constructor; auto using lxor_byte.
Qed.

(* n zero bytes *)
Definition zeros (n : nat) : list N := repeatN 0 n.
Lemma length_zeros n : length (zeros n) = n. Proof. apply repeatN_length. Qed.
Lemma wf_zeros n : wf_bytes (zeros n).
Proof. unfold wf_bytes, zeros. induction n; simpl; constructor; auto. reflexivity. Qed.

(* ------------------------------------------------------------------ *)
(* Merkle-Damgard padding shared by MD4/MD5 (little-endian length) and SHA-1/SHA-256
   (big-endian length): message, 0x80, k zero bytes with (len + 1 + k) = 56 mod 64, then the
   64-bit bit length. *)

Definition md_zero_count (len : N) : nat :=
  let r := len mod 64 in N.to_nat (if r <? 56 then 55 - r else 119 - r).

Definition md_pad_le (msg : list N) : list N :=
  msg ++ [0x80] ++ zeros (md_zero_count (lenN msg)) ++ le_bytes 8 (w64 (8 * lenN msg)).
Definition md_pad_be (msg : list N) : list N :=
  msg ++ [0x80] ++ zeros (md_zero_count (lenN msg)) ++ be_bytes 8 (w64 (8 * lenN msg)).

(* the same padding for a message that continues [pre] bytes already absorbed (pre a multiple
   of 64): only the length field and the zero count see the prefix *)
Definition md_pad_be_from (pre : N) (msg : list N) : list N :=
  msg ++ [0x80] ++ zeros (md_zero_count (pre + lenN msg)) ++ be_bytes 8 (w64 (8 * (pre + lenN msg))).
Definition md_pad_le_from (pre : N) (msg : list N) : list N :=
  msg ++ [0x80] ++ zeros (md_zero_count (pre + lenN msg)) ++ le_bytes 8 (w64 (8 * (pre + lenN msg))).

Lemma md_pad_be_from_0 msg : md_pad_be_from 0 msg = md_pad_be msg.
Proof. reflexivity. Qed.
Lemma md_pad_le_from_0 msg : md_pad_le_from 0 msg = md_pad_le msg.
Proof. reflexivity. Qed.

Lemma md_pad_be_app a b : md_pad_be (a ++ b) = a ++ md_pad_be_from (lenN a) b.
Proof. unfold md_pad_be, md_pad_be_from. rewrite lenN_app, <- app_assoc. reflexivity. Qed.
Lemma md_pad_le_app a b : md_pad_le (a ++ b) = a ++ md_pad_le_from (lenN a) b.
Proof. unfold md_pad_le, md_pad_le_from. rewrite lenN_app, <- app_assoc. reflexivity. Qed.

Lemma md_pad_le_length msg : Nat.modulo (length (md_pad_le msg)) 64 = 0%nat.
Proof.
  unfold md_pad_le. rewrite !app_length, length_zeros, length_le_bytes. cbn [length].
  unfold md_zero_count, lenN.
  set (n := length msg).
  assert (H := N.mod_lt (N.of_nat n) 64 ltac:(discriminate)).
  assert (E := N.div_mod (N.of_nat n) 64 ltac:(discriminate)).
  set (q := N.of_nat n / 64) in *. set (r := N.of_nat n mod 64) in *.
  destruct (N.ltb_spec r 56).
  - replace (n + (1 + (N.to_nat (55 - r) + 8)))%nat with ((N.to_nat q + 1) * 64)%nat by lia.
    apply Nat.mod_mul. discriminate.
  - replace (n + (1 + (N.to_nat (119 - r) + 8)))%nat with ((N.to_nat q + 2) * 64)%nat by lia.
    apply Nat.mod_mul. discriminate.
Qed.

Lemma md_pad_be_length msg : Nat.modulo (length (md_pad_be msg)) 64 = 0%nat.
Proof.
  replace (length (md_pad_be msg)) with (length (md_pad_le msg)); [apply md_pad_le_length|].
  unfold md_pad_be, md_pad_le.
  rewrite !app_length, length_be_bytes, length_le_bytes. reflexivity.
Qed.

Lemma wf_md_pad_le msg : wf_bytes msg -> wf_bytes (md_pad_le msg).
Proof.
  intros H. unfold md_pad_le.
  apply wf_bytes_app; split; [exact H|]. apply wf_bytes_app; split; [|apply wf_bytes_app; split].
  - constructor; [reflexivity|constructor].
  - apply wf_zeros.
  - apply wf_le_bytes.
Qed.

Lemma wf_md_pad_be msg : wf_bytes msg -> wf_bytes (md_pad_be msg).
Proof.
  intros H. unfold md_pad_be.
  apply wf_bytes_app; split; [exact H|]. apply wf_bytes_app; split; [|apply wf_bytes_app; split].
  - constructor; [reflexivity|constructor].
  - apply wf_zeros.
  - apply wf_be_bytes.
Qed.
