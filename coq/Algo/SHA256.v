(* SHA-256, written from FIPS 180-4 (sections 4.1.2, 4.2.2, 5.1.1, 5.3.3, 6.2.2).
   Reference implementation: definitions only; executable. *)
From Coq Require Import List NArith.
From Mant Require Import Prim.Bytes Algo.Word.
Import ListNotations.
Open Scope N_scope.

(* 4.1.2 *)
Definition sha256_Ch (x y z : N) : N := N.lxor (N.land x y) (N.land (not32 x) z).
Definition sha256_Maj (x y z : N) : N := N.lxor (N.lxor (N.land x y) (N.land x z)) (N.land y z).
Definition sha256_Sigma0 (x : N) : N := N.lxor (N.lxor (rotr32 x 2) (rotr32 x 13)) (rotr32 x 22).
Definition sha256_Sigma1 (x : N) : N := N.lxor (N.lxor (rotr32 x 6) (rotr32 x 11)) (rotr32 x 25).
Definition sha256_sigma0 (x : N) : N := N.lxor (N.lxor (rotr32 x 7) (rotr32 x 18)) (shr32 x 3).
Definition sha256_sigma1 (x : N) : N := N.lxor (N.lxor (rotr32 x 17) (rotr32 x 19)) (shr32 x 10).

(* 4.2.2: first 32 bits of the fractional parts of the cube roots of the first 64 primes *)
Definition sha256_K : list N :=
  [
   0x428a2f98; 0x71374491; 0xb5c0fbcf; 0xe9b5dba5; 0x3956c25b; 0x59f111f1; 0x923f82a4; 0xab1c5ed5;
   0xd807aa98; 0x12835b01; 0x243185be; 0x550c7dc3; 0x72be5d74; 0x80deb1fe; 0x9bdc06a7; 0xc19bf174;
   0xe49b69c1; 0xefbe4786; 0x0fc19dc6; 0x240ca1cc; 0x2de92c6f; 0x4a7484aa; 0x5cb0a9dc; 0x76f988da;
   0x983e5152; 0xa831c66d; 0xb00327c8; 0xbf597fc7; 0xc6e00bf3; 0xd5a79147; 0x06ca6351; 0x14292967;
   0x27b70a85; 0x2e1b2138; 0x4d2c6dfc; 0x53380d13; 0x650a7354; 0x766a0abb; 0x81c2c92e; 0x92722c85;
   0xa2bfe8a1; 0xa81a664b; 0xc24b8b70; 0xc76c51a3; 0xd192e819; 0xd6990624; 0xf40e3585; 0x106aa070;
   0x19a4c116; 0x1e376c08; 0x2748774c; 0x34b0bcb5; 0x391c0cb3; 0x4ed8aa4a; 0x5b9cca4f; 0x682e6ff3;
   0x748f82ee; 0x78a5636f; 0x84c87814; 0x8cc70208; 0x90befffa; 0xa4506ceb; 0xbef9a3f7; 0xc67178f2 ].

Definition sha256_state : Type := (N * N * N * N * N * N * N * N)%type.

(* 5.3.3 *)
Definition sha256_init : sha256_state :=
  (0x6a09e667, 0xbb67ae85, 0x3c6ef372, 0xa54ff53a, 0x510e527f, 0x9b05688c, 0x1f83d9ab, 0x5be0cd19).

(* 6.2.2 step 1: [win] holds W(t-16) .. W(t-1);
   W(t) = sigma1(W(t-2)) + W(t-7) + sigma0(W(t-15)) + W(t-16). *)
Fixpoint sha256_expand (n : nat) (win : list N) : list N :=
  match n with
  | O => []
  | S n' =>
      match win with
      | [w0; w1; w2; w3; w4; w5; w6; w7; w8; w9; w10; w11; w12; w13; w14; w15] =>
          let w := w32 (sha256_sigma1 w14 + w9 + sha256_sigma0 w1 + w0) in
          w :: sha256_expand n' [w1; w2; w3; w4; w5; w6; w7; w8; w9; w10; w11; w12; w13; w14; w15; w]
      | _ => []
      end
  end.

Definition sha256_schedule (M : list N) : list N := M ++ sha256_expand 48 M.

(* 6.2.2 step 3 *)
Fixpoint sha256_rounds (KW : list (N * N)) (st : sha256_state) : sha256_state :=
  match KW with
  | [] => st
  | (kt, wt) :: KW' =>
      let '(a, b, c, d, e, f, g, h) := st in
      let T1 := h + sha256_Sigma1 e + sha256_Ch e f g + kt + wt in
      let T2 := sha256_Sigma0 a + sha256_Maj a b c in
      sha256_rounds KW' (w32 (T1 + T2), a, b, c, w32 (d + T1), e, f, g)
  end.

(* 6.2.2: one 16-word block M *)
Definition sha256_compress (st : sha256_state) (M : list N) : sha256_state :=
  let '(h0, h1, h2, h3, h4, h5, h6, h7) := st in
  let '(a, b, c, d, e, f, g, h) := sha256_rounds (combine sha256_K (sha256_schedule M)) st in
  (w32 (a + h0), w32 (b + h1), w32 (c + h2), w32 (d + h3),
   w32 (e + h4), w32 (f + h5), w32 (g + h6), w32 (h + h7)).

(* 5.1.1 *)
Definition sha256_pad (msg : list N) : list N := md_pad_be msg.

Definition sha256_output (st : sha256_state) : list N :=
  let '(h0, h1, h2, h3, h4, h5, h6, h7) := st in
  word_be h0 ++ word_be h1 ++ word_be h2 ++ word_be h3 ++
  word_be h4 ++ word_be h5 ++ word_be h6 ++ word_be h7.

Definition sha256_blocks (st : sha256_state) (ws : list N) : sha256_state :=
  fold_blocks16 sha256_compress st ws.

Definition sha256 (msg : list N) : list N :=
  sha256_output (sha256_blocks sha256_init (words_be (sha256_pad msg))).
