(* Base 64 encoding, written from RFC 4648 section 4 (standard alphabet, padding with '=').
   Bytes and characters are N.  Definitions only; executable.

   Decoder choices the RFC leaves open (section 3), made as Go's encoding/base64.StdEncoding
   makes them so that the two can be compared on every input:
   - CR and LF are ignored wherever they occur (3.3 allows it "if the specification says so");
   - padding is mandatory (3.2); nothing may follow it;
   - the unused low bits of the last sextet are not required to be zero (3.5, "MAY reject"). *)
From Coq Require Import List NArith Bool.
Import ListNotations.
Open Scope N_scope.

Definition b64_pad : N := 61. (* '=' *)

(* Table 1: value -> character.  A-Z, a-z, 0-9, '+', '/' *)
Definition b64_char (v : N) : N :=
  if v <? 26 then 65 + v
  else if v <? 52 then 97 + (v - 26)
  else if v <? 62 then 48 + (v - 52)
  else if v =? 62 then 43
  else 47.

(* character -> value *)
Definition b64_val (c : N) : option N :=
  if (65 <=? c) && (c <=? 90) then Some (c - 65)
  else if (97 <=? c) && (c <=? 122) then Some (c - 97 + 26)
  else if (48 <=? c) && (c <=? 57) then Some (c - 48 + 52)
  else if c =? 43 then Some 62
  else if c =? 47 then Some 63
  else None.

(* 24-bit groups -> four characters; a final group of 8 or 16 bits is zero-extended and padded *)
Fixpoint b64_encode (l : list N) : list N :=
  match l with
  | [] => []
  | [a] => [b64_char (a / 4); b64_char ((a mod 4) * 16); b64_pad; b64_pad]
  | [a; b] => [b64_char (a / 4); b64_char ((a mod 4) * 16 + b / 16); b64_char ((b mod 16) * 4); b64_pad]
  | a :: b :: c :: r =>
      b64_char (a / 4) :: b64_char ((a mod 4) * 16 + b / 16) ::
      b64_char ((b mod 16) * 4 + c / 64) :: b64_char (c mod 64) :: b64_encode r
  end.

(* strict decoder: groups of four; '=' only as the last one or two characters of the last group *)
Fixpoint b64_decode_strict (l : list N) : option (list N) :=
  match l with
  | [] => Some []
  | c1 :: c2 :: c3 :: c4 :: r =>
      match b64_val c1, b64_val c2 with
      | Some v1, Some v2 =>
          let o1 := v1 * 4 + v2 / 16 in
          match b64_val c3, b64_val c4 with
          | Some v3, Some v4 =>
              match b64_decode_strict r with
              | Some t => Some (o1 :: ((v2 mod 16) * 16 + v3 / 4) :: ((v3 mod 4) * 64 + v4) :: t)
              | None => None
              end
          | Some v3, None =>
              match r with
              | [] => if c4 =? b64_pad then Some [o1; (v2 mod 16) * 16 + v3 / 4] else None
              | _ => None
              end
          | None, _ =>
              match r with
              | [] => if (c3 =? b64_pad) && (c4 =? b64_pad) then Some [o1] else None
              | _ => None
              end
          end
      | _, _ => None
      end
  | _ => None
  end.

Definition b64_is_newline (c : N) : bool := (c =? 10) || (c =? 13).

Definition b64_decode (l : list N) : option (list N) :=
  b64_decode_strict (filter (fun c => negb (b64_is_newline c)) l).
