(* Data Encryption Standard, written from FIPS 46-3 (bit numbering 1..64 from the most
   significant bit of the first byte, tables as printed in the standard), plus the MS-NLMP /
   Samba "str_to_key" expansion of 7 key bytes to 8 with odd parity.
   Blocks and keys are byte lists; internally everything is a list of bits (bool), exactly the
   objects the standard talks about.  Definitions only; executable. *)
From Coq Require Import List NArith Bool.
Import ListNotations.
Open Scope N_scope.

(* ------------------------------------------------------------------ *)
(* bytes <-> bits, most significant bit first *)

Definition byte_bits (b : N) : list bool :=
  [N.testbit b 7; N.testbit b 6; N.testbit b 5; N.testbit b 4;
   N.testbit b 3; N.testbit b 2; N.testbit b 1; N.testbit b 0].
Definition bytes_to_bits (l : list N) : list bool := flat_map byte_bits l.

Definition bN (b : bool) : N := if b then 1 else 0.
Fixpoint bits_to_bytes (l : list bool) : list N :=
  match l with
  | b7 :: b6 :: b5 :: b4 :: b3 :: b2 :: b1 :: b0 :: r =>
      (128 * bN b7 + 64 * bN b6 + 32 * bN b5 + 16 * bN b4 + 8 * bN b3 + 4 * bN b2 + 2 * bN b1 + bN b0)
        :: bits_to_bytes r
  | _ => []
  end.

(* output bit j is input bit tbl[j] (1-based, as in the standard) *)
Definition permute (tbl : list nat) (bs : list bool) : list bool :=
  map (fun i => nth (pred i) bs false) tbl.

(* xor of bit strings; the result has the length of the first argument *)
Fixpoint xor_bits (a b : list bool) : list bool :=
  match a with
  | [] => []
  | x :: a' => match b with [] => x :: xor_bits a' [] | y :: b' => xorb x y :: xor_bits a' b' end
  end.

(* ------------------------------------------------------------------ *)
(* FIPS 46-3 tables *)

Definition des_IP : list nat :=
  [58; 50; 42; 34; 26; 18; 10; 2;
   60; 52; 44; 36; 28; 20; 12; 4;
   62; 54; 46; 38; 30; 22; 14; 6;
   64; 56; 48; 40; 32; 24; 16; 8;
   57; 49; 41; 33; 25; 17; 9; 1;
   59; 51; 43; 35; 27; 19; 11; 3;
   61; 53; 45; 37; 29; 21; 13; 5;
   63; 55; 47; 39; 31; 23; 15; 7]%nat.

Definition des_IP_inv : list nat :=
  [40; 8; 48; 16; 56; 24; 64; 32;
   39; 7; 47; 15; 55; 23; 63; 31;
   38; 6; 46; 14; 54; 22; 62; 30;
   37; 5; 45; 13; 53; 21; 61; 29;
   36; 4; 44; 12; 52; 20; 60; 28;
   35; 3; 43; 11; 51; 19; 59; 27;
   34; 2; 42; 10; 50; 18; 58; 26;
   33; 1; 41; 9; 49; 17; 57; 25]%nat.

Definition des_E : list nat :=
  [32; 1; 2; 3; 4; 5;
   4; 5; 6; 7; 8; 9;
   8; 9; 10; 11; 12; 13;
   12; 13; 14; 15; 16; 17;
   16; 17; 18; 19; 20; 21;
   20; 21; 22; 23; 24; 25;
   24; 25; 26; 27; 28; 29;
   28; 29; 30; 31; 32; 1]%nat.

Definition des_P : list nat :=
  [16; 7; 20; 21;
   29; 12; 28; 17;
   1; 15; 23; 26;
   5; 18; 31; 10;
   2; 8; 24; 14;
   32; 27; 3; 9;
   19; 13; 30; 6;
   22; 11; 4; 25]%nat.

Definition des_PC1 : list nat :=
  [57; 49; 41; 33; 25; 17; 9;
   1; 58; 50; 42; 34; 26; 18;
   10; 2; 59; 51; 43; 35; 27;
   19; 11; 3; 60; 52; 44; 36;
   63; 55; 47; 39; 31; 23; 15;
   7; 62; 54; 46; 38; 30; 22;
   14; 6; 61; 53; 45; 37; 29;
   21; 13; 5; 28; 20; 12; 4]%nat.

Definition des_PC2 : list nat :=
  [14; 17; 11; 24; 1; 5;
   3; 28; 15; 6; 21; 10;
   23; 19; 12; 4; 26; 8;
   16; 7; 27; 20; 13; 2;
   41; 52; 31; 37; 47; 55;
   30; 40; 51; 45; 33; 48;
   44; 49; 39; 56; 34; 53;
   46; 42; 50; 36; 29; 32]%nat.

(* number of left shifts in iterations 1..16 *)
Definition des_shifts : list nat := [1; 1; 2; 2; 2; 2; 2; 2; 1; 2; 2; 2; 2; 2; 2; 1]%nat.

(* S1..S8, each 4 rows of 16 columns, row-major *)
Definition des_S : list (list N) :=
  [ [14; 4; 13; 1; 2; 15; 11; 8; 3; 10; 6; 12; 5; 9; 0; 7;
     0; 15; 7; 4; 14; 2; 13; 1; 10; 6; 12; 11; 9; 5; 3; 8;
     4; 1; 14; 8; 13; 6; 2; 11; 15; 12; 9; 7; 3; 10; 5; 0;
     15; 12; 8; 2; 4; 9; 1; 7; 5; 11; 3; 14; 10; 0; 6; 13];
    [15; 1; 8; 14; 6; 11; 3; 4; 9; 7; 2; 13; 12; 0; 5; 10;
     3; 13; 4; 7; 15; 2; 8; 14; 12; 0; 1; 10; 6; 9; 11; 5;
     0; 14; 7; 11; 10; 4; 13; 1; 5; 8; 12; 6; 9; 3; 2; 15;
     13; 8; 10; 1; 3; 15; 4; 2; 11; 6; 7; 12; 0; 5; 14; 9];
    [10; 0; 9; 14; 6; 3; 15; 5; 1; 13; 12; 7; 11; 4; 2; 8;
     13; 7; 0; 9; 3; 4; 6; 10; 2; 8; 5; 14; 12; 11; 15; 1;
     13; 6; 4; 9; 8; 15; 3; 0; 11; 1; 2; 12; 5; 10; 14; 7;
     1; 10; 13; 0; 6; 9; 8; 7; 4; 15; 14; 3; 11; 5; 2; 12];
    [7; 13; 14; 3; 0; 6; 9; 10; 1; 2; 8; 5; 11; 12; 4; 15;
     13; 8; 11; 5; 6; 15; 0; 3; 4; 7; 2; 12; 1; 10; 14; 9;
     10; 6; 9; 0; 12; 11; 7; 13; 15; 1; 3; 14; 5; 2; 8; 4;
     3; 15; 0; 6; 10; 1; 13; 8; 9; 4; 5; 11; 12; 7; 2; 14];
    [2; 12; 4; 1; 7; 10; 11; 6; 8; 5; 3; 15; 13; 0; 14; 9;
     14; 11; 2; 12; 4; 7; 13; 1; 5; 0; 15; 10; 3; 9; 8; 6;
     4; 2; 1; 11; 10; 13; 7; 8; 15; 9; 12; 5; 6; 3; 0; 14;
     11; 8; 12; 7; 1; 14; 2; 13; 6; 15; 0; 9; 10; 4; 5; 3];
    [12; 1; 10; 15; 9; 2; 6; 8; 0; 13; 3; 4; 14; 7; 5; 11;
     10; 15; 4; 2; 7; 12; 9; 5; 6; 1; 13; 14; 0; 11; 3; 8;
     9; 14; 15; 5; 2; 8; 12; 3; 7; 0; 4; 10; 1; 13; 11; 6;
     4; 3; 2; 12; 9; 5; 15; 10; 11; 14; 1; 7; 6; 0; 8; 13];
    [4; 11; 2; 14; 15; 0; 8; 13; 3; 12; 9; 7; 5; 10; 6; 1;
     13; 0; 11; 7; 4; 9; 1; 10; 14; 3; 5; 12; 2; 15; 8; 6;
     1; 4; 11; 13; 12; 3; 7; 14; 10; 15; 6; 8; 0; 5; 9; 2;
     6; 11; 13; 8; 1; 4; 10; 7; 9; 5; 0; 15; 14; 2; 3; 12];
    [13; 2; 8; 4; 6; 15; 11; 1; 10; 9; 3; 14; 5; 0; 12; 7;
     1; 15; 13; 8; 10; 3; 7; 4; 12; 5; 6; 11; 0; 14; 9; 2;
     7; 11; 4; 1; 9; 12; 14; 2; 0; 6; 10; 13; 15; 3; 5; 8;
     2; 1; 14; 7; 4; 10; 8; 13; 15; 12; 9; 0; 3; 5; 6; 11] ].

(* ------------------------------------------------------------------ *)
(* the cipher function f(R, K) = P(S1(B1) S2(B2) ... S8(B8)),  B1..B8 = K xor E(R) *)

Definition nibble_bits (v : N) : list bool :=
  [N.testbit v 3; N.testbit v 2; N.testbit v 1; N.testbit v 0].

(* Si(B): row = first and last bit of B, column = the middle four bits *)
Fixpoint des_sboxes (boxes : list (list N)) (bs : list bool) : list bool :=
  match boxes, bs with
  | sb :: boxes', b1 :: b2 :: b3 :: b4 :: b5 :: b6 :: r =>
      let row := 2 * bN b1 + bN b6 in
      let col := 8 * bN b2 + 4 * bN b3 + 2 * bN b4 + bN b5 in
      nibble_bits (nth (N.to_nat (16 * row + col)) sb 0) ++ des_sboxes boxes' r
  | _, _ => []
  end.

Definition des_f (R K : list bool) : list bool :=
  permute des_P (des_sboxes des_S (xor_bits (permute des_E R) K)).

(* ------------------------------------------------------------------ *)
(* key schedule: 16 subkeys of 48 bits from the 64-bit key (parity bits 8,16,..,64 unused) *)

Definition rotl_bits (n : nat) (l : list bool) : list bool := skipn n l ++ firstn n l.

Fixpoint des_ks (shifts : list nat) (c d : list bool) : list (list bool) :=
  match shifts with
  | [] => []
  | s :: r =>
      let c' := rotl_bits s c in
      let d' := rotl_bits s d in
      permute des_PC2 (c' ++ d') :: des_ks r c' d'
  end.

Definition des_subkeys (key : list N) : list (list bool) :=
  let cd := permute des_PC1 (bytes_to_bits key) in
  des_ks des_shifts (firstn 28 cd) (skipn 28 cd).

(* ------------------------------------------------------------------ *)
(* enciphering: L' = R, R' = L xor f(R, K); preoutput R16 L16; inverse initial permutation *)

Fixpoint des_rounds (ks : list (list bool)) (L R : list bool) : list bool * list bool :=
  match ks with
  | [] => (L, R)
  | K :: ks' => des_rounds ks' R (xor_bits L (des_f R K))
  end.

Definition des_crypt (ks : list (list bool)) (block : list N) : list N :=
  let lr := permute des_IP (bytes_to_bits block) in
  let '(L, R) := des_rounds ks (firstn 32 lr) (skipn 32 lr) in
  bits_to_bytes (permute des_IP_inv (R ++ L)).

(* key: 8 bytes, block: 8 bytes -> 8 bytes *)
Definition des_encrypt (key block : list N) : list N := des_crypt (des_subkeys key) block.
Definition des_decrypt (key block : list N) : list N := des_crypt (rev (des_subkeys key)) block.

(* ECB over a byte string whose length is a multiple of 8 (trailing partial block dropped) *)
Fixpoint des_ecb (ks : list (list bool)) (data : list N) : list N :=
  match data with
  | b0 :: b1 :: b2 :: b3 :: b4 :: b5 :: b6 :: b7 :: r =>
      des_crypt ks [b0; b1; b2; b3; b4; b5; b6; b7] ++ des_ecb ks r
  | _ => []
  end.

(* ------------------------------------------------------------------ *)
(* MS-NLMP / Samba str_to_key: spread 56 key bits over 8 bytes, 7 bits in the high positions of
   each byte, the low bit set so that every byte has odd parity. *)

Fixpoint expand7 (bs : list bool) : list N :=
  match bs with
  | b1 :: b2 :: b3 :: b4 :: b5 :: b6 :: b7 :: r =>
      let p := negb (xorb b1 (xorb b2 (xorb b3 (xorb b4 (xorb b5 (xorb b6 b7)))))) in
      (128 * bN b1 + 64 * bN b2 + 32 * bN b3 + 16 * bN b4 + 8 * bN b5 + 4 * bN b6 + 2 * bN b7 + bN p)
        :: expand7 r
  | _ => []
  end.

Definition str_to_key (k7 : list N) : list N := expand7 (bytes_to_bits k7).

(* the same without the parity adjustment (low bit 0), as several implementations leave it *)
Definition str_to_key_noparity (k7 : list N) : list N :=
  map (fun b => 2 * (b / 2)) (str_to_key k7).

(* DES with a 7-byte key, as used by the LM and NTLMv1 responses *)
Definition des7_encrypt (k7 block : list N) : list N := des_encrypt (str_to_key k7) block.
