(* Notation helpers for test vectors: ASCII strings and hexadecimal strings as byte lists. *)
From Coq Require Import List NArith String Ascii Bool.
Import ListNotations.
Open Scope N_scope.

(* the bytes of an ASCII string literal *)
Fixpoint str (s : string) : list N :=
  match s with
  | EmptyString => []
  | String c r => N_of_ascii c :: str r
  end.

Definition hex_digit_val (c : ascii) : N :=
  let n := N_of_ascii c in
  if (48 <=? n) && (n <=? 57) then n - 48
  else if (97 <=? n) && (n <=? 102) then n - 87
  else if (65 <=? n) && (n <=? 70) then n - 55
  else 0.

(* the bytes written in hexadecimal; blanks are skipped, a trailing odd digit is dropped *)
Fixpoint hex_skip (s : string) : string :=
  match s with
  | EmptyString => EmptyString
  | String c r => if (N_of_ascii c =? 32) then hex_skip r else String c (hex_skip r)
  end.
Fixpoint hex_go (s : string) : list N :=
  match s with
  | String a (String b r) => (16 * hex_digit_val a + hex_digit_val b) :: hex_go r
  | _ => []
  end.
Definition hex (s : string) : list N := hex_go (hex_skip s).
