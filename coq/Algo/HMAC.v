(* HMAC, written from RFC 2104 section 2, generic in the hash function H and its block size B
   (bytes).  Instances for MD5, SHA-1, SHA-256 (B = 64).  Definitions only; executable. *)
From Coq Require Import List NArith.
From Mant Require Import Prim.Bytes Algo.Word Algo.MD5 Algo.SHA1 Algo.SHA256.
Import ListNotations.
Open Scope N_scope.

(* keys longer than B are first hashed; then the key is padded with zeros to B bytes *)
Definition hmac_key (H : list N -> list N) (B : nat) (key : list N) : list N :=
  let k := if Nat.ltb B (length key) then H key else key in
  k ++ zeros (B - length k).

Definition hmac_ipad (k : list N) : list N := map (fun b => N.lxor b 0x36) k.
Definition hmac_opad (k : list N) : list N := map (fun b => N.lxor b 0x5C) k.

(* H(K xor opad, H(K xor ipad, text)) *)
Definition hmac (H : list N -> list N) (B : nat) (key text : list N) : list N :=
  let k := hmac_key H B key in
  H (hmac_opad k ++ H (hmac_ipad k ++ text)).

Definition hmac_md5 (key text : list N) : list N := hmac md5 64 key text.
Definition hmac_sha1 (key text : list N) : list N := hmac sha1 64 key text.
Definition hmac_sha256 (key text : list N) : list N := hmac sha256 64 key text.

(* HMAC-SHA-1 with the two key blocks absorbed once: [hmac_sha1_keyed key] is a function of the
   text that costs two compressions less per call.  Equal to [hmac_sha1 key]
   (AlgoProofs.hmac_sha1_keyed_eq); meant for partial application in iterated uses (PBKDF2). *)
Definition hmac_sha1_keyed (key : list N) : list N -> list N :=
  let k := hmac_key sha1 64 key in
  let si := sha1_compress sha1_init (words_be (hmac_ipad k)) in
  let so := sha1_compress sha1_init (words_be (hmac_opad k)) in
  fun text => sha1_finish so 64 (sha1_finish si 64 text).
