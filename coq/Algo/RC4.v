(* RC4 (textbook description: key-scheduling algorithm KSA and pseudo-random generation
   algorithm PRGA, as in RFC 6229's reference and Schneier, Applied Cryptography 17.1).
   The state S is a list of 256 bytes.  Definitions only; executable. *)
From Coq Require Import List NArith.
Import ListNotations.
Open Scope N_scope.

Definition rc4_get (S : list N) (i : N) : N := nth (N.to_nat i) S 0.

(* S[i] := v *)
Fixpoint rc4_set_nat (S : list N) (i : nat) (v : N) : list N :=
  match S with
  | [] => []
  | x :: r => match i with O => v :: r | Datatypes.S i' => x :: rc4_set_nat r i' v end
  end.
Definition rc4_set (S : list N) (i v : N) : list N := rc4_set_nat S (N.to_nat i) v.

Definition rc4_swap (S : list N) (i j : N) : list N :=
  let si := rc4_get S i in
  let sj := rc4_get S j in
  rc4_set (rc4_set S i sj) j si.

(* the identity permutation 0, 1, ..., 255 *)
Fixpoint rc4_iota (n : nat) (from : N) : list N :=
  match n with O => [] | Datatypes.S n' => from :: rc4_iota n' (from + 1) end.
Definition rc4_identity : list N := rc4_iota 256 0.

(* KSA:  j := 0;  for i = 0..255:  j := (j + S[i] + key[i mod keylength]) mod 256;  swap(S[i], S[j]) *)
Fixpoint rc4_ksa_loop (n : nat) (key : list N) (keylen : N) (i j : N) (S : list N) : list N :=
  match n with
  | O => S
  | Datatypes.S n' =>
      let j' := (j + rc4_get S i + nth (N.to_nat (i mod keylen)) key 0) mod 256 in
      rc4_ksa_loop n' key keylen (i + 1) j' (rc4_swap S i j')
  end.

Definition rc4_ksa (key : list N) : list N :=
  rc4_ksa_loop 256 key (N.of_nat (length key)) 0 0 rc4_identity.

(* PRGA, one output byte per data byte:
     i := (i + 1) mod 256;  j := (j + S[i]) mod 256;  swap(S[i], S[j]);
     K := S[(S[i] + S[j]) mod 256];  output data byte xor K *)
Fixpoint rc4_prga (S : list N) (i j : N) (data : list N) : list N :=
  match data with
  | [] => []
  | x :: r =>
      let i' := (i + 1) mod 256 in
      let j' := (j + rc4_get S i') mod 256 in
      let S' := rc4_swap S i' j' in
      let K := rc4_get S' ((rc4_get S' i' + rc4_get S' j') mod 256) in
      N.lxor x K :: rc4_prga S' i' j' r
  end.

(* encrypt = decrypt.  (An empty key is outside the algorithm: key[i mod 0] reads key[i].) *)
Definition rc4 (key data : list N) : list N := rc4_prga (rc4_ksa key) 0 0 data.

(* the first n bytes of key stream *)
Definition rc4_keystream (key : list N) (n : nat) : list N := rc4 key (repeat 0 n).
