(* UTF-8, written from RFC 3629 (section 3: encoding; section 4: the syntax of valid sequences).
   Code points and bytes are N.  Definitions only; executable.

   utf8_decode accepts exactly the byte sequences of RFC 3629 section 4 (no overlong forms, no
   surrogates D800..DFFF, nothing above 10FFFF, no truncated sequence) and returns None
   otherwise.  utf8_encode is total: a code point that is not a Unicode scalar value is
   encoded as U+FFFD (EF BF BD), as Go's string([]rune) conversion does. *)
From Coq Require Import List NArith Bool.
From Mant Require Import Algo.Utf16.
Import ListNotations.
Open Scope N_scope.

(* RFC 3629 section 3 *)
Definition utf8_encode_cp (c : N) : list N :=
  if c <? 0x80 then [c]
  else if c <? 0x800 then [0xC0 + c / 64; 0x80 + c mod 64]
  else if c <? 0x10000 then
    if (0xD800 <=? c) && (c <? 0xE000) then [0xEF; 0xBF; 0xBD]
    else [0xE0 + c / 4096; 0x80 + (c / 64) mod 64; 0x80 + c mod 64]
  else if c <=? 0x10FFFF then
    [0xF0 + c / 262144; 0x80 + (c / 4096) mod 64; 0x80 + (c / 64) mod 64; 0x80 + c mod 64]
  else [0xEF; 0xBF; 0xBD].

Definition utf8_encode (cps : list N) : list N := flat_map utf8_encode_cp cps.

(* UTF8-tail = %x80-BF *)
Definition utf8_tail (b : N) : bool := (0x80 <=? b) && (b <=? 0xBF).
Definition in_range (lo hi b : N) : bool := (lo <=? b) && (b <=? hi).

(* RFC 3629 section 4:
     UTF8-1 = %x00-7F
     UTF8-2 = %xC2-DF UTF8-tail
     UTF8-3 = %xE0 %xA0-BF UTF8-tail / %xE1-EC 2( UTF8-tail ) / %xED %x80-9F UTF8-tail / %xEE-EF 2( UTF8-tail )
     UTF8-4 = %xF0 %x90-BF 2( UTF8-tail ) / %xF1-F3 3( UTF8-tail ) / %xF4 %x80-8F 2( UTF8-tail )
   Structural recursion on the input. *)
Fixpoint utf8_decode (l : list N) {struct l} : option (list N) :=
      match l with
      | [] => Some []
      | b0 :: r =>
          if b0 <? 0x80 then option_map (cons b0) (utf8_decode r)
          else if in_range 0xC2 0xDF b0 then
            match r with
            | b1 :: r1 =>
                if utf8_tail b1
                then option_map (cons ((b0 - 0xC0) * 64 + (b1 - 0x80))) (utf8_decode r1)
                else None
            | _ => None
            end
          else if in_range 0xE0 0xEF b0 then
            match r with
            | b1 :: b2 :: r2 =>
                let lo := if b0 =? 0xE0 then 0xA0 else 0x80 in
                let hi := if b0 =? 0xED then 0x9F else 0xBF in
                if in_range lo hi b1 && utf8_tail b2
                then option_map (cons ((b0 - 0xE0) * 4096 + (b1 - 0x80) * 64 + (b2 - 0x80)))
                                (utf8_decode r2)
                else None
            | _ => None
            end
          else if in_range 0xF0 0xF4 b0 then
            match r with
            | b1 :: b2 :: b3 :: r3 =>
                let lo := if b0 =? 0xF0 then 0x90 else 0x80 in
                let hi := if b0 =? 0xF4 then 0x8F else 0xBF in
                if in_range lo hi b1 && utf8_tail b2 && utf8_tail b3
                then option_map (cons ((b0 - 0xF0) * 262144 + (b1 - 0x80) * 4096 + (b2 - 0x80) * 64 + (b3 - 0x80)))
                                (utf8_decode r3)
                else None
            | _ => None
            end
          else None
      end.
