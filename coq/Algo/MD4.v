(* MD4 message digest, written from RFC 1320 (section 3).  Reference implementation:
   definitions only; executable.  Bytes are N (< 256), words are N (< 2^32). *)
From Coq Require Import List NArith.
From Mant Require Import Prim.Bytes Algo.Word.
Import ListNotations.
Open Scope N_scope.

(* RFC 1320 3.4: auxiliary functions
     F(X,Y,Z) = XY v not(X) Z
     G(X,Y,Z) = XY v XZ v YZ
     H(X,Y,Z) = X xor Y xor Z *)
Definition md4_F (x y z : N) : N := N.lor (N.land x y) (N.land (not32 x) z).
Definition md4_G (x y z : N) : N := N.lor (N.lor (N.land x y) (N.land x z)) (N.land y z).
Definition md4_H (x y z : N) : N := N.lxor (N.lxor x y) z.

(* state (A, B, C, D) *)
Definition md4_state : Type := (N * N * N * N)%type.

(* RFC 1320 3.3: A = 01 23 45 67, B = 89 ab cd ef, C = fe dc ba 98, D = 76 54 32 10 (low-order byte first) *)
Definition md4_init : md4_state := (0x67452301, 0xefcdab89, 0x98badcfe, 0x10325476).

(* One operation [abcd k s]:  a = (a + f(b,c,d) + X[k] + const) <<< s.
   The four registers are kept in the rotating order (a,b,c,d) -> (d,a',b,c), which realises the
   RFC's sequence [ABCD ..] [DABC ..] [CDAB ..] [BCDA ..]. *)
Definition md4_op (f : N -> N -> N -> N) (const : N) (X : list N) (st : md4_state) (ks : nat * N) : md4_state :=
  let '(a, b, c, d) := st in
  let '(k, s) := ks in
  (d, rotl32 (a + f b c d + nth k X 0 + const) s, b, c).

Definition md4_ks (k : nat) (s : N) : nat * N := (k, s).

(* Round tables (k, s) in the order the RFC lists the 16 operations of each round. *)
Definition md4_round1 : list (nat * N) :=
  [ md4_ks 0 3; md4_ks 1 7; md4_ks 2 11; md4_ks 3 19;
    md4_ks 4 3; md4_ks 5 7; md4_ks 6 11; md4_ks 7 19;
    md4_ks 8 3; md4_ks 9 7; md4_ks 10 11; md4_ks 11 19;
    md4_ks 12 3; md4_ks 13 7; md4_ks 14 11; md4_ks 15 19 ].
Definition md4_round2 : list (nat * N) :=
  [ md4_ks 0 3; md4_ks 4 5; md4_ks 8 9; md4_ks 12 13;
    md4_ks 1 3; md4_ks 5 5; md4_ks 9 9; md4_ks 13 13;
    md4_ks 2 3; md4_ks 6 5; md4_ks 10 9; md4_ks 14 13;
    md4_ks 3 3; md4_ks 7 5; md4_ks 11 9; md4_ks 15 13 ].
Definition md4_round3 : list (nat * N) :=
  [ md4_ks 0 3; md4_ks 8 9; md4_ks 4 11; md4_ks 12 15;
    md4_ks 2 3; md4_ks 10 9; md4_ks 6 11; md4_ks 14 15;
    md4_ks 1 3; md4_ks 9 9; md4_ks 5 11; md4_ks 13 15;
    md4_ks 3 3; md4_ks 11 9; md4_ks 7 11; md4_ks 15 15 ].

(* RFC 1320 3.4: process one 16-word block X with state st. *)
Definition md4_compress (st : md4_state) (X : list N) : md4_state :=
  let '(aa, bb, cc, dd) := st in
  let st1 := fold_left (md4_op md4_F 0 X) md4_round1 st in
  let st2 := fold_left (md4_op md4_G 0x5A827999 X) md4_round2 st1 in
  let st3 := fold_left (md4_op md4_H 0x6ED9EBA1 X) md4_round3 st2 in
  let '(a, b, c, d) := st3 in
  (w32 (a + aa), w32 (b + bb), w32 (c + cc), w32 (d + dd)).

(* RFC 1320 3.1 + 3.2: append padding bits and length (64-bit, low-order word first). *)
Definition md4_pad (msg : list N) : list N := md_pad_le msg.

(* RFC 1320 3.5: output A, B, C, D, low-order byte first. *)
Definition md4_output (st : md4_state) : list N :=
  let '(a, b, c, d) := st in word_le a ++ word_le b ++ word_le c ++ word_le d.

(* state after absorbing a sequence of whole 16-word blocks *)
Definition md4_blocks (st : md4_state) (ws : list N) : md4_state := fold_blocks16 md4_compress st ws.

Definition md4 (msg : list N) : list N :=
  md4_output (md4_blocks md4_init (words_le (md4_pad msg))).
