(* C05 — SMB1 structures are emitted in the encoding MS-CIFS prescribes.  Statements only.
   The independent encoder (Spec/C05.v) is written from MS-CIFS and from the structure DECLARATIONS
   only. On the unchanged tree almost every multi-byte parameter field is emitted big-endian: the
   generic theorem C05_fixed_is_cifs says exactly which structures conform (all_le), C05_no_new_deviation
   re-checks on every run that every deviation of the regenerated layouts is a recorded finding, and
   the _refuted lemmas exhibit kernel-computed witnesses of the deviations that exist. *)
From Coq Require Import List NArith ZArith String Bool.
From Mant Require Import Prim.R Prim.Bytes Model.SmbTypes Model.SmbBlocks Model.SmbLayout Model.SmbAnalysis
  Model.SmbKnown Model.SmbDialects Model.SmbEnvelope Spec.C04 Spec.C05 Spec.C03
  Proofs.C05Proofs Proofs.C05Tables Proofs.C03Proofs Gen.SmbLayouts.
Import ListNotations.
Open Scope N_scope.
Open Scope list_scope.

(* every structure of the all-integer fragment whose multi-byte integers are little-endian produces, for
   every assignment within the declared widths, exactly the bytes of the MS-CIFS encoder of its declaration
   (UCHAR/USHORT/ULONG of widths 1/2/4, least significant byte first) *)
Theorem C05_fixed_is_cifs : forall c fs ns,
  simple_fixed c = true -> int_fields (cd_marshal c) = Some fs -> all_le fs = true -> values_fit fs ns ->
  exists ws cs', decl_widths (cd_decl c) = Some ws /\
    cmd_marshal c cstate_new (int_valuation fs ns) = Ok (cifs_encode_fixed ws ns, cs', int_valuation fs ns).
Proof. exact fixed_is_cifs. Qed.
Print Assumptions C05_fixed_is_cifs.

(* every header field: the header is the MS-CIFS 2.2.3.1 little-endian layout *)
Theorem C05_header : forall h, wf_header h -> header_marshal h = Ok (cifs_header h).
Proof. exact header_layout. Qed.
Print Assumptions C05_header.

(* every number (0..N) of dialects: each carries its own format byte 0x02 and its terminator, and the
   decoder accepts exactly that encoding back *)
Theorem C05_dialects : forall ds, dialects_marshal ds = cifs_dialects ds.
Proof. exact dialects_is_cifs. Qed.
Theorem C05_dialects_roundtrip : forall ds, Forall no_nul ds ->
  dialects_unmarshal (dialects_marshal ds) = Ok (ds, lenN (dialects_marshal ds)).
Proof. exact dialects_roundtrip. Qed.
Print Assumptions C05_dialects_roundtrip.
Theorem C05_total_dialects : forall data, dialects_unmarshal data <> Panic.
Proof. exact dialects_total. Qed.
Print Assumptions C05_total_dialects.

(* every deviation of the regenerated layouts from the encoding rules is a recorded finding *)
Theorem C05_no_new_deviation : incl_b (flat_map enc_mismatches all_cmds) known_enc = true.
Proof. exact enc_known_ok. Qed.

(* the deviations exist: witnesses computed by the kernel on the regenerated / hand models *)
Theorem C05_big_endian_refuted :
  match cmd_marshal cmd_FlushRequest cstate_new [("FID"%string, FInt 258)] with
  | Ok (bs, _, _) => negb (bytes_eqb bs (cifs_encode_fixed [2%nat] [258]))
  | _ => false
  end = true.
Proof. exact be_refuted. Qed.
Theorem C05_andx_offset_refuted : andx_marshal [117; 0; 258] = [117; 0; 1; 2].
Proof. exact andx_refuted. Qed.
Theorem C05_file_attributes_refuted : fileattr_marshal 258 = [1; 2].
Proof. exact fileattr_refuted. Qed.

Example C05_example_dialects :
  dialects_marshal [[78; 84]; [76; 77]] = [2; 78; 84; 0; 2; 76; 77; 0] /\ Forall no_nul [[78; 84]; [76; 77]].
Proof. split; [reflexivity|]. repeat constructor; discriminate. Qed.
