(* C07 — Every decoder is total: any input yields a value or an error, never a crash.
   Statements only.  The decoders are the models of C01..C20 (written in the three-outcome monad
   R = Ok | Err | Panic with Go's own bounds checks, so that a missing check shows up as Panic); each
   C07_<entry> below states, for EVERY input, that the model of that entry point does not panic.
   Termination is part of the statement: the models are total Gallina functions, and the one decoder that
   recurses on wire data (LLMNR name decompression) reports fuel exhaustion as Panic, which is excluded.
   The 115 SMB command structures are covered by ONE generic theorem (C07_smb_command_generic) about the
   descriptions go2coq regenerates from commands/*.go on every run, instantiated on the current tree by a
   kernel computation (C07_smb_commands_cover); C07_smb_message composes header, factory and command.
   C07_alloc_* bound what the length-driven decoders allocate by the input length.
   Every model is run against its Go entry point on the malformed stream (every truncation, boundary
   corruption, length fields driven to extremes) on every run: harness/c07.go. *)
From Coq Require Import List NArith ZArith String Bool.
From Mant Require Import Prim.R Prim.Bytes.
From Mant Require Properties.C01 Properties.C03 Properties.C05 Properties.C06 Properties.C08 Properties.C09
  Properties.C10 Properties.C11 Properties.C12 Properties.C13 Properties.C14 Properties.C15 Properties.C16 Properties.C20.
From Mant Require Model.SmbTypes Model.SmbBlocks Model.SmbLayout Model.SmbSafe Model.SmbEnvelope Model.C07Known
  Model.Llmnr Model.NbPacket Model.NbtFrame Model.SmbUtils Gen.SmbLayouts Proofs.C07Smb Proofs.C07Proofs Proofs.C07Alloc Proofs.C07Utils.
Import ListNotations.
Open Scope N_scope.

(* ------------------------------------------------------------------ *)
(* SMB command structures (network/smb/smb_v10/message/commands/*.go)  *)

(* for EVERY description the guard analysis accepts, EVERY initial field assignment and EVERY input *)
Theorem C07_smb_command_generic : forall c, SmbSafe.cmd_safe c = true ->
  forall v0 data, SmbLayout.cmd_unmarshal c v0 data <> Panic.
Proof. exact C07Smb.cmd_safe_total. Qed.
Print Assumptions C07_smb_command_generic.

(* on the tree as it is now (regenerated descriptions): every structure is accepted by the analysis or is on
   the committed list of structures it cannot follow (Model/C07Known.v, 14 names) *)
Theorem C07_smb_commands_cover :
  forallb (fun c => SmbSafe.cmd_safe c || SmbAnalysis.string_mem (SmbLayout.cd_name c) C07Known.c07_unproved)
          SmbLayouts.all_cmds = true.
Proof. exact C07Proofs.smb_cover. Qed.
Print Assumptions C07_smb_commands_cover.

Theorem C07_smb_commands : forall c, In c SmbLayouts.all_cmds ->
  SmbAnalysis.string_mem (SmbLayout.cd_name c) C07Known.c07_unproved = false ->
  forall v0 data, SmbLayout.cmd_unmarshal c v0 data <> Panic.
Proof. exact C07Proofs.smb_cmd_total. Qed.
Print Assumptions C07_smb_commands.

(* non-vacuity: 106 of the 115 structures are proved total today *)
Example C07_smb_proved_count : List.length (filter SmbSafe.cmd_safe SmbLayouts.all_cmds) = 106%nat.
Proof. exact C07Proofs.smb_proved_count. Qed.

(* Message.Unmarshal (header, factory dispatch, command): a panic is possible only inside the Unmarshal of
   a structure on the committed list *)
Theorem C07_smb_message : forall data,
  SmbEnvelope.message_unmarshal SmbLayouts.all_cmds SmbLayouts.req_table SmbLayouts.resp_table data = Panic ->
  exists c, In c SmbLayouts.all_cmds /\ SmbAnalysis.string_mem (SmbLayout.cd_name c) C07Known.c07_unproved = true.
Proof. exact C07Proofs.message_total_mod. Qed.
Print Assumptions C07_smb_message.

(* ------------------------------------------------------------------ *)
(* commands/utils/utils.go: the null-terminated string helpers.  They are total functions (no slice expression
   can fail after the fix ee86f41); what their callers rely on is that the offset returned never points past the
   data, with or without a terminator - the decoders slice data[offset:] with it. *)
Theorem C07_utils_unicode_offset : forall data, snd (SmbUtils.get_nt_unicode data) <= lenN data.
Proof. exact C07Utils.nt_unicode_offset_in_range. Qed.
Print Assumptions C07_utils_unicode_offset.

Theorem C07_utils_string_offset : forall data, snd (SmbUtils.get_nt_string data) <= lenN data.
Proof. exact C07Utils.nt_string_offset_in_range. Qed.
Print Assumptions C07_utils_string_offset.

Theorem C07_utils_unicode_within : forall data, lenN (fst (SmbUtils.get_nt_unicode data)) <= lenN data.
Proof. exact C07Utils.nt_unicode_string_within. Qed.
Print Assumptions C07_utils_unicode_within.

(* and they read back what was written: a terminated string followed by anything *)
Theorem C07_utils_unicode_roundtrip : forall s rest, C07Utils.units_ok s ->
  SmbUtils.get_nt_unicode (s ++ 0 :: 0 :: rest) = (s, lenN s + 2).
Proof. exact C07Utils.nt_unicode_roundtrip. Qed.
Print Assumptions C07_utils_unicode_roundtrip.

Theorem C07_utils_string_roundtrip : forall s rest, Forall (fun b => b <> 0) s ->
  SmbUtils.get_nt_string (s ++ 0 :: rest) = (s, lenN s + 1).
Proof. exact C07Utils.nt_string_roundtrip. Qed.
Print Assumptions C07_utils_string_roundtrip.

(* ------------------------------------------------------------------ *)
(* Allocation in proportion to the input                               *)

Theorem C07_alloc_smb_string : forall input s n,
  SmbTypes.smb_string_unmarshal input = Ok (s, n) -> lenN (SmbTypes.ss_buf s) <= lenN input.
Proof. exact C07Proofs.alloc_smb_string. Qed.
Print Assumptions C07_alloc_smb_string.

Theorem C07_alloc_parameters : forall data pp n,
  SmbBlocks.params_unmarshal data = Ok (pp, n) -> 2 * lenN (SmbBlocks.p_words pp) <= lenN data.
Proof. exact C07Proofs.alloc_params. Qed.
Print Assumptions C07_alloc_parameters.

Theorem C07_alloc_data : forall rest dd k,
  SmbBlocks.data_unmarshal rest = Ok (dd, k) -> lenN (SmbBlocks.d_bytes dd) <= lenN rest.
Proof. exact C07Proofs.alloc_data. Qed.
Print Assumptions C07_alloc_data.

Theorem C07_alloc_llmnr_rr : forall data off r o, Llmnr.decode_rr data off = Ok (r, o) ->
  lenN (Llmnr.r_data r) <= lenN data /\ o <= lenN data.
Proof. exact C07Alloc.alloc_llmnr_rr. Qed.
Print Assumptions C07_alloc_llmnr_rr.

(* the record counts an NBNS header announces (up to 65535 per section) do not size anything: each record
   returned consumed at least 11 bytes of the packet and its RDATA is a sub-slice of the packet *)
Theorem C07_alloc_nbns_records : forall data cnt off rrs off', off <= lenN data ->
  NbPacket.read_rrs cnt data off = Ok (rrs, off') ->
  off + 11 * lenN rrs <= off' /\ off' <= lenN data /\
  Forall (fun r => lenN (NbPacket.rr_rdata r) <= lenN data) rrs.
Proof. exact C07Alloc.alloc_nbns_rrs. Qed.
Print Assumptions C07_alloc_nbns_records.

(* the NBT session receiver allocates the announced frame length before reading it: at most 131071 bytes *)
Theorem C07_alloc_nbt_frame : forall h t len, wf_bytes h -> NbtFrame.nbt_parse_header h = Ok (t, len) -> len <= 131071.
Proof. exact C07Alloc.alloc_nbt_frame. Qed.
Print Assumptions C07_alloc_nbt_frame.

(* ------------------------------------------------------------------ *)
(* The hand-modelled decoders: one theorem per entry point, each for ALL inputs *)

Theorem C07_c01_utf16_decode : forall b : list N, C01Text.decode_utf16le b <> Panic.
Proof. exact C01.C01_total_utf16_decode. Qed.
Print Assumptions C07_c01_utf16_decode.
Theorem C07_c03_header : forall data : list N, SmbEnvelope.header_unmarshal data <> Panic.
Proof. exact C03.C03_total_header. Qed.
Print Assumptions C07_c03_header.
Theorem C07_c05_dialects : forall data : list N, SmbDialects.dialects_unmarshal data <> Panic.
Proof. exact C05.C05_total_dialects. Qed.
Print Assumptions C07_c05_dialects.
Theorem C07_c06_string : forall input : list N, SmbTypes.smb_string_unmarshal input <> Panic.
Proof. exact C06.C06_total_string. Qed.
Print Assumptions C07_c06_string.
Theorem C07_c06_oem : forall input : list N, SmbTypes.oem_unmarshal input <> Panic.
Proof. exact C06.C06_total_oem. Qed.
Print Assumptions C07_c06_oem.
Theorem C07_c06_date : forall input : list N, SmbTypes.date_unmarshal input <> Panic.
Proof. exact C06.C06_total_date. Qed.
Print Assumptions C07_c06_date.
Theorem C07_c06_filetime : forall input : list N, SmbTypes.filetime_unmarshal input <> Panic.
Proof. exact C06.C06_total_filetime. Qed.
Print Assumptions C07_c06_filetime.
Theorem C07_c06_range32 : forall input : list N, SmbTypes.range32_unmarshal input <> Panic.
Proof. exact C06.C06_total_range32. Qed.
Print Assumptions C07_c06_range32.
Theorem C07_c06_range64 : forall input : list N, SmbTypes.range64_unmarshal input <> Panic.
Proof. exact C06.C06_total_range64. Qed.
Print Assumptions C07_c06_range64.
Theorem C07_c06_nmpipe : forall input : list N, SmbTypes.nmpipe_unmarshal input <> Panic.
Proof. exact C06.C06_total_nmpipe. Qed.
Print Assumptions C07_c06_nmpipe.
Theorem C07_c06_resume_key : forall input : list N, SmbTypes.resume_key_unmarshal input <> Panic.
Proof. exact C06.C06_total_resume_key. Qed.
Print Assumptions C07_c06_resume_key.
Theorem C07_c06_directory_information : forall input : list N, SmbTypes.dir_info_unmarshal input <> Panic.
Proof. exact C06.C06_total_directory_information. Qed.
Print Assumptions C07_c06_directory_information.
Theorem C07_c06_file_attributes : forall input : list N, SmbTypes.fileattr_unmarshal input <> Panic.
Proof. exact C06.C06_total_file_attributes. Qed.
Print Assumptions C07_c06_file_attributes.
Theorem C07_c06_andx : forall input : list N, SmbTypes.andx_unmarshal input <> Panic.
Proof. exact C06.C06_total_andx. Qed.
Print Assumptions C07_c06_andx.
Theorem C07_c06_version : forall input : list N, SmbTypes.version_unmarshal input <> Panic.
Proof. exact C06.C06_total_version. Qed.
Print Assumptions C07_c06_version.
Theorem C07_c06_parameters : forall input : list N, SmbBlocks.params_unmarshal input <> Panic.
Proof. exact C06.C06_total_parameters. Qed.
Print Assumptions C07_c06_parameters.
Theorem C07_c06_data : forall input : list N, SmbBlocks.data_unmarshal input <> Panic.
Proof. exact C06.C06_total_data. Qed.
Print Assumptions C07_c06_data.
Theorem C07_c08_extract_ntlm_token : forall tok : list N, Spnego.extract_ntlm_token tok <> Panic.
Proof. exact C08.C08_total_extract_ntlm_token. Qed.
Print Assumptions C07_c08_extract_ntlm_token.
Theorem C07_c08_parse_neg_token_resp : forall tok : list N, Spnego.parse_neg_token_resp tok <> Panic.
Proof. exact C08.C08_total_parse_neg_token_resp. Qed.
Print Assumptions C07_c08_parse_neg_token_resp.
Theorem C07_c08_parse_challenge : forall data : list N, NtlmSsp.parse_challenge data <> Panic.
Proof. exact C08.C08_total_parse_challenge. Qed.
Print Assumptions C07_c08_parse_challenge.
Theorem C07_c08_parse_target_info : forall ti : list N, NtlmSsp.parse_target_info ti <> Panic.
Proof. exact C08.C08_total_parse_target_info. Qed.
Print Assumptions C07_c08_parse_target_info.
Theorem C07_c08_version_unmarshal : forall data : list N, NtlmSsp.version_unmarshal data <> Panic.
Proof. exact C08.C08_total_version_unmarshal. Qed.
Print Assumptions C07_c08_version_unmarshal.
Theorem C07_c08_process_challenge_token : forall (lm_of nt_of : NtlmSsp.challenge -> list N) (tok user domain ws : list N), SpnegoAuth.process_challenge_token lm_of nt_of tok user domain ws <> Panic.
Proof. exact C08.C08_total_process_challenge_token. Qed.
Print Assumptions C07_c08_process_challenge_token.
Theorem C07_c09_decode_name : forall (d : list N) (off : N), Llmnr.decode_name d off <> Panic.
Proof. exact C09.C09_total_decode_name. Qed.
Print Assumptions C07_c09_decode_name.
Theorem C07_c09_decode_question : forall (d : list N) (off : N), Llmnr.decode_question d off <> Panic.
Proof. exact C09.C09_total_decode_question. Qed.
Print Assumptions C07_c09_decode_question.
Theorem C07_c09_decode_rr : forall (d : list N) (off : N), Llmnr.decode_rr d off <> Panic.
Proof. exact C09.C09_total_decode_rr. Qed.
Print Assumptions C07_c09_decode_rr.
Theorem C07_c09_decode_message : forall d : list N, Llmnr.decode_message d <> Panic.
Proof. exact C09.C09_total_decode_message. Qed.
Print Assumptions C07_c09_decode_message.
Theorem C07_c10_first_level_decode : forall s : list N, NbName.first_level_decode s <> Panic.
Proof. exact C10.C10_total_first_level_decode. Qed.
Print Assumptions C07_c10_first_level_decode.
Theorem C07_c10_unmarshal : forall data : list N, NbPacket.unmarshal data <> Panic.
Proof. exact C10.C10_total_unmarshal. Qed.
Print Assumptions C07_c10_unmarshal.
Theorem C07_c11_send : forall (c : bool) (p : list N), NbtFrame.nbt_send c p <> Panic.
Proof. exact C11.C11_total_send. Qed.
Print Assumptions C07_c11_send.
Theorem C07_c11_receive : forall (c : bool) (s : NbtFrame.stream), fst (NbtFrame.nbt_receive c s) <> Panic.
Proof. exact C11.C11_total_receive. Qed.
Print Assumptions C07_c11_receive.
Theorem C07_c11_recv_n : forall (c : bool) (n : nat) (s : NbtFrame.stream), Forall (fun r : R (list N) => r <> Panic) (fst (NbtFrame.recv_n c n s)).
Proof. exact C11.C11_total_recv_n. Qed.
Print Assumptions C07_c11_recv_n.
Theorem C07_c12_unpad : forall input : list N, Pkcs7.pkcs7_unpad input <> Panic.
Proof. exact C12.C12_total_unpad. Qed.
Print Assumptions C07_c12_unpad.
Theorem C07_c12_gppp_decrypt_bytes : forall input : list N, Gppp.gppp_decrypt_bytes input <> Panic.
Proof. exact C12.C12_total_gppp_decrypt_bytes. Qed.
Print Assumptions C07_c12_gppp_decrypt_bytes.
Theorem C07_c12_gppp_decrypt_b64 : forall input : list N, Gppp.gppp_decrypt_b64 input <> Panic.
Proof. exact C12.C12_total_gppp_decrypt_b64. Qed.
Print Assumptions C07_c12_gppp_decrypt_b64.
Theorem C07_c12_gppp_encrypt : forall s : list N, exists enc : list N, Gppp.gppp_encrypt s = Ok enc.
Proof. exact C12.C12_total_gppp_encrypt. Qed.
Print Assumptions C07_c12_gppp_encrypt.
Theorem C07_c13_uuid_unmarshal : forall bs : list N, Uuid.uuid_unmarshal bs <> Panic.
Proof. exact C13.C13_total_uuid_unmarshal. Qed.
Print Assumptions C07_c13_uuid_unmarshal.
Theorem C07_c13_uuid_from_string : forall s : list N, Uuid.uuid_from_string s <> Panic.
Proof. exact C13.C13_total_uuid_from_string. Qed.
Print Assumptions C07_c13_uuid_from_string.
Theorem C07_c13_v1_unmarshal : forall bs : list N, Uuid.v1_unmarshal bs <> Panic.
Proof. exact C13.C13_total_v1_unmarshal. Qed.
Print Assumptions C07_c13_v1_unmarshal.
Theorem C07_c13_v1_from_bytes : forall bs : list N, Uuid.v1_from_bytes bs <> Panic.
Proof. exact C13.C13_total_v1_from_bytes. Qed.
Print Assumptions C07_c13_v1_from_bytes.
Theorem C07_c13_v1_from_string : forall s : list N, Uuid.v1_from_string s <> Panic.
Proof. exact C13.C13_total_v1_from_string. Qed.
Print Assumptions C07_c13_v1_from_string.
Theorem C07_c13_v2_unmarshal : forall bs : list N, Uuid.v2_unmarshal bs <> Panic.
Proof. exact C13.C13_total_v2_unmarshal. Qed.
Print Assumptions C07_c13_v2_unmarshal.
Theorem C07_c13_v2_from_bytes : forall bs : list N, Uuid.v2_from_bytes bs <> Panic.
Proof. exact C13.C13_total_v2_from_bytes. Qed.
Print Assumptions C07_c13_v2_from_bytes.
Theorem C07_c13_v2_from_string : forall s : list N, Uuid.v2_from_string s <> Panic.
Proof. exact C13.C13_total_v2_from_string. Qed.
Print Assumptions C07_c13_v2_from_string.
Theorem C07_c13_v8_unmarshal : forall bs : list N, Uuid.v8_unmarshal bs <> Panic.
Proof. exact C13.C13_total_v8_unmarshal. Qed.
Print Assumptions C07_c13_v8_unmarshal.
Theorem C07_c13_v8_from_bytes : forall bs : list N, Uuid.v8_from_bytes bs <> Panic.
Proof. exact C13.C13_total_v8_from_bytes. Qed.
Print Assumptions C07_c13_v8_from_bytes.
Theorem C07_c13_v8_from_string : forall s : list N, Uuid.v8_from_string s <> Panic.
Proof. exact C13.C13_total_v8_from_string. Qed.
Print Assumptions C07_c13_v8_from_string.
Theorem C07_c13_set_node : forall bs : list N, Uuid.set_node bs <> Panic.
Proof. exact C13.C13_total_set_node. Qed.
Print Assumptions C07_c13_set_node.
Theorem C07_c13_guid_from_raw : forall bs : list N, Guid.guid_from_raw bs <> Panic.
Proof. exact C13.C13_total_guid_from_raw. Qed.
Print Assumptions C07_c13_guid_from_raw.
Theorem C07_c13_guid_from_string : forall s : list N, Guid.guid_from_string s <> Panic.
Proof. exact C13.C13_total_guid_from_string. Qed.
Print Assumptions C07_c13_guid_from_string.
Theorem C07_c13_guid_from_n : forall s : list N, Guid.guid_from_n s <> Panic.
Proof. exact C13.C13_total_guid_from_n. Qed.
Print Assumptions C07_c13_guid_from_n.
Theorem C07_c13_guid_from_d : forall s : list N, Guid.guid_from_d s <> Panic.
Proof. exact C13.C13_total_guid_from_d. Qed.
Print Assumptions C07_c13_guid_from_d.
Theorem C07_c13_guid_from_b : forall s : list N, Guid.guid_from_b s <> Panic.
Proof. exact C13.C13_total_guid_from_b. Qed.
Print Assumptions C07_c13_guid_from_b.
Theorem C07_c13_guid_from_p : forall s : list N, Guid.guid_from_p s <> Panic.
Proof. exact C13.C13_total_guid_from_p. Qed.
Print Assumptions C07_c13_guid_from_p.
Theorem C07_c13_guid_from_x : forall s : list N, Guid.guid_from_x s <> Panic.
Proof. exact C13.C13_total_guid_from_x. Qed.
Print Assumptions C07_c13_guid_from_x.
Theorem C07_c14_ver_from_bytes : forall b : list N, KeyCred.ver_from_bytes b <> Panic.
Proof. exact C14.C14_total_ver_from_bytes. Qed.
Print Assumptions C07_c14_ver_from_bytes.
Theorem C07_c14_rsa_from_bytes : forall b : list N, KeyCred.rsa_from_bytes b <> Panic.
Proof. exact C14.C14_total_rsa_from_bytes. Qed.
Print Assumptions C07_c14_rsa_from_bytes.
Theorem C07_c14_cki_from_bytes : forall (c : KeyCred.cki) (b : list N), KeyCred.cki_from_bytes c b <> Panic.
Proof. exact C14.C14_total_cki_from_bytes. Qed.
Print Assumptions C07_c14_cki_from_bytes.
Theorem C07_c14_id_to_binary : forall (s : list N) (v : N), KeyCred.id_to_binary s v <> Panic.
Proof. exact C14.C14_total_id_to_binary. Qed.
Print Assumptions C07_c14_id_to_binary.
Theorem C07_c14_kc_from_bytes : forall (now : WinTime.gotime) (k0 : KeyCred.kcred) (b : list N), KeyCred.kc_from_bytes now k0 b <> Panic.
Proof. exact C14.C14_total_kc_from_bytes. Qed.
Print Assumptions C07_c14_kc_from_bytes.
Theorem C07_c14_kc_parse_dn : forall (now : WinTime.gotime) (k0 : KeyCred.kcred) (dn b : list N), KeyCred.kc_parse_dn now k0 dn b <> Panic.
Proof. exact C14.C14_total_kc_parse_dn. Qed.
Print Assumptions C07_c14_kc_parse_dn.
Theorem C07_c14_kc_to_bytes : forall k : KeyCred.kcred, KeyCred.kc_to_bytes k <> Panic.
Proof. exact C14.C14_total_kc_to_bytes. Qed.
Print Assumptions C07_c14_kc_to_bytes.
Theorem C07_c14_compute_key_hash : forall k : KeyCred.kcred, KeyCred.compute_key_hash k <> Panic.
Proof. exact C14.C14_total_compute_key_hash. Qed.
Print Assumptions C07_c14_compute_key_hash.
Theorem C07_c14_check_integrity : forall k : KeyCred.kcred, KeyCred.check_integrity k <> Panic.
Proof. exact C14.C14_total_check_integrity. Qed.
Print Assumptions C07_c14_check_integrity.
Theorem C07_c14_kc_verify : forall (now : WinTime.gotime) (b : list N), KeyCred.kc_verify now b <> Panic.
Proof. exact C14.C14_total_kc_verify. Qed.
Print Assumptions C07_c14_kc_verify.
Theorem C07_c14_dn_parse : forall b : list N, KeyCred.dn_parse b <> Panic.
Proof. exact C14.C14_total_dn_parse. Qed.
Print Assumptions C07_c14_dn_parse.
Theorem C07_c15_filetime_unmarshal : forall data : list N, WinTime.filetime_unmarshal data <> Panic.
Proof. exact C15.C15_total_filetime_unmarshal. Qed.
Print Assumptions C07_c15_filetime_unmarshal.
Theorem C07_c15_ldap_timestamp : forall s : list N, WinTime.ldap_timestamp_to_unix_go s <> Panic.
Proof. exact C15.C15_total_ldap_timestamp. Qed.
Print Assumptions C07_c15_ldap_timestamp.
Theorem C07_c15_ldap_duration : forall s : list N, WinTime.ldap_duration_to_seconds_go s <> Panic.
Proof. exact C15.C15_total_ldap_duration. Qed.
Print Assumptions C07_c15_ldap_duration.
Theorem C07_c15_from_binary_time : forall (now : WinTime.gotime) (raw : list N) (source version : Z), WinTime.convert_from_binary_time_go now raw source version <> Panic.
Proof. exact C15.C15_total_from_binary_time. Qed.
Print Assumptions C07_c15_from_binary_time.
Theorem C07_c16_sid : forall bs : list N, Sid.parse_sid bs <> Panic.
Proof. exact C16.C16_sid_total. Qed.
Print Assumptions C07_c16_sid.
Theorem C07_c20_ipv4_parse : forall s : list N, Ip.ipv4_of_string s <> Panic.
Proof. exact C20.C20_total_ipv4_parse. Qed.
Print Assumptions C07_c20_ipv4_parse.
Theorem C07_c20_ipv6_parse : forall s : list N, Ip.ipv6_of_string s <> Panic.
Proof. exact C20.C20_total_ipv6_parse. Qed.
Print Assumptions C07_c20_ipv6_parse.
Theorem C07_c20_ports_parse : forall s : list N, Ports.ports_of_string s <> Panic.
Proof. exact C20.C20_total_ports_parse. Qed.
Print Assumptions C07_c20_ports_parse.
Theorem C07_c20_hashes_parse : forall s : list N, HashCred.parse_lmnt s <> Panic.
Proof. exact C20.C20_total_hashes_parse. Qed.
Print Assumptions C07_c20_hashes_parse.
Theorem C07_c20_creds_new : forall d u p h : list N, HashCred.new_credentials d u p h <> Panic.
Proof. exact C20.C20_total_creds_new. Qed.
Print Assumptions C07_c20_creds_new.
