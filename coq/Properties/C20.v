(* C20 — Address, port-range and hash-credential parsers match standard semantics.
   Statements only; proofs are in Proofs/C20Str.v, C20Ip.v, C20Ports.v, C20Hash.v, C20Main.v.
   Models: Model/Ip.v (network/ip/ipv4.go, ipv6.go, range.go), Model/Ports.v (tcp_port.go),
   Model/HashCred.v (windows/credentials/credentials.go), Model/StrC20.v (Go library helpers).
   Specification: Spec/C20.v.  The models describe the tree AFTER the three fix: commits listed in
   props/C20.fixed.txt; there is no known finding left, so no theorem carries an exclusion. *)
From Coq Require Import List NArith Lia Bool.
From Mant Require Import Prim.R Prim.Bytes Prim.Dec Model.StrC20 Model.Ip Model.Ports Model.HashCred
  Spec.C20 Proofs.C20Str Proofs.C20Ip Proofs.C20Ports Proofs.C20Hash Proofs.C20Main.
Import ListNotations.
Open Scope N_scope.

(* ================================================================== IPv4 *)

(* Every IPv4 value (all octets, every MaskBits 0..255) prints as the standard CIDR text
   "a.b.c.d/len" and NewIPv4FromString reads that text back to the same value. *)
Theorem C20_ipv4_roundtrip : forall a b c d m,
  octet a -> octet b -> octet c -> octet d -> octet m ->
  ipv4_string (IPv4 a b c d m) = cidr_text a b c d m /\
  ipv4_of_string (cidr_text a b c d m) = Ok (IPv4 a b c d m).
Proof. exact main_ipv4_roundtrip. Qed.
Print Assumptions C20_ipv4_roundtrip.

(* The exact language of NewIPv4FromString: "A.B.C.D/M" with five non-empty decimal fields of value
   <= 255 (strconv.ParseUint(_, 10, 8): leading zeros tolerated; no sign, space, prefix or extra field),
   and the result is exactly the numeric value of each field.  Nothing else is accepted. *)
Theorem C20_ipv4_parse_exact : forall s a b c d m,
  ipv4_of_string s = Ok (IPv4 a b c d m) <->
  exists da db dc dd dm,
    s = da ++ [46] ++ db ++ [46] ++ dc ++ [46] ++ dd ++ [47] ++ dm /\
    parse_uint10 8 da = Some a /\ parse_uint10 8 db = Some b /\ parse_uint10 8 dc = Some c /\
    parse_uint10 8 dd = Some d /\ parse_uint10 8 dm = Some m.
Proof. exact ipv4_parse_exact. Qed.
Print Assumptions C20_ipv4_parse_exact.

(* ToUInt32 is the big-endian 32-bit value of the dotted quad. *)
Theorem C20_ipv4_value : forall a b c d m,
  octet a -> octet b -> octet c -> octet d -> octet m ->
  ipv4_to_u32 (IPv4 a b c d m) = ip4_value a b c d /\ ip4_value a b c d < 2 ^ 32.
Proof. exact main_ipv4_value. Qed.
Print Assumptions C20_ipv4_value.

(* IsInSubnet is mask arithmetic with the /len netmask, for all addresses and every prefix
   length 0..32 (the subnet argument may have host bits set) ... *)
Theorem C20_ipv4_subnet : forall a b c d m na nb nc nd len,
  octet a -> octet b -> octet c -> octet d -> octet m ->
  octet na -> octet nb -> octet nc -> octet nd -> len <= 32 ->
  ipv4_in_subnet (IPv4 a b c d m) (IPv4 na nb nc nd len)
  = (N.land (ip4_value a b c d) (prefix_mask len) =? N.land (ip4_value na nb nc nd) (prefix_mask len)).
Proof. exact main_ipv4_subnet. Qed.
Print Assumptions C20_ipv4_subnet.

(* ... which is the same as: the len leading bits of the two addresses agree. *)
Theorem C20_ipv4_subnet_prefix : forall a b c d m na nb nc nd len,
  octet a -> octet b -> octet c -> octet d -> octet m ->
  octet na -> octet nb -> octet nc -> octet nd -> len <= 32 ->
  ipv4_in_subnet (IPv4 a b c d m) (IPv4 na nb nc nd len)
  = same_prefix len (ip4_value a b c d) (ip4_value na nb nc nd).
Proof. exact main_ipv4_subnet_prefix. Qed.
Print Assumptions C20_ipv4_subnet_prefix.

(* ComputeMask returns the network address (address AND netmask = host bits cleared) with the
   same prefix length, and CIDRMask prints it, for every prefix length 0..32. *)
Theorem C20_ipv4_mask : forall a b c d len,
  octet a -> octet b -> octet c -> octet d -> len <= 32 ->
  exists a' b' c' d',
    ipv4_compute_mask (IPv4 a b c d len) = IPv4 a' b' c' d' len /\
    octet a' /\ octet b' /\ octet c' /\ octet d' /\
    ip4_value a' b' c' d' = N.land (ip4_value a b c d) (prefix_mask len) /\
    ip4_value a' b' c' d' = network_of len (ip4_value a b c d) /\
    ipv4_cidr_mask (IPv4 a b c d len) = cidr_text a' b' c' d' len.
Proof. exact main_ipv4_mask. Qed.
Print Assumptions C20_ipv4_mask.

(* The expression uint32(0xFFFFFFFF) << (32 - MaskBits), with its uint8 count, is the netmask. *)
Theorem C20_ipv4_netmask : forall len, len <= 32 -> ipv4_mask_of len = prefix_mask len.
Proof. exact ipv4_mask_of_spec. Qed.
Print Assumptions C20_ipv4_netmask.

(* IsInRange and IPv4Range.Contains are start <= ip <= end on the 32-bit values. *)
Theorem C20_ipv4_range : forall a b c d m sa sb sc sd sm ea eb ec ed em,
  octet a -> octet b -> octet c -> octet d -> octet m ->
  octet sa -> octet sb -> octet sc -> octet sd -> octet sm ->
  octet ea -> octet eb -> octet ec -> octet ed -> octet em ->
  ipv4_in_range (IPv4 a b c d m) (IPv4 sa sb sc sd sm) (IPv4 ea eb ec ed em)
  = between (ip4_value sa sb sc sd) (ip4_value a b c d) (ip4_value ea eb ec ed) /\
  ipv4range_contains (IPv4 sa sb sc sd sm) (IPv4 ea eb ec ed em) (IPv4 a b c d m)
  = between (ip4_value sa sb sc sd) (ip4_value a b c d) (ip4_value ea eb ec ed).
Proof. exact main_ipv4_range. Qed.
Print Assumptions C20_ipv4_range.

(* ================================================================== IPv6 *)

(* Every IPv6 value prints (eight lower-case hexadecimal groups without leading zeros, RFC 4291
   2.2 form 1) to a text that NewIPv6FromString reads back to the same value. *)
Theorem C20_ipv6_roundtrip : forall gs, groups_ok gs -> ipv6_of_string (ipv6_string gs) = Ok gs.
Proof. exact ipv6_roundtrip. Qed.
Print Assumptions C20_ipv6_roundtrip.

(* The exact language of NewIPv6FromString: eight colon-separated non-empty hexadecimal fields of
   value <= 0xffff (either letter case, leading zeros tolerated; no "::" compression, no zone, no
   embedded IPv4), denoting exactly their numeric values.  Nothing else is accepted. *)
Theorem C20_ipv6_parse_exact : forall s gs,
  ipv6_of_string s = Ok gs <->
  exists parts, length parts = 8%nat /\ s = join_with [58] parts /\
                Forall2 (fun p x => parse_uint16 16 p = Some x) parts gs.
Proof. exact ipv6_parse_exact. Qed.
Print Assumptions C20_ipv6_parse_exact.

(* ToUInt128 is the 128-bit value, high half first. *)
Theorem C20_ipv6_value : forall gs, groups_ok gs ->
  fst (ipv6_to_u128 gs) * 2 ^ 64 + snd (ipv6_to_u128 gs) = ip6_value gs /\
  fst (ipv6_to_u128 gs) < 2 ^ 64 /\ snd (ipv6_to_u128 gs) < 2 ^ 64 /\ ip6_value gs < 2 ^ 128.
Proof. exact main_ipv6_value. Qed.
Print Assumptions C20_ipv6_value.

(* IsInRange / IPv6Range.Contains: the two-limb comparison is start <= ip <= end on 128-bit values. *)
Theorem C20_ipv6_range : forall i s e, groups_ok i -> groups_ok s -> groups_ok e ->
  ipv6_in_range i s e = between (ip6_value s) (ip6_value i) (ip6_value e) /\
  ipv6range_contains s e i = between (ip6_value s) (ip6_value i) (ip6_value e).
Proof. exact main_ipv6_range. Qed.
Print Assumptions C20_ipv6_range.

(* The IPv6 type carries no prefix length; IsInSubnet is membership in the /128 of its argument. *)
Theorem C20_ipv6_subnet : forall i s, groups_ok i -> groups_ok s ->
  ipv6_in_subnet i s = (ip6_value i =? ip6_value s).
Proof. exact ipv6_in_subnet_spec. Qed.
Print Assumptions C20_ipv6_subnet.

(* ================================================================== TCP port ranges *)

(* All 65536 x 65536 pairs: "start-end" is accepted by the regular expression (modelled as the
   explicit recogniser Model/Ports.v port_re) and parses back to the same pair. *)
Theorem C20_ports : forall a b, port a -> port b -> ports_of_string (ports_string a b) = Ok (a, b).
Proof. exact ports_roundtrip. Qed.
Print Assumptions C20_ports.

(* The port alternation of the expression accepts the decimal text of every port and rejects the
   five-digit numerals above 65535. *)
Theorem C20_ports_alternation : forall a,
  (a < 65536 -> port_alt (print_dec a) = true) /\ (65536 <= a -> a < 100000 -> port_alt (print_dec a) = false).
Proof. intros a. split; [exact (port_alt_print a)|exact (port_alt_print_over a)]. Qed.
Print Assumptions C20_ports_alternation.

(* Conversely the only accepted texts are the canonical ones: parse-then-print is the identity too
   (leading zeros, signs and white space never yield a value). *)
Theorem C20_ports_canonical : forall s a b, ports_of_string s = Ok (a, b) -> s = ports_string a b.
Proof. exact ports_canonical. Qed.
Print Assumptions C20_ports_canonical.

Theorem C20_ports_wellformed : forall s a b, ports_of_string s = Ok (a, b) -> port a /\ port b.
Proof. exact ports_of_string_ok. Qed.
Print Assumptions C20_ports_wellformed.

(* ================================================================== LM:NT hashes *)

(* White space (any run of Unicode White_Space characters, UTF-8) around ANY string never changes
   the result of ParseLMNTHashes. *)
Theorem C20_hashes : forall w1 s w2,
  white_space w1 -> white_space w2 -> parse_lmnt (w1 ++ s ++ w2) = parse_lmnt s.
Proof. exact parse_lmnt_pad. Qed.
Print Assumptions C20_hashes.

(* A string that matches the grammar, padded or not, never loses a hash: both are returned exactly. *)
Theorem C20_hashes_valid : forall w1 t w2 lm nt,
  hash_spec t lm nt -> white_space w1 -> white_space w2 -> parse_lmnt (w1 ++ t ++ w2) = Ok (lm, nt).
Proof. exact parse_lmnt_valid. Qed.
Print Assumptions C20_hashes_valid.

(* Exact characterisation: success means the trimmed input is in the grammar with these hashes;
   everything else is an error (never a silent empty result, never a panic). *)
Theorem C20_hashes_exact : forall s lm nt,
  parse_lmnt s = Ok (lm, nt) <-> hash_spec (trim_space s) lm nt.
Proof. exact parse_lmnt_ok_iff. Qed.
Print Assumptions C20_hashes_exact.

Theorem C20_hashes_reject : forall s,
  parse_lmnt s = Err <-> ~ exists lm nt, hash_spec (trim_space s) lm nt.
Proof. exact parse_lmnt_err_iff. Qed.
Print Assumptions C20_hashes_reject.

(* Letter case: upper-casing (lower-casing) the input upper-cases (lower-cases) the hashes and
   changes nothing else; so the two spellings agree up to case. *)
Theorem C20_hashes_upper : forall s,
  parse_lmnt (map to_upper s) = rmap (map_pair to_upper) (parse_lmnt s).
Proof. exact main_hashes_upper. Qed.
Print Assumptions C20_hashes_upper.

Theorem C20_hashes_lower : forall s,
  parse_lmnt (map to_lower s) = rmap (map_pair to_lower) (parse_lmnt s).
Proof. exact main_hashes_lower. Qed.
Print Assumptions C20_hashes_lower.

Theorem C20_hashes_case : forall s,
  rmap (map_pair to_lower) (parse_lmnt (map to_upper s)) = parse_lmnt (map to_lower s).
Proof. exact main_hashes_case. Qed.
Print Assumptions C20_hashes_case.

(* strings.TrimSpace itself: padding is invisible for every string. *)
Theorem C20_trim_space : forall w1 s w2,
  white_space w1 -> white_space w2 -> trim_space (w1 ++ s ++ w2) = trim_space s.
Proof. intros w1 s w2 H1 H2. apply trim_space_pad; now apply white_space_tokens. Qed.
Print Assumptions C20_trim_space.

(* NewCredentials stores exactly the two hashes of a valid (possibly padded) specification. *)
Theorem C20_credentials : forall d u p w1 t w2 lm nt,
  hash_spec t lm nt -> white_space w1 -> white_space w2 ->
  new_credentials d u p (w1 ++ t ++ w2) = Ok (Creds d u p lm nt) /\
  can_pass_the_hash (Creds d u p lm nt) = negb (is_nil nt) && negb (is_nil u).
Proof. exact main_creds. Qed.
Print Assumptions C20_credentials.

(* ================================================================== totality (reused by C07) *)

Theorem C20_total_ipv4_parse : forall s, ipv4_of_string s <> Panic.
Proof. exact ipv4_of_string_total. Qed.
Print Assumptions C20_total_ipv4_parse.

Theorem C20_total_ipv6_parse : forall s, ipv6_of_string s <> Panic.
Proof. exact ipv6_of_string_total. Qed.
Print Assumptions C20_total_ipv6_parse.

Theorem C20_total_ports_parse : forall s, ports_of_string s <> Panic.
Proof. exact ports_of_string_total. Qed.
Print Assumptions C20_total_ports_parse.

Theorem C20_total_hashes_parse : forall s, parse_lmnt s <> Panic.
Proof. exact parse_lmnt_total. Qed.
Print Assumptions C20_total_hashes_parse.

Theorem C20_total_creds_new : forall d u p h, new_credentials d u p h <> Panic.
Proof. exact new_credentials_total. Qed.
Print Assumptions C20_total_creds_new.

(* Accepted inputs yield in-range fields. *)
Theorem C20_ipv4_parse_wellformed : forall s a b c d m,
  ipv4_of_string s = Ok (IPv4 a b c d m) -> octet a /\ octet b /\ octet c /\ octet d /\ octet m.
Proof. intros s a b c d m H. exact (ipv4_of_string_ok s _ H). Qed.
Print Assumptions C20_ipv4_parse_wellformed.

Theorem C20_ipv6_parse_wellformed : forall s gs, ipv6_of_string s = Ok gs -> groups_ok gs.
Proof. exact ipv6_of_string_ok. Qed.
Print Assumptions C20_ipv6_parse_wellformed.

(* ================================================================== non-vacuity and witnesses *)

(* hypotheses are satisfiable and the statements compute on concrete instances *)
Example C20_ipv4_example :
  ipv4_of_string (cidr_text 192 168 1 17 24) = Ok (IPv4 192 168 1 17 24) /\
  ipv4_cidr_mask (IPv4 192 168 1 17 24) = cidr_text 192 168 1 0 24 /\
  ipv4_in_subnet (IPv4 192 168 1 17 24) (IPv4 192 168 1 0 24) = true.
Proof. vm_compute. repeat split. Qed.

(* the witnesses of the three repaired defects (props/C20.fixed.txt), on the repaired model *)
Example C20_fixed_parse_witness :
  ipv4_of_string [49; 48; 47; 56] (* "10/8" *) = Err /\
  ipv4_of_string (cidr_text 10 0 0 0 8) = Ok (IPv4 10 0 0 0 8).
Proof. vm_compute. split; reflexivity. Qed.

Example C20_fixed_subnet_witness :
  ipv4_in_subnet (IPv4 255 255 255 255 32) (IPv4 10 0 0 0 8) = false /\
  ipv4_in_subnet (IPv4 0 0 0 0 32) (IPv4 10 0 0 0 0) = true.
Proof. vm_compute. split; reflexivity. Qed.

(* the expression used before the fix, ip & net == net, is not subnet membership *)
Example C20_old_subnet_formula_refuted :
  let ip := ip4_value 255 255 255 255 in let net := ip4_value 10 0 0 0 in
  (N.land ip net =? net) = true /\ same_prefix 8 ip net = false.
Proof. vm_compute. split; reflexivity. Qed.

Definition lm_example : list N := map (fun _ => 97) (seq 0 32).   (* "aaaa...a" *)
Definition nt_example : list N := map (fun _ => 70) (seq 0 32).   (* "FFFF...F" *)

Example C20_hashes_example :
  hash_spec (lm_example ++ 58 :: nt_example) lm_example nt_example /\
  white_space [32] /\ white_space [9; 226; 128; 169; 194; 160] /\
  parse_lmnt ([32] ++ (lm_example ++ 58 :: nt_example) ++ [9; 226; 128; 169; 194; 160])
  = Ok (lm_example, nt_example).
Proof.
  assert (Hin : forall c, existsb (N.eqb c) white_space_cps = true -> In c white_space_cps).
  { intros c H. apply existsb_exists in H. destruct H as (x & Hx & E). apply N.eqb_eq in E. now subst. }
  split; [constructor; split; reflexivity|].
  split; [exists [32]; split; [apply Forall_forall; intros c [<-|[]]; now apply Hin|reflexivity]|].
  split; [exists [9; 8233; 160]; split; [apply Forall_forall; intros c [<-|[<-|[<-|[]]]]; now apply Hin|reflexivity]|].
  vm_compute. reflexivity.
Qed.

Example C20_ipv6_example :
  groups_ok [8193; 3512; 0; 0; 0; 0; 0; 1] /\
  ipv6_string [8193; 3512; 0; 0; 0; 0; 0; 1] = [50;48;48;49; 58; 100;98;56; 58; 48; 58; 48; 58; 48; 58; 48; 58; 48; 58; 49] /\
  ipv6_of_string (ipv6_string [8193; 3512; 0; 0; 0; 0; 0; 1]) = Ok [8193; 3512; 0; 0; 0; 0; 0; 1].
Proof. split; [split; [reflexivity|repeat constructor]|]. vm_compute. split; reflexivity. Qed.

Example C20_ports_example :
  ports_of_string (ports_string 0 65535) = Ok (0, 65535) /\
  ports_of_string [54;53;53;51;54; 45; 49] (* "65536-1" *) = Err /\
  (* white space is admitted by the expression but then refused by strconv.ParseUint: an error, not a wrong value *)
  port_re [32; 49; 45; 50] = true /\ ports_of_string [32; 49; 45; 50] (* " 1-2" *) = Err.
Proof. vm_compute. repeat split. Qed.
