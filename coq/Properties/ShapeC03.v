(* C03 — the state space the model of this property assumes is the one the source declares.
   Statement only.  Gen/Shapes.v is regenerated from /repo on every run (go2coq shapes: package-level variables and
   declared types, struct fields in order, of every package the property anchors); Model/ShapesExpected.v is what the
   hand-written models were written against.  A model of a Go function is a pure function of its arguments and its
   receiver's fields: a new field, or a new package-level variable (a pool, a cache, a scratch buffer), is state the
   model does not have, and the correspondence runs no longer justify the theorems. *)
From Coq Require Import List String.
From Mant Require Import Gen.Shapes Model.ShapesExpected Gen.Wraps Model.WrapsExpected Model.ShapeTie.

Theorem C03_state_space : shapes_C03 = expected_C03.
Proof. reflexivity. Qed.
Print Assumptions C03_state_space.
