(* C12 placeholder while the proofs are being written *)
From Coq Require Import List NArith.
From Mant Require Import Model.Rc4Go Model.CmacGo Model.Pkcs7 Model.Gppp.
Example C12_placeholder : 1 = 1. Proof. reflexivity. Qed.
