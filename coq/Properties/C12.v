(* C12 — RC4, CMAC, PKCS#7 and GPP-AES match their standards and invert each other.
   Statements only; proofs are in Proofs/C12Rc4.v, C12Cmac.v, C12Pkcs7.v, C12Gppp.v, C12Main.v.
   Models: Model/Rc4Go.v (crypto/rc4), Model/CmacGo.v (crypto/cmac), Model/Pkcs7.v (crypto/pkcs7),
   Model/Gppp.v (crypto/gppp); references: Algo/RC4.v, Algo/CMAC.v, Algo/AES.v, Spec/C12.v. *)
From Coq Require Import String.
From Coq Require Import List Arith NArith Lia.
From Mant Require Import Prim.R Prim.Bytes Algo.Word Algo.AES Algo.DES Algo.RC4 Algo.CMAC Algo.Base64 Algo.Utf16 Algo.Utf8 Algo.Hex.
From Mant Require Import Model.Rc4Go Model.CmacGo Model.Pkcs7 Model.Gppp Gen.ConstsC12 Spec.C12.
From Mant Require Import Proofs.C12Rc4 Proofs.C12Cmac Proofs.C12Pkcs7 Proofs.C12Gppp Proofs.C12AesInv Proofs.C12Main.
Import ListNotations.
Open Scope N_scope.

(* ================================================================== *)
(* RC4                                                                 *)

(* For every key of 1..256 bytes NewRC4WithKey succeeds and XORKeyStream produces standard RC4
   (the code's uint8 wrap-around arithmetic is the algorithm's arithmetic mod 256), for every
   data string. *)
Theorem C12_rc4_spec : forall key data,
  (1 <= length key <= 256)%nat ->
  exists st, rc4go_new key = Ok st /\ fst (rc4go_xks st data) = rc4 key data.
Proof. exact rc4go_spec. Qed.
Print Assumptions C12_rc4_spec.

(* Exactly the key sizes 1..256 are accepted. *)
Theorem C12_rc4_keysize : forall key,
  (exists st, rc4go_new key = Ok st) <-> (1 <= length key <= 256)%nat.
Proof. exact rc4go_keysize. Qed.
Print Assumptions C12_rc4_keysize.

(* XORKeyStream is a stream: one call on a ++ b is a call on a followed by a call on b —
   same bytes, same final state — from ANY cipher state. *)
Theorem C12_rc4_chunking : forall st a b,
  rc4go_xks st (a ++ b) =
  let '(o1, st1) := rc4go_xks st a in
  let '(o2, st2) := rc4go_xks st1 b in
  (o1 ++ o2, st2).
Proof. exact rc4go_xks_app. Qed.
Print Assumptions C12_rc4_chunking.

(* Hence every way of splitting the data across any number of calls gives standard RC4. *)
Theorem C12_rc4_chunking_all : forall key chunks,
  (1 <= length key <= 256)%nat ->
  exists st, rc4go_new key = Ok st /\ fst (rc4go_stream st chunks) = rc4 key (stream_of chunks).
Proof. exact rc4go_stream_spec. Qed.
Print Assumptions C12_rc4_chunking_all.

Theorem C12_rc4_stream_state : forall st chunks,
  rc4go_stream st chunks = rc4go_xks st (stream_of chunks).
Proof. exact rc4go_stream_concat. Qed.
Print Assumptions C12_rc4_stream_state.

(* Decryption is encryption: from the same state the transformation is an involution. *)
Theorem C12_rc4_involutive : forall st data,
  fst (rc4go_xks st (fst (rc4go_xks st data))) = data.
Proof. exact rc4go_involutive. Qed.
Print Assumptions C12_rc4_involutive.

(* XORKeyStream(dst, src) panics exactly when dst is shorter than src and otherwise leaves the
   tail of dst untouched. *)
Theorem C12_rc4_dst : forall st dst src,
  rc4go_xks_dst st dst src =
  if (length dst <? length src)%nat then Panic
  else Ok (fst (rc4go_xks st src) ++ skipn (length src) dst, snd (rc4go_xks st src)).
Proof. exact rc4go_xks_dst_spec. Qed.
Print Assumptions C12_rc4_dst.

(* ================================================================== *)
(* CMAC — for EVERY block cipher E with block size n whose Encrypt maps n-byte blocks to
   n-byte blocks of bytes (the two hypotheses; they hold for AES and DES, see below).       *)

(* New derives the subkeys K1, K2 of SP 800-38B 6.1 (byte-wise shift = doubling in GF(2^b)). *)
Theorem C12_cmac_new : forall (E : list N -> list N) (n : nat),
  n = 8%nat \/ n = 16%nat ->
  (forall x, length x = n -> length (E x) = n) ->
  (forall x, length x = n -> wf_bytes x -> wf_bytes (E x)) ->
  cm_new E n = Ok (mk_cmst (fst (cmac_subkeys E n)) (snd (cmac_subkeys E n)) (zeros n) (zeros n) 0).
Proof. exact cm_new_spec. Qed.
Print Assumptions C12_cmac_new.

(* … and panics for any other block size. *)
Theorem C12_cmac_new_panics : forall E n, n <> 8%nat -> n <> 16%nat -> cm_new E n = Panic.
Proof. exact cm_new_bad_size. Qed.
Print Assumptions C12_cmac_new_panics.

(* MAIN: after ANY history of Write / Sum / Reset calls on a fresh object, Sum(in) returns
   in ++ CMAC_E(bytes written since the last Reset), CMAC as defined by RFC 4493 / SP 800-38B.
   This single statement contains: every message, every write-chunking, independence from
   earlier Sum calls, and Reset. *)
Theorem C12_cmac : forall (E : list N -> list N) (n : nat),
  (forall x, length x = n -> length (E x) = n) ->
  (forall x, length x = n -> wf_bytes x -> wf_bytes (E x)) ->
  forall d0 ops inp,
  cm_new E n = Ok d0 ->
  fst (cm_sum E (cm_run E d0 ops) inp) = inp ++ cmac_spec E n (written ops).
Proof. exact cmac_stream_spec. Qed.
Print Assumptions C12_cmac.

(* every way of cutting a message into Write calls *)
Theorem C12_cmac_chunking : forall (E : list N -> list N) (n : nat),
  (forall x, length x = n -> length (E x) = n) ->
  (forall x, length x = n -> wf_bytes x -> wf_bytes (E x)) ->
  forall d0, cm_new E n = Ok d0 ->
  forall chunks inp,
  fst (cm_sum E (cm_run E d0 (map OpWrite chunks)) inp) = inp ++ cmac_spec E n (stream_of chunks).
Proof. exact cmac_chunking. Qed.
Print Assumptions C12_cmac_chunking.

(* Sum does not modify k1, k2, ci, p (it works in the scratch buffer digest) — any state. *)
Theorem C12_cmac_sum_pure : forall E d inp,
  let d' := snd (cm_sum E d inp) in
  cm_k1 d' = cm_k1 d /\ cm_k2 d' = cm_k2 d /\ cm_ci d' = cm_ci d /\ cm_p d' = cm_p d.
Proof. exact cmac_sum_pure. Qed.
Print Assumptions C12_cmac_sum_pure.

(* … so an earlier Sum, anywhere in the history, with any argument, is invisible later. *)
Theorem C12_cmac_sum_invisible : forall (E : list N -> list N) (n : nat),
  (forall x, length x = n -> length (E x) = n) ->
  (forall x, length x = n -> wf_bytes x -> wf_bytes (E x)) ->
  forall d0, cm_new E n = Ok d0 ->
  forall ops1 inp' ops2 inp,
  fst (cm_sum E (cm_run E d0 (ops1 ++ OpSum inp' :: ops2)) inp) =
  fst (cm_sum E (cm_run E d0 (ops1 ++ ops2)) inp).
Proof. exact cmac_sum_invisible. Qed.
Print Assumptions C12_cmac_sum_invisible.

(* After Reset the object answers like a fresh one. *)
Theorem C12_cmac_reset : forall (E : list N -> list N) (n : nat),
  (forall x, length x = n -> length (E x) = n) ->
  (forall x, length x = n -> wf_bytes x -> wf_bytes (E x)) ->
  forall d0, cm_new E n = Ok d0 ->
  forall ops1 ops2 inp,
  fst (cm_sum E (cm_run E d0 (ops1 ++ OpReset :: ops2)) inp) =
  fst (cm_sum E (cm_run E d0 ops2) inp).
Proof. exact cmac_reset_fresh. Qed.
Print Assumptions C12_cmac_reset.

Theorem C12_cmac_size : forall (E : list N -> list N) (n : nat),
  (forall x, length x = n -> length (E x) = n) ->
  (forall x, length x = n -> wf_bytes x -> wf_bytes (E x)) ->
  forall d0 ops, cm_new E n = Ok d0 -> cm_size (cm_run E d0 ops) = N.of_nat n.
Proof. exact cmac_size. Qed.
Print Assumptions C12_cmac_size.

(* The hypotheses hold for FIPS 197 AES (any key) and FIPS 46-3 DES: AES-CMAC and DES-CMAC. *)
Theorem C12_cmac_aes : forall key ops inp,
  wf_bytes key ->
  exists d0, cm_new (aes_cipher (aes_round_keys key)) 16 = Ok d0 /\
    fst (cm_sum (aes_cipher (aes_round_keys key)) (cm_run (aes_cipher (aes_round_keys key)) d0 ops) inp)
    = inp ++ cmac_aes key (written ops).
Proof. exact cmac_aes_stream. Qed.
Print Assumptions C12_cmac_aes.

Theorem C12_cmac_des : forall key ops inp,
  exists d0, cm_new (des_crypt (des_subkeys key)) 8 = Ok d0 /\
    fst (cm_sum (des_crypt (des_subkeys key)) (cm_run (des_crypt (des_subkeys key)) d0 ops) inp)
    = inp ++ cmac_des key (written ops).
Proof. exact cmac_des_stream. Qed.
Print Assumptions C12_cmac_des.

(* ================================================================== *)
(* PKCS#7                                                              *)

(* Pad is RFC 5652 6.3 for every message and every block size 1..255; block size 0 is an error. *)
Theorem C12_pkcs7_pad : forall m b, 1 <= b <= 255 -> pkcs7_pad m b = Ok (pkcs7_pad_spec b m).
Proof. exact pad_spec. Qed.
Print Assumptions C12_pkcs7_pad.

Theorem C12_pkcs7_pad_zero : forall m, pkcs7_pad m 0 = Err.
Proof. exact pad_zero. Qed.
Print Assumptions C12_pkcs7_pad_zero.

Theorem C12_pkcs7_pad_length : forall m b,
  1 <= b -> lenN (pkcs7_pad_spec b m) mod b = 0 /\ lenN m < lenN (pkcs7_pad_spec b m) <= lenN m + b.
Proof. exact pad_spec_length. Qed.
Print Assumptions C12_pkcs7_pad_length.

(* unpad (pad m b) = m for every message and every block size 1..255. *)
Theorem C12_pkcs7_inverse : forall m b,
  1 <= b <= 255 -> exists padded, pkcs7_pad m b = Ok padded /\ pkcs7_unpad padded = Ok m.
Proof. exact unpad_pad. Qed.
Print Assumptions C12_pkcs7_inverse.

(* Unpad (the constant-time accumulator loop) returns m exactly when the buffer is m followed
   by p bytes of value p, 1 <= p <= 255: every buffer that is not validly padded is rejected,
   every validly padded one is accepted and exactly the padding is stripped. *)
Theorem C12_pkcs7_rejects : forall buf m,
  wf_bytes buf -> (pkcs7_unpad buf = Ok m <-> pkcs7_padded buf m).
Proof. exact unpad_iff. Qed.
Print Assumptions C12_pkcs7_rejects.

Theorem C12_total_unpad : forall input, pkcs7_unpad input <> Panic.
Proof. exact unpad_total. Qed.
Print Assumptions C12_total_unpad.

(* ================================================================== *)
(* Group Policy Preferences                                            *)

(* The key in the source (regenerated by go2coq on every run) is Microsoft's published key
   4e9906e8fcb66cc9faf49310620ffee8f496e806cc057990209b09a433b66c1b. *)
Theorem C12_gpp_key : c12_gppp_aes_key = ms_gpp_key.
Proof. exact gppp_key_is_published. Qed.
Print Assumptions C12_gpp_key.

(* GPPPEncrypt, for every Go string s, is base64(AES-256-CBC_key,IV=0(PKCS7_16(UTF-16LE(runes of s))));
   it never fails. *)
Theorem C12_gpp_is_aes256cbc : forall s,
  gppp_encrypt s =
  Ok (b64_encode (aes_cbc_encrypt ms_gpp_key (zeros 16) (pkcs7_pad_spec 16 (utf16le_encode (go_runes s))))).
Proof. exact gppp_encrypt_is_aes256cbc. Qed.
Print Assumptions C12_gpp_is_aes256cbc.

(* For every Unicode password (a list of scalar values, UTF-8 encoded as Go strings are) the
   result is the cpassword of [MS-GPPREF]. *)
Theorem C12_gpp_cpassword : forall cps,
  Forall scalar_value cps -> gppp_encrypt (utf8_encode cps) = Ok (gpp_cpassword cps).
Proof. exact gppp_encrypt_cpassword. Qed.
Print Assumptions C12_gpp_cpassword.

(* GPPPDecryptBytes succeeds exactly on a whole number of blocks whose AES-256-CBC decryption
   (published key, zero IV) is validly PKCS#7-padded text of even length, and returns the UTF-8
   form of that UTF-16LE text. *)
Theorem C12_gpp_decrypt_is_aes256cbc : forall ct s,
  wf_bytes ct ->
  (gppp_decrypt_bytes ct = Ok s <->
   lenN ct mod 16 = 0 /\
   exists pt, pkcs7_padded (gpp_plain_padded ct) pt /\ lenN pt mod 2 = 0 /\
              s = utf8_encode (utf16le_decode pt)).
Proof. exact gppp_decrypt_bytes_is_aes256cbc. Qed.
Print Assumptions C12_gpp_decrypt_is_aes256cbc.

(* Encryption and decryption are mutual inverses, for every block cipher pair (enc, dec) with
   dec k (enc k b) = b on blocks and every key of an AES size … *)
Theorem C12_gpp_inverse_generic : forall (aes_enc aes_dec : list N -> list N -> list N) (key : list N),
  key_size_ok key = true ->
  (forall b, length b = 16%nat -> length (aes_enc key b) = 16%nat) ->
  (forall b, wf_bytes b -> wf_bytes (aes_enc key b)) ->
  (forall b, length b = 16%nat -> wf_bytes b -> aes_dec key (aes_enc key b) = b) ->
  forall cps, Forall scalar_value cps ->
  exists enc,
    gppp_encrypt_with aes_enc key (utf8_encode cps) = Ok enc /\
    gppp_decrypt_b64_with aes_dec key enc = Ok (utf8_encode cps) /\
    exists ct, b64_decode enc = Some ct /\ gppp_decrypt_bytes_with aes_dec key ct = Ok (utf8_encode cps).
Proof. exact gppp_roundtrip. Qed.
Print Assumptions C12_gpp_inverse_generic.

(* The FIPS 197 inverse cipher (5.3) inverts the cipher (5.1) on every 16-byte block, for every
   list of round keys made of bytes: the hypothesis above holds for the executable AES. *)
Theorem C12_aes_inverse : forall rks block,
  Forall wf_bytes rks -> length block = 16%nat -> wf_bytes block ->
  aes_inv_cipher (rev rks) (aes_cipher rks block) = block.
Proof. exact aes_inv_cipher_cipher. Qed.
Print Assumptions C12_aes_inverse.

(* MAIN: under the published key, GPPPDecryptBase64 (GPPPEncrypt p) = p and GPPPDecryptBytes of the
   raw ciphertext = p, for every Unicode password p.  No hypothesis is left. *)
Theorem C12_gpp_inverse :
  forall cps, Forall scalar_value cps ->
  exists enc,
    gppp_encrypt (utf8_encode cps) = Ok enc /\
    gppp_decrypt_b64 enc = Ok (utf8_encode cps) /\
    exists ct, b64_decode enc = Some ct /\ gppp_decrypt_bytes ct = Ok (utf8_encode cps).
Proof. exact gppp_roundtrip_aes. Qed.
Print Assumptions C12_gpp_inverse.

(* Go's []rune conversion of a valid UTF-8 string is the RFC 3629 decoding. *)
Theorem C12_go_runes : forall s cps, utf8_decode s = Some cps -> go_runes s = cps.
Proof. exact go_runes_valid. Qed.
Print Assumptions C12_go_runes.

(* No input makes a decoding entry point panic (reused by C07). *)
Theorem C12_total_gppp_decrypt_bytes : forall input, gppp_decrypt_bytes input <> Panic.
Proof. exact gppp_decrypt_bytes_total. Qed.
Print Assumptions C12_total_gppp_decrypt_bytes.

Theorem C12_total_gppp_decrypt_b64 : forall input, gppp_decrypt_b64 input <> Panic.
Proof. exact gppp_decrypt_b64_total. Qed.
Print Assumptions C12_total_gppp_decrypt_b64.

Theorem C12_total_gppp_encrypt : forall s, exists enc, gppp_encrypt s = Ok enc.
Proof. exact gppp_encrypt_total. Qed.
Print Assumptions C12_total_gppp_encrypt.

(* ================================================================== *)
(* Non-vacuity: hypotheses are satisfiable and the models compute the published vectors.   *)

Open Scope string_scope.

(* RC4: the classic vector Key / Plaintext -> BBF316E8D940AF0AD3, fed in three pieces *)
Example C12_rc4_example :
  match rc4go_new (hex "4b6579") with
  | Ok st => fst (rc4go_stream st [hex "506c61"; []; hex "696e74657874"]) = hex "bbf316e8d940af0ad3"
  | _ => False
  end.
Proof. vm_compute. reflexivity. Qed.

(* CMAC: RFC 4493 example 3 (40 bytes) through the streaming model with AES-128, written in
   three pieces with a Sum and a Reset before *)
Example C12_cmac_example :
  let E := aes_cipher (aes_round_keys (hex "2b7e151628aed2a6abf7158809cf4f3c")) in
  match cm_new E 16 with
  | Ok d0 =>
      fst (cm_sum E (cm_run E d0 [OpWrite (hex "ffff"); OpSum []; OpReset;
                                  OpWrite (hex "6bc1bee22e409f96e93d7e117393172aae");
                                  OpSum (hex "00");
                                  OpWrite (hex "2d8a571e03ac9c9eb76fac45af8e51");
                                  OpWrite (hex "30c81c46a35ce411")]) (hex "abcd"))
      = hex "abcd dfa66747de9ae63030ca32611497c827"
  | _ => False
  end.
Proof. vm_compute. reflexivity. Qed.

(* the CMAC hypotheses are met by DES (unconditionally) — and by AES, see C12_cmac_aes *)
Example C12_cmac_hyps_des : forall key,
  (forall x, length x = 8%nat -> length (des_crypt (des_subkeys key) x) = 8%nat) /\
  (forall x, length x = 8%nat -> wf_bytes x -> wf_bytes (des_crypt (des_subkeys key) x)).
Proof. intros key. split; intros; [apply Proofs.AlgoProofs.des_crypt_length | apply Proofs.AlgoProofs.des_crypt_wf]. Qed.

(* PKCS#7 *)
Example C12_pkcs7_example :
  pkcs7_pad (hex "0102030405") 8 = Ok (hex "0102030405030303") /\
  pkcs7_unpad (hex "0102030405030303") = Ok (hex "0102030405") /\
  pkcs7_unpad (hex "0102030405030203") = Err /\
  pkcs7_padded (hex "0102030405030303") (hex "0102030405").
Proof.
  repeat split; try (vm_compute; reflexivity).
  exists 3%N. split; [lia | reflexivity].
Qed.

(* GPP: the test vector of the repository and the widely published cpassword example (stored
   without base64 padding) *)
Example C12_gpp_example :
  gppp_encrypt (utf8_encode [80; 111; 100; 97; 108; 105; 114; 105; 117; 115]%N) (* "Podalirius" *)
    = Ok (map (fun c => N.of_nat (Ascii.nat_of_ascii c))
              (String.list_ascii_of_string "bdajdgpjZqolVYI3h2O2mp+JpxDuZd0xoi2M86z7JuI=")) /\
  gppp_decrypt_b64 (map (fun c => N.of_nat (Ascii.nat_of_ascii c))
                        (String.list_ascii_of_string "j1Uyj3Vx8TY9LtLZil2uAuZkFQA/4latT76ZwgdHdhw"))
    = Ok (map (fun c => N.of_nat (Ascii.nat_of_ascii c)) (String.list_ascii_of_string "Local*P4ssword!")).
Proof. split; vm_compute; reflexivity. Qed.

(* the hypotheses of C12_gpp_inverse_generic are met by the executable AES (that is C12_gpp_inverse) and, trivially, by the identity cipher *)
Example C12_gpp_inverse_generic_hyps :
  let enc := fun (_ b : list N) => b in
  key_size_ok ms_gpp_key = true /\
  (forall b, length b = 16%nat -> length (enc ms_gpp_key b) = 16%nat) /\
  (forall b, wf_bytes b -> wf_bytes (enc ms_gpp_key b)) /\
  (forall b, length b = 16%nat -> wf_bytes b -> enc ms_gpp_key (enc ms_gpp_key b) = b).
Proof. cbv zeta. repeat split; auto. Qed.
