(* C11 — The NBT session transport preserves message boundaries and never yields partial frames.
   Statements only; proofs are in Proofs/C11Proofs.v.

   Model (Model/NbtFrame.v): nbt_send = NBTTransport.Send (the bytes handed to conn.Write),
   nbt_receive = NBTTransport.Receive over an explicit inbound stream: the list of segments that
   successive conn.Read calls deliver (any sizes, empty ones included), followed by end of stream;
   io.ReadFull is the loop read_full.  recv_n true n s = the results of n successive Receive calls.
   Spec (Spec/C11.v): RFC 1002 4.3.1 header rfc_header / packet rfc_frame, segmentation_of,
   whole_frames k ps (payloads whose frames lie wholly in the first k stream bytes), and
   expected n ms = "the messages ms in order, then only errors" for n calls. *)
From Coq Require Import List NArith Lia.
From Mant Require Import Prim.R Prim.Bytes Model.NbtFrame Spec.C11 Proofs.C11Proofs.
Import ListNotations.
Open Scope N_scope.

(* C11_frame.  For EVERY payload, Send writes exactly the RFC 1002 session-message packet (type
   0x00, FLAGS = E = bit 16 of the length, 16-bit big-endian LENGTH, then the payload) in one Write
   when the length is 0..131071, and refuses (an error, nothing written) when it is longer. *)
Theorem C11_frame : forall p,
  nbt_send true p = match rfc_frame p with Some f => Ok (f, lenN f) | None => Err end.
Proof. exact nbt_send_frame. Qed.
Print Assumptions C11_frame.

(* The reference header is well formed and announces the 17-bit length (sanity of the spec). *)
Theorem C11_frame_fields : forall len, len <= nbt_max_len ->
  length (rfc_header len) = 4%nat /\ wf_bytes (rfc_header len)
  /\ rfc_header_length (rfc_header len) = Some len.
Proof. exact rfc_header_fields. Qed.
Print Assumptions C11_frame_fields.

Theorem C11_frame_refused : forall c p, nbt_max_len < lenN p -> nbt_send c p = Err.
Proof. exact nbt_send_refuses. Qed.
Print Assumptions C11_frame_refused.

(* a sequence of sends is accepted as a whole iff every payload is framable; one oversized
   payload anywhere makes it fail instead of being mis-framed *)
Theorem C11_send_all : forall ps, Forall framable ps -> send_all ps = Ok (rfc_wire ps).
Proof. exact send_all_wire. Qed.
Print Assumptions C11_send_all.

Theorem C11_send_all_refused : forall ps,
  Exists (fun p => nbt_max_len < lenN p) ps -> send_all ps = Err.
Proof. exact send_all_refuses. Qed.
Print Assumptions C11_send_all_refused.

(* C11_boundaries.  For every list of framable payloads (each 0..131071 bytes, any number of them),
   the bytes Send puts on the wire, delivered under EVERY segmentation, make n successive
   Receive calls (any n) return exactly those payloads, in order, and then only errors. *)
Theorem C11_boundaries : forall ps, Forall framable ps ->
  exists w, send_all ps = Ok w /\
    forall segs n, segmentation_of segs w -> fst (recv_n true n segs) = expected n ps.
Proof. exact boundaries_thm. Qed.
Print Assumptions C11_boundaries.

(* ... and then nothing is left unread in the connection. *)
Theorem C11_boundaries_consumed : forall ps segs n, Forall framable ps ->
  segmentation_of segs (rfc_wire ps) -> (length ps <= n)%nat ->
  concat (snd (recv_n true n segs)) = [].
Proof. exact boundaries_consumed. Qed.
Print Assumptions C11_boundaries_consumed.

(* C11_cut.  If only the first k bytes of that wire stream arrive (EVERY k, EVERY segmentation of
   those k bytes) and the connection then ends, the Receive calls return exactly the payloads
   whose frames lie wholly inside the k bytes, in order, and then only errors. *)
Theorem C11_cut : forall ps, Forall framable ps ->
  exists w, send_all ps = Ok w /\
    forall k segs n, (k <= length w)%nat -> segmentation_of segs (firstn k w) ->
      fst (recv_n true n segs) = expected n (whole_frames k ps).
Proof. exact cut_thm. Qed.
Print Assumptions C11_cut.

(* Never a partial or fabricated message: whatever the cut and the segmentation, if the i-th
   Receive returns a message at all, it is the i-th payload that was sent. *)
Theorem C11_cut_no_fabrication : forall ps w k segs n i m,
  send_all ps = Ok w -> (k <= length w)%nat -> segmentation_of segs (firstn k w) ->
  nth_error (fst (recv_n true n segs)) i = Some (Ok m) -> nth_error ps i = Some m.
Proof. exact no_fabrication. Qed.
Print Assumptions C11_cut_no_fabrication.

(* Segmentation independence for ARBITRARY inbound streams (malformed ones included): the
   results of any number of Receive calls, and the bytes left unread, depend only on the
   concatenation of the segments. *)
Theorem C11_segmentation_independent : forall n s1 s2, concat s1 = concat s2 ->
  fst (recv_n true n s1) = fst (recv_n true n s2)
  /\ concat (snd (recv_n true n s1)) = concat (snd (recv_n true n s2)).
Proof. exact recv_n_segmentation. Qed.
Print Assumptions C11_segmentation_independent.

(* Only SESSION MESSAGE packets (type 0x00) carry user data: a packet of any other type
   (keep-alive 0x85, session responses 0x82/0x83/0x84 ...) is never handed to the caller as a
   message, however the stream is segmented. *)
Theorem C11_foreign_type_rejected : forall s t f a b rest,
  concat s = t :: f :: a :: b :: rest -> t <> 0 -> fst (nbt_receive true s) = Err.
Proof. exact foreign_type_rejected. Qed.
Print Assumptions C11_foreign_type_rejected.

(* Totality (reused by C07): no payload makes Send panic, no inbound stream makes Receive panic,
   and a received message never exceeds the 17-bit bound (the allocation bound of Receive). *)
Theorem C11_total_send : forall c p, nbt_send c p <> Panic.
Proof. exact nbt_send_total. Qed.
Print Assumptions C11_total_send.

Theorem C11_total_receive : forall c s, fst (nbt_receive c s) <> Panic.
Proof. exact nbt_receive_total. Qed.
Print Assumptions C11_total_receive.

Theorem C11_total_recv_n : forall c n s, Forall (fun r => r <> Panic) (fst (recv_n c n s)).
Proof. exact recv_n_total. Qed.
Print Assumptions C11_total_recv_n.

Theorem C11_receive_bounded : forall s m s', Forall wf_bytes s ->
  nbt_receive true s = (Ok m, s') -> lenN m <= nbt_max_len.
Proof. exact nbt_receive_bounded. Qed.
Print Assumptions C11_receive_bounded.

(* Non-vacuity: concrete instances meet the hypotheses and compute. *)
Example C11_frame_example_65536 :
  framable (repeat 7 65536)
  /\ match nbt_send true (repeat 7 65536) with Ok (f, n) => (firstn 4 f, n) | _ => ([], 0) end
     = ([0; 1; 0; 0], 65540).
Proof. split; [unfold framable; vm_compute; discriminate|vm_compute; reflexivity]. Qed.

Example C11_frame_example_max :
  match nbt_send true (repeat 1 131071) with Ok (f, n) => (firstn 4 f, n) | _ => ([], 0) end
  = ([0; 1; 255; 255], 131075)
  /\ nbt_send true (repeat 1 131072) = Err.
Proof. split; vm_compute; reflexivity. Qed.

Example C11_boundaries_example :
  let ps := [[1; 2; 3]; []; [9]] in
  Forall framable ps
  /\ send_all ps = Ok [0; 0; 0; 3; 1; 2; 3; 0; 0; 0; 0; 0; 0; 0; 1; 9]
  /\ segmentation_of [[0]; [0; 0]; []; [3; 1; 2; 3; 0; 0]; [0; 0; 0; 0; 0]; [1; 9]]
                     [0; 0; 0; 3; 1; 2; 3; 0; 0; 0; 0; 0; 0; 0; 1; 9]
  /\ fst (recv_n true 5 [[0]; [0; 0]; []; [3; 1; 2; 3; 0; 0]; [0; 0; 0; 0; 0]; [1; 9]])
     = [Ok [1; 2; 3]; Ok []; Ok [9]; Err; Err].
Proof.
  split; [repeat constructor; unfold framable; vm_compute; discriminate|].
  split; [vm_compute; reflexivity|]. split; vm_compute; reflexivity.
Qed.

Example C11_cut_example :
  let ps := [[1; 2; 3]; []; [9]] in
  whole_frames 13 ps = [[1; 2; 3]; []]
  /\ fst (recv_n true 4 [[0; 0; 0; 3; 1]; [2; 3; 0; 0; 0; 0; 0; 0]]) = [Ok [1; 2; 3]; Ok []; Err; Err].
Proof. split; vm_compute; reflexivity. Qed.
