(* C08 placeholder while the correspondence is being established. *)
From Coq Require Import List NArith.
From Mant Require Import Prim.Der.
Example C08_placeholder : der_len 5 = (5 :: nil)%N.
Proof. reflexivity. Qed.
