(* C08 — NTLMSSP and SPNEGO tokens are structurally exact in both directions.
   Statements only; proofs are in Proofs/C08*.v.  Models: Model/NtlmSsp.v, Model/Spnego.v,
   Model/SpnegoAuth.v (Go code), Model/C08Asn1.v, Model/C08Text.v (Go standard library);
   specifications: Spec/C08.v (MS-NLMP, RFC 2781, RFC 3629), Prim/Der.v (X.690). *)
From Coq Require Import List NArith ZArith Lia.
From Mant Require Import Prim.R Prim.Bytes Prim.Der Spec.C08 Model.C08Text Model.C08Asn1 Model.Spnego
  Model.NtlmSsp Model.SpnegoAuth
  Proofs.C08Der Proofs.C08TextLemmas Proofs.C08Spnego Proofs.C08Ntlm Proofs.C08Challenge Proofs.C08Total.
Import ListNotations.
Open Scope N_scope.

(* ------------------------------------------------------------------------------------------ *)
(* NEGOTIATE (MS-NLMP 2.2.1.1).  For ALL domain / workstation strings (any bytes: empty, ASCII,
   non-ASCII, invalid UTF-8) in the Unicode character set, and all ASCII strings in the OEM
   character set, every message CreateNegotiateMessage builds is valid: signature, MessageType 1,
   both (Len, MaxLen, BufferOffset) descriptors designate exactly the encoded name (Len = MaxLen,
   in bounds, behind the 40-byte header, disjoint), the character-set and *_SUPPLIED flags agree
   with the content.  The text carried is the string's code points as Go reads them
   ([go_runes]; upper-cased in OEM mode), encoded in UTF-16LE (RFC 2781) resp. OEM. *)
Theorem C08_negotiate_wf : forall domain ws unicode msg,
  (unicode = false -> ascii domain /\ ascii ws) ->
  create_negotiate domain ws unicode = Ok msg ->
  negotiate_wf msg (bool_charset unicode)
    (go_runes (negotiate_text unicode domain)) (go_runes (negotiate_text unicode ws)).
Proof. exact negotiate_wf_holds. Qed.
Print Assumptions C08_negotiate_wf.

(* A message is built exactly when both encoded names fit their 16-bit length field (since the
   fix: an error otherwise, never a truncated descriptor, never a panic). *)
Theorem C08_negotiate_outcome : forall domain ws unicode,
  let db := negotiate_name unicode domain in
  let wb := negotiate_name unicode ws in
  (lenN db <= 65535 /\ lenN wb <= 65535 -> exists msg, create_negotiate domain ws unicode = Ok msg) /\
  (~ (lenN db <= 65535 /\ lenN wb <= 65535) -> create_negotiate domain ws unicode = Err).
Proof. exact create_negotiate_outcome. Qed.
Print Assumptions C08_negotiate_outcome.

(* Known finding C08/oem-non-ascii-name: over non-ASCII names the OEM statement is false
   (the code writes UTF-8 bytes, which no OEM code page produces).  Witness: domain "é". *)
Theorem C08_negotiate_oem_non_ascii_refuted :
  ~ (forall domain ws msg, create_negotiate domain ws false = Ok msg ->
       negotiate_wf msg Oem (go_runes (negotiate_text false domain)) (go_runes (negotiate_text false ws))).
Proof. exact negotiate_oem_non_ascii_refuted. Qed.
Print Assumptions C08_negotiate_oem_non_ascii_refuted.

(* Known finding C08/negotiate/names-not-oem: MS-NLMP 2.2.1.1 read strictly wants OEM names in
   every NEGOTIATE_MESSAGE; the Unicode mode of the builder refutes that.  Witness: domain "a". *)
Theorem C08_negotiate_strict_oem_refuted :
  ~ (forall domain ws msg, ascii domain -> ascii ws -> create_negotiate domain ws true = Ok msg ->
       negotiate_wf msg Oem (go_runes domain) (go_runes ws)).
Proof. exact negotiate_unicode_strict_oem_refuted. Qed.
Print Assumptions C08_negotiate_strict_oem_refuted.

(* ------------------------------------------------------------------------------------------ *)
(* AUTHENTICATE (MS-NLMP 2.2.1.3).  For ALL 32-bit flag words (every combination of UNICODE, OEM,
   VERSION, EXTENDED_SESSIONSECURITY, ...), ALL LM / NT response byte strings (whatever C02
   computes), ALL user / domain / workstation strings in Unicode and all ASCII ones in OEM: the
   six descriptors designate exactly LmChallengeResponse, NtChallengeResponse, DomainName
   (upper-cased), UserName, Workstation (upper-cased), EncryptedRandomSessionKey (empty), behind
   the 88-byte header, in bounds, pairwise disjoint, and together with the header they are the
   whole message; NegotiateFlags echoes the flags; Version is zero when not negotiated. *)
Theorem C08_authenticate_wf : forall flags lm nt user domain ws msg,
  flags < 4294967296 ->
  (N.testbit flags 0 = false -> N.testbit flags 1 = true /\ ascii user /\ ascii domain /\ ascii ws) ->
  create_authenticate flags lm nt user domain ws = Ok msg ->
  authenticate_wf msg (flags_charset flags) flags lm nt
    (go_runes (go_to_upper domain)) (go_runes user) (go_runes (go_to_upper ws)) [].
Proof. exact authenticate_wf_holds. Qed.
Print Assumptions C08_authenticate_wf.

Theorem C08_authenticate_outcome : forall flags lm nt user domain ws,
  let '(db, ub, wb) := authenticate_names flags user domain ws in
  (Forall (fun f => lenN f <= 65535) [lm; nt; db; ub; wb] ->
     exists msg, create_authenticate flags lm nt user domain ws = Ok msg) /\
  (~ Forall (fun f => lenN f <= 65535) [lm; nt; db; ub; wb] ->
     create_authenticate flags lm nt user domain ws = Err).
Proof. exact create_authenticate_outcome. Qed.
Print Assumptions C08_authenticate_outcome.

Theorem C08_authenticate_oem_non_ascii_refuted :
  ~ (forall flags lm nt user domain ws msg, flags < 4294967296 ->
       N.testbit flags 0 = false -> N.testbit flags 1 = true ->
       create_authenticate flags lm nt user domain ws = Ok msg ->
       authenticate_wf msg Oem flags lm nt (go_runes (go_to_upper domain)) (go_runes user) (go_runes (go_to_upper ws)) []).
Proof. exact authenticate_oem_non_ascii_refuted. Qed.
Print Assumptions C08_authenticate_oem_non_ascii_refuted.

(* The text of a Go string: for every sequence of Unicode scalar values, reading its RFC 3629
   encoding gives the sequence back, so on valid UTF-8 "the runes Go reads" are the characters;
   and EncodeUTF16LE of ANY Go string is the RFC 2781 UTF-16LE encoding of its runes. *)
Theorem C08_utf8_text : forall text, Forall is_scalar text -> go_runes (utf8 text) = text.
Proof. exact go_runes_utf8. Qed.
Print Assumptions C08_utf8_text.

Theorem C08_utf16le : forall s, go_utf16le s = utf16le (go_runes s).
Proof. exact go_utf16le_spec. Qed.
Print Assumptions C08_utf16le.

(* ------------------------------------------------------------------------------------------ *)
(* CHALLENGE (MS-NLMP 2.2.1.2).  Every well-formed CHALLENGE_MESSAGE — any bytes with the
   signature, MessageType 2, at least the 56-byte header, and both descriptors in bounds; payload
   in any order, with any padding or trailing bytes — parses to exactly the flags, server
   challenge, target name, target information and version it carries. *)
Theorem C08_challenge_exact : forall data, challenge_wf data ->
  exists c, parse_challenge data = Ok c /\
    let f := challenge_carried data in
    ch_flags c = cf_flags f /\ ch_server_challenge c = cf_server_challenge f /\
    ch_target_name c = cf_target_name f /\ ch_target_info c = cf_target_info f /\
    version_marshal (ch_version c) = cf_version f.
Proof. exact challenge_exact. Qed.
Print Assumptions C08_challenge_exact.

(* The sender side: the canonical layout of any fields is well formed and carries them. *)
Theorem C08_challenge_encode : forall flags sc tn ti ver,
  flags < 4294967296 -> lenN sc = 8 -> lenN ver = 8 -> lenN tn < 65536 -> lenN ti < 65536 ->
  wf_bytes sc -> wf_bytes ver -> wf_bytes tn -> wf_bytes ti ->
  let data := challenge_encode flags sc tn ti ver in
  challenge_wf data /\
  challenge_carried data =
    {| cf_flags := flags; cf_server_challenge := sc; cf_target_name := tn; cf_target_info := ti;
       cf_version := if N.testbit flags bit_version then ver else [0; 0; 0; 0; 0; 0; 0; 0] |}.
Proof. exact challenge_encode_spec. Qed.
Print Assumptions C08_challenge_encode.

(* All AV-pair lists (any ids 1..65535, repeated or not, any values up to 65535 bytes, any
   bytes after the terminator): the parsed map gives every AvId the last value written. *)
Theorem C08_target_info : forall pairs rest, Forall av_ok pairs ->
  exists m, parse_target_info (av_encode pairs ++ rest) = Ok m /\ forall id, av_get m id = av_value pairs id.
Proof. exact target_info_exact. Qed.
Print Assumptions C08_target_info.

(* ------------------------------------------------------------------------------------------ *)
(* X.690 definite lengths: the decoder inverts the DER encoder for EVERY length (short form,
   1, 2, 3, ... length octets uniformly; induction on base-256 digits), and the hand-written
   GSS-API header of spnego.go is exactly that encoding for every Go int. *)
Theorem C08_der_len : forall n rest, n < 256 ^ 126 -> decode_len (der_len n ++ rest) = Some (n, rest).
Proof. exact decode_der_len. Qed.
Print Assumptions C08_der_len.

Theorem C08_gss_header_der : forall n, n < 2 ^ 63 -> gss_header_len n = der_len n.
Proof. exact gss_header_len_der. Qed.
Print Assumptions C08_gss_header_der.

(* SPNEGO round trip: for EVERY token t (empty included since the fix; any length that Go's asn1
   can describe, i.e. below 2 GiB), wrapping t in a NegTokenInit yields the DER framing
   [APPLICATION 0] { spnego OID, body } and extracting gives back exactly t. *)
Theorem C08_spnego_roundtrip : forall t, lenN t + 64 < 2 ^ 31 ->
  exists w, create_neg_token_init (Some t) = Ok w /\ extract_ntlm_token w = Ok t.
Proof. exact extract_wrap_init. Qed.
Print Assumptions C08_spnego_roundtrip.

Theorem C08_spnego_init_shape : forall t, lenN t + 64 < 2 ^ 31 ->
  create_neg_token_init (Some t) = Ok (tlv 96 (spnego_oid_der ++ init_body t)).
Proof. exact create_init_shape. Qed.
Print Assumptions C08_spnego_init_shape.

(* NegTokenResp likewise, for every NegState of RFC 4178 and every mechanism whose identifier
   round-trips through the OID codec (instances below): extraction returns t and
   ParseNegTokenResp returns exactly (state, mechanism, t, no MIC). *)
Theorem C08_spnego_resp_roundtrip : forall state mech oc t,
  neg_state state -> mech_coded mech oc -> lenN t + 2048 < 2 ^ 31 ->
  exists w, create_neg_token_resp state mech (Some t) = Ok w /\ extract_ntlm_token w = Ok t /\
            parse_neg_token_resp w = Ok {| ntr_state := state; ntr_mech := mech; ntr_token := Some t; ntr_mic := None |}.
Proof. exact extract_wrap_resp. Qed.
Print Assumptions C08_spnego_resp_roundtrip.

Theorem C08_spnego_absent : exists w, create_neg_token_init None = Ok w /\ extract_ntlm_token w = Err.
Proof. exact extract_absent_init. Qed.

(* ------------------------------------------------------------------------------------------ *)
(* Totality of every decoding entry point (reused by C07): no input panics. *)
Theorem C08_total_extract_ntlm_token : forall tok, extract_ntlm_token tok <> Panic.
Proof. exact extract_ntlm_token_total. Qed.
Print Assumptions C08_total_extract_ntlm_token.
Theorem C08_total_parse_neg_token_resp : forall tok, parse_neg_token_resp tok <> Panic.
Proof. exact parse_neg_token_resp_total. Qed.
Print Assumptions C08_total_parse_neg_token_resp.
Theorem C08_total_parse_challenge : forall data, parse_challenge data <> Panic.
Proof. exact parse_challenge_total. Qed.
Print Assumptions C08_total_parse_challenge.
Theorem C08_total_parse_target_info : forall ti, parse_target_info ti <> Panic.
Proof. exact parse_target_info_total. Qed.
Print Assumptions C08_total_parse_target_info.
Theorem C08_total_version_unmarshal : forall data, version_unmarshal data <> Panic.
Proof. exact version_unmarshal_total. Qed.
Print Assumptions C08_total_version_unmarshal.
Theorem C08_total_process_challenge_token : forall lm_of nt_of tok user domain ws,
  process_challenge_token lm_of nt_of tok user domain ws <> Panic.
Proof. exact process_challenge_token_total. Qed.
Print Assumptions C08_total_process_challenge_token.

(* ------------------------------------------------------------------------------------------ *)
(* Non-vacuity: the hypotheses are satisfiable and the statements compute on concrete inputs. *)
Example C08_ex_mechs : mech_coded [] None /\ mech_coded ntlm_oid (Some ntlm_oid_content)
  /\ mech_coded kerberos_oid (Some [42; 134; 72; 134; 247; 18; 1; 2; 2]).
Proof. exact (conj mech_coded_nil (conj mech_coded_ntlm mech_coded_kerberos)). Qed.

Example C08_ex_negotiate :
  exists msg, create_negotiate [99; 111; 114; 112] [119; 115; 49] false = Ok msg /\ lenN msg = 47
    /\ sub msg 40 7 = [67; 79; 82; 80; 87; 83; 49].       (* "CORP" "WS1" *)
Proof. eexists. split; [vm_compute; reflexivity|]. split; vm_compute; reflexivity. Qed.

Example C08_ex_authenticate :                      (* Unicode | VERSION, user "é" (UTF-8 c3 a9) *)
  exists msg, create_authenticate 33554433 (repeatN 7 24) (repeatN 9 24) [195; 169] [100] [119] = Ok msg
    /\ sub msg 136 6 = [68; 0; 233; 0; 87; 0].             (* "D" "é" "W" in UTF-16LE *)
Proof. eexists. split; [vm_compute; reflexivity|]. vm_compute. reflexivity. Qed.

Example C08_ex_challenge :
  let data := challenge_encode 33554437 [1; 2; 3; 4; 5; 6; 7; 8] [83; 0] (av_encode [(2, [68; 0]); (2, [69; 0])])
                [6; 1; 177; 29; 0; 0; 0; 15] in
  challenge_wf data /\
  exists c, parse_challenge data = Ok c /\ ch_target_name c = [83; 0] /\ ch_flags c = 33554437 /\
    exists m, parse_target_info (ch_target_info c) = Ok m /\ av_get m 2 = Some [69; 0].
Proof.
  cbn zeta. split.
  - apply challenge_encode_spec; try (vm_compute; reflexivity); try (apply wf_bytesb_spec; reflexivity); lia.
  - eexists. split; [vm_compute; reflexivity|]. split; [reflexivity|]. split; [reflexivity|].
    eexists. split; [vm_compute; reflexivity|]. vm_compute. reflexivity.
Qed.

Example C08_ex_av_ok : Forall av_ok [(2, [68; 0]); (2, [69; 0]); (7, [1; 2; 3; 4; 5; 6; 7; 8])].
Proof. repeat constructor. Qed.

Example C08_ex_roundtrip_200 :                      (* a long-form length: 200-byte token *)
  exists w, create_neg_token_init (Some (repeatN 5 200)) = Ok w /\ extract_ntlm_token w = Ok (repeatN 5 200)
    /\ firstn 3 w = [96; 129; 233].
Proof. eexists. split; [vm_compute; reflexivity|]. split; vm_compute; reflexivity. Qed.

Example C08_ex_empty_token :
  exists w, create_neg_token_init (Some []) = Ok w /\ extract_ntlm_token w = Ok [].
Proof. eexists. split; [vm_compute; reflexivity|]. vm_compute. reflexivity. Qed.

Example C08_ex_header_skip : extract_ntlm_token [96; 255] = Err /\ parse_neg_token_resp [96; 129] = Err.
Proof. split; vm_compute; reflexivity. Qed.

Example C08_ex_challenge_wrap :                     (* TargetNameBufferOffset 0xFFFFFFF0, Len 0x10 *)
  exists c, parse_challenge ([78; 84; 76; 77; 83; 83; 80; 0; 2; 0; 0; 0; 16; 0; 16; 0; 240; 255; 255; 255]
                             ++ repeatN 0 36) = Ok c /\ ch_target_name c = [].
Proof. eexists. split; [vm_compute; reflexivity|]. vm_compute. reflexivity. Qed.

Example C08_ex_der_len : der_len 127 = [127] /\ der_len 128 = [129; 128] /\ der_len 65536 = [131; 1; 0; 0].
Proof. repeat split; vm_compute; reflexivity. Qed.
