(* C14 — placeholder while the proofs are being written *)
From Coq Require Import List NArith.
From Mant Require Import Model.KeyCred.
Example C14_stub : ver_to_bytes 0 = [0; 0; 0; 0]%N.
Proof. reflexivity. Qed.
