(* C14 — Key-credential blobs round-trip and their integrity hash detects tampering.
   Statements only; proofs are in Proofs/C14Base.v, C14Codec.v, C14Proofs.v, C14Tamper.v.

   Vocabulary.  Spec/C14.v: [cred] = what a credential is built from (version, RSA key size / exponent /
   modulus / primes, device GUID, two tick counts); [cred_ok] = every field fits its type and the tick counts
   are not 0 (0 means "now": NewDateTime reads the clock, outside the property); [fits] = the key material
   can be described by the 16-bit entry length; [spec_blob] = the KEYCREDENTIALLINK_BLOB of MS-ADTS 2.2.20 for
   it, [spec_tail] = the entries the key hash covers, [flip_bit b i] = b with bit i inverted.
   Model/KeyCred.v: the Go functions.  Proofs/C14Proofs.v: [kc_build now c] = NewKeyCredential applied to
   the version, ComputeKeyIdentifier(key material), the key, the device and NewDateTime of the two tick
   counts, with the clock reading [now]; [kc_obs] = the fields of a KeyCredential other than the internal
   RawBytes / CustomKeyInfo.RawBytesSize. *)
From Coq Require Import List NArith ZArith Lia.
From Mant Require Import Prim.R Prim.Bytes Prim.Dec Algo.SHA256 Model.Guid Model.WinTime Model.KeyCred Spec.C14
  Proofs.C14Base Proofs.C14Codec Proofs.C14Proofs Proofs.C14Tamper.
Import ListNotations.
Open Scope N_scope.

(* Round trip.  For every version (any 32-bit value: 0, 0x100, 0x200 and the others, which the code treats as
   0x200), key size, exponent, modulus and primes of any length that fits an entry, device GUID and non-zero
   tick counts, and whatever the clock shows when the credential is built (now) and parsed (now'):
   the credential builds; ToBytes is exactly the MS-ADTS blob; it passes its own integrity check; FromBytes of
   the blob succeeds and yields the same version, identifier, key hash, key material, usage, source, custom key
   information, device id and time stamps; ToBytes of the parsed credential is the same blob; the parsed
   credential passes the integrity check; and the fields are the ones the credential was built from. *)
Theorem C14_roundtrip : forall now now' c,
  cred_ok c -> fits c ->
  exists k k',
    kc_build now c = Ok k /\
    kc_to_bytes k = Ok (spec_blob c) /\
    check_integrity k = Ok (true, k) /\
    kc_from_bytes now' zero_kc (spec_blob c) = Ok k' /\
    kc_obs k' = kc_obs k /\
    kc_to_bytes k' = Ok (spec_blob c) /\
    check_integrity k' = Ok (true, k') /\
    kc_obs k = (sVersion c, spec_identifier c, spec_key_hash c, rsa_of c, (1, [], 0), (1, 0), sDevice c,
                dt_of (sLastLogon c), dt_of (sCreation c)).
Proof. exact roundtrip. Qed.
Print Assumptions C14_roundtrip.

(* The only keys excluded above are those the format cannot express (key material above 65535 bytes, a
   modulus of more than 524000 bits): ToBytes refuses them with an error instead of writing a wrapped length. *)
Theorem C14_oversize_refused : forall now c,
  cred_ok c -> ~ fits c -> exists k, kc_build now c = Ok k /\ kKeyHash k = [] /\ kc_to_bytes k = Err.
Proof. exact oversize_refused. Qed.
Print Assumptions C14_oversize_refused.

(* Tampering.  For every serialised credential and EVERY bit position in the entries covered by the key hash:
   if FromBytes + CheckIntegrity still accept the corrupted blob, then the bytes m' that were hashed for it
   either collide with the original covered bytes under SHA-256 (same digest, different bytes) or contain their
   own SHA-256 digest as a contiguous block.  The second case is the corruption of a length or type byte that
   makes a later stretch of the covered bytes parse as a KeyHash entry: the stored hash is then taken from the
   hashed bytes themselves, so acceptance needs a message that embeds its own digest.  Nothing is assumed about
   SHA-256 (no injectivity); the statement DESIGN.md sketches (collision only) is this one without its second
   disjunct and is neither provable nor refutable without such an assumption. *)
Theorem C14_tamper : forall now c i,
  cred_ok c -> fits c ->
  8 * covered_offset <= i < 8 * lenN (spec_blob c) ->
  kc_verify now (flip_bit (spec_blob c) i) = Ok true ->
  exists m', kc_covered (spec_blob c) = Ok (spec_tail c) /\
             kc_covered (flip_bit (spec_blob c) i) = Ok m' /\
             ((sha256 m' = sha256 (spec_tail c) /\ m' <> spec_tail c) \/ infix (sha256 m') m').
Proof. exact tamper. Qed.
Print Assumptions C14_tamper.

(* A flipped bit in the stored hash value itself is refused unconditionally. *)
Theorem C14_tamper_hash : forall now c i,
  cred_ok c -> fits c ->
  8 * hash_offset <= i < 8 * covered_offset ->
  kc_verify now (flip_bit (spec_blob c) i) = Ok false.
Proof. exact tamper_hash. Qed.
Print Assumptions C14_tamper_hash.

(* The DN-with-binary string form B:<count>:<hex>:<dn> round-trips the distinguished name and the blob for
   EVERY distinguished name (any bytes, colons included) and every binary value (shorter than 2^62 bytes, so
   that the character count fits Go's int), and is the MS-ADTS form. *)
Theorem C14_dn_roundtrip : forall dn bin,
  wf_bytes bin -> lenN bin < 2 ^ 62 ->
  dn_to_string dn bin = spec_dn_string dn bin /\ dn_parse (dn_to_string dn bin) = Ok (dn, bin).
Proof. intros dn bin H1 H2. split; [apply dn_to_string_spec | now apply dn_roundtrip]. Qed.
Print Assumptions C14_dn_roundtrip.

(* BCRYPT_RSAKEY_BLOB on its own: all key sizes, exponents, moduli and primes (lengths below 2^32). *)
Theorem C14_rsa_roundtrip : forall r, rsa_ok r -> rsa_from_bytes (rsa_to_bytes r) = Ok r.
Proof. exact rsa_roundtrip. Qed.
Print Assumptions C14_rsa_roundtrip.

(* Key identifiers: hexadecimal for versions 0 and 0x100 (every byte string), base 64 otherwise (the code
   re-pads with a single '=', which is right exactly when the length is 2 modulo 3 — SHA-256 digests are). *)
Theorem C14_identifier_roundtrip : forall b v,
  wf_bytes b -> (is_hex_version v = true \/ (length b mod 3 = 2)%nat) ->
  id_to_binary (id_from_binary b v) v = Ok b.
Proof. exact id_roundtrip. Qed.
Print Assumptions C14_identifier_roundtrip.

(* Totality: no input makes a decoding entry point panic (reused by C07). *)
Theorem C14_total_ver_from_bytes : forall b, ver_from_bytes b <> Panic.
Proof. exact ver_from_bytes_total. Qed.
Print Assumptions C14_total_ver_from_bytes.
Theorem C14_total_rsa_from_bytes : forall b, rsa_from_bytes b <> Panic.
Proof. exact rsa_from_bytes_total. Qed.
Print Assumptions C14_total_rsa_from_bytes.
Theorem C14_total_cki_from_bytes : forall c b, cki_from_bytes c b <> Panic.
Proof. exact cki_from_bytes_total. Qed.
Print Assumptions C14_total_cki_from_bytes.
Theorem C14_total_id_to_binary : forall s v, id_to_binary s v <> Panic.
Proof. exact id_to_binary_total. Qed.
Print Assumptions C14_total_id_to_binary.
Theorem C14_total_kc_from_bytes : forall now k0 b, kc_from_bytes now k0 b <> Panic.
Proof. exact kc_from_bytes_total. Qed.
Print Assumptions C14_total_kc_from_bytes.
Theorem C14_total_kc_parse_dn : forall now k0 dn b, kc_parse_dn now k0 dn b <> Panic.
Proof. intros now k0 dn b. apply kc_from_bytes_total. Qed.
Print Assumptions C14_total_kc_parse_dn.
Theorem C14_total_kc_to_bytes : forall k, kc_to_bytes k <> Panic.
Proof. exact kc_to_bytes_total. Qed.
Print Assumptions C14_total_kc_to_bytes.
Theorem C14_total_compute_key_hash : forall k, compute_key_hash k <> Panic.
Proof. exact compute_key_hash_total. Qed.
Print Assumptions C14_total_compute_key_hash.
Theorem C14_total_check_integrity : forall k, check_integrity k <> Panic.
Proof. exact check_integrity_total. Qed.
Print Assumptions C14_total_check_integrity.
Theorem C14_total_kc_verify : forall now b, kc_verify now b <> Panic.
Proof. exact kc_verify_total. Qed.
Print Assumptions C14_total_kc_verify.
Theorem C14_total_dn_parse : forall b, dn_parse b <> Panic.
Proof. exact dn_parse_total. Qed.
Print Assumptions C14_total_dn_parse.

(* Non-vacuity: a concrete credential meets the hypotheses, and the statements compute on it. *)
Definition ex_cred : cred :=
  mkCred 512 64 65537 [193; 2; 3; 4; 5; 6; 7; 9] [] [] (mkGuid 0x01020304 0x0506 0x0708 0x090a 0x0b0c0d0e0f10)
         133500000000000000 133500000012345678.

Example C14_hypotheses_satisfiable : cred_ok ex_cred /\ fits ex_cred.
Proof.
  unfold cred_ok, fits, guid_wf, ex_cred. cbn [sVersion sKeySize sExponent sModulus sPrime1 sPrime2 sDevice sLastLogon sCreation gA gB gC gD gE].
  repeat split; try (vm_compute; reflexivity); try lia; try (repeat constructor; vm_compute; reflexivity).
  vm_compute. discriminate.
Qed.

Example C14_roundtrip_example :
  (let* k := kc_build (1, 1)%Z ex_cred in kc_to_bytes k) = Ok (spec_blob ex_cred) /\
  kc_verify (1, 1)%Z (spec_blob ex_cred) = Ok true /\
  lenN (spec_blob ex_cred) = 167.
Proof. vm_compute. repeat split; reflexivity. Qed.

(* bit 1 of byte 74 (the low byte of the key-material entry length) and bit 1 of byte 80 (the 'A' of "RSA1"):
   inside the covered region; bit 3 of byte 50: inside the stored hash *)
Example C14_tamper_example :
  8 * covered_offset <= 593 < 8 * lenN (spec_blob ex_cred) /\
  kc_verify (1, 1)%Z (flip_bit (spec_blob ex_cred) 593) = Err /\
  kc_verify (1, 1)%Z (flip_bit (spec_blob ex_cred) 641) = Ok false /\
  8 * hash_offset <= 403 < 8 * covered_offset /\
  kc_verify (1, 1)%Z (flip_bit (spec_blob ex_cred) 403) = Ok false.
Proof. vm_compute. repeat split; try reflexivity; discriminate. Qed.

Example C14_dn_example :
  dn_parse (dn_to_string [67; 78; 61; 97; 58; 98] [1; 171]) = Ok ([67; 78; 61; 97; 58; 98], [1; 171]) /\
  dn_to_string [67; 78; 61; 97; 58; 98] [1; 171] = [66; 58; 52; 58; 48; 49; 97; 98; 58; 67; 78; 61; 97; 58; 98].
Proof. vm_compute. split; reflexivity. Qed.
