(* C19 — Flag words decompose faithfully and every named constant has a unique name.
   Statements only. The tables (Gen/Tables.v, Gen/TablesNt.v) are regenerated from the Go source
   on every run; the generic theorems are in Proofs/C19Proofs.v and quantify over EVERY word w
   (unbounded N, hence all 8/16/32-bit words); the per-table side conditions are finite
   computations in Proofs/C19Tables.v. *)
From Coq Require Import List NArith ZArith String Bool Sorting.Permutation.
From Mant Require Import Model.Flags Spec.C19 Proofs.C19Proofs Proofs.C19Tables Gen.Tables Gen.TablesNt.
Import ListNotations.
Open Scope string_scope.

(* ---- generic: a table whose rows each test one bit decomposes every word faithfully ---- *)
Theorem C19_decompose_exact : forall t, table_ok_weak t = true -> faithful t.
Proof. exact faithful_of_ok. Qed.
Print Assumptions C19_decompose_exact.

Theorem C19_pred_own_bit : forall p, pred_ok p = true -> forall w w',
  N.testbit w (N.log2 (pe_mask p)) = N.testbit w' (N.log2 (pe_mask p)) -> pred_holds p w = pred_holds p w'.
Proof. exact pred_own_bit. Qed.
Print Assumptions C19_pred_own_bit.

(* ---- flag words of the source, as they are today ---- *)
Theorem C19_flags : faithful chain_flags_Flags_String.
Proof. exact (faithful_of_ok _ (table_weak_of_ok _ ok_flags)). Qed.
Print Assumptions C19_flags.

Theorem C19_flags2 : faithful chain_flags2_Flags2_String.
Proof. exact (faithful_of_ok _ (table_weak_of_ok _ ok_flags2)). Qed.
Print Assumptions C19_flags2.

Theorem C19_capabilities : faithful chain_capabilities_Capabilities_String.
Proof. exact (faithful_of_ok _ (table_weak_of_ok _ ok_capabilities)). Qed.
Print Assumptions C19_capabilities.

Theorem C19_keycredential_flags : faithful chain_key_CustomKeyInformationFlags_FromBytes.
Proof. exact (faithful_of_ok _ ok_ckiflags). Qed.
Print Assumptions C19_keycredential_flags.

(* userAccountControl: the map-driven loop followed by sort.Strings reports exactly the named set
   bits (faithful), as a sorted permutation of them (deterministic order). *)
Theorem C19_uac : faithful (chain_of_map map_ldap_attributes_UserAccountControlMap) /\
  (forall w, map_decompose map_ldap_attributes_UserAccountControlMap w
             = decompose (chain_of_map map_ldap_attributes_UserAccountControlMap) w) /\
  (forall l, Permutation (sort_strings l) l /\ sortedb (sort_strings l) = true).
Proof.
  exact (conj (faithful_of_ok _ (table_weak_of_ok _ ok_uac))
          (conj (map_decompose_chain _) (fun l => conj (sort_perm l) (sort_sorted l)))).
Qed.
Print Assumptions C19_uac.

(* every flag constant of the package is named by its chain, and the literal names its identifier
   (table_ok includes ident_names) *)
Theorem C19_chains_cover :
  chain_covers consts_flags chain_flags_Flags_String = true /\
  chain_covers consts_flags2 chain_flags2_Flags2_String = true /\
  chain_covers (consts_of "Capabilities" consts_capabilities) chain_capabilities_Capabilities_String = true.
Proof. exact (conj cover_flags (conj cover_flags2 cover_capabilities)). Qed.

(* predicates on flag words depend only on their own bit, and are exactly that bit (or its negation) *)
Theorem C19_preds_flags : preds_own_bit preds_flags /\ preds_are_bits preds_flags.
Proof. exact (conj (preds_own_bit_of_ok _ ok_preds_flags) (preds_are_bits_of_ok _ ok_preds_flags)). Qed.
Print Assumptions C19_preds_flags.
Theorem C19_preds_flags2 : preds_own_bit preds_flags2 /\ preds_are_bits preds_flags2.
Proof. exact (conj (preds_own_bit_of_ok _ ok_preds_flags2) (preds_are_bits_of_ok _ ok_preds_flags2)). Qed.
Print Assumptions C19_preds_flags2.
Theorem C19_preds_securitymode : preds_own_bit preds_securitymode /\ preds_are_bits preds_securitymode.
Proof. exact (conj (preds_own_bit_of_ok _ ok_preds_securitymode) (preds_are_bits_of_ok _ ok_preds_securitymode)). Qed.
Print Assumptions C19_preds_securitymode.
Theorem C19_preds_distinct_bits :
  preds_cover consts_flags preds_flags = true /\ preds_cover consts_flags2 preds_flags2 = true /\
  preds_cover consts_securitymode preds_securitymode = true.
Proof. exact (conj cover_preds_flags (conj cover_preds_flags2 cover_preds_securitymode)). Qed.

(* ---- named constants ---- *)
Theorem C19_command_codes : named (consts_of "CommandCode" consts_codes) map_codes_CommandCodeNames.
Proof. exact (named_of_ok _ _ names_codes complete_codes). Qed.
Print Assumptions C19_command_codes.
Theorem C19_nt_transact_subcommands :
  named (consts_of "NtTransactSubcommand" consts_subcommands) map_subcommands_NtTransactSubcommandsToString.
Proof. exact (named_of_ok _ _ names_nttrans complete_nttrans). Qed.
Theorem C19_transaction2_subcommands :
  named (consts_of "Transaction2Subcommand" consts_subcommands) map_subcommands_Transaction2SubcommandsToString.
Proof. exact (named_of_ok _ _ names_trans2 complete_trans2). Qed.
Theorem C19_transaction_subcommands :
  named (consts_of "TransactionSubcommand" consts_subcommands) map_subcommands_TransactionSubcommandsToString.
Proof. exact (named_of_ok _ _ names_trans complete_trans). Qed.
Theorem C19_session_types : named (consts_of "SESSION_MESSAGE_TYPE" consts_netbios) map_netbios_SessionMessageTypeToString.
Proof. exact (named_of_ok _ _ names_session complete_session). Qed.
Theorem C19_sam_account_types : named (consts_of "SAMAccountType" L) map_ldap_attributes_SAMAccountTypeMap.
Proof. exact (named_of_ok _ _ names_sam complete_sam). Qed.
Theorem C19_mspki_enrollment_flags : named (consts_of "MSPKIEnrollmentFlag" L) map_ldap_attributes_MSPKIEnrollmentFlagMap.
Proof. exact (named_of_ok _ _ names_mspki complete_mspki). Qed.
Theorem C19_password_properties : named (consts_of "PasswordProperties" L) map_ldap_attributes_PasswordPropertiesMap.
Proof. exact (named_of_ok _ _ names_pwd complete_pwd). Qed.
Theorem C19_domain_functionality_levels :
  named (consts_of "DomainFunctionalityLevel" L) map_ldap_attributes_DomainFunctionalityLevelToWindowsVersion.
Proof. exact (named_of_ok _ _ names_dfl complete_dfl). Qed.
Theorem C19_nt_status_names : named (consts_of "NT_STATUS" consts_nt_status) map_nt_status_NTStatusToStringName.
Proof. exact (named_of_ok _ _ names_nt complete_nt). Qed.
Print Assumptions C19_nt_status_names.

(* every declared non-success NT status has an error row (hence a non-nil error whose text is built
   by the single format "NT_STATUS(0x%08x): %s" — the format itself is observed by the harness) *)
Theorem C19_nt_error : forall c, In c (consts_of "NT_STATUS" consts_nt_status) -> co_val c <> 0%Z ->
  exists n, lookup map_nt_status_NTStatusToGoErrorMap (co_val c) = Some n.
Proof. exact (errors_complete_lookup _ _ errors_nt). Qed.
Print Assumptions C19_nt_error.

(* names are the identifiers they stand for (literal = identifier minus its prefix), rows are keyed
   by declared constants: a row swapped with another row's literal breaks these *)
Theorem C19_names_are_identifiers :
  names_match_idents map_codes_CommandCodeNames && rows_declared consts_codes map_codes_CommandCodeNames = true /\
  names_match_idents map_netbios_SessionMessageTypeToString && rows_declared consts_netbios map_netbios_SessionMessageTypeToString = true /\
  names_match_idents map_nt_status_NTStatusToStringName && rows_declared consts_nt_status map_nt_status_NTStatusToStringName = true.
Proof. exact (conj idents_codes (conj idents_session idents_nt)). Qed.

Theorem C19_key_credential_enums :
  switch_ok consts_key switch_key_CustomKeyInformationVolumeType_String &&
  switch_ok consts_key switch_key_KeyCredentialEntryType_String &&
  switch_ok consts_key switch_key_KeyCredentialVersion_String &&
  switch_ok consts_key switch_key_KeySource_String &&
  switch_ok consts_key switch_key_KeyUsage_String = true.
Proof. exact ok_switch_key. Qed.

(* Non-vacuity: the tables are not empty and the decomposition computes. *)
Example C19_example_flags :
  decompose chain_flags_Flags_String 0x98 = ["CASE_INSENSITIVE"; "CANONICALIZED_PATHS"; "REPLY"]
  \/ decompose chain_flags_Flags_String 0x98 = ["CANONICALIZED_PATHS"; "CASE_INSENSITIVE"; "REPLY"].
Proof. right. vm_compute. reflexivity. Qed.
Example C19_example_sizes :
  (List.length map_nt_status_NTStatusToStringName >= 1000)%nat /\ (List.length map_codes_CommandCodeNames >= 70)%nat.
Proof. vm_compute. split; repeat constructor. Qed.
