(* C15 — Windows time and duration conversions are exact, inverse and overflow-free.
   Statements only; proofs are in Proofs/C15Proofs.v.

   Reading guide.  `*_go` (Model/WinTime.v) is the Go code with every 64-bit wrap-around where Go
   has one; Spec/C15.v is the same arithmetic in unbounded Z with floor division:
     ticks_of_time epoch (sec, nsec) = (sec * 10^9 + nsec) / 100 + epoch
     time_of_ticks epoch n           = (((n - epoch) * 100) / 10^9, ((n - epoch) * 100) mod 10^9)
   and the epochs are computed from the Gregorian calendar (1601-01-01, 1582-10-15), not copied.
   Each `_exact` theorem holds on the WHOLE domain in which the exact result fits the result type
   (stated by in_i64 / in_u64, never by a narrower range), the never sentinels included. *)
From Coq Require Import List NArith ZArith Lia.
From Mant Require Import Prim.R Prim.Bytes Prim.Dec Model.WinTime Spec.C15 Proofs.C15Proofs.
Import ListNotations.
Open Scope Z_scope.

(* The epoch constants of the four source files (regenerated from the source on every run) are
   the tick counts the calendar gives. *)
Theorem C15_epochs :
  filetime_epoch = filetime_epoch_spec /\ ldap_epoch = filetime_epoch_spec /\
  - fst date_1601 * 10 ^ 7 = filetime_epoch_spec /\
  uuidv1_epoch = uuid_epoch_spec /\ uuidv2_epoch = uuid_epoch_spec.
Proof.
  exact (conj filetime_epoch_ok (conj ldap_epoch_ok (conj datetime_epoch_ok (conj uuidv1_epoch_ok uuidv2_epoch_ok)))).
Qed.
Print Assumptions C15_epochs.

(* ================================================================== FILETIME *)

(* NewFILETIMEFromTime: for EVERY Go time the two stored halves spell the exact tick count modulo
   2^64; whenever the exact count fits a signed 64-bit integer, ToInt64 returns exactly it. *)
Theorem C15_filetime_from_time_exact : forall t,
  valid_time t ->
  let ft := filetime_from_time_go t in
  let T := filetime_of_time_exact t in
  in_u32 (fst ft) /\ in_u32 (snd ft) /\
  fst ft + 2 ^ 32 * snd ft = T mod 2 ^ 64 /\
  (in_i64 T -> filetime_to_int64_go ft = T /\ filetime_value (fst ft) (snd ft) = T).
Proof. exact filetime_from_time_exact. Qed.
Print Assumptions C15_filetime_from_time_exact.

(* The property's time domain — every instant from 1601-01-01 to the last instant of the year-30828
   range (0x7FFFFFFFFFFFFFFF ticks) — lies inside the representable domain of the theorem above. *)
Theorem C15_filetime_domain_1601_30828 : forall t,
  valid_time t ->
  days_from_civil 1601 1 1 * 86400 <= fst t ->
  fst t * 10 ^ 9 + snd t <= (days_from_civil 30828 9 14 * 86400 + 2 * 3600 + 48 * 60 + 5) * 10 ^ 9 + 477580799 ->
  0 <= filetime_of_time_exact t < 2 ^ 63.
Proof. exact years_1601_30828_representable. Qed.
Print Assumptions C15_filetime_domain_1601_30828.

(* ToInt64: all 2^64 FILETIME values. *)
Theorem C15_filetime_to_int64_exact : forall lo hi,
  in_u32 lo -> in_u32 hi -> filetime_to_int64_go (lo, hi) = filetime_value lo hi.
Proof. exact filetime_to_int64_spec. Qed.
Print Assumptions C15_filetime_to_int64_exact.

(* GetTime / GetUnixTimestamp: all 2^64 FILETIME values (every one has a representable time). *)
Theorem C15_filetime_get_time_exact : forall lo hi,
  in_u32 lo -> in_u32 hi ->
  filetime_get_time_go (lo, hi) = time_of_filetime_exact (filetime_value lo hi).
Proof. exact filetime_get_time_exact. Qed.
Print Assumptions C15_filetime_get_time_exact.

Theorem C15_filetime_unix_timestamp_exact : forall lo hi,
  in_u32 lo -> in_u32 hi ->
  filetime_get_unix_timestamp_go (lo, hi) = fst (time_of_filetime_exact (filetime_value lo hi)).
Proof. exact filetime_unix_timestamp_exact. Qed.
Print Assumptions C15_filetime_unix_timestamp_exact.

(* ticks -> time -> ticks is the identity on all 2^64 values *)
Theorem C15_filetime_inverse_ticks : forall lo hi,
  in_u32 lo -> in_u32 hi -> filetime_from_time_go (filetime_get_time_go (lo, hi)) = (lo, hi).
Proof. exact filetime_inverse_ticks. Qed.
Print Assumptions C15_filetime_inverse_ticks.

(* time -> ticks -> time rounds the instant down to a tick, on the whole representable domain *)
Theorem C15_filetime_inverse_time : forall t,
  valid_time t -> in_i64 (filetime_of_time_exact t) ->
  filetime_get_time_go (filetime_from_time_go t) = floor_tick t.
Proof. exact filetime_inverse_time. Qed.
Print Assumptions C15_filetime_inverse_time.

(* the 8-byte wire form: Unmarshal after Marshal, any trailing bytes *)
Theorem C15_filetime_binary_inverse : forall lo hi rest,
  in_u32 lo -> in_u32 hi ->
  filetime_unmarshal (filetime_marshal (lo, hi) ++ rest) = Ok (8, (lo, hi)).
Proof. exact filetime_unmarshal_marshal. Qed.
Print Assumptions C15_filetime_binary_inverse.

Theorem C15_filetime_marshal_exact : forall lo hi,
  in_u32 lo -> in_u32 hi ->
  Z.of_N (le_val (filetime_marshal (lo, hi))) = lo + 2 ^ 32 * hi /\ length (filetime_marshal (lo, hi)) = 8%nat.
Proof. exact filetime_marshal_value. Qed.
Print Assumptions C15_filetime_marshal_exact.

Theorem C15_total_filetime_unmarshal : forall data, filetime_unmarshal data <> Panic.
Proof. exact filetime_unmarshal_total. Qed.
Print Assumptions C15_total_filetime_unmarshal.

Theorem C15_filetime_unmarshal_short : forall data, (lenN data < 8)%N -> filetime_unmarshal data = Err.
Proof. exact filetime_unmarshal_short. Qed.
Print Assumptions C15_filetime_unmarshal_short.

(* ================================================================== LDAP timestamps / durations *)

(* The canonical decimal string of every integer is one of the accepted spellings (so the
   theorems below cover "all 64-bit tick values and decimal strings thereof"). *)
Theorem C15_decimal_strings : forall v, decimal_of (print_decZ v) v.
Proof. exact decimal_of_print. Qed.
Print Assumptions C15_decimal_strings.

(* ConvertLDAPTimeStampToUnixTimeStamp: every spelling (sign, leading zeros) of every int64 tick
   count, 0x7FFFFFFFFFFFFFFF included; instants before 1970 give 0 as documented. *)
Theorem C15_ldap_timestamp_exact : forall s v,
  decimal_of s v -> in_i64 v ->
  ldap_timestamp_to_unix_go s = Ok (ldap_timestamp_to_unix_exact v).
Proof. exact ldap_timestamp_exact. Qed.
Print Assumptions C15_ldap_timestamp_exact.

(* decimal strings beyond int64 are not LDAP large integers: reported as 0, as documented *)
Theorem C15_ldap_timestamp_out_of_range : forall s v,
  decimal_of s v -> ~ in_i64 v -> ldap_timestamp_to_unix_go s = Ok 0.
Proof. exact ldap_timestamp_out_of_range. Qed.
Print Assumptions C15_ldap_timestamp_out_of_range.

Theorem C15_total_ldap_timestamp : forall s, ldap_timestamp_to_unix_go s <> Panic.
Proof. exact ldap_timestamp_no_panic. Qed.
Print Assumptions C15_total_ldap_timestamp.

(* ConvertUnixTimeStampToLDAPTimeStamp: the timestamp of the instant's whole second, whenever it
   fits an int64 (that is up to the year 30828). *)
Theorem C15_ldap_unix_to_timestamp_exact : forall t,
  in_i64 (ldap_unix_to_timestamp_exact t) ->
  ldap_unix_to_timestamp_go t = ldap_unix_to_timestamp_exact t.
Proof. exact ldap_unix_to_timestamp_exact_thm. Qed.
Print Assumptions C15_ldap_unix_to_timestamp_exact.

Theorem C15_ldap_timestamp_inverse_unix : forall t,
  in_i64 (ldap_unix_to_timestamp_exact t) ->
  ldap_timestamp_to_unix_go (print_decZ (ldap_unix_to_timestamp_go t)) = Ok (if fst t <? 0 then 0 else fst t).
Proof. exact ldap_timestamp_inverse_unix. Qed.
Print Assumptions C15_ldap_timestamp_inverse_unix.

Theorem C15_ldap_timestamp_inverse_ticks : forall v,
  in_i64 v -> filetime_epoch_spec <= v ->
  exists u, ldap_timestamp_to_unix_go (print_decZ v) = Ok u /\
            ldap_unix_to_timestamp_go (u, 0) = v - v mod 10 ^ 7.
Proof. exact ldap_timestamp_inverse_ticks. Qed.
Print Assumptions C15_ldap_timestamp_inverse_ticks.

(* ConvertLDAPDurationToSeconds: |v| / 10^7 for every spelling of every int64, including the never
   sentinel -0x8000000000000000 whose absolute value does not fit an int64. *)
Theorem C15_ldap_duration_exact : forall s v,
  decimal_of s v -> in_i64 v ->
  ldap_duration_to_seconds_go s = Ok (ldap_duration_to_seconds_exact v).
Proof. exact ldap_duration_exact. Qed.
Print Assumptions C15_ldap_duration_exact.

Theorem C15_ldap_duration_out_of_range : forall s v,
  decimal_of s v -> ~ in_i64 v -> ldap_duration_to_seconds_go s = Ok 0.
Proof. exact ldap_duration_out_of_range. Qed.
Print Assumptions C15_ldap_duration_out_of_range.

Theorem C15_total_ldap_duration : forall s, ldap_duration_to_seconds_go s <> Panic.
Proof. exact ldap_duration_no_panic. Qed.
Print Assumptions C15_total_ldap_duration.

(* ConvertSecondsToLDAPDuration: every int64 (indeed every integer): the decimal string of the
   exact product, which is a decimal spelling of s * 10^7. *)
Theorem C15_ldap_seconds_to_duration_exact : forall s,
  ldap_seconds_to_duration_go s = ldap_seconds_to_duration_exact s /\
  decimal_of (ldap_seconds_to_duration_go s) (s * 10 ^ 7).
Proof. exact ldap_seconds_to_duration_exact_thm. Qed.
Print Assumptions C15_ldap_seconds_to_duration_exact.

(* seconds -> duration -> seconds, directly and through the negated interval AD stores, whenever
   the interval is a representable large integer *)
Theorem C15_ldap_duration_inverse : forall s,
  in_i64 (s * 10 ^ 7) ->
  ldap_duration_to_seconds_go (ldap_seconds_to_duration_go s) = Ok (Z.abs s) /\
  ldap_duration_to_seconds_go (print_decZ (- (Z.abs s * 10 ^ 7))) = Ok (Z.abs s).
Proof. exact ldap_duration_inverse. Qed.
Print Assumptions C15_ldap_duration_inverse.

(* ================================================================== key credential DateTime *)

(* NewDateTime / ToTicks: every non-zero uint64 tick count (0 means "now") *)
Theorem C15_datetime_exact : forall now ticks,
  0 < ticks < 2 ^ 64 -> new_datetime_go now ticks = (ticks, datetime_time_exact ticks).
Proof. exact new_datetime_exact. Qed.
Print Assumptions C15_datetime_exact.

(* NewDateTime(0): exact for a clock between 1677-09-21 and 2185-07-21 (this branch still sums
   nanoseconds in a uint64; the clock is not an input of the property's quantifier) *)
Theorem C15_datetime_now_partial : forall now,
  valid_time now ->
  - 2 ^ 63 <= fst now * 10 ^ 9 + snd now < 2 ^ 64 - 11644473600 * 10 ^ 9 ->
  new_datetime_go now 0 = (ticks_of_time filetime_epoch_spec now, now).
Proof. exact new_datetime_now. Qed.
Print Assumptions C15_datetime_now_partial.

(* ConvertFromBinaryTime: the 8 little-endian bytes of every non-zero tick count, any source,
   any version, any trailing bytes *)
Theorem C15_from_binary_time_exact : forall now ticks rest source version,
  0 < ticks < 2 ^ 64 ->
  convert_from_binary_time_go now (le64 (Z.to_N ticks) ++ rest) source version
  = Ok (ticks, datetime_time_exact ticks).
Proof. exact convert_from_binary_time_exact. Qed.
Print Assumptions C15_from_binary_time_exact.

Theorem C15_total_from_binary_time : forall now raw source version,
  convert_from_binary_time_go now raw source version <> Panic.
Proof. exact convert_from_binary_time_total. Qed.
Print Assumptions C15_total_from_binary_time.

Theorem C15_from_binary_time_short : forall now raw source version,
  (lenN raw < 8)%N -> convert_from_binary_time_go now raw source version = Ok zero_datetime.
Proof. exact convert_from_binary_time_short. Qed.
Print Assumptions C15_from_binary_time_short.

(* DateTime -> ToTicks / ToBytes -> ConvertFromBinaryTime *)
Theorem C15_datetime_bytes_inverse : forall now ticks source version,
  0 < ticks < 2 ^ 64 ->
  let dt := new_datetime_go now ticks in
  datetime_to_ticks dt = ticks /\
  convert_from_binary_time_go now (datetime_to_bytes dt) source version = Ok dt.
Proof. exact datetime_bytes_inverse. Qed.
Print Assumptions C15_datetime_bytes_inverse.

(* ConvertToBinaryTime: the exact tick count whenever it fits the 8 bytes *)
Theorem C15_to_binary_time_exact : forall t source version,
  valid_time t -> in_u64 (ticks_of_time filetime_epoch_spec t) ->
  convert_to_binary_time_go t source version = le64 (Z.to_N (ticks_of_time filetime_epoch_spec t)).
Proof. exact convert_to_binary_time_exact. Qed.
Print Assumptions C15_to_binary_time_exact.

Theorem C15_to_binary_time_inverse : forall now ticks source version,
  0 < ticks < 2 ^ 64 ->
  convert_to_binary_time_go (snd (new_datetime_go now ticks)) source version = le64 (Z.to_N ticks).
Proof. exact convert_to_binary_time_inverse. Qed.
Print Assumptions C15_to_binary_time_inverse.

Theorem C15_binary_time_inverse : forall now t source version,
  valid_time t -> 0 < ticks_of_time filetime_epoch_spec t < 2 ^ 64 ->
  convert_from_binary_time_go now (convert_to_binary_time_go t source version) source version
  = Ok (ticks_of_time filetime_epoch_spec t, floor_tick t).
Proof. exact convert_binary_time_inverse. Qed.
Print Assumptions C15_binary_time_inverse.

(* ================================================================== UUID v1 / v2 timestamps *)

(* GetTime: every uint64 value of the Time field (a parsed UUID carries 60 bits) *)
Theorem C15_uuid_time_exact : forall ts,
  in_u64 ts -> uuidv1_get_time_go ts = uuid_time_exact ts /\ uuidv2_get_time_go ts = uuid_time_exact ts.
Proof. exact uuid_time_exact_thm. Qed.
Print Assumptions C15_uuid_time_exact.

(* SetTime: every Go time whose exact 1582-based tick count fits the uint64 field *)
Theorem C15_uuid_set_time_exact : forall t,
  valid_time t -> in_u64 (uuid_of_time_exact t) ->
  uuidv1_set_time_go t = uuid_of_time_exact t /\ uuidv2_set_time_go t = uuid_of_time_exact t.
Proof. exact uuid_set_time_exact_thm. Qed.
Print Assumptions C15_uuid_set_time_exact.

Theorem C15_uuid_time_inverse_ticks : forall ts,
  in_u64 ts ->
  uuidv1_set_time_go (uuidv1_get_time_go ts) = ts /\ uuidv2_set_time_go (uuidv2_get_time_go ts) = ts.
Proof. exact uuid_time_inverse_ticks. Qed.
Print Assumptions C15_uuid_time_inverse_ticks.

Theorem C15_uuid_time_inverse_time : forall t,
  valid_time t -> in_u64 (uuid_of_time_exact t) ->
  uuidv1_get_time_go (uuidv1_set_time_go t) = floor_tick t /\
  uuidv2_get_time_go (uuidv2_set_time_go t) = floor_tick t.
Proof. exact uuid_time_inverse_time. Qed.
Print Assumptions C15_uuid_time_inverse_time.

(* ================================================================== non-vacuity and the boundary corpus *)

(* The never sentinel 0x7FFFFFFFFFFFFFFF: 30828-09-14T02:48:05.4775807Z (before the repair the
   code answered unix 6802270473, the year 2185). *)
Example C15_never_max_filetime :
  in_u32 4294967295 /\ in_u32 2147483647 /\ filetime_value 4294967295 2147483647 = never_max /\
  filetime_get_time_go (4294967295, 2147483647) = (910692730085, 477580700) /\
  filetime_from_time_go (910692730085, 477580700) = (4294967295, 2147483647).
Proof. vm_compute. repeat split; congruence. Qed.

(* The sentinel -0x8000000000000000 as a FILETIME bit pattern *)
Example C15_never_min_filetime :
  filetime_value 0 2147483648 = never_min /\
  filetime_get_time_go (0, 2147483648) = (-933981677286, 522419200) /\
  filetime_from_time_go (-933981677286, 522419200) = (0, 2147483648).
Proof. vm_compute. repeat split; congruence. Qed.

(* "9223372036854775807" as an LDAP timestamp, "-9223372036854775808" as an LDAP duration *)
Example C15_never_ldap :
  ldap_timestamp_to_unix_go [57; 50; 50; 51; 51; 55; 50; 48; 51; 54; 56; 53; 52; 55; 55; 53; 56; 48; 55]%N = Ok 910692730085 /\
  ldap_duration_to_seconds_go [45; 57; 50; 50; 51; 51; 55; 50; 48; 51; 54; 56; 53; 52; 55; 55; 53; 56; 48; 56]%N = Ok 922337203685 /\
  decimal_of [45; 57; 50; 50; 51; 51; 55; 50; 48; 51; 54; 56; 53; 52; 55; 55; 53; 56; 48; 56]%N never_min /\ in_i64 never_min /\
  ldap_timestamp_to_unix_go [43; 48; 49; 49; 54; 52; 52; 52; 55; 51; 54; 48; 49; 48; 48; 48; 48; 48; 48; 48]%N = Ok 1.
Proof.
  repeat split; try (vm_compute; congruence).
  exists [57; 50; 50; 51; 51; 55; 50; 48; 51; 54; 56; 53; 52; 55; 55; 53; 56; 48; 56]%N.
  repeat split; [discriminate|]. right. right. split; reflexivity.
Qed.

(* The epochs and the int64-nanosecond limits (years 1601, 1677, 1970, 2262) and the year 2300,
   which the unrepaired code confused with 1715. *)
Example C15_boundaries :
  filetime_from_time_go (-11644473600, 0) = (0, 0) /\
  filetime_get_time_go (0, 0) = (-11644473600, 0) /\
  filetime_to_int64_go (filetime_from_time_go (0, 0)) = 116444736000000000 /\
  filetime_to_int64_go (filetime_from_time_go (-9223372037, 0)) = 24211015630000000 /\
  filetime_to_int64_go (filetime_from_time_go (9223372037, 0)) = 208678456370000000 /\
  filetime_to_int64_go (filetime_from_time_go (days_from_civil 2300 1 1 * 86400, 0)) = 220582656000000000 /\
  filetime_get_time_go (filetime_from_time_go (days_from_civil 2300 1 1 * 86400, 999999999))
    = (days_from_civil 2300 1 1 * 86400, 999999900) /\
  filetime_to_int64_go (filetime_from_time_go (-1, 1)) = 116444735990000000 /\
  uuidv1_get_time_go 0 = (days_from_civil 1582 10 15 * 86400, 0) /\
  uuidv2_set_time_go (days_from_civil 5236 3 31 * 86400, 0) = 1152920736000000000 /\
  snd (new_datetime_go (0, 0) 1) = (-11644473600, 100) /\
  snd (new_datetime_go (0, 0) 18446744073709551615) = (1833029933770, 955161500) /\
  ldap_seconds_to_duration_go 922337203686 = print_decZ 9223372036860000000 /\
  ldap_unix_to_timestamp_go (910692730085, 5) = 9223372036850000000.
Proof. vm_compute. repeat split; congruence. Qed.

(* hypotheses of the theorems are satisfiable: an ordinary instant and an ordinary tick count *)
Example C15_hypotheses_satisfiable :
  valid_time (1314480109, 781250000) /\ in_i64 (filetime_of_time_exact (1314480109, 781250000)) /\
  in_u64 (uuid_of_time_exact (1314480109, 781250000)) /\
  in_i64 (ldap_unix_to_timestamp_exact (1314480109, 781250000)) /\
  in_i64 (86400 * 10 ^ 7) /\ 0 < 129589537097812500 < 2 ^ 64 /\
  filetime_epoch_spec <= 129589537097812500 /\
  - 2 ^ 63 <= 1314480109 * 10 ^ 9 + 781250000 < 2 ^ 64 - 11644473600 * 10 ^ 9.
Proof. vm_compute. repeat split; congruence. Qed.
