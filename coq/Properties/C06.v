(* C06 — SMB wire data types round-trip and consume exactly their own encoding.
   Each type decodes its own encoding back to equal field values and reports exactly the number of
   bytes that encoding occupies, also when the encoding is followed by unrelated trailing bytes.
   Statements only; proofs are in Proofs/C06*.v.  Models: Model/SmbTypes.v, Model/SmbBlocks.v
   (after the fix: commits, see props/C06.fixed.txt). *)
From Coq Require Import List NArith Lia Bool.
From Mant Require Import Prim.R Prim.Bytes Gen.ConstsC06 Model.SmbTypes Model.SmbBlocks Spec.C06
  Proofs.C06Layout Proofs.C06Fixed Proofs.C06Strings Proofs.C06DirInfo Proofs.C06Blocks Proofs.C06Proofs.
Import ListNotations.
Open Scope N_scope.

(* ------------------------------------------------------------------ *)
(* Strings                                                             *)

(* SMB_STRING, all five buffer formats, 0..65535 bytes (no embedded NUL in the NUL-terminated formats
   0x02/0x04), any trailing bytes.  Marshal leaves the struct unchanged ([s] already states its length). *)
Theorem C06_string : forall s suffix, dom_string s ->
  exists bs, smb_string_marshal s = Ok (bs, s) /\ smb_string_unmarshal (bs ++ suffix) = Ok (s, lenN bs).
Proof. exact string_roundtrip. Qed.
Print Assumptions C06_string.

(* the same with the encoding spelled out (format byte, LE16 length for 1/3/5, bytes, NUL for 2/3/4) *)
Theorem C06_string_encoding : forall s suffix, dom_string s ->
  smb_string_marshal s = Ok (ref_string_bytes s, s) /\
  smb_string_unmarshal (ref_string_bytes s ++ suffix) = Ok (s, lenN (ref_string_bytes s)).
Proof. exact string_rt. Qed.
Print Assumptions C06_string_encoding.

(* the five format codes of the model are the constants of SMB_STRING.go (regenerated each run) *)
Theorem C06_string_format_codes :
  c06_fmt_variable_block_16bit = 1 /\ c06_fmt_nul_oem = 2 /\ c06_fmt_nul_oem_16bit = 3 /\
  c06_fmt_nul_ascii = 4 /\ c06_fmt_variable_block = 5.
Proof. exact format_codes_tie. Qed.
Print Assumptions C06_string_format_codes.

(* On ANY input the reported count stays within the input (format 0x03 included, after the fix
   "SMB_STRING.Unmarshal (format 0x03) requires the null terminator it counts as consumed": before it,
   03 00 00 reported 4 of 3 bytes and the command decoders then sliced past the end - C07). *)
Theorem C06_string_consumed_bound : forall input s n,
  smb_string_unmarshal input = Ok (s, n) -> n <= lenN input.
Proof. exact string_consumed_bound. Qed.
Print Assumptions C06_string_consumed_bound.

Theorem C06_string_fmt3_no_overrun : smb_string_unmarshal [3; 0; 0] = Err.
Proof. exact string_fmt3_no_overrun. Qed.
Print Assumptions C06_string_fmt3_no_overrun.

Theorem C06_oem : forall s suffix, dom_oem s ->
  exists bs, oem_marshal s = Ok (bs, s) /\ oem_unmarshal (bs ++ suffix) = Ok (s, lenN bs).
Proof. exact oem_roundtrip. Qed.
Print Assumptions C06_oem.

(* ------------------------------------------------------------------ *)
(* Packed date: every value of the domain, and every one of the 65536 words *)

Theorem C06_date : forall y m d suffix, 1980 <= y <= 2107 -> m < 16 -> d < 32 ->
  date_unmarshal (date_marshal (mk_date y m d) ++ suffix) = Ok (mk_date y m d, 2).
Proof. exact date_rt. Qed.
Print Assumptions C06_date.

Theorem C06_date_words : forall w suffix, w < 65536 ->
  exists d, date_unmarshal (le16 w ++ suffix) = Ok (d, 2) /\ dom_date d /\ date_marshal d = le16 w.
Proof. exact date_words. Qed.
Print Assumptions C06_date_words.

Theorem C06_date_encoding : forall y m d, 1980 <= y <= 2107 -> m < 16 -> d < 32 ->
  date_marshal (mk_date y m d) = le16 ((y - 1980) * 512 + m * 32 + d).
Proof. exact date_encoding. Qed.
Print Assumptions C06_date_encoding.

(* ------------------------------------------------------------------ *)
(* Fixed-size types                                                    *)

Theorem C06_filetime : forall lo hi suffix, lo < 2 ^ 32 -> hi < 2 ^ 32 ->
  filetime_unmarshal (filetime_marshal (lo, hi) ++ suffix) = Ok ((lo, hi), 8).
Proof. exact filetime_rt. Qed.
Print Assumptions C06_filetime.

Theorem C06_range32 : forall pid off len suffix, pid < 65536 -> off < 2 ^ 32 -> len < 2 ^ 32 ->
  range32_unmarshal (range32_marshal [pid; off; len] ++ suffix) = Ok ([pid; off; len], 10).
Proof. exact range32_rt. Qed.
Print Assumptions C06_range32.

Theorem C06_range64 : forall pid pad oh ol lh ll suffix,
  pid < 65536 -> pad < 65536 -> oh < 2 ^ 32 -> ol < 2 ^ 32 -> lh < 2 ^ 32 -> ll < 2 ^ 32 ->
  range64_unmarshal (range64_marshal [pid; pad; oh; ol; lh; ll] ++ suffix) = Ok ([pid; pad; oh; ol; lh; ll], 20).
Proof. exact range64_rt. Qed.
Print Assumptions C06_range64.

Theorem C06_file_attributes : forall a suffix, a < 65536 ->
  fileattr_unmarshal (fileattr_marshal a ++ suffix) = Ok (a, 2).
Proof. exact fileattr_rt. Qed.
Print Assumptions C06_file_attributes.

Theorem C06_andx : forall cmd res off suffix, cmd < 256 -> res < 256 -> off < 65536 ->
  andx_unmarshal (andx_marshal [cmd; res; off] ++ suffix) = Ok ([cmd; res; off], 4).
Proof. exact andx_rt. Qed.
Print Assumptions C06_andx.

Theorem C06_version : forall major minor build r0 r1 r2 rev suffix,
  major < 256 -> minor < 256 -> build < 65536 -> r0 < 256 -> r1 < 256 -> r2 < 256 -> rev < 256 ->
  version_unmarshal (version_marshal [major; minor; build; r0; r1; r2; rev] ++ suffix)
  = Ok ([major; minor; build; r0; r1; r2; rev], 8).
Proof. exact version_rt. Qed.
Print Assumptions C06_version.

(* ------------------------------------------------------------------ *)
(* SMB_NMPIPE_STATUS — known finding C06/nmpipe-status/trailing-bytes (pinned by
   TestSMB_NMPIPE_STATUS_Unmarshal "Invalid data length (too long)").
   The full statement is refuted; the property holds for all 65536 words when nothing follows the
   encoding, and EVERY non-empty suffix is rejected (the failing class, exactly). *)

Theorem C06_nmpipe_refuted :
  ~ (forall icount flags suffix, icount < 256 -> flags < 256 ->
       nmpipe_unmarshal (nmpipe_marshal [icount; flags] ++ suffix) = Ok ([icount; flags], 2)).
Proof. exact nmpipe_refuted. Qed.
Print Assumptions C06_nmpipe_refuted.

Theorem C06_nmpipe : forall icount flags, icount < 256 -> flags < 256 ->
  nmpipe_unmarshal (nmpipe_marshal [icount; flags]) = Ok ([icount; flags], 2).
Proof. exact nmpipe_rt. Qed.
Print Assumptions C06_nmpipe.

Theorem C06_nmpipe_trailing_rejected : forall icount flags suffix,
  icount < 256 -> flags < 256 -> suffix <> [] ->
  nmpipe_unmarshal (nmpipe_marshal [icount; flags] ++ suffix) = Err.
Proof. exact nmpipe_trailing. Qed.
Print Assumptions C06_nmpipe_trailing_rejected.

(* ------------------------------------------------------------------ *)
(* Resume keys and directory-information entries.  [norm_rk]/[norm_di] keep every field value and put
   the derived fields in the state Marshal leaves them in: the embedded string of the resume key holds
   the 21 key bytes in format 0x05; the file name is padded with spaces to 12 bytes. *)

Theorem C06_resume_key : forall r suffix, dom_rk r ->
  exists bs, resume_key_marshal r = Ok (bs, norm_rk r) /\
             resume_key_unmarshal (bs ++ suffix) = Ok (norm_rk r, lenN bs).
Proof. exact resume_key_roundtrip. Qed.
Print Assumptions C06_resume_key.

Theorem C06_directory_information : forall d suffix, dom_di d ->
  exists bs, dir_info_marshal d = Ok (bs, norm_di d) /\
             dir_info_unmarshal (bs ++ suffix) = Ok (norm_di d, lenN bs).
Proof. exact dir_info_roundtrip. Qed.
Print Assumptions C06_directory_information.

(* ------------------------------------------------------------------ *)
(* Parameter and data blocks                                           *)

Theorem C06_parameters : forall p suffix, dom_params p ->
  exists bs, params_marshal p = Ok bs /\ params_unmarshal (bs ++ suffix) = Ok (p, lenN bs).
Proof. exact params_roundtrip. Qed.
Print Assumptions C06_parameters.

Theorem C06_parameters_size : forall ws suffix, lenN ws <= 255 -> Forall (fun w => w < 65536) ws ->
  exists bs, params_marshal (mk_params (lenN ws) ws) = Ok bs /\ lenN bs = 1 + 2 * lenN ws /\
             params_unmarshal (bs ++ suffix) = Ok (mk_params (lenN ws) ws, 1 + 2 * lenN ws).
Proof. exact params_rt. Qed.
Print Assumptions C06_parameters_size.

Theorem C06_data : forall bs suffix, lenN bs <= 65535 ->
  data_unmarshal (data_marshal (mk_data (lenN bs) bs) ++ suffix) = Ok (mk_data (lenN bs) bs, 2 + lenN bs).
Proof. exact data_rt. Qed.
Print Assumptions C06_data.

(* The accumulators produce blocks of the domain: any sequence of AddWordsFromBytesStream calls (odd
   streams included) holding at most 255 words, any sequence of Add calls holding at most 65535 bytes. *)
Theorem C06_parameters_accumulated : forall streams,
  Forall wf_bytes streams -> lenN (flat_map words_of_stream streams) <= 255 ->
  dom_params (fold_left params_add_stream streams params_new).
Proof. exact params_streams_dom. Qed.
Print Assumptions C06_parameters_accumulated.

Theorem C06_data_accumulated : forall chunks,
  lenN (concat chunks) <= 65535 -> dom_data (fold_left data_add chunks data_new).
Proof. exact data_adds_dom. Qed.
Print Assumptions C06_data_accumulated.

(* GetBytes returns an even-length stream that was added to an empty block *)
Theorem C06_parameters_stream_bytes : forall bs, wf_bytes bs -> Nat.even (length bs) = true ->
  params_get_bytes (params_add_stream params_new bs) = bs.
Proof. exact params_stream_bytes. Qed.
Print Assumptions C06_parameters_stream_bytes.

(* Observed behaviour of AddWord (WordCount = 2 * number of words): the block it leaves cannot be
   marshalled unless the number of words is a multiple of 256. *)
Theorem C06_parameters_add_word_count : forall p w,
  lenN (p_words p ++ [w]) mod 256 <> 0 -> params_marshal (params_add_word p w) = Err.
Proof. exact params_add_word_marshal. Qed.
Print Assumptions C06_parameters_add_word_count.

(* ------------------------------------------------------------------ *)
(* Totality: no decoder panics on any input (reused by C07)            *)

Theorem C06_total_string : forall input, smb_string_unmarshal input <> Panic.
Proof. exact string_total. Qed.
Print Assumptions C06_total_string.
Theorem C06_total_oem : forall input, oem_unmarshal input <> Panic.
Proof. exact oem_total. Qed.
Print Assumptions C06_total_oem.
Theorem C06_total_date : forall input, date_unmarshal input <> Panic.
Proof. exact date_total. Qed.
Print Assumptions C06_total_date.
Theorem C06_total_filetime : forall input, filetime_unmarshal input <> Panic.
Proof. exact filetime_total. Qed.
Print Assumptions C06_total_filetime.
Theorem C06_total_range32 : forall input, range32_unmarshal input <> Panic.
Proof. exact range32_total. Qed.
Print Assumptions C06_total_range32.
Theorem C06_total_range64 : forall input, range64_unmarshal input <> Panic.
Proof. exact range64_total. Qed.
Print Assumptions C06_total_range64.
Theorem C06_total_nmpipe : forall input, nmpipe_unmarshal input <> Panic.
Proof. exact nmpipe_total. Qed.
Print Assumptions C06_total_nmpipe.
Theorem C06_total_resume_key : forall input, resume_key_unmarshal input <> Panic.
Proof. exact resume_key_total. Qed.
Print Assumptions C06_total_resume_key.
Theorem C06_total_directory_information : forall input, dir_info_unmarshal input <> Panic.
Proof. exact dir_info_total. Qed.
Print Assumptions C06_total_directory_information.
Theorem C06_total_file_attributes : forall input, fileattr_unmarshal input <> Panic.
Proof. exact fileattr_total. Qed.
Print Assumptions C06_total_file_attributes.
Theorem C06_total_andx : forall input, andx_unmarshal input <> Panic.
Proof. exact andx_total. Qed.
Print Assumptions C06_total_andx.
Theorem C06_total_version : forall input, version_unmarshal input <> Panic.
Proof. exact version_total. Qed.
Print Assumptions C06_total_version.
Theorem C06_total_parameters : forall input, params_unmarshal input <> Panic.
Proof. exact params_total. Qed.
Print Assumptions C06_total_parameters.
Theorem C06_total_data : forall input, data_unmarshal input <> Panic.
Proof. exact data_total. Qed.
Print Assumptions C06_total_data.

(* ------------------------------------------------------------------ *)
(* Non-vacuity: concrete values meet the hypotheses and compute.       *)

Example C06_string_example :
  let s := mk_ss 3 4 [116; 0; 101; 0] in
  dom_string s /\ smb_string_unmarshal ([3; 4; 0; 116; 0; 101; 0; 0] ++ [9; 9]) = Ok (s, 8).
Proof. split; [unfold dom_string; cbn; repeat split; try lia; intros [E|E]; discriminate | vm_compute; reflexivity]. Qed.

(* the input on which the unfixed code panicked (01 fd ff + 65533 bytes): decoded, 65536 bytes consumed *)
Example C06_string_65533_example :
  match smb_string_unmarshal ([1; 253; 255] ++ repeatN 7 65533) with
  | Ok (s, n) => (ss_len s =? 65533) && (lenN (ss_buf s) =? 65533) && (n =? 65536)
  | _ => false
  end = true.
Proof. vm_compute. reflexivity. Qed.

Example C06_date_example :
  date_marshal (mk_date 2021 12 3) = [131; 83] /\ date_unmarshal [131; 83; 255] = Ok (mk_date 2021 12 3, 2).
Proof. split; vm_compute; reflexivity. Qed.

Example C06_directory_information_example :
  let d := mk_di (mk_rk (mk_ss 5 0 []) 0 (repeatN 1 16) [1; 2; 3; 4]) 32 (3622338944, 30926808)
                 (mk_date 2021 12 3) 1024 (mk_ss 4 8 [84; 69; 83; 84; 46; 84; 88; 84]) in
  dom_di d /\
  (exists bs, dir_info_marshal d = Ok (bs, norm_di d) /\ lenN bs = 53 /\
              dir_info_unmarshal (bs ++ [7]) = Ok (norm_di d, 53)).
Proof.
  split.
  - unfold dom_di, dom_rk, dom_filetime, dom_date, nonzero. cbn.
    repeat split; try lia; repeat constructor; discriminate.
  - eexists. split; [vm_compute; reflexivity|]. split; vm_compute; reflexivity.
Qed.

Example C06_parameters_example :
  dom_params (mk_params 2 [4660; 22136]) /\
  params_unmarshal ([2; 18; 52; 86; 120] ++ [0]) = Ok (mk_params 2 [4660; 22136], 5).
Proof. split; [repeat split; cbn; try lia; repeat constructor; lia | vm_compute; reflexivity]. Qed.

(* the pipe-status witness of the known finding *)
Example C06_nmpipe_witness : nmpipe_unmarshal (nmpipe_marshal [5; 129] ++ [0]) = Err.
Proof. vm_compute. reflexivity. Qed.
