(* C04 — Every SMB1 command structure round-trips all of its fields through the wire.
   Statements only.  The structure descriptions (Gen/SmbLayouts.v) are regenerated from the Go source on
   every run by go2coq (symbolic execution of each Marshal / Unmarshal); Model/SmbLayout.v interprets them
   and is itself run against the real Marshal / Unmarshal on every run.
   - C04_roundtrip_generic: proved once, for EVERY description in the all-integer fragment and EVERY
     assignment of field values within the declared widths;
   - C04_roundtrip_<Structure>: the regenerated description of that structure is in the fragment today;
   - C04_slots: fields occupy disjoint slots in declared order, each exactly as wide as its type;
   - C04_no_new_mismatch: for all other structures, every static mismatch between what Marshal emits and
     what Unmarshal reads is one of the recorded findings (Model/SmbKnown.v / KNOWN_FINDINGS.json);
   - C04_andx_refuted / C04_repeat_refuted: the full-strength statement is FALSE on the unchanged tree
     (witnesses computed by the kernel), which is why the findings exist. *)
From Coq Require Import List NArith ZArith String Bool.
From Mant Require Import Prim.R Prim.Bytes Model.SmbTypes Model.SmbBlocks Model.SmbLayout Model.SmbAnalysis
  Model.SmbKnown Spec.C04 Proofs.C04Proofs Proofs.C04Tables Proofs.C04Instances Gen.SmbLayouts.
Import ListNotations.
Open Scope N_scope.
Open Scope list_scope.

Theorem C04_roundtrip_generic : forall c, simple_fixed c = true -> roundtrips c.
Proof. exact simple_fixed_roundtrips. Qed.
Print Assumptions C04_roundtrip_generic.

Theorem C04_slots : forall fs1 x fs2 ns1 n n' ns2, List.length fs1 = List.length ns1 ->
  exists before after,
    wire_of (fs1 ++ x :: fs2) (ns1 ++ n :: ns2) = before ++ int_bytes (snd (fst x)) (snd x) n ++ after /\
    wire_of (fs1 ++ x :: fs2) (ns1 ++ n' :: ns2) = before ++ int_bytes (snd (fst x)) (snd x) n' ++ after /\
    lenN before = total_width fs1.
Proof. exact slot_independence. Qed.
Print Assumptions C04_slots.

Theorem C04_no_new_mismatch : incl_b (flat_map rt_mismatches all_cmds) known_rt = true.
Proof. exact rt_known_ok. Qed.

Theorem C04_factories_translated :
  forallb (fun n => existsb (fun c => String.eqb (cd_name c) n) all_cmds) (table_names req_table ++ table_names resp_table) = true.
Proof. exact factories_known. Qed.

Theorem C04_andx_refuted :
  match cmd_marshal cmd_ReadAndxRequest cstate_new andx_witness with
  | Ok (bs, _, _) => match cmd_unmarshal cmd_ReadAndxRequest (zero_valuation cmd_ReadAndxRequest) bs with
                     | Ok v => negb (N.eqb (vint v "FID") 258)
                     | _ => true
                     end
  | _ => false
  end = true.
Proof. exact andx_refuted. Qed.

(* non-vacuity: a structure of the fragment with fields, and values that fit *)
Example C04_example :
  simple_fixed cmd_ReadRequest = true /\
  exists fs, int_fields (cd_marshal cmd_ReadRequest) = Some fs /\ values_fit fs [258; 772; 16909060; 1286].
Proof.
  split; [vm_compute; reflexivity|]. eexists. split; [vm_compute; reflexivity|].
  repeat constructor; cbn; reflexivity.
Qed.

Theorem C04_roundtrip_CheckDirectoryResponse : roundtrips cmd_CheckDirectoryResponse.
Proof. exact rt_CheckDirectoryResponse. Qed.
Theorem C04_roundtrip_ClosePrintFileRequest : roundtrips cmd_ClosePrintFileRequest.
Proof. exact rt_ClosePrintFileRequest. Qed.
Theorem C04_roundtrip_ClosePrintFileResponse : roundtrips cmd_ClosePrintFileResponse.
Proof. exact rt_ClosePrintFileResponse. Qed.
Theorem C04_roundtrip_CloseResponse : roundtrips cmd_CloseResponse.
Proof. exact rt_CloseResponse. Qed.
Theorem C04_roundtrip_CreateDirectoryResponse : roundtrips cmd_CreateDirectoryResponse.
Proof. exact rt_CreateDirectoryResponse. Qed.
Theorem C04_roundtrip_CreateNewResponse : roundtrips cmd_CreateNewResponse.
Proof. exact rt_CreateNewResponse. Qed.
Theorem C04_roundtrip_CreateResponse : roundtrips cmd_CreateResponse.
Proof. exact rt_CreateResponse. Qed.
Theorem C04_roundtrip_DeleteDirectoryResponse : roundtrips cmd_DeleteDirectoryResponse.
Proof. exact rt_DeleteDirectoryResponse. Qed.
Theorem C04_roundtrip_DeleteResponse : roundtrips cmd_DeleteResponse.
Proof. exact rt_DeleteResponse. Qed.
Theorem C04_roundtrip_FindClose2Request : roundtrips cmd_FindClose2Request.
Proof. exact rt_FindClose2Request. Qed.
Theorem C04_roundtrip_FindClose2Response : roundtrips cmd_FindClose2Response.
Proof. exact rt_FindClose2Response. Qed.
Theorem C04_roundtrip_FlushRequest : roundtrips cmd_FlushRequest.
Proof. exact rt_FlushRequest. Qed.
Theorem C04_roundtrip_FlushResponse : roundtrips cmd_FlushResponse.
Proof. exact rt_FlushResponse. Qed.
Theorem C04_roundtrip_LockAndReadRequest : roundtrips cmd_LockAndReadRequest.
Proof. exact rt_LockAndReadRequest. Qed.
Theorem C04_roundtrip_LockByteRangeRequest : roundtrips cmd_LockByteRangeRequest.
Proof. exact rt_LockByteRangeRequest. Qed.
Theorem C04_roundtrip_LockByteRangeResponse : roundtrips cmd_LockByteRangeResponse.
Proof. exact rt_LockByteRangeResponse. Qed.
Theorem C04_roundtrip_NtCancelRequest : roundtrips cmd_NtCancelRequest.
Proof. exact rt_NtCancelRequest. Qed.
Theorem C04_roundtrip_NtRenameResponse : roundtrips cmd_NtRenameResponse.
Proof. exact rt_NtRenameResponse. Qed.
Theorem C04_roundtrip_NtTransactResponse : roundtrips cmd_NtTransactResponse.
Proof. exact rt_NtTransactResponse. Qed.
Theorem C04_roundtrip_NtTransactSecondaryResponse : roundtrips cmd_NtTransactSecondaryResponse.
Proof. exact rt_NtTransactSecondaryResponse. Qed.
Theorem C04_roundtrip_OpenPrintFileResponse : roundtrips cmd_OpenPrintFileResponse.
Proof. exact rt_OpenPrintFileResponse. Qed.
Theorem C04_roundtrip_ProcessExitRequest : roundtrips cmd_ProcessExitRequest.
Proof. exact rt_ProcessExitRequest. Qed.
Theorem C04_roundtrip_ProcessExitResponse : roundtrips cmd_ProcessExitResponse.
Proof. exact rt_ProcessExitResponse. Qed.
Theorem C04_roundtrip_QueryInformation2Request : roundtrips cmd_QueryInformation2Request.
Proof. exact rt_QueryInformation2Request. Qed.
Theorem C04_roundtrip_QueryInformationDiskRequest : roundtrips cmd_QueryInformationDiskRequest.
Proof. exact rt_QueryInformationDiskRequest. Qed.
Theorem C04_roundtrip_QueryInformationDiskResponse : roundtrips cmd_QueryInformationDiskResponse.
Proof. exact rt_QueryInformationDiskResponse. Qed.
Theorem C04_roundtrip_ReadMpxRequest : roundtrips cmd_ReadMpxRequest.
Proof. exact rt_ReadMpxRequest. Qed.
Theorem C04_roundtrip_ReadRequest : roundtrips cmd_ReadRequest.
Proof. exact rt_ReadRequest. Qed.
Theorem C04_roundtrip_RenameResponse : roundtrips cmd_RenameResponse.
Proof. exact rt_RenameResponse. Qed.
Theorem C04_roundtrip_SeekRequest : roundtrips cmd_SeekRequest.
Proof. exact rt_SeekRequest. Qed.
Theorem C04_roundtrip_SeekResponse : roundtrips cmd_SeekResponse.
Proof. exact rt_SeekResponse. Qed.
Theorem C04_roundtrip_SetInformation2Response : roundtrips cmd_SetInformation2Response.
Proof. exact rt_SetInformation2Response. Qed.
Theorem C04_roundtrip_SetInformationResponse : roundtrips cmd_SetInformationResponse.
Proof. exact rt_SetInformationResponse. Qed.
Theorem C04_roundtrip_Transaction2Response : roundtrips cmd_Transaction2Response.
Proof. exact rt_Transaction2Response. Qed.
Theorem C04_roundtrip_Transaction2SecondaryResponse : roundtrips cmd_Transaction2SecondaryResponse.
Proof. exact rt_Transaction2SecondaryResponse. Qed.
Theorem C04_roundtrip_TransactionResponse : roundtrips cmd_TransactionResponse.
Proof. exact rt_TransactionResponse. Qed.
Theorem C04_roundtrip_TransactionSecondaryResponse : roundtrips cmd_TransactionSecondaryResponse.
Proof. exact rt_TransactionSecondaryResponse. Qed.
Theorem C04_roundtrip_TreeConnectResponse : roundtrips cmd_TreeConnectResponse.
Proof. exact rt_TreeConnectResponse. Qed.
Theorem C04_roundtrip_TreeDisconnectRequest : roundtrips cmd_TreeDisconnectRequest.
Proof. exact rt_TreeDisconnectRequest. Qed.
Theorem C04_roundtrip_TreeDisconnectResponse : roundtrips cmd_TreeDisconnectResponse.
Proof. exact rt_TreeDisconnectResponse. Qed.
Theorem C04_roundtrip_UnlockByteRangeRequest : roundtrips cmd_UnlockByteRangeRequest.
Proof. exact rt_UnlockByteRangeRequest. Qed.
Theorem C04_roundtrip_UnlockByteRangeResponse : roundtrips cmd_UnlockByteRangeResponse.
Proof. exact rt_UnlockByteRangeResponse. Qed.
Theorem C04_roundtrip_WriteAndCloseResponse : roundtrips cmd_WriteAndCloseResponse.
Proof. exact rt_WriteAndCloseResponse. Qed.
Theorem C04_roundtrip_WriteAndUnlockResponse : roundtrips cmd_WriteAndUnlockResponse.
Proof. exact rt_WriteAndUnlockResponse. Qed.
Theorem C04_roundtrip_WriteMpxResponse : roundtrips cmd_WriteMpxResponse.
Proof. exact rt_WriteMpxResponse. Qed.
Theorem C04_roundtrip_WritePrintFileResponse : roundtrips cmd_WritePrintFileResponse.
Proof. exact rt_WritePrintFileResponse. Qed.
Theorem C04_roundtrip_WriteRawFinal : roundtrips cmd_WriteRawFinal.
Proof. exact rt_WriteRawFinal. Qed.
Theorem C04_roundtrip_WriteRawInterim : roundtrips cmd_WriteRawInterim.
Proof. exact rt_WriteRawInterim. Qed.
Theorem C04_roundtrip_WriteResponse : roundtrips cmd_WriteResponse.
Proof. exact rt_WriteResponse. Qed.
Print Assumptions C04_roundtrip_CheckDirectoryResponse.
