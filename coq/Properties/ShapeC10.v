(* C10 — the state space the model of this property assumes is the one the source declares.
   Statement only.  Gen/Shapes.v is regenerated from /repo on every run (go2coq shapes: package-level variables and
   declared types, struct fields in order, of every package the property anchors); Model/ShapesExpected.v is what the
   hand-written models were written against.  A model of a Go function is a pure function of its arguments and its
   receiver's fields: a new field, or a new package-level variable (a pool, a cache, a scratch buffer), is state the
   model does not have, and the correspondence runs no longer justify the theorems. *)
From Coq Require Import List String.
From Mant Require Import Gen.Shapes Model.ShapesExpected Gen.Wraps Model.WrapsExpected Model.ShapeTie.

Theorem C10_state_space : shapes_C10 = expected_C10.
Proof. reflexivity. Qed.
Print Assumptions C10_state_space.

(* The models use unbounded numbers and write every wrap explicitly.  For the packages of go2coq/hard_wraps.txt
   (where the property is about arithmetic at sizes no sampler reaches: the MD4 bit counter) the places where the
   source computes in a fixed-width integer type or narrows an integer, and where the bounds that follow from
   constants, operand widths, masks and shifts do not keep the exact result inside the type, are re-read on every
   run (go2coq wraps).  Every such site of the current source must be one the models were written against (with
   multiplicity): a new site is arithmetic the model does not wrap.  (In all other packages a changed set of
   wrap sites is handled by stage T of the check.) *)
Theorem C10_wrap_sites : sub_multiset wraps_C10 expected_wraps_C10 = true.
Proof. vm_compute. reflexivity. Qed.
Print Assumptions C10_wrap_sites.
