(* C13 — UUID/GUID text and binary forms are mutually inverse and standards-conformant.
   Statements only; proofs are in Proofs/C13Uuid.v, C13UuidV.v, C13Main.v, C13Guid.v,
   C13GuidText.v, C13GuidTotal.v.

   Conventions: a byte string is a [list N] with [wf_bytes] (every element < 256); "16 bytes" is
   [length bs = 16], so the theorems on [bs] quantify over all 2^128 values.  Go strings are byte
   lists; [upper]/[lower] change ASCII letters only. *)
From Coq Require Import List NArith Lia.
From Mant Require Import Prim.R Prim.Bytes Prim.Dec Prim.HexNum Prim.GoStr Model.Uuid Model.Guid Spec.C13
  Proofs.C13Uuid Proofs.C13UuidV Proofs.C13Main Proofs.C13Guid Proofs.C13GuidText Proofs.C13GuidTotal.
Import ListNotations.
Open Scope N_scope.

(* ================= generic UUID (crypto/uuid/uuid.go) ================= *)

(* Every 16-byte string unmarshals, and marshalling the result gives the same 16 bytes back; the
   Version is RFC 4122's version nibble. *)
Theorem C13_uuid_bin : forall bs, wf_bytes bs -> length bs = 16%nat ->
  exists ver var d, uuid_unmarshal bs = Ok (ver, var, d) /\ uuid_marshal ver var d = bs
    /\ ver < 16 /\ var < 16 /\ wf_bytes d /\ length d = 15%nat /\ ver = rfc_version bs.
Proof. exact uuid_bin_bytes. Qed.
Print Assumptions C13_uuid_bin.

(* Every field assignment within the widths (4-bit Version and Variant, 15 data bytes) survives
   Marshal then Unmarshal. *)
Theorem C13_uuid_bin_fields : forall ver var d, ver < 16 -> var < 16 -> wf_bytes d -> length d = 15%nat ->
  uuid_unmarshal (uuid_marshal ver var d) = Ok (ver, var, d)
  /\ length (uuid_marshal ver var d) = 16%nat /\ wf_bytes (uuid_marshal ver var d).
Proof. exact uuid_bin_fields. Qed.
Print Assumptions C13_uuid_bin_fields.

(* Unmarshal reads the first 16 bytes of a longer buffer. *)
Theorem C13_uuid_bin_prefix : forall bs extra, length bs = 16%nat ->
  uuid_unmarshal (bs ++ extra) = uuid_unmarshal bs.
Proof. exact uuid_unmarshal_prefix. Qed.
Print Assumptions C13_uuid_bin_prefix.

(* String() is the RFC 4122 text (8-4-4-4-12, lower case) of the 16 bytes, and FromString reads that
   text, in lower or upper case, as Unmarshal reads the bytes. *)
Theorem C13_uuid_text : forall bs, wf_bytes bs -> length bs = 16%nat ->
  uuid_text bs = rfc_text bs
  /\ uuid_from_string (rfc_text bs) = uuid_unmarshal bs
  /\ uuid_from_string (upper (rfc_text bs)) = uuid_unmarshal bs.
Proof. exact uuid_text_bytes. Qed.
Print Assumptions C13_uuid_text.

Theorem C13_uuid_text_fields : forall ver var d, ver < 16 -> var < 16 -> wf_bytes d -> length d = 15%nat ->
  uuid_string ver var d = rfc_text (uuid_marshal ver var d)
  /\ uuid_from_string (uuid_string ver var d) = Ok (ver, var, d)
  /\ uuid_from_string (upper (uuid_string ver var d)) = Ok (ver, var, d).
Proof. exact uuid_text_fields. Qed.
Print Assumptions C13_uuid_text_fields.

(* Whatever FromString accepts (hyphens anywhere, any letter case) prints back as its canonical form:
   the 32 digits lower-cased and regrouped 8-4-4-4-12 — equal to the lower-cased input whenever the
   input is already grouped that way. *)
Theorem C13_uuid_text_canonical : forall s ver var d, uuid_from_string s = Ok (ver, var, d) ->
  uuid_string ver var d = hyphenate (lower (remove_byte 45 s)).
Proof. exact uuid_string_from_string. Qed.
Print Assumptions C13_uuid_text_canonical.

(* ================= versions 1, 2, 8 ================= *)

Theorem C13_v1_fields : forall var time cs node,
  var < 16 -> time < 2 ^ 60 -> cs < 2 ^ 12 -> wf_bytes node -> length node = 6%nat ->
  v1_unmarshal (v1_marshal var time cs node) = Ok (var, time, cs, node)
  /\ length (v1_marshal var time cs node) = 16%nat /\ wf_bytes (v1_marshal var time cs node).
Proof. exact v1_fields. Qed.
Print Assumptions C13_v1_fields.

(* every 16-byte string the v1 parser accepts is reproduced by Marshal, and its fields are in range *)
Theorem C13_v1_bin : forall bs var time cs node, wf_bytes bs -> length bs = 16%nat ->
  v1_unmarshal bs = Ok (var, time, cs, node) ->
  v1_marshal var time cs node = bs /\ var < 16 /\ time < 2 ^ 60 /\ cs < 2 ^ 12
  /\ wf_bytes node /\ length node = 6%nat.
Proof. exact v1_bin. Qed.
Print Assumptions C13_v1_bin.

Theorem C13_v1_text : forall var time cs node,
  var < 16 -> time < 2 ^ 60 -> cs < 2 ^ 12 -> wf_bytes node -> length node = 6%nat ->
  v1_string var time cs node = rfc_text (v1_marshal var time cs node)
  /\ v1_from_string (v1_string var time cs node) = Ok (var, time, cs, node)
  /\ v1_from_string (upper (v1_string var time cs node)) = Ok (var, time, cs, node).
Proof. exact v1_text. Qed.
Print Assumptions C13_v1_text.

(* v2: the low 32 bits of Time are not transmitted (the local identifier takes their place), so
   "within the field widths" means Time < 2^60 with its low 32 bits zero, Clock < 16. *)
Theorem C13_v2_fields : forall var ldn time clock ld node,
  var < 16 -> ldn < 2 ^ 32 -> v2_time_ok time -> clock < 16 -> ld < 256 -> wf_bytes node -> length node = 6%nat ->
  v2_unmarshal (v2_marshal var ldn time clock ld node) = Ok (var, ldn, time, clock, ld, node)
  /\ length (v2_marshal var ldn time clock ld node) = 16%nat /\ wf_bytes (v2_marshal var ldn time clock ld node).
Proof. exact v2_fields. Qed.
Print Assumptions C13_v2_fields.

Theorem C13_v2_bin : forall bs var ldn time clock ld node, wf_bytes bs -> length bs = 16%nat ->
  v2_unmarshal bs = Ok (var, ldn, time, clock, ld, node) ->
  v2_marshal var ldn time clock ld node = bs /\ var < 16 /\ ldn < 2 ^ 32 /\ v2_time_ok time /\ clock < 16
  /\ ld < 256 /\ wf_bytes node /\ length node = 6%nat.
Proof. exact v2_bin. Qed.
Print Assumptions C13_v2_bin.

Theorem C13_v2_text : forall var ldn time clock ld node,
  var < 16 -> ldn < 2 ^ 32 -> v2_time_ok time -> clock < 16 -> ld < 256 -> wf_bytes node -> length node = 6%nat ->
  v2_string var ldn time clock ld node = rfc_text (v2_marshal var ldn time clock ld node)
  /\ v2_from_string (v2_string var ldn time clock ld node) = Ok (var, ldn, time, clock, ld, node)
  /\ v2_from_string (upper (v2_string var ldn time clock ld node)) = Ok (var, ldn, time, clock, ld, node).
Proof. exact v2_text. Qed.
Print Assumptions C13_v2_text.

Theorem C13_v8_fields : forall var d, var < 16 -> wf_bytes d -> length d = 15%nat ->
  v8_unmarshal (v8_marshal var d) = Ok (var, d)
  /\ length (v8_marshal var d) = 16%nat /\ wf_bytes (v8_marshal var d).
Proof. exact v8_fields. Qed.
Print Assumptions C13_v8_fields.

Theorem C13_v8_bin : forall bs var d, wf_bytes bs -> length bs = 16%nat ->
  v8_unmarshal bs = Ok (var, d) -> v8_marshal var d = bs /\ var < 16 /\ wf_bytes d /\ length d = 15%nat
  /\ rfc_version bs = 8.
Proof. exact v8_bin. Qed.
Print Assumptions C13_v8_bin.

Theorem C13_v8_text : forall var d, var < 16 -> wf_bytes d -> length d = 15%nat ->
  v8_string var d = rfc_text (v8_marshal var d)
  /\ v8_from_string (v8_string var d) = Ok (var, d)
  /\ v8_from_string (upper (v8_string var d)) = Ok (var, d).
Proof. exact v8_text. Qed.
Print Assumptions C13_v8_text.

(* the version-specific FromString on the text of any 16 bytes = FromBytes on the bytes *)
Theorem C13_vN_text_bytes : forall bs, wf_bytes bs -> length bs = 16%nat ->
  (v1_from_string (rfc_text bs) = v1_from_bytes bs /\ v1_from_string (upper (rfc_text bs)) = v1_from_bytes bs) /\
  (v2_from_string (rfc_text bs) = v2_from_bytes bs /\ v2_from_string (upper (rfc_text bs)) = v2_from_bytes bs) /\
  (v8_from_string (rfc_text bs) = v8_from_bytes bs /\ v8_from_string (upper (rfc_text bs)) = v8_from_bytes bs).
Proof. exact vN_text_bytes. Qed.
Print Assumptions C13_vN_text_bytes.

(* whatever a version-specific FromString accepts prints back as its canonical form *)
Theorem C13_v1_text_canonical : forall s var time cs node, v1_from_string s = Ok (var, time, cs, node) ->
  v1_string var time cs node = hyphenate (lower (remove_byte 45 s)).
Proof. exact v1_text_canonical. Qed.
Print Assumptions C13_v1_text_canonical.

Theorem C13_v2_text_canonical : forall s var ldn time clock ld node,
  v2_from_string s = Ok (var, ldn, time, clock, ld, node) ->
  v2_string var ldn time clock ld node = hyphenate (lower (remove_byte 45 s)).
Proof. exact v2_text_canonical. Qed.
Print Assumptions C13_v2_text_canonical.

Theorem C13_v8_text_canonical : forall s var d, v8_from_string s = Ok (var, d) ->
  v8_string var d = hyphenate (lower (remove_byte 45 s)).
Proof. exact v8_text_canonical. Qed.
Print Assumptions C13_v8_text_canonical.

(* ================= RFC 4122 ================= *)

(* For every 16-byte string accepted as version 1: the timestamp and the node are exactly those of
   the independent RFC 4122 extractor; the clock sequence is the RFC's 14-bit clock sequence
   truncated to 12 bits, its two upper bits being the low bits of Variant; Variant is 8..11 exactly
   when the RFC variant bits are 10. *)
Theorem C13_rfc4122 : forall bs var time cs node, wf_bytes bs -> length bs = 16%nat ->
  v1_unmarshal bs = Ok (var, time, cs, node) ->
  rfc_version bs = 1 /\ time = rfc_timestamp bs /\ node = rfc_node bs
  /\ cs = rfc_clock_seq bs mod 2 ^ 12 /\ 2 ^ 12 * (var mod 4) + cs = rfc_clock_seq bs
  /\ (rfc_variant_4122 bs = true <-> 8 <= var < 12).
Proof. exact v1_rfc. Qed.
Print Assumptions C13_rfc4122.

(* KNOWN FINDING C13/v1-clockseq-12bit: the full-strength statement "ClockSeq is RFC 4122's clock
   sequence" is false (witness ff..1f..ff: 0xfff against 0x3fff); C13_rfc4122 above states what
   holds, i.e. equality on the complement rfc_clock_seq bs < 2^12 and the exact relation elsewhere. *)
Theorem C13_rfc4122_clockseq_refuted : ~ v1_clockseq_is_rfc.
Proof. exact v1_clockseq_refuted. Qed.
Print Assumptions C13_rfc4122_clockseq_refuted.

(* In the encoding direction the RFC 4122 section 4.2.2 encoder is met for every 60-bit timestamp,
   14-bit clock sequence and node, when the two upper clock-sequence bits are placed in Variant. *)
Theorem C13_rfc4122_encode : forall ts cs14 node,
  ts < 2 ^ 60 -> cs14 < 2 ^ 14 -> wf_bytes node -> length node = 6%nat ->
  v1_marshal (8 + cs14 / 2 ^ 12) ts (cs14 mod 2 ^ 12) node = rfc_v1_encode ts cs14 node.
Proof. exact v1_marshal_rfc. Qed.
Print Assumptions C13_rfc4122_encode.

(* v2 against the DCE layout: local identifier = time_low, domain = clk_seq_low, node, the upper 28
   timestamp bits; Clock is the 6-bit DCE clock truncated to 4 bits (KNOWN FINDING C13/v2-clock-4bit). *)
Theorem C13_v2_dce : forall bs var ldn time clock ld node, wf_bytes bs -> length bs = 16%nat ->
  v2_unmarshal bs = Ok (var, ldn, time, clock, ld, node) ->
  rfc_version bs = 2 /\ ldn = rfc_time_low bs /\ ld = octet bs 9 /\ node = rfc_node bs
  /\ time = rfc_timestamp bs - rfc_time_low bs /\ clock = (octet bs 8 mod 64) mod 16.
Proof. exact v2_dce. Qed.
Print Assumptions C13_v2_dce.

Theorem C13_v2_clock_refuted : ~ v2_clock_is_dce.
Proof. exact v2_clock_refuted. Qed.
Print Assumptions C13_v2_clock_refuted.

(* ================= GUID (windows/guid, ms_dtyp GUID) ================= *)

Theorem C13_guid_bin : forall bs, wf_bytes bs -> length bs = 16%nat ->
  exists g, guid_from_raw bs = Ok g /\ guid_to_bytes g = bs /\ guid_ok g.
Proof. exact guid_bin_bytes. Qed.
Print Assumptions C13_guid_bin.

Theorem C13_guid_bin_fields : forall g, guid_ok g ->
  guid_from_raw (guid_to_bytes g) = Ok g /\ length (guid_to_bytes g) = 16%nat /\ wf_bytes (guid_to_bytes g).
Proof. exact guid_bin_fields. Qed.
Print Assumptions C13_guid_bin_fields.

Theorem C13_guid_bin_prefix : forall bs extra, length bs = 16%nat ->
  guid_from_raw (bs ++ extra) = guid_from_raw bs.
Proof. exact guid_from_raw_prefix. Qed.
Print Assumptions C13_guid_bin_prefix.

(* the mixed-endian layout is MS-DTYP 2.3.4.2: Data1/2/3 little-endian, Data4 verbatim, with
   D = Data4[0..1] and E = Data4[2..7] read most significant byte first *)
Theorem C13_guid_dtyp_encode : forall g, guid_to_bytes g = dtyp_encode (dtyp_of g).
Proof. exact guid_to_bytes_dtyp. Qed.
Print Assumptions C13_guid_dtyp_encode.

Theorem C13_guid_dtyp_decode : forall bs, length bs = 16%nat -> guid_from_raw bs = Ok (of_dtyp (dtyp_decode bs)).
Proof. exact guid_from_raw_dtyp. Qed.
Print Assumptions C13_guid_dtyp_decode.

Theorem C13_guid_dtyp_roundtrip : forall x, dtyp_ok x ->
  guid_from_raw (dtyp_encode x) = Ok (of_dtyp x) /\ dtyp_of (of_dtyp x) = x.
Proof. exact dtyp_roundtrip. Qed.
Print Assumptions C13_guid_dtyp_roundtrip.

(* For each format f of N D B P X and every GUID within the field widths: the printed text parses
   back to the same fields, through FromString and through FromFormat<f>, in lower and in upper
   case; and the printed text is the format-f rendering of the MS-DTYP hex digits. *)
Theorem C13_guid_text : forall f g, guid_ok g ->
  guid_from_string (guid_to f g) = Ok g /\ guid_from f (guid_to f g) = Ok g
  /\ guid_from_string (upper (guid_to f g)) = Ok g /\ guid_from f (upper (guid_to f g)) = Ok g
  /\ guid_to f g = fmt_of f (dtyp_hex (dtyp_of g)).
Proof. exact guid_text_fields. Qed.
Print Assumptions C13_guid_text.

(* For each format f and every string s that is, in any mixture of letter cases, the format-f
   rendering of 32 hexadecimal digits: s parses, and printing the result in format f gives lower s. *)
Theorem C13_guid_text_canonical : forall f s h, is_hex32 h -> lower s = fmt_of f h ->
  guid_from_string s = Ok (g_of_hex h) /\ guid_from f s = Ok (g_of_hex h)
  /\ guid_to f (g_of_hex h) = lower s /\ guid_ok (g_of_hex h).
Proof. exact guid_text_canonical. Qed.
Print Assumptions C13_guid_text_canonical.

(* FromString accepts nothing else: every accepted string is, after TrimSpace and ToLower, one of
   the five renderings, and the result printed in that format is that trimmed lower-cased input. *)
Theorem C13_guid_text_only : forall s g, guid_from_string s = Ok g ->
  guid_ok g /\ exists f, guid_to f g = prep s /\ guid_from f s = Ok g.
Proof. exact guid_parse_print. Qed.
Print Assumptions C13_guid_text_only.

(* ================= totality (reused by C07) ================= *)

Theorem C13_total_uuid_unmarshal : forall bs, uuid_unmarshal bs <> Panic.
Proof. exact uuid_unmarshal_total. Qed.
Print Assumptions C13_total_uuid_unmarshal.
Theorem C13_total_uuid_from_string : forall s, uuid_from_string s <> Panic.
Proof. exact uuid_from_string_total. Qed.
Print Assumptions C13_total_uuid_from_string.
Theorem C13_total_v1_unmarshal : forall bs, v1_unmarshal bs <> Panic.
Proof. exact v1_unmarshal_total. Qed.
Print Assumptions C13_total_v1_unmarshal.
Theorem C13_total_v1_from_bytes : forall bs, v1_from_bytes bs <> Panic.
Proof. exact v1_from_bytes_total. Qed.
Print Assumptions C13_total_v1_from_bytes.
Theorem C13_total_v1_from_string : forall s, v1_from_string s <> Panic.
Proof. exact v1_from_string_total. Qed.
Print Assumptions C13_total_v1_from_string.
Theorem C13_total_v2_unmarshal : forall bs, v2_unmarshal bs <> Panic.
Proof. exact v2_unmarshal_total. Qed.
Print Assumptions C13_total_v2_unmarshal.
Theorem C13_total_v2_from_bytes : forall bs, v2_from_bytes bs <> Panic.
Proof. exact v2_from_bytes_total. Qed.
Print Assumptions C13_total_v2_from_bytes.
Theorem C13_total_v2_from_string : forall s, v2_from_string s <> Panic.
Proof. exact v2_from_string_total. Qed.
Print Assumptions C13_total_v2_from_string.
Theorem C13_total_v8_unmarshal : forall bs, v8_unmarshal bs <> Panic.
Proof. exact v8_unmarshal_total. Qed.
Print Assumptions C13_total_v8_unmarshal.
Theorem C13_total_v8_from_bytes : forall bs, v8_from_bytes bs <> Panic.
Proof. exact v8_from_bytes_total. Qed.
Print Assumptions C13_total_v8_from_bytes.
Theorem C13_total_v8_from_string : forall s, v8_from_string s <> Panic.
Proof. exact v8_from_string_total. Qed.
Print Assumptions C13_total_v8_from_string.
Theorem C13_total_set_node : forall bs, set_node bs <> Panic.
Proof. exact set_node_total. Qed.
Print Assumptions C13_total_set_node.
Theorem C13_total_guid_from_raw : forall bs, guid_from_raw bs <> Panic.
Proof. exact guid_from_raw_total. Qed.
Print Assumptions C13_total_guid_from_raw.
Theorem C13_total_guid_from_string : forall s, guid_from_string s <> Panic.
Proof. exact guid_from_string_total. Qed.
Print Assumptions C13_total_guid_from_string.
Theorem C13_total_guid_from_n : forall s, guid_from_n s <> Panic.
Proof. exact guid_from_n_total. Qed.
Print Assumptions C13_total_guid_from_n.
Theorem C13_total_guid_from_d : forall s, guid_from_d s <> Panic.
Proof. exact guid_from_d_total. Qed.
Print Assumptions C13_total_guid_from_d.
Theorem C13_total_guid_from_b : forall s, guid_from_b s <> Panic.
Proof. exact (guid_from_enclosed_total 123 125). Qed.
Print Assumptions C13_total_guid_from_b.
Theorem C13_total_guid_from_p : forall s, guid_from_p s <> Panic.
Proof. exact (guid_from_enclosed_total 40 41). Qed.
Print Assumptions C13_total_guid_from_p.
Theorem C13_total_guid_from_x : forall s, guid_from_x s <> Panic.
Proof. exact guid_from_x_total. Qed.
Print Assumptions C13_total_guid_from_x.

(* ================= non-vacuity and notes ================= *)

Definition ex_bytes : list N := [25; 197; 92; 2; 52; 6; 17; 240; 156; 210; 2; 66; 172; 18; 0; 2].
  (* 19c55c02-3406-11f0-9cd2-0242ac120002, a vector of the package tests *)

Example C13_ex_uuid : wf_bytes ex_bytes /\ length ex_bytes = 16%nat /\
  uuid_from_string (rfc_text ex_bytes) = uuid_unmarshal ex_bytes /\
  v1_unmarshal ex_bytes = Ok (9, 139668789255298050, 3282, [2; 66; 172; 18; 0; 2]) /\
  rfc_clock_seq ex_bytes = 7378.
Proof. split; [apply wf_bytesb_spec; vm_compute; reflexivity|]. vm_compute. repeat split. Qed.

Example C13_ex_v1_fields :
  v1_unmarshal (v1_marshal 9 139668789255298050 3282 [2; 66; 172; 18; 0; 2])
  = Ok (9, 139668789255298050, 3282, [2; 66; 172; 18; 0; 2])
  /\ v1_marshal 9 139668789255298050 3282 [2; 66; 172; 18; 0; 2] = ex_bytes.
Proof. vm_compute. split; reflexivity. Qed.

Example C13_ex_v2_time : v2_time_ok (2 ^ 59 + 2 ^ 32).
Proof. split; vm_compute; reflexivity. Qed.

Definition ex_guid : guid := mkGuid 305419896 4660 22136 39612 245122678937208.
  (* 12345678-1234-5678-9abc-def012345678 *)

Example C13_ex_guid : guid_ok ex_guid /\
  guid_to FX ex_guid = [123; 48; 120; 49; 50; 51; 52; 53; 54; 55; 56; 44; 48; 120; 49; 50; 51; 52; 44; 48; 120; 53; 54; 55; 56;
    44; 123; 48; 120; 57; 97; 44; 48; 120; 98; 99; 44; 48; 120; 100; 101; 44; 48; 120; 102; 48; 44; 48; 120; 49; 50; 44;
    48; 120; 51; 52; 44; 48; 120; 53; 54; 44; 48; 120; 55; 56; 125; 125] /\
  guid_from_string (upper (guid_to FX ex_guid)) = Ok ex_guid /\
  guid_to_bytes ex_guid = [120; 86; 52; 18; 52; 18; 120; 86; 154; 188; 222; 240; 18; 52; 86; 120].
Proof. split; [repeat split; vm_compute; reflexivity|]. vm_compute. repeat split. Qed.

Example C13_ex_hex32 : is_hex32 (guid_to_n ex_guid) /\ lower (upper (fmt_of FB (guid_to_n ex_guid))) = fmt_of FB (guid_to_n ex_guid).
Proof. vm_compute. repeat split. Qed.

(* Note (not part of the property): called directly, FromFormatD does not check the part lengths —
   "1-2-3-4-5" parses, and prints back in canonical form, not as the input.  FromString never
   reaches it with such input (C13_guid_text_only). *)
Example C13_note_from_d_lenient :
  guid_from_d [49; 45; 50; 45; 51; 45; 52; 45; 53] = Ok (mkGuid 1 2 3 4 5) /\
  guid_from_string [49; 45; 50; 45; 51; 45; 52; 45; 53] = Err.
Proof. vm_compute. split; reflexivity. Qed.

(* Note: ToBytes writes only the low 48 bits of the uint64 field E and ToFormat* print more than 12
   digits when E >= 2^48; such values are outside the field widths (NewGUID never produces them). *)
Example C13_note_e_width :
  guid_from_raw (guid_to_bytes (mkGuid 0 0 0 0 (2 ^ 48))) = Ok (mkGuid 0 0 0 0 0) /\
  length (guid_to_n (mkGuid 0 0 0 0 (2 ^ 48))) = 33%nat.
Proof. vm_compute. split; reflexivity. Qed.
