From Coq Require Import List NArith Lia.
From Mant Require Import Prim.R Prim.Bytes Model.Uuid Model.Guid.
Example C13_stub : 1 = 1. Proof. reflexivity. Qed.
