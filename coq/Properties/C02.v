(* C02 — NTLMv1/NTLMv2 responses verify under an independent MS-NLMP verifier.
   Statements only; proofs are in Proofs/C02Parity.v, C02V1.v, C02V2.v, C02Text.v.

   Models: Model/Ntlmv1.v (crypto/ntlmv1), Model/Ntlmv2.v (crypto/ntlmv2 and the response helpers of
   spnego/ntlm).  Spec: Spec/C02.v (DESL, NTOWFv1/v2, the verifier verify_v2 with the blob parser blob_wf,
   the hashcat field rules).  `upper` is ANY upper-casing function (strings.ToUpper in the Go code): every
   theorem quantifies over it.  Strings are Go strings (byte lists), of any content. *)
From Coq Require Import List NArith Lia Bool.
From Mant Require Import Prim.R Prim.Bytes Prim.Dec Prim.C02Text Algo.Utf16 Algo.Utf8 Algo.DES Algo.Hex
  Gen.ConstsC02 Model.Ntlmv1 Model.Ntlmv2 Spec.C02
  Proofs.C02Parity Proofs.C02V1 Proofs.C02V2 Proofs.C02Text.
Import ListNotations.
Open Scope N_scope.

(* ------------------------------------------------------------------------------------------------ *)
(* Odd-parity key expansion *)

(* One 7-bit group, all 2^7 values: the Go bit loop followed by `| ParityBit` produces the byte of the
   MS-NLMP expansion. *)
Theorem C02_parity_group : forall b1 b2 b3 b4 b5 b6 b7 : bool,
  [group_byte b1 b2 b3 b4 b5 b6 b7] = expand7 [b1; b2; b3; b4; b5; b6; b7].
Proof. exact group_byte_spec. Qed.
Print Assumptions C02_parity_group.

(* Every 7-byte DES key half: ParityAdjust is the MS-NLMP expansion, 8 bytes, each of odd parity, byte g
   carrying key bits 7g..7g+6 in its seven high positions. *)
Theorem C02_parity : forall k7, length k7 = 7%nat ->
  parity_adjust k7 = str_to_key k7 /\
  length (parity_adjust k7) = 8%nat /\
  forallb odd_parity (parity_adjust k7) = true /\
  (forall g, (g < 8)%nat -> high7 (nth g (parity_adjust k7) 0) = key_group k7 g).
Proof.
  intros k7 H. split; [apply parity_adjust_spec|]. split; [now apply parity_adjust_length|].
  split; [apply parity_adjust_odd|]. intros g Hg. now apply parity_adjust_groups.
Qed.
Print Assumptions C02_parity.

(* ... and for a byte string of any length (the function accepts any; trailing bits short of a group are
   dropped on both sides) *)
Theorem C02_parity_any_length : forall k,
  parity_adjust k = str_to_key k /\ forallb odd_parity (parity_adjust k) = true.
Proof. intros k. split; [apply parity_adjust_spec | apply parity_adjust_odd]. Qed.
Print Assumptions C02_parity_any_length.

(* ParityBit(n) for every n >= 0: 1 exactly when n has an even number of 1 bits *)
Theorem C02_parity_bit : forall n, parity_bit n = if Nat.even (count_ones n) then 1 else 0.
Proof. exact parity_bit_spec. Qed.
Print Assumptions C02_parity_bit.

(* ------------------------------------------------------------------------------------------------ *)
(* NTLMv1 *)

(* Whichever entry point computes it: for every 16-byte NT hash and 8-byte challenge, Hash and NTResponse
   both return DESL(hash, challenge). *)
Theorem C02_v1_agree : forall nthash password sc,
  length nthash = 16%nat -> length sc = 8%nat ->
  ntlmv1_hash nthash password sc = Ok (desl nthash sc) /\
  nt_response nthash sc = Ok (desl nthash sc).
Proof. exact v1_agree. Qed.
Print Assumptions C02_v1_agree.

(* String() is the upper-case hexadecimal form of that response *)
Theorem C02_v1_string : forall nthash password sc,
  length nthash = 16%nat -> length sc = 8%nat ->
  ntlmv1_string nthash password sc = Ok (hex_of_bytes true (desl nthash sc)).
Proof. exact v1_string. Qed.
Print Assumptions C02_v1_string.

(* From a password (NewNTLMv1WithPassword): Hash = NTResponse = DESL(NTOWFv1(password), challenge) and
   LMResponse = DESL(LM hash, challenge), for every password and 8-byte challenge. *)
Theorem C02_v1_password : forall upper password sc,
  length sc = 8%nat ->
  exists nth pw c, new_with_password password sc = Ok (nth, pw, c) /\
    ntlmv1_hash nth pw c = Ok (desl (ntowfv1 password) sc) /\
    nt_response nth c = Ok (desl (ntowfv1 password) sc) /\
    lm_response upper pw c = Ok (desl (lm_hash upper password) sc).
Proof. exact v1_password_agree. Qed.
Print Assumptions C02_v1_password.

(* LMResponse for every 16-byte LM hash *)
Theorem C02_v1_lm : forall lmhash sc,
  length lmhash = 16%nat -> length sc = 8%nat -> lm_response_of lmhash sc = Ok (desl lmhash sc).
Proof. intros lmhash sc H1 H2. unfold lm_response_of. rewrite (lenN_eq _ _ H2). now apply response_core. Qed.
Print Assumptions C02_v1_lm.

(* Hash on a struct that has a password but no NT hash *)
Theorem C02_v1_hash_from_password : forall password sc,
  password <> [] -> length sc = 8%nat ->
  ntlmv1_hash [] password sc = Ok (desl (ntowfv1 password) sc).
Proof. exact v1_hash_from_password. Qed.
Print Assumptions C02_v1_hash_from_password.

(* The complete behaviour of the three methods, for fields of ANY length (since f8902fa / 346a305 a hash that
   is not 16 bytes or a challenge that is not 8 bytes is an error). *)
Theorem C02_v1_outcomes : forall upper nthash password sc,
  ntlmv1_hash nthash password sc = hash_outcome nthash password sc /\
  nt_response nthash sc = nt_response_outcome nthash sc /\
  lm_response upper password sc =
    (if negb (lenN sc =? 8) then Err else Ok (desl (lm_hash upper password) sc)).
Proof.
  intros. split; [apply ntlmv1_hash_char|]. split; [apply nt_response_char | apply lm_response_char].
Qed.
Print Assumptions C02_v1_outcomes.

(* ------------------------------------------------------------------------------------------------ *)
(* NTLMv2 (crypto/ntlmv2) *)

(* ResponseKeyNT is NTOWFv2 (user name upper-cased, domain as supplied) *)
Theorem C02_v2_response_key : forall upper domain user password,
  new_ntlmv2_key upper domain user password = ntowfv2 upper password user domain.
Proof. exact new_ntlmv2_key_spec. Qed.
Print Assumptions C02_v2_response_key.

(* For every credential (any strings), server challenge, 8-byte client challenge and time stamp, the
   response is accepted by the verifier that knows the password: NTProofStr is HMAC-MD5 keyed with NTOWFv2
   over the server challenge followed by the rest, and the rest is a well-formed client blob carrying the
   client challenge.  The only exclusion: a domain whose UTF-16 form does not fit an AV_PAIR (then Hash
   returns an error, C02_v2_domain_too_long). *)
Theorem C02_v2_verifies : forall upper domain user password sc cc ts,
  length cc = 8%nat -> lenN (unicode domain) <= 65535 ->
  exists resp, ntlmv2_hash upper domain user password sc cc ts = Ok resp /\
               verify_v2 upper password user domain sc resp cc = true.
Proof. exact ntlmv2_hash_verifies. Qed.
Print Assumptions C02_v2_verifies.

Theorem C02_v2_domain_too_long : forall upper domain user password sc cc ts,
  65535 < lenN (unicode domain) -> ntlmv2_hash upper domain user password sc cc ts = Err.
Proof. exact ntlmv2_hash_too_long. Qed.
Print Assumptions C02_v2_domain_too_long.

(* The exported hashcat line, split on ':' into user, "", domain, 16 hex, 32 hex, hex, verifies against
   the same password — for user and domain names without ':' (the format has no quoting). *)
Theorem C02_hashcat : forall upper domain user password sc cc ts,
  ~ In 58 user -> ~ In 58 domain ->
  length sc = 8%nat -> wf_bytes sc -> length cc = 8%nat -> wf_bytes cc ->
  lenN (unicode domain) <= 65535 ->
  exists line, to_hashcat upper domain user password sc cc ts = Ok line /\
               hashcat_verify upper password line cc = true.
Proof. exact to_hashcat_verifies. Qed.
Print Assumptions C02_hashcat.

(* ------------------------------------------------------------------------------------------------ *)
(* The payloads of CreateAuthenticateMessage (spnego/ntlm) *)

(* Whenever a message is produced, its NtChallengeResponse / LmChallengeResponse verify for the user name
   as supplied and the domain AS THE MESSAGE CARRIES IT (upper-cased): NTLMv2 + LMv2 under extended session
   security, DESL of the NT / LM hash otherwise.  The server's TargetInfo must be an AV_PAIR list (or
   absent): it is copied into the blob. *)
Theorem C02_authenticate_payloads : forall upper flags sc ti user password domain ws cc lmcc ts lm nt,
  length sc = 8%nat -> length cc = 8%nat -> length lmcc = 8%nat ->
  (ti = [] \/ target_info_wf ti = true) ->
  auth_payloads upper flags sc ti user password domain ws cc lmcc ts = Ok (lm, nt) ->
  if has_flag flags c02_f_ess
  then verify_v2 upper password user (upper domain) sc nt cc = true /\
       verify_lmv2 upper password user (upper domain) sc lm = true
  else nt = desl (ntowfv1 password) sc /\ lm = desl (lm_hash upper password) sc.
Proof. exact auth_payloads_verify. Qed.
Print Assumptions C02_authenticate_payloads.

(* ... and a message is produced whenever the fields fit their 16-bit lengths *)
Theorem C02_authenticate_exists : forall upper flags sc ti user password domain ws cc lmcc ts,
  has_flag flags c02_f_ess = true -> length cc = 8%nat -> length lmcc = 8%nat ->
  lenN ti <= 65535 - 48 ->
  let enc s := if has_flag flags c02_f_unicode then go_utf16le s else s in
  lenN (enc (upper domain)) <= 65535 -> lenN (enc user) <= 65535 -> lenN (enc (upper ws)) <= 65535 ->
  exists lm nt, auth_payloads upper flags sc ti user password domain ws cc lmcc ts = Ok (lm, nt).
Proof. exact auth_payloads_v2_ok. Qed.
Print Assumptions C02_authenticate_exists.

(* ------------------------------------------------------------------------------------------------ *)
(* UNICODE(): on every valid UTF-8 string (RFC 3629 section 4) it is RFC 3629 decoding followed by RFC 2781
   UTF-16LE encoding; the UTF-8 encoding of any text (Unicode scalar values, any script) denotes that text *)
Theorem C02_unicode_valid : forall s cps, utf8_decode s = Some cps -> unicode s = utf16le_encode cps.
Proof. exact go_utf16le_valid. Qed.
Print Assumptions C02_unicode_valid.

Theorem C02_unicode_text : forall cps, Forall scalar_value cps -> unicode (utf8_encode cps) = utf16le_encode cps.
Proof. intros cps H. apply go_utf16le_valid, Proofs.AlgoProofs.utf8_decode_encode, H. Qed.
Print Assumptions C02_unicode_text.

(* ------------------------------------------------------------------------------------------------ *)
(* Totality: no input makes a modelled entry point panic (reused by C07) *)
Theorem C02_total_parity_adjust : forall k, (Ok (parity_adjust k) : R (list N)) <> Panic.
Proof. discriminate. Qed.
Print Assumptions C02_total_parity_adjust.

Theorem C02_total_hash : forall nthash password sc, ntlmv1_hash nthash password sc <> Panic.
Proof. exact ntlmv1_hash_total. Qed.
Print Assumptions C02_total_hash.

Theorem C02_total_string : forall nthash password sc, ntlmv1_string nthash password sc <> Panic.
Proof. exact ntlmv1_string_total. Qed.
Print Assumptions C02_total_string.

Theorem C02_total_nt_response : forall nthash sc, nt_response nthash sc <> Panic.
Proof. exact nt_response_total. Qed.
Print Assumptions C02_total_nt_response.

Theorem C02_total_lm_response : forall upper password sc, lm_response upper password sc <> Panic.
Proof. exact lm_response_total. Qed.
Print Assumptions C02_total_lm_response.

Theorem C02_total_ntlmv2_hash : forall upper domain user password sc cc ts,
  ntlmv2_hash upper domain user password sc cc ts <> Panic.
Proof. exact ntlmv2_hash_total. Qed.
Print Assumptions C02_total_ntlmv2_hash.

Theorem C02_total_to_hashcat : forall upper domain user password sc cc ts,
  to_hashcat upper domain user password sc cc ts <> Panic.
Proof. exact to_hashcat_total. Qed.
Print Assumptions C02_total_to_hashcat.

Theorem C02_total_auth_payloads : forall upper flags sc ti user password domain ws cc lmcc ts,
  auth_payloads upper flags sc ti user password domain ws cc lmcc ts <> Panic.
Proof. exact auth_payloads_total. Qed.
Print Assumptions C02_total_auth_payloads.

(* ------------------------------------------------------------------------------------------------ *)
(* Non-vacuity and validation of the specification against the values MS-NLMP prints (section 4.2:
   user "User", domain "Domain", password "Password", server challenge 0123456789abcdef, client
   challenge aaaaaaaaaaaaaaaa). *)
From Coq Require Import String.
Definition ex_sc : list N := hex "0123456789abcdef"%string.
Definition ex_cc : list N := hex "aaaaaaaaaaaaaaaa"%string.

Example C02_spec_ntowfv1 : ntowfv1 (str "Password"%string) = hex "a4f49c406510bdcab6824ee7c30fd852"%string.
Proof. vm_compute. reflexivity. Qed.
Example C02_spec_ntlmv1_response :
  desl (ntowfv1 (str "Password"%string)) ex_sc = hex "67c43011f30298a2ad35ece64f16331c44bdbed927841f94"%string.
Proof. vm_compute. reflexivity. Qed.
Example C02_spec_lmv1_response :
  desl (lm_hash ascii_upper (str "Password"%string)) ex_sc = hex "98def7b87f88aa5dafe2df779688a172def11c7d5ccdef13"%string.
Proof. vm_compute. reflexivity. Qed.
Example C02_spec_ntowfv2 :
  ntowfv2 ascii_upper (str "Password"%string) (str "User"%string) (str "Domain"%string) = hex "0c868a403bfd7a93a3001ef22ef02e3f"%string.
Proof. vm_compute. reflexivity. Qed.
Example C02_spec_str_to_key : (* the vector pinned by TestParityAdjust: "0123456" -> "1\x19LF2\xa1\xd5m" *)
  str_to_key (str "0123456"%string) = hex "31194c4632a1d56d"%string /\
  parity_adjust (str "0123456"%string) = hex "31194c4632a1d56d"%string.
Proof. vm_compute. split; reflexivity. Qed.

(* the hypotheses of the theorems are satisfiable and the verifier accepts the model's output *)
Example C02_v2_example :
  exists resp, ntlmv2_hash ascii_upper (str "corp"%string) (str "user"%string) (str "Password"%string) ex_sc ex_cc 134000000000000000 = Ok resp
    /\ verify_v2 ascii_upper (str "Password"%string) (str "user"%string) (str "corp"%string) ex_sc resp ex_cc = true
    /\ hashcat_verify ascii_upper (str "Password"%string)
         (match to_hashcat ascii_upper (str "corp"%string) (str "user"%string) (str "Password"%string) ex_sc ex_cc 134000000000000000
          with Ok l => l | _ => [] end) ex_cc = true.
Proof. eexists. split; [vm_compute; reflexivity|]. split; vm_compute; reflexivity. Qed.

(* the verifier discriminates: it rejects the three behaviours the unrepaired code had
   (a response keyed with the upper-cased domain; a blob carrying the raw UTF-16 domain in place of the
   AV_PAIR list; a hashcat line with the client challenge in the NTProofStr field) and a wrong password *)
Example C02_verifier_rejects :
  let dom := str "corp"%string in let user := str "user"%string in let pw := str "Password"%string in
  let ts := 134000000000000000 in
  let blob_ok := [1; 1; 0; 0; 0; 0; 0; 0] ++ le64 ts ++ ex_cc ++ [0; 0; 0; 0]
                 ++ [2; 0; 8; 0] ++ unicode dom ++ [0; 0; 0; 0] ++ [0; 0; 0; 0] in
  let blob_raw := [1; 1; 0; 0; 0; 0; 0; 0] ++ le64 ts ++ ex_cc ++ [0; 0; 0; 0] ++ unicode dom ++ [0; 0; 0; 0] in
  let resp key blob := Algo.HMAC.hmac_md5 key (ex_sc ++ blob) ++ blob in
  verify_v2 ascii_upper pw user dom ex_sc (resp (ntowfv2 ascii_upper pw user dom) blob_ok) ex_cc = true /\
  verify_v2 ascii_upper pw user dom ex_sc (resp (ntowfv2 ascii_upper pw user (str "CORP"%string)) blob_ok) ex_cc = false /\
  verify_v2 ascii_upper pw user dom ex_sc (resp (ntowfv2 ascii_upper pw user dom) blob_raw) ex_cc = false /\
  verify_v2 ascii_upper (str "password"%string) user dom ex_sc (resp (ntowfv2 ascii_upper pw user dom) blob_ok) ex_cc = false /\
  hashcat_verify ascii_upper pw
    (user ++ [58; 58] ++ dom ++ [58] ++ hex_of_bytes false ex_sc ++ [58] ++ hex_of_bytes false ex_cc ++ [58]
     ++ hex_of_bytes false (resp (ntowfv2 ascii_upper pw user dom) blob_ok)) ex_cc = false.
Proof. vm_compute. repeat split; reflexivity. Qed.

Example C02_target_info_example :
  target_info_wf (hex "0200040043004400 0100020057"%string) = false /\
  target_info_wf (hex "0200040043004400 0100020057 00 00000000"%string) = true /\
  blob_wf (ssp_blob ex_cc (hex "0200040043004400 0100020057 00 00000000"%string) 5) ex_cc = true /\
  blob_wf (ssp_blob ex_cc [] 5) ex_cc = true /\
  blob_wf (ssp_blob ex_cc (hex "4300"%string) 5) ex_cc = false.
Proof. vm_compute. repeat split; reflexivity. Qed.
