(* C02 — placeholder while the proofs are written. *)
From Coq Require Import List NArith.
From Mant Require Import Model.Ntlmv1.
Example C02_parity_bit_0 : parity_bit 0 = 1%N.
Proof. reflexivity. Qed.
