(* C02 — the state space the model of this property assumes is the one the source declares.
   Statement only.  Gen/Shapes.v is regenerated from /repo on every run (go2coq shapes: package-level variables and
   declared types, struct fields in order, of every package the property anchors); Model/ShapesExpected.v is what the
   hand-written models were written against.  A model of a Go function is a pure function of its arguments and its
   receiver's fields: a new field, or a new package-level variable (a pool, a cache, a scratch buffer), is state the
   model does not have, and the correspondence runs no longer justify the theorems. *)
From Coq Require Import List String.
From Mant Require Import Gen.Shapes Model.ShapesExpected Gen.Wraps Model.WrapsExpected Gen.Decisions Model.DecisionsExpected.

Theorem C02_state_space : shapes_C02 = expected_C02.
Proof. reflexivity. Qed.
Print Assumptions C02_state_space.

(* The models use unbounded numbers and write every wrap explicitly.  The places where the source computes in a
   fixed-width integer type (non-constant +, -, *, <<, compound assignments, ++/--) or narrows an integer are
   re-read on every run (go2coq wraps, go/types per package) and must be the ones the models were written against:
   a new site is arithmetic the model does not wrap. *)
Theorem C02_wrap_sites : wraps_C02 = expected_wraps_C02.
Proof. reflexivity. Qed.
Print Assumptions C02_wrap_sites.

(* A hand-written model follows the code's own case analysis; the correspondence runs only sample inputs, so a new
   case that no sampled input takes would go unnoticed.  The conditions, case expressions, loop headers, select /
   go / defer statements, mutex calls and literals (message texts excepted) of every function are re-read on every
   run (go2coq decisions) and must be the ones the models were written against. *)
Theorem C02_case_analysis : decisions_C02 = expected_decisions_C02.
Proof. reflexivity. Qed.
Print Assumptions C02_case_analysis.
