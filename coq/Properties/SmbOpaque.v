(* The SMB command structures the translator cannot follow completely are, statement for statement, what they were when
   they were examined by hand (the recognised read/emit programs and the text of every opaque statement).  Statement only. *)
From Coq Require Import List NArith String Bool.
From Mant Require Import Model.SmbLayout Model.SmbOpaqueExpected Gen.SmbLayouts.

Theorem smb_untranslated_unchanged :
  filter (fun c => negb (cd_translated c)) all_cmds = expected_untranslated.
Proof. reflexivity. Qed.
Print Assumptions smb_untranslated_unchanged.
