(* C17 — the NBNS name table keeps its ownership invariants under all histories and schedules.
   Statements only; proofs are in Proofs/C17Proofs.v, Proofs/C17Heap.v, Proofs/C17Atomic.v.

   Model/NameTable.v      the six methods of nbtns.go on values (step, run); time is an input
   Model/NameTableHeap.v  the same methods on slices and backing arrays (hstep, hrun)
   Spec/C17.v             the abstract atomic map  name -> (type, status, set of addresses, expiry)
   A history is ANY list of (clock reading, operation): no bound on its length, names are
   arbitrary byte strings, addresses arbitrary byte slices (4-byte, 16-byte, anything else),
   ttls and clock readings arbitrary integers.  [hist_typed] says that the NameType arguments
   are Unique or Group, the two types of the property's alphabet. *)
From Coq Require Import List NArith ZArith Bool.
From Mant Require Import Prim.Bytes Model.NameTable Model.NameTableHeap Spec.C17 Proofs.C17Proofs Proofs.C17Heap Proofs.C17Atomic.
Import ListNotations.

(* Every history of the implementation model is a history of the atomic map: same outcome for
   every operation (query results as address lists), same final map. *)
Theorem C17_refines : forall h,
  hist_typed h ->
  map abs_out (snd (run empty h)) = map Some (snd (arun aempty (abs_hist h))) /\
  amap_eq (abs (fst (run empty h))) (fst (arun aempty (abs_hist h))).
Proof. exact refines_from_empty. Qed.
Print Assumptions C17_refines.

(* ... and one step from any table that satisfies the invariant (the inductive core). *)
Theorem C17_refines_step : forall now t o,
  inv t -> op_typed o ->
  inv (fst (step now t o)) /\
  abs_out (snd (step now t o)) = Some (snd (astep now (abs t) (abs_op o))) /\
  amap_eq (abs (fst (step now t o))) (fst (astep now (abs t) (abs_op o))).
Proof. exact step_refines. Qed.
Print Assumptions C17_refines_step.

(* net.IP.Equal, as used by the table, is equality of addresses. *)
Theorem C17_ip_equal : forall a b, ip_equal a b = true <-> canon a = canon b.
Proof. exact ip_equal_iff. Qed.
Print Assumptions C17_ip_equal.

(* In every reachable table: one record per name; its type is Unique or Group; a unique name has
   exactly one owner; a group's owners are non-empty and pairwise different addresses. *)
Theorem C17_inv : forall h n r,
  hist_typed h -> In (n, r) (fst (run empty h)) ->
  (forall r', In (n, r') (fst (run empty h)) -> r' = r) /\
  (r_type r = ty_unique \/ r_type r = ty_group) /\
  (r_type r = ty_unique -> exists a, r_owners r = [a]) /\
  (r_type r = ty_group -> r_owners r <> [] /\ NoDup (map canon (r_owners r))).
Proof. exact reachable_records. Qed.
Print Assumptions C17_inv.

(* The same on the abstract side: every reachable map is well-formed. *)
Theorem C17_inv_abstract : forall h, hist_typed h -> amap_wf (abs (fst (run empty h))).
Proof. exact reachable_wf. Qed.
Print Assumptions C17_inv_abstract.

(* QueryName changes nothing and returns precisely the current owners (each address once) and the
   type of an ACTIVE name; for an absent or non-active name it returns an error. *)
Theorem C17_query_exact : forall h now n,
  hist_typed h ->
  let t := fst (run empty h) in
  fst (step now t (Query n)) = t /\
  match snd (step now t (Query n)) with
  | OOwners l ty =>
      exists r, abs t n = Some r /\ a_status r = Active /\ map canon l = a_owners r /\
                abs_ty ty = a_type r /\ NoDup (map canon l) /\ l <> []
  | OErr => forall r, abs t n = Some r -> a_status r = Conflict
  | _ => False
  end.
Proof. exact query_exact. Qed.
Print Assumptions C17_query_exact.

(* While a unique name is held, it has one owner address; nobody can register it (as unique or
   as group), and no other address can release or refresh it. *)
Theorem C17_unique_exclusive : forall h n r,
  hist_typed h ->
  let t := fst (run empty h) in
  tget t n = Some r -> r_type r = ty_unique ->
  exists a, r_owners r = [a] /\
    (forall now ty b ttl, step now t (Register n ty b ttl) = (t, OErr)) /\
    (forall now b, ip_equal a b = false -> step now t (Release n b) = (t, OErr)) /\
    (forall now b, ip_equal a b = false -> step now t (Refresh n b) = (t, OErr)).
Proof. exact unique_exclusive. Qed.
Print Assumptions C17_unique_exclusive.

(* No method panics in any history, whatever the arguments (NameType values outside the enum,
   nil or odd-length addresses included): record.Owners[0] is always in range. *)
Theorem C17_total_run : forall h, Forall (fun x => x <> OPanic) (snd (run empty h)).
Proof. exact run_total_empty. Qed.
Print Assumptions C17_total_run.

(* ---------------------------------------------------------------- a slice of its own *)

(* Slice level (Model/NameTableHeap.v).  Take any history h1, then a QueryName that returns the
   slice (l, len), then ANY further history h2.  The array at l holds exactly the owners the
   record had at the moment of the query; no later operation writes that array (QueryName copies;
   RegisterName's append writes the record's own array or a new one; ReleaseName's in-place
   append(o[:i], o[i+1:]...) writes the record's own array); and no record of the later table is
   based at l. *)
Theorem C17_results_stable : forall h1 now n h2 l len ty,
  let st1 := fst (hrun hempty h1) in
  snd (hstep now st1 (Query n)) = HOwners l len ty ->
  let st2 := fst (hstep now st1 (Query n)) in
  let st3 := fst (hrun st2 h2) in
  cell (hs_heap st3) l = cell (hs_heap st2) l /\
  (exists r, tget (hs_tbl st1) n = Some r /\ len = h_len r /\ cell (hs_heap st2) l = owners_of (hs_heap st1) r) /\
  (forall kr, In kr (hs_tbl st3) -> h_loc (snd kr) <> l).
Proof. exact results_stable. Qed.
Print Assumptions C17_results_stable.

(* The slice-level model, read through its heap, is the value-level model: same tables, same
   outcomes, for every history (so C17_refines, C17_inv, ... hold for it as well). *)
Theorem C17_heap_simulates : forall h,
  fst (run empty h) = proj (fst (hrun hempty h)) /\
  Forall2 (fun x y => exists hp, x = out_of hp y) (snd (run empty h)) (snd (hrun hempty h)).
Proof. exact heap_sim_empty. Qed.
Print Assumptions C17_heap_simulates.

Theorem C17_heap_simulates_step : forall now st o,
  hwf st ->
  hwf (fst (hstep now st o)) /\
  step now (proj st) o = (proj (fst (hstep now st o)), out_of (hs_heap (fst (hstep now st o))) (snd (hstep now st o))).
Proof. exact hstep_sim. Qed.
Print Assumptions C17_heap_simulates_step.

(* ---------------------------------------------------------------- schedules *)

(* Threads call the methods concurrently; a call is [Begin] (the body starts and sees the table)
   ... [End] (its effect, computed from what it saw, is stored; the call returns).  [sched] is
   the set of traces the Go scheduler can produce.  HYPOTHESIS (semantics of sync.RWMutex, not
   proved about the Go runtime): every such trace respects the lock — a writer begins only when
   no call is inside, QueryName (RLock) only when no writer is inside.  Then the completed calls,
   in order of completion, form a sequential history of the model with exactly the observed
   results and the final shared table: together with C17_refines every concurrent execution
   behaves like the atomic map. *)
Theorem C17_atomic : forall sched : list (ev (Z * op)) -> Prop,
  (forall tr, sched tr -> nt_respects nt_init tr) ->
  forall tr c, sched tr -> nt_exec nt_init tr = Some c ->
  run empty (ops_of (log c)) = (shared c, outs_of (log c)).
Proof. exact nt_atomic. Qed.
Print Assumptions C17_atomic.

(* The general statement, for any state machine whose readers change nothing. *)
Theorem C17_atomic_generic :
  forall (S Op Out : Type) (step : S -> Op -> S * Out) (reader : Op -> bool),
  (forall s o, reader o = true -> fst (step s o) = s) ->
  forall (sched : list (ev Op) -> Prop) (s0 : S),
  (forall tr, sched tr -> respects step reader (cinit s0) tr) ->
  forall tr c, sched tr -> exec step reader (cinit s0) tr = Some c ->
  seq_run step s0 (ops_of (log c)) = (shared c, outs_of (log c)).
Proof. exact atomic. Qed.
Print Assumptions C17_atomic_generic.

(* Without the lock the statement is false (two unlocked group registrations lose an owner): the
   hypothesis is what the lock discipline buys. *)
Theorem C17_atomic_needs_lock :
  exists c, nt_exec nt_init lost_trace = Some c /\
            outs_of (log c) = [OOk; OOk] /\
            fst (run empty (ops_of (log c))) <> shared c /\
            ~ nt_respects nt_init lost_trace.
Proof. exact lost_update. Qed.
Print Assumptions C17_atomic_needs_lock.

(* NameType values outside {Unique, Group} are outside the property: the code then lets a
   registration replace a held group name (no finding: the servers only pass Unique or Group). *)
Theorem C17_outside_alphabet :
  let h := [(0%Z, Register [65%N] ty_group [10; 0; 0; 1]%N 5%Z); (1%Z, Register [65%N] 2%N [10; 0; 0; 2]%N 5%Z);
            (2%Z, Query [65%N])] in
  snd (run empty h) = [OOk; OOk; OOwners [[10; 0; 0; 2]%N] 2%N].
Proof. exact untyped_takeover. Qed.
Print Assumptions C17_outside_alphabet.

(* Non-vacuity *)
Example C17_example_history :
  let A := [10; 0; 0; 1]%N in
  let A6 := [0; 0; 0; 0; 0; 0; 0; 0; 0; 0; 255; 255; 10; 0; 0; 1]%N in
  let B := [10; 0; 0; 2]%N in
  let h := [(0, Register [71%N] ty_group A 10); (1, Register [71%N] ty_group A6 10);
            (2, Register [71%N] ty_group B 10); (3, Query [71%N]); (4, Release [71%N] A6);
            (5, Query [71%N]); (6, Register [85%N] ty_unique A 10); (7, Register [85%N] ty_unique B 10);
            (20, CleanExpired); (21, Query [85%N])]%Z in
  hist_typed h /\
  snd (run empty h) = [OOk; OOk; OOk; OOwners [A; B] ty_group; OOk; OOwners [B] ty_group; OOk; OErr; OOk; OErr].
Proof.
  split; [|vm_compute; reflexivity].
  repeat (apply Forall_cons || apply Forall_nil); cbn; unfold ty_ok; auto.
Qed.

(* the mutex hypothesis is satisfiable: overlapping readers, exclusive writers *)
Example C17_example_trace :
  nt_respects nt_init good_trace /\
  exists c, nt_exec nt_init good_trace = Some c /\
            outs_of (log c) = [OOk; OOwners [[10; 0; 0; 1]%N] ty_group; OOwners [[10; 0; 0; 1]%N] ty_group; OOk].
Proof. split; [exact good_trace_respects|exact good_trace_runs]. Qed.

(* a query result survives the in-place removal that follows it *)
Example C17_example_stable :
  let A := [10; 0; 0; 1]%N in
  let B := [10; 0; 0; 2]%N in
  let h1 := [(0, Register [71%N] ty_group A 10); (1, Register [71%N] ty_group B 10)]%Z in
  let st1 := fst (hrun hempty h1) in
  let st2 := fst (hstep 2%Z st1 (Query [71%N])) in
  let st3 := fst (hrun st2 [(3, Release [71%N] A)]%Z) in
  snd (hstep 2%Z st1 (Query [71%N])) = HOwners 2 2 ty_group /\
  cell (hs_heap st3) 2 = [A; B] /\ cell (hs_heap st3) 1 = [B; B] /\
  tget (hs_tbl st3) [71%N] = Some (mkhrec ty_group st_active 1 1 11%Z 10%Z).
Proof. vm_compute. repeat split. Qed.
