(* ALGO (internal check, not a property of /repo) - the Gallina reference algorithms of Algo/*.v.
   Statements only; proofs are in Proofs/AlgoProofs.v.  Part 1: structural theorems for all
   inputs.  Part 2: the published test vectors of every standard, evaluated by vm_compute.
   Agreement with the Go standard library and x/crypto on generated inputs is checked by the
   differential run of harness/algo.go (DESIGN 4.5).  No cryptographic property is claimed. *)
From Coq Require Import List Arith NArith String.
From Mant Require Import Prim.Bytes Algo.Word Algo.Hex.
From Mant Require Import Algo.MD4 Algo.MD5 Algo.SHA1 Algo.SHA256 Algo.HMAC Algo.PBKDF2
  Algo.DES Algo.AES Algo.RC4 Algo.CMAC Algo.Base64 Algo.Utf16 Algo.Utf8 Proofs.AlgoProofs.
Import ListNotations.
Open Scope N_scope.
Open Scope string_scope.

(* ================================================================== *)
(* Part 1: structural theorems                                         *)

(* digest lengths and byte well-formedness *)
Theorem ALGO_md4_length : forall msg, List.length (md4 msg) = 16%nat.
Proof. exact md4_length. Qed.
Print Assumptions ALGO_md4_length.
Theorem ALGO_md4_wf : forall msg, wf_bytes (md4 msg).
Proof. exact md4_wf. Qed.
Print Assumptions ALGO_md4_wf.
Theorem ALGO_md4_pad_length : forall msg, Nat.modulo (List.length (md4_pad msg)) 64 = 0%nat.
Proof. exact md4_pad_length. Qed.
Print Assumptions ALGO_md4_pad_length.
Theorem ALGO_md5_length : forall msg, List.length (md5 msg) = 16%nat.
Proof. exact md5_length. Qed.
Print Assumptions ALGO_md5_length.
Theorem ALGO_md5_wf : forall msg, wf_bytes (md5 msg).
Proof. exact md5_wf. Qed.
Print Assumptions ALGO_md5_wf.
Theorem ALGO_sha1_length : forall msg, List.length (sha1 msg) = 20%nat.
Proof. exact sha1_length. Qed.
Print Assumptions ALGO_sha1_length.
Theorem ALGO_sha1_wf : forall msg, wf_bytes (sha1 msg).
Proof. exact sha1_wf. Qed.
Print Assumptions ALGO_sha1_wf.
Theorem ALGO_sha256_length : forall msg, List.length (sha256 msg) = 32%nat.
Proof. exact sha256_length. Qed.
Print Assumptions ALGO_sha256_length.
Theorem ALGO_sha256_wf : forall msg, wf_bytes (sha256 msg).
Proof. exact sha256_wf. Qed.
Print Assumptions ALGO_sha256_wf.

(* absorbing whole blocks first: the shape of streaming (Write/Sum) implementations *)
Theorem ALGO_words_le_app : forall a b,
  Nat.modulo (List.length a) 4 = 0%nat -> words_le (a ++ b)%list = (words_le a ++ words_le b)%list.
Proof. exact words_le_app. Qed.
Print Assumptions ALGO_words_le_app.
Theorem ALGO_fold_blocks16_app : forall (St : Type) (f : St -> list N -> St) st a b,
  Nat.modulo (List.length a) 16 = 0%nat ->
  fold_blocks16 f st (a ++ b)%list = fold_blocks16 f (fold_blocks16 f st a) b.
Proof. exact @fold_blocks16_app. Qed.
Print Assumptions ALGO_fold_blocks16_app.
Theorem ALGO_md4_split : forall a b, Nat.modulo (List.length a) 64 = 0%nat ->
  md4 (a ++ b)%list =
  md4_output (md4_blocks (md4_blocks md4_init (words_le a)) (words_le (md_pad_le_from (lenN a) b))).
Proof. exact md4_split. Qed.
Print Assumptions ALGO_md4_split.

(* HMAC: the tag has the length of the hash output (generic, then the three instances) *)
Theorem ALGO_hmac_length : forall (H : list N -> list N) (n : nat), (forall x, List.length (H x) = n) ->
  forall B key text, List.length (hmac H B key text) = n.
Proof. exact hmac_length. Qed.
Print Assumptions ALGO_hmac_length.
Theorem ALGO_hmac_md5_length : forall key text, List.length (hmac_md5 key text) = 16%nat.
Proof. exact hmac_md5_length. Qed.
Print Assumptions ALGO_hmac_md5_length.
Theorem ALGO_hmac_sha1_length : forall key text, List.length (hmac_sha1 key text) = 20%nat.
Proof. exact hmac_sha1_length. Qed.
Print Assumptions ALGO_hmac_sha1_length.
Theorem ALGO_hmac_sha256_length : forall key text, List.length (hmac_sha256 key text) = 32%nat.
Proof. exact hmac_sha256_length. Qed.
Print Assumptions ALGO_hmac_sha256_length.
Theorem ALGO_hmac_md5_wf : forall key text, wf_bytes (hmac_md5 key text).
Proof. exact hmac_md5_wf. Qed.
Print Assumptions ALGO_hmac_md5_wf.
Theorem ALGO_hmac_sha1_wf : forall key text, wf_bytes (hmac_sha1 key text).
Proof. exact hmac_sha1_wf. Qed.
Print Assumptions ALGO_hmac_sha1_wf.
Theorem ALGO_hmac_sha256_wf : forall key text, wf_bytes (hmac_sha256 key text).
Proof. exact hmac_sha256_wf. Qed.
Print Assumptions ALGO_hmac_sha256_wf.

(* PBKDF2: the derived key has exactly the requested length, for every iteration count *)
Theorem ALGO_pbkdf2_length : forall (PRF : list N -> list N -> list N) (hLen : nat),
  (forall k t, List.length (PRF k t) = hLen) -> (0 < hLen)%nat ->
  forall P S c dkLen, List.length (pbkdf2 PRF hLen P S c dkLen) = dkLen.
Proof. exact pbkdf2_length. Qed.
Print Assumptions ALGO_pbkdf2_length.
Theorem ALGO_pbkdf2_hmac_sha1_length : forall P S c dkLen, List.length (pbkdf2_hmac_sha1 P S c dkLen) = dkLen.
Proof. exact pbkdf2_hmac_sha1_length. Qed.
Print Assumptions ALGO_pbkdf2_hmac_sha1_length.
Theorem ALGO_pbkdf2_hmac_sha1_wf : forall P S c dkLen, wf_bytes (pbkdf2_hmac_sha1 P S c dkLen).
Proof. exact pbkdf2_hmac_sha1_wf. Qed.
Print Assumptions ALGO_pbkdf2_hmac_sha1_wf.
(* the executable fast form (HMAC key blocks absorbed once) is the specification *)
Theorem ALGO_hmac_sha1_keyed_eq : forall key text, hmac_sha1_keyed key text = hmac_sha1 key text.
Proof. exact hmac_sha1_keyed_eq. Qed.
Print Assumptions ALGO_hmac_sha1_keyed_eq.
Theorem ALGO_pbkdf2_hmac_sha1_fast_eq : forall P S c dkLen,
  pbkdf2_hmac_sha1_fast P S c dkLen = pbkdf2_hmac_sha1 P S c dkLen.
Proof. exact pbkdf2_hmac_sha1_fast_eq. Qed.
Print Assumptions ALGO_pbkdf2_hmac_sha1_fast_eq.
Theorem ALGO_pbkdf2_hmac_sha256_length : forall P S c dkLen, List.length (pbkdf2_hmac_sha256 P S c dkLen) = dkLen.
Proof. exact pbkdf2_hmac_sha256_length. Qed.
Print Assumptions ALGO_pbkdf2_hmac_sha256_length.

(* DES and AES: one block in, one block out *)
Theorem ALGO_des_encrypt_length : forall key block, List.length (des_encrypt key block) = 8%nat.
Proof. exact des_encrypt_length. Qed.
Print Assumptions ALGO_des_encrypt_length.
Theorem ALGO_des_decrypt_length : forall key block, List.length (des_decrypt key block) = 8%nat.
Proof. exact des_decrypt_length. Qed.
Print Assumptions ALGO_des_decrypt_length.
Theorem ALGO_des_encrypt_wf : forall key block, wf_bytes (des_encrypt key block).
Proof. exact des_encrypt_wf. Qed.
Print Assumptions ALGO_des_encrypt_wf.
Theorem ALGO_des_decrypt_wf : forall key block, wf_bytes (des_decrypt key block).
Proof. exact des_decrypt_wf. Qed.
Print Assumptions ALGO_des_decrypt_wf.
Theorem ALGO_str_to_key_length : forall k7, List.length k7 = 7%nat -> List.length (str_to_key k7) = 8%nat.
Proof. exact str_to_key_length. Qed.
Print Assumptions ALGO_str_to_key_length.
Theorem ALGO_str_to_key_wf : forall k7, wf_bytes (str_to_key k7).
Proof. exact str_to_key_wf. Qed.
Print Assumptions ALGO_str_to_key_wf.
Theorem ALGO_aes_encrypt_length : forall key block, List.length block = 16%nat -> List.length (aes_encrypt key block) = 16%nat.
Proof. exact aes_encrypt_length. Qed.
Print Assumptions ALGO_aes_encrypt_length.
Theorem ALGO_aes_decrypt_length : forall key block, List.length block = 16%nat -> List.length (aes_decrypt key block) = 16%nat.
Proof. exact aes_decrypt_length. Qed.
Print Assumptions ALGO_aes_decrypt_length.
Theorem ALGO_aes_encrypt_wf : forall key block, wf_bytes key -> wf_bytes block -> wf_bytes (aes_encrypt key block).
Proof. exact aes_encrypt_wf. Qed.
Print Assumptions ALGO_aes_encrypt_wf.
Theorem ALGO_aes_decrypt_wf : forall key block, wf_bytes key -> wf_bytes block -> wf_bytes (aes_decrypt key block).
Proof. exact aes_decrypt_wf. Qed.
Print Assumptions ALGO_aes_decrypt_wf.
Theorem ALGO_cbc_encrypt_blocks_length : forall E iv blocks, List.length (cbc_encrypt_blocks E iv blocks) = List.length blocks.
Proof. exact cbc_encrypt_blocks_length. Qed.
Print Assumptions ALGO_cbc_encrypt_blocks_length.
Theorem ALGO_cbc_decrypt_blocks_length : forall D iv blocks, List.length (cbc_decrypt_blocks D iv blocks) = List.length blocks.
Proof. exact cbc_decrypt_blocks_length. Qed.
Print Assumptions ALGO_cbc_decrypt_blocks_length.

(* RC4 and CMAC *)
Theorem ALGO_rc4_length : forall key data, List.length (rc4 key data) = List.length data.
Proof. exact rc4_length. Qed.
Print Assumptions ALGO_rc4_length.
Theorem ALGO_rc4_wf : forall key data, wf_bytes data -> wf_bytes (rc4 key data).
Proof. exact rc4_wf. Qed.
Print Assumptions ALGO_rc4_wf.
Theorem ALGO_cmac_length : forall (E : list N -> list N) (bsz : nat), (forall x, List.length (E x) = bsz) ->
  forall msg, List.length (cmac_spec E bsz msg) = bsz.
Proof. exact cmac_length. Qed.
Print Assumptions ALGO_cmac_length.
Theorem ALGO_cmac_des_length : forall key msg, List.length (cmac_des key msg) = 8%nat.
Proof. exact cmac_des_length. Qed.
Print Assumptions ALGO_cmac_des_length.
Theorem ALGO_cmac_des_wf : forall key msg, wf_bytes (cmac_des key msg).
Proof. exact cmac_des_wf. Qed.
Print Assumptions ALGO_cmac_des_wf.
Theorem ALGO_cmac_aes_length : forall key msg, List.length (cmac_aes key msg) = 16%nat.
Proof. exact cmac_aes_length. Qed.
Print Assumptions ALGO_cmac_aes_length.

(* Base64, UTF-16, UTF-8: decoding an encoding gives back the input, for ALL inputs *)
Theorem ALGO_b64_decode_encode : forall l, wf_bytes l -> b64_decode (b64_encode l) = Some l.
Proof. exact b64_decode_encode. Qed.
Print Assumptions ALGO_b64_decode_encode.
Theorem ALGO_b64_encode_length : forall l, List.length (b64_encode l) = (4 * ((List.length l + 2) / 3))%nat.
Proof. exact b64_encode_length. Qed.
Print Assumptions ALGO_b64_encode_length.
Theorem ALGO_utf16_decode_encode : forall cps, Forall scalar_value cps -> utf16_decode (utf16_encode cps) = cps.
Proof. exact utf16_decode_encode. Qed.
Print Assumptions ALGO_utf16_decode_encode.
Theorem ALGO_utf16le_decode_encode : forall cps, Forall scalar_value cps -> utf16le_decode (utf16le_encode cps) = cps.
Proof. exact utf16le_decode_encode. Qed.
Print Assumptions ALGO_utf16le_decode_encode.
Theorem ALGO_utf16le_encode_wf : forall cps, wf_bytes (utf16le_encode cps).
Proof. exact utf16le_encode_wf. Qed.
Print Assumptions ALGO_utf16le_encode_wf.
Theorem ALGO_utf16_encode_bmp : forall cps, Forall (fun c => c < 0xD800 \/ (0xE000 <= c /\ c < 0x10000)) cps -> utf16_encode cps = cps.
Proof. exact utf16_encode_bmp. Qed.
Print Assumptions ALGO_utf16_encode_bmp.
Theorem ALGO_utf8_decode_encode : forall cps, Forall scalar_value cps -> utf8_decode (utf8_encode cps) = Some cps.
Proof. exact utf8_decode_encode. Qed.
Print Assumptions ALGO_utf8_decode_encode.
Theorem ALGO_utf8_encode_wf : forall cps, wf_bytes (utf8_encode cps).
Proof. exact utf8_encode_wf. Qed.
Print Assumptions ALGO_utf8_encode_wf.

(* ================================================================== *)
(* Part 2: published test vectors                                      *)

Definition a80 : string := "12345678901234567890123456789012345678901234567890123456789012345678901234567890".
Definition a62 : string := "ABCDEFGHIJKLMNOPQRSTUVWXYZabcdefghijklmnopqrstuvwxyz0123456789".
Definition a26 : string := "abcdefghijklmnopqrstuvwxyz".
Definition a448 : string := "abcdbcdecdefdefgefghfghighijhijkijkljklmklmnlmnomnopnopq".

(* RFC 1320 appendix A.5 *)
Example rfc1320_1 :
  md4 (str "")
  = hex "31d6cfe0d16ae931b73c59d7e0c089c0".
Proof. vm_compute. reflexivity. Qed.
Example rfc1320_2 :
  md4 (str "a")
  = hex "bde52cb31de33e46245e05fbdbd6fb24".
Proof. vm_compute. reflexivity. Qed.
Example rfc1320_3 :
  md4 (str "abc")
  = hex "a448017aaf21d8525fc10ae87aa6729d".
Proof. vm_compute. reflexivity. Qed.
Example rfc1320_4 :
  md4 (str "message digest")
  = hex "d9130a8164549fe818874806e1c7014b".
Proof. vm_compute. reflexivity. Qed.
Example rfc1320_5 :
  md4 (str a26)
  = hex "d79e1c308aa5bbcdeea8ed63df412da9".
Proof. vm_compute. reflexivity. Qed.
Example rfc1320_6 :
  md4 (str a62)
  = hex "043f8582f241db351ce627e153e7f0e4".
Proof. vm_compute. reflexivity. Qed.
Example rfc1320_7 :
  md4 (str a80)
  = hex "e33b4ddc9c38f2199c3e7b164fcc0536".
Proof. vm_compute. reflexivity. Qed.

(* RFC 1321 appendix A.5 *)
Example rfc1321_1 :
  md5 (str "")
  = hex "d41d8cd98f00b204e9800998ecf8427e".
Proof. vm_compute. reflexivity. Qed.
Example rfc1321_2 :
  md5 (str "a")
  = hex "0cc175b9c0f1b6a831c399e269772661".
Proof. vm_compute. reflexivity. Qed.
Example rfc1321_3 :
  md5 (str "abc")
  = hex "900150983cd24fb0d6963f7d28e17f72".
Proof. vm_compute. reflexivity. Qed.
Example rfc1321_4 :
  md5 (str "message digest")
  = hex "f96b697d7cb7938d525a2f31aaf161d0".
Proof. vm_compute. reflexivity. Qed.
Example rfc1321_5 :
  md5 (str a26)
  = hex "c3fcd3d76192e4007dfb496cca67e13b".
Proof. vm_compute. reflexivity. Qed.
Example rfc1321_6 :
  md5 (str a62)
  = hex "d174ab98d277d9f5a5611c2c9f419d9f".
Proof. vm_compute. reflexivity. Qed.
Example rfc1321_7 :
  md5 (str a80)
  = hex "57edf4a22be3c955ac49da2e2107b67a".
Proof. vm_compute. reflexivity. Qed.

(* FIPS 180-4 examples (SHA-1, SHA-256: "abc", the 448-bit message) and the empty message *)
Example fips180_sha1_abc :
  sha1 (str "abc")
  = hex "a9993e364706816aba3e25717850c26c9cd0d89d".
Proof. vm_compute. reflexivity. Qed.
Example fips180_sha1_448 :
  sha1 (str a448)
  = hex "84983e441c3bd26ebaae4aa1f95129e5e54670f1".
Proof. vm_compute. reflexivity. Qed.
Example fips180_sha1_empty :
  sha1 []
  = hex "da39a3ee5e6b4b0d3255bfef95601890afd80709".
Proof. vm_compute. reflexivity. Qed.
Example fips180_sha256_abc :
  sha256 (str "abc")
  = hex "ba7816bf8f01cfea414140de5dae2223b00361a396177a9cb410ff61f20015ad".
Proof. vm_compute. reflexivity. Qed.
Example fips180_sha256_448 :
  sha256 (str a448)
  = hex "248d6a61d20638b8e5c026930c3e6039a33ce45964ff2167f6ecedd419db06c1".
Proof. vm_compute. reflexivity. Qed.
Example fips180_sha256_empty :
  sha256 []
  = hex "e3b0c44298fc1c149afbf4c8996fb92427ae41e4649b934ca495991b7852b855".
Proof. vm_compute. reflexivity. Qed.

(* RFC 2202: HMAC-MD5 and HMAC-SHA-1 test cases 1-7; RFC 4231: HMAC-SHA-256 test cases 1-2 *)
Example rfc2202_md5_1 :
  hmac_md5 (repeat 0x0b 16) (str "Hi There")
  = hex "9294727a3638bb1c13f48ef8158bfc9d".
Proof. vm_compute. reflexivity. Qed.
Example rfc2202_md5_2 :
  hmac_md5 (str "Jefe") (str "what do ya want for nothing?")
  = hex "750c783e6ab0b503eaa86e310a5db738".
Proof. vm_compute. reflexivity. Qed.
Example rfc2202_md5_3 :
  hmac_md5 (repeat 0xaa 16) (repeat 0xdd 50)
  = hex "56be34521d144c88dbb8c733f0e8b3f6".
Proof. vm_compute. reflexivity. Qed.
Example rfc2202_md5_4 :
  hmac_md5 (hex "0102030405060708090a0b0c0d0e0f10111213141516171819") (repeat 0xcd 50)
  = hex "697eaf0aca3a3aea3a75164746ffaa79".
Proof. vm_compute. reflexivity. Qed.
Example rfc2202_md5_5 :
  hmac_md5 (repeat 0x0c 16) (str "Test With Truncation")
  = hex "56461ef2342edc00f9bab995690efd4c".
Proof. vm_compute. reflexivity. Qed.
Example rfc2202_md5_6 :
  hmac_md5 (repeat 0xaa 80) (str "Test Using Larger Than Block-Size Key - Hash Key First")
  = hex "6b1ab7fe4bd7bf8f0b62e6ce61b9d0cd".
Proof. vm_compute. reflexivity. Qed.
Example rfc2202_md5_7 :
  hmac_md5 (repeat 0xaa 80) (str "Test Using Larger Than Block-Size Key and Larger Than One Block-Size Data")
  = hex "6f630fad67cda0ee1fb1f562db3aa53e".
Proof. vm_compute. reflexivity. Qed.
Example rfc2202_sha1_1 :
  hmac_sha1 (repeat 0x0b 20) (str "Hi There")
  = hex "b617318655057264e28bc0b6fb378c8ef146be00".
Proof. vm_compute. reflexivity. Qed.
Example rfc2202_sha1_2 :
  hmac_sha1 (str "Jefe") (str "what do ya want for nothing?")
  = hex "effcdf6ae5eb2fa2d27416d5f184df9c259a7c79".
Proof. vm_compute. reflexivity. Qed.
Example rfc2202_sha1_3 :
  hmac_sha1 (repeat 0xaa 20) (repeat 0xdd 50)
  = hex "125d7342b9ac11cd91a39af48aa17b4f63f175d3".
Proof. vm_compute. reflexivity. Qed.
Example rfc2202_sha1_4 :
  hmac_sha1 (hex "0102030405060708090a0b0c0d0e0f10111213141516171819") (repeat 0xcd 50)
  = hex "4c9007f4026250c6bc8414f9bf50c86c2d7235da".
Proof. vm_compute. reflexivity. Qed.
Example rfc2202_sha1_5 :
  hmac_sha1 (repeat 0x0c 20) (str "Test With Truncation")
  = hex "4c1a03424b55e07fe7f27be1d58bb9324a9a5a04".
Proof. vm_compute. reflexivity. Qed.
Example rfc2202_sha1_6 :
  hmac_sha1 (repeat 0xaa 80) (str "Test Using Larger Than Block-Size Key - Hash Key First")
  = hex "aa4ae5e15272d00e95705637ce8a3b55ed402112".
Proof. vm_compute. reflexivity. Qed.
Example rfc2202_sha1_7 :
  hmac_sha1 (repeat 0xaa 80) (str "Test Using Larger Than Block-Size Key and Larger Than One Block-Size Data")
  = hex "e8e99d0f45237d786d6bbaa7965c7808bbff1a91".
Proof. vm_compute. reflexivity. Qed.
Example rfc4231_1 :
  hmac_sha256 (repeat 0x0b 20) (str "Hi There")
  = hex "b0344c61d8db38535ca8afceaf0bf12b881dc200c9833da726e9376c2e32cff7".
Proof. vm_compute. reflexivity. Qed.
Example rfc4231_2 :
  hmac_sha256 (str "Jefe") (str "what do ya want for nothing?")
  = hex "5bdcc146bf60754e6a042426089575c75a003f089d2739839dec58b964ec3843".
Proof. vm_compute. reflexivity. Qed.

(* RFC 6070: PBKDF2-HMAC-SHA-1, iteration counts 1 and 2 (the vectors with 4096 and more iterations
   are run in the thorough differential tier); RFC 7914 section 11: PBKDF2-HMAC-SHA-256, count 1 *)
Example rfc6070_1 :
  pbkdf2_hmac_sha1 (str "password") (str "salt") 1 20
  = hex "0c60c80f961f0e71f3a9b524af6012062fe037a6".
Proof. vm_compute. reflexivity. Qed.
Example rfc6070_2 :
  pbkdf2_hmac_sha1 (str "password") (str "salt") 2 20
  = hex "ea6c014dc72d6f8ccd1ed92ace1d41f0d8de8957".
Proof. vm_compute. reflexivity. Qed.
Example pbkdf2_two_blocks :
  pbkdf2_hmac_sha1 (str "passwordPASSWORDpassword") (str "saltSALTsaltSALTsaltSALTsaltSALTsalt") 3 25
  = hex "12bff094c08980616953161b483d7890d5c26e2b22e694bac5".
Proof. vm_compute. reflexivity. Qed.
Example pbkdf2_sha256_1 :
  pbkdf2_hmac_sha256 (str "password") (str "salt") 1 32
  = hex "120fb6cffcf8b32c43e7225256c4f837a86548c92ccc35480805987cb70be17b".
Proof. vm_compute. reflexivity. Qed.

(* DES known answers: the worked example of the DES literature (key 133457799BBCDFF1), NBS SP 500-20
   variable-plaintext vector, and the LM-hash constant under the all-zero 7-byte key *)
Example des_kat_1 :
  des_encrypt (hex "133457799BBCDFF1") (hex "0123456789ABCDEF")
  = hex "85E813540F0AB405".
Proof. vm_compute. reflexivity. Qed.
Example des_kat_1_dec :
  des_decrypt (hex "133457799BBCDFF1") (hex "85E813540F0AB405")
  = hex "0123456789ABCDEF".
Proof. vm_compute. reflexivity. Qed.
Example des_kat_2 :
  des_encrypt (hex "0101010101010101") (hex "8000000000000000")
  = hex "95F8A5E5DD31D900".
Proof. vm_compute. reflexivity. Qed.
Example des_kat_2_dec :
  des_decrypt (hex "0101010101010101") (hex "95F8A5E5DD31D900")
  = hex "8000000000000000".
Proof. vm_compute. reflexivity. Qed.
Example des_lm_empty :
  des7_encrypt (repeat 0 7) (str "KGS!@#$%")
  = hex "AAD3B435B51404EE".
Proof. vm_compute. reflexivity. Qed.
Example str_to_key_zero :
  str_to_key (repeat 0 7)
  = hex "0101010101010101".
Proof. vm_compute. reflexivity. Qed.
Example str_to_key_ones :
  str_to_key (repeat 0xff 7)
  = hex "fefefefefefefefe".
Proof. vm_compute. reflexivity. Qed.

(* FIPS 197 appendix B and appendix C.1, C.2, C.3 (both directions) *)
Example fips197_B :
  aes128_encrypt (hex "2b7e151628aed2a6abf7158809cf4f3c") (hex "3243f6a8885a308d313198a2e0370734")
  = hex "3925841d02dc09fbdc118597196a0b32".
Proof. vm_compute. reflexivity. Qed.
Example fips197_C1_enc :
  aes_encrypt (hex "000102030405060708090a0b0c0d0e0f") (hex "00112233445566778899aabbccddeeff")
  = hex "69c4e0d86a7b0430d8cdb78070b4c55a".
Proof. vm_compute. reflexivity. Qed.
Example fips197_C1_dec :
  aes_decrypt (hex "000102030405060708090a0b0c0d0e0f") (hex "69c4e0d86a7b0430d8cdb78070b4c55a")
  = hex "00112233445566778899aabbccddeeff".
Proof. vm_compute. reflexivity. Qed.
Example fips197_C2_enc :
  aes_encrypt (hex "000102030405060708090a0b0c0d0e0f1011121314151617") (hex "00112233445566778899aabbccddeeff")
  = hex "dda97ca4864cdfe06eaf70a0ec0d7191".
Proof. vm_compute. reflexivity. Qed.
Example fips197_C2_dec :
  aes_decrypt (hex "000102030405060708090a0b0c0d0e0f1011121314151617") (hex "dda97ca4864cdfe06eaf70a0ec0d7191")
  = hex "00112233445566778899aabbccddeeff".
Proof. vm_compute. reflexivity. Qed.
Example fips197_C3_enc :
  aes_encrypt (hex "000102030405060708090a0b0c0d0e0f101112131415161718191a1b1c1d1e1f") (hex "00112233445566778899aabbccddeeff")
  = hex "8ea2b7ca516745bfeafc49904b496089".
Proof. vm_compute. reflexivity. Qed.
Example fips197_C3_dec :
  aes_decrypt (hex "000102030405060708090a0b0c0d0e0f101112131415161718191a1b1c1d1e1f") (hex "8ea2b7ca516745bfeafc49904b496089")
  = hex "00112233445566778899aabbccddeeff".
Proof. vm_compute. reflexivity. Qed.

(* NIST SP 800-38A F.2.5 / F.2.6: CBC-AES256, first two blocks *)
Example sp800_38a_cbc_enc :
  aes_cbc_encrypt (hex "603deb1015ca71be2b73aef0857d77811f352c073b6108d72d9810a30914dff4") (hex "000102030405060708090a0b0c0d0e0f") (hex "6bc1bee22e409f96e93d7e117393172aae2d8a571e03ac9c9eb76fac45af8e51")
  = hex "f58c4c04d6e5f1ba779eabfb5f7bfbd69cfc4e967edb808d679f777bc6702c7d".
Proof. vm_compute. reflexivity. Qed.
Example sp800_38a_cbc_dec :
  aes_cbc_decrypt (hex "603deb1015ca71be2b73aef0857d77811f352c073b6108d72d9810a30914dff4") (hex "000102030405060708090a0b0c0d0e0f") (hex "f58c4c04d6e5f1ba779eabfb5f7bfbd69cfc4e967edb808d679f777bc6702c7d")
  = hex "6bc1bee22e409f96e93d7e117393172aae2d8a571e03ac9c9eb76fac45af8e51".
Proof. vm_compute. reflexivity. Qed.

(* RFC 6229: key stream at offsets 0 and 16 for the 40-, 56-, 64-, 128- and 256-bit keys 0x0102... *)
Example rfc6229_40 :
  rc4_keystream (hex "0102030405") 32
  = hex "b2396305f03dc027ccc3524a0a1118a86982944f18fc82d589c403a47a0d0919".
Proof. vm_compute. reflexivity. Qed.
Example rfc6229_56 :
  rc4_keystream (hex "01020304050607") 32
  = hex "293f02d47f37c9b633f2af5285feb46be620f1390d19bd84e2e0fd752031afc1".
Proof. vm_compute. reflexivity. Qed.
Example rfc6229_64 :
  rc4_keystream (hex "0102030405060708") 32
  = hex "97ab8a1bf0afb96132f2f67258da15a88263efdb45c4a18684ef87e6b19e5b09".
Proof. vm_compute. reflexivity. Qed.
Example rfc6229_128 :
  rc4_keystream (hex "0102030405060708090a0b0c0d0e0f10") 32
  = hex "9ac7cc9a609d1ef7b2932899cde41b975248c4959014126a6e8a84f11d1a9e1c".
Proof. vm_compute. reflexivity. Qed.
Example rfc6229_256 :
  rc4_keystream (hex "0102030405060708090a0b0c0d0e0f101112131415161718191a1b1c1d1e1f20") 32
  = hex "eaa6bd25880bf93d3f5d1e4ca2611d91cfa45c9f7e714b54bdfa80027cb14380".
Proof. vm_compute. reflexivity. Qed.
Example rc4_wikipedia :
  rc4 (str "Key") (str "Plaintext")
  = hex "BBF316E8D940AF0AD3".
Proof. vm_compute. reflexivity. Qed.

(* RFC 4493 section 4: subkey generation and examples 1-4, with the AES-128 of Algo/AES.v *)
Example rfc4493_subkeys :
  cmac_subkeys (aes128_encrypt (hex "2b7e151628aed2a6abf7158809cf4f3c")) 16
  = (hex "fbeed618357133667c85e08f7236a8de", hex "f7ddac306ae266ccf90bc11ee46d513b").
Proof. vm_compute. reflexivity. Qed.
Example rfc4493_1 :
  cmac_spec (aes128_encrypt (hex "2b7e151628aed2a6abf7158809cf4f3c")) 16 (hex "")
  = hex "bb1d6929e95937287fa37d129b756746".
Proof. vm_compute. reflexivity. Qed.
Example rfc4493_2 :
  cmac_spec (aes128_encrypt (hex "2b7e151628aed2a6abf7158809cf4f3c")) 16 (hex "6bc1bee22e409f96e93d7e117393172a")
  = hex "070a16b46b4d4144f79bdd9dd04a287c".
Proof. vm_compute. reflexivity. Qed.
Example rfc4493_3 :
  cmac_spec (aes128_encrypt (hex "2b7e151628aed2a6abf7158809cf4f3c")) 16 (hex "6bc1bee22e409f96e93d7e117393172aae2d8a571e03ac9c9eb76fac45af8e5130c81c46a35ce411")
  = hex "dfa66747de9ae63030ca32611497c827".
Proof. vm_compute. reflexivity. Qed.
Example rfc4493_4 :
  cmac_spec (aes128_encrypt (hex "2b7e151628aed2a6abf7158809cf4f3c")) 16 (hex "6bc1bee22e409f96e93d7e117393172aae2d8a571e03ac9c9eb76fac45af8e5130c81c46a35ce411e5fbc1191a0a52eff69f2445df4f9b17ad2b417be66c3710")
  = hex "51f0bebf7e3b9d92fc49741779363cfe".
Proof. vm_compute. reflexivity. Qed.
Example rfc4493_4_instance :
  cmac_aes (hex "2b7e151628aed2a6abf7158809cf4f3c") (hex "6bc1bee22e409f96e93d7e117393172aae2d8a571e03ac9c9eb76fac45af8e5130c81c46a35ce411e5fbc1191a0a52eff69f2445df4f9b17ad2b417be66c3710")
  = hex "51f0bebf7e3b9d92fc49741779363cfe".
Proof. vm_compute. reflexivity. Qed.

(* RFC 4648 section 10 *)
Example rfc4648_enc_0 :
  b64_encode (str "")
  = str "".
Proof. vm_compute. reflexivity. Qed.
Example rfc4648_dec_0 :
  b64_decode (str "")
  = Some (str "").
Proof. vm_compute. reflexivity. Qed.
Example rfc4648_enc_1 :
  b64_encode (str "f")
  = str "Zg==".
Proof. vm_compute. reflexivity. Qed.
Example rfc4648_dec_1 :
  b64_decode (str "Zg==")
  = Some (str "f").
Proof. vm_compute. reflexivity. Qed.
Example rfc4648_enc_2 :
  b64_encode (str "fo")
  = str "Zm8=".
Proof. vm_compute. reflexivity. Qed.
Example rfc4648_dec_2 :
  b64_decode (str "Zm8=")
  = Some (str "fo").
Proof. vm_compute. reflexivity. Qed.
Example rfc4648_enc_3 :
  b64_encode (str "foo")
  = str "Zm9v".
Proof. vm_compute. reflexivity. Qed.
Example rfc4648_dec_3 :
  b64_decode (str "Zm9v")
  = Some (str "foo").
Proof. vm_compute. reflexivity. Qed.
Example rfc4648_enc_4 :
  b64_encode (str "foob")
  = str "Zm9vYg==".
Proof. vm_compute. reflexivity. Qed.
Example rfc4648_dec_4 :
  b64_decode (str "Zm9vYg==")
  = Some (str "foob").
Proof. vm_compute. reflexivity. Qed.
Example rfc4648_enc_5 :
  b64_encode (str "fooba")
  = str "Zm9vYmE=".
Proof. vm_compute. reflexivity. Qed.
Example rfc4648_dec_5 :
  b64_decode (str "Zm9vYmE=")
  = Some (str "fooba").
Proof. vm_compute. reflexivity. Qed.
Example rfc4648_enc_6 :
  b64_encode (str "foobar")
  = str "Zm9vYmFy".
Proof. vm_compute. reflexivity. Qed.
Example rfc4648_dec_6 :
  b64_decode (str "Zm9vYmFy")
  = Some (str "foobar").
Proof. vm_compute. reflexivity. Qed.
Example b64_reject_unpadded :
  b64_decode (str "Zm9vYg")
  = None.
Proof. vm_compute. reflexivity. Qed.
Example b64_reject_alphabet :
  b64_decode (str "Zm9v-mFy")
  = None.
Proof. vm_compute. reflexivity. Qed.

(* RFC 2781 section 2 (U+12345 = D808 DF45) and RFC 3629 section 7 *)
Example rfc2781_enc :
  utf16_encode [0x12345]
  = [0xD808; 0xDF45].
Proof. vm_compute. reflexivity. Qed.
Example rfc2781_dec :
  utf16_decode [0xD808; 0xDF45]
  = [0x12345].
Proof. vm_compute. reflexivity. Qed.
Example utf16le_enc :
  utf16le_encode [0x41; 0x20AC; 0x1F600]
  = hex "4100 AC20 3DD8 00DE".
Proof. vm_compute. reflexivity. Qed.
Example rfc3629_1 :
  utf8_encode [0x41; 0x2262; 0x391; 0x2E]
  = hex "41 E2 89 A2 CE 91 2E".
Proof. vm_compute. reflexivity. Qed.
Example rfc3629_2 :
  utf8_encode [0xD55C; 0xAD6D; 0xC5B4]
  = hex "ED 95 9C EA B5 AD EC 96 B4".
Proof. vm_compute. reflexivity. Qed.
Example rfc3629_3 :
  utf8_decode (hex "EF BB BF F0 A3 8E B4")
  = Some [0xFEFF; 0x233B4].
Proof. vm_compute. reflexivity. Qed.
Example rfc3629_overlong :
  utf8_decode (hex "C0 80")
  = None.
Proof. vm_compute. reflexivity. Qed.
Example rfc3629_surrogate :
  utf8_decode (hex "ED A0 80")
  = None.
Proof. vm_compute. reflexivity. Qed.
