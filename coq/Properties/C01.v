(* C01 — Password-hash primitives equal their reference algorithms on every input.
   Statements only; proofs are in Proofs/C01Md4Compress.v, C01Md4Stream.v, C01Text.v, C01Lm.v, C01Hashes.v,
   C01CaseTable.v, C01Main.v.  Models: Model/Md4Go.v (crypto/md4), Model/C01Text.v (utils/encoding/utf16 + the Go string
   library pieces), Model/NtLmDcc.v (crypto/nt, lm, dcc, dcc2).  Specification: Spec/C01.v over the shared
   references Algo/MD4 (RFC 1320), Utf16 (RFC 2781), Utf8 (RFC 3629), DES (FIPS 46-3 + MS-NLMP str_to_key),
   PBKDF2/HMAC/SHA1 (RFC 8018 / 2104 / FIPS 180). *)
From Coq Require Import List NArith ZArith Lia Bool.
From Mant Require Import Prim.R Prim.Bytes Prim.Dec Algo.Word Algo.MD4 Algo.DES Algo.PBKDF2 Algo.Utf16 Algo.Utf8
  Gen.ConstsC01 Model.Md4Go Model.C01Text Model.NtLmDcc Spec.C01
  Proofs.C01Md4Compress Proofs.C01Md4Stream Proofs.C01Text Proofs.C01Lm Proofs.C01Hashes Proofs.C01CaseTable Proofs.C01Main.
Import ListNotations.
Open Scope N_scope.

(* ================================================================== MD4 *)

(* The three bit-level identities behind ff/gg/hh, for ALL 32-bit words (no sampling). *)
Theorem C01_md4_bit_identities : forall b c d, b < 2 ^ 32 -> c < 2 ^ 32 -> d < 2 ^ 32 ->
  N.lxor d (N.land b (N.lxor c d)) = md4_F b c d /\
  N.lor (N.land b c) (N.land d (N.lor b c)) = md4_G b c d /\
  N.lxor (N.lxor b c) d = md4_H b c d.
Proof. exact main_md4_bit_identities. Qed.
Print Assumptions C01_md4_bit_identities.

(* processChunk — the 48 statements as the source writes them (go_schedule, compared with the source on every
   run), ff/gg/hh/rol with uint32 wrap-around — is the compression function of RFC 1320 section 3.4, for every
   state of four 32-bit words and every block. *)
Theorem C01_md4_compress : forall a b c d chunk, a < 2 ^ 32 -> b < 2 ^ 32 -> c < 2 ^ 32 -> d < 2 ^ 32 ->
  process_chunk (a, b, c, d) chunk = md4_compress (a, b, c, d) (words_le chunk).
Proof. exact main_md4_compress. Qed.
Print Assumptions C01_md4_compress.

(* Streaming: however the message is cut into successive writes (any number of chunks, any lengths, empty chunks
   included), Sum returns RFC 1320's digest of the concatenation.  The property text restricts to
   8 * total length < 2^64; the theorem needs no bound, because the bit counter wraps exactly as RFC 1320
   section 3.2 prescribes (low-order 64 bits of the length). *)
Theorem C01_md4_streaming : forall chunks,
  fst (md4_sum (fold_left md4_write chunks md4_new)) = md4 (concat chunks).
Proof. exact md4_streaming. Qed.
Print Assumptions C01_md4_streaming.

(* md4.Sum(data), the one-shot function. *)
Theorem C01_md4_oneshot : forall data, md4_sum_data data = md4 data.
Proof. exact md4_sum_data_rfc. Qed.
Print Assumptions C01_md4_oneshot.

(* Reading the digest changes nothing: in every history of Write(p) / Sum() / HexSum() calls on one object,
   each read returns the digest (raw, resp. lower-case hexadecimal) of the concatenation of all earlier writes. *)
Theorem C01_md4_reads_pure : forall ops,
  md4_run md4_new ops = reads_spec md4 [] (map spec_op ops).
Proof. exact md4_reads_pure. Qed.
Print Assumptions C01_md4_reads_pure.

(* ... because Sum leaves the object as it found it (repaired behaviour) ... *)
Theorem C01_md4_sum_keeps_state : forall st, snd (md4_sum st) = st.
Proof. exact sum_pure. Qed.
Print Assumptions C01_md4_sum_keeps_state.

(* ... whereas the Sum of the tree before "fix: md4.Sum pads a copy of the state" finalised the live object:
   Write("abc"); Sum; Sum returned two different digests (the defect, reproduced by oracle c01.md4_history). *)
Theorem C01_md4_sum_defect_witness :
  let st := md4_write md4_new [97; 98; 99] in
  let '(d1, st1) := md4_sum_unrepaired st in
  let '(d2, _) := md4_sum_unrepaired st1 in
  d1 = md4 [97; 98; 99] /\ d2 <> md4 [97; 98; 99].
Proof. exact md4_sum_unrepaired_not_pure. Qed.
Print Assumptions C01_md4_sum_defect_witness.

(* ================================================================== UTF-16 *)

(* Go's []rune(s) on a valid UTF-8 string (RFC 3629 section 4) is its sequence of scalar values. *)
Theorem C01_runes_valid : forall s cps, utf8_decode s = Some cps -> go_runes s = cps.
Proof. exact go_runes_valid. Qed.
Print Assumptions C01_runes_valid.

(* EncodeUTF16LE of a valid UTF-8 string is RFC 2781's encoding of its scalar values (surrogate pairs above
   U+FFFF), each unit low byte first. *)
Theorem C01_utf16_encode : forall s cps, utf8_decode s = Some cps -> encode_utf16le s = utf16le_encode cps.
Proof. exact encode_utf16le_valid. Qed.
Print Assumptions C01_utf16_encode.

(* For every sequence of Unicode scalar values (BMP and non-BMP alike), given as a Go string (its UTF-8):
   EncodeUTF16LE produces the RFC 2781 bytes and DecodeUTF16LE returns the original string. *)
Theorem C01_utf16 : forall cps, Forall scalar_value cps ->
  encode_utf16le (utf8_encode cps) = utf16le_encode cps /\
  decode_utf16le (encode_utf16le (utf8_encode cps)) = Ok (utf8_encode cps).
Proof. exact utf16le_roundtrip. Qed.
Print Assumptions C01_utf16.

(* RFC 2781 itself round-trips (shared reference). *)
Theorem C01_utf16_rfc : forall cps, Forall scalar_value cps -> utf16le_decode (utf16le_encode cps) = cps.
Proof. exact Proofs.AlgoProofs.utf16le_decode_encode. Qed.
Print Assumptions C01_utf16_rfc.

(* Totality of the decoding entry point of this property's files (reused by C07): DecodeUTF16LE never panics
   (after "fix: DecodeUTF16LE ignores a trailing odd byte"); before the repair every odd length panicked. *)
Theorem C01_total_utf16_decode : forall b, decode_utf16le b <> Panic.
Proof. exact decode_utf16le_total. Qed.
Print Assumptions C01_total_utf16_decode.

Theorem C01_total_utf16_decode_unrepaired_refuted : decode_utf16le_unrepaired [0x3d] = Panic.
Proof. exact decode_utf16le_unrepaired_panics. Qed.
Print Assumptions C01_total_utf16_decode_unrepaired_refuted.

(* ================================================================== NT hash *)

(* For every valid-UTF-8 password: NTHash = MD4(UTF-16LE(password)) (MS-NLMP NTOWFv1), raw and hexadecimal. *)
Theorem C01_nt : forall pw cps, utf8_decode pw = Some cps ->
  nt_hash pw = ntowfv1 cps /\ nt_hash_hex pw = hex_form (ntowfv1 cps).
Proof. exact main_nt. Qed.
Print Assumptions C01_nt.

(* ================================================================== LM hash *)

(* Go's inline 7 -> 8 byte spread and MS-NLMP's str_to_key agree on the 56 key bits (the upper seven bits of
   each of the eight bytes) for every 7-byte input. *)
Theorem C01_lm_key : forall h, length h = 7%nat -> wf_bytes h ->
  map (fun b => b / 2) (lm_spread h) = map (fun b => b / 2) (str_to_key h).
Proof. exact lm_spread_key_bits. Qed.
Print Assumptions C01_lm_key.

(* The DES key schedule (FIPS 46-3, PC-1) ignores the eight parity positions: two 8-byte keys that agree on the
   56 key bits have the same sixteen subkeys. *)
Theorem C01_lm_des_parity : forall k k', length k = 8%nat -> length k' = 8%nat ->
  map (fun b => b / 2) k = map (fun b => b / 2) k' -> des_subkeys k = des_subkeys k'.
Proof. exact des_subkeys_ignore_parity. Qed.
Print Assumptions C01_lm_des_parity.

(* Hence, for every 7-bit ASCII password of every length (empty, short, exactly 7 or 14, longer than 14; lower
   case letters included), LMHash is LMOWFv1 of MS-NLMP 3.3.1, raw and hexadecimal — whatever rune mapping
   strings.ToUpper uses outside ASCII. *)
Theorem C01_lm : forall upper_cp pw, ascii7 pw ->
  lm_hash upper_cp pw = lmowfv1 pw /\ lm_hash_hex upper_cp pw = hex_form (lmowfv1 pw).
Proof. exact main_lm. Qed.
Print Assumptions C01_lm.

(* ================================================================== MS-Cache v1 / v2 *)

(* Parametric in the rune mapping behind strings.ToLower (a Go standard-library table); the two hypotheses say it
   is the byte-wise mapping on ASCII and keeps scalar values scalar.  Passwords are valid UTF-8 strings, user names
   are given by their scalar values (a valid UTF-8 string is the encoding of its scalar values). *)

(* DCC: the two raw entry points. *)
Theorem C01_dcc : forall lower_cp,
  (forall c, c < 128 -> lower_cp c = to_lower c) -> (forall c, scalar_value c -> scalar_value (lower_cp c)) ->
  forall nt pw pcps ucps, utf8_decode pw = Some pcps -> Forall scalar_value ucps ->
  dcc_from_nt lower_cp nt (utf8_encode ucps) = mscache1 lower_cp nt ucps /\
  dcc_from_password lower_cp pw (utf8_encode ucps) = mscache1 lower_cp (ntowfv1 pcps) ucps.
Proof. exact main_dcc. Qed.
Print Assumptions C01_dcc.

(* DCC: hexadecimal and hashcat forms ("<hex>:<lower-cased user name>"). *)
Theorem C01_dcc_forms : forall lower_cp,
  (forall c, c < 128 -> lower_cp c = to_lower c) -> (forall c, scalar_value c -> scalar_value (lower_cp c)) ->
  forall nt pw pcps ucps, utf8_decode pw = Some pcps -> Forall scalar_value ucps ->
  dcc_from_nt_hex lower_cp nt (utf8_encode ucps) = hex_form (mscache1 lower_cp nt ucps) /\
  dcc_from_password_hex lower_cp pw (utf8_encode ucps) = hex_form (mscache1 lower_cp (ntowfv1 pcps) ucps) /\
  dcc_from_nt_hashcat lower_cp nt (utf8_encode ucps) = dcc1_line lower_cp nt ucps /\
  dcc_from_password_hashcat lower_cp pw (utf8_encode ucps) = dcc1_line lower_cp (ntowfv1 pcps) ucps.
Proof. exact main_dcc_forms. Qed.
Print Assumptions C01_dcc_forms.

(* DCC2: for every iteration count >= 1 the 16 raw bytes are PBKDF2-HMAC-SHA1(DCC1, UTF-16LE(lower(user)), rounds, 16)
   of RFC 8018, and the three entry points print "$DCC2$<rounds in decimal>#<user name as supplied>#<hex>". *)
Theorem C01_dcc2 : forall lower_cp,
  (forall c, c < 128 -> lower_cp c = to_lower c) -> (forall c, scalar_value c -> scalar_value (lower_cp c)) ->
  forall nt pw pcps ucps rounds, utf8_decode pw = Some pcps -> Forall scalar_value ucps -> 1 <= rounds ->
  dcc2_raw lower_cp (utf8_encode ucps) nt (Z.of_N rounds) = mscache2 lower_cp nt ucps rounds /\
  dcc2_with_nt lower_cp (utf8_encode ucps) nt (Z.of_N rounds) = dcc2_line lower_cp nt ucps rounds /\
  dcc2_with_password lower_cp (utf8_encode ucps) pw (Z.of_N rounds) = dcc2_line lower_cp (ntowfv1 pcps) ucps rounds /\
  dcc2_hash lower_cp (utf8_encode ucps) pw (Z.of_N rounds) = dcc2_line lower_cp (ntowfv1 pcps) ucps rounds.
Proof. exact main_dcc2. Qed.
Print Assumptions C01_dcc2.

(* The executable instance of the rune mapping (the dumped Go table used by the correspondence runs) meets both
   hypotheses, so C01_dcc / C01_dcc_forms / C01_dcc2 apply to the model the harness compares with the code. *)
Theorem C01_go_lower_table_ok :
  (forall c, c < 128 -> go_lower_cp c = to_lower c) /\ (forall c, scalar_value c -> scalar_value (go_lower_cp c)).
Proof. exact main_go_lower_table_ok. Qed.
Print Assumptions C01_go_lower_table_ok.

(* ================================================================== output forms *)

(* Every hexadecimal form above is the lower-case hexadecimal of the raw value: it decodes back to the raw bytes,
   has two digits per byte, is unchanged by lower-casing; the decimal rounds field parses back to the count. *)
Theorem C01_forms : forall raw rounds, wf_bytes raw ->
  unhex (hex_form raw) = Some raw /\ map to_lower (hex_form raw) = hex_form raw /\
  length (hex_form raw) = (2 * length raw)%nat /\ parse_dec (print_dec rounds) = Some rounds.
Proof. exact forms_decode. Qed.
Print Assumptions C01_forms.

(* ================================================================== non-vacuity and source ties *)

(* chunkSize of the source (regenerated by go2coq on every run) is the 64 the model is written for *)
Example C01_chunk_size : c01_chunkSize = 64.
Proof. reflexivity. Qed.

(* the statements of processChunk are the RFC's three round tables with rotating register roles *)
Example C01_md4_schedule_is_rfc : go_schedule = rfc_schedule.
Proof. reflexivity. Qed.

(* RFC 1320 A.5: MD4("abc") through the streaming model, cut as "a" + "" + "bc" *)
Example C01_md4_example :
  fst (md4_sum (fold_left md4_write [[97]; []; [98; 99]] md4_new))
  = [0xa4; 0x48; 0x01; 0x7a; 0xaf; 0x21; 0xd8; 0x52; 0x5f; 0xc1; 0x0a; 0xe8; 0x7a; 0xa6; 0x72; 0x9d].
Proof. vm_compute. reflexivity. Qed.

(* hypotheses are satisfiable: a valid non-BMP password, an ASCII password, a mixed-case non-BMP user name *)
Example C01_nt_example :
  utf8_decode [0xF0; 0x90; 0x90; 0x80; 0x61] = Some [0x10400; 0x61] /\
  nt_hash [0xF0; 0x90; 0x90; 0x80; 0x61] = md4 [0x01; 0xD8; 0x00; 0xDC; 0x61; 0x00].
Proof. vm_compute. split; reflexivity. Qed.

Example C01_lm_example : ascii7 [112; 97; 115; 115; 119; 111; 114; 100] /\
  lm_hash go_upper_cp [112; 97; 115; 115; 119; 111; 114; 100]
  = [0xe5; 0x2c; 0xac; 0x67; 0x41; 0x9a; 0x9a; 0x22; 0x4a; 0x3b; 0x10; 0x8f; 0x3f; 0xa6; 0xcb; 0x6d].
Proof. split; [repeat constructor|vm_compute; reflexivity]. Qed.

Example C01_dcc2_example :
  Forall scalar_value [0x10400; 0x41] /\
  firstn 9 (dcc2_hash go_lower_cp (utf8_encode [0x10400; 0x41]) [112; 119] 2) = [36; 68; 67; 67; 50; 36; 50; 35; 0xF0].
Proof. split; [repeat constructor; unfold scalar_value; lia|vm_compute; reflexivity]. Qed.
