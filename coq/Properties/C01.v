(* C01 — placeholder while the correspondence is brought up; replaced by the theorem statements. *)
From Coq Require Import List NArith.
From Mant Require Import Gen.ConstsC01.
Example C01_chunk_size : c01_chunkSize = 64%N.
Proof. reflexivity. Qed.
