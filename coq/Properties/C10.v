(* C10 — NetBIOS name encoding and NBNS packets round-trip and follow RFC 1001/1002.
   Statements only; proofs are in Proofs/C10Name.v, C10Spec.v, C10Packet.v, C10Total.v, C10Extra.v.
   Models: Model/NbName.v (name.go), Model/NbPacket.v (packet.go, after the repair b30b27b).
   Specification: Spec/C10.v (RFC 1001 14.1, RFC 1002 4.2, written independently of the code);
   Spec/C10View.v says how library values are read as RFC content and which packets are legitimate. *)
From Coq Require Import List NArith Lia.
From Mant Require Import Prim.R Prim.Bytes Gen.ConstsC10 Model.NbName Model.NbPacket Spec.C10 Spec.C10View
  Proofs.C10Name Proofs.C10Spec Proofs.C10Packet Proofs.C10Total Proofs.C10Extra.
Import ListNotations.
Open Scope N_scope.

(* ------------------------------------------------------------------ first-level encoding *)

(* The constants the model takes from name.go (regenerated from the source by go2coq on every run)
   are the RFC's: 16-byte names, 32 encoded characters, 'A'. *)
Theorem C10_source_constants :
  c10_NetBIOSNameLength = 16 /\ c10_EncodedNameLength = 32 /\ c10_ASCII_A = 65.
Proof. exact source_constants. Qed.
Print Assumptions C10_source_constants.

(* For each of the 256 byte values: the library's shift-and-mask encoding of the byte is the two
   characters RFC 1001 14.1 prescribes ('A' + high nibble, 'A' + low nibble, both in 'A'..'P'), and the
   library's decoding loop maps these two characters back to the byte. *)
Theorem C10_nibble_map : forall b, b < 256 ->
  enc_byte b = half_ascii b /\ decode_pairs (half_ascii b) = Ok [b] /\ Forall (fun c => 65 <= c <= 80) (half_ascii b).
Proof. exact nibble_map. Qed.
Print Assumptions C10_nibble_map.

(* Every NetBIOS name RFC 1001 allows (at most 16 bytes over all 256 byte values, not starting with
   '*'), with no scope or any scope identifier that is a domain name: FirstLevelEncode succeeds and
   returns exactly the RFC 1001 14.1 form (32 half-ASCII characters of the space-padded name, then
   "." and the scope); FirstLevelDecode of that returns the scope unchanged and the name without its
   trailing 0x20 bytes (padding and content cannot be told apart: finding C10/name-with-trailing-0x20). *)
Theorem C10_first_level : forall name scope,
  name_ok name -> scope_ok scope ->
  exists enc, first_level_encode (mk_nbname name scope) = Ok enc
              /\ enc = rfc1001_encode name scope
              /\ first_level_decode enc = Ok (mk_nbname (strip_padding name) scope).
Proof. exact first_level_roundtrip. Qed.
Print Assumptions C10_first_level.

(* On the complement of the finding (the name does not end in 0x20) the round trip is exact. *)
Theorem C10_first_level_exact : forall name scope,
  name_ok name -> scope_ok scope -> last name 0 <> 32 ->
  exists enc, first_level_encode (mk_nbname name scope) = Ok enc
              /\ first_level_decode enc = Ok (mk_nbname name scope).
Proof. exact first_level_roundtrip_exact. Qed.
Print Assumptions C10_first_level_exact.

(* The full-strength statement without that exclusion is false: "FRED" + 12 spaces comes back as "FRED". *)
Theorem C10_first_level_exact_refuted :
  exists name scope enc, name_ok name /\ scope_ok scope
    /\ first_level_encode (mk_nbname name scope) = Ok enc
    /\ first_level_decode enc <> Ok (mk_nbname name scope).
Proof. exact first_level_exact_refuted. Qed.
Print Assumptions C10_first_level_exact_refuted.

(* ... but the name that comes back has the same RFC 1001 encoding: the 16 bytes on the wire are the same. *)
Theorem C10_trim_same_encoding : forall name scope,
  (length name <= 16)%nat -> rfc1001_encode (strip_padding name) scope = rfc1001_encode name scope.
Proof. exact strip_same_encoding. Qed.
Print Assumptions C10_trim_same_encoding.

(* FirstLevelDecode accepts a byte string exactly when the part before its first "." is 32 characters
   'A'..'P', and then returns the bytes RFC 1001 assigns to them (minus trailing 0x20) and the rest as scope. *)
Theorem C10_first_level_decode_strict : forall s, wf_bytes s ->
  let (enc, rest) := split_first_dot s in
  match (if lenN enc =? 32 then rfc1001_decode32 enc else None) with
  | Some raw => first_level_decode s
                = Ok (mk_nbname (strip_padding raw) (match rest with Some r => r | None => [] end))
  | None => first_level_decode s = Err
  end.
Proof. exact first_level_decode_strict. Qed.
Print Assumptions C10_first_level_decode_strict.

(* No input makes FirstLevelDecode panic (reused by C07). *)
Theorem C10_total_first_level_decode : forall s, first_level_decode s <> Panic.
Proof. exact first_level_decode_total. Qed.
Print Assumptions C10_total_first_level_decode.

(* ------------------------------------------------------------------ packets *)

(* Marshal of every legitimate packet (header counts equal to the section sizes, 0..65535 records per
   section, RDLength = len(RData) in 0..65535, names as in C10_first_level and at most 255 octets on the
   wire, every 16/32-bit field in range) succeeds and writes exactly the bytes of the RFC 1002 4.2
   writer of Spec/C10.v: names as length-prefixed labels closed by the root label. *)
Theorem C10_marshal_is_rfc1002 : forall p, packet_ok p -> marshal p = Ok (rfc1002_encode (packet_view p)).
Proof. exact marshal_rfc. Qed.
Print Assumptions C10_marshal_is_rfc1002.

(* The independent RFC 1002 reader (label sequences, compressed-name pointers, RFC 1001 decoding of the
   first label) reads the library's bytes to the same content: every header word, question and resource
   record of all four sections, leaving no byte unread. *)
Theorem C10_rfc_reads_lib : forall p, packet_ok p ->
  exists bs, marshal p = Ok bs /\ rfc1002_parse bs = Some (packet_view p, []).
Proof. exact rfc_reads_lib. Qed.
Print Assumptions C10_rfc_reads_lib.

(* Unmarshal(Marshal(p)) consumes all bytes and returns every header field, question and resource record
   of all four sections as given, names as FirstLevelDecode returns them (see C10_first_level). *)
Theorem C10_packet_roundtrip : forall p, packet_ok p ->
  exists bs, marshal p = Ok bs /\ unmarshal bs = Ok (lenN bs, read_back p).
Proof. exact packet_roundtrip. Qed.
Print Assumptions C10_packet_roundtrip.

(* On the complement of the finding (no name in the packet ends in 0x20) the round trip is exact. *)
Theorem C10_packet_roundtrip_exact : forall p, packet_ok p -> packet_nts p ->
  exists bs, marshal p = Ok bs /\ unmarshal bs = Ok (lenN bs, p).
Proof. exact packet_roundtrip_exact. Qed.
Print Assumptions C10_packet_roundtrip_exact.

(* Without the exclusion it is false: a query for "SERVER" + 9 spaces + suffix 0x20 does not come back. *)
Theorem C10_packet_roundtrip_exact_refuted :
  exists p bs, packet_ok p /\ marshal p = Ok bs /\ unmarshal bs <> Ok (lenN bs, p).
Proof. exact packet_exact_refuted. Qed.
Print Assumptions C10_packet_roundtrip_exact_refuted.

(* ... but the packet that comes back marshals to the very same bytes. *)
Theorem C10_trim_same_wire : forall p, packet_ok p -> marshal (read_back p) = marshal p.
Proof. exact marshal_read_back. Qed.
Print Assumptions C10_trim_same_wire.

(* Unmarshal reads every packet of the RFC 1002 writer (names uncompressed, any scope labels of 1..63
   bytes), not only the library's own. *)
Theorem C10_lib_reads_rfc : forall v, rfc_packet_wf v ->
  unmarshal (rfc1002_encode v) = Ok (lenN (rfc1002_encode v), lib_packet v).
Proof. exact unmarshal_rfc. Qed.
Print Assumptions C10_lib_reads_rfc.

(* The specification is consistent with itself: its reader inverts its writer. *)
Theorem C10_rfc1002_reader_inverts_writer : forall v, rfc_packet_wf v ->
  rfc1002_parse (rfc1002_encode v) = Some (v, []).
Proof. exact rfc1002_parse_encode. Qed.
Print Assumptions C10_rfc1002_reader_inverts_writer.

(* A legitimate name occupies 34 octets plus 1 + |scope| on the wire, at most 255 (RFC 1002 4.2.1.2) ... *)
Theorem C10_name_wire_length : forall n, nbname_ok n ->
  lenN (rfc_name_wire (view_name n)) = name_wire_octets (nb_scope n) /\ name_wire_octets (nb_scope n) <= 255.
Proof. exact name_wire_length. Qed.
Print Assumptions C10_name_wire_length.

(* ... and a name that would need more is refused (before the repair its length byte wrapped). *)
Theorem C10_name_too_long_rejected : forall name scope,
  name_ok name -> scope_ok scope -> 255 < name_wire_octets scope ->
  append_name (Some (mk_nbname name scope)) = Err.
Proof. exact append_name_too_long. Qed.
Print Assumptions C10_name_too_long_rejected.

(* No input makes Unmarshal panic; in particular every slice expression is guarded and the label loop
   terminates within the model's fuel (reused by C07). *)
Theorem C10_total_unmarshal : forall data, unmarshal data <> Panic.
Proof. exact unmarshal_total. Qed.
Print Assumptions C10_total_unmarshal.

(* When Unmarshal succeeds it reports len(data) as consumed. *)
Theorem C10_unmarshal_consumed : forall data n p, unmarshal data = Ok (n, p) -> n = lenN data.
Proof. exact unmarshal_consumed. Qed.
Print Assumptions C10_unmarshal_consumed.

(* ------------------------------------------------------------------ non-vacuity *)

(* RFC 1001 14.1's own example: "FRED" in scope NETBIOS.COM. *)
Example C10_fred :
  let name := [70; 82; 69; 68] in
  let scope := [78; 69; 84; 66; 73; 79; 83; 46; 67; 79; 77] in
  name_ok name /\ scope_ok scope /\ last name 0 <> 32
  /\ first_level_encode (mk_nbname name scope)
     = Ok ([69; 71; 70; 67; 69; 70; 69; 69; 67; 65; 67; 65; 67; 65; 67; 65; 67; 65; 67; 65; 67; 65; 67; 65;
            67; 65; 67; 65; 67; 65; 67; 65; 46] ++ scope).
Proof.
  cbv zeta. split; [|split; [|split]].
  - split; [apply wf_bytesb_spec; reflexivity|]. split; simpl; lia.
  - unfold scope_ok.
    change (scope_labels [78; 69; 84; 66; 73; 79; 83; 46; 67; 79; 77]) with [[78; 69; 84; 66; 73; 79; 83]; [67; 79; 77]].
    repeat (apply Forall_cons;
            [unfold rfc_label; repeat split;
             [discriminate | simpl; lia
              | repeat (apply Forall_cons; [unfold letter_digit_hyphen; lia|]); apply Forall_nil
              | simpl; lia | simpl; lia]|]).
    apply Forall_nil.
  - simpl. lia.
  - vm_compute. reflexivity.
Qed.

(* A legitimate packet with a question, an answer carrying RDATA and a scoped name: the hypotheses of
   the packet theorems are satisfiable, and the conclusions compute. *)
Definition C10_example_packet : nbpacket :=
  let n := mk_nbname [70; 82; 69; 68] [97; 46; 98] in
  mk_pkt (mk_hdr 4660 34048 1 1 0 0) [mk_q (Some n) 32 1]
         [mk_rr (Some n) 32 1 300000 6 [0; 0; 192; 168; 1; 1]] [] [].

Example C10_example_packet_ok :
  packet_ok C10_example_packet /\ packet_nts C10_example_packet
  /\ (exists bs, marshal C10_example_packet = Ok bs
                 /\ unmarshal bs = Ok (lenN bs, C10_example_packet)
                 /\ rfc1002_parse bs = Some (packet_view C10_example_packet, [])).
Proof.
  assert (Hn : nbname_ok (mk_nbname [70; 82; 69; 68] [97; 46; 98])).
  { unfold nbname_ok, name_ok, scope_ok, name_wire_octets. cbn [nb_name nb_scope].
    split; [split; [apply wf_bytesb_spec; reflexivity|split; simpl; lia]|].
    split; [|rewrite !lenN_cons, lenN_nil; lia].
    change (scope_labels [97; 46; 98]) with [[97]; [98]].
    repeat (apply Forall_cons;
            [unfold rfc_label; repeat split;
             [discriminate | simpl; lia
              | repeat (apply Forall_cons; [unfold letter_digit_hyphen; lia|]); apply Forall_nil
              | simpl; lia | simpl; lia]|]).
    apply Forall_nil. }
  split; [|split].
  - unfold packet_ok, C10_example_packet. cbn [p_hdr p_qs p_an p_ns p_ar h_id h_flags h_qd h_an h_ns h_ar].
    repeat split; try apply Forall_nil; try (apply Forall_cons; [|apply Forall_nil]).
    + unfold question_ok. cbn [q_name q_type q_class oname_ok]. split; [exact Hn|split; lia].
    + unfold rr_ok. cbn [rr_name rr_type rr_class rr_ttl rr_rdlength rr_rdata oname_ok].
      split; [exact Hn|]. repeat split; try lia; try reflexivity. apply wf_bytesb_spec. reflexivity.
  - unfold packet_nts, C10_example_packet, oname_nts, no_trailing_space.
    cbn [p_qs p_an p_ns p_ar app q_name rr_name nb_name].
    split; (apply Forall_cons; [simpl; lia|apply Forall_nil]).
  - eexists. split; [vm_compute; reflexivity|]. split; vm_compute; reflexivity.
Qed.

(* The reader of the specification is a full RFC 1002 reader: it follows compressed-name pointers.
   A registration request as standard senders write it (RR_NAME = pointer 0xC00C to the question name)
   is read to a record carrying the question's name.  The library does not read such packets
   (readName refuses label types other than 00) — outside C10's statement, recorded here. *)
Definition C10_compressed_registration : list N :=
  [0; 1; 41; 16; 0; 1; 0; 0; 0; 0; 0; 1;
   32; 69; 71; 70; 67; 69; 70; 69; 69; 67; 65; 67; 65; 67; 65; 67; 65; 67; 65; 67; 65; 67; 65; 67; 65;
       67; 65; 67; 65; 67; 65; 67; 65; 0;  0; 32; 0; 1;
   192; 12;  0; 32; 0; 1;  0; 0; 0; 60;  0; 6;  0; 0; 10; 0; 0; 1].

Example C10_rfc_reader_follows_pointers :
  let fred := mk_rname [70; 82; 69; 68; 32; 32; 32; 32; 32; 32; 32; 32; 32; 32; 32; 32] [] in
  rfc1002_parse C10_compressed_registration
  = Some (mk_rpkt 1 10512 [mk_rq fred 32 1] [] [] [mk_rrr fred 32 1 60 [0; 0; 10; 0; 0; 1]], [])
  /\ unmarshal C10_compressed_registration = Err.
Proof. split; vm_compute; reflexivity. Qed.
