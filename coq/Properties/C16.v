(* C16 — Binary SIDs and distinguished names decode to their canonical text.
   Statements only; proofs are in Proofs/C16Proofs.v. *)
From Coq Require Import List NArith Lia.
From Mant Require Import Prim.R Prim.Bytes Prim.Dec Model.Sid Model.Dn Spec.C16 Proofs.C16Proofs.
Import ListNotations.
Open Scope N_scope.

(* Every well-formed binary SID (revision 1, any 48-bit authority, any number 0..255 of 32-bit
   sub-authorities — MS-DTYP allows 0..15), followed by any trailing bytes, prints as
   "S-1-<authority>" followed by "-<sub-authority>" for each sub-authority, in decimal. *)
Theorem C16_sid : forall auth subs suffix,
  auth < 2 ^ 48 -> Forall (fun s => s < 2 ^ 32) subs -> (length subs <= 255)%nat ->
  parse_sid (sid_encode auth subs ++ suffix) = Ok (sid_string auth subs).
Proof. exact parse_sid_spec. Qed.
Print Assumptions C16_sid.

(* The decimal rendering used by the SID text is the proved-correct one. *)
Theorem C16_decimal : forall n, parse_dec (print_dec n) = Some n.
Proof. exact parse_print_dec. Qed.
Print Assumptions C16_decimal.

(* No input makes the SID parser panic (used again by C07). *)
Theorem C16_sid_total : forall bs, parse_sid bs <> Panic.
Proof. exact parse_sid_total. Qed.
Print Assumptions C16_sid_total.

(* For every DN rendered the way Active Directory renders it (RDNs joined by commas, special
   characters in values escaped with a backslash, attribute types free of special characters,
   DC values being plain DNS labels), the derived DNS domain is the dot-join of the DC values
   in order.  RDN values are arbitrary byte strings: escaped commas, "\,DC=" included. *)
Theorem C16_dn : forall rs, dn_ok rs -> domain_of_dn (render_dn rs) = dns_domain rs.
Proof. exact domain_of_dn_spec. Qed.
Print Assumptions C16_dn.

(* The same for every renderer that additionally writes some bytes (any set [hx] of them: Active Directory
   does it for line feed and carriage return) as a backslash and two hexadecimal digits, "\0A": the value of
   an RDN may end in such an escape directly before the separating comma, and the DC that follows still counts. *)
Theorem C16_dn_hex : forall hx rs, dn_ok_hx hx rs -> domain_of_dn (render_dn_hx hx rs) = dns_domain rs.
Proof. exact domain_of_dn_hx_spec. Qed.
Print Assumptions C16_dn_hex.

(* Non-vacuity: concrete instances meet the hypotheses and compute. *)
Example C16_sid_example :
  parse_sid (sid_encode 5 [21; 1004336348; 1177238915; 682003330; 512] ++ [7; 7])
  = Ok (sid_string 5 [21; 1004336348; 1177238915; 682003330; 512]).
Proof. vm_compute. reflexivity. Qed.

Example C16_dn_example :
  let rs := [([67; 78], [97; 44; 68; 67; 61; 101]); ([68; 67], [99; 111; 114; 112]); ([68; 67], [108; 97; 110])] in
  dn_ok rs /\ domain_of_dn (render_dn rs) = [99; 111; 114; 112; 46; 108; 97; 110].
Proof. split; [repeat constructor; intros; try discriminate|vm_compute; reflexivity]. Qed.

Example C16_dn_hex_example :
  let hx := fun c => orb (c =? 10) (c =? 13) in
  let rs := [([67; 78], [106; 13]); ([68; 67], [99; 111; 114; 112]); ([68; 67], [108; 97; 110])] in
  dn_ok_hx hx rs /\ render_dn_hx hx rs = [67; 78; 61; 106; 92; 48; 68; 44; 68; 67; 61; 99; 111; 114; 112; 44; 68; 67; 61; 108; 97; 110]
  /\ domain_of_dn (render_dn_hx hx rs) = [99; 111; 114; 112; 46; 108; 97; 110].
Proof. split; [repeat constructor; intros; try discriminate|split; vm_compute; reflexivity]. Qed.
