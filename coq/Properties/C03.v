(* C03 — SMB1 message envelope: header, framing and type dispatch exact and repeatable.
   Statements only.  The dispatch tables and command layouts are regenerated from the Go source on
   every run (Gen/SmbLayouts.v); the header/message models (Model/SmbEnvelope.v) are hand-written and
   run against header.go / message.go on every run. *)
From Coq Require Import List NArith ZArith String Bool.
From Mant Require Import Prim.R Prim.Bytes Model.SmbTypes Model.SmbBlocks Model.SmbLayout Model.SmbAnalysis
  Model.SmbEnvelope Spec.C04 Spec.C05 Spec.C03 Proofs.C03Proofs Proofs.C03Tables Gen.SmbLayouts.
Import ListNotations.
Open Scope N_scope.
Open Scope list_scope.

(* the header is laid out exactly as MS-CIFS 2.2.3.1 specifies, for every value of every field *)
Theorem C03_header_layout : forall h, wf_header h -> header_marshal h = Ok (cifs_header h).
Proof. exact header_layout. Qed.
Print Assumptions C03_header_layout.

(* decoding the 32 bytes (followed by anything) returns the same header fields *)
Theorem C03_header_roundtrip : forall h suffix, wf_header h ->
  header_unmarshal (cifs_header h ++ suffix) = Ok (h, 32).
Proof. exact header_roundtrip. Qed.
Print Assumptions C03_header_roundtrip.

Theorem C03_total_header : forall data, header_unmarshal data <> Panic.
Proof. exact header_total. Qed.
Print Assumptions C03_total_header.

(* dispatch: for all 256 command codes and both values of the reply flag, the structure constructed
   is the one whose declared command code is the code and whose kind (request/response) the flag
   designates.  Bound stated: code < 256 (the field is one byte); the underlying fact is a finite
   computation on the regenerated tables, lifted with forallb_forall. *)
Theorem C03_dispatch : forall code reply c, code < 256 ->
  factory_dispatch all_cmds req_table resp_table code reply = Some c ->
  cd_code c = code /\ cd_request c = negb reply.
Proof. exact (dispatch_sound all_cmds req_table resp_table dispatch_sweep). Qed.
Print Assumptions C03_dispatch.

(* framing, for EVERY structure description and every field assignment: the parameter and data blocks
   are introduced by a word count and a byte count equal to the lengths actually emitted (within the
   255-word / 65535-byte limits), so the command occupies 1 + 2*words + 2 + bytes *)
Theorem C03_framing : forall c cs v bs cs' v',
  cmd_marshal c cs v = Ok (bs, cs', v') ->
  lenN (p_words (cs_params cs')) <= 255 -> lenN (d_bytes (cs_data cs')) <= 65535 ->
  let words := p_words (cs_params cs') in
  let data := d_bytes (cs_data cs') in
  bs = [lenN words] ++ flat_map be16 words ++ le16 (lenN data) ++ data /\
  lenN bs = 1 + 2 * lenN words + 2 + lenN data.
Proof. exact cmd_framing. Qed.
Print Assumptions C03_framing.

(* the message is the 32 header bytes followed by the command marshalled from fresh blocks *)
Theorem C03_message_framing : forall h c v bs v', wf_header h -> message_marshal h c v = Ok (bs, v') ->
  exists hb cb cs',
    bs = hb ++ cb /\ hb = cifs_header h /\ lenN hb = 32 /\ cmd_marshal c cstate_new v = Ok (cb, cs', v').
Proof. exact message_framing. Qed.
Print Assumptions C03_message_framing.

(* repeatability, for every number of Marshal calls: once Marshal leaves the fields as they are, every
   further call yields identical bytes (any structure) ... *)
Theorem C03_repeatable : forall h c v bs,
  message_marshal h c v = Ok (bs, v) -> forall n, message_marshal_n n h c v = repeat (Ok bs) n.
Proof. exact message_repeatable. Qed.
Print Assumptions C03_repeatable.

(* ... and structures of the all-integer fragment are in that state from the first call *)
Theorem C03_repeatable_fixed : forall h c fs ns,
  wf_header h -> simple_fixed c = true -> int_fields (cd_marshal c) = Some fs -> values_fit fs ns ->
  exists bs, forall n, message_marshal_n n h c (int_valuation fs ns) = repeat (Ok bs) n.
Proof. exact message_repeatable_fixed. Qed.
Print Assumptions C03_repeatable_fixed.

(* non-vacuity *)
Example C03_example_header :
  wf_header {| h_protocol := [255; 83; 77; 66]; h_command := 114; h_status := 0; h_flags := 152; h_flags2 := 51207;
               h_pidhigh := 0; h_security := [0; 0; 0; 0; 0; 0; 0; 0]; h_reserved := 0; h_tid := 65535;
               h_pidlow := 4660; h_uid := 0; h_mid := 1 |}.
Proof. unfold wf_header; cbn; repeat split; try reflexivity; repeat constructor. Qed.

Example C03_example_dispatch :
  exists c, factory_dispatch all_cmds req_table resp_table 114 false = Some c /\ cd_name c = "NegotiateRequest"%string.
Proof. eexists. split; vm_compute; reflexivity. Qed.
