(* C09 — The LLMNR codec round-trips and agrees with an independent RFC 1035 codec.
   Statements only; proofs are in Proofs/C09*.v.  Model: Model/Llmnr.v (network/llmnr after the two
   fix: commits recorded in props/C09.fixed.txt); reference codec and wire relation: Spec/C09.v.

   Vocabulary (Spec/C09.v):
     labels_ok n        n has >= 1 label, every label is 1..63 bytes and contains no dot
     name_ok n          labels_ok n and at most 255 octets on the wire (RFC 1035 3.1)
     text_labels_ok s / text_name_ok s   the same, stated on the library's dotted text
     msg_ok P m         ids/flags/types/classes 16-bit, TTL 32-bit, 0..65535 entries per section,
                        RDATA 0..65535 bytes, every name satisfies P
     wire_name / wire_msg   declarative RFC 1035 4.1.4 wire form: labels, terminated by 0 or by a
                        pointer to a PRIOR occurrence (strictly before the containing name), chained freely
     ptr_violation      the name runs into a pointer that is not strictly backwards
     lib_msg / abs_msg  "same content": label lists <-> dotted text; counts and RDLength derived *)
From Coq Require Import List NArith Lia.
From Mant Require Import Prim.R Prim.Bytes Model.Llmnr Spec.C09 Proofs.C09Proofs Proofs.C09Msg.
Import ListNotations.
Open Scope N_scope.

(* Names.  For every valid label list (the 255-octet limit is not even needed), the library's
   encoding of the dotted text is the RFC 1035 label sequence, and decoding it at any offset
   inside any surrounding bytes returns the text and the offset just after the name. *)
Theorem C09_name_roundtrip : forall n pre post, labels_ok n ->
  encode_name (name_text n) = Ok (rfc_encode_name n)
  /\ decode_name (pre ++ rfc_encode_name n ++ post) (lenN pre)
     = Ok (name_text n, lenN pre + lenN (rfc_encode_name n)).
Proof. exact p_name_roundtrip. Qed.
Print Assumptions C09_name_roundtrip.

(* the same, quantified over the library's own input type (text) *)
Theorem C09_name_roundtrip_text : forall s pre post, text_labels_ok s ->
  exists b, encode_name s = Ok b /\ decode_name (pre ++ b ++ post) (lenN pre) = Ok (s, lenN pre + lenN b).
Proof. exact p_name_roundtrip_text. Qed.
Print Assumptions C09_name_roundtrip_text.

(* Messages.  For every message with valid names, any id and flag word, 0..65535 questions and
   records in each of the FOUR sections, any types/classes/TTLs, RDATA of 0..65535 bytes:
   Encode succeeds and DecodeMessage returns the same header, questions and records in every
   section ([normalize] only recomputes the derived fields — the four counts and RDLength —
   which Encode ignores and overwrites). *)
Theorem C09_message_roundtrip : forall m, lib_msg_ok text_labels_ok m ->
  exists b, encode_message m = Ok b /\ decode_message b = Ok (normalize m).
Proof. exact p_message_roundtrip. Qed.
Print Assumptions C09_message_roundtrip.

(* for messages whose derived fields are consistent (what Message.Validate checks), equality is literal *)
Theorem C09_message_roundtrip_consistent : forall m, lib_msg_ok text_labels_ok m -> consistent m ->
  exists b, encode_message m = Ok b /\ decode_message b = Ok m.
Proof. exact p_message_roundtrip_consistent. Qed.
Print Assumptions C09_message_roundtrip_consistent.

(* The independent RFC 1035 decoder parses the library's output to the same content: the
   library's output IS the plain RFC 1035 encoding of the content, and the reference decoder
   returns that content (names at most 255 octets, as the RFC requires of a decoder). *)
Theorem C09_rfc_reads_lib : forall m, lib_msg_ok text_name_ok m ->
  encode_message m = Ok (rfc_encode_msg (abs_msg m))
  /\ rfc_decode_msg (rfc_encode_msg (abs_msg m)) = Some (abs_msg m).
Proof. exact p_rfc_reads_lib. Qed.
Print Assumptions C09_rfc_reads_lib.

(* The library decodes the reference codec's output to the same content, both the plain encoding
   and the one using name compression (suffixes already emitted are replaced by pointers). *)
Theorem C09_lib_reads_rfc : forall m, msg_ok labels_ok m ->
  decode_message (rfc_encode_msg m) = Ok (lib_msg m)
  /\ decode_message (rfc_encode_compressed m) = Ok (lib_msg m).
Proof. exact p_lib_reads_rfc. Qed.
Print Assumptions C09_lib_reads_rfc.

(* More generally, EVERY wire form of a message — any placement of compression pointers that
   RFC 1035 4.1.4 allows: backward, chained, into the middle of earlier names, into RDATA, to a
   root name — is decoded by the library to the content it denotes, and by the reference decoder
   too (so the two decoders agree on all of them). *)
Theorem C09_lib_reads_any_wire_form : forall d m, wire_msg d m -> msg_ok labels_ok m ->
  decode_message d = Ok (lib_msg m).
Proof. exact p_lib_reads_wire. Qed.
Print Assumptions C09_lib_reads_any_wire_form.

Theorem C09_decoders_agree : forall d m, wire_msg d m -> msg_ok name_ok m ->
  decode_message d = Ok (lib_msg m) /\ rfc_decode_msg d = Some m.
Proof. exact p_decoders_agree. Qed.
Print Assumptions C09_decoders_agree.

(* Pointers.  (1) a name that runs — after any labels and any chain of strictly backward
   pointers — into a pointer that does not point strictly before the start of the name containing
   it (self, forward, into its own labels, a loop) is rejected with an error;
   (2) strictly backward pointers, chained at will, are followed and yield the labels;
   (3) decoding terminates on every input: the model's loops carry fuel (one unit per label, one
   per pointer followed) and report exhaustion as Panic; this never happens. *)
Theorem C09_pointers :
  (forall d start, ptr_violation d start start -> decode_name d start = Err)
  /\ (forall d start n fin, wire_name d start start n fin -> n <> [] -> Forall (fun l => ~ In 46 l) n ->
        decode_name d start = Ok (name_text n, fin))
  /\ (forall d off, decode_name d off <> Panic).
Proof. exact (conj p_pointers_rejected (conj p_backward_pointers p_total_decode_name)). Qed.
Print Assumptions C09_pointers.

(* Totality of every decoding entry point, on every input (reused by C07). *)
Theorem C09_total_decode_name : forall d off, decode_name d off <> Panic.
Proof. exact p_total_decode_name. Qed.
Print Assumptions C09_total_decode_name.
Theorem C09_total_decode_question : forall d off, decode_question d off <> Panic.
Proof. exact decode_question_total. Qed.
Print Assumptions C09_total_decode_question.
Theorem C09_total_decode_rr : forall d off, decode_rr d off <> Panic.
Proof. exact decode_rr_total. Qed.
Print Assumptions C09_total_decode_rr.
Theorem C09_total_decode_message : forall d, decode_message d <> Panic.
Proof. exact decode_message_total. Qed.
Print Assumptions C09_total_decode_message.

(* Outside the domain, stated separately: the root name.  "" encodes as the single octet 0, which
   decodes as "." (pinned by TestDomainNameEncoding), so the empty name does not round-trip. *)
Theorem C09_root_name :
  encode_name [] = Ok [0] /\ decode_name [0] 0 = Ok ([46], 1)
  /\ forall pre post, decode_name (pre ++ [0] ++ post) (lenN pre) = Ok ([46], lenN pre + 1).
Proof. exact p_root. Qed.
Print Assumptions C09_root_name.

(* Secondary: every valid name passes ValidateDomainName, so AddQuestion accepts it and appends the
   question with the count updated. *)
Theorem C09_valid_names_validate : forall s, text_name_ok s -> validate_name s = 0.
Proof. exact p_valid_names_validate. Qed.
Print Assumptions C09_valid_names_validate.

Theorem C09_add_question_valid : forall m q, text_name_ok (q_name q) ->
  add_question m q = (0, set_questions m (m_questions m ++ [q]) (wrap16 (lenN (m_questions m ++ [q])))).
Proof. exact p_add_question_valid. Qed.
Print Assumptions C09_add_question_valid.

(* Secondary: the encoder refuses every name that has a label longer than 63 bytes. *)
Theorem C09_long_label_rejected : forall s l, In l (split_dot s) -> 63 < lenN l -> encode_name s = Err.
Proof. exact p_long_label_rejected. Qed.
Print Assumptions C09_long_label_rejected.

(* ---- Non-vacuity: the hypotheses are satisfiable and the statements compute ---- *)

Definition ex_www : name := [[119; 119; 119]; [116; 101; 115; 116]; [108; 111; 99; 97; 108]]. (* www.test.local *)
Definition ex_test : name := [[116; 101; 115; 116]; [108; 111; 99; 97; 108]].                   (* test.local *)

Example C09_labels_ok_example : labels_ok ex_www /\ name_ok ex_www.
Proof.
  assert (H : labels_ok ex_www).
  { split; [discriminate|]. repeat constructor; cbv; try discriminate; intuition discriminate. }
  split; [exact H|]. split; [exact H|]. cbv. discriminate.
Qed.

Definition ex_msg : rfc_msg :=
  {| rm_id := 4660; rm_flags := 32768;
     rm_qd := [{| rq_name := ex_test; rq_type := 1; rq_class := 1 |}];
     rm_an := [{| rr_name := ex_test; rr_type := 1; rr_class := 1; rr_ttl := 30; rr_rdata := [192; 168; 1; 1] |}];
     rm_ns := [{| rr_name := [[108; 111; 99; 97; 108]]; rr_type := 2; rr_class := 1; rr_ttl := 5; rr_rdata := [] |}];
     rm_ar := [{| rr_name := ex_www; rr_type := 28; rr_class := 32769; rr_ttl := 4294967295; rr_rdata := [1; 2; 3] |}] |}.

(* the compressed form really uses pointers (0xC0 0x0C ...), is shorter, and both decoders read it *)
Example C09_compressed_example :
  rfc_encode_compressed ex_msg
  = [18; 52; 128; 0; 0; 1; 0; 1; 0; 1; 0; 1;
     4; 116; 101; 115; 116; 5; 108; 111; 99; 97; 108; 0; 0; 1; 0; 1;
     192; 12; 0; 1; 0; 1; 0; 0; 0; 30; 0; 4; 192; 168; 1; 1;
     192; 17; 0; 2; 0; 1; 0; 0; 0; 5; 0; 0;
     3; 119; 119; 119; 192; 12; 0; 28; 128; 1; 255; 255; 255; 255; 0; 3; 1; 2; 3]
  /\ decode_message (rfc_encode_compressed ex_msg) = Ok (lib_msg ex_msg)
  /\ rfc_decode_msg (rfc_encode_compressed ex_msg) = Some ex_msg
  /\ encode_message (lib_msg ex_msg) = Ok (rfc_encode_msg ex_msg)
  /\ decode_message (rfc_encode_msg ex_msg) = Ok (lib_msg ex_msg).
Proof. vm_compute. repeat split; reflexivity. Qed.

(* pointer violations exist: a self pointer, a forward pointer, a two-pointer loop reached
   through a backward pointer; and the decoder rejects them *)
Example C09_ptr_violation_examples :
  ptr_violation [192; 0] 0 0
  /\ ptr_violation [1; 97; 192; 4; 0] 0 0
  /\ ptr_violation [192; 2; 192; 0; 1; 97; 192; 2] 4 4
  /\ decode_name [192; 0] 0 = Err /\ decode_name [1; 97; 192; 4; 0] 0 = Err
  /\ decode_name [192; 2; 192; 0; 1; 97; 192; 2] 4 = Err.
Proof.
  repeat split; try (vm_compute; reflexivity).
  - apply pv_here with (hi := 0) (lo := 0); try reflexivity; lia.
  - apply pv_label with (len := 1); [lia|reflexivity|vm_compute; discriminate|].
    apply pv_here with (hi := 0) (lo := 4); try reflexivity; lia.
  - apply pv_label with (len := 1); [lia|reflexivity|vm_compute; discriminate|].
    apply pv_chain with (hi := 0) (lo := 2); try reflexivity; try lia.
    apply pv_chain with (hi := 0) (lo := 0); try reflexivity; try lia.
    apply pv_here with (hi := 0) (lo := 2); try reflexivity; lia.
Qed.

(* a chain of two backward pointers, the last one to the root name (the input on which the
   unpatched decoder returned "b.."), is a wire form of the single label "b" *)
Example C09_chained_pointer_example :
  wire_name [0; 192; 0; 1; 98; 192; 1] 3 3 [[98]] 7
  /\ decode_name [0; 192; 0; 1; 98; 192; 1] 3 = Ok ([98], 7).
Proof.
  split; [|vm_compute; reflexivity].
  apply wn_label with (l := [98]) (fin := 7); [vm_compute; split; discriminate|reflexivity|reflexivity|].
  change (3 + 1 + lenN [98]) with 5. change 7 with (5 + 2).
  apply wn_pointer with (hi := 0) (lo := 1) (fin' := 3); try reflexivity; try lia.
  change (0 * 256 + 1) with 1. change 3 with (1 + 2).
  apply wn_pointer with (hi := 0) (lo := 0) (fin' := 1); try reflexivity; try lia.
  change (0 * 256 + 0) with 0. apply (wn_end _ 0 0). reflexivity.
Qed.
