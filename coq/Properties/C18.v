(* C18 — Name-service servers/clients isolate concurrent requests and stop cleanly.
   Statements only; proofs are in Proofs/C18Proofs.v, Proofs/C18Conc.v and Proofs/C18Tcp.v.
   Claimed level: PARTIAL (model proofs; data races, goroutine leaks and wall-clock promptness of
   the real binaries are runtime support in the harness, not proved). *)
From Coq Require Import List NArith Bool Lia.
From Mant Require Import Prim.R Prim.Val Prim.Bytes Gen.ConstsC18 Model.NbnsServer Model.NameSrvConc Spec.C18
     Proofs.C18Proofs Proofs.C18Conc Proofs.C18Tcp.
Import ListNotations.

(* ---- each NBNS opcode is routed to the service RFC 1002 4.2.1.1 assigns it --------------------
   Exhaustive: R bit x 16 opcodes x all 2^11 settings of NM_FLAGS/RCODE.  `route` is the switch
   of the three servers with the mask and case constants regenerated from the source. *)
Theorem C18_opcode_routing : forall response opcode other, (opcode < 16)%N -> (other < 2048)%N ->
  service_of_handler (route (flags_word response opcode other)) = rfc1002_service response opcode.
Proof. exact opcode_routing. Qed.
Print Assumptions C18_opcode_routing.

(* the same, stated on an arbitrary 16-bit flags word *)
Theorem C18_opcode_routing_flags : forall flags, (flags < 65536)%N ->
  service_of_handler (route flags) = rfc1002_service (N.testbit flags 15) ((flags / 2048) mod 16)%N.
Proof. exact opcode_routing_flags. Qed.
Print Assumptions C18_opcode_routing_flags.

(* DefendName and HandleRedirect act on name-query requests only *)
Theorem C18_query_guard : forall response opcode other, (opcode < 16)%N -> (other < 2048)%N ->
  is_name_query (flags_word response opcode other) = true <-> (response = false /\ opcode = 0%N).
Proof. exact query_guard. Qed.
Print Assumptions C18_query_guard.

(* the mask of the unrepaired tree (0xF000) refutes the routing statement: registration (5),
   WACK (7) and opcode 1 go elsewhere — fixed in /repo, kept as the sensitivity witness *)
Theorem C18_opcode_routing_mask_F000_refuted :
  service_of_handler (route_with 61440 (flags_word false 5 0)) <> rfc1002_service false 5 /\
  service_of_handler (route_with 61440 (flags_word false 7 0)) <> rfc1002_service false 7 /\
  service_of_handler (route_with 61440 (flags_word false 1 0)) <> rfc1002_service false 1.
Proof. exact opcode_routing_mask_F000_refuted. Qed.
Print Assumptions C18_opcode_routing_mask_F000_refuted.

(* ---- every response is for exactly its request --------------------------------------------------
   For every table and every decoded request: same transaction id, R set, QDCOUNT/NSCOUNT/ARCOUNT
   equal to the (empty) sections emitted, ANCOUNT = number of answers (mod 2^16), and every
   answer is built from a question of THIS request and an owner the table holds for that
   question's name. *)
Theorem C18_response_is_for_request : forall t req resp t',
  respond t req = Ok (resp, t') -> response_for_request t req resp.
Proof. exact response_is_for_request. Qed.
Print Assumptions C18_response_is_for_request.

(* a name query gets the complete answer (one record per owner of each question, in order, up to the
   first unknown name, which sets rcode 3) and leaves the table alone; other services answer without records *)
Theorem C18_response_answers : forall t req resp t',
  respond t req = Ok (resp, t') ->
  (route (h_flags (p_hdr req)) = HQuery ->
     p_answers resp = fst (expected_answers t (p_questions req)) /\ t' = t /\
     rcode (h_flags (p_hdr resp)) = (if snd (expected_answers t (p_questions req)) then c18_RcodeNameError else 0%N)) /\
  (route (h_flags (p_hdr req)) <> HQuery -> p_answers resp = []).
Proof. exact response_answers. Qed.
Print Assumptions C18_response_answers.

(* ANCOUNT is the exact number of answers whenever that number fits 16 bits (a response with
   65536 or more records exceeds both transports' size limits) *)
Theorem C18_answer_count : forall t req resp t',
  respond t req = Ok (resp, t') -> (lenN (p_answers resp) < 65536)%N ->
  h_an (p_hdr resp) = lenN (p_answers resp).
Proof. exact answer_count_exact. Qed.
Print Assumptions C18_answer_count.

(* ---- isolation: all interleavings of the receive loop with the handler goroutines ----------------
   One buffer is refilled by every read; each datagram starts a handler that reads its argument
   at some later point of the schedule.  When the argument is a copy (what server.go and
   udp_server.go do after the fix, and what the LLMNR loops do by decoding before the next read;
   tied to the source by the c18.fact.handler_arg.* cases), every handler parses exactly the
   datagram it was started for, for every buffer size and every schedule. *)
Theorem C18_isolation : forall bufsize sched, isolated (rrun true bufsize sched).
Proof. exact isolation_copy. Qed.
Print Assumptions C18_isolation.

(* ... and every received datagram has its handler, in arrival order *)
Theorem C18_isolation_complete : forall copy bufsize sched,
  map ht_for (rs_threads (rrun copy bufsize sched)) = received bufsize sched.
Proof.
  intros copy bufsize sched. unfold rrun.
  rewrite handlers_match_datagrams. cbn. now rewrite repeat_length.
Qed.
Print Assumptions C18_isolation_complete.

(* with the shared slice (`go s.handlePacket(buf[:n], ...)`, the unrepaired tree) the statement is false *)
Theorem C18_isolation_shared_refuted : exists bufsize sched, ~ isolated (rrun false bufsize sched).
Proof. exact isolation_shared_refuted. Qed.
Print Assumptions C18_isolation_shared_refuted.

(* ---- the LLMNR client hands each response to the query with the matching id -------------------
   After any history `pre`, the query whose Store comes next owns a fresh channel; while its id is
   neither stored again nor deleted (the query is outstanding and ids of outstanding queries are
   distinct), that channel holds exactly the first RESPONSE carrying its id among the datagrams
   that follow, in every interleaving with other queries' Store/Delete and other datagrams. *)
Theorem C18_llmnr_demux : forall pre id post,
  undisturbed id post = true ->
  nth (length (d_chans (drun pre))) (d_chans (drun (pre ++ DStore id :: post))) None = first_response id post.
Proof. exact llmnr_demux. Qed.
Print Assumptions C18_llmnr_demux.

(* what the channel holds carries the query's id *)
Theorem C18_llmnr_demux_id : forall id post m name, first_response id post = Some (m, name) -> m = id.
Proof. exact first_response_id. Qed.
Print Assumptions C18_llmnr_demux_id.

(* the LLMNR server hands only queries (QR clear) to handlers; what the response writer sends is a response *)
Theorem C18_llmnr_server_bits : forall flags,
  llmnr_is_query flags = negb (N.testbit flags 15) /\ llmnr_is_query (llmnr_set_response flags) = false.
Proof. intros flags. split; [apply llmnr_query_bit|apply llmnr_response_marked]. Qed.
Print Assumptions C18_llmnr_server_bits.

(* ---- shutdown ------------------------------------------------------------------------------------
   Datagram loops (nbtns Server/UDPServer.serve, llmnr Server.Serve, llmnr Client.readLoop).
   From EVERY state (any program counter, queue, number of handlers, any earlier progress of
   Stop), along EVERY schedule of loop steps, Stop steps, arrivals, deadline expiries and handler
   completions in which Stop/Close gets two steps, then the loop goroutine two steps, then Stop
   one more: the loop has exited and Stop has returned from wg.Wait.  Fairness is exactly the
   existence of those steps; everything else in the schedule is arbitrary. *)
Theorem C18_shutdown_model : forall s s1 s2 s3, uwf s ->
  2 <= ucount UStop s1 -> 2 <= ucount ULoop s2 -> 1 <= ucount UStop s3 ->
  udp_stopped (urun s (s1 ++ s2 ++ s3)).
Proof. exact shutdown_udp. Qed.
Print Assumptions C18_shutdown_model.

(* LLMNR Close does not wait: Serve / readLoop has returned after the first two phases *)
Theorem C18_shutdown_loop_exits : forall s s1 s2, uwf s ->
  2 <= ucount UStop s1 -> 2 <= ucount ULoop s2 ->
  u_loop (urun s (s1 ++ s2)) = LExited /\ u_quit (urun s (s1 ++ s2)) = true.
Proof. exact loop_exits. Qed.
Print Assumptions C18_shutdown_loop_exits.

(* the loops never exit on their own *)
Theorem C18_shutdown_only_on_stop : forall sched s,
  (u_loop s = LExited -> u_quit s = true) ->
  u_loop (urun s sched) = LExited -> u_quit (urun s sched) = true.
Proof. exact loop_exit_needs_stop. Qed.
Print Assumptions C18_shutdown_only_on_stop.

(* TCP server: accept loop, one goroutine per connection, Stop = close(quit); listener.Close();
   close every connection found in tcpConns; wg.Wait().  A connection whose goroutine has not yet
   stored itself when Stop walks the map is NOT closed by Stop - it still exits, because quit is
   already closed when it reaches its select.  From every well-formed state, along every schedule
   in which Stop gets three steps, then the accept loop two, then every connection goroutine two,
   then Stop one: everything has exited and Stop has returned. *)
Theorem C18_shutdown_tcp : forall s s1 s2 s3 s4, twf s ->
  3 <= tcount_stop s1 -> 2 <= tcount_acc s2 ->
  (forall i, i < length (t_conns (trun s (s1 ++ s2))) -> 2 <= tcount_conn i s3) ->
  1 <= tcount_stop s4 ->
  tcp_stopped (trun s (s1 ++ s2 ++ s3 ++ s4)).
Proof. exact shutdown_tcp. Qed.
Print Assumptions C18_shutdown_tcp.

(* ---- totality (reused by C07) --------------------------------------------------------------------
   For every table reachable through the servers and the table API, and every decoded request,
   handlePacket/handleMessage produce a response: no panic (ReleaseName's Owners[0] is safe
   because no reachable record is without owner) and no error. *)
Theorem C18_total_respond : forall t req, reachable t -> respond t req <> Panic.
Proof. exact respond_never_panics. Qed.
Print Assumptions C18_total_respond.

(* byte-level entry points, for ANY codec that does not panic (C10 proves that of packet.go) *)
Theorem C18_total_handle_message : forall unmarshal marshal,
  (forall b, unmarshal b <> Panic) -> (forall p, marshal p <> Panic) ->
  forall t data, reachable t -> handle_message unmarshal marshal t data <> Panic.
Proof. exact handle_message_total. Qed.
Print Assumptions C18_total_handle_message.

Theorem C18_total_server_handle_packet : forall unmarshal marshal,
  (forall b, unmarshal b <> Panic) -> (forall p, marshal p <> Panic) ->
  forall t data, reachable t -> server_handle_packet unmarshal marshal t data <> Panic.
Proof. exact handle_message_total. Qed.
Print Assumptions C18_total_server_handle_packet.

Theorem C18_total_udp_handle_packet : forall unmarshal marshal,
  (forall b, unmarshal b <> Panic) -> (forall p, marshal p <> Panic) ->
  forall t data, reachable t -> udp_handle_packet unmarshal marshal t data <> Panic.
Proof. exact udp_handle_packet_total. Qed.
Print Assumptions C18_total_udp_handle_packet.

Theorem C18_total_tcp_conn : forall unmarshal marshal,
  (forall b, unmarshal b <> Panic) -> (forall p, marshal p <> Panic) ->
  forall fuel t stream, reachable t -> tcp_conn unmarshal marshal fuel t stream <> Panic.
Proof. exact tcp_conn_total. Qed.
Print Assumptions C18_total_tcp_conn.

(* ---- what goes on the wire ---------------------------------------------------------------------- *)

(* a UDP response over MaxUDPSize leaves as a datagram of exactly that size with the request's
   transaction id and the TC bit set in its header; shorter ones leave unchanged *)
Theorem C18_udp_truncation : forall wire, wf_bytes wire ->
  ((lenN wire <= c18_MaxUDPSize)%N -> udp_finish wire = wire) /\
  ((c18_MaxUDPSize < lenN wire)%N ->
     lenN (udp_finish wire) = c18_MaxUDPSize /\ firstn 2 (udp_finish wire) = firstn 2 wire /\
     N.testbit (be_val (firstn 2 (skipn 2 (udp_finish wire)))) 9 = true).
Proof.
  intros wire Hwf. split; intros H; [apply udp_finish_short; exact H|apply udp_finish_long; assumption].
Qed.
Print Assumptions C18_udp_truncation.

(* the TCP stream the server writes always deframes to exactly the responses it framed, and a
   response that cannot be framed (over 65535 bytes) is never written *)
Theorem C18_tcp_framing : forall msgs frames,
  map tcp_frame msgs = map Some frames -> deframe (length msgs) (concat frames) = Some msgs.
Proof. exact deframe_frames. Qed.
Print Assumptions C18_tcp_framing.

Theorem C18_tcp_frame_limit : forall msg,
  ((lenN msg <= c18_MaxTCPMessageSize)%N -> tcp_frame msg = Some ([lenN msg / 256; lenN msg mod 256]%N ++ msg)) /\
  ((c18_MaxTCPMessageSize < lenN msg)%N -> tcp_frame msg = None).
Proof. intros msg. split; [apply tcp_frame_some|apply tcp_frame_none]. Qed.
Print Assumptions C18_tcp_frame_limit.

(* ---- non-vacuity ---------------------------------------------------------------------------------- *)

Definition ex_name : nbname := {| nb_name := [87; 75; 83]%N; nb_scope := [] |}.
Definition ex_owner : bytes := [0; 0; 10; 0; 0; 7]%N.
Definition ex_reg : packet :=
  {| p_hdr := {| h_id := 1; h_flags := 10512 (* 0x2910 registration *); h_qd := 0; h_an := 1; h_ns := 0; h_ar := 0 |}%N;
     p_questions := [];
     p_answers := [{| rr_name := ex_name; rr_type := 32; rr_class := 1; rr_ttl := 300; rr_rdlength := 6; rr_rdata := ex_owner |}%N];
     p_authority := []; p_additional := [] |}.
Definition ex_query : packet :=
  {| p_hdr := {| h_id := 4660; h_flags := 272 (* 0x0110 query *); h_qd := 1; h_an := 0; h_ns := 0; h_ar := 0 |}%N;
     p_questions := [{| q_name := ex_name; q_type := 32; q_class := 1 |}%N];
     p_answers := []; p_authority := []; p_additional := [] |}.

(* a registration received on the wire is reachable and a later query gets the registered owner back *)
Definition ex_t1 : table := match respond [] ex_reg with Ok (_, t) => t | _ => [] end.
Example C18_example_register_then_query :
  exists r1 r2, respond [] ex_reg = Ok (r1, ex_t1) /\ reachable ex_t1 /\
    respond ex_t1 ex_query = Ok (r2, ex_t1) /\ h_id (p_hdr r2) = 4660%N /\
    map rr_rdata (p_answers r2) = [ex_owner] /\ h_an (p_hdr r2) = 1%N /\ rcode (h_flags (p_hdr r2)) = 0%N.
Proof.
  do 2 eexists. split; [vm_compute; reflexivity|]. split.
  - eapply (reach_respond [] ex_reg _ ex_t1 reach_empty). vm_compute. reflexivity.
  - vm_compute. repeat split; reflexivity.
Qed.

(* the demultiplexer hypothesis is satisfiable and the channel gets the matching response *)
Example C18_example_demux :
  let post := [DRecv 8 32768 [1]; DStore 9; DRecv 7 0 [2]; DRecv 7 32768 [3]; DRecv 7 32768 [4]]%N in
  undisturbed 7%N post = true /\
  nth 1 (d_chans (drun ([DStore 5%N] ++ DStore 7%N :: post))) None = Some (7%N, [3%N]).
Proof. vm_compute. split; reflexivity. Qed.

(* a schedule meeting the fairness hypotheses, with traffic in between *)
Example C18_example_shutdown :
  let s := {| u_loop := LRead; u_quit := false; u_conn_closed := false; u_queue := 3; u_stop := SIdle; u_handlers := 1 |} in
  uwf s /\
  udp_stopped (urun s ([UArrive; ULoop; UStop; ULoop; UArrive; UStop] ++ [UHandlerDone; ULoop; UTimeout; ULoop] ++ [UStop])).
Proof. vm_compute. repeat split; reflexivity. Qed.

Example C18_example_shutdown_tcp :
  let s := {| t_acc := AAccept; t_quit := false; t_lclosed := false; t_backlog := 1;
              t_conns := [{| c_pc := CRead; c_stored := true; c_closed := false; c_avail := 0 |}]; t_stop := TIdle |} in
  twf s /\
  (* the second connection is accepted while Stop is running and is not yet stored when Stop walks the map *)
  tcp_stopped (trun s ([TAcc; TStop; TAcc; TStop; TStop] ++ [TAcc; TAcc] ++ [TConn 0; TConn 1; TConn 0; TConn 1] ++ [TStop])).
Proof.
  split.
  - split; [|exact I]. repeat constructor. unfold cK; cbn; congruence.
  - vm_compute. repeat split; reflexivity.
Qed.
