(* Generic glue between the harness text protocol and the extracted Coq model.
   Line format:  <fn> (<arg> ...) => <impl-output>
   The driver recomputes the output with the model and prints  <fn> (<args>) => <model-output>. *)
open Model

let rec pos_of_int n =
  if n = 1 then XH
  else if n land 1 = 1 then XI (pos_of_int (n lsr 1))
  else XO (pos_of_int (n lsr 1))
let n_of_int n = if n = 0 then N0 else Npos (pos_of_int n)
let rec int_of_pos = function
  | XH -> 1
  | XO p -> 2 * int_of_pos p
  | XI p -> 2 * int_of_pos p + 1
let int_of_n = function N0 -> 0 | Npos p -> int_of_pos p

let coq_string s =
  let rec go i acc =
    if i < 0 then acc
    else
      let c = Char.code s.[i] in
      let b k = (c lsr k) land 1 = 1 in
      go (i - 1) (String (Ascii (b 0, b 1, b 2, b 3, b 4, b 5, b 6, b 7), acc))
  in
  go (String.length s - 1) EmptyString

let hexval c =
  match c with
  | '0' .. '9' -> Char.code c - 48
  | 'a' .. 'f' -> Char.code c - 87
  | 'A' .. 'F' -> Char.code c - 55
  | _ -> failwith "hex"

let bytes_of_hex s (start : int) =
  let n = (String.length s - start) / 2 in
  let rec go i acc =
    if i < 0 then acc
    else go (i - 1) (n_of_int ((hexval s.[start + 2 * i] * 16) + hexval s.[start + 2 * i + 1]) :: acc)
  in
  go (n - 1) []

let chars_of_string s (start : int) =
  let rec go i acc = if i < start then acc else go (i - 1) (n_of_int (Char.code s.[i]) :: acc) in
  go (String.length s - 1) []

(* tokenizer *)
let tokenize s =
  let toks = ref [] in
  let buf = Buffer.create 64 in
  let flush () =
    if Buffer.length buf > 0 then (toks := Buffer.contents buf :: !toks; Buffer.clear buf)
  in
  String.iter
    (fun c ->
      match c with
      | ' ' | '\t' | '\r' | '\n' -> flush ()
      | '(' | ')' -> flush (); toks := String.make 1 c :: !toks
      | _ -> Buffer.add_char buf c)
    s;
  flush ();
  List.rev !toks

let rec parse_val t =
  match t with
  | [] -> failwith "empty"
  | "(" :: rest ->
      let rec items t acc =
        match t with
        | ")" :: r -> (VL (List.rev acc), r)
        | [] -> failwith "unclosed"
        | _ ->
            let v, r = parse_val t in
            items r (v :: acc)
      in
      items rest []
  | "E" :: rest -> (VErr, rest)
  | "P" :: rest -> (VPanic, rest)
  | h :: rest ->
      if h.[0] = 'x' then (VB (bytes_of_hex h 1), rest)
      else if h.[0] = 'n' then (VN (parse_z (chars_of_string h 1)), rest)
      else failwith ("bad token " ^ h)

let hexdig = "0123456789abcdef"

let rec print_val (b : Buffer.t) v : unit =
  match v with
  | VB l ->
      Buffer.add_char b 'x';
      List.iter
        (fun n ->
          let i = int_of_n n in
          if i > 255 then Buffer.add_string b "<bad-byte>"
          else (Buffer.add_char b hexdig.[i lsr 4]; Buffer.add_char b hexdig.[i land 15]))
        l
  | VN z ->
      Buffer.add_char b 'n';
      List.iter (fun n -> Buffer.add_char b (Char.chr (int_of_n n))) (print_z z)
  | VL l ->
      Buffer.add_char b '(';
      List.iteri (fun i x -> if i > 0 then Buffer.add_char b ' '; print_val b x) l;
      Buffer.add_char b ')'
  | VErr -> Buffer.add_char b 'E'
  | VPanic -> Buffer.add_char b 'P'

let () =
  let b = Buffer.create 4096 in
  try
    while true do
      let line = input_line stdin in
      if String.length line > 0 then begin
        match tokenize line with
        | fn :: rest ->
            let args, _ = parse_val rest in
            let al = match args with VL l -> l | _ -> [] in
            let out = dispatch (coq_string fn) al in
            Buffer.clear b;
            Buffer.add_string b fn;
            Buffer.add_char b ' ';
            print_val b args;
            Buffer.add_string b " => ";
            print_val b out;
            print_endline (Buffer.contents b)
        | [] -> ()
      end
    done
  with End_of_file -> ()
