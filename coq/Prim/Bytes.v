(* Go-faithful byte-level primitives: fixed-width little/big-endian codecs on N with the
   wrap written out, and slices that can panic. *)
From Coq Require Import List NArith ZArith Lia Bool.
From Coq Require Import ZifyN ZifyNat ZifyBool.
From Mant Require Import Prim.R.
Import ListNotations.
Open Scope N_scope.

Definition wf_bytes (l : list N) : Prop := Forall (fun b => b < 256) l.
Definition wf_bytesb (l : list N) : bool := forallb (fun b => b <? 256) l.

Lemma wf_bytesb_spec l : wf_bytesb l = true <-> wf_bytes l.
Proof.
  unfold wf_bytesb, wf_bytes. rewrite forallb_forall, Forall_forall.
  split; intros H x Hx; specialize (H x Hx); lia.
Qed.

Lemma wf_bytes_app a b : wf_bytes (a ++ b) <-> wf_bytes a /\ wf_bytes b.
Proof. unfold wf_bytes. apply Forall_app. Qed.

Lemma wf_bytes_firstn n l : wf_bytes l -> wf_bytes (firstn n l).
Proof.
  intros H. rewrite <- (firstn_skipn n l) in H. apply wf_bytes_app in H. tauto.
Qed.

Lemma wf_bytes_skipn n l : wf_bytes l -> wf_bytes (skipn n l).
Proof.
  intros H. rewrite <- (firstn_skipn n l) in H. apply wf_bytes_app in H. tauto.
Qed.

Definition lenN {A} (l : list A) : N := N.of_nat (length l).

Lemma lenN_app {A} (a b : list A) : lenN (a ++ b) = lenN a + lenN b.
Proof. unfold lenN. rewrite app_length. lia. Qed.

Lemma lenN_nil {A} : lenN (@nil A) = 0.
Proof. reflexivity. Qed.

Lemma lenN_cons {A} (x : A) l : lenN (x :: l) = 1 + lenN l.
Proof. unfold lenN. simpl length. lia. Qed.

(* ------------------------------------------------------------------ *)
(* Fixed-width integers: w bytes, little-endian first.                *)

Fixpoint le_bytes (w : nat) (n : N) : list N :=
  match w with
  | O => []
  | S w' => (n mod 256) :: le_bytes w' (n / 256)
  end.

Fixpoint le_val (l : list N) : N :=
  match l with
  | [] => 0
  | b :: l' => b + 256 * le_val l'
  end.

Definition be_bytes (w : nat) (n : N) : list N := rev (le_bytes w n).
Definition be_val (l : list N) : N := le_val (rev l).

Lemma length_le_bytes w n : length (le_bytes w n) = w.
Proof. revert n; induction w as [|w IH]; intros n; simpl; [reflexivity | now rewrite IH]. Qed.

Lemma length_be_bytes w n : length (be_bytes w n) = w.
Proof. unfold be_bytes. now rewrite rev_length, length_le_bytes. Qed.

Lemma wf_le_bytes w n : wf_bytes (le_bytes w n).
Proof.
  revert n; induction w as [|w IH]; intros n; simpl; constructor.
  - apply N.mod_lt. lia.
  - apply IH.
Qed.

Lemma wf_bytes_rev l : wf_bytes l -> wf_bytes (rev l).
Proof. unfold wf_bytes. intros H. apply Forall_rev. exact H. Qed.

Lemma wf_be_bytes w n : wf_bytes (be_bytes w n).
Proof. apply wf_bytes_rev, wf_le_bytes. Qed.

Lemma pow256_S (w : nat) : 2 ^ (8 * N.of_nat (S w)) = 256 * 2 ^ (8 * N.of_nat w).
Proof.
  replace (8 * N.of_nat (S w)) with (8 + 8 * N.of_nat w) by lia.
  rewrite N.pow_add_r. reflexivity.
Qed.

Lemma le_val_le_bytes w n : le_val (le_bytes w n) = n mod 2 ^ (8 * N.of_nat w).
Proof.
  revert n; induction w as [|w IH]; intros n.
  - simpl. now rewrite N.mod_1_r.
  - cbn [le_bytes le_val]. rewrite IH, pow256_S.
    rewrite N.mod_mul_r by (try apply N.pow_nonzero; lia). reflexivity.
Qed.

Lemma le_val_bound l : wf_bytes l -> le_val l < 2 ^ (8 * N.of_nat (length l)).
Proof.
  induction 1 as [|b l Hb Hl IH].
  - simpl. lia.
  - cbn [le_val length]. rewrite pow256_S. lia.
Qed.

Lemma le_bytes_le_val l : wf_bytes l -> le_bytes (length l) (le_val l) = l.
Proof.
  induction 1 as [|b l Hb Hl IH].
  - reflexivity.
  - cbn [le_val length le_bytes].
    assert (H1 : (b + 256 * le_val l) mod 256 = b).
    { rewrite (N.mul_comm 256), N.mod_add by lia. now apply N.mod_small. }
    assert (H2 : (b + 256 * le_val l) / 256 = le_val l).
    { rewrite (N.mul_comm 256), N.div_add by lia. rewrite (N.div_small b 256) by exact Hb. lia. }
    rewrite H1, H2, IH. reflexivity.
Qed.

Lemma le_val_small w n : n < 2 ^ (8 * N.of_nat w) -> le_val (le_bytes w n) = n.
Proof. intros H. rewrite le_val_le_bytes. now apply N.mod_small. Qed.

Lemma be_val_be_bytes w n : be_val (be_bytes w n) = n mod 2 ^ (8 * N.of_nat w).
Proof. unfold be_val, be_bytes. rewrite rev_involutive. apply le_val_le_bytes. Qed.

Lemma be_bytes_be_val l : wf_bytes l -> be_bytes (length l) (be_val l) = l.
Proof.
  intros H. unfold be_val, be_bytes.
  rewrite <- (rev_length l). rewrite le_bytes_le_val by now apply wf_bytes_rev.
  apply rev_involutive.
Qed.

Lemma be_val_bound l : wf_bytes l -> be_val l < 2 ^ (8 * N.of_nat (length l)).
Proof.
  intros H. unfold be_val. rewrite <- (rev_length l). apply le_val_bound. now apply wf_bytes_rev.
Qed.

Lemma lenN_le_bytes w n : lenN (le_bytes w n) = N.of_nat w.
Proof. unfold lenN. now rewrite length_le_bytes. Qed.

Lemma lenN_be_bytes w n : lenN (be_bytes w n) = N.of_nat w.
Proof. unfold lenN. now rewrite length_be_bytes. Qed.

(* Named widths, as Go spells them. *)
Definition wrap8 (n : N) := n mod 256.
Definition wrap16 (n : N) := n mod 65536.
Definition wrap32 (n : N) := n mod 4294967296.
Definition wrap64 (n : N) := n mod 18446744073709551616.

Definition le16 n := le_bytes 2 n.
Definition le32 n := le_bytes 4 n.
Definition le64 n := le_bytes 8 n.
Definition be16 n := be_bytes 2 n.
Definition be32 n := be_bytes 4 n.
Definition be64 n := be_bytes 8 n.

(* ------------------------------------------------------------------ *)
(* Go slice expressions, assuming cap = len (the harness hands exact-capacity slices). *)

Definition go_slice {A} (l : list A) (lo hi : N) : R (list A) :=
  if (lo <=? hi) && (hi <=? lenN l)
  then Ok (firstn (N.to_nat (hi - lo)) (skipn (N.to_nat lo) l))
  else Panic.

Definition go_from {A} (l : list A) (lo : N) : R (list A) :=
  if lo <=? lenN l then Ok (skipn (N.to_nat lo) l) else Panic.

Definition go_upto {A} (l : list A) (hi : N) : R (list A) :=
  if hi <=? lenN l then Ok (firstn (N.to_nat hi) l) else Panic.

Definition go_index {A} (l : list A) (i : N) : R A :=
  if i <? lenN l then
    match nth_error l (N.to_nat i) with Some x => Ok x | None => Panic end
  else Panic.

(* binary.LittleEndian.UintK(b) panics when len b < K/8 and reads the first K/8 bytes. *)
Definition go_le_uint (w : nat) (l : list N) : R N :=
  if (w <=? length l)%nat then Ok (le_val (firstn w l)) else Panic.
Definition go_be_uint (w : nat) (l : list N) : R N :=
  if (w <=? length l)%nat then Ok (be_val (firstn w l)) else Panic.

Lemma go_slice_ok {A} (l : list A) lo hi :
  lo <= hi -> hi <= lenN l ->
  go_slice l lo hi = Ok (firstn (N.to_nat (hi - lo)) (skipn (N.to_nat lo) l)).
Proof.
  intros H1 H2. unfold go_slice.
  destruct (N.leb_spec lo hi); [|lia]. destruct (N.leb_spec hi (lenN l)); [|lia]. reflexivity.
Qed.

Lemma go_slice_app_mid {A} (a b c : list A) :
  go_slice (a ++ b ++ c) (lenN a) (lenN a + lenN b) = Ok b.
Proof.
  rewrite go_slice_ok.
  - unfold lenN. replace (N.to_nat (N.of_nat (length a) + N.of_nat (length b) - N.of_nat (length a)))
      with (length b) by lia.
    rewrite Nat2N.id. rewrite skipn_app, skipn_all, Nat.sub_diag. simpl.
    rewrite firstn_app, firstn_all, Nat.sub_diag. simpl. now rewrite app_nil_r.
  - lia.
  - rewrite !lenN_app. lia.
Qed.

Lemma go_from_app {A} (a b : list A) : go_from (a ++ b) (lenN a) = Ok b.
Proof.
  unfold go_from. rewrite lenN_app. destruct (N.leb_spec (lenN a) (lenN a + lenN b)); [|lia].
  unfold lenN. rewrite Nat2N.id, skipn_app, skipn_all, Nat.sub_diag. reflexivity.
Qed.

Lemma go_le_uint_app w n rest :
  go_le_uint w (le_bytes w n ++ rest) = Ok (n mod 2 ^ (8 * N.of_nat w)).
Proof.
  unfold go_le_uint. rewrite app_length, length_le_bytes.
  destruct (Nat.leb_spec w (w + length rest)); [|lia].
  rewrite firstn_app, length_le_bytes, Nat.sub_diag. simpl firstn at 2. rewrite app_nil_r.
  rewrite <- (length_le_bytes w n) at 1. rewrite firstn_all. now rewrite le_val_le_bytes.
Qed.

Lemma go_be_uint_app w n rest :
  go_be_uint w (be_bytes w n ++ rest) = Ok (n mod 2 ^ (8 * N.of_nat w)).
Proof.
  unfold go_be_uint. rewrite app_length, length_be_bytes.
  destruct (Nat.leb_spec w (w + length rest)); [|lia].
  rewrite firstn_app, length_be_bytes, Nat.sub_diag. simpl firstn at 2. rewrite app_nil_r.
  rewrite <- (length_be_bytes w n) at 1. rewrite firstn_all. now rewrite be_val_be_bytes.
Qed.

(* Helpers used everywhere *)
Fixpoint repeatN {A} (x : A) (n : nat) : list A :=
  match n with O => [] | S n' => x :: repeatN x n' end.

Lemma repeatN_length {A} (x : A) n : length (repeatN x n) = n.
Proof. induction n; simpl; congruence. Qed.

Definition bytes_eqb (a b : list N) : bool :=
  (fix go (a b : list N) : bool :=
     match a, b with
     | [], [] => true
     | x :: a', y :: b' => (x =? y) && go a' b'
     | _, _ => false
     end) a b.

Lemma bytes_eqb_spec a b : bytes_eqb a b = true <-> a = b.
Proof.
  unfold bytes_eqb. revert b; induction a as [|x a IH]; intros [|y b]; split; intros H;
    try reflexivity; try discriminate.
  - apply andb_true_iff in H. destruct H as [H1 H2]. apply N.eqb_eq in H1. apply IH in H2. congruence.
  - inversion H; subst. apply andb_true_iff. split; [apply N.eqb_refl | now apply IH].
Qed.
