(* Hexadecimal numbers as fmt's %0Nx prints them and strconv.ParseUint(s, 16, bits) reads them,
   with the inverse theorems (owner: C13).  Characters are ASCII codes in N. *)
From Coq Require Import List Arith NArith ZArith Lia Bool.
From Coq Require Import ZifyN ZifyNat ZifyBool.
From Mant Require Import Prim.R Prim.Bytes Prim.Dec.
Import ListNotations.
Open Scope N_scope.

(* [hex_fix k n]: the k low hexadecimal digits of n, most significant first, lower case. *)
Fixpoint hex_fix (k : nat) (n : N) : list N :=
  match k with
  | O => []
  | S k' => hex_fix k' (n / 16) ++ [hex_digit false (n mod 16)]
  end.

Definition hex_ndigits (n : N) : nat := N.to_nat ((N.size n + 3) / 4).

(* fmt.Sprintf("%0wx", n) for w >= 1: at least w digits, more when n needs them. *)
Definition hex_pad (w : nat) (n : N) : list N := hex_fix (Nat.max w (hex_ndigits n)) n.

(* lower-case hexadecimal digit, the class [0-9a-f] *)
Definition is_lhex (c : N) : bool := ((48 <=? c) && (c <=? 57)) || ((97 <=? c) && (c <=? 102)).

(* accumulate hexadecimal digits of either case; None on any other character *)
Fixpoint hex_acc (s : list N) (acc : N) : option N :=
  match s with
  | [] => Some acc
  | c :: r => match unhex_digit c with Some d => hex_acc r (16 * acc + d) | None => None end
  end.

Definition hexval (s : list N) : N := match hex_acc s 0 with Some v => v | None => 0 end.

(* strconv.ParseUint(s, 16, bits): non-empty, only hex digits (no sign, prefix or underscore in
   base 16), value below 2^bits (any number of leading zeros). *)
Definition parse_uint_hex (bits : N) (s : list N) : R N :=
  match s with
  | [] => Err
  | _ => match hex_acc s 0 with
         | Some v => if v <? 2 ^ bits then Ok v else Err
         | None => Err
         end
  end.

(* ------------------------------------------------------------------ *)

Lemma length_hex_fix k n : length (hex_fix k n) = k.
Proof.
  revert n; induction k as [|k IH]; intros n; [reflexivity|].
  cbn [hex_fix]. rewrite app_length, IH. simpl. lia.
Qed.

Lemma is_lhex_hex_digit d : d < 16 -> is_lhex (hex_digit false d) = true.
Proof. intros H. unfold is_lhex, hex_digit. destruct (N.ltb_spec d 10); lia. Qed.

Lemma lhex_hex_fix k n : forallb is_lhex (hex_fix k n) = true.
Proof.
  revert n; induction k as [|k IH]; intros n; [reflexivity|].
  cbn [hex_fix]. rewrite forallb_app, IH. cbn [forallb].
  rewrite is_lhex_hex_digit; [reflexivity|]. apply N.mod_lt. lia.
Qed.

Lemma is_lhex_inv c : is_lhex c = true ->
  exists d, d < 16 /\ unhex_digit c = Some d /\ hex_digit false d = c.
Proof.
  intros H. unfold is_lhex in H. unfold unhex_digit, hex_digit.
  destruct ((48 <=? c) && (c <=? 57)) eqn:E1.
  - exists (c - 48). destruct (N.ltb_spec (c - 48) 10); repeat split; lia.
  - destruct ((97 <=? c) && (c <=? 102)) eqn:E2; [|discriminate].
    exists (c - 87). destruct (N.ltb_spec (c - 87) 10); repeat split; lia.
Qed.

Lemma hex_acc_app a b acc :
  hex_acc (a ++ b) acc = match hex_acc a acc with Some v => hex_acc b v | None => None end.
Proof.
  revert acc; induction a as [|c a IH]; intros acc; [reflexivity|].
  cbn [app hex_acc]. destruct (unhex_digit c); [apply IH|reflexivity].
Qed.

Lemma pow16_S (k : nat) : 16 ^ N.of_nat (S k) = 16 * 16 ^ N.of_nat k.
Proof. replace (N.of_nat (S k)) with (1 + N.of_nat k) by lia. now rewrite N.pow_add_r. Qed.

Lemma hex_acc_hex_fix k : forall n acc,
  hex_acc (hex_fix k n) acc = Some (acc * 16 ^ N.of_nat k + n mod 16 ^ N.of_nat k).
Proof.
  induction k as [|k IH]; intros n acc.
  - cbn [hex_fix hex_acc]. change (N.of_nat 0) with 0. rewrite N.pow_0_r, N.mod_1_r. f_equal. lia.
  - cbn [hex_fix]. rewrite hex_acc_app, IH. cbn [hex_acc].
    rewrite unhex_hex_digit by (apply N.mod_lt; lia). f_equal.
    rewrite pow16_S. rewrite (N.mod_mul_r n 16) by (try apply N.pow_nonzero; lia). lia.
Qed.

Lemma hexval_hex_fix k n : n < 16 ^ N.of_nat k -> hex_acc (hex_fix k n) 0 = Some n.
Proof. intros H. rewrite hex_acc_hex_fix. f_equal. rewrite N.mod_small by exact H. lia. Qed.

(* a string of lower-case hex digits always has a value, below 16^length, and prints back *)
Lemma hex_acc_lhex s : forallb is_lhex s = true -> forall acc,
  exists v, hex_acc s acc = Some v /\ v < (acc + 1) * 16 ^ N.of_nat (length s)
            /\ acc * 16 ^ N.of_nat (length s) <= v.
Proof.
  induction s as [|c s IH]; intros H acc.
  - exists acc. cbn [hex_acc length]. change (N.of_nat 0) with 0. rewrite N.pow_0_r. repeat split; lia.
  - cbn [forallb] in H. apply andb_true_iff in H. destruct H as [Hc Hs].
    destruct (is_lhex_inv c Hc) as (d & Hd & Hu & _).
    cbn [hex_acc]. rewrite Hu. destruct (IH Hs (16 * acc + d)) as (v & Hv & Hlt & Hge).
    exists v. cbn [length]. rewrite pow16_S. repeat split; [exact Hv|nia|nia].
Qed.

Lemma hexval_lhex s : forallb is_lhex s = true ->
  hex_acc s 0 = Some (hexval s) /\ hexval s < 16 ^ N.of_nat (length s).
Proof.
  intros H. destruct (hex_acc_lhex s H 0) as (v & Hv & Hlt & _).
  unfold hexval. rewrite Hv. split; [reflexivity|lia].
Qed.

Lemma hex_fix_hex_acc s : forallb is_lhex s = true -> forall acc v,
  hex_acc s acc = Some v -> hex_fix (length s) v = s /\ v / 16 ^ N.of_nat (length s) = acc.
Proof.
  induction s as [|c s IH] using rev_ind; intros H acc v Hv.
  - cbn [hex_acc] in Hv. inversion Hv; subst. cbn [length hex_fix]. change (N.of_nat 0) with 0.
    rewrite N.pow_0_r, N.div_1_r. split; reflexivity.
  - rewrite forallb_app in H. apply andb_true_iff in H. destruct H as [Hs Hc].
    cbn [forallb] in Hc. rewrite andb_true_r in Hc.
    destruct (is_lhex_inv c Hc) as (d & Hd & Hu & Hp).
    rewrite hex_acc_app in Hv. destruct (hex_acc s acc) as [v'|] eqn:E; [|discriminate].
    cbn [hex_acc] in Hv. rewrite Hu in Hv.
    assert (Hvv : v = 16 * v' + d) by congruence. subst v. clear Hv.
    destruct (IH Hs acc v' E) as [IH1 IH2].
    rewrite app_length. cbn [length]. replace (length s + 1)%nat with (S (length s)) by lia.
    cbn [hex_fix].
    assert (H1 : (16 * v' + d) mod 16 = d).
    { rewrite N.add_comm, N.mul_comm, N.mod_add by lia. now apply N.mod_small. }
    assert (H2 : (16 * v' + d) / 16 = v').
    { rewrite N.add_comm, N.mul_comm, N.div_add by lia. rewrite N.div_small by exact Hd. lia. }
    rewrite H1, H2, IH1, Hp. split; [reflexivity|].
    rewrite pow16_S. rewrite <- N.div_div by (try apply N.pow_nonzero; lia). now rewrite H2.
Qed.

Lemma hex_fix_hexval s : forallb is_lhex s = true -> hex_fix (length s) (hexval s) = s.
Proof.
  intros H. destruct (hexval_lhex s H) as [Hv _]. apply (hex_fix_hex_acc s H 0 _ Hv).
Qed.

(* width: hex_pad prints exactly w digits for values below 16^w *)
Lemma hex_ndigits_le n (w : nat) : n < 16 ^ N.of_nat w -> (hex_ndigits n <= w)%nat.
Proof.
  intros H. unfold hex_ndigits. destruct (N.eq_dec n 0) as [->|Hn]; [simpl; lia|].
  assert (Hs : N.size n <= 4 * N.of_nat w).
  { rewrite N.size_log2 by exact Hn.
    assert (N.log2 n < 4 * N.of_nat w); [|lia].
    apply N.log2_lt_pow2; [lia|].
    replace (2 ^ (4 * N.of_nat w)) with (16 ^ N.of_nat w); [exact H|].
    change 16 with (2 ^ 4). now rewrite <- N.pow_mul_r. }
  assert ((N.size n + 3) / 4 <= N.of_nat w); [|lia].
  apply N.lt_succ_r. apply N.div_lt_upper_bound; lia.
Qed.

Lemma hex_pad_small w n : n < 16 ^ N.of_nat w -> hex_pad w n = hex_fix w n.
Proof.
  intros H. unfold hex_pad. pose proof (hex_ndigits_le n w H). now rewrite Nat.max_l by lia.
Qed.

Lemma length_hex_pad_small w n : n < 16 ^ N.of_nat w -> length (hex_pad w n) = w.
Proof. intros H. rewrite hex_pad_small by exact H. apply length_hex_fix. Qed.

Lemma length_hex_pad_ge w n : (w <= length (hex_pad w n))%nat.
Proof. unfold hex_pad. rewrite length_hex_fix. lia. Qed.

(* fixed-width hex of a big-endian integer is the hex of its bytes *)
Lemma hex_fix_byte k x b : b < 256 ->
  hex_fix (S (S k)) (b + 256 * x) = hex_fix k x ++ hex_of_byte false b.
Proof.
  intros Hb. cbn [hex_fix]. unfold hex_of_byte. rewrite <- app_assoc. cbn [app].
  assert (H1 : (b + 256 * x) mod 16 = b mod 16).
  { replace (b + 256 * x) with (b + (16 * x) * 16) by lia. now rewrite N.mod_add by lia. }
  assert (H2 : (b + 256 * x) / 16 = b / 16 + 16 * x).
  { replace (b + 256 * x) with (b + (16 * x) * 16) by lia. rewrite N.div_add by lia. lia. }
  assert (H3 : (b / 16 + 16 * x) mod 16 = b / 16).
  { rewrite (N.mul_comm 16 x), N.mod_add by lia. apply N.mod_small. apply N.div_lt_upper_bound; lia. }
  assert (H4 : (b / 16 + 16 * x) / 16 = x).
  { rewrite (N.mul_comm 16 x), N.div_add by lia. rewrite (N.div_small (b / 16)); [lia|].
    apply N.div_lt_upper_bound; lia. }
  rewrite H1, H2, H3, H4. reflexivity.
Qed.

Lemma hex_fix_le_val l : wf_bytes l ->
  hex_fix (2 * length l) (le_val l) = hex_of_bytes false (rev l).
Proof.
  induction 1 as [|b l Hb Hl IH]; [reflexivity|].
  cbn [length le_val rev]. replace (2 * S (length l))%nat with (S (S (2 * length l))) by lia.
  rewrite hex_fix_byte by exact Hb. rewrite IH. unfold hex_of_bytes.
  rewrite flat_map_app. cbn [flat_map]. now rewrite app_nil_r.
Qed.

Lemma hex_pad_be_val l : wf_bytes l ->
  hex_pad (2 * length l) (be_val l) = hex_of_bytes false l.
Proof.
  intros H. rewrite hex_pad_small.
  - unfold be_val. rewrite <- (rev_length l). rewrite hex_fix_le_val by now apply wf_bytes_rev.
    now rewrite rev_involutive.
  - pose proof (be_val_bound l H) as Hb.
    replace (16 ^ N.of_nat (2 * length l)) with (2 ^ (8 * N.of_nat (length l))); [exact Hb|].
    change 16 with (2 ^ 4). rewrite <- N.pow_mul_r. f_equal. lia.
Qed.

(* parse_uint_hex on what hex_fix printed *)
Lemma parse_uint_hex_lhex bits s :
  forallb is_lhex s = true -> s <> [] -> 16 ^ N.of_nat (length s) <= 2 ^ bits ->
  parse_uint_hex bits s = Ok (hexval s).
Proof.
  intros H Hne Hb. destruct (hexval_lhex s H) as [Hv Hlt].
  unfold parse_uint_hex. destruct s as [|c s]; [congruence|].
  rewrite Hv. destruct (N.ltb_spec (hexval (c :: s)) (2 ^ bits)); [reflexivity|lia].
Qed.

Lemma parse_uint_hex_total bits s : parse_uint_hex bits s <> Panic.
Proof.
  unfold parse_uint_hex. destruct s; [discriminate|].
  destruct (hex_acc _ _); [|discriminate]. destruct (_ <? _); discriminate.
Qed.

(* case-insensitivity *)
Lemma to_lower_upper_lhex c : is_lhex c = true -> to_lower (to_upper c) = c.
Proof.
  unfold is_lhex, to_lower, to_upper. intros H.
  destruct ((97 <=? c) && (c <=? 122)) eqn:E1.
  - destruct ((65 <=? c - 32) && (c - 32 <=? 90)) eqn:E2; lia.
  - destruct ((65 <=? c) && (c <=? 90)) eqn:E2; lia.
Qed.

Lemma hexval_app a b : forallb is_lhex a = true -> forallb is_lhex b = true ->
  hexval (a ++ b) = hexval a * 16 ^ N.of_nat (length b) + hexval b.
Proof.
  intros Ha Hb. destruct (hexval_lhex a Ha) as [Hva _].
  unfold hexval at 1. rewrite hex_acc_app, Hva.
  destruct (hex_acc_lhex b Hb (hexval a)) as (v & Hv & Hlt & Hge). rewrite Hv.
  destruct (hexval_lhex b Hb) as [Hvb Hltb].
  (* v = hexval a * 16^|b| + hexval b: both decompositions of the same digits *)
  destruct (hex_fix_hex_acc b Hb _ _ Hv) as [F1 F2].
  destruct (hex_fix_hex_acc b Hb _ _ Hvb) as [G1 G2].
  assert (Hm : v mod 16 ^ N.of_nat (length b) = hexval b).
  { pose proof (hex_acc_hex_fix (length b) v 0) as P. rewrite F1 in P. rewrite Hvb in P.
    inversion P as [P']. lia. }
  pose proof (N.div_mod v (16 ^ N.of_nat (length b))) as D.
  rewrite F2, Hm in D. rewrite D by (apply N.pow_nonzero; lia). lia.
Qed.
