(* Byte-level models of the Go [strings] functions used by windows/guid and crypto/uuid
   (TrimSpace, ToLower, Replace(s, c, "", -1), Split on a one-byte separator) and of the five
   anchored regular expressions of Guid.go, with the lemmas the C13 proofs need (owner: C13).

   strings.TrimSpace removes leading and trailing Unicode White_Space runes.  On bytes that is:
   remove, at either end, any of the UTF-8 encodings listed in [space_len] — exact for every byte
   string, valid UTF-8 or not, because those encodings are never a proper part of another valid
   encoding and DecodeRune/DecodeLastRune return RuneError (not a space) on anything invalid.

   strings.ToLower is modelled on ASCII letters only ([map to_lower]).  On non-ASCII input Go maps
   whole runes (and replaces invalid bytes by U+FFFD); the outcome class of every GUID/UUID parser
   is unaffected: white-space runes have no case mapping and every other non-ASCII rune or invalid
   byte becomes a rune outside [0-9a-f{}(),x-] and outside White_Space (U+0130 -> 'i', U+212A -> 'k',
   U+FFFD, or a non-ASCII rune), so it is neither trimmed later nor accepted by ParseUint, hex or the
   regular expressions — exactly like the bytes >= 0x80 the model leaves in place. *)
From Coq Require Import List Arith NArith Lia Bool.
From Coq Require Import ZifyN ZifyNat ZifyBool.
From Mant Require Import Prim.R Prim.Bytes Prim.Dec Prim.HexNum.
Import ListNotations.
Open Scope N_scope.

Definition is_ascii_space (c : N) : bool := ((9 <=? c) && (c <=? 13)) || (c =? 32).

(* length in bytes of the white-space rune at the head of s; 0 when there is none *)
Definition space_len (s : list N) : nat :=
  match s with
  | [] => O
  | c :: r =>
      if is_ascii_space c then 1%nat
      else if c =? 194 then                         (* U+0085 NEL, U+00A0 NBSP *)
        match r with d :: _ => if (d =? 133) || (d =? 160) then 2%nat else O | _ => O end
      else if c =? 225 then                         (* U+1680 *)
        match r with d :: e :: _ => if (d =? 154) && (e =? 128) then 3%nat else O | _ => O end
      else if c =? 226 then                         (* U+2000..U+200A, U+2028, U+2029, U+202F, U+205F *)
        match r with
        | d :: e :: _ =>
            if (d =? 128) && (((128 <=? e) && (e <=? 138)) || (e =? 168) || (e =? 169) || (e =? 175)) then 3%nat
            else if (d =? 129) && (e =? 159) then 3%nat else O
        | _ => O
        end
      else if c =? 227 then                         (* U+3000 *)
        match r with d :: e :: _ => if (d =? 128) && (e =? 128) then 3%nat else O | _ => O end
      else O
  end.

Fixpoint trim_left_fuel (fuel : nat) (s : list N) : list N :=
  match fuel with
  | O => s
  | S f => match space_len s with O => s | k => trim_left_fuel f (skipn k s) end
  end.
Definition trim_left (s : list N) : list N := trim_left_fuel (length s) s.

(* the same from the right: the reversed string starts with a reversed white-space encoding *)
Definition space_len_rev (s : list N) : nat :=
  match s with
  | [] => O
  | c :: r =>
      if is_ascii_space c then 1%nat
      else match r with
           | d :: r' =>
               if (d =? 194) && ((c =? 133) || (c =? 160)) then 2%nat
               else match r' with
                    | e :: _ =>
                        if (e =? 225) && (d =? 154) && (c =? 128) then 3%nat
                        else if (e =? 226) && (d =? 128) &&
                                (((128 <=? c) && (c <=? 138)) || (c =? 168) || (c =? 169) || (c =? 175)) then 3%nat
                        else if (e =? 226) && (d =? 129) && (c =? 159) then 3%nat
                        else if (e =? 227) && (d =? 128) && (c =? 128) then 3%nat
                        else O
                    | [] => O
                    end
           | [] => O
           end
  end.

Fixpoint trim_rev_fuel (fuel : nat) (s : list N) : list N :=
  match fuel with
  | O => s
  | S f => match space_len_rev s with O => s | k => trim_rev_fuel f (skipn k s) end
  end.
Definition trim_right (s : list N) : list N := rev (trim_rev_fuel (length s) (rev s)).

Definition trim_space (s : list N) : list N := trim_right (trim_left s).

Definition lower (s : list N) : list N := map to_lower s.
Definition upper (s : list N) : list N := map to_upper s.

(* strings.Replace(s, string(c), "", -1) *)
Definition remove_byte (c : N) (s : list N) : list N := filter (fun x => negb (x =? c)) s.

(* strings.Split(s, string(c)) *)
Fixpoint split_byte (c : N) (s : list N) : list (list N) :=
  match s with
  | [] => [[]]
  | x :: r =>
      if x =? c then [] :: split_byte c r
      else match split_byte c r with
           | p :: ps => (x :: p) :: ps
           | [] => [[x]]
           end
  end.

Fixpoint has_prefix_b (p s : list N) : bool :=
  match p, s with
  | [], _ => true
  | a :: p', b :: s' => (a =? b) && has_prefix_b p' s'
  | _ :: _, [] => false
  end.

(* The anchored regular expressions of Guid.go are sequences of [0-9a-f]{k} and literals. *)
Inductive tok : Type := THex (k : nat) | TLit (l : list N).

Fixpoint match_pat (p : list tok) (s : list N) : bool :=
  match p with
  | [] => match s with [] => true | _ => false end
  | THex k :: p' => (k <=? length s)%nat && forallb is_lhex (firstn k s) && match_pat p' (skipn k s)
  | TLit l :: p' => has_prefix_b l s && match_pat p' (skipn (length l) s)
  end.

(* ------------------------------------------------------------------ *)
(* Lemmas *)

Definition plain (c : N) : bool := (c <? 128) && negb (is_ascii_space c).

Lemma space_len_plain c s : plain c = true -> space_len (c :: s) = O.
Proof.
  unfold plain, space_len. intros H. apply andb_true_iff in H. destruct H as [H1 H2].
  apply negb_true_iff in H2. rewrite H2.
  destruct (N.eqb_spec c 194); [lia|]. destruct (N.eqb_spec c 225); [lia|].
  destruct (N.eqb_spec c 226); [lia|]. destruct (N.eqb_spec c 227); [lia|]. reflexivity.
Qed.

Lemma space_len_rev_plain c s : plain c = true -> space_len_rev (c :: s) = O.
Proof.
  unfold plain, space_len_rev. intros H. apply andb_true_iff in H. destruct H as [H1 H2].
  apply negb_true_iff in H2. rewrite H2.
  destruct s as [|d r]; [reflexivity|].
  assert (E1 : (c =? 133) = false) by lia. assert (E2 : (c =? 160) = false) by lia.
  assert (E3 : (c =? 128) = false) by lia. assert (E4 : (c =? 159) = false) by lia.
  assert (E5 : (128 <=? c) = false) by lia. assert (E6 : (c =? 168) = false) by lia.
  assert (E7 : (c =? 169) = false) by lia. assert (E8 : (c =? 175) = false) by lia.
  rewrite E1, E2, E3, E4, E5, E6, E7, E8. cbn [orb andb]. rewrite !andb_false_r.
  destruct r; [reflexivity|]. rewrite !andb_false_r. reflexivity.
Qed.

Lemma trim_left_plain c s : plain c = true -> trim_left (c :: s) = c :: s.
Proof.
  intros H. unfold trim_left. cbn [length trim_left_fuel]. now rewrite space_len_plain.
Qed.

Lemma trim_right_plain c s : plain c = true -> trim_right (s ++ [c]) = s ++ [c].
Proof.
  intros H. unfold trim_right. rewrite rev_app_distr. cbn [rev app].
  rewrite app_length. cbn [length]. replace (length s + 1)%nat with (S (length s)) by lia.
  cbn [trim_rev_fuel]. rewrite space_len_rev_plain by exact H.
  cbn [rev]. now rewrite rev_involutive.
Qed.

Lemma trim_left_nil : trim_left [] = [].
Proof. reflexivity. Qed.

(* a string whose first and last bytes are plain is untouched by TrimSpace *)
Lemma trim_space_plain s :
  match s with [] => True | c :: _ => plain c = true end ->
  match rev s with [] => True | c :: _ => plain c = true end ->
  trim_space s = s.
Proof.
  intros H1 H2. unfold trim_space. destruct s as [|c s]; [reflexivity|].
  rewrite trim_left_plain by exact H1.
  destruct (rev (c :: s)) as [|d r] eqn:E.
  - apply (f_equal (@length N)) in E. rewrite rev_length in E. discriminate.
  - assert (E' : c :: s = rev r ++ [d]).
    { rewrite <- (rev_involutive (c :: s)), E. reflexivity. }
    rewrite E'. now apply trim_right_plain.
Qed.

(* remove_byte / split_byte *)
Lemma remove_byte_app c a b : remove_byte c (a ++ b) = remove_byte c a ++ remove_byte c b.
Proof. unfold remove_byte. apply filter_app. Qed.

Lemma remove_byte_none c a : forallb (fun x => negb (x =? c)) a = true -> remove_byte c a = a.
Proof.
  unfold remove_byte. induction a as [|x a IH]; intros H; [reflexivity|].
  cbn [forallb] in H. apply andb_true_iff in H. destruct H as [H1 H2].
  cbn [filter]. rewrite H1, IH by exact H2. reflexivity.
Qed.

Lemma split_byte_nonempty c s : split_byte c s <> [].
Proof.
  induction s as [|x s IH]; [discriminate|]. cbn [split_byte].
  destruct (x =? c); [discriminate|]. destruct (split_byte c s); [congruence|discriminate].
Qed.

Lemma split_byte_none c a : forallb (fun x => negb (x =? c)) a = true -> split_byte c a = [a].
Proof.
  induction a as [|x a IH]; intros H; [reflexivity|].
  cbn [forallb] in H. apply andb_true_iff in H. destruct H as [H1 H2].
  cbn [split_byte]. apply negb_true_iff in H1. rewrite H1, IH by exact H2. reflexivity.
Qed.

Lemma split_byte_sep c a b : forallb (fun x => negb (x =? c)) a = true ->
  split_byte c (a ++ c :: b) = a :: split_byte c b.
Proof.
  induction a as [|x a IH]; intros H.
  - cbn [app split_byte]. now rewrite N.eqb_refl.
  - cbn [forallb] in H. apply andb_true_iff in H. destruct H as [H1 H2].
    cbn [app split_byte]. apply negb_true_iff in H1. rewrite H1, IH by exact H2. reflexivity.
Qed.

(* lower-case hex digits are plain and are none of the punctuation characters *)
Lemma lhex_not c x : is_lhex x = true -> (c <? 48) || ((57 <? c) && (c <? 97)) || (102 <? c) = true ->
  negb (x =? c) = true.
Proof. unfold is_lhex. intros H1 H2. lia. Qed.

Lemma lhex_none c s : forallb is_lhex s = true ->
  (c <? 48) || ((57 <? c) && (c <? 97)) || (102 <? c) = true ->
  forallb (fun x => negb (x =? c)) s = true.
Proof.
  intros H Hc. rewrite forallb_forall in *. intros x Hx. apply lhex_not; auto.
Qed.

Lemma lhex_plain x : is_lhex x = true -> plain x = true.
Proof. unfold is_lhex, plain, is_ascii_space. lia. Qed.

Lemma lower_lhex s : forallb is_lhex s = true -> lower s = s.
Proof.
  unfold lower. induction s as [|x s IH]; intros H; [reflexivity|].
  cbn [forallb] in H. apply andb_true_iff in H. destruct H as [H1 H2].
  cbn [map]. rewrite IH by exact H2. f_equal. unfold to_lower, is_lhex in *.
  destruct ((65 <=? x) && (x <=? 90)) eqn:E; lia.
Qed.

Lemma lower_app a b : lower (a ++ b) = lower a ++ lower b.
Proof. apply map_app. Qed.

Lemma lower_idem s : lower (lower s) = lower s.
Proof.
  unfold lower. rewrite map_map. apply map_ext. intros c. unfold to_lower.
  destruct ((65 <=? c) && (c <=? 90)) eqn:E; [|now rewrite E].
  destruct ((65 <=? c + 32) && (c + 32 <=? 90)) eqn:E2; lia.
Qed.

(* match_pat: building and inverting *)
Lemma has_prefix_b_app l s : has_prefix_b l (l ++ s) = true.
Proof. induction l as [|a l IH]; [reflexivity|]. cbn [app has_prefix_b]. now rewrite N.eqb_refl, IH. Qed.

Lemma has_prefix_b_inv l s : has_prefix_b l s = true -> s = l ++ skipn (length l) s.
Proof.
  revert s; induction l as [|a l IH]; intros s H; [reflexivity|].
  destruct s as [|b s]; [discriminate|]. cbn [has_prefix_b] in H.
  apply andb_true_iff in H. destruct H as [H1 H2]. apply N.eqb_eq in H1. subst b.
  cbn [length skipn app]. f_equal. now apply IH.
Qed.

Lemma match_pat_hex k p x s : length x = k -> forallb is_lhex x = true ->
  match_pat (THex k :: p) (x ++ s) = match_pat p s.
Proof.
  intros Hl Hx. cbn [match_pat]. rewrite app_length.
  destruct (Nat.leb_spec k (length x + length s)); [|lia].
  rewrite firstn_app, <- Hl, firstn_all, Nat.sub_diag. cbn [firstn]. rewrite app_nil_r, Hx.
  rewrite skipn_app, skipn_all, Nat.sub_diag. reflexivity.
Qed.

Lemma match_pat_lit l p s : match_pat (TLit l :: p) (l ++ s) = match_pat p s.
Proof.
  cbn [match_pat]. rewrite has_prefix_b_app. rewrite skipn_app, skipn_all, Nat.sub_diag. reflexivity.
Qed.

Lemma match_pat_hex_inv k p s : match_pat (THex k :: p) s = true ->
  exists x r, s = x ++ r /\ length x = k /\ forallb is_lhex x = true /\ match_pat p r = true.
Proof.
  cbn [match_pat]. intros H. apply andb_true_iff in H. destruct H as [H H3].
  apply andb_true_iff in H. destruct H as [H1 H2].
  exists (firstn k s), (skipn k s). rewrite firstn_skipn. repeat split; auto.
  apply firstn_length_le. now apply Nat.leb_le.
Qed.

Lemma match_pat_lit_inv l p s : match_pat (TLit l :: p) s = true ->
  exists r, s = l ++ r /\ match_pat p r = true.
Proof.
  cbn [match_pat]. intros H. apply andb_true_iff in H. destruct H as [H1 H2].
  exists (skipn (length l) s). split; [now apply has_prefix_b_inv|exact H2].
Qed.

Lemma match_pat_nil_inv s : match_pat [] s = true -> s = [].
Proof. destruct s; [reflexivity|discriminate]. Qed.
