(* Observable values exchanged between the Go harness, the extracted OCaml driver and
   the in-Coq replay (cases.v).  Inputs and outputs of every model entry point are [val]s. *)
From Coq Require Import List NArith ZArith String Bool.
Import ListNotations.
Open Scope N_scope.

Inductive val : Type :=
| VB (b : list N)      (* a byte string *)
| VN (z : Z)           (* an integer of any width / sign *)
| VL (l : list val)    (* a tuple or list *)
| VErr                 (* the call returned an error *)
| VPanic.              (* the call panicked *)

Fixpoint list_eqb {A} (eqb : A -> A -> bool) (a b : list A) : bool :=
  match a, b with
  | [], [] => true
  | x :: a', y :: b' => eqb x y && list_eqb eqb a' b'
  | _, _ => false
  end.

Fixpoint val_eqb (a b : val) {struct a} : bool :=
  match a, b with
  | VB x, VB y => list_eqb N.eqb x y
  | VN x, VN y => Z.eqb x y
  | VL x, VL y =>
      (fix go (x y : list val) {struct x} : bool :=
         match x, y with
         | [], [] => true
         | u :: x', v :: y' => val_eqb u v && go x' y'
         | _, _ => false
         end) x y
  | VErr, VErr => true
  | VPanic, VPanic => true
  | _, _ => false
  end.

Definition vbool (b : bool) : val := VN (if b then 1%Z else 0%Z).
Definition vnat (n : nat) : val := VN (Z.of_nat n).
Definition vN (n : N) : val := VN (Z.of_N n).
Definition vstr (s : list N) : val := VB s.

(* A test case: entry-point name, arguments, and the output the implementation produced. *)
Definition case := (string * list val * val)%type.

Definition mismatches (dispatch : string -> list val -> val) (cs : list case) : list case :=
  filter (fun c => match c with (f, args, out) => negb (val_eqb (dispatch f args) out) end) cs.
