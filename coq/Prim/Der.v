(* X.690 definite-length octets (8.1.3) and the Go code that produces / consumes them.
   Definitions only; the proofs are in Proofs/C08Der.v. *)
From Coq Require Import List NArith Bool.
From Mant Require Import Prim.R Prim.Bytes.
Import ListNotations.
Open Scope N_scope.

(* Minimal big-endian base-256 digits of n ([] for 0). *)
Fixpoint be_digits_fuel (fuel : nat) (n : N) : list N :=
  match fuel with
  | O => []
  | S f => if n =? 0 then [] else be_digits_fuel f (n / 256) ++ [n mod 256]
  end.
Definition be_digits (n : N) : list N := be_digits_fuel (N.to_nat (N.size n)) n.

(* X.690 8.1.3.4 / 8.1.3.5 with the DER restriction 10.1 (minimal number of octets). *)
Definition der_len (n : N) : list N :=
  if n <? 128 then [n] else (128 + lenN (be_digits n)) :: be_digits n.

(* Reference decoder of a definite length (any BER definite form): (length, remaining octets). *)
Definition decode_len (s : list N) : option (N * list N) :=
  match s with
  | [] => None
  | b :: rest =>
      if b <? 128 then Some (b, rest)
      else if (b =? 128) || (b =? 255) then None       (* indefinite form / reserved *)
      else
        let k := N.to_nat (b - 128) in
        if Nat.ltb (length rest) k then None
        else Some (be_val (firstn k rest), skipn k rest)
  end.

(* spnego.encodeLength (Go): the digits only; the caller adds the 0x80|count octet. *)
Definition encode_length (n : N) : list N :=
  if n <? 128 then [n] else be_digits n.

(* The length part of the GSS-API header as CreateNegTokenInit / CreateNegTokenResp write it:
   byte(totalLen) when < 128, else byte(0x80 | len(lenBytes)) followed by lenBytes. *)
Definition gss_header_len (n : N) : list N :=
  if n <? 128 then [n mod 256]
  else let lb := encode_length n in (N.lor 128 (lenN lb)) mod 256 :: lb.

(* A DER TLV with a single-octet identifier. *)
Definition tlv (tag : N) (content : list N) : list N := tag :: der_len (lenN content) ++ content.
