(* Decimal and hexadecimal text, as fmt's %d / %x / hex.EncodeToString produce it, with the
   parse-after-print inverse proved for all N. Characters are ASCII codes in N. *)
From Coq Require Import List NArith ZArith Lia Bool.
From Coq Require Import ZifyN ZifyNat ZifyBool.
From Mant Require Import Prim.Bytes.
Import ListNotations.
Open Scope N_scope.

Fixpoint dec_fuel (fuel : nat) (n : N) (acc : list N) : list N :=
  match fuel with
  | O => acc
  | S f =>
      let acc' := (48 + n mod 10) :: acc in
      if n / 10 =? 0 then acc' else dec_fuel f (n / 10) acc'
  end.

Definition print_dec (n : N) : list N := dec_fuel (S (N.to_nat (N.size n))) n [].

Definition print_decZ (z : Z) : list N :=
  match z with
  | Z0 => [48]
  | Zpos p => print_dec (Npos p)
  | Zneg p => 45 :: print_dec (Npos p)
  end.

Definition is_digit (c : N) : bool := (48 <=? c) && (c <=? 57).

Definition dec_val (l : list N) : N := fold_left (fun a d => 10 * a + (d - 48)) l 0.

(* strconv-like: non-empty, all digits *)
Definition parse_dec (l : list N) : option N :=
  match l with
  | [] => None
  | _ => if forallb is_digit l then Some (dec_val l) else None
  end.

Lemma dec_val_app a b :
  fold_left (fun a d => 10 * a + (d - 48)) b a =
  a * 10 ^ N.of_nat (length b) + dec_val b.
Proof.
  unfold dec_val. revert a. induction b as [|d b IH]; intros a.
  - simpl. lia.
  - cbn [fold_left length]. rewrite IH. rewrite (IH (10 * 0 + (d - 48))).
    replace (N.of_nat (S (length b))) with (1 + N.of_nat (length b)) by lia.
    rewrite N.pow_add_r. lia.
Qed.

Lemma dec_fuel_S f n acc :
  dec_fuel (S f) n acc =
  if n / 10 =? 0 then (48 + n mod 10) :: acc else dec_fuel f (n / 10) ((48 + n mod 10) :: acc).
Proof. reflexivity. Qed.

Lemma dec_fuel_val fuel n acc :
  n < 2 ^ N.of_nat fuel ->
  dec_val (dec_fuel (S fuel) n acc) = n * 10 ^ N.of_nat (length acc) + dec_val acc.
Proof.
  revert n acc. induction fuel as [|f IH]; intros n acc Hn.
  - simpl in Hn. assert (n = 0) by lia. subst. reflexivity.
  - rewrite dec_fuel_S. destruct (N.eqb_spec (n / 10) 0) as [Hz|Hnz].
    + unfold dec_val at 1. cbn [fold_left]. rewrite dec_val_app.
      assert (n mod 10 = n). { pose proof (N.div_mod n 10). lia. }
      rewrite H. unfold dec_val. lia.
    + rewrite IH.
      * cbn [length]. replace (N.of_nat (S (length acc))) with (1 + N.of_nat (length acc)) by lia.
        rewrite N.pow_add_r. unfold dec_val at 1. cbn [fold_left]. rewrite dec_val_app.
        pose proof (N.div_mod n 10). unfold dec_val. lia.
      * replace (N.of_nat (S f)) with (1 + N.of_nat f) in Hn by lia.
        rewrite N.pow_add_r in Hn. change (2 ^ 1) with 2 in Hn.
        pose proof (N.div_mod n 10). lia.
Qed.

Lemma size_bound n : n < 2 ^ N.of_nat (N.to_nat (N.size n)).
Proof.
  rewrite N2Nat.id. destruct n as [|p]; [simpl; lia|].
  apply N.size_gt.
Qed.

Theorem dec_val_print_dec n : dec_val (print_dec n) = n.
Proof.
  unfold print_dec. rewrite dec_fuel_val by apply size_bound.
  unfold dec_val. cbn [length fold_left]. change (N.of_nat 0) with 0. rewrite N.pow_0_r. lia.
Qed.

Lemma dec_fuel_digits fuel n acc :
  forallb is_digit acc = true -> forallb is_digit (dec_fuel fuel n acc) = true.
Proof.
  revert n acc. induction fuel as [|f IH]; intros n acc Ha; [exact Ha|].
  rewrite dec_fuel_S.
  assert (Hd : forallb is_digit ((48 + n mod 10) :: acc) = true).
  { cbn [forallb]. rewrite Ha. unfold is_digit.
    pose proof (N.mod_lt n 10). lia. }
  destruct (n / 10 =? 0); [exact Hd | now apply IH].
Qed.

Lemma dec_fuel_nonempty fuel n acc : dec_fuel (S fuel) n acc <> [].
Proof.
  revert n acc. induction fuel as [|f IH]; intros n acc.
  - rewrite dec_fuel_S. destruct (n / 10 =? 0); discriminate.
  - rewrite dec_fuel_S. destruct (n / 10 =? 0); [discriminate|]. apply (IH (n / 10)).
Qed.

Theorem parse_print_dec n : parse_dec (print_dec n) = Some n.
Proof.
  unfold parse_dec. pose proof (dec_fuel_nonempty (N.to_nat (N.size n)) n []) as Hne.
  fold (print_dec n) in Hne. destruct (print_dec n) as [|c l] eqn:E; [congruence|].
  rewrite <- E. unfold print_dec. rewrite dec_fuel_digits by reflexivity.
  f_equal. apply dec_val_print_dec.
Qed.

(* ------------------------------------------------------------------ *)
(* Hex *)

Definition hex_digit (upper : bool) (d : N) : N :=
  if d <? 10 then 48 + d else (if upper then 55 else 87) + d.

Definition hex_of_byte (upper : bool) (b : N) : list N :=
  [hex_digit upper (b / 16); hex_digit upper (b mod 16)].

Definition hex_of_bytes (upper : bool) (l : list N) : list N := flat_map (hex_of_byte upper) l.

Definition unhex_digit (c : N) : option N :=
  if (48 <=? c) && (c <=? 57) then Some (c - 48)
  else if (97 <=? c) && (c <=? 102) then Some (c - 87)
  else if (65 <=? c) && (c <=? 70) then Some (c - 55)
  else None.

Fixpoint unhex (l : list N) : option (list N) :=
  match l with
  | [] => Some []
  | [_] => None
  | a :: b :: rest =>
      match unhex_digit a, unhex_digit b, unhex rest with
      | Some x, Some y, Some r => Some (16 * x + y :: r)
      | _, _, _ => None
      end
  end.

Lemma unhex_hex_digit u d : d < 16 -> unhex_digit (hex_digit u d) = Some d.
Proof.
  intros H. destruct d as [|p]; [destruct u; reflexivity|].
  destruct p as [p|p|]; [| |destruct u; reflexivity];
  (destruct p as [p|p|]; [| |destruct u; reflexivity];
   (destruct p as [p|p|]; [| |destruct u; reflexivity];
    (destruct p as [p|p|]; [| |destruct u; reflexivity]; exfalso; lia))).
Qed.

Theorem unhex_hex u l : wf_bytes l -> unhex (hex_of_bytes u l) = Some l.
Proof.
  induction 1 as [|b l Hb Hl IH]; [reflexivity|].
  cbn [hex_of_bytes flat_map hex_of_byte app]. fold (hex_of_bytes u l).
  cbn [unhex]. rewrite !unhex_hex_digit.
  - rewrite IH. f_equal. f_equal. pose proof (N.div_mod b 16). lia.
  - apply N.mod_lt. lia.
  - apply N.div_lt_upper_bound; lia.
Qed.

Lemma length_hex_of_bytes u l : length (hex_of_bytes u l) = (2 * length l)%nat.
Proof. induction l as [|b l IH]; simpl; [reflexivity | rewrite IH; lia]. Qed.

(* ASCII helpers *)
Definition to_lower (c : N) : N := if (65 <=? c) && (c <=? 90) then c + 32 else c.
Definition to_upper (c : N) : N := if (97 <=? c) && (c <=? 122) then c - 32 else c.

(* Signed decimal parsing for the driver glue (input is trusted there). *)
Definition parse_decZ (l : list N) : Z :=
  match l with
  | 45 :: r => Z.opp (Z.of_N (dec_val r))
  | _ => Z.of_N (dec_val l)
  end.
