(* Text primitives of the NTLM models (owner: C02).

   go_runes     Go's []rune(s) / range s on a string: UTF-8 decoding in which every byte that does not
                start a valid encoding (RFC 3629 section 4: no overlong form, no surrogate, nothing above
                10FFFF, no truncated sequence) yields U+FFFD and is skipped alone.  On valid UTF-8 it is
                the RFC 3629 decoder (Proofs/C02Text.go_runes_utf8_decode).
   go_utf16le   Manticore's utils/encoding/utf16.EncodeUTF16LE: unicode/utf16.Encode of the runes, each
                unit low byte first (Algo.Utf16, RFC 2781; Go's totalisation).
   ascii_upper  strings.ToUpper restricted to the strings on which it changes ASCII letters only
                (every ASCII string; valid UTF-8 whose non-ASCII runes have no upper-case mapping).
                The theorems of C02 are parametric in the upper-casing function; this one instantiates the
                executable model, and the harness records correspondence cases only for strings on which
                strings.ToUpper agrees with it.
   Modelled, not verified: the Go standard library (unicode/utf8, unicode/utf16, strings). *)
From Coq Require Import List NArith Bool.
From Mant Require Import Prim.Bytes Prim.Dec Algo.Utf16 Algo.Utf8.
Import ListNotations.
Open Scope N_scope.

Definition rune_error : N := 0xFFFD.

Fixpoint go_runes (s : list N) {struct s} : list N :=
  match s with
  | [] => []
  | b0 :: t =>
      if b0 <? 0x80 then b0 :: go_runes t
      else if in_range 0xC2 0xDF b0 then
        match t with
        | b1 :: t1 =>
            if utf8_tail b1 then ((b0 - 0xC0) * 64 + (b1 - 0x80)) :: go_runes t1
            else rune_error :: go_runes t
        | [] => [rune_error]
        end
      else if in_range 0xE0 0xEF b0 then
        let lo := if b0 =? 0xE0 then 0xA0 else 0x80 in
        let hi := if b0 =? 0xED then 0x9F else 0xBF in
        match t with
        | b1 :: b2 :: t2 =>
            if in_range lo hi b1 && utf8_tail b2
            then ((b0 - 0xE0) * 4096 + (b1 - 0x80) * 64 + (b2 - 0x80)) :: go_runes t2
            else rune_error :: go_runes t
        | _ => rune_error :: go_runes t
        end
      else if in_range 0xF0 0xF4 b0 then
        let lo := if b0 =? 0xF0 then 0x90 else 0x80 in
        let hi := if b0 =? 0xF4 then 0x8F else 0xBF in
        match t with
        | b1 :: b2 :: b3 :: t3 =>
            if in_range lo hi b1 && utf8_tail b2 && utf8_tail b3
            then ((b0 - 0xF0) * 262144 + (b1 - 0x80) * 4096 + (b2 - 0x80) * 64 + (b3 - 0x80)) :: go_runes t3
            else rune_error :: go_runes t
        | _ => rune_error :: go_runes t
        end
      else rune_error :: go_runes t
  end.

Definition go_utf16le (s : list N) : list N := utf16le_encode (go_runes s).

Definition ascii_upper (s : list N) : list N := map to_upper s.
