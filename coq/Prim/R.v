(* Three-outcome result: the Go function returned a value, returned an error, or panicked. *)
From Coq Require Import List NArith.
Import ListNotations.

Inductive R (A : Type) : Type :=
| Ok (a : A)
| Err
| Panic.
Arguments Ok {A} a.
Arguments Err {A}.
Arguments Panic {A}.

Definition bind {A B} (r : R A) (f : A -> R B) : R B :=
  match r with
  | Ok a => f a
  | Err => Err
  | Panic => Panic
  end.

Definition rmap {A B} (f : A -> B) (r : R A) : R B :=
  match r with Ok a => Ok (f a) | Err => Err | Panic => Panic end.

Declare Scope r_scope.
Notation "'let*' x ':=' r 'in' k" := (bind r (fun x => k))
  (at level 200, x pattern, r at level 100, k at level 200) : r_scope.
Open Scope r_scope.

Definition is_panic {A} (r : R A) : bool := match r with Panic => true | _ => false end.
Definition is_ok {A} (r : R A) : bool := match r with Ok _ => true | _ => false end.

Lemma bind_ok {A B} (r : R A) (f : A -> R B) b :
  bind r f = Ok b -> exists a, r = Ok a /\ f a = Ok b.
Proof. destruct r; simpl; intros H; try discriminate. eauto. Qed.

Lemma bind_not_panic {A B} (r : R A) (f : A -> R B) :
  r <> Panic -> (forall a, r = Ok a -> f a <> Panic) -> bind r f <> Panic.
Proof. destruct r; simpl; intros H1 H2; auto. discriminate. Qed.
