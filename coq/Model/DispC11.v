From Coq Require Import List NArith ZArith String.
From Mant Require Import Prim.R Prim.Bytes Prim.Val Model.DispUtil Model.NbtFrame Gen.ConstsC11.
Import ListNotations.
Open Scope string_scope.

Definition v_send (r : R (list N * N)) : val :=
  r_val (fun '(pkt, n) => VL [VB pkt; vN n]) r.

Definition v_send_fill (payload : list N) (r : R (list N * N)) : val :=
  r_val (fun '(pkt, n) =>
           VL [VB (firstn 4 pkt); vN n; vbool (bytes_eqb (skipn 4 pkt) payload)]) r.

Definition v_recv (x : list (R (list N)) * stream) : val :=
  VL [VL (map (r_val VB) (fst x)); VB (List.concat (snd x))].

Definition dispatch_C11 (f : string) (args : list val) : val :=
  match args with
  | [] =>
      if f =? "netbios.session_message" then vN c_nbt_session_message else vunknown
  | [VN c] =>
      if f =? "nbt.is_connected" then vbool (nbt_is_connected (bool_of_val (VN c))) else vunknown
  | [VB name] =>
      if f =? "transport.new" then vbool (transport_new name) else vunknown
  | [VN c; VB p] =>
      if f =? "nbt.send" then v_send (nbt_send (bool_of_val (VN c)) p) else vunknown
  | [VN c; VN len; VN fill] =>
      if f =? "nbt.send_fill" then
        let p := repeat (Z.to_N fill) (Z.to_nat len) in
        v_send_fill p (nbt_send (bool_of_val (VN c)) p)
      else vunknown
  | [VN c; VL segs; VN n] =>
      if f =? "nbt.recv" then
        v_recv (recv_n (bool_of_val (VN c)) (Z.to_nat n) (map b_of_val segs))
      else vunknown
  | _ => vunknown
  end.
