From Coq Require Import List NArith ZArith String.
From Mant Require Import Prim.R Prim.Val Prim.Bytes Model.DispUtil Model.Uuid Model.Guid.
Import ListNotations.
Open Scope string_scope.

Definition v_uuid (u : N * N * list N) : val := let '(ver, var, d) := u in VL [vN ver; vN var; VB d].
Definition v_uuid_n (u : N * N * list N) : val := let '(ver, var, d) := u in VL [vN ver; vN var; VB d; VN 16].
Definition v_v1 (n : list val) (u : N * N * N * list N) : val :=
  let '(var, time, cs, node) := u in VL ([vN var; vN time; vN cs; VB node] ++ n).
Definition v_v2 (n : list val) (u : N * N * N * N * N * list N) : val :=
  let '(var, ldn, time, clock, ld, node) := u in VL ([vN var; vN ldn; vN time; vN clock; vN ld; VB node] ++ n).
Definition v_v8 (n : list val) (u : N * list N) : val := let '(var, d) := u in VL ([vN var; VB d] ++ n).
Definition v_guid (g : guid) : val := VL [vN (gA g); vN (gB g); vN (gC g); vN (gD g); vN (gE g)].

Definition n16 : list val := [VN 16%Z].
Definition zN (z : Z) : N := Z.to_N z.

(* a history of operations on ONE UUIDv1 value: the state is (variant, time, clock sequence, node) - the struct
   has no other state the operations may consult.  ops: [0; bytes] Unmarshal (valid inputs only), [1; t] Time = t,
   [2; cs] SetClockSequence, [3; node] SetNodeID, [4] Marshal.  Outputs: one value per Unmarshal and per Marshal. *)
Fixpoint v1_run (st : N * N * N * list N) (ops : list val) : list val :=
  match ops with
  | [] => []
  | VL [VN 0%Z; VB b] :: r =>
      match v1_unmarshal b with
      | Ok st' => v_v1 [] st' :: v1_run st' r
      | Err => VErr :: v1_run st r
      | Panic => [VPanic]
      end
  | VL [VN 1%Z; VN t] :: r => let '(var, _, cs, node) := st in v1_run (var, Z.to_N t, cs, node) r
  | VL [VN 2%Z; VN c] :: r => let '(var, time, _, node) := st in v1_run (var, time, Z.to_N c, node) r
  | VL [VN 3%Z; VB n] :: r =>
      let '(var, time, cs, node) := st in
      v1_run (var, time, cs, match set_node n with Ok n' => n' | _ => node end) r
  | VL [VN 4%Z] :: r => let '(var, time, cs, node) := st in VB (v1_marshal var time cs node) :: v1_run st r
  | _ :: r => v1_run st r
  end.

Definition dispatch_C13 (f : string) (args : list val) : val :=
  match args with
  | [VL ops] =>
      if f =? "v1.ops" then VL (v1_run (0, 0, 0, [0; 0; 0; 0; 0; 0]%N) ops) else vunknown
  | [VB b] =>
      if f =? "uuid.unmarshal" then r_val v_uuid_n (uuid_unmarshal b)
      else if f =? "uuid.from_string" then r_val v_uuid (uuid_from_string b)
      else if f =? "v1.unmarshal" then r_val (v_v1 n16) (v1_unmarshal b)
      else if f =? "v1.from_bytes" then r_val (v_v1 []) (v1_from_bytes b)
      else if f =? "v1.from_string" then r_val (v_v1 []) (v1_from_string b)
      else if f =? "v1.set_node" then r_bytes (set_node b)
      else if f =? "v2.unmarshal" then r_val (v_v2 n16) (v2_unmarshal b)
      else if f =? "v2.from_bytes" then r_val (v_v2 []) (v2_from_bytes b)
      else if f =? "v2.from_string" then r_val (v_v2 []) (v2_from_string b)
      else if f =? "v2.set_node" then r_bytes (set_node b)
      else if f =? "v8.unmarshal" then r_val (v_v8 n16) (v8_unmarshal b)
      else if f =? "v8.from_bytes" then r_val (v_v8 []) (v8_from_bytes b)
      else if f =? "v8.from_string" then r_val (v_v8 []) (v8_from_string b)
      else if f =? "v8.set_data" then VB (v8_set_data b)
      else if f =? "guid.from_raw" then r_val v_guid (guid_from_raw b)
      else if f =? "guid.from_string" then r_val v_guid (guid_from_string b)
      else if f =? "guid.from_n" then r_val v_guid (guid_from_n b)
      else if f =? "guid.from_d" then r_val v_guid (guid_from_d b)
      else if f =? "guid.from_b" then r_val v_guid (guid_from_b b)
      else if f =? "guid.from_p" then r_val v_guid (guid_from_p b)
      else if f =? "guid.from_x" then r_val v_guid (guid_from_x b)
      else vunknown
  | [VN a; VB d] =>
      if f =? "v8.marshal" then VB (v8_marshal (zN a) d)
      else if f =? "v8.string" then VB (v8_string (zN a) d)
      else vunknown
  | [VN ver; VN var; VB d] =>
      if f =? "uuid.marshal" then VB (uuid_marshal (zN ver) (zN var) d)
      else if f =? "uuid.string" then VB (uuid_string (zN ver) (zN var) d)
      else vunknown
  | [VN var; VN time; VN cs; VB node] =>
      if f =? "v1.marshal" then VB (v1_marshal (zN var) (zN time) (zN cs) node)
      else if f =? "v1.string" then VB (v1_string (zN var) (zN time) (zN cs) node)
      else vunknown
  | [VN var; VN ldn; VN time; VN clock; VN ld; VB node] =>
      if f =? "v2.marshal" then VB (v2_marshal (zN var) (zN ldn) (zN time) (zN clock) (zN ld) node)
      else if f =? "v2.string" then VB (v2_string (zN var) (zN ldn) (zN time) (zN clock) (zN ld) node)
      else vunknown
  | [VN a; VN b; VN c; VN d; VN e] =>
      let g := mkGuid (zN a) (zN b) (zN c) (zN d) (zN e) in
      if f =? "guid.to_bytes" then VB (guid_to_bytes g)
      else if f =? "guid.to_n" then VB (guid_to_n g)
      else if f =? "guid.to_d" then VB (guid_to_d g)
      else if f =? "guid.to_b" then VB (guid_to_b g)
      else if f =? "guid.to_p" then VB (guid_to_p g)
      else if f =? "guid.to_x" then VB (guid_to_x g)
      else vunknown
  | _ => vunknown
  end.
