(* Model of the NetBIOS name-service servers of network/netbios/nbtns:
     server.go udp_server.go tcp_server.go   handlePacket / handleMessage (dispatch + response)
     handlers.go (and the copies in server.go) handleNameQuery / handleRegistration / handleRelease / handleRefresh
     challenge.go DefendName, redirect.go HandleRedirect
   and of the part of nbtns.go (the name table) those handlers call.
   The model works on DECODED packets: the wire codec (packet.go, name.go) belongs to C10 and is
   reached through the exported Marshal/Unmarshal only; the byte-level entry points are
   therefore parameterised by an abstract codec (Section Codec).
   Definitions only; proofs are in Proofs/C18Proofs.v.  Every dispatch constant comes from
   Gen/ConstsC18.v, regenerated from the source on every run. *)
From Coq Require Import List NArith Bool.
From Mant Require Import Prim.R Prim.Val Prim.Bytes Gen.ConstsC18.
Import ListNotations.
Open Scope N_scope.

Definition bytes := list N.
Definition beq (a b : bytes) : bool := list_eqb N.eqb a b.

(* ------------------------------------------------------------------ packets (decoded) *)

Record nbname := { nb_name : bytes; nb_scope : bytes }.
Record question := { q_name : nbname; q_type : N; q_class : N }.
Record rr := { rr_name : nbname; rr_type : N; rr_class : N; rr_ttl : N; rr_rdlength : N; rr_rdata : bytes }.
Record header := { h_id : N; h_flags : N; h_qd : N; h_an : N; h_ns : N; h_ar : N }.
Record packet := { p_hdr : header; p_questions : list question; p_answers : list rr;
                   p_authority : list rr; p_additional : list rr }.

Definition u16 (n : N) : N := n mod 65536.

(* ------------------------------------------------------------------ the name table (nbtns.go) *)

Record nrec := { nr_type : N      (* 0 Unique, 1 Group *);
                 nr_status : N    (* 0 Active, 1 Conflict *);
                 nr_owners : list bytes }.
Definition table := list (bytes * nrec).

Fixpoint tbl_get (t : table) (k : bytes) : option nrec :=
  match t with
  | [] => None
  | (k', v) :: t' => if beq k' k then Some v else tbl_get t' k
  end.
Definition tbl_del (t : table) (k : bytes) : table := filter (fun kv => negb (beq (fst kv) k)) t.
Definition tbl_set (t : table) (k : bytes) (v : nrec) : table := (k, v) :: tbl_del t k.

(* net.IP.Equal: same bytes, or a 4-byte address against its ::ffff:a.b.c.d form *)
Definition v4in6 : bytes := [0; 0; 0; 0; 0; 0; 0; 0; 0; 0; 255; 255].
Definition ip_equal (a b : bytes) : bool :=
  if Nat.eqb (length a) (length b) then beq a b
  else if Nat.eqb (length a) 4 && Nat.eqb (length b) 16 then beq (firstn 12 b) v4in6 && beq a (skipn 12 b)
  else if Nat.eqb (length a) 16 && Nat.eqb (length b) 4 then beq (firstn 12 a) v4in6 && beq (skipn 12 a) b
  else false.

Definition new_rec (ntype : N) (owner : bytes) : nrec :=
  {| nr_type := ntype; nr_status := 0; nr_owners := [owner] |}.
Definition with_owners (r : nrec) (os : list bytes) : nrec :=
  {| nr_type := nr_type r; nr_status := nr_status r; nr_owners := os |}.

(* RegisterName; Err = the Go method returned an error (table unchanged) *)
Definition register (t : table) (name : bytes) (ntype : N) (owner : bytes) : R table :=
  match tbl_get t name with
  | Some r =>
      if (nr_type r =? 1) && (ntype =? 1) then
        if existsb (fun ip => ip_equal ip owner) (nr_owners r) then Ok t
        else Ok (tbl_set t name (with_owners r (nr_owners r ++ [owner])))
      else if (nr_type r =? 0) || (ntype =? 0) then Err
      else Ok (tbl_set t name (new_rec ntype owner))
  | None => Ok (tbl_set t name (new_rec ntype owner))
  end.

(* QueryName *)
Definition query (t : table) (name : bytes) : R (list bytes * N) :=
  match tbl_get t name with
  | Some r => if nr_status r =? 0 then Ok (nr_owners r, nr_type r) else Err
  | None => Err
  end.

Fixpoint remove_first (p : bytes -> bool) (l : list bytes) : option (list bytes) :=
  match l with
  | [] => None
  | x :: l' => if p x then Some l' else option_map (cons x) (remove_first p l')
  end.

(* ReleaseName; record.Owners[0] panics on a record without owners *)
Definition release (t : table) (name : bytes) (owner : bytes) : R table :=
  match tbl_get t name with
  | None => Err
  | Some r =>
      if nr_type r =? 1 then
        match remove_first (fun ip => ip_equal ip owner) (nr_owners r) with
        | Some [] => Ok (tbl_del t name)
        | Some os => Ok (tbl_set t name (with_owners r os))
        | None => Err
        end
      else
        match nr_owners r with
        | [] => Panic
        | o :: _ => if ip_equal o owner then Ok (tbl_del t name) else Err
        end
  end.

(* RefreshName (the TTL is not observable through the servers) *)
Definition refresh (t : table) (name : bytes) (owner : bytes) : R table :=
  match tbl_get t name with
  | None => Err
  | Some r => if existsb (fun ip => ip_equal ip owner) (nr_owners r) then Ok t else Err
  end.

(* MarkNameConflict *)
Definition mark_conflict (t : table) (name : bytes) : R table :=
  match tbl_get t name with
  | None => Err
  | Some r => Ok (tbl_set t name {| nr_type := nr_type r; nr_status := 1; nr_owners := nr_owners r |})
  end.

(* ------------------------------------------------------------------ dispatch *)

Inductive handler := HQuery | HRegistration | HRelease | HRefresh | HNone.

(* switch packet.Header.Flags & OpcodeMask { case OpNameQuery: .. case OpRegistration: ..
   case OpRelease: .. case OpRefresh, OpRefreshAlt: .. default: .. } *)
Definition route_with (mask flags : N) : handler :=
  let op := N.land flags mask in
  if op =? c18_OpNameQuery then HQuery
  else if op =? c18_OpRegistration then HRegistration
  else if op =? c18_OpRelease then HRelease
  else if (op =? c18_OpRefresh) || (op =? c18_OpRefreshAlt) then HRefresh
  else HNone.
Definition route (flags : N) : handler := route_with c18_OpcodeMask flags.

Definition handler_index (h : handler) : N :=
  match h with HQuery => 0 | HRegistration => 1 | HRelease => 2 | HRefresh => 3 | HNone => 4 end.

(* DefendName / HandleRedirect: if Flags & OpcodeMask != OpNameQuery { return } *)
Definition is_name_query (flags : N) : bool := N.land flags c18_OpcodeMask =? c18_OpNameQuery.

(* ------------------------------------------------------------------ handlers *)

Definition ttl_24h : N := 86400.          (* uint32(24 * time.Hour.Seconds()) *)
Definition group_bit : N := 128.          (* the literal 0x0080 the handlers use for "group name" *)

Definition answer_rr (q : question) (owner : bytes) : rr :=
  {| rr_name := q_name q; rr_type := q_type q; rr_class := q_class q; rr_ttl := ttl_24h;
     rr_rdlength := u16 (lenN owner); rr_rdata := owner |}.

(* handleNameQuery: state = (response flags, answers, Header.Answers) *)
Fixpoint handle_query (t : table) (qs : list question) (flags : N) (answers : list rr) (an : N)
  : N * list rr * N :=
  match qs with
  | [] => (flags, answers, an)
  | q :: qs' =>
      match query t (nb_name (q_name q)) with
      | Ok (owners, ntype) =>
          let answers' := answers ++ map (answer_rr q) owners in
          let flags' := if ntype =? 1 then N.lor flags group_bit else flags in
          handle_query t qs' flags' answers' (u16 (lenN answers'))
      | _ => (N.lor flags c18_RcodeNameError, answers, an)
      end
  end.

(* handleRegistration: records are taken from the request's answer section *)
Fixpoint handle_registration (t : table) (reqflags : N) (rrs : list rr) (flags : N) : table * N :=
  match rrs with
  | [] => (t, flags)
  | r :: rest =>
      let ntype := if N.land reqflags group_bit =? 0 then 0 else 1 in
      match register t (nb_name (rr_name r)) ntype (rr_rdata r) with
      | Ok t' => handle_registration t' reqflags rest flags
      | _ => (t, N.lor flags c18_RcodeConflict)
      end
  end.

Fixpoint handle_release (t : table) (rrs : list rr) (flags : N) : R (table * N) :=
  match rrs with
  | [] => Ok (t, flags)
  | r :: rest =>
      match release t (nb_name (rr_name r)) (rr_rdata r) with
      | Ok t' => handle_release t' rest flags
      | Err => Ok (t, N.lor flags c18_RcodeServerError)
      | Panic => Panic
      end
  end.

Fixpoint handle_refresh (t : table) (rrs : list rr) (flags : N) : table * N :=
  match rrs with
  | [] => (t, flags)
  | r :: rest =>
      match refresh t (nb_name (rr_name r)) (rr_rdata r) with
      | Ok t' => handle_refresh t' rest flags
      | _ => (t, N.lor flags c18_RcodeServerError)
      end
  end.

(* ------------------------------------------------------------------ handlePacket / handleMessage on a decoded request *)

Definition resp_flags0 : N := N.lor c18_FlagResponse c18_FlagAuthoritative.

(* response := &NBTNSPacket{Header: NBTNSHeader{TransactionID: packet.Header.TransactionID,
                                               Flags: FlagResponse | FlagAuthoritative}} *)
Definition mk_response (id flags an : N) (answers : list rr) : packet :=
  {| p_hdr := {| h_id := id; h_flags := flags; h_qd := 0; h_an := an; h_ns := 0; h_ar := 0 |};
     p_questions := []; p_answers := answers; p_authority := []; p_additional := [] |}.

Definition respond (t : table) (req : packet) : R (packet * table) :=
  let h := p_hdr req in
  match route (h_flags h) with
  | HQuery =>
      match handle_query t (p_questions req) resp_flags0 [] 0 with
      | (fl, ans, an) => Ok (mk_response (h_id h) fl an ans, t)
      end
  | HRegistration =>
      match handle_registration t (h_flags h) (p_answers req) resp_flags0 with
      | (t', fl) => Ok (mk_response (h_id h) fl 0 [], t')
      end
  | HRelease =>
      match handle_release t (p_answers req) resp_flags0 with
      | Ok (t', fl) => Ok (mk_response (h_id h) fl 0 [], t')
      | Err => Err
      | Panic => Panic
      end
  | HRefresh =>
      match handle_refresh t (p_answers req) resp_flags0 with
      | (t', fl) => Ok (mk_response (h_id h) fl 0 [], t')
      end
  | HNone => Ok (mk_response (h_id h) (N.lor resp_flags0 c18_RcodeNotImpl) 0 [], t)
  end.

(* ------------------------------------------------------------------ DefendName, HandleRedirect *)

Definition set_flags_answers (p : packet) (flags : N) (answers : list rr) : packet :=
  {| p_hdr := {| h_id := h_id (p_hdr p); h_flags := flags; h_qd := h_qd (p_hdr p);
                 h_an := u16 (lenN answers); h_ns := h_ns (p_hdr p); h_ar := h_ar (p_hdr p) |};
     p_questions := p_questions p; p_answers := answers; p_authority := p_authority p;
     p_additional := p_additional p |}.

Fixpoint defend_loop (t : table) (qs : list question) (resp : packet) : packet :=
  match qs with
  | [] => resp
  | q :: qs' =>
      match query t (nb_name (q_name q)) with
      | Ok (owners, ntype) =>
          let fl := if ntype =? 1 then N.lor resp_flags0 group_bit else resp_flags0 in
          defend_loop t qs' (set_flags_answers resp fl (p_answers resp ++ map (answer_rr q) owners))
      | _ => defend_loop t qs' resp
      end
  end.

Definition defend (t : table) (req resp : packet) : packet :=
  if is_name_query (h_flags (p_hdr req)) then defend_loop t (p_questions req) resp else resp.

Definition redirect_map := list (bytes * (bytes * N)).   (* scope -> (server ip, port); last AddRedirect wins *)
Fixpoint rd_get (m : redirect_map) (k : bytes) : option (bytes * N) :=
  match m with
  | [] => None
  | (k', v) :: m' => if beq k' k then Some v else rd_get m' k
  end.
Definition rd_del (m : redirect_map) (k : bytes) : redirect_map := filter (fun kv => negb (beq (fst kv) k)) m.
Definition rd_add (m : redirect_map) (k : bytes) (ip : bytes) (port : N) : redirect_map := (k, (ip, port)) :: rd_del m k.

Definition handle_redirect (m : redirect_map) (req resp : packet) : bool * packet :=
  if is_name_query (h_flags (p_hdr req)) then
    match p_questions req with
    | [] => (false, resp)
    | q :: _ =>
        match rd_get m (nb_scope (q_name q)) with
        | None => (false, resp)
        | Some (ip, port) =>
            let record := {| rr_name := q_name q; rr_type := 32; rr_class := 1; rr_ttl := 600;
                             rr_rdlength := u16 (lenN ip + 2);
                             rr_rdata := ip ++ [(port / 256) mod 256; port mod 256] |} in
            (true,
             {| p_hdr := {| h_id := h_id (p_hdr resp); h_flags := N.lor c18_FlagResponse c18_OpRedirect;
                            h_qd := h_qd (p_hdr resp); h_an := h_an (p_hdr resp); h_ns := h_ns (p_hdr resp); h_ar := 1 |};
                p_questions := p_questions resp; p_answers := p_answers resp; p_authority := p_authority resp;
                p_additional := [record] |})
        end
    end
  else (false, resp).

(* ------------------------------------------------------------------ bytes on the wire *)

(* UDPServer.handlePacket after Marshal: a response longer than MaxUDPSize gets the TC bit in its
   encoded header and is cut *)
Definition udp_finish (wire : bytes) : bytes :=
  if c18_MaxUDPSize <? lenN wire then
    let flags := be_val (firstn 2 (skipn 2 wire)) in
    firstn (N.to_nat c18_MaxUDPSize)
           (firstn 2 wire ++ be_bytes 2 (N.lor flags c18_FlagTruncated) ++ skipn 4 wire)
  else wire.

(* TCPServer.handleConnection: 2-byte big-endian length then the message; a response that does not
   fit the prefix closes the connection (None) *)
Definition tcp_frame (msg : bytes) : option bytes :=
  if c18_MaxTCPMessageSize <? lenN msg then None else Some (be_bytes 2 (lenN msg) ++ msg).

Section Codec.
  (* packet.Unmarshal / packet.Marshal (C10) *)
  Variable unmarshal : bytes -> R packet.
  Variable marshal : packet -> R bytes.

  (* TCPServer.handleMessage.  Ok (None, t'): an error was returned / nothing is sent. *)
  Definition handle_message (t : table) (data : bytes) : R (option bytes * table) :=
    match unmarshal data with
    | Panic => Panic
    | Err => Ok (None, t)
    | Ok req =>
        match respond t req with
        | Panic => Panic
        | Err => Ok (None, t)
        | Ok (resp, t') =>
            match marshal resp with
            | Panic => Panic
            | Err => Ok (None, t')
            | Ok b => Ok (Some b, t')
            end
        end
    end.

  (* Server.handlePacket (server.go): the marshalled response is the datagram *)
  Definition server_handle_packet := handle_message.

  (* UDPServer.handlePacket *)
  Definition udp_handle_packet (t : table) (data : bytes) : R (option bytes * table) :=
    match handle_message t data with
    | Ok (o, t') => Ok (option_map udp_finish o, t')
    | Err => Err
    | Panic => Panic
    end.

  (* TCPServer.handleConnection on the bytes a client sends before closing its side: the frames
     written back.  Reading stops at the first incomplete frame, handler error or unframeable response. *)
  Fixpoint tcp_conn (fuel : nat) (t : table) (stream : bytes) : R (list bytes * table) :=
    match fuel with
    | O => Ok ([], t)
    | S fuel' =>
        match stream with
        | hi :: lo :: rest =>
            let n := N.to_nat (hi * 256 + lo) in
            if Nat.ltb (length rest) n then Ok ([], t)
            else
              match handle_message t (firstn n rest) with
              | Panic => Panic
              | Err => Ok ([], t)
              | Ok (None, t') => Ok ([], t')
              | Ok (Some resp, t') =>
                  match tcp_frame resp with
                  | None => Ok ([], t')
                  | Some fr =>
                      match tcp_conn fuel' t' (skipn n rest) with
                      | Ok (out, t'') => Ok (fr :: out, t'')
                      | Err => Err
                      | Panic => Panic
                      end
                  end
              end
        | _ => Ok ([], t)
        end
    end.
End Codec.
