(* Go standard-library string helpers as network/ip and windows/credentials use them:
   strings.Split on a one-byte separator, strings.Contains of one byte, strconv.ParseUint with an
   explicit base (10 or 16), fmt's %x of an unsigned integer, strings.TrimSpace.
   Definitions only (lemmas: Proofs/C20Str.v).  These are MODELS of the library functions; they are
   tied to the real ones by the correspondence runs of harness/c20.go, not verified. *)
From Coq Require Import List NArith Bool.
From Mant Require Import Prim.Bytes Prim.Dec.
Import ListNotations.
Open Scope N_scope.

(* strings.Split(s, sep) for a one-byte sep: always at least one part; "" gives [""] *)
Fixpoint split_on (sep : N) (s : list N) : list (list N) :=
  match s with
  | [] => [[]]
  | c :: r =>
      if c =? sep then [] :: split_on sep r
      else match split_on sep r with
           | h :: t => (c :: h) :: t
           | [] => [[c]]
           end
  end.

Definition contains_byte (c : N) (s : list N) : bool := existsb (N.eqb c) s.

(* strconv.ParseUint(s, 10, bits): a non-empty string of ASCII digits whose value is below 2^bits.
   Any number of leading zeros is accepted; a sign, an underscore or a base prefix is a syntax
   error (they are only honoured for base 0); too large a value is a range error. *)
Definition parse_uint10 (bits : N) (s : list N) : option N :=
  match parse_dec s with
  | Some n => if n <? 2 ^ bits then Some n else None
  | None => None
  end.

(* base 16: digits 0-9 a-f A-F, no "0x" prefix *)
Definition is_hexc (c : N) : bool :=
  match unhex_digit c with Some _ => true | None => false end.

Definition hexc_val (c : N) : N := match unhex_digit c with Some d => d | None => 0 end.

Definition hex_val (l : list N) : N := fold_left (fun a c => 16 * a + hexc_val c) l 0.

Definition parse_hex (l : list N) : option N :=
  match l with
  | [] => None
  | _ => if forallb is_hexc l then Some (hex_val l) else None
  end.

Definition parse_uint16 (bits : N) (s : list N) : option N :=
  match parse_hex s with
  | Some n => if n <? 2 ^ bits then Some n else None
  | None => None
  end.

(* fmt %x of an unsigned integer: lower case, no leading zeros, "0" for zero *)
Fixpoint hex_fuel (fuel : nat) (n : N) (acc : list N) : list N :=
  match fuel with
  | O => acc
  | S f =>
      let acc' := hex_digit false (n mod 16) :: acc in
      if n / 16 =? 0 then acc' else hex_fuel f (n / 16) acc'
  end.

Definition print_hex (n : N) : list N := hex_fuel (S (N.to_nat (N.size n))) n [].

(* ------------------------------------------------------------------ *)
(* strings.TrimSpace: removes leading, then trailing, runes r with unicode.IsSpace(r).  The string is
   decoded as UTF-8 from the front (utf8.DecodeRuneInString) and from the back
   (utf8.DecodeLastRuneInString); a byte sequence decodes to a white-space rune exactly when it is
   that rune's (shortest-form) UTF-8 encoding, so trimming removes these byte tokens:
     U+0009..U+000D, U+0020, U+0085, U+00A0, U+1680, U+2000..U+200A, U+2028, U+2029, U+202F,
     U+205F, U+3000. *)
Definition space_tokens : list (list N) :=
  [ [9]; [10]; [11]; [12]; [13]; [32];
    [194; 133]; [194; 160];
    [225; 154; 128];
    [226; 128; 128]; [226; 128; 129]; [226; 128; 130]; [226; 128; 131]; [226; 128; 132]; [226; 128; 133];
    [226; 128; 134]; [226; 128; 135]; [226; 128; 136]; [226; 128; 137]; [226; 128; 138];
    [226; 128; 168]; [226; 128; 169]; [226; 128; 175];
    [226; 129; 159];
    [227; 128; 128] ].

Fixpoint strip_prefix (p s : list N) : option (list N) :=
  match p, s with
  | [], _ => Some s
  | a :: p', b :: s' => if a =? b then strip_prefix p' s' else None
  | _ :: _, [] => None
  end.

Fixpoint strip_any (toks : list (list N)) (s : list N) : option (list N) :=
  match toks with
  | [] => None
  | t :: ts =>
      match strip_prefix t s with
      | Some r => Some r
      | None => strip_any ts s
      end
  end.

(* the trimming loop; [length s] iterations always suffice (Proofs/C20Str.v trim_fuel_enough) *)
Fixpoint trim_fuel (toks : list (list N)) (fuel : nat) (s : list N) : list N :=
  match fuel with
  | O => s
  | S f =>
      match strip_any toks s with
      | Some r => trim_fuel toks f r
      | None => s
      end
  end.

Definition trim_left_toks (toks : list (list N)) (s : list N) : list N := trim_fuel toks (length s) s.

Definition rev_space_tokens : list (list N) := map (@rev N) space_tokens.

Definition trim_space (s : list N) : list N :=
  rev (trim_left_toks rev_space_tokens (rev (trim_left_toks space_tokens s))).
