(* Static comparison of what a structure's Marshal emits with what its Unmarshal reads, computed on
   the regenerated descriptions.  The result is a list of mismatch keys "<Structure>/<Field>/<kind>";
   the round-trip, encoding and totality theorems are stated for structures whose relevant list is
   empty (or, per DESIGN Appendix A, included in the committed exemptions).  Definitions only. *)
From Coq Require Import List NArith ZArith String Bool Ascii.
From Mant Require Import Prim.R Prim.Bytes Model.SmbTypes Model.SmbBlocks Model.SmbLayout.
Import ListNotations.
Open Scope string_scope.
Open Scope list_scope.

Inductive ikind :=
| KInt (w : nat) (e : endian)
| KBytes
| KNested (t : ctype)
| KIntArr (w : nat) (e : endian)
| KOther.

Record eitem := { ei_stream : stream; ei_field : string; ei_kind : ikind }.
Record ritem := { ri_stream : stream; ri_field : string; ri_kind : ikind;
                  ri_guard : option lenexp; ri_access : lenexp; ri_adv : option lenexp }.

Fixpoint emitted_of (m : mop) : list eitem :=
  match m with
  | MIf _ m' => emitted_of m'
  | MInt s f w e => [{| ei_stream := s; ei_field := f; ei_kind := KInt w e |}]
  | MBytes s f => [{| ei_stream := s; ei_field := f; ei_kind := KBytes |}]
  | MNested s f t _ => [{| ei_stream := s; ei_field := f; ei_kind := KNested t |}]
  | MLen s f w e => [{| ei_stream := s; ei_field := String.append "len(" (String.append f ")"); ei_kind := KInt w e |}]
  | MIntArray s f w e => [{| ei_stream := s; ei_field := f; ei_kind := KIntArr w e |}]
  | MConst s w e _ => [{| ei_stream := s; ei_field := "<const>"; ei_kind := KInt w e |}]
  | _ => []
  end.

Fixpoint read_of (u : uop) : option (stream * string * ikind * lenexp) :=
  match u with
  | UIf _ u' => read_of u'
  | UInt s f w e acc => Some (s, f, KInt w e, acc)
  | UBytes s f e => Some (s, f, KBytes, e)
  | UIntArr s f w en e => Some (s, f, KIntArr w en, e)
  | UNested s f t e => Some (s, f, KNested t, e)
  | UNested0 s f t => Some (s, f, KNested t, EVar "<whole stream>")
  | _ => None
  end.

(* reads with the guard that precedes them and the advance that follows them *)
Definition next_adv (r : list uop) : option lenexp :=
  match r with UAdv a :: _ => Some a | UIf _ (UAdv a) :: _ => Some a | _ => None end.

Fixpoint reads_of (us : list uop) (guard : option lenexp) {struct us} : list ritem :=
  match us with
  | [] => []
  | u :: r =>
      match u with
      | UGuard _ g => reads_of r (Some g)
      | UIf _ (UGuard _ g) => reads_of r (Some g)
      | _ =>
          match read_of u with
          | Some (s, f, k, acc) =>
              {| ri_stream := s; ri_field := f; ri_kind := k; ri_guard := guard; ri_access := acc;
                 ri_adv := next_adv r |} :: reads_of r None
          | None => reads_of r guard
          end
      end
  end.

Definition stream_eqb (a b : stream) : bool :=
  match a, b with SP, SP => true | SD, SD => true | SNone, SNone => true | _, _ => false end.

Definition endian_eqb (a b : endian) : bool :=
  match a, b with LE, LE => true | BE, BE => true | _, _ => false end.

Fixpoint ctype_eqb (a b : ctype) : bool :=
  match a, b with
  | TInt x, TInt y => Nat.eqb x y
  | TBytes, TBytes => true
  | TArray x, TArray y => ctype_eqb x y
  | TFixedArray n x, TFixedArray m y => Nat.eqb n m && ctype_eqb x y
  | TNamed x, TNamed y => String.eqb x y
  | _, _ => false
  end.

Fixpoint lx_eqb (a b : lenexp) : bool :=
  match a, b with
  | EConst x, EConst y => N.eqb x y
  | EField x, EField y => String.eqb x y
  | ELenOf x, ELenOf y => String.eqb x y
  | EVar x, EVar y => String.eqb x y
  | ERead, ERead => true
  | ERest, ERest => true
  | EAdd a1 a2, EAdd b1 b2 => lx_eqb a1 b1 && lx_eqb a2 b2
  | EMul a1 a2, EMul b1 b2 => lx_eqb a1 b1 && lx_eqb a2 b2
  | ESub a1 a2, ESub b1 b2 => lx_eqb a1 b1 && lx_eqb a2 b2
  | _, _ => false
  end.

Definition key (c f k : string) : string :=
  String.append c (String.append "/" (String.append f (String.append "/" k))).

(* the size, in bytes, a nested fixed type occupies (None: variable) *)
Definition nested_size (t : ctype) : option N :=
  match t with
  | TNamed n =>
      if String.eqb n "FILETIME" || String.eqb n "SMB_TIME" then Some 8%N
      else if String.eqb n "SMB_DATE" || String.eqb n "SMB_FILE_ATTRIBUTES" || String.eqb n "SMB_NMPIPE_STATUS" then Some 2%N
      else None
  | _ => None
  end.

Definition const_of (e : lenexp) : option N := match e with EConst n => Some n | _ => None end.

(* compare one emitted item with the read at the same position *)
Definition compare_item (c : string) (first : bool) (e : eitem) (r : ritem) : list string :=
  let f := ei_field e in
  (match ei_kind e, ri_kind r with
   | KInt w1 e1, KInt w2 e2 =>
       (if Nat.eqb w1 w2 then [] else [key c f "width-differs"]) ++
       (if endian_eqb e1 e2 then [] else [key c f "endian-differs"]) ++
       (match const_of (ri_access r) with
        | Some a => if N.eqb a (N.of_nat w2) then [] else [key c f "access-differs"]
        | None => [key c f "access-differs"]
        end) ++
       (match ri_guard r with
        | Some (EConst g) => if N.ltb g (N.of_nat w2) then [key c f "guard-too-weak"] else []
        | _ => [key c f "guard-too-weak"]
        end) ++
       (match ri_adv r with
        | Some (EConst a) => if N.eqb a (N.of_nat w1) then [] else [key c f "advance-differs"]
        | _ => [key c f "advance-differs"]
        end)
   | KBytes, KBytes =>
       (* the length must be a field (emitted earlier, checked by the caller) and the guard must cover it *)
       (match ri_access r with
        | EField _ | ELenOf _ => []
        | ERest => []
        | _ => [key c f "length-rule"]
        end) ++
       (match ri_access r, ri_guard r with
        | ERest, _ => []
        | EField l, Some (EField g) => if String.eqb l g then [] else [key c f "guard-too-weak"]
        | _, _ => [key c f "guard-too-weak"]
        end) ++
       (match ri_access r, ri_adv r with
        | ERest, _ => []
        | EField l, Some (EField a) => if String.eqb l a then [] else [key c f "advance-differs"]
        | ELenOf l, Some (ELenOf a) => if String.eqb l a then [] else [key c f "advance-differs"]
        | _, _ => [key c f "advance-differs"]
        end)
   | KNested t1, KNested t2 =>
       (if ctype_eqb t1 t2 then [] else [key c f "kind-differs"]) ++
       (match ri_access r with
        | ERest => []
        | EVar _ => if first then [] else [key c f "window-ignores-offset"]
        | EConst a => match nested_size t2 with
                      | Some n => if N.ltb a n then [key c f "window-too-small"] else []
                      | None => [key c f "window-fixed-for-variable-type"]
                      end
        | _ => [key c f "window-rule"]
        end) ++
       (match ri_access r, ri_guard r with
        | EConst a, Some (EConst g) => if N.ltb g a then [key c f "guard-too-weak"] else []
        | EConst _, _ => [key c f "guard-too-weak"]
        | _, _ => []
        end) ++
       (match ri_adv r with
        | Some ERead => []
        | Some (EConst a) => match nested_size t2 with
                             | Some n => if N.eqb a n then [] else [key c f "advance-differs"]
                             | None => [key c f "advance-differs"]
                             end
        | _ => [key c f "advance-differs"]
        end)
   | KIntArr w1 e1, KIntArr w2 e2 =>
       (* the elements of an array, emitted one after the other and read back as one window of whole slots: the
          guard and the advance must be the window (a conditional block carries its own guard and advance) *)
       (if Nat.eqb w1 w2 then [] else [key c f "width-differs"]) ++
       (if endian_eqb e1 e2 then [] else [key c f "endian-differs"]) ++
       (match ri_guard r with
        | Some g => if lx_eqb g (ri_access r) then [] else [key c f "guard-too-weak"]
        | None => [key c f "guard-too-weak"]
        end) ++
       (match ri_adv r with
        | Some a => if lx_eqb a (ri_access r) then [] else [key c f "advance-differs"]
        | None => [key c f "advance-differs"]
        end)
   | _, _ => [key c f "kind-differs"]
   end).

Fixpoint compare_seq (c : string) (first : bool) (es : list eitem) (rs : list ritem) {struct es} : list string :=
  match es with
  | [] => map (fun r => key c (ri_field r) "not-written") rs
  | e :: es' =>
      match rs with
      | [] => map (fun e => key c (ei_field e) "not-read") es
      | r :: rs' =>
          if String.eqb (ei_field e) (ri_field r)
          then compare_item c first e r ++ compare_seq c false es' rs'
          else [key c (ei_field e) "order-differs"]
      end
  end.

Definition on_stream {A} (sel : A -> stream) (s : stream) (l : list A) : list A :=
  filter (fun x => stream_eqb (sel x) s) l.

Fixpoint emitted_bytes_const (es : list eitem) : option N :=
  match es with
  | [] => Some 0%N
  | e :: r =>
      match ei_kind e, emitted_bytes_const r with
      | KInt w _, Some n => Some (N.of_nat w + n)%N
      | KNested t, Some n => match nested_size t with Some k => Some (k + n)%N | None => None end
      | KIntArr w _, Some n => if Nat.even w then Some n else None   (* whole words whatever the count: parity-neutral *)
      | _, _ => None
      end
  end.

Definition decl_width (c : cmd_desc) (f : string) : option nat :=
  match find (fun ft => String.eqb (fst ft) f) (cd_decl c) with
  | Some (_, TInt w) => Some w
  | _ => None
  end.

(* round-trip relevant mismatches (C04) *)
Definition rt_mismatches (c : cmd_desc) : list string :=
  let n := cd_name c in
  if negb (cd_translated c) then [key n "*" "untranslated"] else
  let es := flat_map emitted_of (cd_marshal c) in
  let rs := reads_of (cd_unmarshal c) None in
  (if cd_andx c then [key n "*" "andx-words-not-consumed"] else []) ++
  (if cd_params_first c then [] else [key n "*" "blocks-out-of-order"]) ++
  compare_seq n true (on_stream ei_stream SP es) (on_stream ri_stream SP rs) ++
  compare_seq n true (on_stream ei_stream SD es) (on_stream ri_stream SD rs) ++
  (match emitted_bytes_const (on_stream ei_stream SP es) with
   | Some k => if N.odd k then [key n "*" "odd-parameter-bytes"] else []
   | None => [key n "*" "variable-parameter-bytes"]
   end) ++
  (* every declared field is emitted *)
  flat_map (fun ft => if existsb (fun e => String.eqb (ei_field e) (fst ft)) es then []
                      else [key n (fst ft) "not-written"]) (cd_decl c).

(* encoding mismatches (C05): multi-byte integers little-endian, widths as declared *)
Definition enc_mismatches (c : cmd_desc) : list string :=
  let n := cd_name c in
  if negb (cd_translated c) then [key n "*" "untranslated"] else
  flat_map (fun m =>
    match m with
    | MInt _ f w e =>
        (match e with BE => if Nat.ltb 1 w then [key n f "big-endian"] else [] | LE => [] end) ++
        (match decl_width c f with
         | Some w' => if Nat.eqb w w' then [] else [key n f "declared-width-differs"]
         | None => []
         end)
    | MLen _ f w e => (match e with BE => if Nat.ltb 1 w then [key n (String.append "len(" (String.append f ")")) "big-endian"] else [] | LE => [] end)
    | MIntArray _ f w e => (match e with BE => if Nat.ltb 1 w then [key n f "big-endian"] else [] | LE => [] end)
    | _ => []
    end) (cd_marshal c) ++
  (if cd_andx c then [key n "AndX" "andx-offset-big-endian"] else []).

(* totality mismatches (C07): an access not covered by its guard *)
Definition guard_mismatches (c : cmd_desc) : list string :=
  let n := cd_name c in
  if negb (cd_translated c) then [key n "*" "untranslated"] else
  flat_map (fun r =>
    let f := ri_field r in
    match ri_kind r, ri_access r, ri_guard r with
    | _, ERest, _ => []
    | _, EConst a, Some (EConst g) => if N.ltb g a then [key n f "guard-too-weak"] else []
    | _, EField l, Some (EField g) => if String.eqb l g then [] else [key n f "guard-too-weak"]
    | KIntArr _ _, a, Some g => if lx_eqb g a then [] else [key n f "guard-too-weak"]
    | _, _, _ => [key n f "guard-too-weak"]
    end) (reads_of (cd_unmarshal c) None).

Definition string_mem (s : string) (l : list string) : bool := existsb (String.eqb s) l.
Definition incl_b (a b : list string) : bool := forallb (fun s => string_mem s b) a.
