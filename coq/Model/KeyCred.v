(* Model of windows/keycredential (hand-written, tied by correspondence; definitions only):
     KeyCredential.go           NewKeyCredential FromBytes ParseDNWithBinary CheckIntegrity ComputeKeyHash writeEntry ToBytes
     DNWithBinary.go            Parse ToString
     crypto/RSAKeyMaterial.go   FromBytes ToBytes                  (BCRYPT_RSAKEY_BLOB)
     key/CustomKeyInformation.go FromBytes ToBytes                 (size thresholds as written)
     key/KeyCredentialVersion.go FromBytes ToBytes
     utils/utils.go             ConvertToBinaryIdentifier ConvertFromBinaryIdentifier ComputeHash ComputeKeyIdentifier
   DateTime / ConvertFromBinaryTime come from Model/WinTime.v (C15), the device GUID from Model/Guid.v (C13).

   The model follows the repaired code (props/C14.fixed.txt): FromBytes / RSAKeyMaterial.FromBytes /
   KeyCredentialVersion.FromBytes return an error where they used to slice out of range, ComputeKeyHash stops at
   an entry that runs past the end, CustomKeyInformation.ToBytes uses the thresholds of FromBytes, writeEntry
   refuses more than 65535 bytes, DNWithBinary.Parse splits at the first three colons.

   Conventions: Go ints are 64 bit; a uint32 field is an N below 2^32 (writers reduce modulo 2^32 as the
   conversion does); the two signed fields (KeySource, CustomKeyInformation.Version: Go int) are observed
   through byte(x) only and are modelled by x mod 2^64.  RawBytes/RawBytesSize are modelled where a modelled
   function reads them (KeyCredential.RawBytes, CustomKeyInformation.RawBytesSize) and dropped elsewhere.
   Methods that mutate their receiver take the structure and return the new one. *)
From Coq Require Import List NArith ZArith Bool.
From Mant Require Import Prim.R Prim.Bytes Prim.Dec Algo.SHA256 Algo.Base64 Model.Guid Model.WinTime.
Import ListNotations.
Open Scope Z_scope.
Open Scope N_scope.

(* ------------------------------------------------------------------ key/KeyCredentialVersion.go *)

(* func (kcv *KeyCredentialVersion) FromBytes(value []byte) error *)
Definition ver_from_bytes (value : list N) : R N :=
  if lenN value <? 4 then Err else
  let* s := go_upto value 4 in
  go_le_uint 4 s.

(* func (kcv *KeyCredentialVersion) ToBytes() []byte *)
Definition ver_to_bytes (v : N) : list N := le32 v.

(* ------------------------------------------------------------------ crypto/RSAKeyMaterial.go *)

Record rsa : Type := mkRsa { rKeySize : N; rExponent : N; rModulus : list N; rPrime1 : list N; rPrime2 : list N }.
Definition zero_rsa : rsa := mkRsa 0 0 [] [] [].

Definition rsa_magic : list N := [82; 83; 65; 49].   (* "RSA1" *)

(* rk.Exponent = (rk.Exponent << 8) | uint32(value[offset+i]) in uint32: the shifted value has a zero low
   byte, so | is +; bytes beyond the fourth push the earlier ones out *)
Definition exp_fold (bs : list N) : N := fold_left (fun acc b => wrap32 (acc * 256) + b) bs 0.

Definition rd32 (value : list N) (lo : N) : R N :=
  let* s := go_slice value lo (lo + 4) in go_le_uint 4 s.

(* func (rk *RSAKeyMaterial) FromBytes(value []byte) error — Err leaves the key fields as they were *)
Definition rsa_from_bytes (value : list N) : R rsa :=
  if lenN value <? 24 then Err else
  let* magic := go_upto value 4 in
  if negb (bytes_eqb magic rsa_magic) then Err else
  let* ks := rd32 value 4 in
  let* es := rd32 value 8 in
  let* ms := rd32 value 12 in
  let* p1s := rd32 value 16 in
  let* p2s := rd32 value 20 in
  if lenN value - 24 <? es + ms + p1s + p2s then Err else
  let* eb := go_slice value 24 (24 + es) in            (* the loop reads value[24+i], i < es *)
  let o1 := 24 + es in
  let* m := go_slice value o1 (o1 + ms) in
  let o2 := o1 + ms in
  let* p1 := go_slice value o2 (o2 + p1s) in
  let o3 := o2 + p1s in
  let* p2 := go_slice value o3 (o3 + p2s) in
  Ok (mkRsa ks (exp_fold eb) m p1 p2).

(* func (rk *RSAKeyMaterial) ToBytes() []byte: the exponent always takes four bytes, big-endian *)
Definition rsa_to_bytes (k : rsa) : list N :=
  rsa_magic ++ le32 (rKeySize k) ++ le32 4 ++ le32 (lenN (rModulus k)) ++ le32 (lenN (rPrime1 k))
  ++ le32 (lenN (rPrime2 k)) ++ be32 (rExponent k) ++ rModulus k ++ rPrime1 k ++ rPrime2 k.

(* ------------------------------------------------------------------ key/CustomKeyInformation.go *)

Record cki : Type := mkCki {
  cVersion : N; cFlags : N; cVolume : N; cNotify : bool; cFek : N; cStrength : N;
  cReserved : list N; cExt : list N; cRawSize : N }.
Definition zero_cki : cki := mkCki 0 0 0 false 0 0 [] [] 0.

Definition cset_version (c : cki) (x : N) : cki :=
  mkCki x (cFlags c) (cVolume c) (cNotify c) (cFek c) (cStrength c) (cReserved c) (cExt c) (cRawSize c).
Definition cset_flags (c : cki) (x : N) : cki :=
  mkCki (cVersion c) x (cVolume c) (cNotify c) (cFek c) (cStrength c) (cReserved c) (cExt c) (cRawSize c).
Definition cset_volume (c : cki) (x : N) : cki :=
  mkCki (cVersion c) (cFlags c) x (cNotify c) (cFek c) (cStrength c) (cReserved c) (cExt c) (cRawSize c).
Definition cset_notify (c : cki) (x : bool) : cki :=
  mkCki (cVersion c) (cFlags c) (cVolume c) x (cFek c) (cStrength c) (cReserved c) (cExt c) (cRawSize c).
Definition cset_fek (c : cki) (x : N) : cki :=
  mkCki (cVersion c) (cFlags c) (cVolume c) (cNotify c) x (cStrength c) (cReserved c) (cExt c) (cRawSize c).
Definition cset_strength (c : cki) (x : N) : cki :=
  mkCki (cVersion c) (cFlags c) (cVolume c) (cNotify c) (cFek c) x (cReserved c) (cExt c) (cRawSize c).
Definition cset_reserved (c : cki) (x : list N) : cki :=
  mkCki (cVersion c) (cFlags c) (cVolume c) (cNotify c) (cFek c) (cStrength c) x (cExt c) (cRawSize c).
Definition cset_ext (c : cki) (x : list N) : cki :=
  mkCki (cVersion c) (cFlags c) (cVolume c) (cNotify c) (cFek c) (cStrength c) (cReserved c) x (cRawSize c).
Definition cset_rawsize (c : cki) (x : N) : cki :=
  mkCki (cVersion c) (cFlags c) (cVolume c) (cNotify c) (cFek c) (cStrength c) (cReserved c) (cExt c) x.

(* func (cki *CustomKeyInformation) FromBytes(blob, version) error: the structure is filled field by field
   and keeps what was assigned when an error or an early return ends the call; the boolean is "error" *)
Definition cki_from_bytes (c : cki) (blob : list N) : R (cki * bool) :=
  let n := wrap32 (lenN blob) in
  let c := cset_rawsize c n in
  if lenN blob <? 2 then Ok (c, true) else
  let* v := go_index blob 0 in
  let c := cset_version c v in
  if negb (v =? 1) then Ok (c, true) else
  let* f := go_index blob 1 in
  let c := cset_flags c f in
  if negb ((2 <? n) && (3 <=? n)) then Ok (c, false) else
  let* vol := go_index blob 2 in
  let c := cset_volume c vol in
  if negb ((3 <? n) && (4 <=? n)) then Ok (c, false) else
  let* nt := go_index blob 3 in
  let c := cset_notify c (negb (nt =? 0)) in
  if negb ((4 <? n) && (5 <=? n)) then Ok (c, false) else
  let* fek := go_index blob 4 in
  let c := cset_fek c fek in
  if negb ((5 <? n) && (9 <=? n)) then Ok (c, false) else
  let* sb := go_slice blob 5 9 in
  let* st := go_le_uint 4 sb in
  let c := cset_strength c st in
  if negb ((9 <? n) && (19 <=? n)) then Ok (c, false) else
  let* res := go_slice blob 9 19 in
  let c := cset_reserved c res in
  if negb (19 <? n) then Ok (c, false) else
  let* rest := go_from blob 19 in                       (* make(n-19); copy(…, blob[19:]) *)
  let ext := firstn (N.to_nat (n - 19)) rest ++ repeatN 0 (N.to_nat (n - 19) - length rest) in
  Ok (cset_ext c ext, false).

(* func (cki *CustomKeyInformation) ToBytes() []byte *)
Definition cki_to_bytes (c : cki) : list N :=
  let sz := cRawSize c in
  [wrap8 (cVersion c); cFlags c]
  ++ (if 3 <=? sz then [cVolume c] else [])
  ++ (if 4 <=? sz then [if cNotify c then 1 else 0] else [])
  ++ (if 5 <=? sz then [cFek c] else [])
  ++ (if 9 <=? sz then le32 (cStrength c) else [])
  ++ (if 19 <=? sz then cReserved c else [])
  ++ (if 19 <? sz then cExt c else []).

(* ------------------------------------------------------------------ utils/utils.go *)

Definition is_hex_version (v : N) : bool := (v =? 0) || (v =? 256).

(* strings.TrimRight(s, "=") *)
Fixpoint trim_right (c : N) (l : list N) : list N :=
  match l with
  | [] => []
  | x :: r => match trim_right c r with
              | [] => if x =? c then [] else [x]
              | r' => x :: r'
              end
  end.

(* func ConvertToBinaryIdentifier(keyIdentifier string, version) ([]byte, error):
   hex.DecodeString, or base64.StdEncoding.DecodeString(strings.TrimRight(id, "=") + "=") *)
Definition id_to_binary (s : list N) (v : N) : R (list N) :=
  if is_hex_version v then match unhex s with Some b => Ok b | None => Err end
  else match b64_decode (trim_right 61 s ++ [61]) with Some b => Ok b | None => Err end.

(* func ConvertFromBinaryIdentifier(keyIdentifier []byte, version) string *)
Definition id_from_binary (b : list N) (v : N) : list N :=
  if is_hex_version v then hex_of_bytes false b else b64_encode b.

(* func ComputeHash(data []byte) []byte — crypto/sha256, the reference of Algo/SHA256.v *)
Definition compute_hash (data : list N) : list N := sha256 data.

(* func ComputeKeyIdentifier(keyMaterial []byte, version) string *)
Definition compute_key_identifier (km : list N) (v : N) : list N := id_from_binary (compute_hash km) v.

(* ------------------------------------------------------------------ KeyCredential.go *)

Record kcred : Type := mkKc {
  kVersion : N; kIdentifier : list N; kKeyHash : list N; kRsa : rsa; kUsage : N; kLegacy : list N;
  kSource : N; kCki : cki; kDevice : guid; kLastLogon : datetime; kCreation : datetime; kRaw : list N }.

Definition zero_guid : guid := mkGuid 0 0 0 0 0.
Definition zero_kc : kcred := mkKc 0 [] [] zero_rsa 0 [] 0 zero_cki zero_guid zero_datetime zero_datetime [].

Definition set_version (k : kcred) (x : N) : kcred :=
  mkKc x (kIdentifier k) (kKeyHash k) (kRsa k) (kUsage k) (kLegacy k) (kSource k) (kCki k) (kDevice k) (kLastLogon k) (kCreation k) (kRaw k).
Definition set_identifier (k : kcred) (x : list N) : kcred :=
  mkKc (kVersion k) x (kKeyHash k) (kRsa k) (kUsage k) (kLegacy k) (kSource k) (kCki k) (kDevice k) (kLastLogon k) (kCreation k) (kRaw k).
Definition set_keyhash (k : kcred) (x : list N) : kcred :=
  mkKc (kVersion k) (kIdentifier k) x (kRsa k) (kUsage k) (kLegacy k) (kSource k) (kCki k) (kDevice k) (kLastLogon k) (kCreation k) (kRaw k).
Definition set_rsa (k : kcred) (x : rsa) : kcred :=
  mkKc (kVersion k) (kIdentifier k) (kKeyHash k) x (kUsage k) (kLegacy k) (kSource k) (kCki k) (kDevice k) (kLastLogon k) (kCreation k) (kRaw k).
Definition set_usage (k : kcred) (x : N) : kcred :=
  mkKc (kVersion k) (kIdentifier k) (kKeyHash k) (kRsa k) x (kLegacy k) (kSource k) (kCki k) (kDevice k) (kLastLogon k) (kCreation k) (kRaw k).
Definition set_legacy (k : kcred) (x : list N) : kcred :=
  mkKc (kVersion k) (kIdentifier k) (kKeyHash k) (kRsa k) (kUsage k) x (kSource k) (kCki k) (kDevice k) (kLastLogon k) (kCreation k) (kRaw k).
Definition set_source (k : kcred) (x : N) : kcred :=
  mkKc (kVersion k) (kIdentifier k) (kKeyHash k) (kRsa k) (kUsage k) (kLegacy k) x (kCki k) (kDevice k) (kLastLogon k) (kCreation k) (kRaw k).
Definition set_cki (k : kcred) (x : cki) : kcred :=
  mkKc (kVersion k) (kIdentifier k) (kKeyHash k) (kRsa k) (kUsage k) (kLegacy k) (kSource k) x (kDevice k) (kLastLogon k) (kCreation k) (kRaw k).
Definition set_device (k : kcred) (x : guid) : kcred :=
  mkKc (kVersion k) (kIdentifier k) (kKeyHash k) (kRsa k) (kUsage k) (kLegacy k) (kSource k) (kCki k) x (kLastLogon k) (kCreation k) (kRaw k).
Definition set_lastlogon (k : kcred) (x : datetime) : kcred :=
  mkKc (kVersion k) (kIdentifier k) (kKeyHash k) (kRsa k) (kUsage k) (kLegacy k) (kSource k) (kCki k) (kDevice k) x (kCreation k) (kRaw k).
Definition set_creation (k : kcred) (x : datetime) : kcred :=
  mkKc (kVersion k) (kIdentifier k) (kKeyHash k) (kRsa k) (kUsage k) (kLegacy k) (kSource k) (kCki k) (kDevice k) (kLastLogon k) x (kRaw k).
Definition set_raw (k : kcred) (x : list N) : kcred :=
  mkKc (kVersion k) (kIdentifier k) (kKeyHash k) (kRsa k) (kUsage k) (kLegacy k) (kSource k) (kCki k) (kDevice k) (kLastLogon k) (kCreation k) x.

(* func writeEntry(buffer, entryType, data) error: length (2, little-endian) type (1) value *)
Definition write_entry (t : N) (data : list N) : R (list N) :=
  if 65535 <? lenN data then Err else Ok (le16 (lenN data) ++ [t] ++ data).

(* func (kc *KeyCredential) ToBytes() ([]byte, error) *)
Definition kc_to_bytes (k : kcred) : R (list N) :=
  let* e1 := (if lenN (kIdentifier k) =? 0 then Ok []
              else let* b := id_to_binary (kIdentifier k) (kVersion k) in write_entry 1 b) in
  let* e2 := write_entry 2 (if lenN (kKeyHash k) =? 0 then repeatN 0 32 else kKeyHash k) in
  let* e3 := write_entry 3 (rsa_to_bytes (kRsa k)) in
  let* e4 := write_entry 4 [kUsage k] in
  let* e4' := (if lenN (kLegacy k) =? 0 then Ok [] else write_entry 4 (kLegacy k)) in
  let* e5 := write_entry 5 [wrap8 (kSource k)] in
  let* e6 := write_entry 6 (guid_to_bytes (kDevice k)) in
  let cb := cki_to_bytes (kCki k) in
  let* e7 := (if lenN cb =? 0 then Ok [] else write_entry 7 cb) in
  let* e8 := write_entry 8 (datetime_to_bytes (kLastLogon k)) in
  let* e9 := write_entry 9 (datetime_to_bytes (kCreation k)) in
  Ok (ver_to_bytes (kVersion k) ++ e1 ++ e2 ++ e3 ++ e4 ++ e4' ++ e5 ++ e6 ++ e7 ++ e8 ++ e9).

(* the switch on the entry type in FromBytes; [now] stands for time.Now(), read when a timestamp is 0 *)
Definition apply_entry (now : gotime) (k : kcred) (t : N) (data : list N) : R kcred :=
  if t =? 1 then Ok (set_identifier k (id_from_binary data (kVersion k)))
  else if t =? 2 then Ok (set_keyhash k data)
  else if t =? 3 then
    match rsa_from_bytes data with Ok r => Ok (set_rsa k r) | Err => Ok k | Panic => Panic end   (* error ignored *)
  else if t =? 4 then
    (if lenN data =? 1 then let* u := go_index data 0 in Ok (set_usage k u) else Ok (set_legacy k data))
  else if t =? 5 then
    (if lenN data <? 1 then Err else let* s := go_index data 0 in Ok (set_source k s))
  else if t =? 6 then
    match guid_from_raw data with Ok g => Ok (set_device k g) | Err => Ok k | Panic => Panic end   (* error ignored *)
  else if t =? 7 then
    let* r := cki_from_bytes (kCki k) data in Ok (set_cki k (fst r))                              (* error ignored *)
  else if t =? 8 then
    let* dt := convert_from_binary_time_go now data (Z.of_N (kSource k)) (Z.of_N (kVersion k)) in Ok (set_lastlogon k dt)
  else if t =? 9 then
    let* dt := convert_from_binary_time_go now data (Z.of_N (kSource k)) (Z.of_N (kVersion k)) in Ok (set_creation k dt)
  else Ok k.

(* the loop "for len(remainder) > 3" of FromBytes; every turn removes at least three bytes, so
   [S (length rem)] turns of fuel are never used up (Proofs/C14Walk.v, kc_walk_fuel) *)
Fixpoint kc_walk (fuel : nat) (now : gotime) (k : kcred) (rem : list N) : R kcred :=
  match fuel with
  | O => Ok k
  | S f =>
      if lenN rem <=? 3 then Ok k else
      let* lb := go_upto rem 2 in
      let* len := go_le_uint 2 lb in
      let* t := go_index rem 2 in
      let* rem1 := go_from rem 3 in
      if lenN rem1 <? len then Err else
      let* data := go_upto rem1 len in
      let* rem2 := go_from rem1 len in
      let* k' := apply_entry now k t data in
      kc_walk f now k' rem2
  end.

(* func (kc *KeyCredential) FromBytes(rawBytes []byte) error *)
Definition kc_from_bytes (now : gotime) (k0 : kcred) (raw : list N) : R kcred :=
  let k := set_raw k0 raw in
  let* v := ver_from_bytes raw in
  let k := set_version k v in
  let* rem := go_from raw 4 in
  kc_walk (S (length rem)) now k rem.

(* func (kc *KeyCredential) ParseDNWithBinary(dnWithBinary DNWithBinary) error *)
Definition kc_parse_dn (now : gotime) (k0 : kcred) (dn bin : list N) : R kcred := kc_from_bytes now k0 bin.

(* the loop of ComputeKeyHash: after every entry of type KeyHash, everything that follows it is appended *)
Fixpoint hash_walk (fuel : nat) (rem data : list N) : R (list N) :=
  match fuel with
  | O => Ok data
  | S f =>
      if lenN rem <=? 3 then Ok data else
      let* lb := go_upto rem 2 in
      let* len := go_le_uint 2 lb in
      let* t := go_index rem 2 in
      let* rem1 := go_from rem 3 in
      if lenN rem1 <? len then Ok data else              (* break *)
      let* rem2 := go_from rem1 len in
      hash_walk f rem2 (if t =? 2 then data ++ rem2 else data)
  end.

(* the bytes that ComputeKeyHash hashes, for raw bytes of at least 4 bytes *)
Definition kc_covered (raw : list N) : R (list N) :=
  let* rem := go_from raw 4 in
  hash_walk (S (length rem)) rem [].

(* func (kc *KeyCredential) ComputeKeyHash() []byte: fills RawBytes from ToBytes when it holds fewer than
   4 bytes (nil when that fails) *)
Definition compute_key_hash (k : kcred) : R (list N * kcred) :=
  if lenN (kRaw k) <? 4 then
    match kc_to_bytes k with
    | Ok b => let* d := kc_covered b in Ok (compute_hash d, set_raw k b)
    | Err => Ok ([], k)
    | Panic => Panic
    end
  else let* d := kc_covered (kRaw k) in Ok (compute_hash d, k).

(* func (kc *KeyCredential) CheckIntegrity() bool *)
Definition check_integrity (k : kcred) : R (bool * kcred) :=
  let* r := compute_key_hash k in
  Ok (bytes_eqb (fst r) (kKeyHash (snd r)), snd r).

(* func NewKeyCredential(Version, Identifier, RawKeyMaterial, DeviceId, LastLogonTime, CreationTime) *)
Definition new_key_credential (v : N) (id : list N) (r : rsa) (dev : guid) (ll cr : datetime) : R kcred :=
  let k := mkKc v id [] r 1 [] 0 (mkCki 1 0 0 false 0 0 [] [] 0) dev ll cr [] in
  let* h := compute_key_hash k in
  Ok (set_keyhash (snd h) (fst h)).

(* FromBytes into a fresh structure followed by CheckIntegrity: what a consumer of a blob does *)
Definition kc_verify (now : gotime) (raw : list N) : R bool :=
  let* k := kc_from_bytes now zero_kc raw in
  let* r := check_integrity k in
  Ok (fst r).

(* ------------------------------------------------------------------ DNWithBinary.go *)

(* func (d *DNWithBinary) ToString() string: fmt.Sprintf("B:%d:%s:%s", len(bin)*2, hex(bin), dn) *)
Definition dn_to_string (dn bin : list N) : list N :=
  [66; 58] ++ print_dec (lenN bin * 2) ++ [58] ++ hex_of_bytes false bin ++ [58] ++ dn.

(* the text before the first c and the text after it *)
Fixpoint cut (c : N) (s : list N) : option (list N * list N) :=
  match s with
  | [] => None
  | x :: r => if x =? c then Some ([], r)
              else match cut c r with Some (a, b) => Some (x :: a, b) | None => None end
  end.

(* func (d *DNWithBinary) Parse(rawBytes []byte) error: bytes.SplitN(rawBytes, ":", 4), strconv.Atoi,
   hex.DecodeString; returns (DistinguishedName, BinaryData) *)
Definition dn_parse (raw : list N) : R (list N * list N) :=
  match cut 58 raw with
  | None => Err
  | Some (_, r1) =>
      match cut 58 r1 with
      | None => Err
      | Some (p1, r2) =>
          match cut 58 r2 with
          | None => Err
          | Some (p2, p3) =>
              let* size := parse_int64 p1 in
              match unhex p2 with
              | None => Err
              | Some b => if (Z.of_N (lenN b * 2) =? size)%Z then Ok (p3, b) else Err
              end
          end
      end
  end.
