(* Multiset inclusion of lists of strings: what the wrap-sites tie (Properties/ShapeCxx.v) states.  Definitions only. *)
From Coq Require Import List String Bool.
Import ListNotations.

(* remove the first occurrence of s; None when there is none *)
Fixpoint remove_one (s : string) (l : list string) : option (list string) :=
  match l with
  | [] => None
  | x :: r => if String.eqb x s then Some r
              else match remove_one s r with Some r' => Some (x :: r') | None => None end
  end.

(* every element of a occurs in b, with multiplicity *)
Fixpoint sub_multiset (a b : list string) : bool :=
  match a with
  | [] => true
  | x :: r => match remove_one x b with Some b' => sub_multiset r b' | None => false end
  end.
