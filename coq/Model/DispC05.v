From Coq Require Import List NArith ZArith String Bool.
From Mant Require Import Prim.R Prim.Val Model.DispUtil Model.SmbTypes Model.SmbLayout Model.SmbDialects Model.DispC04.
Import ListNotations.
Open Scope string_scope.

Definition dispatch_C05 (f : string) (args : list val) : val :=
  match args with
  | [VL ds] =>
      if f =? "dialects.marshal" then VB (dialects_marshal (map b_of_val ds)) else vunknown
  | [VB data] =>
      if f =? "dialects.unmarshal" then
        r_val (fun r => VL [VL (map VB (fst r)); vN (snd r)]) (dialects_unmarshal data)
      else vunknown
  | _ => dispatch_C04 f args
  end.
