(* Model of network/smb/smb_v10/dialects/dialects.go (after the fix: one 0x02 name 0x00 per dialect). *)
From Coq Require Import List NArith Bool.
From Mant Require Import Prim.R Prim.Bytes.
Import ListNotations.
Open Scope N_scope.

Definition dialect_format : N := 2.

Definition dialects_marshal (ds : list (list N)) : list N :=
  flat_map (fun d => dialect_format :: d ++ [0]) ds.

(* the inner loop: index of the first 0x00 at or after position i *)
Fixpoint find_zero (l : list N) (i : N) : option N :=
  match l with
  | [] => None
  | b :: r => if b =? 0 then Some i else find_zero r (i + 1)
  end.

(* one iteration per dialect; [fuel] bounds the number of iterations (each consumes >= 2 bytes) *)
Fixpoint dialects_loop (fuel : nat) (data : list N) (pos : N) (acc : list (list N)) : R (list (list N) * N) :=
  match fuel with
  | O => Err
  | S f =>
      if pos <? lenN data then
        let* fmt := go_index data pos in
        if negb (fmt =? dialect_format) then Err else
        match find_zero (skipn (N.to_nat (pos + 1)) data) (pos + 1) with
        | None => Err
        | Some z =>
            let* name := go_slice data (pos + 1) z in
            dialects_loop f data (z + 1) (acc ++ [name])
        end
      else Ok (acc, pos)
  end.

Definition dialects_unmarshal (data : list N) : R (list (list N) * N) :=
  dialects_loop (S (length data)) data 0 [].
