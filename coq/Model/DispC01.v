(* Routes the harness entry points of C01 to the models. *)
From Coq Require Import List NArith ZArith String.
From Mant Require Import Prim.R Prim.Val Prim.Bytes Model.DispUtil Algo.Hex
  Gen.ConstsC01 Model.Md4Go Model.C01Text Model.NtLmDcc.
Import ListNotations.
Open Scope string_scope.

Definition op_of_val (v : val) : md4op :=
  match v with
  | VB p => OpWrite p
  | VN 0%Z => OpSum
  | _ => OpHexSum
  end.

(* histories that also use the verification hook MD4.VerifAddCount (the bit counter advanced by a whole number
   of blocks without hashing data): [VL [VN bits]] *)
Fixpoint md4_run_ext (st : md4st) (ops : list val) : list (list N) :=
  match ops with
  | [] => []
  | VL [VN bits] :: r =>
      md4_run_ext (mk_md4st (st_h st) ((st_count st + Z.to_N bits) mod 18446744073709551616) (st_buf st)) r
  | v :: r =>
      match op_of_val v with
      | OpWrite p => md4_run_ext (md4_write st p) r
      | OpSum => let '(d, st') := md4_sum st in d :: md4_run_ext st' r
      | OpHexSum => let '(d, st') := md4_hexsum st in d :: md4_run_ext st' r
      end
  end.

Definition val_of_stmt (s : stmt) : val :=
  let '(f, dst, (p, q, u, v), k, sh) := s in
  VL [vN f; vN dst; vN p; vN q; vN u; vN v; vnat k; vN sh].

(* the bodies of the four helper functions as the source prints them (go/printer); the definitions
   rol / ff / gg / hh of Model/Md4Go.v are the transcription of exactly these expressions *)
Definition go_fn_bodies : list val :=
  [ VB (str "rol(a+(d^(b&(c^d)))+x, s)");
    VB (str "rol(a+((b&c)|(d&(b|c)))+x+0x5a827999, s)");
    VB (str "rol(a+(b^c^d)+x+0x6ed9eba1, s)");
    VB (str "(x << s) | (x >> (32 - s))") ].

Definition L := go_lower_cp.
Definition U := go_upper_cp.

Definition dispatch_C01 (f : string) (args : list val) : val :=
  match args with
  | [] =>
      if f =? "c01.md4_schedule" then VL (map val_of_stmt go_schedule)
      else if f =? "c01.md4_consts" then
        VL [vN c01_chunkSize; vN c01_init0; vN c01_init1; vN c01_init2; vN c01_init3; vN gg_const; vN hh_const]
      else if f =? "c01.md4_funcs" then VL go_fn_bodies
      else vunknown
  | [VL ops] =>
      if f =? "md4.ops" then VL (map VB (md4_run md4_new (map op_of_val ops)))
      else if f =? "md4.ops_ext" then VL (map VB (md4_run_ext md4_new ops))
      else vunknown
  | [VN c] =>
      if f =? "c01.lower_cp" then vN (go_lower_cp (Z.to_N c))
      else if f =? "c01.upper_cp" then vN (go_upper_cp (Z.to_N c))
      else vunknown
  | [VB a] =>
      if f =? "md4.sum" then VB (md4_sum_data a)
      else if f =? "nt.hash" then VB (nt_hash a)
      else if f =? "nt.hex" then VB (nt_hash_hex a)
      else if f =? "lm.hash" then VB (lm_hash U a)
      else if f =? "lm.hex" then VB (lm_hash_hex U a)
      else if f =? "utf16.encode" then VB (encode_utf16le a)
      else if f =? "utf16.decode" then r_bytes (decode_utf16le a)
      else if f =? "c01.runes" then VL (map vN (go_runes a))
      else if f =? "c01.to_lower" then VB (go_to_lower L a)
      else if f =? "c01.to_upper" then VB (go_to_upper U a)
      else vunknown
  | [VB a; VB b] =>
      if f =? "dcc.from_password" then VB (dcc_from_password L a b)
      else if f =? "dcc.from_nt" then VB (dcc_from_nt L a b)
      else if f =? "dcc.from_password_hex" then VB (dcc_from_password_hex L a b)
      else if f =? "dcc.from_nt_hex" then VB (dcc_from_nt_hex L a b)
      else if f =? "dcc.from_password_hashcat" then VB (dcc_from_password_hashcat L a b)
      else if f =? "dcc.from_nt_hashcat" then VB (dcc_from_nt_hashcat L a b)
      else vunknown
  | [VB a; VB b; VN r] =>
      if f =? "dcc2.hash" then VB (dcc2_hash L a b r)
      else if f =? "dcc2.with_password" then VB (dcc2_with_password L a b r)
      else if f =? "dcc2.with_nt" then VB (dcc2_with_nt L a b r)
      else vunknown
  | _ => vunknown
  end.
