(* C07 routes a harness entry-point name to whichever property's dispatcher knows it: the decoders checked
   for totality are the very models (and the very implementation entry points) of C01..C20. *)
From Coq Require Import List NArith ZArith String.
From Mant Require Import Prim.R Prim.Val Model.DispUtil
  Model.DispC01 Model.DispC03 Model.DispC04 Model.DispC05 Model.DispC06 Model.DispC08 Model.DispC09 Model.DispC10
  Model.DispC11 Model.DispC12 Model.DispC13 Model.DispC14 Model.DispC15 Model.DispC16 Model.DispC20 Model.SmbUtils.
Import ListNotations.

Definition is_unknown (v : val) : bool :=
  match v with VL [VErr; VPanic] => true | _ => false end.

Fixpoint first_known (ds : list (string -> list val -> val)) (f : string) (args : list val) : val :=
  match ds with
  | [] => vunknown
  | d :: r => let v := d f args in if is_unknown v then first_known r f args else v
  end.

(* commands/utils/utils.go has no property of its own: its two helpers are C07's *)
Definition dispatch_utils (f : string) (args : list val) : val :=
  match args with
  | [VB d] =>
      if String.eqb f "smbutils.nt_unicode" then let (s, n) := get_nt_unicode d in VL [VB s; vN n]
      else if String.eqb f "smbutils.nt_string" then let (s, n) := get_nt_string d in VL [VB s; vN n]
      else vunknown
  | _ => vunknown
  end.

Definition dispatch_C07 : string -> list val -> val :=
  first_known [dispatch_utils; dispatch_C06; dispatch_C03; dispatch_C04; dispatch_C05; dispatch_C08; dispatch_C09; dispatch_C10;
               dispatch_C11; dispatch_C12; dispatch_C13; dispatch_C14; dispatch_C15; dispatch_C16; dispatch_C20;
               dispatch_C01].
