(* Concurrency models of the name-service loops (definitions only).
   1. the receive loop that refills ONE buffer and starts a handler goroutine per datagram
      (nbtns server.go / udp_server.go serve, llmnr server.go Serve, llmnr client.go readLoop);
   2. the shutdown protocol of those loops (quit channel + closing the socket [+ wg.Wait]);
   3. the shutdown protocol of the TCP server (accept loop, per-connection goroutines, the
      tcpConns map walked by Stop);
   4. the LLMNR server's per-datagram decision and the client's id -> channel demultiplexer.
   Schedules are lists of events: every interleaving of the threads and of the environment
   (datagrams arriving, deadlines expiring, peers closing) is some list. *)
From Coq Require Import List NArith Bool Arith.
From Mant Require Import Prim.R Prim.Val Prim.Bytes Gen.ConstsC18 Model.NbnsServer.
Import ListNotations.

(* ------------------------------------------------------------------ 1. one buffer, many handlers *)

(* What `go handler(arg)` captured. *)
Inductive harg :=
| ArgShared (n : nat)        (* the slice buf[:n] of the receive buffer: read when the handler runs *)
| ArgCopy (d : bytes).       (* a private copy made by the loop before the next read *)

Record hthread := { ht_for : bytes;            (* ghost: the datagram this handler was started for *)
                    ht_arg : harg;
                    ht_seen : option bytes }.  (* the bytes it parsed, once it has run *)

Record rstate := { rs_buf : bytes; rs_threads : list hthread }.

Inductive recv_ev :=
| EvRecv (d : bytes)     (* ReadFromUDP returns datagram d; the loop starts a handler and loops *)
| EvRun (i : nat).       (* handler i is scheduled and reads its argument *)

Definition rinit (bufsize : nat) : rstate := {| rs_buf := repeat 0%N bufsize; rs_threads := [] |}.

Definition run_thread (buf : bytes) (h : hthread) : hthread :=
  match ht_seen h with
  | Some _ => h
  | None => {| ht_for := ht_for h; ht_arg := ht_arg h;
               ht_seen := Some (match ht_arg h with ArgCopy d => d | ArgShared n => firstn n buf end) |}
  end.

Fixpoint update_nth {A} (i : nat) (f : A -> A) (l : list A) : list A :=
  match l, i with
  | [], _ => []
  | x :: l', O => f x :: l'
  | x :: l', S i' => x :: update_nth i' f l'
  end.

(* copy = true : data := make([]byte, n); copy(data, buf[:n]); go handle(data)
   copy = false: go handle(buf[:n]) *)
Definition rstep (copy : bool) (s : rstate) (e : recv_ev) : rstate :=
  match e with
  | EvRecv d =>
      let d' := firstn (length (rs_buf s)) d in                 (* a datagram is cut to the buffer *)
      let buf' := d' ++ skipn (length d') (rs_buf s) in         (* the read overwrites the front *)
      let n := length d' in
      {| rs_buf := buf';
         rs_threads := rs_threads s ++
           [{| ht_for := d'; ht_arg := if copy then ArgCopy (firstn n buf') else ArgShared n; ht_seen := None |}] |}
  | EvRun i => {| rs_buf := rs_buf s; rs_threads := update_nth i (run_thread (rs_buf s)) (rs_threads s) |}
  end.

Definition rrun (copy : bool) (bufsize : nat) (sched : list recv_ev) : rstate :=
  fold_left (rstep copy) sched (rinit bufsize).

(* ------------------------------------------------------------------ 2. shutdown of a datagram loop *)

(* for { select { case <-quit: return; default: read...; if err { continue }; go handle(...) } } *)
Inductive lpc := LSelect | LRead | LDispatch | LExited.
(* Stop(): close(quit); conn.Close(); wg.Wait()      (LLMNR Close has no Wait: it is done after the second step) *)
Inductive spc := SIdle | SQuitClosed | SConnClosed | SDone.

Record ustate := { u_loop : lpc; u_quit : bool; u_conn_closed : bool; u_queue : nat;
                   u_stop : spc; u_handlers : nat }.

Inductive uev :=
| ULoop          (* the loop goroutine takes its next step (no-op while blocked in the read) *)
| UStop          (* the goroutine calling Stop/Close takes its next step (no-op while blocked in Wait) *)
| UArrive        (* a datagram arrives *)
| UTimeout       (* the read deadline expires *)
| UHandlerDone.  (* a handler goroutine finishes *)

Definition ustep (s : ustate) (e : uev) : ustate :=
  let 'Build_ustate pc quit closed queue stop hs := s in
  match e with
  | ULoop =>
      match pc with
      | LSelect => if quit then Build_ustate LExited quit closed queue stop hs
                   else Build_ustate LRead quit closed queue stop hs
      | LRead => if closed then Build_ustate LSelect quit closed queue stop hs      (* error -> continue *)
                 else match queue with
                      | O => s                                                       (* blocked *)
                      | S q => Build_ustate LDispatch quit closed q stop hs
                      end
      | LDispatch => Build_ustate LSelect quit closed queue stop (S hs)              (* go handle(...) *)
      | LExited => s
      end
  | UStop =>
      match stop with
      | SIdle => Build_ustate pc true closed queue SQuitClosed hs
      | SQuitClosed => Build_ustate pc quit true queue SConnClosed hs
      | SConnClosed => match pc with LExited => Build_ustate pc quit closed queue SDone hs | _ => s end
      | SDone => s
      end
  | UArrive => if closed then s else Build_ustate pc quit closed (S queue) stop hs
  | UTimeout => match pc with LRead => Build_ustate LSelect quit closed queue stop hs | _ => s end
  | UHandlerDone => Build_ustate pc quit closed queue stop (pred hs)
  end.

Definition urun (s : ustate) (sched : list uev) : ustate := fold_left ustep sched s.

Definition uev_eqb (a b : uev) : bool :=
  match a, b with
  | ULoop, ULoop | UStop, UStop | UArrive, UArrive | UTimeout, UTimeout | UHandlerDone, UHandlerDone => true
  | _, _ => false
  end.
Definition ucount (e : uev) (l : list uev) : nat := length (filter (uev_eqb e) l).

(* ------------------------------------------------------------------ 3. shutdown of the TCP server *)

Inductive apc := ASelect | AAccept | ASpawn | AExited.
Inductive cpc := CStart      (* goroutine started, tcpConns.Store not yet executed *)
               | CSelect | CRead | CHandle | CWrite | CExited.
Record conn := { c_pc : cpc; c_stored : bool; c_closed : bool; c_avail : nat }.
Inductive tspc := TIdle | TQuit | TLis | TRange | TDone.

Record tstate := { t_acc : apc; t_quit : bool; t_lclosed : bool; t_backlog : nat;
                   t_conns : list conn; t_stop : tspc }.

Inductive tev :=
| TAcc               (* accept-loop goroutine steps *)
| TAccTemp           (* Accept returns a temporary error *)
| TConn (i : nat)    (* goroutine of connection i steps *)
| TConnFail (i : nat)(* a read/write/handler error or deadline on connection i: it returns *)
| TStop              (* the goroutine calling Stop steps *)
| TClientConnect     (* a client connects *)
| TClientSend (i : nat)   (* a complete message becomes readable on connection i *)
| TClientClose (i : nat). (* the peer closes connection i *)

Definition conn_step (quit : bool) (c : conn) : conn :=
  let 'Build_conn pc stored closed avail := c in
  match pc with
  | CStart => Build_conn CSelect true closed avail
  | CSelect => if quit then Build_conn CExited stored closed avail else Build_conn CRead stored closed avail
  | CRead => if closed then Build_conn CExited stored closed avail
             else match avail with O => c | S a => Build_conn CHandle stored closed a end
  | CHandle => Build_conn CWrite stored closed avail
  | CWrite => if closed then Build_conn CExited stored closed avail else Build_conn CSelect stored closed avail
  | CExited => c
  end.

Definition conn_fail (c : conn) : conn :=
  match c_pc c with
  | CRead | CHandle | CWrite => Build_conn CExited (c_stored c) (c_closed c) (c_avail c)
  | _ => c
  end.

(* Stop walks tcpConns: only connections whose goroutine has executed Store are closed *)
Definition range_close (c : conn) : conn :=
  if c_stored c then Build_conn (c_pc c) (c_stored c) true (c_avail c) else c.

Definition all_exited (cs : list conn) : bool :=
  forallb (fun c => match c_pc c with CExited => true | _ => false end) cs.

Definition tstep (s : tstate) (e : tev) : tstate :=
  let 'Build_tstate acc quit lclosed backlog conns stop := s in
  match e with
  | TAcc =>
      match acc with
      | ASelect => if quit then Build_tstate AExited quit lclosed backlog conns stop
                   else Build_tstate AAccept quit lclosed backlog conns stop
      | AAccept => if lclosed then Build_tstate AExited quit lclosed backlog conns stop
                   else match backlog with
                        | O => s
                        | S b => Build_tstate ASpawn quit lclosed b conns stop
                        end
      | ASpawn => Build_tstate ASelect quit lclosed backlog (conns ++ [Build_conn CStart false false 0]) stop
      | AExited => s
      end
  | TAccTemp => match acc with AAccept => Build_tstate ASelect quit lclosed backlog conns stop | _ => s end
  | TConn i => Build_tstate acc quit lclosed backlog (update_nth i (conn_step quit) conns) stop
  | TConnFail i => Build_tstate acc quit lclosed backlog (update_nth i conn_fail conns) stop
  | TStop =>
      match stop with
      | TIdle => Build_tstate acc true lclosed backlog conns TQuit
      | TQuit => Build_tstate acc quit true backlog conns TLis
      | TLis => Build_tstate acc quit lclosed backlog (map range_close conns) TRange
      | TRange => match acc with
                  | AExited => if all_exited conns then Build_tstate acc quit lclosed backlog conns TDone else s
                  | _ => s
                  end
      | TDone => s
      end
  | TClientConnect => if lclosed then s else Build_tstate acc quit lclosed (S backlog) conns stop
  | TClientSend i => Build_tstate acc quit lclosed backlog
                       (update_nth i (fun c => Build_conn (c_pc c) (c_stored c) (c_closed c) (S (c_avail c))) conns) stop
  | TClientClose i => Build_tstate acc quit lclosed backlog
                       (update_nth i (fun c => Build_conn (c_pc c) (c_stored c) true (c_avail c)) conns) stop
  end.

Definition trun (s : tstate) (sched : list tev) : tstate := fold_left tstep sched s.

Definition tcount_acc (l : list tev) : nat := length (filter (fun e => match e with TAcc => true | _ => false end) l).
Definition tcount_stop (l : list tev) : nat := length (filter (fun e => match e with TStop => true | _ => false end) l).
Definition tcount_conn (i : nat) (l : list tev) : nat :=
  length (filter (fun e => match e with TConn j => Nat.eqb i j | _ => false end) l).

(* ------------------------------------------------------------------ 4. LLMNR *)

(* Server.Serve after DecodeMessage: only queries (QR clear) reach the handlers;
   responseWriter.WriteMessage sets QR before encoding. *)
Definition llmnr_is_query (flags : N) : bool := N.land flags c18_LlmnrFlagQR =? 0.
Definition llmnr_set_response (flags : N) : N := N.lor flags c18_LlmnrFlagQR.

(* Client: Queries (id -> channel of capacity 1).  Channels are numbered in creation order. *)
Record dstate := { d_map : list (N * nat);                       (* id -> channel, most recent Store first *)
                   d_chans : list (option (N * bytes)) }.        (* what each channel holds: (message id, question name) *)

Inductive dev :=
| DStore (id : N)                         (* Query: Queries.Store(msg.ID, make(chan *Message, 1)) *)
| DDelete (id : N)                        (* Query returns: Queries.Delete(msg.ID) *)
| DRecv (id flags : N) (name : bytes).    (* readLoop decoded a datagram *)

Fixpoint dmap_get (m : list (N * nat)) (id : N) : option nat :=
  match m with
  | [] => None
  | (k, v) :: m' => if N.eqb k id then Some v else dmap_get m' id
  end.
Definition dmap_del (m : list (N * nat)) (id : N) : list (N * nat) := filter (fun kv => negb (N.eqb (fst kv) id)) m.

Definition dstep (s : dstate) (e : dev) : dstate :=
  match e with
  | DStore id => {| d_map := (id, length (d_chans s)) :: dmap_del (d_map s) id; d_chans := d_chans s ++ [None] |}
  | DDelete id => {| d_map := dmap_del (d_map s) id; d_chans := d_chans s |}
  | DRecv id flags name =>
      if llmnr_is_query flags then s                              (* if !msg.IsResponse() { continue } *)
      else match dmap_get (d_map s) id with
           | None => s
           | Some ch => {| d_map := d_map s;
                           d_chans := update_nth ch (fun c => match c with None => Some (id, name) | Some _ => c end)
                                                 (d_chans s) |}  (* select { case ch <- msg: default: } *)
           end
  end.

Definition dinit : dstate := {| d_map := []; d_chans := [] |}.
Definition drun (evs : list dev) : dstate := fold_left dstep evs dinit.
