(* Model of network/netbios/nbt/nbt.go (NBTTransport.Send / Receive / IsConnected) and of
   network/smb/smb_v10/transport/transport.go (NewTransport).  Hand-written; tied to the Go code by
   the correspondence check (harness/c11.go drives the real methods over a scripted net.Conn).
   Definitions only.

   The connection is an explicit inbound stream: the list of segments the successive conn.Read
   calls will deliver (a Read never crosses a segment boundary; a segment longer than the caller's
   buffer is delivered in pieces; an empty segment is a Read that returns (0, nil)), after which
   every Read reports an error (io.EOF: the peer closed / the connection was cut). *)
From Coq Require Import List NArith Bool.
From Mant Require Import Prim.R Prim.Bytes Prim.Dec Gen.ConstsC11.
Import ListNotations.
Open Scope N_scope.

Definition stream := list (list N).

(* io.ReadFull(conn, buf) with len(buf) = need, written as the loop it is (io.ReadAtLeast):
       for n < min && err == nil { nn, err = r.Read(buf[n:]); n += nn }
   With need = 0 the loop body never runs (no Read call at all).  Result: Some bytes when the
   buffer was filled, None when a Read reported an error first (the bytes read so far are dropped
   by the caller); second component: what is left of the stream. *)
Fixpoint read_full (need : N) (s : stream) {struct s} : option (list N) * stream :=
  if need =? 0 then (Some [], s) else
  match s with
  | [] => (None, [])                               (* Read returns (0, io.EOF) *)
  | seg :: rest =>
      if lenN seg <=? need then                    (* Read returns the whole segment *)
        let (r, s') := read_full (need - lenN seg) rest in
        (match r with Some t => Some (seg ++ t) | None => None end, s')
      else                                         (* Read fills the buffer; the rest of the segment stays *)
        (Some (firstn (N.to_nat need) seg), skipn (N.to_nat need) seg :: rest)
  end.

(* The four header bytes Send builds:
     byte(netbios.SESSION_MESSAGE), byte((length>>16)&0x01), byte((length>>8)&0xFF), byte(length&0xFF) *)
Definition nbt_header (len : N) : list N :=
  [c_nbt_session_message mod 256; (len / 65536) mod 2; (len / 256) mod 256; len mod 256].

(* Send: (bytes handed to conn.Write in ONE call, the count conn.Write returned), or an error
   (not connected; payload longer than 0x1FFFF: nothing is written). *)
Definition nbt_send (connected : bool) (data : list N) : R (list N * N) :=
  if negb connected then Err else
  let len := lenN data in
  if 131071 <? len then Err else
  let pkt := nbt_header len ++ data in
  Ok (pkt, lenN pkt).

(* messageType := header[0]
   length := (int(header[1]&0x01) << 16) | (int(header[2]) << 8) | int(header[3]) *)
Definition nbt_parse_header (h : list N) : R (N * N) :=
  let* t := go_index h 0 in
  let* f := go_index h 1 in
  let* b2 := go_index h 2 in
  let* b3 := go_index h 3 in
  Ok (t, (f mod 2) * 65536 + b2 * 256 + b3).

(* Receive: result and the stream left behind. *)
Definition nbt_receive (connected : bool) (s : stream) : R (list N) * stream :=
  if negb connected then (Err, s) else
  match read_full 4 s with
  | (None, s1) => (Err, s1)                        (* "failed to read NetBIOS header" *)
  | (Some h, s1) =>
      match nbt_parse_header h with
      | Ok (t, len) =>
          if negb (t =? 0) then (Err, s1)          (* "unexpected NetBIOS message type" *)
          else
            match read_full len s1 with
            | (None, s2) => (Err, s2)              (* "failed to read NetBIOS data" *)
            | (Some buf, s2) => (Ok buf, s2)
            end
      | Err => (Err, s1)
      | Panic => (Panic, s1)
      end
  end.

Definition nbt_is_connected (connected : bool) : bool := connected.

(* n successive Receive calls on the same transport *)
Fixpoint recv_n (connected : bool) (n : nat) (s : stream) : list (R (list N)) * stream :=
  match n with
  | O => ([], s)
  | S n' =>
      let (r, s1) := nbt_receive connected s in
      let (rs, s2) := recv_n connected n' s1 in
      (r :: rs, s2)
  end.

(* Sending a list of payloads in order over one connection: the bytes that reach the wire. *)
Fixpoint send_all (ps : list (list N)) : R (list N) :=
  match ps with
  | [] => Ok []
  | p :: rest =>
      let* (pkt, _) := nbt_send true p in
      let* w := send_all rest in
      Ok (pkt ++ w)
  end.

(* transport.NewTransport: strings.ToLower(transportType) == "nbt" yields a fresh, unconnected
   NBTTransport, anything else nil.  (ASCII lowering; no non-ASCII rune lowers to n, b or t.) *)
Definition transport_new (name : list N) : bool := bytes_eqb (map to_lower name) [110; 98; 116].
