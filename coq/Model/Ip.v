(* Model of network/ip/ipv4.go, ipv6.go and range.go (after the fix: commits for
   NewIPv4FromString and IPv4.IsInSubnet, see props/C20.fixed.txt).  Definitions only.
   Struct fields are N: uint8 fields are < 256, uint16 fields < 65536 (the constructors take
   uint8/uint16, so nothing larger can be stored); every Go wrap-around is written out. *)
From Coq Require Import List NArith Bool.
From Mant Require Import Prim.R Prim.Bytes Prim.Dec Model.StrC20.
Import ListNotations.
Open Scope N_scope.

Definition c_dot : N := 46.
Definition c_slash : N := 47.
Definition c_colon : N := 58.
Definition c_space : N := 32.
Definition c_minus : N := 45.

(* ------------------------------------------------------------------ IPv4 *)
Record ipv4 := IPv4 { v4a : N; v4b : N; v4c : N; v4d : N; v4m : N }.

(* NewIPv4FromString; a nil result is [Err] *)
Definition ipv4_of_string (s : list N) : R ipv4 :=
  match split_on c_slash s with
  | [addr; mask] =>
      match parse_uint10 8 mask with
      | None => Err
      | Some m =>
          match split_on c_dot addr with
          | [oa; ob; oc; od] =>
              match parse_uint10 8 oa, parse_uint10 8 ob, parse_uint10 8 oc, parse_uint10 8 od with
              | Some a, Some b, Some c, Some d => Ok (IPv4 (wrap8 a) (wrap8 b) (wrap8 c) (wrap8 d) (wrap8 m))
              | _, _, _, _ => Err
              end
          | _ => Err
          end
      end
  | _ => Err
  end.

(* fmt.Sprintf("%d.%d.%d.%d/%d", A, B, C, D, MaskBits): String, CIDRAddress *)
Definition ipv4_string (i : ipv4) : list N :=
  print_dec (v4a i) ++ [c_dot] ++ print_dec (v4b i) ++ [c_dot] ++ print_dec (v4c i) ++ [c_dot] ++
  print_dec (v4d i) ++ [c_slash] ++ print_dec (v4m i).

(* uint32(A)<<24 | uint32(B)<<16 | uint32(C)<<8 | uint32(D) *)
Definition ipv4_to_u32 (i : ipv4) : N :=
  N.lor (N.lor (N.lor (wrap32 (N.shiftl (v4a i) 24)) (wrap32 (N.shiftl (v4b i) 16)))
               (wrap32 (N.shiftl (v4c i) 8))) (v4d i).

(* uint32(0xFFFFFFFF) << (32 - MaskBits): the count is computed in uint8 (it wraps for MaskBits > 32)
   and a uint32 shifted by 32 or more is 0, which is what reducing modulo 2^32 gives *)
Definition ipv4_mask_of (maskbits : N) : N :=
  wrap32 (N.shiftl 4294967295 (wrap8 (32 + 256 - maskbits))).

Definition ipv4_compute_mask (i : ipv4) : ipv4 :=
  let masked := N.land (ipv4_to_u32 i) (ipv4_mask_of (v4m i)) in
  IPv4 (wrap8 (N.land (N.shiftr masked 24) 255)) (wrap8 (N.land (N.shiftr masked 16) 255))
       (wrap8 (N.land (N.shiftr masked 8) 255)) (wrap8 (N.land masked 255)) (v4m i).

Definition ipv4_cidr_mask (i : ipv4) : list N := ipv4_string (ipv4_compute_mask i).

Definition ipv4_in_subnet (i subnet : ipv4) : bool :=
  let mask := ipv4_mask_of (v4m subnet) in
  N.land (ipv4_to_u32 i) mask =? N.land (ipv4_to_u32 subnet) mask.

Definition ipv4_in_range (i s e : ipv4) : bool :=
  (ipv4_to_u32 s <=? ipv4_to_u32 i) && (ipv4_to_u32 i <=? ipv4_to_u32 e).

(* IPv4Range{Start, End} *)
Definition ipv4range_contains (s e i : ipv4) : bool := ipv4_in_range i s e.
Definition ipv4range_string (s e : ipv4) : list N :=
  ipv4_string s ++ [c_space; c_minus; c_space] ++ ipv4_string e.

(* ------------------------------------------------------------------ IPv6 *)
Definition ipv6 := list N.   (* the eight uint16 groups A..H, most significant first *)

Fixpoint parse_groups (parts : list (list N)) : option (list N) :=
  match parts with
  | [] => Some []
  | p :: ps =>
      match parse_uint16 16 p with
      | None => None
      | Some g => match parse_groups ps with Some gs => Some (wrap16 g :: gs) | None => None end
      end
  end.

(* NewIPv6FromString: exactly eight colon-separated groups, each strconv.ParseUint(_, 16, 16) *)
Definition ipv6_of_string (s : list N) : R ipv6 :=
  let parts := split_on c_colon s in
  if Nat.eqb (length parts) 8 then
    match parse_groups parts with Some gs => Ok gs | None => Err end
  else Err.

(* fmt.Sprintf("%x:%x:%x:%x:%x:%x:%x:%x", ...) *)
Fixpoint join_with (sep : list N) (parts : list (list N)) : list N :=
  match parts with
  | [] => []
  | [p] => p
  | p :: rest => p ++ sep ++ join_with sep rest
  end.

Definition ipv6_string (i : ipv6) : list N := join_with [c_colon] (map print_hex i).

Definition g (i : ipv6) (k : nat) : N := nth k i 0.

(* ToUInt128: [2]uint64{high, low} *)
Definition u64_of_groups (a b c d : N) : N :=
  N.lor (N.lor (N.lor (wrap64 (N.shiftl a 48)) (wrap64 (N.shiftl b 32))) (wrap64 (N.shiftl c 16))) d.

Definition ipv6_to_u128 (i : ipv6) : N * N :=
  (u64_of_groups (g i 0) (g i 1) (g i 2) (g i 3), u64_of_groups (g i 4) (g i 5) (g i 6) (g i 7)).

(* the IPv6 struct has no prefix length: IsInSubnet is equality of the two 128-bit values *)
Definition ipv6_in_subnet (i subnet : ipv6) : bool :=
  let '(h1, l1) := ipv6_to_u128 i in
  let '(h2, l2) := ipv6_to_u128 subnet in
  (h1 =? h2) && (l1 =? l2).

Definition ipv6_in_range (i s e : ipv6) : bool :=
  let '(ih, il) := ipv6_to_u128 i in
  let '(sh, sl) := ipv6_to_u128 s in
  let '(eh, el) := ipv6_to_u128 e in
  ((sh <? ih) || ((ih =? sh) && (sl <=? il))) && ((ih <? eh) || ((ih =? eh) && (il <=? el))).

Definition ipv6range_contains (s e i : ipv6) : bool := ipv6_in_range i s e.
Definition ipv6range_string (s e : ipv6) : list N :=
  ipv6_string s ++ [c_space; c_minus; c_space] ++ ipv6_string e.
