(* Model of /repo/crypto/md4/md4.go (Manticore's own MD4): New, MD4.Write, MD4.Sum, HexSum,
   Sum(data), processChunk, ff/gg/hh/rol.  Definitions only.

   uint32 values are N with the reduction mod 2^32 written where Go wraps (w32), the bit counter is an
   N reduced mod 2^64 (w64), the 64-byte buffer is a list of 64 bytes.  The state is
   {state [4]uint32; count uint64; buffer [64]byte}; a mutating method is  st -> out * st.

   The 48 statements of processChunk are DATA here (go_schedule, one entry per Go statement
   `v = ff|gg|hh(p, q, r, t, x[k], s)`): the harness re-reads the same 48 statements from the Go source
   with go/ast on every run and compares them with go_schedule (entry c01.md4_schedule), so the model
   executes exactly the schedule the source spells out. *)
From Coq Require Import List NArith Bool.
From Mant Require Import Prim.Bytes Prim.Dec Algo.Word Gen.ConstsC01.
Import ListNotations.
Open Scope N_scope.

(* ------------------------------------------------------------------ *)
(* func rol(x, s uint32) uint32 { return (x << s) | (x >> (32 - s)) }      (x is a uint32: x < 2^32) *)
Definition rol (x s : N) : N := N.lor (w32 (N.shiftl x s)) (N.shiftr x (32 - s)).

(* func ff(a, b, c, d, x, s uint32) uint32 { return rol(a+(d^(b&(c^d)))+x, s) } *)
Definition ff (a b c d x s : N) : N :=
  rol (w32 (a + N.lxor d (N.land b (N.lxor c d)) + x)) s.

(* func gg(a, b, c, d, x, s uint32) uint32 { return rol(a+((b&c)|(d&(b|c)))+x+0x5a827999, s) } *)
Definition gg_const : N := 0x5a827999.
Definition gg (a b c d x s : N) : N :=
  rol (w32 (a + N.lor (N.land b c) (N.land d (N.lor b c)) + x + gg_const)) s.

(* func hh(a, b, c, d, x, s uint32) uint32 { return rol(a+(b^c^d)+x+0x6ed9eba1, s) } *)
Definition hh_const : N := 0x6ed9eba1.
Definition hh (a b c d x s : N) : N :=
  rol (w32 (a + N.lxor (N.lxor b c) d + x + hh_const)) s.

(* ------------------------------------------------------------------ *)
(* the local variables a, b, c, d of processChunk *)
Definition regs : Type := (N * N * N * N)%type.

Definition rA : N := 0.
Definition rB : N := 1.
Definition rC : N := 2.
Definition rD : N := 3.

Definition get_reg (r : regs) (i : N) : N :=
  let '(a, b, c, d) := r in
  match i with 0 => a | 1 => b | 2 => c | _ => d end.

Definition set_reg (r : regs) (i : N) (v : N) : regs :=
  let '(a, b, c, d) := r in
  match i with 0 => (v, b, c, d) | 1 => (a, v, c, d) | 2 => (a, b, v, d) | _ => (a, b, c, v) end.

(* one statement  dst = fn(p, q, r, t, x[k], s)  : fn 0 = ff, 1 = gg, 2 = hh *)
Definition stmt : Type := (N * N * (N * N * N * N) * nat * N)%type.

Definition FF : N := 0.
Definition GG : N := 1.
Definition HH : N := 2.

Definition go_fn (f : N) : N -> N -> N -> N -> N -> N -> N :=
  match f with 0 => ff | 1 => gg | _ => hh end.

Definition exec_stmt (X : list N) (r : regs) (st : stmt) : regs :=
  let '(f, dst, (p, q, u, v), k, s) := st in
  set_reg r dst (go_fn f (get_reg r p) (get_reg r q) (get_reg r u) (get_reg r v) (nth k X 0) s).

Definition S_ (f dst p q u v : N) (k : nat) (s : N) : stmt := (f, dst, (p, q, u, v), k, s).

(* processChunk, statement by statement *)
Definition go_schedule : list stmt :=
  [ (* Round 1 *)
    S_ FF rA rA rB rC rD 0 3;  S_ FF rD rD rA rB rC 1 7;  S_ FF rC rC rD rA rB 2 11;  S_ FF rB rB rC rD rA 3 19;
    S_ FF rA rA rB rC rD 4 3;  S_ FF rD rD rA rB rC 5 7;  S_ FF rC rC rD rA rB 6 11;  S_ FF rB rB rC rD rA 7 19;
    S_ FF rA rA rB rC rD 8 3;  S_ FF rD rD rA rB rC 9 7;  S_ FF rC rC rD rA rB 10 11; S_ FF rB rB rC rD rA 11 19;
    S_ FF rA rA rB rC rD 12 3; S_ FF rD rD rA rB rC 13 7; S_ FF rC rC rD rA rB 14 11; S_ FF rB rB rC rD rA 15 19;
    (* Round 2 *)
    S_ GG rA rA rB rC rD 0 3;  S_ GG rD rD rA rB rC 4 5;  S_ GG rC rC rD rA rB 8 9;   S_ GG rB rB rC rD rA 12 13;
    S_ GG rA rA rB rC rD 1 3;  S_ GG rD rD rA rB rC 5 5;  S_ GG rC rC rD rA rB 9 9;   S_ GG rB rB rC rD rA 13 13;
    S_ GG rA rA rB rC rD 2 3;  S_ GG rD rD rA rB rC 6 5;  S_ GG rC rC rD rA rB 10 9;  S_ GG rB rB rC rD rA 14 13;
    S_ GG rA rA rB rC rD 3 3;  S_ GG rD rD rA rB rC 7 5;  S_ GG rC rC rD rA rB 11 9;  S_ GG rB rB rC rD rA 15 13;
    (* Round 3 *)
    S_ HH rA rA rB rC rD 0 3;  S_ HH rD rD rA rB rC 8 9;  S_ HH rC rC rD rA rB 4 11;  S_ HH rB rB rC rD rA 12 15;
    S_ HH rA rA rB rC rD 2 3;  S_ HH rD rD rA rB rC 10 9; S_ HH rC rC rD rA rB 6 11;  S_ HH rB rB rC rD rA 14 15;
    S_ HH rA rA rB rC rD 1 3;  S_ HH rD rD rA rB rC 9 9;  S_ HH rC rC rD rA rB 5 11;  S_ HH rB rB rC rD rA 13 15;
    S_ HH rA rA rB rC rD 3 3;  S_ HH rD rD rA rB rC 11 9; S_ HH rC rC rD rA rB 7 11;  S_ HH rB rB rC rD rA 15 15 ].

(* func (md4 *MD4) processChunk(chunk []byte): x[i] = LittleEndian.Uint32(chunk[i*4:]) for i < 16 (every caller
   passes exactly 64 bytes), the 48 statements, then state[i] += a|b|c|d (uint32 wrap). *)
Definition process_chunk (h : regs) (chunk : list N) : regs :=
  let X := words_le chunk in
  let '(a, b, c, d) := fold_left (exec_stmt X) go_schedule h in
  let '(h0, h1, h2, h3) := h in
  (w32 (h0 + a), w32 (h1 + b), w32 (h2 + c), w32 (h3 + d)).

(* ------------------------------------------------------------------ *)
(* type MD4 struct { state [4]uint32; count uint64; buffer [chunkSize]byte } *)
Record md4st : Type := mk_md4st { st_h : regs; st_count : N; st_buf : list N }.

(* func New() *MD4 *)
Definition md4_new : md4st :=
  mk_md4st (c01_init0, c01_init1, c01_init2, c01_init3) 0 (zeros 64).

(* copy(buf[off:], src) on a buffer: min(len(buf) - off, len(src)) bytes are overwritten *)
Definition copy_into (buf : list N) (off : nat) (src : list N) : list N :=
  let src' := firstn (length buf - off) src in
  firstn off buf ++ src' ++ skipn (off + length src') buf.

(* for ; i+chunkSize <= n; i += chunkSize { md4.processChunk(p[i : i+chunkSize]) }   on rest = p[i:];
   returns the state words and the unconsumed tail p[i:].  fuel = len(rest) suffices (64 bytes per turn). *)
Fixpoint write_blocks (fuel : nat) (h : regs) (rest : list N) : regs * list N :=
  match fuel with
  | O => (h, rest)
  | S fuel' =>
      if 64 <=? lenN rest
      then write_blocks fuel' (process_chunk h (firstn 64 rest)) (skipn 64 rest)
      else (h, rest)
  end.

(* func (md4 *MD4) Write(p []byte) (n int, err error) *)
Definition md4_write (st : md4st) (p : list N) : md4st :=
  let n := lenN p in
  (* md4.count += uint64(n) * 8 *)
  let count' := w64 (st_count st + w64 (w64 n * 8)) in
  (* buffered := int((md4.count/8 - uint64(n)) % chunkSize)     (uint64 subtraction wraps) *)
  let buffered := (w64 (count' / 8 + 2 ^ 64 - w64 n)) mod 64 in
  let remaining := 64 - buffered in
  if remaining <=? n then
    (* copy(md4.buffer[buffered:], p[:remaining]); md4.processChunk(md4.buffer[:]) *)
    let buf1 := copy_into (st_buf st) (N.to_nat buffered) (firstn (N.to_nat remaining) p) in
    let h1 := process_chunk (st_h st) buf1 in
    let rest := skipn (N.to_nat remaining) p in
    let '(h2, tail) := write_blocks (length rest) h1 rest in
    (* buffered = 0; copy(md4.buffer[buffered:], p[i:]) *)
    mk_md4st h2 count' (copy_into buf1 0 tail)
  else
    mk_md4st (st_h st) count' (copy_into (st_buf st) (N.to_nat buffered) p).

(* the 16-byte digest: binary.LittleEndian.PutUint32(digest[i*4:], s) for the four state words *)
Definition md4_digest (h : regs) : list N :=
  let '(a, b, c, d) := h in le_bytes 4 a ++ le_bytes 4 b ++ le_bytes 4 c ++ le_bytes 4 d.

(* padding[:padLen] and bits of MD4.Sum *)
Definition sum_padlen (count : N) : N :=
  let index := (count / 8) mod 64 in
  (* padLen := 56 - index (uint64, wraps); if index >= 56 { padLen += chunkSize } *)
  let padLen := w64 (56 + 2 ^ 64 - index) in
  if 56 <=? index then w64 (padLen + 64) else padLen.

Definition sum_padding (count : N) : list N :=
  firstn (N.to_nat (sum_padlen count)) (0x80 :: zeros 63).

(* The state MD4.Sum leaves in the object it pads: Write(padding[:padLen]); Write(bits[:]). *)
Definition md4_finalize (st : md4st) : md4st :=
  let bits := le_bytes 8 (st_count st) in
  md4_write (md4_write st (sum_padding (st_count st))) bits.

(* func (md4 *MD4) Sum() [16]byte — after the repair ("fix: md4.Sum pads a copy of the state") the padding is
   written to a copy, so the receiver is unchanged: the second component is st itself.
   (The unrepaired code returned md4_finalize st as the new state: see md4_sum_unrepaired.) *)
Definition md4_sum (st : md4st) : list N * md4st :=
  (md4_digest (st_h (md4_finalize st)), st).

(* the behaviour of the tree before the repair, kept for the record of the defect (Properties: C01_md4_sum_defect) *)
Definition md4_sum_unrepaired (st : md4st) : list N * md4st :=
  let st' := md4_finalize st in (md4_digest (st_h st'), st').

(* func (md4 *MD4) HexSum() string *)
Definition md4_hexsum (st : md4st) : list N * md4st :=
  let '(d, st') := md4_sum st in (hex_of_bytes false d, st').

(* func Sum(data []byte) [16]byte { h := New(); h.Write(data); return h.Sum() } *)
Definition md4_sum_data (data : list N) : list N := fst (md4_sum (md4_write md4_new data)).

(* histories: a sequence of Write(p) / Sum() / HexSum() calls on one object; the outputs of the reads in order *)
Inductive md4op : Type := OpWrite (p : list N) | OpSum | OpHexSum.

Fixpoint md4_run (st : md4st) (ops : list md4op) : list (list N) :=
  match ops with
  | [] => []
  | OpWrite p :: r => md4_run (md4_write st p) r
  | OpSum :: r => let '(d, st') := md4_sum st in d :: md4_run st' r
  | OpHexSum :: r => let '(d, st') := md4_hexsum st in d :: md4_run st' r
  end.
