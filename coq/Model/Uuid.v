(* Model of crypto/uuid/uuid.go, uuid_v1/uuid_v1.go, uuid_v2/uuid_v2.go, uuid_v8/uuid_v8.go
   (hand-written; tied by correspondence).  Definitions only.

   A generic UUID is (Version, Variant, Data[15]); the 16-byte form interleaves the two 4-bit
   fields with the 15 data bytes at nibble granularity:
     wire[0..5] = Data[0..5]
     wire[6] = Version<<4 | Data[6]>>4      wire[7] = Data[6]<<4 | Data[7]>>4
     wire[8] = Variant<<4 | Data[7]&15      wire[9..15] = Data[8..14]
   Masks and shifts of the Go text are written with land/shiftr/shiftl/lor here; the field
   arithmetic of v1/v2 (contiguous masks, disjoint ors) is written with / mod + *. *)
From Coq Require Import List NArith Lia Bool.
From Mant Require Import Prim.R Prim.Bytes Prim.Dec Prim.HexNum Prim.GoStr.
Import ListNotations.
Open Scope N_scope.

Definition byte_at (l : list N) (i : nat) : N := nth i l 0.

Definition hi4 (b : N) : N := N.shiftr (N.land b 240) 4.                          (* (b & 0xF0) >> 4 *)
Definition lo4 (b : N) : N := N.land b 15.                                        (* b & 0x0F *)
Definition pack4 (h l : N) : N := N.lor (N.shiftl (N.land h 15) 4) (N.land l 15). (* (h&0xF)<<4 | l&0xF *)
Definition join4 (h l : N) : N := N.lor (N.shiftl h 4) l.                         (* h<<4 | l, h and l already masked *)

(* func (u *UUID) Marshal() — d is the [15]byte array *)
Definition uuid_marshal (ver var : N) (d : list N) : list N :=
  let d6 := byte_at d 6 in
  let d7 := byte_at d 7 in
  firstn 6 d ++ [pack4 ver (hi4 d6); pack4 (lo4 d6) (hi4 d7); pack4 var (lo4 d7)] ++ firstn 7 (skipn 8 d).

(* func (u *UUID) Unmarshal(b) — (Version, Variant, Data); the returned count is always 16 *)
Definition uuid_unmarshal (bs : list N) : R (N * N * list N) :=
  if lenN bs <? 16 then Err else
  let m := byte_at bs in
  Ok (hi4 (m 6%nat), hi4 (m 8%nat),
      firstn 6 bs ++ [join4 (lo4 (m 6%nat)) (hi4 (m 7%nat)); join4 (lo4 (m 7%nat)) (lo4 (m 8%nat))]
      ++ firstn 7 (skipn 9 bs)).

Definition hyphen : N := 45.

(* fmt.Sprintf("%08x-%04x-%04x-%04x-%012x", BE32(m[0:4]), BE16(m[4:6]), BE16(m[6:8]), BE16(m[8:10]), m[10:16]) *)
Definition uuid_text (m : list N) : list N :=
  hex_pad 8 (be_val (firstn 4 m)) ++ [hyphen] ++
  hex_pad 4 (be_val (firstn 2 (skipn 4 m))) ++ [hyphen] ++
  hex_pad 4 (be_val (firstn 2 (skipn 6 m))) ++ [hyphen] ++
  hex_pad 4 (be_val (firstn 2 (skipn 8 m))) ++ [hyphen] ++
  hex_of_bytes false (firstn 6 (skipn 10 m)).

Definition uuid_string (ver var : N) (d : list N) : list N := uuid_text (uuid_marshal ver var d).

(* func (u *UUID) FromString(s): hyphens removed wherever they are, 32 hex digits of either case *)
Definition uuid_from_string (s : list N) : R (N * N * list N) :=
  let t := remove_byte hyphen s in
  if negb (lenN t =? 32) then Err else
  match unhex t with
  | None => Err
  | Some m => uuid_unmarshal m
  end.

(* the three version-specific FromString: ReplaceAll, length, ToLower, hex.DecodeString, FromBytes *)
Definition uuid_hex_of_string (s : list N) : R (list N) :=
  let t := remove_byte hyphen s in
  if negb (lenN t =? 32) then Err else
  match unhex (lower t) with
  | None => Err
  | Some m => Ok m
  end.

(* ---------------- version 1: (Variant, Time uint64, ClockSeq uint16, NodeID [6]byte) *)

Definition time_mid (time : N) : N := (time / 2 ^ 32) mod 2 ^ 16.    (* (Time & 0x0000FFFF00000000) >> 32 *)
Definition time_high (time : N) : N := (time / 2 ^ 48) mod 2 ^ 12.   (* (Time & 0x0FFF000000000000) >> 48 *)

Definition v1_data (time cs : N) (node : list N) : list N :=
  let th := time_high time in
  be_bytes 4 (time mod 2 ^ 32) ++ be_bytes 2 (time_mid time)
  ++ [(th / 16) mod 256;                        (* byte((timeHigh >> 4) & 0xFF) *)
      16 * (th mod 16) + (cs / 256) mod 16;     (* byte(timeHigh&0x0F)<<4 | byte((ClockSeq&0x0F00)>>8) *)
      cs mod 256]                               (* byte(ClockSeq & 0xFF) *)
  ++ node.

Definition v1_marshal (var time cs : N) (node : list N) : list N := uuid_marshal 1 var (v1_data time cs node).

Definition data_time_high (d : list N) : N := 16 * byte_at d 6 + (byte_at d 7 / 16) mod 16.
  (* uint16(Data[6])<<4 | uint16(Data[7]>>4)&0xF *)

Definition v1_unmarshal (bs : list N) : R (N * N * N * list N) :=
  if lenN bs <? 16 then Err else
  let* u := uuid_unmarshal bs in
  let '(ver, var, d) := u in
  if negb (ver =? 1) then Err else
  let tl := be_val (firstn 4 d) in
  let tm := be_val (firstn 2 (skipn 4 d)) in
  let th := data_time_high d in
  let cs := 256 * (byte_at d 7 mod 16) + byte_at d 8 in   (* uint16(Data[7]&0x0F)<<8 | uint16(Data[8]) *)
  Ok (var, th * 2 ^ 48 + tm * 2 ^ 32 + tl, cs, firstn 6 (skipn 9 d)).

Definition v1_from_bytes (bs : list N) : R (N * N * N * list N) :=
  if negb (lenN bs =? 16) then Err else v1_unmarshal bs.

Definition v1_from_string (s : list N) : R (N * N * N * list N) :=
  let* m := uuid_hex_of_string s in v1_from_bytes m.

Definition v1_string (var time cs : N) (node : list N) : list N := uuid_text (v1_marshal var time cs node).

(* SetNodeID on either version *)
Definition set_node (bs : list N) : R (list N) := if negb (lenN bs =? 6) then Err else Ok bs.

(* ---------------- version 2: (Variant, LocalDomainNumber uint32, Time uint64, Clock uint8,
                                LocalDomain uint8, NodeID [6]byte) *)

Definition v2_data (ldn time clock ld : N) (node : list N) : list N :=
  let th := time_high time in
  be_bytes 4 ldn ++ be_bytes 2 (time_mid time)
  ++ [(th / 16) mod 256;
      16 * (th mod 16) + clock mod 16;          (* byte(timeHigh&0x0F)<<4 | byte(Clock&0x0F) *)
      ld]
  ++ node.

Definition v2_marshal (var ldn time clock ld : N) (node : list N) : list N :=
  uuid_marshal 2 var (v2_data ldn time clock ld node).

Definition v2_unmarshal (bs : list N) : R (N * N * N * N * N * list N) :=
  if lenN bs <? 16 then Err else
  let* u := uuid_unmarshal bs in
  let '(ver, var, d) := u in
  if negb (ver =? 2) then Err else
  let ldn := be_val (firstn 4 d) in
  let tm := be_val (firstn 2 (skipn 4 d)) in
  let th := data_time_high d in
  Ok (var, ldn, th * 2 ^ 48 + tm * 2 ^ 32, byte_at d 7 mod 16, byte_at d 8, firstn 6 (skipn 9 d)).

Definition v2_from_bytes (bs : list N) := if negb (lenN bs =? 16) then Err else v2_unmarshal bs.
Definition v2_from_string (s : list N) := let* m := uuid_hex_of_string s in v2_from_bytes m.
Definition v2_string (var ldn time clock ld : N) (node : list N) : list N :=
  uuid_text (v2_marshal var ldn time clock ld node).

(* ---------------- version 8: (Variant, Data [15]byte) *)

Definition v8_marshal (var : N) (d : list N) : list N := uuid_marshal 8 var d.

Definition v8_unmarshal (bs : list N) : R (N * list N) :=
  if lenN bs <? 16 then Err else
  let* u := uuid_unmarshal bs in
  let '(ver, var, d) := u in
  if negb (ver =? 8) then Err else Ok (var, d).

Definition v8_from_bytes (bs : list N) := if negb (lenN bs =? 16) then Err else v8_unmarshal bs.
Definition v8_from_string (s : list N) := let* m := uuid_hex_of_string s in v8_from_bytes m.
Definition v8_string (var : N) (d : list N) : list N := uuid_text (v8_marshal var d).

(* SetData on a zero value: copy(u.Data[:], data) *)
Definition v8_set_data (bs : list N) : list N := firstn 15 bs ++ repeatN 0 (15 - length bs).
