(* Model of crypto/ntlmv2/ntlmv2.go (NewNTLMv2 / ResponseKeyNT, Hash, HashHex, ToHashcatString) and of the
   unexported response helpers of network/smb/smb_v10/spnego/ntlm/ntlm.go (ntowfv2, createNTLMv2Blob,
   calculateNTLMv2Proof, calculateNTLMv2Response, calculateNTLMv1Response) as CreateAuthenticateMessage
   reaches them.  Hand-written; tied by the correspondence cases named ntlmv2.xxx and ntlm.auth_payloads.
   Definitions only.

   What the code reads from its environment is an INPUT of the model: the time stamp (time.Now()) and the
   client challenges (crypto/rand.Read).  The harness supplies the challenges through crypto/rand.Reader
   and recovers the time stamp from the produced blob.

   The model follows crypto/ntlmv2 after the fixes e37181b (domain as supplied in NTOWFv2), faa03c8
   (hashcat fields), 00fd7dc (AV_PAIR list in the blob), 5488e60 (1601-based time).  Parametric in the
   upper-casing function (strings.ToUpper). *)
From Coq Require Import List NArith Bool.
From Mant Require Import Prim.R Prim.Bytes Prim.Dec Prim.C02Text Algo.MD5 Algo.HMAC Algo.DES
  Model.Ntlmv1 Gen.ConstsC02.
Import ListNotations.
Open Scope N_scope.

(* a Go [8]byte argument built from a slice by copy(a[:], b) (what the harness does) *)
Definition arr8 (b : list N) : list N := firstn 8 (b ++ repeatN 0 8).

Section Upper.
Variable upper : list N -> list N.   (* strings.ToUpper *)

(* ================= crypto/ntlmv2 ================= *)

(* NewNTLMv2(...).ResponseKeyNT — the length checks on the [8]byte parameters are dead code *)
Definition new_ntlmv2_key (domain user password : list N) : list N :=
  hmac_md5 (nt_hash password) (go_utf16le (upper user ++ domain)).

(* the blob of Hash; ts = time.Now().UnixNano()/100 + 116444736000000000 converted to uint64 *)
Definition ntlmv2_blob (domain cc : list N) (ts : N) : R (list N) :=
  let db := go_utf16le domain in
  if 65535 <? lenN db then Err else
  Ok ([1; 1; 0; 0; 0; 0; 0; 0] ++ le64 (wrap64 ts) ++ cc ++ repeatN 0 4
      ++ ([2; 0] (* MsvAvNbDomainName *) ++ le16 (wrap16 (lenN db))) ++ db
      ++ repeatN 0 4                                  (* MsvAvEOL *)
      ++ repeatN 0 4).

(* Hash recomputes the key from the (exported) fields; sc and cc are [8]byte *)
Definition ntlmv2_hash (domain user password sc cc : list N) (ts : N) : R (list N) :=
  let v2 := hmac_md5 (nt_hash password) (go_utf16le (upper user ++ domain)) in
  let* blob := ntlmv2_blob domain cc ts in
  Ok (hmac_md5 v2 (sc ++ blob) ++ blob).

Definition ntlmv2_hash_hex (domain user password sc cc : list N) (ts : N) : R (list N) :=
  let* r := ntlmv2_hash domain user password sc cc ts in Ok (hex_of_bytes false r).

(* fmt.Sprintf("%s::%s:%s:%s:%s", user, domain, hex(sc), hex(response[:16]), hex(response[16:])) *)
Definition to_hashcat (domain user password sc cc : list N) (ts : N) : R (list N) :=
  let* r := ntlmv2_hash domain user password sc cc ts in
  let* proof := go_upto r 16 in
  let* blob := go_from r 16 in
  Ok (user ++ [58; 58] ++ domain ++ [58] ++ hex_of_bytes false sc ++ [58]
      ++ hex_of_bytes false proof ++ [58] ++ hex_of_bytes false blob).

(* ================= spnego/ntlm helpers ================= *)

(* ntowfv2: here BOTH names are upper-cased (the AUTHENTICATE message carries the upper-cased domain) *)
Definition ssp_ntowfv2 (user password domain : list N) : list N :=
  hmac_md5 (nt_hash password) (go_utf16le (upper user ++ upper domain)).

(* createNTLMv2Blob; ts = (time.Now().Unix() + 11644473600) * 10000000 converted to uint64 *)
Definition ssp_blob (cc ti : list N) (ts : N) : list N :=
  [1; 1] ++ [0; 0; 0; 0; 0; 0] ++ le64 (wrap64 ts) ++ cc ++ [0; 0; 0; 0] ++ ti ++ [0; 0; 0; 0].

Definition ssp_proof (key sc blob : list N) : list N := hmac_md5 key (sc ++ blob).

(* calculateNTLMv2Response: (lmResponse, ntResponse) *)
Definition ssp_v2_response (sc ti user password domain cc lmcc : list N) (ts : N) : list N * list N :=
  let key := ssp_ntowfv2 user password domain in
  let blob := ssp_blob cc ti ts in
  let nt := ssp_proof key sc blob ++ blob in
  let lm := ssp_proof key sc lmcc ++ lmcc in
  (lm, nt).

(* calculateNTLMv1Response: NewNTLMv1WithPassword("", "", password, challenge), LMResponse, NTResponse *)
Definition ssp_v1_response (sc password : list N) : R (list N * list N) :=
  let* (nth, pw, c) := new_with_password password sc in
  let* lm := lm_response upper pw c in
  let* nt := nt_response nth c in
  Ok (lm, nt).

Definition has_flag (flags f : N) : bool := negb (N.land flags f =? 0).

(* The Lm/Nt payloads of CreateAuthenticateMessage, and whether a message is produced at all (every payload
   field must fit a 16-bit length since 6a5363b).  sc is challenge.ServerChallenge[:] (8 bytes). *)
Definition auth_payloads (flags : N) (sc ti user password domain ws cc lmcc : list N) (ts : N)
  : R (list N * list N) :=
  let unicode := has_flag flags c02_f_unicode in
  let enc (s : list N) := if unicode then go_utf16le s else s in
  let db := enc (upper domain) in
  let ub := enc user in
  let wb := enc (upper ws) in
  let* (lm, nt) :=
    (if has_flag flags c02_f_ess
     then Ok (ssp_v2_response sc ti user password domain cc lmcc ts)
     else ssp_v1_response sc password) in
  if (65535 <? lenN lm) || (65535 <? lenN nt) || (65535 <? lenN db) || (65535 <? lenN ub) || (65535 <? lenN wb)
  then Err else Ok (lm, nt).

End Upper.
