(* Dispatch table of the reference algorithm library (Algo/*.v): harness entry names -> Gallina.
   Argument-shape checks (key sizes) mirror what the Go constructors reject with an error. *)
From Coq Require Import List NArith ZArith String Bool.
From Mant Require Import Prim.R Prim.Val Prim.Bytes Model.DispUtil.
From Mant Require Import Algo.Word Algo.MD4 Algo.MD5 Algo.SHA1 Algo.SHA256 Algo.HMAC Algo.PBKDF2
  Algo.DES Algo.AES Algo.RC4 Algo.CMAC Algo.Base64 Algo.Utf16 Algo.Utf8.
Import ListNotations.
Open Scope string_scope.

Definition len_is (l : list N) (n : nat) : bool := Nat.eqb (List.length l) n.
Definition v_cps (cps : list N) : val := VL (map vN cps).
Definition cps_of (l : list val) : list N := map n_of_val l.

(* one byte-string argument *)
Definition dispatch_ALGO1 (f : string) (a : list N) : val :=
  if f =? "algo.md4" then VB (md4 a)
  else if f =? "algo.md5" then VB (md5 a)
  else if f =? "algo.sha1" then VB (sha1 a)
  else if f =? "algo.sha256" then VB (sha256 a)
  else if f =? "algo.str_to_key" then VB (str_to_key a)
  else if f =? "algo.b64enc" then VB (b64_encode a)
  else if f =? "algo.b64dec" then o_val VB (b64_decode a)
  else if f =? "algo.utf16le_dec" then v_cps (utf16le_decode a)
  else if f =? "algo.utf8_dec" then o_val v_cps (utf8_decode a)
  else vunknown.

(* key + data *)
Definition dispatch_ALGO2 (f : string) (k d : list N) : val :=
  if f =? "algo.hmac_md5" then VB (hmac_md5 k d)
  else if f =? "algo.hmac_sha1" then VB (hmac_sha1 k d)
  else if f =? "algo.hmac_sha256" then VB (hmac_sha256 k d)
  else if f =? "algo.des_enc" then if len_is k 8 then VB (des_encrypt k d) else VErr
  else if f =? "algo.des_dec" then if len_is k 8 then VB (des_decrypt k d) else VErr
  else if f =? "algo.aes128_enc" then if len_is k 16 then VB (aes128_encrypt k d) else VErr
  else if f =? "algo.aes128_dec" then if len_is k 16 then VB (aes128_decrypt k d) else VErr
  else if f =? "algo.aes192_enc" then if len_is k 24 then VB (aes_encrypt k d) else VErr
  else if f =? "algo.aes192_dec" then if len_is k 24 then VB (aes_decrypt k d) else VErr
  else if f =? "algo.aes256_enc" then if len_is k 32 then VB (aes256_encrypt k d) else VErr
  else if f =? "algo.aes256_dec" then if len_is k 32 then VB (aes256_decrypt k d) else VErr
  else if f =? "algo.rc4" then
    if Nat.leb 1 (List.length k) && Nat.leb (List.length k) 256 then VB (rc4 k d) else VErr
  else if f =? "algo.cmac_aes128" then if len_is k 16 then VB (cmac_aes k d) else VErr
  else if f =? "algo.cmac_aes256" then if len_is k 32 then VB (cmac_aes k d) else VErr
  else if f =? "algo.cmac_des" then if len_is k 8 then VB (cmac_des k d) else VErr
  else vunknown.

Definition dispatch_ALGO (f : string) (args : list val) : val :=
  match args with
  | [VB a] => dispatch_ALGO1 f a
  | [VB k; VB d] => dispatch_ALGO2 f k d
  | [VB k; VB iv; VB d] =>
      if f =? "algo.aes256_cbc_enc" then if len_is k 32 then VB (aes_cbc_encrypt k iv d) else VErr
      else if f =? "algo.aes256_cbc_dec" then if len_is k 32 then VB (aes_cbc_decrypt k iv d) else VErr
      else vunknown
  | [VB p; VB s; VN c; VN l] =>
      if f =? "algo.pbkdf2_sha1" then VB (pbkdf2_hmac_sha1_fast p s (Z.to_N c) (Z.to_nat l))
      else if f =? "algo.pbkdf2_sha256" then VB (pbkdf2_hmac_sha256 p s (Z.to_N c) (Z.to_nat l))
      else vunknown
  | [VL cps] =>
      if f =? "algo.utf16le_enc" then VB (utf16le_encode (cps_of cps))
      else if f =? "algo.utf8_enc" then VB (utf8_encode (cps_of cps))
      else vunknown
  | _ => vunknown
  end.
