(* Model of network/ldap/utils.go GetDomainFromDistinguishedName. *)
From Coq Require Import List NArith Lia Bool.
From Mant Require Import Prim.R Prim.Bytes.
Import ListNotations.
Open Scope N_scope.

Definition comma : N := 44.
Definition backslash : N := 92.
Definition dot : N := 46.

(* The scanning loop: [esc] is "the previous byte was an unescaped backslash" (the i++). *)
Fixpoint split_go (esc : bool) (s cur : list N) : list (list N) :=
  match s with
  | [] => [cur]
  | c :: s' =>
      if esc then split_go false s' (cur ++ [c])
      else if c =? backslash then split_go true s' (cur ++ [c])
      else if c =? comma then cur :: split_go false s' []
      else split_go false s' (cur ++ [c])
  end.

Fixpoint has_prefix (p s : list N) : bool :=
  match p, s with
  | [], _ => true
  | a :: p', b :: s' => (a =? b) && has_prefix p' s'
  | _ :: _, [] => false
  end.

Definition dc_prefix : list N := [68; 67; 61]. (* "DC=" *)

Definition trim_suffix_dot (s : list N) : list N :=
  match rev s with
  | c :: r => if c =? dot then rev r else s
  | [] => s
  end.

Definition domain_of_dn (dn : list N) : list N :=
  let parts := split_go false dn [] in
  let acc := flat_map (fun p => if has_prefix dc_prefix p then skipn 3 p ++ [dot] else []) parts in
  trim_suffix_dot acc.
