(* Text handling used by the password-hash functions: Manticore's utils/encoding/utf16 (EncodeUTF16LE,
   DecodeUTF16LE) and the Go standard-library pieces they and crypto/{nt,lm,dcc,dcc2} call
   ([]rune(string), string([]rune), unicode/utf16.Encode/Decode, strings.ToLower/ToUpper).
   Go strings are byte lists; runes, UTF-16 code units and bytes are N.  Definitions only.

   Standard-library behaviour is MODELLED (and tied by correspondence, including on malformed UTF-8 / UTF-16):
   - go_runes            = []rune(s): UTF-8 decoding where every byte that does not start a valid sequence
                           (RFC 3629 section 4) yields U+FFFD and is skipped alone;
   - Algo.Utf16.utf16_encode / utf16_decode = unicode/utf16.Encode / Decode (non-scalar -> U+FFFD);
   - Algo.Utf8.utf8_encode = string([]rune) (non-scalar -> EF BF BD);
   - go_to_lower / go_to_upper = strings.ToLower / ToUpper: byte map on all-ASCII strings, otherwise
     strings.Map(unicode.ToLower|ToUpper) = re-encoding of the mapped runes.  The rune mapping is a parameter
     (lower_cp / upper_cp); the executable instance uses the dumped tables of Model/C01CaseTable.v. *)
From Coq Require Import List NArith Bool.
From Mant Require Import Prim.R Prim.Bytes Prim.Dec Algo.Utf16 Algo.Utf8 Model.C01CaseTable.
Import ListNotations.
Open Scope N_scope.

(* []rune(s)   (the fallback `replacement_char :: go_runes r` is repeated in every branch rather than let-bound:
   a let would be evaluated eagerly by the extracted OCaml code) *)
Fixpoint go_runes (l : list N) {struct l} : list N :=
  match l with
  | [] => []
  | b0 :: r =>
      if b0 <? 0x80 then b0 :: go_runes r
      else if in_range 0xC2 0xDF b0 then
        match r with
        | b1 :: r1 =>
            if utf8_tail b1 then ((b0 - 0xC0) * 64 + (b1 - 0x80)) :: go_runes r1 else replacement_char :: go_runes r
        | _ => replacement_char :: go_runes r
        end
      else if in_range 0xE0 0xEF b0 then
        match r with
        | b1 :: b2 :: r2 =>
            let lo := if b0 =? 0xE0 then 0xA0 else 0x80 in
            let hi := if b0 =? 0xED then 0x9F else 0xBF in
            if in_range lo hi b1 && utf8_tail b2
            then ((b0 - 0xE0) * 4096 + (b1 - 0x80) * 64 + (b2 - 0x80)) :: go_runes r2
            else replacement_char :: go_runes r
        | _ => replacement_char :: go_runes r
        end
      else if in_range 0xF0 0xF4 b0 then
        match r with
        | b1 :: b2 :: b3 :: r3 =>
            let lo := if b0 =? 0xF0 then 0x90 else 0x80 in
            let hi := if b0 =? 0xF4 then 0x8F else 0xBF in
            if in_range lo hi b1 && utf8_tail b2 && utf8_tail b3
            then ((b0 - 0xF0) * 262144 + (b1 - 0x80) * 4096 + (b2 - 0x80) * 64 + (b3 - 0x80)) :: go_runes r3
            else replacement_char :: go_runes r
        | _ => replacement_char :: go_runes r
        end
      else replacement_char :: go_runes r
  end.

(* ------------------------------------------------------------------ *)
(* rune case mapping from a run-length table (Model/C01CaseTable.v) *)
Fixpoint case_lookup (t : list (N * N * N * N * N)) (c : N) : N :=
  match t with
  | [] => c
  | (lo, hi, stride, add, sub) :: t' =>
      if (lo <=? c) && (c <=? hi) && ((c - lo) mod stride =? 0) then c + add - sub
      else case_lookup t' c
  end.

Definition go_lower_cp (c : N) : N := case_lookup c01_lower_table c.   (* unicode.ToLower *)
Definition go_upper_cp (c : N) : N := case_lookup c01_upper_table c.   (* unicode.ToUpper *)

Definition is_ascii_str (s : list N) : bool := forallb (fun b => b <? 0x80) s.

(* strings.ToLower / strings.ToUpper, parametric in the rune mapping *)
Definition go_to_lower (lower_cp : N -> N) (s : list N) : list N :=
  if is_ascii_str s then map to_lower s else utf8_encode (map lower_cp (go_runes s)).
Definition go_to_upper (upper_cp : N -> N) (s : list N) : list N :=
  if is_ascii_str s then map to_upper s else utf8_encode (map upper_cp (go_runes s)).

(* ------------------------------------------------------------------ *)
(* func EncodeUTF16LE(s string) []byte:
     utf16le := utf16.Encode([]rune(s)); bytes[i*2] = byte(r); bytes[i*2+1] = byte(r >> 8) *)
Definition go_unit_bytes (u : N) : list N := [wrap8 u; wrap8 (N.shiftr u 8)].
Definition encode_utf16le (s : list N) : list N :=
  flat_map go_unit_bytes (utf16_encode (go_runes s)).

(* func DecodeUTF16LE(b []byte) string  (after "fix: DecodeUTF16LE ignores a trailing odd byte"):
     utf16le := make([]uint16, len(b)/2)
     for i := 0; i+1 < len(b); i += 2 { utf16le[i/2] = uint16(b[i]) | (uint16(b[i+1]) << 8) }
     return string(utf16.Decode(utf16le)) *)
Fixpoint go_units_le (b : list N) : list N :=
  match b with
  | b0 :: b1 :: r => N.lor b0 (N.shiftl b1 8) :: go_units_le r
  | _ => []
  end.
Definition decode_utf16le (b : list N) : R (list N) :=
  Ok (utf8_encode (utf16_decode (go_units_le b))).

(* the unrepaired loop `for i := 0; i < len(b); i += 2` indexes b[i+1] past the end when len(b) is odd *)
Definition decode_utf16le_unrepaired (b : list N) : R (list N) :=
  if N.odd (lenN b) then Panic else decode_utf16le b.
