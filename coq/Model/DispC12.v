From Coq Require Import List NArith ZArith String.
From Mant Require Import Prim.R Prim.Bytes Prim.Val Model.DispUtil.
From Mant Require Import Algo.Word Algo.AES Algo.DES.
From Mant Require Import Model.Rc4Go Model.CmacGo Model.Pkcs7 Model.Gppp.
Import ListNotations.
Open Scope string_scope.

(* ---- rc4.run: key, then a list of operations on the one cipher object
     (0 data)       XORKeyStream(data, data) in place            -> the bytes
     (1)            Reset()                                      -> ()
     (2 data dlen)  XORKeyStream(make([]byte, dlen), data)       -> the whole dst (panic if dlen < len data)
   result: (outputs, (s, i, j, Key)) *)
Fixpoint rc4_run (st : rc4st) (ops : list val) (acc : list val) : R (list val * rc4st) :=
  match ops with
  | [] => Ok (rev acc, st)
  | VL [VN 0%Z; VB data] :: r =>
      let '(out, st') := rc4go_xks st data in rc4_run st' r (VB out :: acc)
  | VL [VN 1%Z] :: r => rc4_run (rc4go_reset st) r (VL [] :: acc)
  | VL [VN 2%Z; VB data; VN dlen] :: r =>
      match rc4go_xks_dst st (repeatN 0%N (Z.to_nat dlen)) data with
      | Ok (out, st') => rc4_run st' r (VB out :: acc)
      | Err => Err
      | Panic => Panic
      end
  | _ => Err
  end.

Definition v_rc4st (st : rc4st) : val := VL [VB (st_s st); vN (st_i st); vN (st_j st); VB (st_key st)].

(* ---- cmac.run: cipher kind, key, block size of the fake cipher, operations
     kind 0 AES (16/24/32-byte key)  1 DES  2 two- or three-key triple DES (24-byte key)
     kind 3 a fake cipher of block size bs whose Encrypt adds 1 to every byte
     (0 data) Write -> n   (1 in) Sum -> bytes   (2) Reset -> ()   (3) Size -> n   (4) BlockSize -> n
   result: (outputs, (k1, k2, ci, digest, p)) *)
Definition tdes (key : list N) : list N -> list N :=
  let k1 := des_subkeys (firstn 8 key) in
  let k2 := rev (des_subkeys (firstn 8 (skipn 8 key))) in
  let k3 := des_subkeys (firstn 8 (skipn 16 key)) in
  fun b => des_crypt k3 (des_crypt k2 (des_crypt k1 b)).

Definition cmac_cipher (kind : Z) (key : list N) (bs : Z) : (list N -> list N) * nat :=
  match kind with
  | 0%Z => (aes_cipher (aes_round_keys key), 16%nat)
  | 1%Z => (des_crypt (des_subkeys key), 8%nat)
  | 2%Z => (tdes key, 8%nat)
  | _ => (map (fun b => ((b + 1) mod 256)%N), Z.to_nat bs)
  end.

Fixpoint cmac_run (E : list N -> list N) (d : cmst) (ops : list val) (acc : list val) : R (list val * cmst) :=
  match ops with
  | [] => Ok (rev acc, d)
  | VL [VN 0%Z; VB data] :: r => cmac_run E (cm_write E d data) r (vN (lenN data) :: acc)
  | VL [VN 1%Z; VB inp] :: r => let '(out, d') := cm_sum E d inp in cmac_run E d' r (VB out :: acc)
  | VL [VN 2%Z] :: r => cmac_run E (cm_reset d) r (VL [] :: acc)
  | VL [VN 3%Z] :: r => cmac_run E d r (vN (cm_size d) :: acc)
  | VL [VN 4%Z] :: r => cmac_run E d r (vN (cm_blocksize d) :: acc)
  | _ => Err
  end.

Definition v_cmst (d : cmst) : val :=
  VL [VB (cm_k1 d); VB (cm_k2 d); VB (cm_ci d); VB (cm_digest d); vnat (cm_p d)].

Definition dispatch_C12 (f : string) (args : list val) : val :=
  match args with
  | [] => if f =? "rc4.new_empty" then r_val v_rc4st rc4go_new_empty else vunknown
  | [VB b] =>
      if f =? "pkcs7.unpad" then r_bytes (pkcs7_unpad b)
      else if f =? "gppp.encrypt" then r_bytes (gppp_encrypt b)
      else if f =? "gppp.decrypt_b64" then r_bytes (gppp_decrypt_b64 b)
      else if f =? "gppp.decrypt_bytes" then r_bytes (gppp_decrypt_bytes b)
      else if f =? "gppp.runes" then VL (map vN (go_runes b))
      else if f =? "gppp.enc_utf16le" then VB (enc_utf16le_go b)
      else if f =? "gppp.dec_utf16le" then r_bytes (dec_utf16le_go b)
      else vunknown
  | [VB b; VN bs] =>
      if f =? "pkcs7.pad" then r_bytes (pkcs7_pad b (Z.to_N bs)) else vunknown
  | [VB key; VL ops] =>
      if f =? "rc4.run" then
        match rc4go_new key with
        | Ok st => r_val (fun p => VL [VL (fst p); v_rc4st (snd p)]) (rc4_run st ops [])
        | Err => VErr
        | Panic => VPanic
        end
      else vunknown
  | [VB key; VB arena; VN doff; VN dlen; VN soff; VN slen] =>
      if f =? "rc4.arena" then
        match rc4go_new key with
        | Ok st => r_val (fun p => VL [VB (fst p); v_rc4st (snd p)])
                     (rc4go_xks_arena st arena (Z.to_N doff) (Z.to_N dlen) (Z.to_N soff) (Z.to_N slen))
        | Err => VErr
        | Panic => VPanic
        end
      else vunknown
  | [VN kind; VB key; VN bs; VL ops] =>
      if f =? "cmac.run" then
        let '(E, n) := cmac_cipher kind key bs in
        match cm_new E n with
        | Ok d => r_val (fun p => VL [VL (fst p); v_cmst (snd p)]) (cmac_run E d ops [])
        | Err => VErr
        | Panic => VPanic
        end
      else vunknown
  | _ => vunknown
  end.
