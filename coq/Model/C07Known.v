(* C07: the SMB command structures whose Unmarshal the guard analysis (Model/SmbSafe.v) cannot prove
   total on the current tree.  This is a coverage limit of the translator / the description language
   (statements go2coq reports as opaque, nested types the interpreter does not model), NOT a list of
   defects: these structures are driven by the Go-side malformed stream only.  (OpenAndxRequest is translated; its
   Reserved [2]USHORT is read as 4 bytes behind a 2-byte guard, inside the capacity of the parameter stream: no panic
   is reachable, the analysis cannot know that, and the read past the length is recorded as a C04 static finding.)  A structure that is
   provable today and stops being so is a broken obligation (Properties/C07.v: C07_smb_commands_cover). *)
From Coq Require Import List String.
Import ListNotations.
Open Scope string_scope.

Definition c07_unproved : list string :=
  [ "FindResponse"; "FindUniqueResponse"; "LockingAndxRequest"; 
    "NegotiateResponse"; "OpenAndxRequest"; 
    "SessionSetupAndxRequest"; "SessionSetupAndxResponse"; "SetInformationRequest";
    "WriteRequest" ].
