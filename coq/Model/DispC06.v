From Coq Require Import List NArith ZArith String.
From Mant Require Import Prim.R Prim.Bytes Prim.Val Model.DispUtil Model.SmbTypes Model.SmbBlocks.
Import ListNotations.
Open Scope string_scope.

Definition nth_val (l : list val) (i : nat) : val := nth i l VErr.
Definition vNs (l : list N) : val := VL (map vN l).
Definition ns_of_val (v : val) : list N := map n_of_val (l_of_val v).

(* copy(array[:], bytes): pads with zeros / truncates to the array size *)
Definition fit (n : nat) (l : list N) : list N := firstn n (l ++ repeatN 0%N n).

Definition ss_of_val (v : val) : smb_string :=
  let l := l_of_val v in mk_ss (n_of_val (nth_val l 0)) (n_of_val (nth_val l 1)) (b_of_val (nth_val l 2)).
Definition val_of_ss (s : smb_string) : val := VL [vN (ss_fmt s); vN (ss_len s); VB (ss_buf s)].

Definition date_of_val (v : val) : smb_date :=
  let l := l_of_val v in mk_date (n_of_val (nth_val l 0)) (n_of_val (nth_val l 1)) (n_of_val (nth_val l 2)).
Definition val_of_date (d : smb_date) : val := VL [vN (d_year d); vN (d_month d); vN (d_day d)].

Definition ft_of_val (v : val) : N * N :=
  let l := l_of_val v in (n_of_val (nth_val l 0), n_of_val (nth_val l 1)).
Definition val_of_ft (t : N * N) : val := VL [vN (fst t); vN (snd t)].

Definition rk_of_val (v : val) : resume_key :=
  let l := l_of_val v in
  mk_rk (ss_of_val (nth_val l 0)) (n_of_val (nth_val l 1))
        (fit 16 (b_of_val (nth_val l 2))) (fit 4 (b_of_val (nth_val l 3))).
Definition val_of_rk (r : resume_key) : val :=
  VL [val_of_ss (rk_str r); vN (rk_reserved r); VB (fit 16 (rk_server r)); VB (fit 4 (rk_client r))].

Definition di_of_val (v : val) : dir_info :=
  let l := l_of_val v in
  mk_di (rk_of_val (nth_val l 0)) (n_of_val (nth_val l 1)) (ft_of_val (nth_val l 2))
        (date_of_val (nth_val l 3)) (n_of_val (nth_val l 4)) (ss_of_val (nth_val l 5)).
Definition val_of_di (d : dir_info) : val :=
  VL [val_of_rk (di_rk d); vN (di_attr d); val_of_ft (di_time d); val_of_date (di_date d);
      vN (di_size d); val_of_ss (di_name d)].

Definition with_n {A} (f : A -> val) (p : A * N) : val := VL [f (fst p); vN (snd p)].
Definition with_b {A} (f : A -> val) (p : list N * A) : val := VL [VB (fst p); f (snd p)].

(* NTLM version: (major minor build reserved[3] revision) <-> the seven layout values *)
Definition version_of_val (v : val) : list N :=
  let l := l_of_val v in
  let r := fit 3 (b_of_val (nth_val l 3)) in
  [n_of_val (nth_val l 0); n_of_val (nth_val l 1); n_of_val (nth_val l 2);
   nth 0 r 0%N; nth 1 r 0%N; nth 2 r 0%N; n_of_val (nth_val l 4)].
Definition val_of_version (vs : list N) : val :=
  VL [vN (fv vs 0); vN (fv vs 1); vN (fv vs 2); VB [fv vs 3; fv vs 4; fv vs 5]; vN (fv vs 6)].

Definition params_of_val (v : val) : params :=
  let l := l_of_val v in mk_params (n_of_val (nth_val l 0)) (ns_of_val (nth_val l 1)).
Definition val_of_params (p : params) : val := VL [vN (p_wc p); vNs (p_words p)].
Definition data_of_val (v : val) : datablk :=
  let l := l_of_val v in mk_data (n_of_val (nth_val l 0)) (b_of_val (nth_val l 1)).
Definition val_of_data (d : datablk) : val := VL [vN (d_bc d); VB (d_bytes d)].

Definition params_op (p : params) (op : val) : params :=
  let l := l_of_val op in
  match n_of_val (nth_val l 0) with
  | 0%N => params_add_word p (n_of_val (nth_val l 1))
  | _ => params_add_stream p (b_of_val (nth_val l 1))
  end.
Definition data_op (d : datablk) (op : val) : datablk :=
  let l := l_of_val op in
  match n_of_val (nth_val l 0) with
  | 0%N => data_add d (b_of_val (nth_val l 1))
  | _ => data_set d (b_of_val (nth_val l 1))
  end.

Definition dispatch_C06 (f : string) (args : list val) : val :=
  match args with
  | [a] =>
      let b := b_of_val a in
      if f =? "c06.string.marshal" then r_val (with_b val_of_ss) (smb_string_marshal (ss_of_val a))
      else if f =? "c06.string.unmarshal" then r_val (with_n val_of_ss) (smb_string_unmarshal b)
      else if f =? "c06.oem.marshal" then r_val (with_b val_of_ss) (oem_marshal (ss_of_val a))
      else if f =? "c06.oem.unmarshal" then r_val (with_n val_of_ss) (oem_unmarshal b)
      else if f =? "c06.date.marshal" then VB (date_marshal (date_of_val a))
      else if f =? "c06.date.unmarshal" then r_val (with_n val_of_date) (date_unmarshal b)
      else if f =? "c06.filetime.marshal" then VB (filetime_marshal (ft_of_val a))
      else if f =? "c06.filetime.unmarshal" then r_val (with_n val_of_ft) (filetime_unmarshal b)
      else if f =? "c06.range32.marshal" then VB (range32_marshal (ns_of_val a))
      else if f =? "c06.range32.unmarshal" then r_val (with_n vNs) (range32_unmarshal b)
      else if f =? "c06.range64.marshal" then VB (range64_marshal (ns_of_val a))
      else if f =? "c06.range64.unmarshal" then r_val (with_n vNs) (range64_unmarshal b)
      else if f =? "c06.nmpipe.marshal" then VB (nmpipe_marshal (ns_of_val a))
      else if f =? "c06.nmpipe.unmarshal" then r_val (with_n vNs) (nmpipe_unmarshal b)
      else if f =? "c06.resumekey.marshal" then r_val (with_b val_of_rk) (resume_key_marshal (rk_of_val a))
      else if f =? "c06.resumekey.unmarshal" then r_val (with_n val_of_rk) (resume_key_unmarshal b)
      else if f =? "c06.dirinfo.marshal" then r_val (with_b val_of_di) (dir_info_marshal (di_of_val a))
      else if f =? "c06.dirinfo.unmarshal" then r_val (with_n val_of_di) (dir_info_unmarshal b)
      else if f =? "c06.fileattr.marshal" then VB (fileattr_marshal (n_of_val a))
      else if f =? "c06.fileattr.unmarshal" then r_val (with_n vN) (fileattr_unmarshal b)
      else if f =? "c06.andx.marshal" then VB (andx_marshal (ns_of_val a))
      else if f =? "c06.andx.unmarshal" then r_val (with_n vNs) (andx_unmarshal b)
      else if f =? "c06.andx.words" then vNs (andx_words (ns_of_val a))
      else if f =? "c06.version.marshal" then VB (version_marshal (version_of_val a))
      else if f =? "c06.version.unmarshal" then r_val (with_n val_of_version) (version_unmarshal b)
      else if f =? "c06.params.ops" then
        let p := fold_left params_op (l_of_val a) params_new in
        VL [vN (p_wc p); vNs (p_words p); r_bytes (params_marshal p); VB (params_get_bytes p); vN (params_size p)]
      else if f =? "c06.params.marshal" then r_bytes (params_marshal (params_of_val a))
      else if f =? "c06.params.unmarshal" then r_val (with_n val_of_params) (params_unmarshal b)
      else if f =? "c06.data.ops" then
        let d := fold_left data_op (l_of_val a) data_new in
        VL [vN (d_bc d); VB (data_get_bytes d); VB (data_marshal d); vN (data_size d)]
      else if f =? "c06.data.marshal" then VB (data_marshal (data_of_val a))
      else if f =? "c06.data.unmarshal" then r_val (with_n val_of_data) (data_unmarshal b)
      else vunknown
  | _ => vunknown
  end.
