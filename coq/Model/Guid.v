(* Model of windows/guid/Guid.go (and its alias windows/ms_dtyp/common/data_structures/GUID.go),
   hand-written, tied by correspondence.  Definitions only.
   The model follows the repaired code: FromRawBytes returns an error on fewer than 16 bytes,
   FromFormatB/P reject strings shorter than two bytes, FromFormatX builds D from the first two
   bytes of the inner group and E from the other six. *)
From Coq Require Import List NArith Lia Bool.
From Mant Require Import Prim.R Prim.Bytes Prim.Dec Prim.HexNum Prim.GoStr.
Import ListNotations.
Open Scope N_scope.

(* A uint32, B C D uint16, E uint64 (only 48 bits are ever written by ToBytes) *)
Record guid : Type := mkGuid { gA : N; gB : N; gC : N; gD : N; gE : N }.

(* func (guid *GUID) FromRawBytes(data) error *)
Definition guid_from_raw (bs : list N) : R guid :=
  if lenN bs <? 16 then Err else
  Ok (mkGuid (le_val (firstn 4 bs))                  (* data[0] | data[1]<<8 | data[2]<<16 | data[3]<<24 *)
             (le_val (firstn 2 (skipn 4 bs)))
             (le_val (firstn 2 (skipn 6 bs)))
             (be_val (firstn 2 (skipn 8 bs)))        (* data[8]<<8 | data[9] *)
             (be_val (firstn 6 (skipn 10 bs)))).     (* data[10]<<40 | ... | data[15] *)

(* func (guid *GUID) ToBytes() *)
Definition guid_to_bytes (g : guid) : list N :=
  le_bytes 4 (gA g) ++ le_bytes 2 (gB g) ++ le_bytes 2 (gC g) ++ be_bytes 2 (gD g) ++ be_bytes 6 (gE g).

Definition hy : list N := [45].
Definition s0x : list N := [48; 120].          (* "0x" *)
Definition c0x : list N := [44; 48; 120].      (* ",0x" *)

Definition guid_to_n (g : guid) : list N :=
  hex_pad 8 (gA g) ++ hex_pad 4 (gB g) ++ hex_pad 4 (gC g) ++ hex_pad 4 (gD g) ++ hex_pad 12 (gE g).
Definition guid_to_d (g : guid) : list N :=
  hex_pad 8 (gA g) ++ hy ++ hex_pad 4 (gB g) ++ hy ++ hex_pad 4 (gC g) ++ hy ++ hex_pad 4 (gD g) ++ hy ++ hex_pad 12 (gE g).
Definition guid_to_b (g : guid) : list N := [123] ++ guid_to_d g ++ [125].
Definition guid_to_p (g : guid) : list N := [40] ++ guid_to_d g ++ [41].

Definition sub {A} (s : list A) (lo hi : nat) : list A := firstn (hi - lo) (skipn lo s).

Definition guid_to_x (g : guid) : list N :=
  let hd := hex_pad 4 (gD g) in
  let he := hex_pad 12 (gE g) in
  [123] ++ s0x ++ hex_pad 8 (gA g) ++ c0x ++ hex_pad 4 (gB g) ++ c0x ++ hex_pad 4 (gC g) ++ [44; 123] ++ s0x
  ++ sub hd 0 2 ++ c0x ++ sub hd 2 4
  ++ c0x ++ sub he 0 2 ++ c0x ++ sub he 2 4 ++ c0x ++ sub he 4 6 ++ c0x ++ sub he 6 8 ++ c0x ++ sub he 8 10
  ++ c0x ++ sub he 10 12 ++ [125; 125].

(* strings.ToLower(strings.TrimSpace(data)) — see Prim/GoStr.v for what is modelled *)
Definition prep (s : list N) : list N := lower (trim_space s).

Definition guid_from_n (s : list N) : R guid :=
  let d := prep s in
  if negb (lenN d =? 32) then Err else
  let* a := parse_uint_hex 32 (sub d 0 8) in
  let* b := parse_uint_hex 16 (sub d 8 12) in
  let* c := parse_uint_hex 16 (sub d 12 16) in
  let* dd := parse_uint_hex 16 (sub d 16 20) in
  let* e := parse_uint_hex 64 (sub d 20 32) in
  Ok (mkGuid a b c dd e).

(* any five '-'-separated hex numbers that fit their field: part lengths are not checked *)
Definition guid_from_d (s : list N) : R guid :=
  let d := prep s in
  match split_byte 45 d with
  | [p0; p1; p2; p3; p4] =>
      let* a := parse_uint_hex 32 p0 in
      let* b := parse_uint_hex 16 p1 in
      let* c := parse_uint_hex 16 p2 in
      let* dd := parse_uint_hex 16 p3 in
      let* e := parse_uint_hex 64 p4 in
      Ok (mkGuid a b c dd e)
  | _ => Err
  end.

Definition guid_from_enclosed (op cl : N) (s : list N) : R guid :=
  let d := prep s in
  if (lenN d <? 2) || negb (nth 0 d 0 =? op) || negb (nth (length d - 1) d 0 =? cl) then Err
  else guid_from_d (sub d 1 (length d - 1)).

Definition guid_from_b := guid_from_enclosed 123 125.   (* { } *)
Definition guid_from_p := guid_from_enclosed 40 41.     (* ( ) *)

(* the five regular expressions (FromString writes them inline, FromFormatX uses the constant) *)
Definition pat_d : list tok :=
  [THex 8; TLit hy; THex 4; TLit hy; THex 4; TLit hy; THex 4; TLit hy; THex 12].
Definition pat_n : list tok := [THex 32].
Definition pat_b : list tok := [TLit [123]] ++ pat_d ++ [TLit [125]].
Definition pat_p : list tok := [TLit [40]] ++ pat_d ++ [TLit [41]].
Definition pat_x : list tok :=
  [TLit ([123] ++ s0x); THex 8; TLit c0x; THex 4; TLit c0x; THex 4; TLit ([44; 123] ++ s0x); THex 2;
   TLit c0x; THex 2; TLit c0x; THex 2; TLit c0x; THex 2; TLit c0x; THex 2; TLit c0x; THex 2;
   TLit c0x; THex 2; TLit c0x; THex 2; TLit [125; 125]].

(* parts[i][2:] then ParseUint(…, 16, 8), accumulated most significant first *)
Fixpoint x_bytes (parts : list (list N)) (acc : N) : R N :=
  match parts with
  | [] => Ok acc
  | p :: rest =>
      let* t := go_from p 2 in
      let* v := parse_uint_hex 8 t in
      x_bytes rest (256 * acc + v)
  end.

Definition guid_from_x (s : list N) : R guid :=
  let d := prep s in
  if negb (match_pat pat_x d) then Err else
  let parts := split_byte 44 (remove_byte 125 (remove_byte 123 d)) in
  if negb (Nat.eqb (length parts) 11) then Err else
  let part i := nth i parts [] in
  let* ta := go_from (part 0%nat) 2 in
  let* a := parse_uint_hex 32 ta in
  let* tb := go_from (part 1%nat) 2 in
  let* b := parse_uint_hex 16 tb in
  let* tc := go_from (part 2%nat) 2 in
  let* c := parse_uint_hex 16 tc in
  let* dd := x_bytes (sub parts 3 5) 0 in
  let* e := x_bytes (sub parts 5 11) 0 in
  Ok (mkGuid a b c dd e).

(* func FromString(data): the first matching format decides *)
Definition guid_from_string (s : list N) : R guid :=
  let d := prep s in
  if match_pat pat_n d then guid_from_n d
  else if match_pat pat_d d then guid_from_d d
  else if match_pat pat_b d then guid_from_b d
  else if match_pat pat_p d then guid_from_p d
  else if match_pat pat_x d then guid_from_x d
  else Err.
