From Coq Require Import List NArith ZArith String Bool.
From Mant Require Import Prim.R Prim.Val Model.DispUtil Model.SmbTypes Model.SmbBlocks Model.SmbLayout Model.DispC19 Gen.SmbLayouts.
Import ListNotations.
Open Scope string_scope.

Fixpoint fval_of_val (v : val) : fval :=
  match v with
  | VN z => FInt (Z.to_N z)
  | VB b => FBytes b
  | VL l => FStruct (map fval_of_val l)
  | _ => FInt 0
  end.

Fixpoint val_of_fval (x : fval) : val :=
  match x with
  | FInt n => VN (Z.of_N n)
  | FBytes b => VB b
  | FStruct l => VL (map val_of_fval l)
  end.

Definition find_cmd (name : string) : option cmd_desc :=
  find (fun c => String.eqb (cd_name c) name) all_cmds.

Definition valuation_of (c : cmd_desc) (fields : list val) : valuation :=
  combine (map fst (cd_decl c)) (map fval_of_val fields).

Definition fields_of (c : cmd_desc) (v : valuation) : val :=
  VL (map (fun ft => match vget v (fst ft) with Some x => val_of_fval x | None => VErr end) (cd_decl c)).

(* n consecutive Marshal calls on one structure: every output, then the final field values *)
Fixpoint marshal_n (c : cmd_desc) (n : nat) (cs : cstate) (v : valuation) : list val * option valuation :=
  match n with
  | O => ([], Some v)
  | S n' =>
      match cmd_marshal c cs v with
      | Ok (bs, cs', v') => let '(outs, vf) := marshal_n c n' cs' v' in (VB bs :: outs, vf)
      | Err => ([VErr], None)
      | Panic => ([VPanic], None)
      end
  end.

Definition dispatch_C04 (f : string) (args : list val) : val :=
  match args with
  | [VB name; VL fields; VN n] =>
      if f =? "smb.marshal" then
        match find_cmd (string_of_bytes name) with
        | Some c =>
            if cd_translated c then
              let '(outs, vf) := marshal_n c (Z.to_nat n) cstate_new (valuation_of c fields) in
              VL [VL outs; match vf with Some v => fields_of c v | None => VL [] end]
            else vunknown
        | None => vunknown
        end
      else vunknown
  | [VB name; VB data] =>
      if f =? "smb.unmarshal" then
        match find_cmd (string_of_bytes name) with
        | Some c =>
            if cd_translated c then
              r_val (fields_of c) (cmd_unmarshal c (zero_valuation c) data)
            else vunknown
        | None => vunknown
        end
      else vunknown
  | _ => vunknown
  end.
