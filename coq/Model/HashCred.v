(* Model of windows/credentials/credentials.go (after the fix that trims before validating,
   see props/C20.fixed.txt).  Definitions only. *)
From Coq Require Import List NArith Bool.
From Mant Require Import Prim.R Prim.Bytes Prim.Dec Model.StrC20.
Import ListNotations.
Open Scope N_scope.

(* (?i)^([0-9a-f]{32})?(:[0-9a-f]{32})?$  — the two optional groups are tried present and absent.
   Under (?i) the class [0-9a-f] is 0-9, a-f, A-F (no other rune folds onto a..f); bytes >= 0x80
   decode to runes outside the class.  [$] without (?m) is the end of the text. *)
Definition take_hex32 (s : list N) : option (list N) :=
  if Nat.leb 32 (length s) && forallb is_hexc (firstn 32 s) then Some (skipn 32 s) else None.

Definition take_colon_hex32 (s : list N) : option (list N) :=
  match s with
  | c :: r => if c =? 58 then take_hex32 r else None
  | [] => None
  end.

Definition opt_group (take : list N -> option (list N)) (s : list N) : list (list N) :=
  match take s with Some r => [r; s] | None => [s] end.

Definition is_nil (s : list N) : bool := match s with [] => true | _ => false end.

Definition hash_re (s : list N) : bool :=
  existsb (fun r1 => existsb is_nil (opt_group take_colon_hex32 r1)) (opt_group take_hex32 s).

(* ParseLMNTHashes *)
Definition parse_lmnt (input : list N) : R (list N * list N) :=
  let s := trim_space input in
  if negb (hash_re s) then Err
  else
    let s' := if contains_byte 58 s then s else 58 :: s in
    let parts := split_on 58 s' in
    let* lm := go_index parts 0 in
    let* nt := go_index parts 1 in
    Ok (if lenN lm =? 32 then lm else [], if lenN nt =? 32 then nt else []).

(* NewCredentials and the predicates derived from the hashes *)
Record creds := Creds { c_domain : list N; c_user : list N; c_pass : list N; c_lm : list N; c_nt : list N }.

Definition new_credentials (d u p h : list N) : R creds :=
  let* hs := parse_lmnt h in Ok (Creds d u p (fst hs) (snd hs)).

Definition is_domain_identity (c : creds) : bool := negb (is_nil (c_domain c)).
Definition is_local_identity (c : creds) : bool := is_nil (c_domain c).
Definition can_pass_the_hash (c : creds) : bool := negb (is_nil (c_nt c)) && negb (is_nil (c_user c)).
