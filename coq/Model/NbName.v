(* Model of network/netbios/nbtns/name.go: Validate, FirstLevelEncode, FirstLevelDecode,
   isValidDomainName (hand-written; tied to the Go code by the correspondence check).
   Go strings are byte lists.  The constants NetBIOSNameLength (16), EncodedNameLength (32) and
   ASCII_A (0x41) come from Gen/ConstsC10.v, regenerated from the source on every run.
   Definitions only. *)
From Coq Require Import List NArith Bool.
From Mant Require Import Prim.R Prim.Bytes Gen.ConstsC10.
Import ListNotations.
Open Scope N_scope.

(* type NetBIOSName struct { Name, ScopeID string } *)
Record nbname := mk_nbname { nb_name : list N; nb_scope : list N }.

Definition is_nil {A} (l : list A) : bool := match l with [] => true | _ => false end.

Definition dot : N := 46.
Definition space : N := 32.

(* strings.Split(s, "."): always at least one part *)
Fixpoint split_dot (s : list N) : list (list N) :=
  match s with
  | [] => [[]]
  | c :: r =>
      if c =? dot then [] :: split_dot r
      else match split_dot r with
           | h :: t => (c :: h) :: t
           | [] => [[c]]
           end
  end.

(* strings.Join(parts, ".") *)
Fixpoint join_dot (parts : list (list N)) : list N :=
  match parts with
  | [] => []
  | [p] => p
  | p :: rest => p ++ dot :: join_dot rest
  end.

(* strings.SplitN(s, ".", 2): the text before the first dot and, if there is a dot, the text after it *)
Fixpoint split_first_dot (s : list N) : list N * option (list N) :=
  match s with
  | [] => ([], None)
  | c :: r =>
      if c =? dot then ([], Some r)
      else let (a, b) := split_first_dot r in (c :: a, b)
  end.

(* c >= 'a' && c <= 'z' || c >= 'A' && c <= 'Z' || c >= '0' && c <= '9' || c == '-'.
   The Go loop ranges over runes; a byte >= 0x80 yields a rune >= 0x80 (a decoded code point or
   U+FFFD), an ASCII byte yields itself, so the test is the same test on bytes. *)
Definition is_ldh (c : N) : bool :=
  ((97 <=? c) && (c <=? 122)) || ((65 <=? c) && (c <=? 90)) || ((48 <=? c) && (c <=? 57)) || (c =? 45).

Definition label_ok (part : list N) : bool :=
  negb (is_nil part) && (lenN part <=? 63) && forallb is_ldh part
  && negb (hd 0 part =? 45) && negb (last part 0 =? 45).

(* isValidDomainName *)
Definition is_valid_domain_name (name : list N) : bool :=
  negb (is_nil name) && forallb label_ok (split_dot name).

(* NetBIOSName.Validate: true = nil error *)
Definition validate (n : nbname) : bool :=
  if c10_NetBIOSNameLength <? lenN (nb_name n) then false
  else if hd 0 (nb_name n) =? 42 then false   (* strings.HasPrefix(n.Name, "*") *)
  else if negb (is_nil (nb_scope n)) then is_valid_domain_name (nb_scope n)
  else true.

(* name := make([]byte, NetBIOSNameLength); copy(name, n.Name); pad with ' ' *)
Definition pad16 (name : list N) : list N :=
  name ++ repeatN space (N.to_nat c10_NetBIOSNameLength - length name).

(* encoded[2i] = ((b >> 4) & 0x0F) + 'A' ; encoded[2i+1] = (b & 0x0F) + 'A'   (byte arithmetic, never wraps: <= 0x50) *)
Definition enc_byte (b : N) : list N :=
  [wrap8 (N.land (N.shiftr b 4) 15 + c10_ASCII_A); wrap8 (N.land b 15 + c10_ASCII_A)].

(* NetBIOSName.FirstLevelEncode *)
Definition first_level_encode (n : nbname) : R (list N) :=
  if negb (validate n) then Err
  else
    let enc := flat_map enc_byte (pad16 (nb_name n)) in
    Ok (if is_nil (nb_scope n) then enc else enc ++ dot :: nb_scope n).

(* the decoding loop over pairs of characters; the subtraction is byte arithmetic (wraps below 'A') *)
Fixpoint decode_pairs (l : list N) : R (list N) :=
  match l with
  | [] => Ok []
  | [_] => Panic (* index out of range; unreachable, the length is checked to be 32 *)
  | h :: lo :: r =>
      let high := wrap8 (h + 256 - c10_ASCII_A) in
      let low := wrap8 (lo + 256 - c10_ASCII_A) in
      if (15 <? high) || (15 <? low) then Err
      else let* r' := decode_pairs r in
           Ok (wrap8 (N.lor (wrap8 (N.shiftl high 4)) low) :: r')
  end.

(* bytes.TrimRight(b, " ") *)
Fixpoint trim_right_sp (l : list N) : list N :=
  match l with
  | [] => []
  | c :: r =>
      let r' := trim_right_sp r in
      if (c =? space) && is_nil r' then [] else c :: r'
  end.

(* FirstLevelDecode *)
Definition first_level_decode (encoded : list N) : R nbname :=
  let (enc, rest) := split_first_dot encoded in
  if negb (lenN enc =? c10_EncodedNameLength) then Err
  else
    let* decoded := decode_pairs enc in
    Ok (mk_nbname (trim_right_sp decoded) (match rest with Some s => s | None => [] end)).
