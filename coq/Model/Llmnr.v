(* Model of network/llmnr: domain_name.go, question.go, ressource_record.go, message.go
   (hand-written; tied to the Go code by the correspondence check, entry points "llmnr.*").
   Definitions only.  Go strings are byte lists; uint16/uint32 fields are N with the wrap written
   where Go converts (uint16(len(..))); offsets are Go ints (never negative here, see
   [decode_name_z] for the negative case). *)
From Coq Require Import List NArith ZArith Bool.
From Mant Require Import Prim.R Prim.Bytes Gen.ConstsC09.
Import ListNotations.
Open Scope N_scope.

Definition dot : N := 46.
(* constants regenerated from llmnr.go by go2coq on every run (Gen/ConstsC09.v) *)
Definition MaxLabelLength : N := c09_max_label_length.   (* 63 *)
Definition MaxDomainLength : N := c09_max_domain_length. (* 255 *)
Definition HeaderSize : N := c09_header_size.            (* 12 *)
Definition labelPointer : N := c09_label_pointer.        (* 0xC0 *)

(* strings.Split(s, "."): always at least one element. *)
Fixpoint split_dot (s : list N) : list (list N) :=
  match s with
  | [] => [[]]
  | c :: s' =>
      if c =? dot then [] :: split_dot s'
      else match split_dot s' with
           | l :: r => (c :: l) :: r
           | [] => [[c]]
           end
  end.

(* strings.Join(labels, ".") *)
Fixpoint join_dot (ls : list (list N)) : list N :=
  match ls with
  | [] => []
  | [l] => l
  | l :: r => l ++ dot :: join_dot r
  end.

(* ValidateDomainName: 0 = nil, 1 = ErrNameTooLong, 2 = ErrLabelTooLong *)
Definition validate_name (name : list N) : N :=
  if MaxDomainLength <? lenN name then 1
  else if forallb (fun l => lenN l <=? MaxLabelLength) (split_dot name) then 0 else 2.

(* EncodeDomainName *)
Fixpoint encode_labels (ls : list (list N)) : R (list N) :=
  match ls with
  | [] => Ok []
  | l :: r =>
      if MaxLabelLength <? lenN l then Err
      else let* t := encode_labels r in Ok (lenN l :: l ++ t)  (* byte(len(label)): len <= 63, no wrap *)
  end.

Definition encode_name (name : list N) : R (list N) :=
  match name with
  | [] => Ok [0]
  | _ => let* b := encode_labels (split_dot name) in Ok (b ++ [0])
  end.

(* DecodeDomainName.  The Go function loops over labels and calls itself on a compression
   pointer.  [dn_loop] is the loop (fuel [lf]: one unit per label, at most len(data) labels);
   [rec] is the recursive call; [dn] ties the knot with fuel [pf] (one unit per pointer followed).
   Running out of either fuel is reported as Panic; C09_pointers proves it never happens. *)
Fixpoint dn_loop (rec : N -> R (list N * N)) (data : list N) (start : N)
         (lf : nat) (curr : N) (labels : list (list N)) {struct lf} : R (list N * N) :=
  match lf with
  | O => Panic
  | S lf' =>
      if lenN data <=? curr then Err                                   (* truncated name *)
      else
        let* length := go_index data curr in
        if length =? 0 then
          match labels with
          | [] => Ok ([dot], curr + 1)                                 (* root: "." *)
          | _ => Ok (join_dot labels, curr + 1)
          end
        else if N.land length labelPointer =? labelPointer then
          if lenN data <=? curr + 1 then Err                           (* truncated pointer *)
          else
            let* tl := go_from data curr in
            let* w := go_be_uint 2 tl in
            let pointer := N.land w 16383 in                           (* & 0x3FFF *)
            if start <=? pointer then Err                              (* invalid pointer *)
            else
              let* sfx := rec pointer in
              let suffix := fst sfx in
              match labels with
              | [] => Ok (suffix, curr + 2)
              | _ =>
                  if bytes_eqb suffix [dot]                            (* pointer to the root name *)
                  then Ok (join_dot labels, curr + 2)
                  else Ok (join_dot labels ++ dot :: suffix, curr + 2)
              end
        else
          let curr1 := curr + 1 in
          if lenN data <? curr1 + length then Err                      (* ErrLabelTooLong *)
          else
            let* lab := go_slice data curr1 (curr1 + length) in
            dn_loop rec data start lf' (curr1 + length) (labels ++ [lab])
  end.

Fixpoint dn (pf : nat) (data : list N) (offset : N) {struct pf} : R (list N * N) :=
  match pf with
  | O => Panic
  | S pf' =>
      if lenN data <=? offset then Err                                 (* offset out of bounds *)
      else dn_loop (dn pf' data) data offset (S (length data)) offset []
  end.

Definition decode_name (data : list N) (offset : N) : R (list N * N) :=
  dn (S (length data)) data offset.

(* offset is a Go int: a negative one passes "offset >= len(data)" and indexes data[offset]. *)
Definition decode_name_z (data : list N) (offset : Z) : R (list N * N) :=
  if (offset <? 0)%Z then Panic else decode_name data (Z.to_N offset).

(* ---- questions ---- *)
Record question := { q_name : list N; q_type : N; q_class : N }.

Definition encode_question (q : question) : R (list N) :=
  let* nb := encode_name (q_name q) in
  Ok (nb ++ be16 (q_type q) ++ be16 (q_class q)).

Definition be16_at (data : list N) (off : N) : R N :=
  let* tl := go_from data off in go_be_uint 2 tl.
Definition be32_at (data : list N) (off : N) : R N :=
  let* tl := go_from data off in go_be_uint 4 tl.

Definition decode_question (data : list N) (offset : N) : R (question * N) :=
  let* no := decode_name data offset in
  let off := snd no in
  if lenN data <? off + 4 then Err else
  let* ty := be16_at data off in
  let* cl := be16_at data (off + 2) in
  Ok ({| q_name := fst no; q_type := ty; q_class := cl |}, off + 4).

(* ---- resource records ---- *)
Record rr := { r_name : list N; r_type : N; r_class : N; r_ttl : N; r_rdlen : N; r_data : list N }.

(* rr.RDLength is recomputed: uint16(len(rr.RData)) *)
Definition encode_rr (r : rr) : R (list N) :=
  let* nb := encode_name (r_name r) in
  Ok (nb ++ be16 (r_type r) ++ be16 (r_class r) ++ be32 (r_ttl r)
         ++ be16 (wrap16 (lenN (r_data r))) ++ r_data r).

Definition decode_rr (data : list N) (offset : N) : R (rr * N) :=
  let* no := decode_name data offset in
  let off := snd no in
  if lenN data <? off + 10 then Err else
  let* ty := be16_at data off in
  let* cl := be16_at data (off + 2) in
  let* ttl := be32_at data (off + 4) in
  let* rdl := be16_at data (off + 8) in
  let off2 := off + 10 in
  if lenN data <? off2 + rdl then Err else
  let* rd := go_slice data off2 (off2 + rdl) in
  Ok ({| r_name := fst no; r_type := ty; r_class := cl; r_ttl := ttl; r_rdlen := rdl; r_data := rd |},
      off2 + rdl).

(* ---- messages ---- *)
Record message := {
  m_id : N; m_flags : N; m_qd : N; m_an : N; m_ns : N; m_ar : N;
  m_questions : list question; m_answers : list rr; m_authority : list rr; m_additional : list rr }.

Fixpoint encode_all {A} (enc : A -> R (list N)) (l : list A) : R (list N) :=
  match l with
  | [] => Ok []
  | x :: r => let* b := enc x in let* t := encode_all enc r in Ok (b ++ t)
  end.

(* Message.Encode: the four counts are recomputed from the slices (and stored back into m). *)
Definition encode_header (m : message) : list N :=
  be16 (m_id m) ++ be16 (m_flags m)
  ++ be16 (wrap16 (lenN (m_questions m))) ++ be16 (wrap16 (lenN (m_answers m)))
  ++ be16 (wrap16 (lenN (m_authority m))) ++ be16 (wrap16 (lenN (m_additional m))).

Definition encode_message (m : message) : R (list N) :=
  let* qs := encode_all encode_question (m_questions m) in
  let* an := encode_all encode_rr (m_answers m) in
  let* ns := encode_all encode_rr (m_authority m) in
  let* ar := encode_all encode_rr (m_additional m) in
  Ok (encode_header m ++ qs ++ an ++ ns ++ ar).

(* the message as Encode leaves it: counts stored back *)
Definition with_counts (m : message) : message :=
  {| m_id := m_id m; m_flags := m_flags m;
     m_qd := wrap16 (lenN (m_questions m)); m_an := wrap16 (lenN (m_answers m));
     m_ns := wrap16 (lenN (m_authority m)); m_ar := wrap16 (lenN (m_additional m));
     m_questions := m_questions m; m_answers := m_answers m;
     m_authority := m_authority m; m_additional := m_additional m |}.

(* for i := uint16(0); i < count; i++ { x, offset, err = dec(data, offset) ... } *)
Fixpoint decode_n {A} (dec : list N -> N -> R (A * N)) (data : list N) (n : nat) (offset : N)
  : R (list A * N) :=
  match n with
  | O => Ok ([], offset)
  | S n' =>
      let* xo := dec data offset in
      let* ro := decode_n dec data n' (snd xo) in
      Ok (fst xo :: fst ro, snd ro)
  end.

Definition decode_message (data : list N) : R message :=
  if lenN data <? HeaderSize then Err else
  let* id := be16_at data 0 in
  let* fl := be16_at data 2 in
  let* qd := be16_at data 4 in
  let* an := be16_at data 6 in
  let* ns := be16_at data 8 in
  let* ar := be16_at data 10 in
  let* qs := decode_n decode_question data (N.to_nat qd) HeaderSize in
  let* ans := decode_n decode_rr data (N.to_nat an) (snd qs) in
  let* aut := decode_n decode_rr data (N.to_nat ns) (snd ans) in
  let* add := decode_n decode_rr data (N.to_nat ar) (snd aut) in
  Ok {| m_id := id; m_flags := fl; m_qd := qd; m_an := an; m_ns := ns; m_ar := ar;
        m_questions := fst qs; m_answers := fst ans; m_authority := fst aut; m_additional := fst add |}.

(* Message.Validate: 0 = nil, 1 = ErrNameTooLong, 2 = ErrLabelTooLong, 3 = ErrInvalidMessage.
   len(..) != int(count): the counts are uint16, the lengths are not wrapped. *)
Fixpoint first_nonzero (l : list N) : N :=
  match l with [] => 0 | x :: r => if x =? 0 then first_nonzero r else x end.

Definition validate_message (m : message) : N :=
  if negb (lenN (m_questions m) =? m_qd m) then 3
  else if negb (lenN (m_answers m) =? m_an m) then 3
  else if negb (lenN (m_authority m) =? m_ns m) then 3
  else if negb (lenN (m_additional m) =? m_ar m) then 3
  else first_nonzero (map (fun q => validate_name (q_name q)) (m_questions m)
                      ++ map (fun r => validate_name (r_name r)) (m_answers m)).

(* AddQuestion / AddAnswer: state -> outcome * state *)
Definition set_questions (m : message) (qs : list question) (qd : N) : message :=
  {| m_id := m_id m; m_flags := m_flags m; m_qd := qd; m_an := m_an m; m_ns := m_ns m; m_ar := m_ar m;
     m_questions := qs; m_answers := m_answers m; m_authority := m_authority m; m_additional := m_additional m |}.
Definition set_answers (m : message) (an : list rr) (c : N) : message :=
  {| m_id := m_id m; m_flags := m_flags m; m_qd := m_qd m; m_an := c; m_ns := m_ns m; m_ar := m_ar m;
     m_questions := m_questions m; m_answers := an; m_authority := m_authority m; m_additional := m_additional m |}.

Definition add_question (m : message) (q : question) : N * message :=
  let v := validate_name (q_name q) in
  if v =? 0 then
    let qs := m_questions m ++ [q] in (0, set_questions m qs (wrap16 (lenN qs)))
  else (v, m).

Definition add_answer (m : message) (r : rr) : N * message :=
  let v := validate_name (r_name r) in
  if v =? 0 then
    let an := m_answers m ++ [r] in (0, set_answers m an (wrap16 (lenN an)))
  else (v, m).
