(* Model of network/netbios/nbtns/nbtns.go: the six methods of NetBIOSNameServer
   (RegisterName, QueryName, ReleaseName, RefreshName, MarkNameConflict, CleanExpiredNames).
   Hand-written; tied to the Go code by the correspondence check (entry points nt.run / nt.step).

   Value-level model: the Go map[string]*NameRecord is an association list name -> record with
   at most one entry per key, record.Owners is a list of addresses.  The slice/backing-array
   level (who shares memory with whom) is Model/NameTableHeap.v, which is proved to simulate
   this model.  time.Now() is an explicit input [now] of every step (nanoseconds, Z); a
   time.Duration is a Z; time.Time.Add is exact integer addition (no overflow inside the
   representable range of time.Time). *)
From Coq Require Import List NArith ZArith Bool.
From Mant Require Import Prim.Bytes.
Import ListNotations.

Definition name := list N.   (* Go string: a byte list *)
Definition ip := list N.     (* net.IP: a byte slice of any length (4, 16, or anything a caller passes) *)

(* net.IP.Equal (Go standard library, net/ip.go):
     if len(ip) == len(x)            -> bytes equal
     if len(ip) == 4 && len(x) == 16 -> x[0:12] == v4InV6Prefix && ip == x[12:]
     if len(ip) == 16 && len(x) == 4 -> ip[0:12] == v4InV6Prefix && ip[12:] == x
     otherwise false *)
Definition v4in6 : list N := [0; 0; 0; 0; 0; 0; 0; 0; 0; 0; 255; 255]%N.

Definition ip_equal (a b : ip) : bool :=
  if Nat.eqb (length a) (length b) then bytes_eqb a b
  else if Nat.eqb (length a) 4 && Nat.eqb (length b) 16 then
    bytes_eqb (firstn 12 b) v4in6 && bytes_eqb a (skipn 12 b)
  else if Nat.eqb (length a) 16 && Nat.eqb (length b) 4 then
    bytes_eqb (firstn 12 a) v4in6 && bytes_eqb (skipn 12 a) b
  else false.

(* NameType: Unique = 0, Group = 1 (a uint8: callers can pass anything).
   NameStatus: Active = 0, Conflict = 1, Releasing = 2. *)
Definition ty_unique : N := 0.
Definition ty_group : N := 1.
Definition st_active : N := 0.
Definition st_conflict : N := 1.

Record record := mkrec {
  r_type : N;
  r_status : N;
  r_owners : list ip;
  r_ttl : Z;          (* NameRecord.TTL: the instant of expiry *)
  r_refresh : Z       (* NameRecord.RefreshInterval *)
}.

(* The Go map: an association list with at most one entry per key (polymorphic in the value so that
   Model/NameTableHeap.v shares it). *)
Fixpoint tget {V} (t : list (name * V)) (n : name) : option V :=
  match t with
  | [] => None
  | (k, r) :: t' => if bytes_eqb k n then Some r else tget t' n
  end.

Fixpoint tdel {V} (t : list (name * V)) (n : name) : list (name * V) :=
  match t with
  | [] => []
  | (k, r) :: t' => if bytes_eqb k n then tdel t' n else (k, r) :: tdel t' n
  end.

Definition tset {V} (t : list (name * V)) (n : name) (r : V) : list (name * V) := (n, r) :: tdel t n.

Definition table := list (name * record).

Inductive op :=
| Register (n : name) (ty : N) (a : ip) (ttl : Z)
| Query (n : name)
| Release (n : name) (a : ip)
| Refresh (n : name) (a : ip)
| MarkConflict (n : name)
| CleanExpired.

Inductive out :=
| OOk                              (* returned nil / returned (CleanExpiredNames) *)
| OErr                             (* returned a non-nil error *)
| OPanic                           (* index out of range on record.Owners[0] *)
| OOwners (l : list ip) (ty : N).  (* QueryName's (owners, type, nil) *)

(* for _, ip := range record.Owners { if ip.Equal(owner) {...} } *)
Definition has_owner (a : ip) (l : list ip) : bool := existsb (fun b => ip_equal b a) l.

(* the loop of ReleaseName: the first i with Owners[i].Equal(owner) is cut out *)
Fixpoint remove_first (a : ip) (l : list ip) : option (list ip) :=
  match l with
  | [] => None
  | b :: l' => if ip_equal b a then Some l'
               else match remove_first a l' with Some r => Some (b :: r) | None => None end
  end.

Definition with_owners (r : record) (l : list ip) : record :=
  mkrec (r_type r) (r_status r) l (r_ttl r) (r_refresh r).
Definition with_ttl (r : record) (t : Z) : record :=
  mkrec (r_type r) (r_status r) (r_owners r) t (r_refresh r).
Definition with_status (r : record) (s : N) : record :=
  mkrec (r_type r) s (r_owners r) (r_ttl r) (r_refresh r).

(* now.After(record.TTL) *)
Definition expired (now : Z) (r : record) : bool := (r_ttl r <? now)%Z.

Definition step (now : Z) (t : table) (o : op) : table * out :=
  match o with
  | Register n ty a ttl =>
      let fresh := mkrec ty st_active [a] (now + ttl)%Z ttl in
      match tget t n with
      | Some r =>
          if (r_type r =? ty_group)%N && (ty =? ty_group)%N then
            if has_owner a (r_owners r) then (t, OOk)
            else (tset t n (with_ttl (with_owners r (r_owners r ++ [a])) (now + ttl)%Z), OOk)
          else if (r_type r =? ty_unique)%N || (ty =? ty_unique)%N then (t, OErr)
          else (tset t n fresh, OOk)
      | None => (tset t n fresh, OOk)
      end
  | Query n =>
      match tget t n with
      | Some r => if (r_status r =? st_active)%N then (t, OOwners (r_owners r) (r_type r)) else (t, OErr)
      | None => (t, OErr)
      end
  | Release n a =>
      match tget t n with
      | None => (t, OErr)
      | Some r =>
          if (r_type r =? ty_group)%N then
            match remove_first a (r_owners r) with
            | Some [] => (tdel t n, OOk)
            | Some l' => (tset t n (with_owners r l'), OOk)
            | None => (t, OErr)
            end
          else
            match r_owners r with
            | [] => (t, OPanic)
            | b :: _ => if ip_equal b a then (tdel t n, OOk) else (t, OErr)
            end
      end
  | Refresh n a =>
      match tget t n with
      | None => (t, OErr)
      | Some r =>
          if has_owner a (r_owners r) then (tset t n (with_ttl r (now + r_refresh r)%Z), OOk)
          else (t, OErr)
      end
  | MarkConflict n =>
      match tget t n with
      | None => (t, OErr)
      | Some r => (tset t n (with_status r st_conflict), OOk)
      end
  | CleanExpired =>
      (filter (fun kr => negb (expired now (snd kr))) t, OOk)
  end.

(* A history: each operation with the clock reading taken inside it. *)
Definition history := list (Z * op).

Fixpoint run (t : table) (h : history) : table * list out :=
  match h with
  | [] => (t, [])
  | (now, o) :: h' =>
      let '(t1, x) := step now t o in
      let '(t2, xs) := run t1 h' in
      (t2, x :: xs)
  end.

Definition empty : table := [].
