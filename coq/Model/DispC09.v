(* Routes the harness entry points "llmnr.*" to Model/Llmnr.v. *)
From Coq Require Import List NArith ZArith String.
From Mant Require Import Prim.R Prim.Bytes Prim.Val Model.DispUtil Model.Llmnr.
Import ListNotations.
Open Scope string_scope.

Definition q_of_val (v : val) : question :=
  match v with
  | VL [VB n; VN t; VN c] => {| q_name := n; q_type := Z.to_N t; q_class := Z.to_N c |}
  | _ => {| q_name := []; q_type := 0; q_class := 0 |}
  end.
Definition rr_of_val (v : val) : rr :=
  match v with
  | VL [VB n; VN t; VN c; VN ttl; VN rdl; VB d] =>
      {| r_name := n; r_type := Z.to_N t; r_class := Z.to_N c; r_ttl := Z.to_N ttl;
         r_rdlen := Z.to_N rdl; r_data := d |}
  | _ => {| r_name := []; r_type := 0; r_class := 0; r_ttl := 0; r_rdlen := 0; r_data := [] |}
  end.
Definition msg_of_val (v : val) : message :=
  match v with
  | VL [VN id; VN fl; VN qd; VN an; VN ns; VN ar; VL qs; VL ans; VL aut; VL add] =>
      {| m_id := Z.to_N id; m_flags := Z.to_N fl; m_qd := Z.to_N qd; m_an := Z.to_N an;
         m_ns := Z.to_N ns; m_ar := Z.to_N ar;
         m_questions := map q_of_val qs; m_answers := map rr_of_val ans;
         m_authority := map rr_of_val aut; m_additional := map rr_of_val add |}
  | _ => {| m_id := 0; m_flags := 0; m_qd := 0; m_an := 0; m_ns := 0; m_ar := 0;
            m_questions := []; m_answers := []; m_authority := []; m_additional := [] |}
  end.

Definition val_of_q (q : question) : val := VL [VB (q_name q); vN (q_type q); vN (q_class q)].
Definition val_of_rr (r : rr) : val :=
  VL [VB (r_name r); vN (r_type r); vN (r_class r); vN (r_ttl r); vN (r_rdlen r); VB (r_data r)].
Definition val_of_msg (m : message) : val :=
  VL [vN (m_id m); vN (m_flags m); vN (m_qd m); vN (m_an m); vN (m_ns m); vN (m_ar m);
      VL (map val_of_q (m_questions m)); VL (map val_of_rr (m_answers m));
      VL (map val_of_rr (m_authority m)); VL (map val_of_rr (m_additional m))].

Definition dispatch_C09 (f : string) (args : list val) : val :=
  match args with
  | [VB b] =>
      if f =? "llmnr.validate_name" then vN (validate_name b)
      else if f =? "llmnr.encode_name" then r_bytes (encode_name b)
      else if f =? "llmnr.decode_message" then r_val val_of_msg (decode_message b)
      else vunknown
  | [VB b; VN off] =>
      if f =? "llmnr.decode_name" then
        r_val (fun p => VL [VB (fst p); vN (snd p)]) (decode_name_z b off)
      else if f =? "llmnr.decode_question" then
        if (off <? 0)%Z then VPanic
        else r_val (fun p => VL [val_of_q (fst p); vN (snd p)]) (decode_question b (Z.to_N off))
      else if f =? "llmnr.decode_rr" then
        if (off <? 0)%Z then VPanic
        else r_val (fun p => VL [val_of_rr (fst p); vN (snd p)]) (decode_rr b (Z.to_N off))
      else vunknown
  | [VL l] =>
      if f =? "llmnr.encode_question" then r_bytes (encode_question (q_of_val (VL l)))
      else if f =? "llmnr.encode_rr" then r_bytes (encode_rr (rr_of_val (VL l)))
      else if f =? "llmnr.encode_message" then
        let m := msg_of_val (VL l) in
        r_val (fun b => let m' := with_counts m in
                        VL [VB b; vN (m_qd m'); vN (m_an m'); vN (m_ns m'); vN (m_ar m')])
              (encode_message m)
      else if f =? "llmnr.validate" then vN (validate_message (msg_of_val (VL l)))
      else vunknown
  | [VL l; VL x] =>
      if f =? "llmnr.add_question" then
        let r := add_question (msg_of_val (VL l)) (q_of_val (VL x)) in
        VL [vN (fst r); val_of_msg (snd r)]
      else if f =? "llmnr.add_answer" then
        let r := add_answer (msg_of_val (VL l)) (rr_of_val (VL x)) in
        VL [vN (fst r); val_of_msg (snd r)]
      else vunknown
  | _ => vunknown
  end.
