(* Model of network/smb/smb_v10/spnego/auth.go AuthContext.ProcessChallengeToken and
   negotiate.go CreateNegotiateToken for AuthTypeNTLM.  The LM / NT responses computed inside
   CreateAuthenticateMessage (C02) are given by the functions [lm_of] / [nt_of] of the parsed
   challenge.  Definitions only. *)
From Coq Require Import List NArith ZArith Bool.
From Mant Require Import Prim.R Prim.Bytes Model.Spnego Model.NtlmSsp.
Import ListNotations.
Open Scope N_scope.

Definition process_challenge_token (lm_of nt_of : challenge -> list N) (tok user domain ws : list N) : R (list N) :=
  let* resp := parse_neg_token_resp tok in
  if (ntr_state resp =? 2)%Z then Err else        (* Reject *)
  let* inner := extract_ntlm_token tok in
  let* ch := parse_challenge inner in
  let* auth := create_authenticate (ch_flags ch) (lm_of ch) (nt_of ch) user domain ws in
  create_neg_token_init (Some auth).

Definition create_negotiate_token (domain ws : list N) (unicode : bool) : R (list N) :=
  let* m := create_negotiate domain ws unicode in
  create_neg_token_init (Some m).
