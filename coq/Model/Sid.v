(* Model of network/ldap/sid.go ParseSIDFromBytes (hand-written; tied by correspondence). *)
From Coq Require Import List NArith Lia Bool.
From Mant Require Import Prim.R Prim.Bytes Prim.Dec.
Import ListNotations.
Open Scope N_scope.

Fixpoint sid_subs_at (bs : list N) (ks : list nat) : R (list N) :=
  match ks with
  | [] => Ok []
  | k :: ks' =>
      let* tl := go_from bs (8 + 4 * N.of_nat k) in
      let* v := go_le_uint 4 tl in
      let* r := sid_subs_at bs ks' in
      Ok (v :: r)
  end.

Definition sid_subs (bs : list N) (cnt : nat) : R (list N) := sid_subs_at bs (seq 0 cnt).

Definition dash : N := 45.

Definition sid_text (rev auth : N) (subs : list N) : list N :=
  [83; dash] ++ print_dec rev ++ [dash] ++ print_dec auth
  ++ concat (map (fun s => dash :: print_dec s) subs).

(* "" is returned (as Ok []) for anything that is not a revision-1 SID of sufficient length. *)
Definition parse_sid (bs : list N) : R (list N) :=
  if lenN bs <? 8 then Ok [] else
  let* b0 := go_index bs 0 in
  if negb (b0 =? 1) then Ok [] else
  let* cnt := go_index bs 1 in
  if lenN bs <? 8 + 4 * cnt then Ok [] else
  let* a := go_slice bs 2 8 in
  let auth := be_val a in
  let* subs := sid_subs bs (N.to_nat cnt) in
  Ok (sid_text b0 auth subs).
