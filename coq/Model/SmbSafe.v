(* A decidable sufficient condition for "this structure's Unmarshal cannot panic" (property C07),
   evaluated on the descriptions regenerated from the Go source.  It is an abstract interpretation of the
   read program [cd_unmarshal c] that tracks ONE fact about the shared offset cursor:

     FZero        the offset is 0
     FGe s e      offset + e <= len(stream s)       (established by a passing guard, or by a nested
                                                     decoder that reported e = bytesRead <= its window)

   Every slice expression must be covered by the current fact; assignments that could change the value
   of the fact's expression forget it.  Soundness (no description accepted by [cmd_safe] can make the
   interpreter Model/SmbLayout.cmd_unmarshal panic, on any input) is Proofs/C07Smb.v.  Definitions only. *)
From Coq Require Import List NArith ZArith String Bool.
From Mant Require Import Prim.R Prim.Bytes Model.SmbTypes Model.SmbBlocks Model.SmbLayout Model.SmbAnalysis.
Import ListNotations.
Open Scope N_scope.

Inductive fact := FNone | FZero | FGe (s : stream) (e : lenexp).

(* expressions whose value is a non-negative number that does not depend on the stream length *)
Fixpoint simple (e : lenexp) : bool :=
  match e with
  | EConst _ | EField _ | ELenOf _ | EVar _ | ERead => true
  | EAdd a b | EMul a b => simple a && simple b
  | ERest | ESub _ _ => false
  end.

Fixpoint mentions_field (e : lenexp) (f : string) : bool :=
  match e with
  | EField g | ELenOf g => String.eqb g f
  | EAdd a b | EMul a b | ESub a b => mentions_field a f || mentions_field b f
  | _ => false
  end.

Fixpoint mentions_var (e : lenexp) (x : string) : bool :=
  match e with
  | EVar y => String.eqb y x
  | EAdd a b | EMul a b | ESub a b => mentions_var a x || mentions_var b x
  | _ => false
  end.

Fixpoint mentions_read (e : lenexp) : bool :=
  match e with
  | ERead => true
  | EAdd a b | EMul a b | ESub a b => mentions_read a || mentions_read b
  | _ => false
  end.

Fixpoint lexp_eqb (a b : lenexp) : bool :=
  match a, b with
  | EConst x, EConst y => N.eqb x y
  | EField x, EField y => String.eqb x y
  | ELenOf x, ELenOf y => String.eqb x y
  | EVar x, EVar y => String.eqb x y
  | ERead, ERead => true
  | ERest, ERest => true
  | EAdd a1 a2, EAdd b1 b2 => lexp_eqb a1 b1 && lexp_eqb a2 b2
  | EMul a1 a2, EMul b1 b2 => lexp_eqb a1 b1 && lexp_eqb a2 b2
  | ESub a1 a2, ESub b1 b2 => lexp_eqb a1 b1 && lexp_eqb a2 b2
  | _, _ => false
  end.

(* the guarded amount [g] is at least the accessed amount [a] *)
Definition covers (g a : lenexp) : bool :=
  lexp_eqb g a ||
  match g, a with EConst x, EConst y => y <=? x | _, _ => false end.

(* the fact entails  offset + a <= len(stream s) *)
Definition entails (f : fact) (s : stream) (a : lenexp) : bool :=
  match f with
  | FNone => false
  | FZero => match a with EConst 0 => true | _ => false end
  | FGe s' g => stream_eqb s s' && covers g a
  end.

(* the fact entails  offset <= len(stream s) *)
Definition in_range (f : fact) (s : stream) : bool :=
  match f with
  | FNone => false
  | FZero => true
  | FGe s' _ => stream_eqb s s'
  end.

Definition forget_field (f : fact) (fld : string) : fact :=
  match f with FGe _ e => if mentions_field e fld then FNone else f | _ => f end.
Definition forget_var (f : fact) (x : string) : fact :=
  match f with FGe _ e => if mentions_var e x then FNone else f | _ => f end.

Definition after_adv (f : fact) (a : lenexp) : fact :=
  match f with
  | FGe s g =>
      if lexp_eqb g a then FGe s (EConst 0)
      else match g, a with
           | EConst x, EConst y => if y <=? x then FGe s (EConst (x - y)) else FNone
           | _, _ => FNone
           end
  | FZero => match a with EConst 0 => FZero | _ => FNone end
  | FNone => FNone
  end.

Definition safe_step (f : fact) (u : uop) : option fact :=
  match u with
  | UIf _ _ => None
  | UGuard s e => Some (if simple e then FGe s e else f)
  | UInt s fld w _ acc =>
      match acc with
      | EConst a => if entails f s acc && (N.of_nat w <=? a) then Some (forget_field f fld) else None
      | _ => None
      end
  | UBytes s fld e =>
      match e with
      | ERest => if in_range f s then Some (forget_field f fld) else None
      | _ => if simple e && entails f s e then Some (forget_field f fld) else None
      end
  | UIntArr s fld _ _ e =>
      if simple e && entails f s e then Some (forget_field f fld) else None
  | UNested s fld t e =>
      if negb (known_nested t) then None else
      match e with
      | ERest => if in_range f s then Some (FGe s ERead) else None
      | _ => if simple e && entails f s e then Some (FGe s ERead) else None
      end
  | UNested0 s fld t =>
      if negb (known_nested t) then None else
      Some (match f with FZero => FGe s ERead | _ => FNone end)
  | UEmptyRet _ => Some f
  | UAdv a => if simple a then Some (after_adv f a) else None
  | ULet x _ => Some (forget_var f x)
  | UReset _ => Some FZero
  | UOpaque _ => None
  end.

(* Conditional operations ([UIf c u]): besides the fact that holds unconditionally, the analysis keeps one fact that
   holds when condition c does.  Inside a conditional block the conditional fact is used and updated; the
   unconditional one is weakened by whatever the operation may have changed (a field: facts mentioning it; the
   offset: everything).  Any unconditional operation drops the conditional fact. *)
Definition ucond_eqb (a b : ucond) : bool :=
  match a, b with UCWcEq x, UCWcEq y => x =? y end.

Definition astate := (fact * option (ucond * fact))%type.

Definition base_of (a : astate) (c : ucond) : fact :=
  match snd a with
  | Some (c', fc) => if ucond_eqb c c' then fc else fst a
  | None => fst a
  end.

Definition uncond_after (f : fact) (u : uop) : fact :=
  match u with
  | UGuard _ _ => f
  | UInt _ fld _ _ _ => forget_field f fld
  | UBytes _ fld _ => forget_field f fld
  | UIntArr _ fld _ _ _ => forget_field f fld
  | _ => FNone
  end.

Definition cond_body (u : uop) : bool :=
  match u with UGuard _ _ | UInt _ _ _ _ _ | UBytes _ _ _ | UIntArr _ _ _ _ _ | UAdv _ => true | _ => false end.

Definition safe_step2 (a : astate) (u : uop) : option astate :=
  match u with
  | UIf c u' =>
      if cond_body u' then
        match safe_step (base_of a c) u' with
        | Some fc' => Some (uncond_after (fst a) u', Some (c, fc'))
        | None => None
        end
      else None
  | ULet x _ =>
      if String.eqb x wc_var then None
      else match safe_step (fst a) u with Some f' => Some (f', None) | None => None end
  | _ => match safe_step (fst a) u with Some f' => Some (f', None) | None => None end
  end.

Fixpoint safe_uops (a : astate) (us : list uop) : bool :=
  match us with
  | [] => true
  | u :: r => match safe_step2 a u with Some a' => safe_uops a' r | None => false end
  end.

Definition cmd_safe (c : cmd_desc) : bool := safe_uops (FZero, None) (cd_unmarshal c).

(* the first read the analysis cannot justify, as a finding key "<Structure>/<Field>/unguarded-access" *)
Fixpoint uop_field (u : uop) : string :=
  match u with
  | UIf _ u' => uop_field u'
  | UInt _ f _ _ _ | UBytes _ f _ | UIntArr _ f _ _ _ | UNested _ f _ _ | UNested0 _ f _ => f
  | UAdv _ => "<advance>"
  | UOpaque _ => "<untranslated statement>"
  | _ => "<other>"
  end.

Fixpoint first_unsafe (a : astate) (us : list uop) : option string :=
  match us with
  | [] => None
  | u :: r => match safe_step2 a u with Some a' => first_unsafe a' r | None => Some (uop_field u) end
  end.

Definition unsafe_keys (c : cmd_desc) : list string :=
  match first_unsafe (FZero, None) (cd_unmarshal c) with
  | None => []
  | Some fld => [key (cd_name c) fld "unguarded-access"]
  end.
