(* Model of network/ip/tcp_port.go.  Definitions only. *)
From Coq Require Import List NArith Bool.
From Mant Require Import Prim.R Prim.Bytes Prim.Dec Model.StrC20.
Import ListNotations.
Open Scope N_scope.

Definition rng (lo hi c : N) : bool := (lo <=? c) && (c <=? hi).
Definition d09 (c : N) : bool := rng 48 57 c.             (* \d and [0-9] *)

(* RE2's \s is the ASCII class [\t\n\f\r ] (no vertical tab, nothing beyond ASCII) *)
Definition re_space (c : N) : bool := (c =? 9) || (c =? 10) || (c =? 12) || (c =? 13) || (c =? 32).

(* the port alternation, one disjunct per alternative, applied to a whole digit run:
   [0-9] | [1-9]\d{1,3} | [1-5]\d{4} | 6[0-4]\d{3} | 65[0-4]\d{2} | 655[0-2]\d | 6553[0-5] *)
Definition port_alt (ds : list N) : bool :=
  match ds with
  | [a] => d09 a
  | [a; b] => rng 49 57 a && d09 b
  | [a; b; c] => rng 49 57 a && d09 b && d09 c
  | [a; b; c; d] => rng 49 57 a && d09 b && d09 c && d09 d
  | [a; b; c; d; e] =>
      (rng 49 53 a && d09 b && d09 c && d09 d && d09 e)
      || ((a =? 54) && rng 48 52 b && d09 c && d09 d && d09 e)
      || ((a =? 54) && (b =? 53) && rng 48 52 c && d09 d && d09 e)
      || ((a =? 54) && (b =? 53) && (c =? 53) && rng 48 50 d && d09 e)
      || ((a =? 54) && (b =? 53) && (c =? 53) && (d =? 51) && rng 48 53 e)
  | _ => false
  end.

Fixpoint take_while (p : N -> bool) (s : list N) : list N :=
  match s with
  | c :: r => if p c then c :: take_while p r else []
  | [] => []
  end.

Fixpoint drop_while (p : N -> bool) (s : list N) : list N :=
  match s with
  | c :: r => if p c then drop_while p r else s
  | [] => []
  end.

(* ^\s*(?:PORT)\s*-\s*(?:PORT)\s*$ as an explicit recogniser.  White space, digits and '-' are
   pairwise disjoint classes and every alternative of PORT consists of digits only, so in any match
   each \s* is the maximal run of white space and each PORT is the maximal run of digits: the
   left-to-right scan below accepts exactly the language of the expression (MatchString asks for
   the existence of a match, so leftmost-first preferences do not matter). *)
Definition port_re (s : list N) : bool :=
  let s1 := drop_while re_space s in
  let d1 := take_while d09 s1 in
  let s2 := drop_while re_space (drop_while d09 s1) in
  match s2 with
  | c :: s3 =>
      let s4 := drop_while re_space s3 in
      let d2 := take_while d09 s4 in
      let s5 := drop_while re_space (drop_while d09 s4) in
      (c =? 45) && port_alt d1 && port_alt d2 && match s5 with [] => true | _ => false end
  | [] => false
  end.

(* one bound of the range: the [if len(part) > 0] branch with its ParseUint(_, 10, 16) and the
   (unreachable) > 65535 test; [dflt] is the value kept for an empty part *)
Definition port_bound (dflt : N) (part : list N) : R N :=
  if (0 <? lenN part) then
    match parse_uint10 16 part with
    | None => Err
    | Some n => if 65535 <? n then Err else Ok n
    end
  else Ok dflt.

(* NewTCPPortRangeFromString *)
Definition ports_of_string (s : list N) : R (N * N) :=
  if negb (port_re s) then Err
  else
    match split_on 45 s with
    | [p0; p1] =>
        let* a := port_bound 0 p0 in
        let* b := port_bound 65535 p1 in
        Ok (wrap16 a, wrap16 b)
    | _ => Err
    end.

(* TCPPortRange.String: fmt.Sprintf("%d-%d", Start, End) *)
Definition ports_string (a b : N) : list N := print_dec a ++ [45] ++ print_dec b.
