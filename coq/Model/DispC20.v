From Coq Require Import List NArith ZArith String.
From Mant Require Import Prim.R Prim.Val Model.DispUtil Model.StrC20 Model.Ip Model.Ports Model.HashCred.
Import ListNotations.
Open Scope string_scope.

Definition v4_of_val (v : val) : ipv4 :=
  match v with
  | VL [a; b; c; d; m] => IPv4 (n_of_val a) (n_of_val b) (n_of_val c) (n_of_val d) (n_of_val m)
  | _ => IPv4 0 0 0 0 0
  end.
Definition val_of_v4 (i : ipv4) : val := VL [vN (v4a i); vN (v4b i); vN (v4c i); vN (v4d i); vN (v4m i)].

Definition v6_of_val (v : val) : ipv6 := map n_of_val (l_of_val v).
Definition val_of_v6 (i : ipv6) : val := VL (map vN i).

Definition val_of_creds (c : creds) : val :=
  VL [VB (c_domain c); VB (c_user c); VB (c_pass c); VB (c_lm c); VB (c_nt c);
      vbool (is_domain_identity c); vbool (is_local_identity c); vbool (can_pass_the_hash c)].

Definition dispatch_C20 (f : string) (args : list val) : val :=
  match args with
  | [VB s] =>
      if f =? "ipv4.parse" then r_val val_of_v4 (ipv4_of_string s)
      else if f =? "ipv6.parse" then r_val val_of_v6 (ipv6_of_string s)
      else if f =? "ports.parse" then r_val (fun p => VL [vN (fst p); vN (snd p)]) (ports_of_string s)
      else if f =? "hashes.parse" then r_val (fun p => VL [VB (fst p); VB (snd p)]) (parse_lmnt s)
      else vunknown
  | [VL x] =>
      if f =? "ipv4.string" then VB (ipv4_string (v4_of_val (VL x)))
      else if f =? "ipv4.cidraddr" then VB (ipv4_string (v4_of_val (VL x)))
      else if f =? "ipv4.cidrmask" then VB (ipv4_cidr_mask (v4_of_val (VL x)))
      else if f =? "ipv4.tou32" then vN (ipv4_to_u32 (v4_of_val (VL x)))
      else if f =? "ipv4.computemask" then val_of_v4 (ipv4_compute_mask (v4_of_val (VL x)))
      else if f =? "ipv6.string" then VB (ipv6_string (v6_of_val (VL x)))
      else if f =? "ipv6.tou128" then
        (let p := ipv6_to_u128 (v6_of_val (VL x)) in VL [vN (fst p); vN (snd p)])
      else vunknown
  | [VN a; VN b] =>
      if f =? "ports.string" then VB (ports_string (Z.to_N a) (Z.to_N b)) else vunknown
  | [VL x; VL y] =>
      if f =? "ipv4.insubnet" then vbool (ipv4_in_subnet (v4_of_val (VL x)) (v4_of_val (VL y)))
      else if f =? "ipv4range.string" then VB (ipv4range_string (v4_of_val (VL x)) (v4_of_val (VL y)))
      else if f =? "ipv6.insubnet" then vbool (ipv6_in_subnet (v6_of_val (VL x)) (v6_of_val (VL y)))
      else if f =? "ipv6range.string" then VB (ipv6range_string (v6_of_val (VL x)) (v6_of_val (VL y)))
      else vunknown
  | [VL x; VL y; VL z] =>
      if f =? "ipv4.inrange" then
        vbool (ipv4_in_range (v4_of_val (VL x)) (v4_of_val (VL y)) (v4_of_val (VL z)))
      else if f =? "ipv4range.contains" then
        vbool (ipv4range_contains (v4_of_val (VL x)) (v4_of_val (VL y)) (v4_of_val (VL z)))
      else if f =? "ipv6.inrange" then
        vbool (ipv6_in_range (v6_of_val (VL x)) (v6_of_val (VL y)) (v6_of_val (VL z)))
      else if f =? "ipv6range.contains" then
        vbool (ipv6range_contains (v6_of_val (VL x)) (v6_of_val (VL y)) (v6_of_val (VL z)))
      else vunknown
  | [VB d; VB u; VB p; VB h] =>
      if f =? "creds.new" then r_val val_of_creds (new_credentials d u p h) else vunknown
  | _ => vunknown
  end.
