(* Model of crypto/rc4/rc4.go (hand-written; tied by the correspondence cases named rc4.xxx).
     NewRC4 / NewRC4WithKey   -> rc4go_new_empty / rc4go_new
     RC4.Reset                -> rc4go_reset
     RC4.XORKeyStream        -> rc4go_xks (the PRGA loop), rc4go_xks_dst (dst/src length check),
                                 rc4go_xks_arena (the length check AND the overlap check, with dst and
                                 src given as windows of one backing array)
   The struct is  s [256]uint8; i, j uint8; Key []byte.  uint8 arithmetic wraps; the wrap is
   written [u8] wherever the Go expression has type uint8.  Definitions only. *)
From Coq Require Import List NArith Bool.
From Mant Require Import Prim.R Prim.Bytes.
Import ListNotations.
Open Scope N_scope.

Definition u8 (n : N) : N := n mod 256.

(* c.s[i] and c.s[i] = v on the 256-entry array (indices are uint8, always in range) *)
Definition sb_get (s : list N) (i : N) : N := nth (N.to_nat i) s 0.

Fixpoint sb_set_nat (s : list N) (i : nat) (v : N) : list N :=
  match s with
  | [] => []
  | x :: r => match i with O => v :: r | S i' => x :: sb_set_nat r i' v end
  end.
Definition sb_set (s : list N) (i v : N) : list N := sb_set_nat s (N.to_nat i) v.

(* c.s[i], c.s[j] = c.s[j], c.s[i] : both right-hand sides are read first, then s[i] is
   assigned, then s[j] *)
Definition sb_swap (s : list N) (i j : N) : list N :=
  let vj := sb_get s j in
  let vi := sb_get s i in
  sb_set (sb_set s i vj) j vi.

(* for i := 0; i < 256; i++ { c.s[i] = uint8(i) } *)
Fixpoint sb_iota (n : nat) (from : N) : list N :=
  match n with O => [] | S n' => u8 from :: sb_iota n' (from + 1) end.
Definition sb_init : list N := sb_iota 256 0.

Record rc4st : Type := mk_rc4st { st_s : list N; st_i : N; st_j : N; st_key : list N }.

(* var j uint8; for i := 0; i < 256; i++ { j += c.s[i] + key[i%k]; swap(c.s[i], c.s[j]) }
   c.s[i] + key[i%k] is a uint8 sum (wraps), j += wraps again.  n = iterations left. *)
Fixpoint ksa_go (n : nat) (key : list N) (k : N) (i j : N) (s : list N) : list N :=
  match n with
  | O => s
  | S n' =>
      let j' := u8 (j + u8 (sb_get s i + nth (N.to_nat (i mod k)) key 0)) in
      ksa_go n' key k (i + 1) j' (sb_swap s i j')
  end.

Definition rc4go_new (key : list N) : R rc4st :=
  let k := lenN key in
  if (k <? 1) || (256 <? k) then Err
  else Ok (mk_rc4st (ksa_go 256 key k 0 0 sb_init) 0 0 key).

(* NewRC4() = NewRC4WithKey([]byte{}) : always the key-size error *)
Definition rc4go_new_empty : R rc4st := rc4go_new [].

Definition rc4go_reset (st : rc4st) : rc4st := mk_rc4st sb_init 0 0 [].

(* for k, v := range src { i++; j += c.s[i]; swap; t := uint8(int(c.s[i]) + int(c.s[j])); dst[k] = v ^ c.s[t] } *)
Fixpoint prga_go (s : list N) (i j : N) (src : list N) : list N * (list N * N * N) :=
  match src with
  | [] => ([], (s, i, j))
  | v :: r =>
      let i1 := u8 (i + 1) in
      let j1 := u8 (j + sb_get s i1) in
      let s1 := sb_swap s i1 j1 in
      let t := u8 (sb_get s1 i1 + sb_get s1 j1) in
      let '(out, fin) := prga_go s1 i1 j1 r in
      (N.lxor v (sb_get s1 t) :: out, fin)
  end.

(* the bytes written to dst[0:len(src)] and the state afterwards *)
Definition rc4go_xks (st : rc4st) (src : list N) : list N * rc4st :=
  let '(out, (s, i, j)) := prga_go (st_s st) (st_i st) (st_j st) src in
  (out, mk_rc4st s i j (st_key st)).

(* XORKeyStream(dst, src) with dst and src disjoint: panics when len(dst) < len(src); the
   tail of dst beyond len(src) is left as it was.  Returns the contents of dst. *)
Definition rc4go_xks_dst (st : rc4st) (dst src : list N) : R (list N * rc4st) :=
  if lenN dst <? lenN src then Panic
  else let '(out, st') := rc4go_xks st src in
       Ok (out ++ skipn (length src) dst, st').

(* dst = arena[doff : doff+dlen], src = arena[soff : soff+slen] (both windows inside arena).
   if len(src) > 0 && &dst[0] != &src[0] { d0..dN, s0..sN address ranges; if they intersect, panic }
   Returns the arena afterwards. *)
Definition rc4go_xks_arena (st : rc4st) (arena : list N) (doff dlen soff slen : N) : R (list N * rc4st) :=
  if dlen <? slen then Panic
  else if (0 <? slen) && negb (doff =? soff) &&
          ((doff <=? soff + (slen - 1)) && (soff <=? doff + (dlen - 1))) then Panic
  else
    let src := firstn (N.to_nat slen) (skipn (N.to_nat soff) arena) in
    let '(out, st') := rc4go_xks st src in
    Ok (firstn (N.to_nat doff) arena ++ out ++ skipn (N.to_nat (doff + slen)) arena, st').

(* a sequence of XORKeyStream calls on one cipher object: all the bytes produced, final state *)
Fixpoint rc4go_stream (st : rc4st) (chunks : list (list N)) : list N * rc4st :=
  match chunks with
  | [] => ([], st)
  | c :: r =>
      let '(o1, st1) := rc4go_xks st c in
      let '(o2, st2) := rc4go_stream st1 r in
      (o1 ++ o2, st2)
  end.
