(* Models of the Go standard-library text functions the NTLMSSP builders call (modelled, not verified;
   tied by the correspondence cases named text.xxx):
     []rune(s) / range s        -> go_runes          (lenient UTF-8 decoding: an invalid byte is U+FFFD)
     utf8.AppendRune            -> utf8_enc_rune
     unicode.ToUpper            -> upper_rune         (table Model/C08UpperTable.v)
     strings.ToUpper            -> go_to_upper
     unicode/utf16.Encode       -> go_utf16_encode
   and of Manticore's utils/encoding/utf16.EncodeUTF16LE -> go_utf16le.
   Definitions only. *)
From Coq Require Import List NArith ZArith Bool.
From Mant Require Import Prim.Bytes Model.C08UpperTable.
Import ListNotations.
Open Scope N_scope.

Definition rune_error : N := 65533. (* U+FFFD *)

Definition in_range (lo hi b : N) : bool := (lo <=? b) && (b <=? hi).
Definition cont (b : N) : bool := in_range 128 191 b.

(* utf8.DecodeRune on the head of s: (rune, width).  s must be non-empty. *)
Definition decode_rune (s : list N) : N * nat :=
  match s with
  | [] => (rune_error, 0%nat)
  | b0 :: t =>
      if b0 <? 128 then (b0, 1%nat)
      else if in_range 194 223 b0 then
        match t with
        | b1 :: _ => if cont b1 then ((b0 mod 32) * 64 + b1 mod 64, 2%nat) else (rune_error, 1%nat)
        | _ => (rune_error, 1%nat)
        end
      else if in_range 224 239 b0 then
        let lo := if b0 =? 224 then 160 else 128 in
        let hi := if b0 =? 237 then 159 else 191 in
        match t with
        | b1 :: b2 :: _ =>
            if in_range lo hi b1 && cont b2
            then ((b0 mod 16) * 4096 + (b1 mod 64) * 64 + b2 mod 64, 3%nat) else (rune_error, 1%nat)
        | _ => (rune_error, 1%nat)
        end
      else if in_range 240 244 b0 then
        let lo := if b0 =? 240 then 144 else 128 in
        let hi := if b0 =? 244 then 143 else 191 in
        match t with
        | b1 :: b2 :: b3 :: _ =>
            if in_range lo hi b1 && cont b2 && cont b3
            then ((b0 mod 8) * 262144 + (b1 mod 64) * 4096 + (b2 mod 64) * 64 + b3 mod 64, 4%nat)
            else (rune_error, 1%nat)
        | _ => (rune_error, 1%nat)
        end
      else (rune_error, 1%nat)
  end.

Fixpoint go_runes_fuel (fuel : nat) (s : list N) : list N :=
  match fuel with
  | O => []
  | S f =>
      match s with
      | [] => []
      | _ => let '(r, w) := decode_rune s in r :: go_runes_fuel f (skipn w s)
      end
  end.
Definition go_runes (s : list N) : list N := go_runes_fuel (length s) s.

(* utf8.AppendRune: surrogates and out-of-range runes are written as U+FFFD. *)
Definition utf8_enc_rune (r : N) : list N :=
  if r <? 128 then [r]
  else if r <? 2048 then [192 + r / 64; 128 + r mod 64]
  else if (in_range 55296 57343 r) || (1114111 <? r) then [239; 191; 189]
  else if r <? 65536 then [224 + r / 4096; 128 + (r / 64) mod 64; 128 + r mod 64]
  else [240 + r / 262144; 128 + (r / 4096) mod 64; 128 + (r / 64) mod 64; 128 + r mod 64].

Fixpoint upper_lookup (tab : list (N * N * option Z)) (r : N) : N :=
  match tab with
  | [] => r
  | (lo, hi, d) :: tab' =>
      if in_range lo hi r then
        match d with
        | Some delta => Z.to_N (Z.of_N r + delta)
        | None => lo + 2 * ((r - lo) / 2)           (* Lo + ((r-Lo) &^ 1) *)
        end
      else upper_lookup tab' r
  end.
Definition upper_rune (r : N) : N := upper_lookup case_ranges_upper r.

(* strings.ToUpper = concat (encode (upper c)) over the runes of s (for valid unchanged strings this is s). *)
Definition go_to_upper (s : list N) : list N :=
  flat_map (fun r => utf8_enc_rune (upper_rune r)) (go_runes s).

(* unicode/utf16.Encode *)
Definition go_utf16_units (r : N) : list N :=
  if (r <? 55296) || (in_range 57344 65535 r) then [r]
  else if in_range 65536 1114111 r then
    let r' := r - 65536 in [55296 + (r' / 1024) mod 1024; 56320 + r' mod 1024]
  else [rune_error].
Definition go_utf16_encode (rs : list N) : list N := flat_map go_utf16_units rs.

(* utils/encoding/utf16.EncodeUTF16LE *)
Definition go_utf16le (s : list N) : list N :=
  flat_map (fun u => [u mod 256; (u / 256) mod 256]) (go_utf16_encode (go_runes s)).
