From Coq Require Import List NArith ZArith String Bool.
From Mant Require Import Prim.R Prim.Val Model.DispUtil Model.SmbTypes Model.SmbBlocks Model.SmbLayout
  Model.SmbEnvelope Model.DispC19 Model.DispC04 Spec.C05 Gen.SmbLayouts.
Import ListNotations.
Open Scope string_scope.

Definition header_of_val (f : list val) : smb_header :=
  match f with
  | [VB p; VN c; VN st; VN fl; VN fl2; VN ph; VB sec; VN res; VN tid; VN pl; VN uid; VN mid] =>
      {| h_protocol := p; h_command := Z.to_N c; h_status := Z.to_N st; h_flags := Z.to_N fl; h_flags2 := Z.to_N fl2;
         h_pidhigh := Z.to_N ph; h_security := sec; h_reserved := Z.to_N res; h_tid := Z.to_N tid;
         h_pidlow := Z.to_N pl; h_uid := Z.to_N uid; h_mid := Z.to_N mid |}
  | _ => {| h_protocol := []; h_command := 0; h_status := 0; h_flags := 0; h_flags2 := 0; h_pidhigh := 0;
            h_security := []; h_reserved := 0; h_tid := 0; h_pidlow := 0; h_uid := 0; h_mid := 0 |}
  end.

Definition val_of_header (h : smb_header) : val :=
  VL [VB (h_protocol h); vN (h_command h); vN (h_status h); vN (h_flags h); vN (h_flags2 h); vN (h_pidhigh h);
      VB (h_security h); vN (h_reserved h); vN (h_tid h); vN (h_pidlow h); vN (h_uid h); vN (h_mid h)].

(* Message.Unmarshal into a fresh message *)
Definition msg_unmarshal_val (data : list N) : val :=
  match message_unmarshal all_cmds req_table resp_table data with
  | Ok (h, c, v) =>
      if cd_translated c then VL [val_of_header h; vS (cd_name c); fields_of c v] else vunknown
  | Err => VErr
  | Panic => VPanic
  end.

Definition dispatch_C03 (f : string) (args : list val) : val :=
  match args with
  | [VL hf] =>
      if f =? "hdr.marshal" then r_bytes (header_marshal (header_of_val hf))
      (* a sequence of Unmarshal calls on ONE message value: each result is what a fresh message gives *)
      else if f =? "msg.unmarshal_seq" then
        VL (map (fun v => match v with VB d => msg_unmarshal_val d | _ => vunknown end) hf)
      else vunknown
  | [VB data; VL fields] =>
      (* decode, assign every field of the decoded command, encode twice *)
      if f =? "msg.reencode_with" then
        match message_unmarshal all_cmds req_table resp_table data with
        | Ok (h, c, _) =>
            if cd_translated c then VL (map (fun r => r_bytes r) (message_marshal_n 2 h c (valuation_of c fields)))
            else vunknown
        | Err => VErr
        | Panic => VPanic
        end
      else vunknown
  | [VB data] =>
      if f =? "hdr.unmarshal" then
        r_val (fun hn => VL [val_of_header (fst hn); vN (snd hn)]) (header_unmarshal data)
      else if f =? "msg.unmarshal" then msg_unmarshal_val data
      else vunknown
  | [VN w] =>
      if f =? "hdr.is_response" then vbool (is_response (Z.to_N w)) else vunknown
  | [VN code; VN reply] =>
      if f =? "smb.dispatch" then
        match factory_dispatch all_cmds req_table resp_table (Z.to_N code) (negb (Z.eqb reply 0)) with
        | Some c => VL [vS (cd_name c); vN (cd_code c)]
        | None => VErr
        end
      else vunknown
  | [VL hf; VB name; VL fields; VN n] =>
      if f =? "msg.marshal" then
        match find_cmd (string_of_bytes name) with
        | Some c =>
            if cd_translated c then
              let h := header_of_val hf in
              (* AddCommand sets Header.Command to the command's code before the caller's header fields
                 are applied; the harness re-applies that code *)
              VL (map (fun r => r_bytes r) (message_marshal_n (Z.to_nat n) h c (valuation_of c fields)))
            else vunknown
        | None => vunknown
        end
      else vunknown
  | _ => vunknown
  end.
