(* Model of the part of Go's encoding/asn1 (go1.24) that the SPNEGO code exercises:
   parseTagAndLength, parseBase128Int, parseField for fields tagged `explicit,tag:k[,optional]`,
   parseObjectIdentifier, parseBitString, parseInt32 (Enumerated), []byte, parseSequenceOf of OIDs,
   and Marshal for OBJECT IDENTIFIER / ENUMERATED.  Standard library: modelled, not verified; tied
   by the correspondence cases named spnego.xxx (structured + malformed streams).
   An asn1 error is [None]; these functions never panic.  Offsets are replaced by suffixes:
   Go's (bytes, offset) is the list [skipn offset bytes].  Definitions only. *)
From Coq Require Import List NArith ZArith Bool.
From Mant Require Import Prim.R Prim.Bytes Prim.Der.
Import ListNotations.
Open Scope N_scope.

Notation "'let?' x ':=' o 'in' k" := (match o with Some x => k | None => None end)
  (at level 200, x pattern, o at level 100, k at level 200).

(* parseBase128Int *)
Fixpoint base128_go (shifted : nat) (acc : N) (s : list N) : option (N * list N) :=
  match s with
  | [] => None
  | b :: s' =>
      if (shifted =? 5)%nat then None
      else if (shifted =? 0)%nat && (b =? 128) then None
      else
        let acc' := acc * 128 + b mod 128 in
        if b <? 128 then (if 2147483647 <? acc' then None else Some (acc', s'))
        else base128_go (S shifted) acc' s'
  end.

Record tl := { t_class : N; t_comp : bool; t_tag : N; t_len : N }.

Fixpoint len_octets_go (k : nat) (acc : N) (s : list N) : option (N * list N) :=
  match k with
  | O => Some (acc, s)
  | S k' =>
      match s with
      | [] => None
      | b :: s' =>
          if 8388608 <=? acc then None
          else let acc' := acc * 256 + b in
               if acc' =? 0 then None else len_octets_go k' acc' s'
      end
  end.

(* parseTagAndLength *)
Definition parse_tl (s : list N) : option (tl * list N) :=
  match s with
  | [] => None
  | b :: s1 =>
      let cls := b / 64 in
      let comp := N.testbit b 5 in
      let tag0 := b mod 32 in
      let? (tag, s2) :=
        (if tag0 =? 31 then
           let? (t, s2) := base128_go 0 0 s1 in
           if t <? 31 then None else Some (t, s2)
         else Some (tag0, s1)) in
      match s2 with
      | [] => None
      | lb :: s3 =>
          if lb <? 128 then Some ({| t_class := cls; t_comp := comp; t_tag := tag; t_len := lb |}, s3)
          else
            let nb := lb mod 128 in
            if nb =? 0 then None
            else
              let? (len, s4) := len_octets_go (N.to_nat nb) 0 s3 in
              if len <? 128 then None
              else Some ({| t_class := cls; t_comp := comp; t_tag := tag; t_len := len |}, s4)
      end
  end.

(* parseField for a non-ANY field whose universal type is (utag, ucomp); [explicit] = Some k for
   `explicit,tag:k`; [content] parses the value octets; [dflt] is the Go zero value. *)
Definition parse_field {A} (explicit : option N) (optional : bool) (utag : N) (ucomp : bool)
    (content : list N -> option A) (dflt : A) (s : list N) : option (A * list N) :=
  let miss := if optional then Some (dflt, s) else None in
  match s with
  | [] => miss
  | _ =>
      let? (t, s1) := parse_tl s in
      let value (t : tl) (s1 : list N) : option (A * list N) :=
        if negb ((t_class t =? 0) && (t_tag t =? utag)) || negb (Bool.eqb (t_comp t) ucomp) then miss
        else if lenN s1 <? t_len t then None
        else
          let n := N.to_nat (t_len t) in
          let? a := content (firstn n s1) in Some (a, skipn n s1) in
      match explicit with
      | None => value t s1
      | Some k =>
          match s1 with
          | [] => None                                   (* "explicit tag has no child" *)
          | _ =>
              if (t_class t =? 2) && (t_tag t =? k) && ((t_len t =? 0) || t_comp t) then
                if 0 <? t_len t then (let? (t2, s2) := parse_tl s1 in value t2 s2)
                else None                                (* zero length explicit tag, not a Flag *)
              else miss
          end
      end
  end.

(* parseObjectIdentifier *)
Fixpoint oid_rest (fuel : nat) (s : list N) : option (list N) :=
  match s with
  | [] => Some []
  | _ =>
      match fuel with
      | O => None
      | S f =>
          let? (v, r) := base128_go 0 0 s in
          let? vs := oid_rest f r in Some (v :: vs)
      end
  end.

Definition oid_content (s : list N) : option (list N) :=
  match s with
  | [] => None
  | _ =>
      let? (v, r) := base128_go 0 0 s in
      let first := if v <? 80 then [v / 40; v mod 40] else [2; v - 80] in
      let? rest := oid_rest (length r) r in Some (first ++ rest)
  end.

(* parseBitString: (bit length, bytes) *)
Definition bitstring_content (s : list N) : option (N * list N) :=
  match s with
  | [] => None
  | pad :: body =>
      if 7 <? pad then None
      else if (lenN s =? 1) && (0 <? pad) then None
      else if negb (N.land (last s 0) (2 ^ pad - 1) =? 0) then None
      else Some ((lenN s - 1) * 8 - pad, body)
  end.

(* checkInteger + parseInt64 + the int32 range test of parseInt32 *)
Definition int32_content (s : list N) : option Z :=
  match s with
  | [] => None
  | b0 :: t =>
      let nonminimal :=
        match t with
        | [] => false
        | b1 :: _ => ((b0 =? 0) && (b1 <? 128)) || ((b0 =? 255) && (128 <=? b1))
        end in
      if nonminimal then None
      else if 8 <? lenN s then None
      else
        let u := Z.of_N (be_val s) in
        let bits := Z.of_N (8 * lenN s) in
        let v := if (128 <=? b0) then (u - 2 ^ bits)%Z else u in
        if ((v <? -2147483648) || (2147483647 <? v))%Z then None else Some v
  end.

Definition octets_content (s : list N) : option (list N) := Some s.

(* parseSequenceOf for []ObjectIdentifier: first pass over the element headers, then the contents. *)
Fixpoint seqof_scan (fuel : nat) (utag : N) (ucomp : bool) (s : list N) : option (list (list N)) :=
  match s with
  | [] => Some []
  | _ =>
      match fuel with
      | O => None
      | S f =>
          let? (t, s1) := parse_tl s in
          if negb ((t_class t =? 0) && Bool.eqb (t_comp t) ucomp && (t_tag t =? utag)) then None
          else if lenN s1 <? t_len t then None
          else
            let n := N.to_nat (t_len t) in
            let? rest := seqof_scan f utag ucomp (skipn n s1) in
            Some (firstn n s1 :: rest)
      end
  end.

Fixpoint map_opt {A B} (f : A -> option B) (l : list A) : option (list B) :=
  match l with
  | [] => Some []
  | x :: l' => let? y := f x in let? ys := map_opt f l' in Some (y :: ys)
  end.

Definition seqof_oid_content (s : list N) : option (list (list N)) :=
  let? elems := seqof_scan (length s) 6 false s in map_opt oid_content elems.

(* asn1.Unmarshal(b, &oid) *)
Definition unmarshal_oid (s : list N) : option (list N * list N) :=
  parse_field None false 6 false oid_content [] s.

(* ---- Marshal ---- *)

(* appendBase128Int *)
Fixpoint base128_digits (fuel : nat) (n : N) : list N :=
  match fuel with
  | O => []
  | S f => if n =? 0 then [] else base128_digits f (n / 128) ++ [n mod 128]
  end.
Definition base128_enc (n : N) : list N :=
  if n =? 0 then [0]
  else
    let ds := base128_digits (N.to_nat (N.size n)) n in
    map (fun d => 128 + d) (removelast ds) ++ [last ds 0].

(* makeObjectIdentifier: None = the "invalid object identifier" error *)
Definition oid_marshal_content (oid : list N) : option (list N) :=
  match oid with
  | a :: b :: rest =>
      if (2 <? a) || ((a <=? 1) && (40 <=? b)) then None
      else Some (base128_enc (a * 40 + b) ++ flat_map base128_enc rest)
  | _ => None
  end.

(* makeInt64 / int64Encoder: minimal two's complement *)
Fixpoint int_len (fuel : nat) (n : nat) (z : Z) : nat :=
  match fuel with
  | O => n
  | S f =>
      let half := (2 ^ (8 * Z.of_nat n - 1))%Z in
      if ((- half <=? z) && (z <? half))%Z then n else int_len f (S n) z
  end.
Definition int_marshal_content (z : Z) : list N :=
  let n := int_len 8 1 z in
  be_bytes n (Z.to_N (z mod 2 ^ (8 * Z.of_nat n))).
