(* Model of the SMB1 envelope: header.go (Marshal / Unmarshal / IsResponse), the factory dispatch of
   0.command_casting.go (tables regenerated into Gen/SmbLayouts.v) and message.go (Marshal with fresh
   Parameters/Data blocks on every call; Unmarshal).  Hand-written; tied by correspondence. *)
From Coq Require Import List NArith ZArith String Bool.
From Mant Require Import Prim.R Prim.Bytes Model.SmbTypes Model.SmbBlocks Model.SmbLayout Spec.C05.
Import ListNotations.
Open Scope N_scope.
Open Scope list_scope.

Definition header_size : N := 32.

(* The header is a fixed layout of little-endian fields (header.go writes / reads them one by one at
   running offsets); Protocol[4] and the 8 security-feature bytes are carried as byte strings. The Go
   conversions keep only the low bytes of each field (Flags is a uint16 type written as one byte). *)
Definition hdr_layout : list fld :=
  [(4%nat, LE); (1%nat, LE); (4%nat, LE); (1%nat, LE); (2%nat, LE); (2%nat, LE); (8%nat, LE);
   (2%nat, LE); (2%nat, LE); (2%nat, LE); (2%nat, LE); (2%nat, LE)].

Definition hdr_values (h : smb_header) : list N :=
  [le_val (firstn 4 (h_protocol h ++ repeatN 0 4)); h_command h; h_status h; h_flags h; h_flags2 h;
   h_pidhigh h; le_val (firstn 8 (h_security h ++ repeatN 0 8)); h_reserved h; h_tid h; h_pidlow h;
   h_uid h; h_mid h].

Definition header_of_values (vs : list N) : smb_header :=
  {| h_protocol := le_bytes 4 (fv vs 0); h_command := fv vs 1; h_status := fv vs 2; h_flags := fv vs 3;
     h_flags2 := fv vs 4; h_pidhigh := fv vs 5; h_security := le_bytes 8 (fv vs 6); h_reserved := fv vs 7;
     h_tid := fv vs 8; h_pidlow := fv vs 9; h_uid := fv vs 10; h_mid := fv vs 11 |}.

Definition header_marshal (h : smb_header) : R (list N) :=
  let buf := put_fields hdr_layout (hdr_values h) in
  if lenN buf =? header_size then Ok buf else Err.

Definition header_unmarshal (data : list N) : R (smb_header * N) :=
  if lenN data <? header_size then Err else
  let* vs := get_fields hdr_layout data 0 in
  Ok (header_of_values vs, header_size).

(* h.Flags&FLAGS_REPLY == FLAGS_REPLY *)
Definition is_response (flags : N) : bool := N.land flags 128 =? 128.

(* the factory switch: first row whose case value is the code *)
Fixpoint table_lookup (t : list (string * N * string)) (code : N) : option string :=
  match t with
  | [] => None
  | (_, v, ctor) :: r => if v =? code then Some ctor else table_lookup r code
  end.

Definition find_by_name (cmds : list cmd_desc) (name : string) : option cmd_desc :=
  find (fun c => String.eqb (cd_name c) name) cmds.

Section Envelope.
  Variable cmds : list cmd_desc.
  Variable req_table resp_table : list (string * N * string).

  Definition factory_dispatch (code : N) (reply : bool) : option cmd_desc :=
    match table_lookup (if reply then resp_table else req_table) code with
    | Some n => find_by_name cmds n
    | None => None
    end.

  (* Message.Marshal after AddCommand (which sets Header.Command): header, then the command marshalled
     from fresh blocks; returns the bytes and the field values the command holds afterwards *)
  Definition message_marshal (h : smb_header) (c : cmd_desc) (v : valuation) : R (list N * valuation) :=
    let* hb := header_marshal h in
    let* (cb, _, v') := cmd_marshal c cstate_new v in
    Ok (hb ++ cb, v').

  (* n consecutive Marshal calls on one message *)
  Fixpoint message_marshal_n (n : nat) (h : smb_header) (c : cmd_desc) (v : valuation) : list (R (list N)) :=
    match n with
    | O => []
    | S n' =>
        match message_marshal h c v with
        | Ok (bs, v') => Ok bs :: message_marshal_n n' h c v'
        | Err => [Err]
        | Panic => [Panic]
        end
    end.

  Definition message_unmarshal (data : list N) : R (smb_header * cmd_desc * valuation) :=
    if lenN data <? header_size then Err else
    let* hd := go_upto data header_size in
    let* (h, n) := header_unmarshal hd in
    let* rest := go_from data n in
    match factory_dispatch (h_command h) (is_response (h_flags h)) with
    | None => Err
    | Some c =>
        let* v := cmd_unmarshal c (zero_valuation c) rest in
        Ok (h, c, v)
    end.
End Envelope.
