(* Dispatch table of property C08: harness entry-point names -> model. *)
From Coq Require Import List NArith ZArith String Bool.
From Mant Require Import Prim.R Prim.Val Prim.Bytes Model.DispUtil Model.C08Text Model.C08Asn1
  Model.Spnego Model.NtlmSsp Model.SpnegoAuth Gen.ConstsC08.
Import ListNotations.
Open Scope string_scope.

Definition v_version (v : version) : val :=
  VL [vN (v_major v); vN (v_minor v); vN (v_build v); VB (v_reserved v); vN (v_revision v)].

Definition v_challenge (c : challenge) : val :=
  VL [VB (ch_target_name c); vN (ch_flags c); VB (ch_server_challenge c); VB (ch_reserved c);
      VB (ch_target_info c); v_version (ch_version c)].

Definition ob (o : option (list N)) : list N := match o with Some b => b | None => [] end.

Definition v_resp (r : neg_token_resp) : val :=
  VL [VN (ntr_state r); VL (map vN (ntr_mech r)); VB (ob (ntr_token r)); VB (ob (ntr_mic r))].

Definition v_avs (m : list (N * list N)) : val :=
  VL (map (fun e => VL [vN (fst e); VB (snd e)]) (av_sort m)).

Definition opt_tok (b : list N) (present : val) : option (list N) :=
  if bool_of_val present then Some b else None.

(* The LM / NT responses are replaced by zero bytes of the length the code computes
   (24 / 24 for NTLMv1, 24 / 48 + len(TargetInfo) for NTLMv2): their values belong to C02. *)
Definition zeros (n : N) : list N := repeatN 0%N (N.to_nat n).
Definition nt_len (flags ti_len : N) : N :=
  if has_flag flags c08_f_ess then (48 + ti_len)%N else 24%N.

Definition process_challenge_zero (tok user domain ws : list N) : R (list N) :=
  process_challenge_token (fun _ => zeros 24)
    (fun ch => zeros (nt_len (ch_flags ch) (lenN (ch_target_info ch)))) tok user domain ws.

Definition dispatch_C08 (f : string) (args : list val) : val :=
  match args with
  | [VN r] =>
      if f =? "text.upper_rune" then vN (upper_rune (Z.to_N r)) else vunknown
  | [VB b] =>
      if f =? "text.to_upper" then VB (go_to_upper b)
      else if f =? "text.utf16le" then VB (go_utf16le b)
      else if f =? "spnego.extract" then r_bytes (extract_ntlm_token b)
      else if f =? "spnego.parse_resp" then r_val v_resp (parse_neg_token_resp b)
      else if f =? "ntlm.parse_challenge" then r_val v_challenge (parse_challenge b)
      else if f =? "ntlm.parse_target_info" then r_val v_avs (parse_target_info b)
      else if f =? "version.unmarshal" then r_val v_version (version_unmarshal b)
      else vunknown
  | [VB tok; present] =>
      if f =? "spnego.create_init" then r_bytes (create_neg_token_init (opt_tok tok present))
      else vunknown
  | [VN state; VL mech; VB tok; present] =>
      if f =? "spnego.create_resp"
      then r_bytes (create_neg_token_resp state (map n_of_val mech) (opt_tok tok present))
      else vunknown
  | [VB domain; VB ws; unicode] =>
      if f =? "ntlm.create_negotiate" then r_bytes (create_negotiate domain ws (bool_of_val unicode))
      else if f =? "spnego.create_negotiate_token" then r_bytes (create_negotiate_token domain ws (bool_of_val unicode))
      else vunknown
  | [VN major; VN minor; VN build; VB rsv; VN rev] =>
      if f =? "version.marshal"
      then VB (version_marshal {| v_major := Z.to_N major; v_minor := Z.to_N minor; v_build := Z.to_N build;
                                  v_reserved := rsv; v_revision := Z.to_N rev |})
      else vunknown
  | [VN flags; VB sc; VB ti; VB user; VB password; VB domain; VB ws] =>
      if f =? "ntlm.create_authenticate"
      then let fl := Z.to_N flags in
           r_bytes (create_authenticate fl (zeros 24) (zeros (nt_len fl (lenN ti))) user domain ws)
      else vunknown
  | [VB tok; VB user; VB password; VB domain; VB ws] =>
      if f =? "spnego.process_challenge" then r_bytes (process_challenge_zero tok user domain ws)
      else vunknown
  | _ => vunknown
  end.
