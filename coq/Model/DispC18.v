(* Routes the harness entry points of C18 to the models. *)
From Coq Require Import List NArith ZArith String Bool.
From Mant Require Import Prim.R Prim.Val Prim.Bytes Model.DispUtil Gen.ConstsC18 Model.NbnsServer Model.NameSrvConc.
Import ListNotations.
Open Scope string_scope.
Open Scope bool_scope.

Definition name_of (n s : val) : nbname := {| nb_name := b_of_val n; nb_scope := b_of_val s |}.

Definition question_of (v : val) : question :=
  match v with
  | VL [n; s; t; c] => {| q_name := name_of n s; q_type := n_of_val t; q_class := n_of_val c |}
  | _ => {| q_name := name_of VErr VErr; q_type := 0; q_class := 0 |}
  end.

Definition rr_of (v : val) : rr :=
  match v with
  | VL [n; s; t; c; ttl; rdl; rd] =>
      {| rr_name := name_of n s; rr_type := n_of_val t; rr_class := n_of_val c; rr_ttl := n_of_val ttl;
         rr_rdlength := n_of_val rdl; rr_rdata := b_of_val rd |}
  | _ => {| rr_name := name_of VErr VErr; rr_type := 0; rr_class := 0; rr_ttl := 0; rr_rdlength := 0; rr_rdata := [] |}
  end.

Definition packet_of (v : val) : packet :=
  match v with
  | VL [id; fl; qd; an; ns; ar; qs; ans; auth; add] =>
      {| p_hdr := {| h_id := n_of_val id; h_flags := n_of_val fl; h_qd := n_of_val qd; h_an := n_of_val an;
                     h_ns := n_of_val ns; h_ar := n_of_val ar |};
         p_questions := map question_of (l_of_val qs); p_answers := map rr_of (l_of_val ans);
         p_authority := map rr_of (l_of_val auth); p_additional := map rr_of (l_of_val add) |}
  | _ => {| p_hdr := {| h_id := 0; h_flags := 0; h_qd := 0; h_an := 0; h_ns := 0; h_ar := 0 |};
            p_questions := []; p_answers := []; p_authority := []; p_additional := [] |}
  end.

Definition val_of_question (q : question) : val :=
  VL [VB (nb_name (q_name q)); VB (nb_scope (q_name q)); vN (q_type q); vN (q_class q)].
Definition val_of_rr (r : rr) : val :=
  VL [VB (nb_name (rr_name r)); VB (nb_scope (rr_name r)); vN (rr_type r); vN (rr_class r); vN (rr_ttl r);
      vN (rr_rdlength r); VB (rr_rdata r)].
Definition val_of_packet (p : packet) : val :=
  let h := p_hdr p in
  VL [vN (h_id h); vN (h_flags h); vN (h_qd h); vN (h_an h); vN (h_ns h); vN (h_ar h);
      VL (map val_of_question (p_questions p)); VL (map val_of_rr (p_answers p));
      VL (map val_of_rr (p_authority p)); VL (map val_of_rr (p_additional p))].

Definition tbl_result (t : table) (r : R table) : val * table :=
  match r with Ok t' => (VN 0%Z, t') | Err => (VErr, t) | Panic => (VPanic, t) end.

Definition apply_op (t : table) (op : val) : val * table :=
  match op with
  | VL [VN 0%Z; p] =>
      match respond t (packet_of p) with
      | Ok (resp, t') => (VL [VN 1%Z; val_of_packet resp], t')
      | Err => (VErr, t)
      | Panic => (VPanic, t)
      end
  | VL [VN 1%Z; VB name; VN ty; VB ip] => tbl_result t (register t name (Z.to_N ty) ip)
  | VL [VN 2%Z; VB name] => tbl_result t (mark_conflict t name)
  | VL [VN 3%Z; VB name] =>
      match query t name with
      | Ok (owners, ty) => (VL [vN ty; VL (map VB owners)], t)
      | _ => (VErr, t)
      end
  | VL [VN 4%Z; VB name; VB ip] => tbl_result t (release t name ip)
  | VL [VN 5%Z; VB name; VB ip] => tbl_result t (refresh t name ip)
  | _ => (vunknown, t)
  end.

Fixpoint session (t : table) (ops : list val) : list val :=
  match ops with
  | [] => []
  | op :: ops' => let '(v, t') := apply_op t op in v :: session t' ops'
  end.

Definition table_of_ops (ops : list val) : table :=
  fold_left (fun t op => snd (apply_op t op)) ops [].

Definition redirect_of_ops (ops : list val) : redirect_map :=
  fold_left (fun m op =>
               match op with
               | VL [VN 0%Z; VB scope; VB ip; VN port] => rd_add m scope ip (Z.to_N port)
               | VL [VN 1%Z; VB scope] => rd_del m scope
               | _ => m
               end) ops [].

Definition dev_of (v : val) : option dev :=
  match v with
  | VL [VN 0%Z; VN id] => Some (DStore (Z.to_N id))
  | VL [VN 1%Z; VN id] => Some (DDelete (Z.to_N id))
  | VL [VN 2%Z; VN id; VN fl; VB name] => Some (DRecv (Z.to_N id) (Z.to_N fl) name)
  | _ => None
  end.

Fixpoint devs_of (l : list val) : list dev :=
  match l with
  | [] => []
  | v :: l' => match dev_of v with Some e => e :: devs_of l' | None => devs_of l' end
  end.

(* The dispatch facts the C18 theorems rest on (harness/c18_ast.go reads them from the source). *)
Definition default_label : list N := [100; 101; 102; 97; 117; 108; 116]%N.   (* "default" *)
Definition fact_dispatch_cases : val :=
  VL [VL [VL [vN c18_OpNameQuery]; VN 0%Z];
      VL [VL [vN c18_OpRegistration]; VN 1%Z];
      VL [VL [vN c18_OpRelease]; VN 2%Z];
      VL [VL [vN c18_OpRefresh; vN c18_OpRefreshAlt]; VN 3%Z];
      VL [VL [VB default_label]; VN 4%Z]].

Definition facts (f : string) : option val :=
  if (f =? "c18.fact.dispatch_mask.server") || (f =? "c18.fact.dispatch_mask.udp_server")
     || (f =? "c18.fact.dispatch_mask.tcp_server") then Some (vN c18_OpcodeMask)
  else if (f =? "c18.fact.dispatch_cases.server") || (f =? "c18.fact.dispatch_cases.udp_server")
     || (f =? "c18.fact.dispatch_cases.tcp_server") then Some fact_dispatch_cases
  else if (f =? "c18.fact.resp_header.server") || (f =? "c18.fact.resp_header.udp_server")
     || (f =? "c18.fact.resp_header.tcp_server") then Some (VN 0%Z)     (* id copied, QDCOUNT left 0 *)
  else if (f =? "c18.fact.handler_arg.server") || (f =? "c18.fact.handler_arg.udp_server")
     || (f =? "c18.fact.handler_arg.llmnr_server") then Some (VN 1%Z)  (* a private copy *)
  else if (f =? "c18.fact.query_guard.challenge") || (f =? "c18.fact.query_guard.redirect")
     then Some (VL [vN c18_OpcodeMask; vN c18_OpNameQuery])
  else if f =? "c18.fact.demux_key.llmnr_client" then Some (VN 1%Z)
  else None.

Definition dispatch_C18 (f : string) (args : list val) : val :=
  match facts f, args with
  | Some v, [] => v
  | _, _ =>
  match args with
  | [VN _; VL ops] =>
      if f =? "nbns.session" then VL (session [] ops) else vunknown
  | [VN _; VN flags] =>
      if f =? "nbns.route" then vN (handler_index (route (Z.to_N flags))) else vunknown
  | [VL ops; req; resp] =>
      if f =? "nbns.defend" then val_of_packet (defend (table_of_ops ops) (packet_of req) (packet_of resp))
      else if f =? "nbns.redirect" then
        let '(did, p) := handle_redirect (redirect_of_ops ops) (packet_of req) (packet_of resp) in
        VL [vbool did; val_of_packet p]
      else vunknown
  | [VB full; VN _] =>
      if f =? "nbns.udp_finish" then VB (udp_finish full)
      else if f =? "nbns.tcp_frame" then match tcp_frame full with Some b => VB b | None => VErr end
      else vunknown
  | [VN id; VN flags; VB name; VN qtype] =>
      if f =? "llmnr.server_roundtrip" then
        if llmnr_is_query (Z.to_N flags)
        then VL [VN id; vN (llmnr_set_response (Z.to_N flags)); VN 1%Z; VN 1%Z; VB name; VB name]
        else VN 0%Z
      else vunknown
  | [VL evs] =>
      if f =? "llmnr.client_demux" then
        VL (map (fun c => match c with
                          | None => VL []
                          | Some (id, name) => VL [VL [vN id; VB name]]
                          end) (d_chans (drun (devs_of evs))))
      else vunknown
  | _ => vunknown
  end
  end.
