(* Models of the Windows time / duration conversions (hand-written; tied by correspondence):
     windows/ms_dtyp/common/data_structures/FILETIME.go
     network/ldap/utils.go                       (the four Convert* functions)
     windows/keycredential/utils/DateTime.go, utils.go (ConvertFromBinaryTime / ConvertToBinaryTime)
     crypto/uuid/uuid_v1/uuid_v1.go, uuid_v2/uuid_v2.go (GetTime / SetTime)
   Every fixed-width operation of the Go code is written with its wrap-around ([wrap64s] for
   int64, [wrap64u] for uint64) exactly where Go performs it; Go's `/` and `%` on signed
   integers are [Z.quot] / [Z.rem] (truncation toward zero).  Definitions only.

   A Go time.Time is observed through (t.Unix(), t.Nanosecond()) and modelled as that pair
   [(sec, nsec)] with [0 <= nsec < 10^9]; locations and monotonic readings are not observable
   through the functions modelled here.  The epoch constants come from Gen/ConstsC15.v, which
   go2coq regenerates from the source on every run. *)
From Coq Require Import List NArith ZArith Bool.
From Mant Require Import Prim.R Prim.Bytes Prim.Dec Gen.ConstsC15.
Import ListNotations.
Open Scope Z_scope.

(* ------------------------------------------------------------------ fixed-width arithmetic *)

Definition wrap64u (z : Z) : Z := z mod 18446744073709551616.
Definition wrap64s (z : Z) : Z := (z + 9223372036854775808) mod 18446744073709551616 - 9223372036854775808.

Definition e7 : Z := 10000000.
Definition e9 : Z := 1000000000.

(* ------------------------------------------------------------------ package time *)

Definition gotime : Type := (Z * Z)%type.   (* (t.Unix(), t.Nanosecond()) *)

(* time.Unix(sec, nsec): nsec outside [0, 1e9) is carried into sec (int64 arithmetic). *)
Definition time_unix (sec nsec : Z) : gotime :=
  if (nsec <? 0) || (nsec >=? e9) then
    let n := Z.quot nsec e9 in
    let sec1 := wrap64s (sec + n) in
    let nsec1 := nsec - n * e9 in            (* |nsec1| < 1e9: cannot wrap *)
    if nsec1 <? 0 then (wrap64s (sec1 - 1), nsec1 + e9) else (sec1, nsec1)
  else (sec, nsec).

(* t.UnixNano(): int64 arithmetic, wraps outside the years 1678..2262 *)
Definition unix_nano (t : gotime) : Z := wrap64s (wrap64s (fst t * e9) + snd t).

(* The zero time.Time (January 1, year 1 UTC) as (Unix(), Nanosecond()) *)
Definition zero_time : gotime := (-62135596800, 0).

(* time.Date(1601, 1, 1, 0, 0, 0, 0, time.UTC) and time.Date(1970, 1, 1, ...) as used by DateTime.go *)
Definition date_1601 : gotime := (-11644473600, 0).
Definition date_1970 : gotime := (0, 0).

(* ------------------------------------------------------------------ FILETIME.go *)

Definition filetime_epoch : Z := Z.of_N c_filetime_unix_epoch_ticks.

(* A FILETIME is (DwLowDateTime, DwHighDateTime), each in [0, 2^32). *)
Definition filetime : Type := (Z * Z)%type.

Definition filetime_from_time_go (t : gotime) : filetime :=
  let value := wrap64s (wrap64s (wrap64s (fst t * 10000000) + Z.quot (snd t) 100) + filetime_epoch) in
  (Z.land value 4294967295, Z.land (Z.shiftr value 32) 4294967295).

(* (int64(hi) & 0xFFFFFFFF << 32) | (int64(lo) & 0xFFFFFFFF): & and << have the same precedence *)
Definition filetime_to_int64_go (ft : filetime) : Z :=
  Z.lor (wrap64s (Z.shiftl (Z.land (snd ft) 4294967295) 32)) (Z.land (fst ft) 4294967295).

Definition filetime_get_time_go (ft : filetime) : gotime :=
  let ticks := filetime_to_int64_go ft in
  let seconds := wrap64s (Z.quot ticks 10000000 - Z.quot filetime_epoch 10000000) in
  time_unix seconds (wrap64s (Z.rem ticks 10000000 * 100)).

Definition filetime_get_unix_timestamp_go (ft : filetime) : Z := fst (filetime_get_time_go ft).

(* Unmarshal returns (bytes read, FILETIME) *)
Definition filetime_unmarshal (data : list N) : R (Z * filetime) :=
  if (lenN data <? 8)%N then Err else
  let* a := go_slice data 0 4 in
  let* lo := go_le_uint 4 a in
  let* b := go_slice data 4 8 in
  let* hi := go_le_uint 4 b in
  Ok (8, (Z.of_N lo, Z.of_N hi)).

Definition filetime_marshal (ft : filetime) : list N :=
  le32 (Z.to_N (fst ft)) ++ le32 (Z.to_N (snd ft)).

(* ------------------------------------------------------------------ network/ldap/utils.go *)

Definition ldap_epoch : Z := Z.of_N c_ldap_unix_epoch_ticks.

(* strconv.ParseInt(s, 10, 64): optional sign, at least one digit, only digits, value in int64
   (base 10 is explicit, so no underscores or prefixes); Err is the returned error. *)
Definition parse_int64 (s : list N) : R Z :=
  match s with
  | [] => Err
  | c :: r =>
      let neg := (c =? 45)%N in
      let digits := if ((c =? 43) || (c =? 45))%N then r else s in
      match parse_dec digits with
      | None => Err
      | Some n =>
          let z := if neg then - Z.of_N n else Z.of_N n in
          if (-9223372036854775808 <=? z) && (z <=? 9223372036854775807) then Ok z else Err
      end
  end.

Definition ldap_timestamp_to_unix_go (value : list N) : R Z :=
  if (lenN value =? 0)%N then Ok 0 else
  match parse_int64 value with
  | Ok v =>
      if v <? ldap_epoch then Ok 0
      else Ok (Z.quot (wrap64s (v - ldap_epoch)) 10000000)
  | Err => Ok 0
  | Panic => Panic
  end.

Definition ldap_duration_to_seconds_go (value : list N) : R Z :=
  if (lenN value =? 0)%N then Ok 0 else
  match parse_int64 value with
  | Ok v =>
      let c := Z.quot v 10000000 in
      if c <? 0 then Ok (wrap64s (- c)) else Ok c
  | Err => Ok 0
  | Panic => Panic
  end.

(* math/big product, printed in decimal *)
Definition ldap_seconds_to_duration_go (value : Z) : list N := print_decZ (value * 10000000).

Definition ldap_unix_to_timestamp_go (t : gotime) : Z :=
  wrap64s (wrap64s (fst t * 10000000) + ldap_epoch).

(* ------------------------------------------------------------------ keycredential/utils *)

(* DateTime{Time, Ticks} as (Ticks, Time); Ticks is a uint64 *)
Definition datetime : Type := (Z * gotime)%type.

Definition zero_datetime : datetime := (0, zero_time).

(* [now] stands for time.Now(), which NewDateTime substitutes for the tick count 0 *)
Definition new_datetime_go (now : gotime) (ticks : Z) : datetime :=
  let nanos_between := wrap64u (wrap64s (unix_nano date_1970 - unix_nano date_1601)) in
  if ticks =? 0 then
    let now_ns := wrap64u (unix_nano now) in
    (wrap64u (nanos_between + now_ns) / 100, now)
  else
    let seconds_between := wrap64s (fst date_1970 - fst date_1601) in
    (ticks, time_unix (wrap64s (wrap64s (ticks / 10000000) - seconds_between))
                      (wrap64s (wrap64s (ticks mod 10000000) * 100))).

Definition datetime_to_ticks (dt : datetime) : Z := fst dt.
Definition datetime_to_bytes (dt : datetime) : list N := le64 (Z.to_N (fst dt)).

Definition kc_version_0 : Z := 0.
Definition kc_version_1 : Z := 256.
Definition kc_version_2 : Z := 512.
Definition kc_source_ad : Z := 0.

Definition convert_from_binary_time_go (now : gotime) (raw : list N) (source version : Z) : R datetime :=
  if (lenN raw <? 8)%N then Ok zero_datetime else
  let* ts := go_le_uint 8 raw in
  let ts := Z.of_N ts in
  if (version =? kc_version_0) || (version =? kc_version_1) then Ok (new_datetime_go now ts)
  else if version =? kc_version_2 then
    (if source =? kc_source_ad then Ok (new_datetime_go now ts) else Ok (new_datetime_go now ts))
  else
    (if source =? kc_source_ad then Ok (new_datetime_go now ts) else Ok (new_datetime_go now ts)).

Definition convert_to_binary_time_go (date : gotime) (source version : Z) : list N :=
  let ts := wrap64s (wrap64s (wrap64s (fst date + 11644473600) * 10000000) + Z.quot (snd date) 100) in
  le64 (Z.to_N (wrap64u ts)).

(* ------------------------------------------------------------------ crypto/uuid v1 / v2 *)

Definition uuid_get_time_go (epoch : Z) (timestamp : Z) : gotime :=
  let unix_seconds := wrap64s (wrap64s (timestamp / 10000000) - wrap64s (epoch / 10000000)) in
  let nanoseconds := wrap64s (wrap64s (timestamp mod 10000000) * 100) in
  time_unix unix_seconds nanoseconds.

Definition uuid_set_time_go (epoch : Z) (t : gotime) : Z :=
  let unix_ticks := wrap64s (wrap64s (fst t * 10000000) + Z.quot (snd t) 100) in
  wrap64u (wrap64u unix_ticks + epoch).

Definition uuidv1_epoch : Z := Z.of_N c_uuidv1_epoch_ticks.
Definition uuidv2_epoch : Z := Z.of_N c_uuidv2_epoch_ticks.

Definition uuidv1_get_time_go := uuid_get_time_go uuidv1_epoch.
Definition uuidv1_set_time_go := uuid_set_time_go uuidv1_epoch.
Definition uuidv2_get_time_go := uuid_get_time_go uuidv2_epoch.
Definition uuidv2_set_time_go := uuid_set_time_go uuidv2_epoch.
