(* Routes the harness entry points of C10 (harness/c10.go) to the models.
   name := (x<name> x<scope>) | () ; header := (n n n n n n) ; question := (name n n) ;
   rr := (name n n n n x) ; packet := (header (question...) (rr...) (rr...) (rr...)) *)
From Coq Require Import List NArith ZArith String.
From Mant Require Import Prim.R Prim.Val Model.DispUtil Model.NbName Model.NbPacket.
Import ListNotations.
Open Scope string_scope.

Definition name_of_val (v : val) : option nbname :=
  match v with
  | VL [VB n; VB s] => Some (mk_nbname n s)
  | _ => None
  end.

Definition val_of_name (n : nbname) : val := VL [VB (nb_name n); VB (nb_scope n)].
Definition val_of_oname (n : option nbname) : val :=
  match n with Some n => val_of_name n | None => VL [] end.

Definition q_of_val (v : val) : nbquestion :=
  match v with
  | VL [n; t; c] => mk_q (name_of_val n) (n_of_val t) (n_of_val c)
  | _ => mk_q None 0 0
  end.

Definition rr_of_val (v : val) : nbrr :=
  match v with
  | VL [n; t; c; ttl; rdl; VB rd] => mk_rr (name_of_val n) (n_of_val t) (n_of_val c) (n_of_val ttl) (n_of_val rdl) rd
  | _ => mk_rr None 0 0 0 0 []
  end.

Definition hdr_of_val (v : val) : nbheader :=
  match v with
  | VL [a; b; c; d; e; f] => mk_hdr (n_of_val a) (n_of_val b) (n_of_val c) (n_of_val d) (n_of_val e) (n_of_val f)
  | _ => mk_hdr 0 0 0 0 0 0
  end.

Definition pkt_of_val (v : val) : nbpacket :=
  match v with
  | VL [h; VL qs; VL an; VL ns; VL ar] =>
      mk_pkt (hdr_of_val h) (map q_of_val qs) (map rr_of_val an) (map rr_of_val ns) (map rr_of_val ar)
  | _ => mk_pkt (mk_hdr 0 0 0 0 0 0) [] [] [] []
  end.

Definition val_of_q (q : nbquestion) : val := VL [val_of_oname (q_name q); vN (q_type q); vN (q_class q)].
Definition val_of_rr (r : nbrr) : val :=
  VL [val_of_oname (rr_name r); vN (rr_type r); vN (rr_class r); vN (rr_ttl r); vN (rr_rdlength r); VB (rr_rdata r)].
Definition val_of_hdr (h : nbheader) : val :=
  VL [vN (h_id h); vN (h_flags h); vN (h_qd h); vN (h_an h); vN (h_ns h); vN (h_ar h)].
Definition val_of_pkt (p : nbpacket) : val :=
  VL [val_of_hdr (p_hdr p); VL (map val_of_q (p_qs p)); VL (map val_of_rr (p_an p));
      VL (map val_of_rr (p_ns p)); VL (map val_of_rr (p_ar p))].

Definition dispatch_C10 (f : string) (args : list val) : val :=
  match args with
  | [VB n; VB s] =>
      if f =? "nb.validate" then (if validate (mk_nbname n s) then VN 0%Z else VErr)
      else if f =? "nb.encode" then r_bytes (first_level_encode (mk_nbname n s))
      else vunknown
  | [VB b] =>
      if f =? "nb.decode" then r_val val_of_name (first_level_decode b)
      else if f =? "nbp.unmarshal" then r_val (fun r => VL [vN (fst r); val_of_pkt (snd r)]) (unmarshal b)
      else vunknown
  | [VL p] =>
      if f =? "nbp.marshal" then r_bytes (marshal (pkt_of_val (VL p)))
      else vunknown
  | _ => vunknown
  end.
