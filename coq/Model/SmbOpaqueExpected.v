(* The regenerated descriptions of the SMB command structures that contain statements the translator cannot follow
   (cd_opaque non-empty), as they were when those structures were last examined by hand.  These structures have no
   theorem of their own (C04 static comparison, C05 deviations and C07 guard analysis skip them; the Go-side oracles
   cover them), so that nothing about them changes unnoticed their whole description - recognised statements AND the
   text of the opaque ones - is required to stay what it was (Properties/SmbOpaque.v).  Recorded by
   tools/gen_smb_opaque_expected.py, reviewed, committed; never written by a check. *)
From Coq Require Import List NArith String.
From Mant Require Import Model.SmbTypes Model.SmbLayout.
Import ListNotations.
Open Scope string_scope.
Open Scope N_scope.

Definition expected_cmd_FindResponse : cmd_desc := {|
  cd_name := "FindResponse";
  cd_code := 130;
  cd_andx := false;
  cd_request := false;
  cd_params_first := true;
  cd_empty := EmptyBoth;
  cd_decl := [("Count", TInt 2); ("DirectoryInformationData", TArray (TNamed "SMB_DIRECTORY_INFORMATION"))];
  cd_marshal := [
    MNestedArray SD "DirectoryInformationData" (TArray (TNamed "SMB_DIRECTORY_INFORMATION"));
    MInt SP "Count" 2 BE
  ];
  cd_unmarshal := [
    UReset SP;
    UGuard SP (EConst 2);
    UInt SP "Count" 2 BE (EConst 2);
    UAdv (EConst 2);
    UReset SD;
    UOpaque "c.DirectoryInformationData = []types.SMB_DIRECTORY_INFORMATION{}";
    UOpaque "// Each directory information entry is 43 bytes fixed size const entrySize = 43";
    UOpaque "for offset+entrySize <= len(rawDataContent) { dirInfo := types.NewSMB_DIRECTORY_INFORMATION() bytesRead, err := dirInfo.Unmarshal(rawDataContent[offset : offset+entrySize]) if err != nil { return offset, err } c.DirectoryInformationData = append(c.DirectoryInformationData, *dirInfo) offset += bytesRead }"
  ];
  cd_opaque := ["Unmarshal: c.DirectoryInformationData = []types.SMB_DIRECTORY_INFORMATION{}"; "Unmarshal: // Each directory information entry is 43 bytes fixed size const entrySize = 43"; "Unmarshal: for offset+entrySize <= len(rawDataContent) { dirInfo := types.NewSMB_DIRECTORY_INFORMATION() bytesRead, err := dirInfo.Unmarshal(rawDataContent[offset : offset+entrySize]) if err != nil { return offset, err } c.DirectoryInformationData = append(c.DirectoryInformationData, *dirInfo) offset += bytesRead }"]
|}.
Definition expected_cmd_FindUniqueResponse : cmd_desc := {|
  cd_name := "FindUniqueResponse";
  cd_code := 131;
  cd_andx := false;
  cd_request := false;
  cd_params_first := true;
  cd_empty := EmptyBoth;
  cd_decl := [("Count", TInt 2); ("DirectoryInformationData", TArray (TNamed "SMB_DIRECTORY_INFORMATION"))];
  cd_marshal := [
    MNestedArray SD "DirectoryInformationData" (TArray (TNamed "SMB_DIRECTORY_INFORMATION"));
    MInt SP "Count" 2 BE
  ];
  cd_unmarshal := [
    UReset SP;
    UGuard SP (EConst 2);
    UInt SP "Count" 2 BE (EConst 2);
    UAdv (EConst 2);
    UReset SD;
    UOpaque "c.DirectoryInformationData = []types.SMB_DIRECTORY_INFORMATION{}";
    UOpaque "// Each directory information entry is 43 bytes fixed size const entrySize = 43";
    UOpaque "for offset+entrySize <= len(rawDataContent) { dirInfo := types.NewSMB_DIRECTORY_INFORMATION() bytesRead, err := dirInfo.Unmarshal(rawDataContent[offset : offset+entrySize]) if err != nil { return offset, err } c.DirectoryInformationData = append(c.DirectoryInformationData, *dirInfo) offset += bytesRead }"
  ];
  cd_opaque := ["Unmarshal: c.DirectoryInformationData = []types.SMB_DIRECTORY_INFORMATION{}"; "Unmarshal: // Each directory information entry is 43 bytes fixed size const entrySize = 43"; "Unmarshal: for offset+entrySize <= len(rawDataContent) { dirInfo := types.NewSMB_DIRECTORY_INFORMATION() bytesRead, err := dirInfo.Unmarshal(rawDataContent[offset : offset+entrySize]) if err != nil { return offset, err } c.DirectoryInformationData = append(c.DirectoryInformationData, *dirInfo) offset += bytesRead }"]
|}.
Definition expected_cmd_LockingAndxRequest : cmd_desc := {|
  cd_name := "LockingAndxRequest";
  cd_code := 36;
  cd_andx := true;
  cd_request := true;
  cd_params_first := true;
  cd_empty := EmptyBoth;
  cd_decl := [("FID", TInt 2); ("TypeOfLock", TInt 1); ("NewOpLockLevel", TInt 1); ("Timeout", TInt 4); ("NumberOfRequestedUnlocks", TInt 2); ("NumberOfRequestedLocks", TInt 2); ("Unlocks", TArray (TNamed "LOCKING_ANDX_RANGE64")); ("Locks", TArray (TNamed "LOCKING_ANDX_RANGE64"))];
  cd_marshal := [
    MNestedArray SD "Unlocks" (TArray (TNamed "LOCKING_ANDX_RANGE64"));
    MNestedArray SD "Locks" (TArray (TNamed "LOCKING_ANDX_RANGE64"));
    MInt SP "FID" 2 BE;
    MInt SP "TypeOfLock" 1 LE;
    MInt SP "NewOpLockLevel" 1 LE;
    MInt SP "Timeout" 4 BE;
    MInt SP "NumberOfRequestedUnlocks" 2 BE;
    MInt SP "NumberOfRequestedLocks" 2 BE
  ];
  cd_unmarshal := [
    UReset SP;
    UGuard SP (EConst 2);
    UInt SP "FID" 2 BE (EConst 2);
    UAdv (EConst 2);
    UGuard SP (EConst 1);
    UInt SP "TypeOfLock" 1 LE (EConst 1);
    UAdv (EConst 1);
    UGuard SP (EConst 1);
    UInt SP "NewOpLockLevel" 1 LE (EConst 1);
    UAdv (EConst 1);
    UGuard SP (EConst 4);
    UInt SP "Timeout" 4 BE (EConst 4);
    UAdv (EConst 4);
    UGuard SP (EConst 2);
    UInt SP "NumberOfRequestedUnlocks" 2 BE (EConst 2);
    UAdv (EConst 2);
    UGuard SP (EConst 2);
    UInt SP "NumberOfRequestedLocks" 2 BE (EConst 2);
    UAdv (EConst 2);
    UReset SD;
    UOpaque "for i := 0; i < int(c.NumberOfRequestedUnlocks); i++ { if len(rawDataContent) < offset+20 { return offset, fmt.Errorf(""rawDataContent too short for Unlocks[%d]"", i) } unlock := types.LOCKING_ANDX_RANGE64{} bytesRead, err := unlock.Unmarshal(rawDataContent[offset : offset+20]) if err != nil { return offset, fmt.Errorf(""error unmarshalling unlock: %v"", err) } c.Unlocks = append(c.Unlocks, unlock) offset += bytesRead }";
    UOpaque "for i := 0; i < int(c.NumberOfRequestedLocks); i++ { if len(rawDataContent) < offset+20 { return offset, fmt.Errorf(""rawDataContent too short for Locks[%d]"", i) } lock := types.LOCKING_ANDX_RANGE64{} bytesRead, err := lock.Unmarshal(rawDataContent[offset : offset+20]) if err != nil { return offset, fmt.Errorf(""error unmarshalling lock: %v"", err) } c.Locks = append(c.Locks, lock) offset += bytesRead }"
  ];
  cd_opaque := ["Unmarshal: for i := 0; i < int(c.NumberOfRequestedUnlocks); i++ { if len(rawDataContent) < offset+20 { return offset, fmt.Errorf(""rawDataContent too short for Unlocks[%d]"", i) } unlock := types.LOCKING_ANDX_RANGE64{} bytesRead, err := unlock.Unmarshal(rawDataContent[offset : offset+20]) if err != nil { return offset, fmt.Errorf(""error unmarshalling unlock: %v"", err) } c.Unlocks = append(c.Unlocks, unlock) offset += bytesRead }"; "Unmarshal: for i := 0; i < int(c.NumberOfRequestedLocks); i++ { if len(rawDataContent) < offset+20 { return offset, fmt.Errorf(""rawDataContent too short for Locks[%d]"", i) } lock := types.LOCKING_ANDX_RANGE64{} bytesRead, err := lock.Unmarshal(rawDataContent[offset : offset+20]) if err != nil { return offset, fmt.Errorf(""error unmarshalling lock: %v"", err) } c.Locks = append(c.Locks, lock) offset += bytesRead }"]
|}.
Definition expected_cmd_NegotiateResponse : cmd_desc := {|
  cd_name := "NegotiateResponse";
  cd_code := 114;
  cd_andx := false;
  cd_request := false;
  cd_params_first := true;
  cd_empty := EmptyBoth;
  cd_decl := [("DialectIndex", TInt 2); ("SecurityMode", TInt 1); ("MaxMpxCount", TInt 2); ("MaxNumberVcs", TInt 2); ("MaxBufferSize", TInt 4); ("MaxRawSize", TInt 4); ("SessionKey", TInt 4); ("Capabilities", TInt 4); ("SystemTime", TNamed "FILETIME"); ("ServerTimeZone", TInt 2); ("ChallengeLength", TInt 1); ("Challenge", TBytes); ("DomainName", TBytes); ("ServerName", TBytes)];
  cd_marshal := [
    MDerive "ChallengeLength" "Challenge";
    MBytes SD "Challenge";
    MBytes SD "DomainName";
    MInt SP "DialectIndex" 2 LE;
    MInt SP "SecurityMode" 1 LE;
    MInt SP "MaxMpxCount" 2 LE;
    MInt SP "MaxNumberVcs" 2 LE;
    MInt SP "MaxBufferSize" 4 LE;
    MInt SP "MaxRawSize" 4 LE;
    MInt SP "SessionKey" 4 LE;
    MInt SP "Capabilities" 4 LE;
    MNested SP "SystemTime" (TNamed "FILETIME") "";
    MInt SP "ServerTimeZone" 2 LE;
    MInt SP "ChallengeLength" 1 LE
  ];
  cd_unmarshal := [
    UOpaque "if c.GetParameters() == nil { c.SetParameters(parameters.NewParameters()) }";
    UOpaque "if c.GetData() == nil { c.SetData(data.NewData()) }";
    UOpaque "bytesRead, err := c.GetParameters().Unmarshal(marshalledData)";
    UOpaque "_, err = c.GetData().Unmarshal(marshalledData[bytesRead:])";
    UReset SP;
    UGuard SP (EConst 2);
    UInt SP "DialectIndex" 2 LE (EConst 2);
    UAdv (EConst 2);
    UGuard SP (EConst 1);
    UInt SP "SecurityMode" 1 LE (EConst 1);
    UAdv (EConst 1);
    UGuard SP (EConst 2);
    UInt SP "MaxMpxCount" 2 LE (EConst 2);
    UAdv (EConst 2);
    UGuard SP (EConst 2);
    UInt SP "MaxNumberVcs" 2 LE (EConst 2);
    UAdv (EConst 2);
    UGuard SP (EConst 4);
    UInt SP "MaxBufferSize" 4 LE (EConst 4);
    UAdv (EConst 4);
    UGuard SP (EConst 4);
    UInt SP "MaxRawSize" 4 LE (EConst 4);
    UAdv (EConst 4);
    UGuard SP (EConst 4);
    UInt SP "SessionKey" 4 LE (EConst 4);
    UAdv (EConst 4);
    UGuard SP (EConst 4);
    UInt SP "Capabilities" 4 LE (EConst 4);
    UAdv (EConst 4);
    UGuard SP (EConst 8);
    UNested SP "SystemTime" (TNamed "FILETIME") (EConst 8);
    UAdv ERead;
    UGuard SP (EConst 2);
    UInt SP "ServerTimeZone" 2 LE (EConst 2);
    UAdv (EConst 2);
    UGuard SP (EConst 1);
    UInt SP "ChallengeLength" 1 LE (EConst 1);
    UAdv (EConst 1);
    UReset SD;
    UGuard SD (EField "ChallengeLength");
    UBytes SD "Challenge" (EField "ChallengeLength");
    UAdv (EField "ChallengeLength");
    UOpaque "rawDataContent = rawDataContent[offset:]";
    UOpaque "domainName, offset := utils.GetNullTerminatedUnicodeString(rawDataContent)";
    UOpaque "c.DomainName = []types.UCHAR(domainName)";
    UOpaque "rawDataContent = rawDataContent[offset:]";
    UOpaque "serverName, offset := utils.GetNullTerminatedUnicodeString(rawDataContent)";
    UOpaque "c.ServerName = []types.UCHAR(serverName)"
  ];
  cd_opaque := ["Unmarshal: if c.GetParameters() == nil { c.SetParameters(parameters.NewParameters()) }"; "Unmarshal: if c.GetData() == nil { c.SetData(data.NewData()) }"; "Unmarshal: bytesRead, err := c.GetParameters().Unmarshal(marshalledData)"; "Unmarshal: _, err = c.GetData().Unmarshal(marshalledData[bytesRead:])"; "Unmarshal: rawDataContent = rawDataContent[offset:]"; "Unmarshal: domainName, offset := utils.GetNullTerminatedUnicodeString(rawDataContent)"; "Unmarshal: c.DomainName = []types.UCHAR(domainName)"; "Unmarshal: rawDataContent = rawDataContent[offset:]"; "Unmarshal: serverName, offset := utils.GetNullTerminatedUnicodeString(rawDataContent)"; "Unmarshal: c.ServerName = []types.UCHAR(serverName)"]
|}.
Definition expected_cmd_SessionSetupAndxRequest : cmd_desc := {|
  cd_name := "SessionSetupAndxRequest";
  cd_code := 115;
  cd_andx := true;
  cd_request := true;
  cd_params_first := true;
  cd_empty := EmptyBoth;
  cd_decl := [("MaxBufferSize", TInt 2); ("MaxMpxCount", TInt 2); ("VcNumber", TInt 2); ("SessionKey", TInt 4); ("OEMPasswordLen", TInt 2); ("UnicodePasswordLen", TInt 2); ("Reserved", TInt 4); ("Capabilities", TInt 4); ("OEMPassword", TBytes); ("UnicodePassword", TBytes); ("Pad", TBytes); ("AccountName", TNamed "SMB_STRING"); ("PrimaryDomain", TNamed "SMB_STRING"); ("NativeOS", TNamed "SMB_STRING"); ("NativeLanMan", TNamed "SMB_STRING")];
  cd_marshal := [
    MBytes SD "OEMPassword";
    MBytes SD "UnicodePassword";
    MBytes SD "Pad";
    MNested SD "AccountName" (TNamed "SMB_STRING") "types.SMB_STRING_BUFFER_FORMAT_NULL_TERMINATED_ASCII_STRING";
    MNested SD "PrimaryDomain" (TNamed "SMB_STRING") "types.SMB_STRING_BUFFER_FORMAT_VARIABLE_BLOCK_16BIT";
    MNested SD "NativeOS" (TNamed "SMB_STRING") "types.SMB_STRING_BUFFER_FORMAT_VARIABLE_BLOCK_16BIT";
    MNested SD "NativeLanMan" (TNamed "SMB_STRING") "types.SMB_STRING_BUFFER_FORMAT_VARIABLE_BLOCK_16BIT";
    MInt SP "MaxBufferSize" 2 BE;
    MInt SP "MaxMpxCount" 2 BE;
    MInt SP "VcNumber" 2 BE;
    MInt SP "SessionKey" 4 BE;
    MInt SP "OEMPasswordLen" 2 BE;
    MInt SP "UnicodePasswordLen" 2 BE;
    MInt SP "Reserved" 4 BE;
    MInt SP "Capabilities" 4 BE
  ];
  cd_unmarshal := [
    UReset SP;
    UGuard SP (EConst 2);
    UInt SP "MaxBufferSize" 2 BE (EConst 2);
    UAdv (EConst 2);
    UGuard SP (EConst 2);
    UInt SP "MaxMpxCount" 2 BE (EConst 2);
    UAdv (EConst 2);
    UGuard SP (EConst 2);
    UInt SP "VcNumber" 2 BE (EConst 2);
    UAdv (EConst 2);
    UGuard SP (EConst 4);
    UInt SP "SessionKey" 4 BE (EConst 4);
    UAdv (EConst 4);
    UGuard SP (EConst 2);
    UInt SP "OEMPasswordLen" 2 BE (EConst 2);
    UAdv (EConst 2);
    UGuard SP (EConst 2);
    UInt SP "UnicodePasswordLen" 2 BE (EConst 2);
    UAdv (EConst 2);
    UGuard SP (EConst 4);
    UInt SP "Reserved" 4 BE (EConst 4);
    UAdv (EConst 4);
    UGuard SP (EConst 4);
    UInt SP "Capabilities" 4 BE (EConst 4);
    UAdv (EConst 4);
    UReset SD;
    UGuard SD (EField "OEMPasswordLen");
    UBytes SD "OEMPassword" (EField "OEMPasswordLen");
    UAdv (EField "OEMPasswordLen");
    UGuard SD (EField "UnicodePasswordLen");
    UBytes SD "UnicodePassword" (EField "UnicodePasswordLen");
    UAdv (EField "UnicodePasswordLen");
    ULet "padLen" (EField "UnicodePasswordLen");
    UOpaque "if padLen%2 == 1 { padLen++ }";
    UGuard SD (EVar "padLen");
    UBytes SD "Pad" (EVar "padLen");
    UAdv (EVar "padLen");
    UNested SD "AccountName" (TNamed "SMB_STRING") ERest;
    UAdv ERead;
    UNested SD "PrimaryDomain" (TNamed "SMB_STRING") ERest;
    UAdv ERead;
    UNested SD "NativeOS" (TNamed "SMB_STRING") ERest;
    UAdv ERead;
    UNested SD "NativeLanMan" (TNamed "SMB_STRING") ERest;
    UAdv ERead
  ];
  cd_opaque := ["Unmarshal: if padLen%2 == 1 { padLen++ }"]
|}.
Definition expected_cmd_SessionSetupAndxResponse : cmd_desc := {|
  cd_name := "SessionSetupAndxResponse";
  cd_code := 115;
  cd_andx := true;
  cd_request := false;
  cd_params_first := true;
  cd_empty := EmptyBoth;
  cd_decl := [("Action", TInt 2); ("Pad", TBytes); ("NativeOS", TNamed "SMB_STRING"); ("NativeLanMan", TNamed "SMB_STRING"); ("PrimaryDomain", TNamed "SMB_STRING")];
  cd_marshal := [
    MBytes SD "Pad";
    MNested SD "NativeOS" (TNamed "SMB_STRING") "types.SMB_STRING_BUFFER_FORMAT_VARIABLE_BLOCK_16BIT";
    MNested SD "NativeLanMan" (TNamed "SMB_STRING") "types.SMB_STRING_BUFFER_FORMAT_VARIABLE_BLOCK_16BIT";
    MNested SD "PrimaryDomain" (TNamed "SMB_STRING") "types.SMB_STRING_BUFFER_FORMAT_VARIABLE_BLOCK_16BIT";
    MInt SP "Action" 2 BE
  ];
  cd_unmarshal := [
    UReset SP;
    UGuard SP (EConst 2);
    UInt SP "Action" 2 BE (EConst 2);
    UAdv (EConst 2);
    UReset SD;
    ULet "padLen" (EConst 0);
    UOpaque "if (len(rawParametersContent)+3)%2 == 1 { padLen = 1 }";
    UGuard SD (EVar "padLen");
    UBytes SD "Pad" (EVar "padLen");
    UAdv (EVar "padLen");
    UNested SD "NativeOS" (TNamed "SMB_STRING") ERest;
    UAdv ERead;
    UNested SD "NativeLanMan" (TNamed "SMB_STRING") ERest;
    UAdv ERead;
    UNested SD "PrimaryDomain" (TNamed "SMB_STRING") ERest;
    UAdv ERead
  ];
  cd_opaque := ["Unmarshal: if (len(rawParametersContent)+3)%2 == 1 { padLen = 1 }"]
|}.
Definition expected_cmd_SetInformationRequest : cmd_desc := {|
  cd_name := "SetInformationRequest";
  cd_code := 9;
  cd_andx := false;
  cd_request := true;
  cd_params_first := true;
  cd_empty := EmptyBoth;
  cd_decl := [("FileAttributes", TNamed "SMB_FILE_ATTRIBUTES"); ("LastWriteTime", TNamed "FILETIME"); ("Reserved", TFixedArray 5 (TInt 1)); ("FileName", TNamed "SMB_STRING")];
  cd_marshal := [
    MNested SD "FileName" (TNamed "SMB_STRING") "types.SMB_STRING_BUFFER_FORMAT_NULL_TERMINATED_ASCII_STRING";
    MNested SP "FileAttributes" (TNamed "SMB_FILE_ATTRIBUTES") "";
    MNested SP "LastWriteTime" (TNamed "FILETIME") "";
    MBytes SP "Reserved"
  ];
  cd_unmarshal := [
    UReset SP;
    UNested SP "FileAttributes" (TNamed "SMB_FILE_ATTRIBUTES") ERest;
    UAdv ERead;
    UGuard SP (EConst 8);
    UNested SP "LastWriteTime" (TNamed "FILETIME") ERest;
    UAdv ERead;
    UGuard SP (EConst 10);
    UOpaque "copy(c.Reserved[:], rawParametersContent[offset:offset+10])";
    UAdv (EConst 10);
    UReset SD;
    UNested SD "FileName" (TNamed "SMB_STRING") ERest;
    UAdv ERead
  ];
  cd_opaque := ["Unmarshal: copy(c.Reserved[:], rawParametersContent[offset:offset+10])"]
|}.
Definition expected_cmd_WriteRequest : cmd_desc := {|
  cd_name := "WriteRequest";
  cd_code := 11;
  cd_andx := false;
  cd_request := true;
  cd_params_first := true;
  cd_empty := EmptyBoth;
  cd_decl := [("FID", TInt 2); ("CountOfBytesToWrite", TInt 2); ("WriteOffsetInBytes", TInt 4); ("EstimateOfRemainingBytesToBeWritten", TInt 2); ("Data", TNamed "SMB_STRING")];
  cd_marshal := [
    MOpaque "marshalledCommand = append(marshalledCommand, marshalledDataField...)";
    MInt SP "FID" 2 BE;
    MInt SP "CountOfBytesToWrite" 2 BE;
    MInt SP "WriteOffsetInBytes" 4 BE;
    MInt SP "EstimateOfRemainingBytesToBeWritten" 2 BE
  ];
  cd_unmarshal := [
    UReset SP;
    UGuard SP (EConst 2);
    UInt SP "FID" 2 BE (EConst 2);
    UAdv (EConst 2);
    UGuard SP (EConst 2);
    UInt SP "CountOfBytesToWrite" 2 BE (EConst 2);
    UAdv (EConst 2);
    UGuard SP (EConst 4);
    UInt SP "WriteOffsetInBytes" 4 BE (EConst 4);
    UAdv (EConst 4);
    UGuard SP (EConst 2);
    UInt SP "EstimateOfRemainingBytesToBeWritten" 2 BE (EConst 2);
    UAdv (EConst 2);
    UReset SD;
    UGuard SD (EConst 2);
    UOpaque "c.Data.Unmarshal(rawDataContent[offset:])";
    UOpaque "offset += int(c.Data.Length)"
  ];
  cd_opaque := ["Marshal: marshalledCommand = append(marshalledCommand, marshalledDataField...)"; "Unmarshal: c.Data.Unmarshal(rawDataContent[offset:])"; "Unmarshal: offset += int(c.Data.Length)"]
|}.
Definition expected_untranslated : list cmd_desc := [
  expected_cmd_FindResponse;
  expected_cmd_FindUniqueResponse;
  expected_cmd_LockingAndxRequest;
  expected_cmd_NegotiateResponse;
  expected_cmd_SessionSetupAndxRequest;
  expected_cmd_SessionSetupAndxResponse;
  expected_cmd_SetInformationRequest;
  expected_cmd_WriteRequest
].
