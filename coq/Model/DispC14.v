(* Routes the C14 harness entry points (harness/c14.go) to Model/KeyCred.v. *)
From Coq Require Import List NArith ZArith String Bool.
From Mant Require Import Prim.R Prim.Bytes Prim.Val Model.DispUtil Model.Guid Model.WinTime Model.KeyCred.
Import ListNotations.
Open Scope string_scope.

(* The clock is not an input of the property: the model is run with a sentinel clock (Unix second 1,
   nanosecond 1).  Ticks read from the wire always give a nanosecond field that is a multiple of 100, so a
   DateTime whose nanosecond field is 1 was read from the clock; it is observed as (). *)
Definition sentinel_now : gotime := (1%Z, 1%Z).

Definition rsa_of_val (v : val) : rsa :=
  match v with
  | VL [VN ks; VN e; VB m; VB p1; VB p2] => mkRsa (Z.to_N ks) (Z.to_N e) m p1 p2
  | _ => zero_rsa
  end.
Definition v_rsa (r : rsa) : val :=
  VL [vN (rKeySize r); vN (rExponent r); VB (rModulus r); VB (rPrime1 r); VB (rPrime2 r)].

Definition cki_of_val (v : val) : cki :=
  match v with
  | VL [VN ver; VN f; VN vol; VN nt; VN fek; VN st; VB res; VB ext; VN sz] =>
      mkCki (Z.to_N ver) (Z.to_N f) (Z.to_N vol) (negb (Z.eqb nt 0)) (Z.to_N fek) (Z.to_N st) res ext (Z.to_N sz)
  | _ => zero_cki
  end.
Definition v_cki (c : cki) : val :=
  VL [vN (cVersion c); vN (cFlags c); vN (cVolume c); vbool (cNotify c); vN (cFek c); vN (cStrength c);
      VB (cReserved c); VB (cExt c); vN (cRawSize c)].

Definition guid_of_bytes (b : list N) : guid := match guid_from_raw b with Ok g => g | _ => zero_guid end.

Definition kc_of_val (v : val) : kcred :=
  match v with
  | VL [VN ver; VB id; VB kh; r; VN usage; VB legacy; VN source; c; VB dev; VN ll; VN cr] =>
      mkKc (Z.to_N ver) id kh (rsa_of_val r) (Z.to_N usage) legacy (Z.to_N source) (cki_of_val c)
           (guid_of_bytes dev) (ll, zero_time) (cr, zero_time) []
  | _ => zero_kc
  end.

Definition v_dt (dt : datetime) : val :=
  if Z.eqb (snd (snd dt)) 1 then VL [] else VL [VN (fst dt); VN (fst (snd dt)); VN (snd (snd dt))].

Definition v_kc (k : kcred) : val :=
  VL [vN (kVersion k); VB (kIdentifier k); VB (kKeyHash k); v_rsa (kRsa k); vN (kUsage k); VB (kLegacy k);
      vN (kSource k); v_cki (kCki k); VB (guid_to_bytes (kDevice k)); v_dt (kLastLogon k); v_dt (kCreation k)].

Definition dispatch_C14 (f : string) (args : list val) : val :=
  match args with
  | [VB b] =>
      if f =? "c14.ver.from_bytes" then r_val vN (ver_from_bytes b)
      else if f =? "c14.rsa.from_bytes" then r_val v_rsa (rsa_from_bytes b)
      else if f =? "c14.compute_hash" then VB (compute_hash b)
      else if f =? "c14.kc.from_bytes" then r_val v_kc (kc_from_bytes sentinel_now zero_kc b)
      else if f =? "c14.kc.reserialize" then
        match kc_from_bytes sentinel_now zero_kc b with
        | Ok k => match kc_to_bytes k with Ok o => VB o | Err => VL [VErr] | Panic => VPanic end
        | Err => VErr
        | Panic => VPanic
        end
      else if f =? "c14.kc.verify" then r_val vbool (kc_verify sentinel_now b)
      else if f =? "c14.kc.hash_raw" then r_val (fun r => VB (fst r)) (compute_key_hash (set_raw zero_kc b))
      else if f =? "c14.dn.parse" then r_val (fun r => VL [VB (fst r); VB (snd r)]) (dn_parse b)
      else vunknown
  | [VN n] =>
      if f =? "c14.ver.to_bytes" then VB (ver_to_bytes (Z.to_N n)) else vunknown
  | [VL _ as v] =>
      if f =? "c14.rsa.to_bytes" then VB (rsa_to_bytes (rsa_of_val v))
      else if f =? "c14.cki.to_bytes" then VB (cki_to_bytes (cki_of_val v))
      else if f =? "c14.kc.to_bytes" then r_bytes (kc_to_bytes (kc_of_val v))
      else vunknown
  | [VB b; VN v] =>
      if f =? "c14.cki.from_bytes" then
        r_val (fun r => VL [vbool (snd r); v_cki (fst r)]) (cki_from_bytes zero_cki b)
      else if f =? "c14.id.to_binary" then r_bytes (id_to_binary b (Z.to_N v))
      else if f =? "c14.id.from_binary" then VB (id_from_binary b (Z.to_N v))
      else if f =? "c14.key_identifier" then VB (compute_key_identifier b (Z.to_N v))
      else vunknown
  | [VB b1; VB b2; VN v] =>
      if f =? "c14.cki.from_bytes2" then
        match cki_from_bytes zero_cki b1 with
        | Ok (c, _) => r_val (fun r => VL [vbool (snd r); v_cki (fst r)]) (cki_from_bytes c b2)
        | Err => VErr
        | Panic => VPanic
        end
      else vunknown
  | [VB a; VB b] =>
      if f =? "c14.kc.integrity" then
        r_val (fun r => vbool (fst r)) (check_integrity (set_keyhash (set_raw zero_kc a) b))
      else if f =? "c14.dn.to_string" then VB (dn_to_string a b)
      else if f =? "c14.kc.parse_dn" then r_val v_kc (kc_parse_dn sentinel_now zero_kc a b)
      else vunknown
  | [VN v; VB id; r; VB dev; VN ll; VN cr] =>
      if f =? "c14.kc.new" then
        match new_key_credential (Z.to_N v) id (rsa_of_val r) (guid_of_bytes dev)
                (new_datetime_go sentinel_now ll) (new_datetime_go sentinel_now cr) with
        | Ok k =>
            match kc_to_bytes k with
            | Ok blob => match check_integrity k with
                         | Ok (ok, _) => VL [VB (kKeyHash k); VB blob; vbool ok]
                         | Err => VErr
                         | Panic => VPanic
                         end
            | Err => VL [VB (kKeyHash k); VErr]
            | Panic => VPanic
            end
        | Err => VErr
        | Panic => VPanic
        end
      else vunknown
  | _ => vunknown
  end.
