(* Models of /repo/crypto/nt/nt.go, crypto/lm/lm.go, crypto/dcc/dcc.go, crypto/dcc2/dcc2.go.
   Definitions only.  The compositions follow the Go code; what they call is
   - Manticore's own MD4 (Model/Md4Go.v: New / Write / Sum on the streaming object),
   - Manticore's EncodeUTF16LE (Model/C01Text.v),
   - Go standard library / x/crypto, MODELLED by the shared references and validated against the real
     packages by the ALGO check: crypto/des -> Algo.DES.des_encrypt, x/crypto/pbkdf2.Key(.., sha1.New) ->
     Algo.PBKDF2.pbkdf2_hmac_sha1_fast, encoding/hex -> Prim.Dec.hex_of_bytes, fmt %d -> print_decZ,
     strings.ToLower/ToUpper -> C01Text.go_to_lower/go_to_upper (rune mapping is a parameter). *)
From Coq Require Import List NArith ZArith Bool.
From Mant Require Import Prim.Bytes Prim.Dec Algo.Word Algo.DES Algo.PBKDF2 Model.Md4Go Model.C01Text.
Import ListNotations.
Open Scope N_scope.

(* hash := md4.New(); hash.Write(x); hash.Sum()   — the same three calls as md4.Sum(data) (Md4Go.md4_sum_data) *)
Definition md4_of (x : list N) : list N := md4_sum_data x.

(* strings.ToLower(hex.EncodeToString(h[:])) : EncodeToString already yields lower-case digits *)
Definition hex_lower (h : list N) : list N := map to_lower (hex_of_bytes false h).

(* ------------------------------------------------------------------ nt.go *)
Definition nt_hash (password : list N) : list N := md4_of (encode_utf16le password).
Definition nt_hash_hex (password : list N) : list N := hex_lower (nt_hash password).

(* ------------------------------------------------------------------ lm.go *)
Definition shl8 (x k : N) : N := wrap8 (N.shiftl x k).      (* byte << k *)

(* the inline "Add parity bits" block: 7 bytes -> 8 bytes (no parity is actually computed) *)
Definition lm_spread (h : list N) : list N :=
  let b i := nth i h 0 in
  [ b 0%nat;
    N.lor (shl8 (b 0%nat) 7) (N.shiftr (b 1%nat) 1);
    N.lor (shl8 (b 1%nat) 6) (N.shiftr (b 2%nat) 2);
    N.lor (shl8 (b 2%nat) 5) (N.shiftr (b 3%nat) 3);
    N.lor (shl8 (b 3%nat) 4) (N.shiftr (b 4%nat) 4);
    N.lor (shl8 (b 4%nat) 3) (N.shiftr (b 5%nat) 5);
    N.lor (shl8 (b 5%nat) 2) (N.shiftr (b 6%nat) 6);
    shl8 (b 6%nat) 1 ].

Definition lm_magic : list N := [75; 71; 83; 33; 64; 35; 36; 37].     (* "KGS!@#$%" *)

Definition lm_pad14 (p : list N) : list N :=
  let p := if (14 <? length p)%nat then firstn 14 p else p in
  p ++ zeros (14 - length p).

Definition lm_hash (upper_cp : N -> N) (password : list N) : list N :=
  let p := lm_pad14 (go_to_upper upper_cp password) in
  let k1 := lm_spread (firstn 7 p) in
  let k2 := lm_spread (skipn 7 p) in
  des_encrypt k1 lm_magic ++ des_encrypt k2 lm_magic.

Definition lm_hash_hex (upper_cp : N -> N) (password : list N) : list N :=
  hex_lower (lm_hash upper_cp password).

(* ------------------------------------------------------------------ dcc.go *)
Section DCC.
  Variable lower_cp : N -> N.

  Definition dcc_from_nt (nt : list N) (username : list N) : list N :=
    let usernameBytes := encode_utf16le (go_to_lower lower_cp username) in
    md4_of (nt ++ usernameBytes).
  Definition dcc_from_password (password username : list N) : list N :=
    dcc_from_nt (nt_hash password) username.
  Definition dcc_from_password_hex (password username : list N) : list N :=
    hex_lower (dcc_from_password password username).
  Definition dcc_from_nt_hex (nt username : list N) : list N :=
    hex_lower (dcc_from_nt nt username).
  (* fmt.Sprintf("%s:%s", dccHash, strings.ToLower(username)) *)
  Definition dcc_from_password_hashcat (password username : list N) : list N :=
    dcc_from_password_hex password username ++ [58] ++ go_to_lower lower_cp username.
  Definition dcc_from_nt_hashcat (nt username : list N) : list N :=
    dcc_from_nt_hex nt username ++ [58] ++ go_to_lower lower_cp username.

  (* ---------------------------------------------------------------- dcc2.go *)
  (* the 16 raw bytes pbkdf2.Key(dcc1Hash[:], usernameBytes, rounds, 16, sha1.New); rounds is a Go int
     (a count <= 1 runs no further iteration, as in x/crypto/pbkdf2) *)
  Definition dcc2_raw (username nt : list N) (rounds : Z) : list N :=
    let usernameBytes := encode_utf16le (go_to_lower lower_cp username) in
    let dcc1 := md4_of (nt ++ usernameBytes) in
    pbkdf2_hmac_sha1_fast dcc1 usernameBytes (Z.to_N rounds) 16.

  Definition dcc2_prefix : list N := [36; 68; 67; 67; 50; 36].          (* "$DCC2$" *)
  (* fmt.Sprintf("$DCC2$%d#%s#%s", rounds, username, hex.EncodeToString(dcc2Hash)) — username as supplied *)
  Definition dcc2_with_nt (username nt : list N) (rounds : Z) : list N :=
    dcc2_prefix ++ print_decZ rounds ++ [35] ++ username ++ [35] ++ hex_of_bytes false (dcc2_raw username nt rounds).
  Definition dcc2_with_password (username password : list N) (rounds : Z) : list N :=
    dcc2_with_nt username (nt_hash password) rounds.
  Definition dcc2_hash (username password : list N) (rounds : Z) : list N :=
    dcc2_with_password username password rounds.
End DCC.
