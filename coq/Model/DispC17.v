(* Routes the C17 harness entry points to the name-table models.

   An operation is  (0 name type ip ttl_hours) register | (1 name) query | (2 name ip) release |
   (3 name ip) refresh | (4 name) mark conflict | (5) clean expired.
   The i-th operation of a history reads the clock at i nanoseconds; a ttl is given in hours
   (the real clock of a harness run advances strictly, by far less than an hour in total). *)
From Coq Require Import List NArith ZArith String Bool.
From Mant Require Import Prim.R Prim.Val Model.DispUtil Model.NameTable Model.NameTableHeap.
Import ListNotations.
Open Scope string_scope.

Definition hour_ns : Z := 3600000000000%Z.

Definition op_of_val (v : val) : option op :=
  match v with
  | VL [VN 0%Z; VB n; VN ty; VB a; VN ttl] => Some (Register n (Z.to_N ty) a (ttl * hour_ns)%Z)
  | VL [VN 1%Z; VB n] => Some (Query n)
  | VL [VN 2%Z; VB n; VB a] => Some (Release n a)
  | VL [VN 3%Z; VB n; VB a] => Some (Refresh n a)
  | VL [VN 4%Z; VB n] => Some (MarkConflict n)
  | VL [VN 5%Z] => Some CleanExpired
  | _ => None
  end.

Fixpoint ops_of_vals (vs : list val) : option (list op) :=
  match vs with
  | [] => Some []
  | v :: vs' =>
      match op_of_val v, ops_of_vals vs' with
      | Some o, Some os => Some (o :: os)
      | _, _ => None
      end
  end.

Fixpoint clocked (i : Z) (os : list op) : history :=
  match os with
  | [] => []
  | o :: os' => (i, o) :: clocked (i + 1)%Z os'
  end.

Definition out_val (x : out) : val :=
  match x with
  | OOk => VN 0%Z
  | OErr => VErr
  | OPanic => VPanic
  | OOwners l ty => VL [VL (map VB l); vN ty]
  end.

Definition hours_rounded (t : Z) : Z := ((t + 1800000000000) / hour_ns)%Z.

(* the record of a probed name at the end of the history, read at clock [tend] *)
Definition dump_rec (tend : Z) (r : option record) : val :=
  match r with
  | None => VL []
  | Some r => VL [vN (r_type r); vN (r_status r); VL (map VB (r_owners r));
                  vbool (expired tend r); VN (hours_rounded (r_ttl r)); VN (r_refresh r)]
  end.

Definition run_val (ops probes : list val) : val :=
  match ops_of_vals ops with
  | None => vunknown
  | Some os =>
      let '(t, xs) := run empty (clocked 0%Z os) in
      let tend := Z.of_nat (List.length os) in
      VL [VL (map out_val xs);
          VL (map (fun p => dump_rec tend (tget t (b_of_val p))) probes);
          vnat (List.length t)]
  end.

(* slice level: the same observations plus, per probed record, len, cap and the whole backing
   array (stale slots included); per query result its location is reported as "fresh" (1) when it
   is not the location of any record of the table *)
Definition hout_val (st : hstate) (x : hout) : val :=
  match x with
  | HOk => VN 0%Z
  | HErr => VErr
  | HPanic => VPanic
  | HOwners l len ty => VL [VL (map VB (firstn len (cell (hs_heap st) l))); vN ty]
  end.

Definition hdump_rec (tend : Z) (h : heap) (r : option hrecord) : val :=
  match r with
  | None => VL []
  | Some r => VL [vN (h_type r); vN (h_status r); VL (map VB (firstn (h_len r) (cell h (h_loc r))));
                  vbool (h_ttl r <? tend)%Z; VN (hours_rounded (h_ttl r)); VN (h_refresh r);
                  vnat (h_len r); vnat (List.length (cell h (h_loc r))); VL (map VB (cell h (h_loc r)))]
  end.

Fixpoint hrun_vals (st : hstate) (h : history) : hstate * list val :=
  match h with
  | [] => (st, [])
  | (now, o) :: h' =>
      let '(st1, x) := hstep now st o in
      let v := hout_val st1 x in
      let '(st2, vs) := hrun_vals st1 h' in
      (st2, v :: vs)
  end.

Definition hrun_val (ops probes : list val) : val :=
  match ops_of_vals ops with
  | None => vunknown
  | Some os =>
      let '(st, vs) := hrun_vals hempty (clocked 0%Z os) in
      let tend := Z.of_nat (List.length os) in
      VL [VL vs;
          VL (map (fun p => hdump_rec tend (hs_heap st) (tget (hs_tbl st) (b_of_val p))) probes);
          vnat (List.length (hs_tbl st))]
  end.

Definition dispatch_C17 (f : string) (args : list val) : val :=
  match args with
  | [VL ops; VL probes] =>
      if f =? "nt.run" then run_val ops probes
      else if f =? "nt.runheap" then hrun_val ops probes
      else vunknown
  | [VB a; VB b] =>
      if f =? "nt.ipequal" then vbool (ip_equal a b) else vunknown
  | _ => vunknown
  end.
