(* Model of network/smb/smb_v10/message/commands/utils/utils.go (after the fix ee86f41):
     GetNullTerminatedUnicodeString(data) -> (string, offset of the byte after the terminator)
     GetNullTerminatedString(data)        -> (string, offset of the byte after the terminator)
   Both are total on every input; without a terminator the string runs to the end of the data and the offset
   is clamped to len(data).  Definitions only. *)
From Coq Require Import List NArith Bool.
From Mant Require Import Prim.Bytes.
Import ListNotations.
Open Scope N_scope.

(* for i := 0; i+1 < len(data); i += 2 { if data[i] == 0 && data[i+1] == 0 { break } else { append both } } *)
Fixpoint unicode_scan (data : list N) : list N :=
  match data with
  | a :: b :: rest => if (a =? 0) && (b =? 0) then [] else a :: b :: unicode_scan rest
  | _ => []
  end.

Definition clamp (next len : N) : N := if len <? next then len else next.

Definition get_nt_unicode (data : list N) : list N * N :=
  let s := unicode_scan data in (s, clamp (lenN s + 2) (lenN data)).

(* for i := 0; i < len(data); i++ { if data[i] == 0 { break } else { append } } *)
Fixpoint byte_scan (data : list N) : list N :=
  match data with
  | a :: rest => if a =? 0 then [] else a :: byte_scan rest
  | [] => []
  end.

Definition get_nt_string (data : list N) : list N * N :=
  let s := byte_scan data in (s, clamp (lenN s + 1) (lenN data)).
