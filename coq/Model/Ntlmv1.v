(* Model of crypto/ntlmv1/ntlmv1.go (hand-written; tied by the correspondence cases named ntlmv1.xxx).
   ParityBit, ParityAdjust (the bit-list implementation it is), Hash, NTResponse, LMResponse, String —
   the three response entry points are modelled separately because they are written separately — and the
   two constructors.  nt.NTHash is MD4(EncodeUTF16LE(password)) and lm.LMHash the classic LM one-way
   function; both belong to C01 and are modelled here by the reference algorithms only as far as the
   ntlmv1 entry points call them.  Definitions only.

   Since the fixes f8902fa / 346a305 the response methods return an error unless the NT hash has 16 and
   the server challenge 8 bytes; every slice expression and the DES block operation keep their Go
   panic conditions in the model (they are proved unreachable in Proofs/C02V1.v).

   ParityBit takes a Go int; the model covers n >= 0 (for n < 0 the loop `for n != 0 { n >>= 1 }` never
   ends: arithmetic shift; ParityAdjust only passes byte values). *)
From Coq Require Import List NArith Bool.
From Mant Require Import Prim.R Prim.Bytes Prim.Dec Prim.C02Text Algo.MD4 Algo.DES.
Import ListNotations.
Open Scope N_scope.

(* ---- ParityBit ----  parity := 1; for n != 0 { if n&1 == 1 { parity ^= 1 }; n >>= 1 } *)
Fixpoint parity_pos (p : positive) (parity : N) : N :=
  match p with
  | xH => N.lxor parity 1
  | xO q => parity_pos q parity
  | xI q => parity_pos q (N.lxor parity 1)
  end.
Definition parity_bit (n : N) : N :=
  match n with N0 => 1 | Npos p => parity_pos p 1 end.

(* ---- ParityAdjust ---- *)
(* for _, b := range key { for i := 7; i >= 0; i-- { keyBits = append(keyBits, (b>>i)&1) } } *)
Definition byte_key_bits (b : N) : list N :=
  map (fun i => N.land (N.shiftr b i) 1) [7; 6; 5; 4; 3; 2; 1; 0].
Definition key_bits (key : list N) : list N := flat_map byte_key_bits key.

(* for offset, bit := range chunk { if bit == 1 { b |= 1 << (7 - offset) } } *)
Fixpoint pa_byte (bits : list N) (offset : N) (acc : N) : N :=
  match bits with
  | [] => acc
  | bit :: r => pa_byte r (offset + 1) (if bit =? 1 then N.lor acc (N.shiftl 1 (7 - offset)) else acc)
  end.

(* for i := 0; i < len(keyBits); i += 7 { ... keyBits[i:i+7] ... } — keyBits has been cut to a multiple of
   7, so the slice expression never panics and the loop ends on the empty rest *)
Fixpoint pa_chunks (bits : list N) : list N :=
  match bits with
  | b1 :: b2 :: b3 :: b4 :: b5 :: b6 :: b7 :: r =>
      let b := pa_byte [b1; b2; b3; b4; b5; b6; b7] 0 0 in
      N.lor b (wrap8 (parity_bit b)) :: pa_chunks r
  | _ => []
  end.

Definition parity_adjust (key : list N) : list N :=
  let bits := key_bits key in
  (* keyBits = keyBits[:len(keyBits)-len(keyBits)%7] *)
  let bits := firstn (length bits - Nat.modulo (length bits) 7) bits in
  pa_chunks bits.

(* ---- the callees ---- *)
Definition nt_hash (password : list N) : list N := md4 (go_utf16le password).

(* firstKey[0] = h[0]; firstKey[i] = h[i-1] << (8-i) | h[i] >> i; firstKey[7] = h[6] << 1  (byte arithmetic) *)
Definition lm_key (h : list N) : list N :=
  let g i := nth i h 0 in
  [ g 0%nat;
    N.lor (wrap8 (N.shiftl (g 0%nat) 7)) (N.shiftr (g 1%nat) 1);
    N.lor (wrap8 (N.shiftl (g 1%nat) 6)) (N.shiftr (g 2%nat) 2);
    N.lor (wrap8 (N.shiftl (g 2%nat) 5)) (N.shiftr (g 3%nat) 3);
    N.lor (wrap8 (N.shiftl (g 3%nat) 4)) (N.shiftr (g 4%nat) 4);
    N.lor (wrap8 (N.shiftl (g 4%nat) 3)) (N.shiftr (g 5%nat) 5);
    N.lor (wrap8 (N.shiftl (g 5%nat) 2)) (N.shiftr (g 6%nat) 6);
    wrap8 (N.shiftl (g 6%nat) 1) ].

Definition lm_magic : list N := [75; 71; 83; 33; 64; 35; 36; 37]. (* "KGS!@#$%" *)

Section Upper.
Variable upper : list N -> list N.   (* strings.ToUpper *)

Definition lm_hash (password : list N) : list N :=
  let p := upper password in
  let p := if 14 <? lenN p then firstn 14 p else p in
  let p := p ++ repeatN 0 (14 - length p) in
  des_encrypt (lm_key (firstn 7 p)) lm_magic ++ des_encrypt (lm_key (skipn 7 p)) lm_magic.
End Upper.

(* des.NewCipher(key) followed by Encrypt(make([]byte, 8), src) *)
Definition des_block (key src : list N) : R (list N) :=
  if negb (lenN key =? 8) then Err                  (* KeySizeError *)
  else if lenN src <? 8 then Panic                  (* "crypto/des: input not full block" *)
  else Ok (des_encrypt key (firstn 8 src)).

(* ---- Hash ---- *)
Definition ntlmv1_hash (nthash password sc : list N) : R (list N) :=
  if (lenN nthash =? 0) && (lenN password =? 0) then Err else
  let nthash := if lenN nthash =? 0 then nt_hash password else nthash in
  if negb (lenN nthash =? 16) then Err else
  if negb (lenN sc =? 8) then Err else
  (* rawKeys = append(rawKeys, bytes.Repeat([]byte{0}, 21-len(rawKeys))...) *)
  if 21 <? lenN nthash then Panic else
  let raw := nthash ++ repeatN 0 (21 - length nthash) in
  let* key1 := go_slice raw 0 7 in
  let* ct1 := des_block (parity_adjust key1) sc in
  let* key2 := go_slice raw 7 14 in
  let* ct2 := des_block (parity_adjust key2) sc in
  let* key3 := go_slice raw 14 21 in
  let* ct3 := des_block (parity_adjust key3) sc in
  Ok (ct1 ++ ct2 ++ ct3).

(* String: upper-case hexadecimal of Hash, "" on error *)
Definition ntlmv1_string (nthash password sc : list N) : R (list N) :=
  match ntlmv1_hash nthash password sc with
  | Ok h => Ok (hex_of_bytes true h)
  | Err => Ok []
  | Panic => Panic
  end.

(* ---- NTResponse ---- *)
Definition nt_response (nthash sc : list N) : R (list N) :=
  if negb (lenN nthash =? 16) then Err else
  if negb (lenN sc =? 8) then Err else
  let* key1 := go_upto nthash 7 in
  let* key2 := go_slice nthash 7 14 in
  let* key3 := go_slice nthash 14 16 in
  let key3 := key3 ++ repeatN 0 5 in                 (* append(key3, make([]byte, 5)...) *)
  let key1 := parity_adjust key1 in
  let key2 := parity_adjust key2 in
  let key3 := parity_adjust key3 in
  if negb (lenN key1 =? 8) || negb (lenN key2 =? 8) || negb (lenN key3 =? 8) then Err else
  let* r1 := des_block key1 sc in
  let* r2 := des_block key2 sc in
  let* r3 := des_block key3 sc in
  Ok (r1 ++ r2 ++ r3).

(* ---- LMResponse ---- (lmhash = lm.LMHash(n.Password)) *)
Definition lm_response_of (lmhash sc : list N) : R (list N) :=
  if negb (lenN sc =? 8) then Err else
  let* key1 := go_upto lmhash 7 in
  let* key2 := go_slice lmhash 7 14 in
  let* key3 := go_slice lmhash 14 16 in
  let key3 := key3 ++ repeatN 0 5 in
  let key1 := parity_adjust key1 in
  let key2 := parity_adjust key2 in
  let key3 := parity_adjust key3 in
  if negb (lenN key1 =? 8) || negb (lenN key2 =? 8) || negb (lenN key3 =? 8) then Err else
  let* r1 := des_block key1 sc in
  let* r2 := des_block key2 sc in
  let* r3 := des_block key3 sc in
  Ok (r1 ++ r2 ++ r3).

Definition lm_response (upper : list N -> list N) (password sc : list N) : R (list N) :=
  lm_response_of (lm_hash upper password) sc.

(* ---- constructors ---- the struct as (NTHash, Password, ServerChallenge) *)
Definition new_with_password (password sc : list N) : R (list N * list N * list N) :=
  if negb (lenN sc =? 8) then Err else Ok (nt_hash password, password, sc).
Definition new_with_nthash (nthash sc : list N) : R (list N * list N * list N) :=
  if negb (lenN sc =? 8) then Err else Ok (nthash, [], sc).
