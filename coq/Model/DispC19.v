From Coq Require Import List NArith ZArith String Ascii Bool.
From Mant Require Import Prim.R Prim.Val Model.DispUtil Model.Flags Gen.Tables Gen.TablesNt.
Import ListNotations.
Open Scope string_scope.

Fixpoint bytes_of_string (s : string) : list N :=
  match s with EmptyString => [] | String c r => N_of_ascii c :: bytes_of_string r end.
Fixpoint string_of_bytes (l : list N) : string :=
  match l with [] => EmptyString | b :: r => String (ascii_of_N b) (string_of_bytes r) end.

Definition vS (s : string) : val := VB (bytes_of_string s).

(* strings.Join(list, "|") with "NONE" for the empty list *)
Definition joined_or (dflt : string) (l : list string) : val :=
  match l with [] => vS dflt | _ => vS (join_str "|" l) end.

Definition all_preds : list pred_entry := preds_flags ++ preds_flags2 ++ preds_securitymode.

Definition find_pred (recv meth : string) : option pred_entry :=
  find (fun p => String.eqb (pe_recv p) recv && String.eqb (pe_method p) meth) all_preds.

Definition name_table (n : string) : option (list map_entry) :=
  if n =? "CommandCode" then Some map_codes_CommandCodeNames
  else if n =? "NtTransactSubcommand" then Some map_subcommands_NtTransactSubcommandsToString
  else if n =? "Transaction2Subcommand" then Some map_subcommands_Transaction2SubcommandsToString
  else if n =? "TransactionSubcommand" then Some map_subcommands_TransactionSubcommandsToString
  else if n =? "SESSION_MESSAGE_TYPE" then Some map_netbios_SessionMessageTypeToString
  else if n =? "SAMAccountType" then Some map_ldap_attributes_SAMAccountTypeMap
  else if n =? "MSPKIEnrollmentFlag" then Some map_ldap_attributes_MSPKIEnrollmentFlagMap
  else if n =? "PasswordProperties" then Some map_ldap_attributes_PasswordPropertiesMap
  else if n =? "PasswordPropertiesDescription" then Some map_ldap_attributes_PasswordPropertiesDescriptions
  else if n =? "DomainFunctionalityLevel" then Some map_ldap_attributes_DomainFunctionalityLevelToWindowsVersion
  else if n =? "NT_STATUS" then Some map_nt_status_NTStatusToStringName
  else None.

Definition switch_table (n : string) : option (list switch_entry) :=
  if n =? "KeyCredentialEntryType" then Some switch_key_KeyCredentialEntryType_String
  else if n =? "KeyCredentialVersion" then Some switch_key_KeyCredentialVersion_String
  else if n =? "KeySource" then Some switch_key_KeySource_String
  else if n =? "KeyUsage" then Some switch_key_KeyUsage_String
  else if n =? "CustomKeyInformationVolumeType" then Some switch_key_CustomKeyInformationVolumeType_String
  else None.

Definition found (o : option string) : val :=
  match o with Some s => VL [VN 1%Z; vS s] | None => VL [VN 0%Z; VB []] end.

Definition dispatch_C19 (f : string) (args : list val) : val :=
  match args with
  | [VN w] =>
      let w := Z.to_N w in
      if f =? "c19.flags" then joined_or "NONE" (decompose chain_flags_Flags_String w)
      else if f =? "c19.flags2" then joined_or "NONE" (decompose chain_flags2_Flags2_String w)
      else if f =? "c19.capabilities" then joined_or "NONE" (decompose chain_capabilities_Capabilities_String w)
      else if f =? "c19.uac" then vS (join_str "|" (sort_strings (map_decompose map_ldap_attributes_UserAccountControlMap w)))
      else if f =? "c19.ckiflags" then
        match decompose chain_key_CustomKeyInformationFlags_FromBytes w with
        | [] => VL [vS "None"]
        | l => VL (map vS l)
        end
      else if f =? "c19.nt_error" then
        match lookup map_nt_status_NTStatusToGoErrorMap (Z.of_N w) with
        | Some _ => if (w =? 0)%N then VL [VN 0%Z; VN 0%Z] else VL [VN 1%Z; VN 1%Z]
        | None => VL [VN 0%Z; VN 0%Z]
        end
      else vunknown
  | [VB recv; VB meth; VN w] =>
      if f =? "c19.pred" then
        match find_pred (string_of_bytes recv) (string_of_bytes meth) with
        | Some p => vbool (pred_holds p (Z.to_N w))
        | None => vunknown
        end
      else vunknown
  | [VB tbl; VN v] =>
      if f =? "c19.name" then
        match name_table (string_of_bytes tbl) with
        | Some t => found (lookup t v)
        | None => vunknown
        end
      else if f =? "c19.switch" then
        match switch_table (string_of_bytes tbl) with
        | Some t => found (lookup_switch t v)
        | None => vunknown
        end
      else vunknown
  | _ => vunknown
  end.
