(* Model of network/smb/smb_v10/spnego/spnego.go: CreateNegTokenInit, CreateNegTokenResp,
   ParseNegTokenResp, ExtractNTLMToken (hand-written; tied by correspondence).
   asn1.Marshal / asn1.Unmarshal of the Go standard library are modelled in Model/C08Asn1.v.
   Definitions only. *)
From Coq Require Import List NArith ZArith Bool.
From Mant Require Import Prim.R Prim.Bytes Prim.Der Model.C08Asn1 Gen.ConstsC08.
Import ListNotations.
Open Scope N_scope.

(* NtlmOID 1.3.6.1.4.1.311.2.2.10 (spnego.go) *)
Definition ntlm_oid : list N := [1; 3; 6; 1; 4; 1; 311; 2; 2; 10].

(* asn1.Marshal(oid): None = marshal error *)
Definition marshal_oid (oid : list N) : option (list N) :=
  let? c := oid_marshal_content oid in Some (tlv 6 c).

(* asn1.Marshal(NegTokenInit{MechTypes: [NtlmOID], MechToken: tok}).  [tok = None] is a nil slice
   (optional zero value: the field is omitted); Some [] is an empty non-nil slice (encoded). *)
Definition marshal_neg_token_init (tok : option (list N)) : option (list N) :=
  let? o := marshal_oid ntlm_oid in
  Some (tlv 48 (tlv 160 (tlv 48 o)
                ++ match tok with None => [] | Some t => tlv 162 (tlv 4 t) end)).

(* asn1.Marshal(NegTokenResp{NegState: state, SupportedMech: mech, ResponseToken: tok}).
   [mech = []] is the nil identifier (omitted). *)
Definition marshal_neg_token_resp (state : Z) (mech : list N) (tok : option (list N)) : option (list N) :=
  let? m := (match mech with [] => Some [] | _ => let? o := marshal_oid mech in Some (tlv 161 o) end) in
  Some (tlv 48 ((if (state =? 0)%Z then [] else tlv 160 (tlv 10 (int_marshal_content state)))
                ++ m
                ++ match tok with None => [] | Some t => tlv 162 (tlv 4 t) end)).

(* The GSS-API framing both constructors write by hand. *)
Definition gss_wrap (oid_der body : list N) : list N :=
  c08_gss_api_spnego :: gss_header_len (lenN oid_der + lenN body) ++ oid_der ++ body.

Definition create_neg_token_init (tok : option (list N)) : R (list N) :=
  match marshal_neg_token_init tok with
  | None => Err
  | Some body =>
      match marshal_oid c08_spnego_oid with
      | None => Err
      | Some o => Ok (gss_wrap o body)
      end
  end.

Definition create_neg_token_resp (state : Z) (mech : list N) (tok : option (list N)) : R (list N) :=
  match marshal_neg_token_resp state mech tok with
  | None => Err
  | Some body =>
      match marshal_oid c08_spnego_oid with
      | None => Err
      | Some o => Ok (gss_wrap o body)
      end
  end.

(* ---- decoding ---- *)

(* A []byte field is [None] when nil (the optional element is absent) and [Some b] when present. *)
Record neg_token_init := {
  nti_mech_types : list (list N); nti_req_flags : N * list N;
  nti_mech_token : option (list N); nti_mic : option (list N) }.
Record neg_token_resp := {
  ntr_state : Z; ntr_mech : list N; ntr_token : option (list N); ntr_mic : option (list N) }.

Definition octets_field (s : list N) : option (option (list N)) := Some (Some s).

Definition neg_token_init_content (s : list N) : option neg_token_init :=
  let? (mt, r1) := parse_field (Some 0) false 16 true seqof_oid_content [] s in
  let? (fl, r2) := parse_field (Some 1) true 3 false bitstring_content (0, []) r1 in
  let? (tk, r3) := parse_field (Some 2) true 4 false octets_field None r2 in
  let? (mic, _) := parse_field (Some 3) true 4 false octets_field None r3 in
  Some {| nti_mech_types := mt; nti_req_flags := fl; nti_mech_token := tk; nti_mic := mic |}.

Definition neg_token_resp_content (s : list N) : option neg_token_resp :=
  let? (st, r1) := parse_field (Some 0) true 10 false int32_content 0%Z s in
  let? (me, r2) := parse_field (Some 1) true 6 false oid_content [] r1 in
  let? (tk, r3) := parse_field (Some 2) true 4 false octets_field None r2 in
  let? (mic, _) := parse_field (Some 3) true 4 false octets_field None r3 in
  Some {| ntr_state := st; ntr_mech := me; ntr_token := tk; ntr_mic := mic |}.

Definition nti_zero := {| nti_mech_types := []; nti_req_flags := (0, []); nti_mech_token := None; nti_mic := None |}.
Definition ntr_zero := {| ntr_state := 0%Z; ntr_mech := []; ntr_token := None; ntr_mic := None |}.

Definition unmarshal_neg_token_init (s : list N) : option neg_token_init :=
  let? (v, _) := parse_field None false 16 true neg_token_init_content nti_zero s in Some v.
Definition unmarshal_neg_token_resp (s : list N) : option neg_token_resp :=
  let? (v, _) := parse_field None false 16 true neg_token_resp_content ntr_zero s in Some v.

(* The header skip shared by ParseNegTokenResp and ExtractNTLMToken: the bytes after the GSS-API
   tag and length octets (the length value itself is never read).  Since the fix, an offset beyond
   the buffer is an error instead of a slice panic. *)
Definition skip_gss_header (tok : list N) : R (list N) :=
  if (lenN tok <? 2) then Err else
  let* b0 := go_index tok 0 in
  if negb (b0 =? c08_gss_api_spnego) then Err else
  let* b1 := go_index tok 1 in
  let offset := if negb (N.land b1 128 =? 0) then 2 + N.land b1 127 else 2 in
  if lenN tok <? offset then Err else
  go_from tok offset.

Definition parse_neg_token_resp (tok : list N) : R neg_token_resp :=
  let* body := skip_gss_header tok in
  match unmarshal_oid body with
  | None => Err
  | Some (_, rest) =>
      match unmarshal_neg_token_resp rest with
      | None => Err
      | Some r => Ok r
      end
  end.

(* The second attempt of ExtractNTLMToken. *)
Definition extract_from_resp (rest : list N) : R (list N) :=
  match unmarshal_neg_token_resp rest with
  | Some r => match ntr_token r with Some t => Ok t | None => Err end
  | None => Err
  end.

(* Since the fix a token is found when the field is present (non-nil), whatever its length. *)
Definition extract_ntlm_token (tok : list N) : R (list N) :=
  let* body := skip_gss_header tok in
  match unmarshal_oid body with
  | None => Err
  | Some (_, rest) =>
      match unmarshal_neg_token_init rest with
      | Some i =>
          match nti_mech_token i with
          | Some t => Ok t
          | None => extract_from_resp rest
          end
      | None => extract_from_resp rest
      end
  end.
