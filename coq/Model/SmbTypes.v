(* Models of the SMB wire data types (hand-written; tied to the Go code by correspondence).
     network/smb/smb_v10/types/SMB_STRING.go OEM_STRING.go SMB_DATE.go LOCKING_ANDX_RANGE32.go
       LOCKING_ANDX_RANGE64.go SMB_NMPIPE_STATUS.go SMB_RESUME_KEY.go SMB_DIRECTORY_INFORMATION.go
       SMB_FILE_ATTRIBUTES.go
     windows/ms_dtyp/common/data_structures/FILETIME.go (Marshal/Unmarshal; SMB_TIME is an alias of it)
     network/smb/smb_v10/message/commands/andx/andx.go
     network/smb/smb_v10/spnego/ntlm/version/version.go
   Marshal methods that mutate their receiver are modelled as  state -> R (bytes * state);
   Unmarshal methods overwrite every field on success, so they are modelled from a fresh receiver as
   bytes -> R (state * bytes_read).  Definitions only. *)
From Coq Require Import List NArith Lia Bool.
From Mant Require Import Prim.R Prim.Bytes.
Import ListNotations.
Open Scope N_scope.

(* ------------------------------------------------------------------ *)
(* Fixed layouts: a sequence of fixed-width integers read at consecutive offsets
   (binary.LittleEndian/BigEndian.UintK(data[off:off+w]), or data[off] for w = 1). *)

Inductive endian := LE | BE.
Definition fld := (nat * endian)%type.

Definition fld_bytes (f : fld) (v : N) : list N :=
  match snd f with LE => le_bytes (fst f) v | BE => be_bytes (fst f) v end.
Definition fld_read (f : fld) (s : list N) : R N :=
  match snd f with LE => go_le_uint (fst f) s | BE => go_be_uint (fst f) s end.

Fixpoint put_fields (fs : list fld) (vs : list N) : list N :=
  match fs, vs with
  | f :: fs', v :: vs' => fld_bytes f v ++ put_fields fs' vs'
  | _, _ => []
  end.

Fixpoint get_fields (fs : list fld) (data : list N) (off : N) : R (list N) :=
  match fs with
  | [] => Ok []
  | f :: fs' =>
      let* s := go_slice data off (off + N.of_nat (fst f)) in
      let* v := fld_read f s in
      let* r := get_fields fs' data (off + N.of_nat (fst f)) in
      Ok (v :: r)
  end.

Definition fv (vs : list N) (i : nat) : N := nth i vs 0.

(* ------------------------------------------------------------------ *)
(* SMB_STRING                                                          *)

Record smb_string := mk_ss { ss_fmt : N; ss_len : N; ss_buf : list N }.

(* Marshal: formats 1, 3, 5 refuse more than 65535 bytes and store the length in s.Length;
   formats 2 and 4 ignore s.Length.  Anything else is an error. *)
Definition smb_string_marshal (s : smb_string) : R (list N * smb_string) :=
  let f := ss_fmt s in
  let buf := ss_buf s in
  if (f =? 1) || (f =? 5) then
    if 65535 <? lenN buf then Err
    else Ok ([f] ++ le16 (lenN buf) ++ buf, mk_ss f (lenN buf) buf)
  else if f =? 3 then
    if 65535 <? lenN buf then Err
    else Ok ([f] ++ le16 (lenN buf) ++ buf ++ [0], mk_ss f (lenN buf) buf)
  else if (f =? 2) || (f =? 4) then Ok ([f] ++ buf ++ [0], s)
  else Err.

(* the loop  for i := 1; i < len(buffer); i++ { if buffer[i] == 0 ... }  *)
Fixpoint find_nul (l : list N) (i : N) : option N :=
  match l with
  | [] => None
  | b :: l' => if b =? 0 then Some i else find_nul l' (i + 1)
  end.

(* formats 1, 3, 5: 16-bit length then the bytes; [extra] is 1 for format 3, whose terminator is
   counted as consumed without being looked at but (after the fix) has to be present.  3 + Length is
   computed in int (after the fix). *)
Definition ss_unmarshal_counted (f : N) (b : list N) (extra : N) : R (smb_string * N) :=
  if lenN b <? 3 then Err else
  let* lb := go_slice b 1 3 in
  let* len := go_le_uint 2 lb in
  if lenN b <? len + 3 + extra then Err else
  let* body := go_slice b 3 (3 + len) in
  Ok (mk_ss f len body, len + 3 + extra).

(* formats 2, 4: bytes up to the first NUL; Length = USHORT(len(Buffer)) wraps *)
Definition ss_unmarshal_nul (f : N) (b : list N) : R (smb_string * N) :=
  match find_nul (skipn 1 b) 1 with
  | None => Err
  | Some p =>
      let* body := go_slice b 1 p in
      Ok (mk_ss f (wrap16 (lenN body)) body, p + 1)
  end.

Definition smb_string_unmarshal (b : list N) : R (smb_string * N) :=
  if lenN b <? 1 then Err else
  let* f := go_index b 0 in
  if f =? 1 then ss_unmarshal_counted f b 0
  else if f =? 2 then ss_unmarshal_nul f b
  else if f =? 3 then ss_unmarshal_counted f b 1
  else if f =? 4 then ss_unmarshal_nul f b
  else if f =? 5 then ss_unmarshal_counted f b 0
  else Err.

(* OEM_STRING: Marshal forces format 4; Unmarshal is SMB_STRING.Unmarshal (any format is accepted). *)
Definition oem_marshal (s : smb_string) : R (list N * smb_string) :=
  smb_string_marshal (mk_ss 4 (ss_len s) (ss_buf s)).
Definition oem_unmarshal (b : list N) : R (smb_string * N) := smb_string_unmarshal b.

(* ------------------------------------------------------------------ *)
(* SMB_DATE: Year uint16, Month uint8, Day uint8                       *)

Record smb_date := mk_date { d_year : N; d_month : N; d_day : N }.

Definition date_word (d : smb_date) : N :=
  let vy := wrap16 (N.shiftl (wrap16 (d_year d + 65536 - 1980)) 9) in   (* (d.Year - 1980) << 9 in uint16 *)
  let vm := wrap16 (N.shiftl (d_month d) 5) in                          (* uint16(d.Month) << 5 *)
  let vd := d_day d in
  N.lor (N.lor vy vm) vd.

Definition date_of_word (v : N) : smb_date :=
  mk_date (wrap16 (N.shiftr (N.land v 65024) 9 + 1980))   (* (value & 0xFE00) >> 9, + 1980 in uint16 *)
          (wrap8 (N.shiftr (N.land v 480) 5))             (* (value & 0x01E0) >> 5 *)
          (wrap8 (N.land v 31)).                          (* value & 0x001F *)

Definition date_marshal (d : smb_date) : list N := le16 (date_word d).

Definition date_unmarshal (data : list N) : R (smb_date * N) :=
  if lenN data <? 2 then Err else
  let* h := go_upto data 2 in
  let* v := go_le_uint 2 h in
  Ok (date_of_word v, 2).

(* ------------------------------------------------------------------ *)
(* FILETIME (= SMB_TIME): low, high                                    *)

Definition filetime_layout : list fld := [(4%nat, LE); (4%nat, LE)].
Definition filetime_marshal (t : N * N) : list N := put_fields filetime_layout [fst t; snd t].
Definition filetime_unmarshal (data : list N) : R ((N * N) * N) :=
  if lenN data <? 8 then Err else
  let* vs := get_fields filetime_layout data 0 in
  Ok ((fv vs 0, fv vs 1), 8).

(* LOCKING_ANDX_RANGE32: PID, ByteOffset, LengthInBytes *)
Definition range32_layout : list fld := [(2%nat, LE); (4%nat, LE); (4%nat, LE)].
Definition range32_marshal (vs : list N) : list N := put_fields range32_layout vs.
Definition range32_unmarshal (data : list N) : R (list N * N) :=
  if lenN data <? 10 then Err else
  let* vs := get_fields range32_layout data 0 in
  Ok (vs, 10).

(* LOCKING_ANDX_RANGE64: PID, Pad, ByteOffsetHigh, ByteOffsetLow, LengthInBytesHigh, LengthInBytesLow *)
Definition range64_layout : list fld :=
  [(2%nat, LE); (2%nat, LE); (4%nat, LE); (4%nat, LE); (4%nat, LE); (4%nat, LE)].
Definition range64_marshal (vs : list N) : list N := put_fields range64_layout vs.
Definition range64_unmarshal (data : list N) : R (list N * N) :=
  if lenN data <? 20 then Err else
  let* vs := get_fields range64_layout data 0 in
  Ok (vs, 20).

(* SMB_NMPIPE_STATUS: ICount, Flags; Unmarshal insists on exactly two bytes *)
Definition nmpipe_layout : list fld := [(1%nat, LE); (1%nat, LE)].
Definition nmpipe_marshal (vs : list N) : list N := put_fields nmpipe_layout vs.
Definition nmpipe_unmarshal (data : list N) : R (list N * N) :=
  if negb (lenN data =? 2) then Err else
  let* vs := get_fields nmpipe_layout data 0 in
  Ok (vs, 2).

(* SMB_FILE_ATTRIBUTES: one big-endian word (length check added by the fix) *)
Definition fileattr_layout : list fld := [(2%nat, BE)].
Definition fileattr_marshal (a : N) : list N := put_fields fileattr_layout [a].
Definition fileattr_unmarshal (data : list N) : R (N * N) :=
  if lenN data <? 2 then Err else
  let* v := go_be_uint 2 data in
  Ok (v, 2).

(* AndX: AndXCommand, AndXReserved, AndXOffset (big-endian in this code) *)
Definition andx_layout : list fld := [(1%nat, LE); (1%nat, LE); (2%nat, BE)].
Definition andx_marshal (vs : list N) : list N := put_fields andx_layout vs.
Definition andx_unmarshal (data : list N) : R (list N * N) :=
  if lenN data <? 4 then Err else
  let* vs := get_fields andx_layout data 0 in
  Ok (vs, 4).
(* GetParameters: uint16(cmd)<<8 | uint16(reserved), offset *)
Definition andx_words (vs : list N) : list N :=
  [N.lor (wrap16 (N.shiftl (fv vs 0) 8)) (fv vs 1); fv vs 2].

(* NTLM VERSION: major, minor, build (LE16), reserved[0..2], revision *)
Definition version_layout : list fld :=
  [(1%nat, LE); (1%nat, LE); (2%nat, LE); (1%nat, LE); (1%nat, LE); (1%nat, LE); (1%nat, LE)].
Definition version_marshal (vs : list N) : list N := put_fields version_layout vs.
Definition version_unmarshal (data : list N) : R (list N * N) :=
  if lenN data <? 8 then Err else
  let* vs := get_fields version_layout data 0 in
  Ok (vs, 8).

(* ------------------------------------------------------------------ *)
(* SMB_RESUME_KEY: an SMB_STRING whose buffer is Reserved ++ ServerState[16] ++ ClientState[4] *)

Record resume_key := mk_rk { rk_str : smb_string; rk_reserved : N; rk_server : list N; rk_client : list N }.

Definition rk_stream (r : resume_key) : list N := [rk_reserved r] ++ rk_server r ++ rk_client r.

Definition resume_key_marshal (r : resume_key) : R (list N * resume_key) :=
  let stream := rk_stream r in
  let* (bs, s') := smb_string_marshal (mk_ss 5 (wrap16 (lenN stream)) stream) in
  Ok (bs, mk_rk s' (rk_reserved r) (rk_server r) (rk_client r)).

Definition resume_key_unmarshal (data : list N) : R (resume_key * N) :=
  let* (s, n) := smb_string_unmarshal data in
  if lenN (ss_buf s) <? 21 then Err else
  let* res := go_index (ss_buf s) 0 in
  let* srv := go_slice (ss_buf s) 1 17 in
  let* cli := go_slice (ss_buf s) 17 21 in
  Ok (mk_rk s res srv cli, n).

(* ------------------------------------------------------------------ *)
(* SMB_DIRECTORY_INFORMATION                                           *)

Record dir_info := mk_di {
  di_rk : resume_key; di_attr : N; di_time : N * N; di_date : smb_date; di_size : N; di_name : smb_string }.

(* fileName + strings.Repeat(" ", 12-len(fileName)) *)
Definition pad12 (name : list N) : list N := name ++ repeatN 32 (12 - length name).

Definition dir_info_marshal (d : dir_info) : R (list N * dir_info) :=
  let* (rkb, rk') := resume_key_marshal (di_rk d) in
  let tb := filetime_marshal (di_time d) in
  let db := date_marshal (di_date d) in
  let sb := le32 (di_size d) in
  let name := ss_buf (di_name d) in
  if 12 <? lenN name then Err else
  let name' := pad12 name in
  let* (nb, nm') := oem_marshal (mk_ss (ss_fmt (di_name d)) (wrap16 (lenN name')) name') in
  Ok (rkb ++ [di_attr d] ++ tb ++ db ++ sb ++ nb,
      mk_di rk' (di_attr d) (di_time d) (di_date d) (di_size d) nm').

(* the file-name window is 14 bytes after the fix (0x04, 12 name bytes, NUL) *)
Definition dir_info_unmarshal (data : list N) : R (dir_info * N) :=
  let* d0 := go_from data 0 in
  let* (rk, n0) := resume_key_unmarshal d0 in
  let off := n0 in
  if lenN data <=? off then Err else
  let* attr := go_index data off in
  let off := off + 1 in
  if lenN data <? off + 2 then Err else
  let* d1 := go_from data off in
  let* (ft, n1) := filetime_unmarshal d1 in
  let off := off + n1 in
  if lenN data <? off + 2 then Err else
  let* d2 := go_slice data off (off + 2) in
  let* (dt, n2) := date_unmarshal d2 in
  let off := off + n2 in
  if lenN data <? off + 4 then Err else
  let* d3 := go_slice data off (off + 4) in
  let* sz := go_le_uint 4 d3 in
  let off := off + 4 in
  if lenN data <? off + 14 then Err else
  let* d4 := go_slice data off (off + 14) in
  let* (nm, n4) := oem_unmarshal d4 in
  Ok (mk_di rk attr ft dt sz nm, off + n4).
