(* Routes the harness entry points of C02 to the models.  The upper-casing function of the executable
   model is ascii_upper (Prim/C02Text.v); the harness records cases only where strings.ToUpper agrees. *)
From Coq Require Import List NArith ZArith String Bool.
From Mant Require Import Prim.R Prim.Val Prim.Bytes Prim.C02Text Model.DispUtil Model.Ntlmv1 Model.Ntlmv2.
Import ListNotations.
Open Scope string_scope.

Definition up := ascii_upper.

Definition v_pair (p : list N * list N) : val := VL [VB (fst p); VB (snd p)].

Definition with_nthash (nthash sc : list N) : val :=
  r_val (fun '(nth, pw, c) =>
           VL [r_bytes (ntlmv1_hash nth pw c); r_bytes (nt_response nth c); r_bytes (ntlmv1_string nth pw c)])
        (new_with_nthash nthash sc).

Definition with_password (password sc : list N) : val :=
  r_val (fun x => x)
    (let* (nth, pw, c) := new_with_password password sc in
     let* r1 := ntlmv1_hash nth pw c in
     let* r2 := nt_response nth c in
     let* r3 := lm_response up pw c in
     let* s := ntlmv1_string nth pw c in
     Ok (VL [VB r1; VB r2; VB r3; VB s])).

Definition dispatch_C02 (f : string) (args : list val) : val :=
  match args with
  | [] =>
      (* the models take the time stamp as one input: the clock is read once in createNTLMv2Blob, which
         calculateNTLMv2Response calls once; nowhere else in ntlm.go; once in ntlmv2.Hash *)
      if f =? "c02.fact.clock_reads" then VL [VN 1%Z; VN 1%Z; VN 0%Z; VN 1%Z] else vunknown
  | [VN n] =>
      if f =? "ntlmv1.parity_bit" then vN (parity_bit (Z.to_N n)) else vunknown
  | [VB k] =>
      if f =? "ntlmv1.parity_adjust" then VB (parity_adjust k) else vunknown
  | [VB a; VB b] =>
      if f =? "ntlmv1.nt_response" then r_bytes (nt_response a b)
      else if f =? "ntlmv1.lm_response" then r_bytes (lm_response up a b)
      else if f =? "ntlmv1.with_nthash" then with_nthash a b
      else if f =? "ntlmv1.with_password" then with_password a b
      else vunknown
  | [VB nth; VB pw; VB sc] =>
      if f =? "ntlmv1.hash" then r_bytes (ntlmv1_hash nth pw sc) else vunknown
  | [VB dom; VB user; VB pw; VB sc; VB cc] =>
      if f =? "ntlmv2.new" then VB (new_ntlmv2_key up dom user pw) else vunknown
  | [VB dom; VB user; VB pw; VB sc; VB cc; VN ts] =>
      if f =? "ntlmv2.hash" then r_bytes (ntlmv2_hash up dom user pw (arr8 sc) (arr8 cc) (Z.to_N ts))
      else if f =? "ntlmv2.hashcat" then r_bytes (to_hashcat up dom user pw (arr8 sc) (arr8 cc) (Z.to_N ts))
      else vunknown
  | [VN flags; VB sc; VB ti; VB user; VB pw; VB dom; VB ws; VB cc; VB lmcc; VN ts] =>
      if f =? "ntlm.auth_payloads"
      then r_val v_pair (auth_payloads up (Z.to_N flags) (arr8 sc) ti user pw dom ws (arr8 cc) (arr8 lmcc) (Z.to_N ts))
      else vunknown
  | _ => vunknown
  end.
