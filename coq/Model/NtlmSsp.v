(* Model of network/smb/smb_v10/spnego/ntlm/ntlm.go (CreateNegotiateMessage, ParseChallengeMessage,
   the layout of CreateAuthenticateMessage, ParseTargetInfo) and ntlm/version/version.go
   (hand-written; tied by correspondence).  The LM / NT response byte strings computed inside
   CreateAuthenticateMessage are inputs of the layout model (their values belong to C02).
   Definitions only. *)
From Coq Require Import List NArith ZArith Bool.
From Mant Require Import Prim.R Prim.Bytes Model.C08Text Gen.ConstsC08.
Import ListNotations.
Open Scope N_scope.

Definition has_flag (flags f : N) : bool := negb (N.land flags f =? 0).

(* ---- version.go ---- *)
Record version := { v_major : N; v_minor : N; v_build : N; v_reserved : list N; v_revision : N }.

Definition default_version : version :=
  {| v_major := 10; v_minor := 0; v_build := 18362; v_reserved := [0; 0; 0]; v_revision := c08_ntlm_revision |}.
Definition zero_version : version :=
  {| v_major := 0; v_minor := 0; v_build := 0; v_reserved := [0; 0; 0]; v_revision := 0 |}.

Definition version_marshal (v : version) : list N :=
  [v_major v; v_minor v] ++ le16 (v_build v) ++ v_reserved v ++ [v_revision v].

Definition version_unmarshal (data : list N) : R version :=
  if lenN data <? 8 then Err else
  let* b0 := go_index data 0 in
  let* b1 := go_index data 1 in
  let* bb := go_slice data 2 4 in
  let* build := go_le_uint 2 bb in
  let* rs := go_slice data 4 7 in
  let* b7 := go_index data 7 in
  Ok {| v_major := b0; v_minor := b1; v_build := build; v_reserved := rs; v_revision := b7 |}.

(* ---- names ---- *)
(* The bytes a name contributes to a payload. *)
Definition enc_plain (unicode : bool) (s : list N) : list N :=
  if unicode then go_utf16le s else s.

(* ---- CreateNegotiateMessage ---- *)
Definition negotiate_base_flags : N :=
  N.lor c08_f_ntlm (N.lor c08_f_always_sign (N.lor c08_f_ess (N.lor c08_f_128 (N.lor c08_f_56
  (N.lor c08_f_request_target (N.lor c08_f_target_info c08_f_version)))))).

Definition negotiate_flags (domain ws : list N) (unicode : bool) : N :=
  let f0 := N.lor negotiate_base_flags (if unicode then c08_f_unicode else c08_f_oem) in
  let f1 := match domain with [] => f0 | _ => N.lor f0 c08_f_domain_supplied end in
  match ws with [] => f1 | _ => N.lor f1 c08_f_workstation_supplied end.

(* A (Len, MaxLen, BufferOffset) descriptor as the code writes it: uint16(len) twice, uint32(offset). *)
Definition descriptor (len off : N) : list N :=
  le16 (wrap16 len) ++ le16 (wrap16 len) ++ le32 (wrap32 off).

Definition negotiate_name (unicode : bool) (s : list N) : list N :=
  match s with
  | [] => []
  | _ => if unicode then go_utf16le s else go_to_upper s
  end.

Definition create_negotiate (domain ws : list N) (unicode : bool) : R (list N) :=
  let flags := negotiate_flags domain ws unicode in
  let db := negotiate_name unicode domain in
  let wb := negotiate_name unicode ws in
  (* since the fix: a payload that does not fit its 16-bit length field is an error *)
  if (65535 <? lenN db) || (65535 <? lenN wb) then Err else
  let header_size := 40 in
  let domain_off := header_size in
  let ws_off := domain_off + lenN db in
  Ok (c08_ntlm_signature ++ le32 (wrap32 c08_ntlm_negotiate) ++ le32 flags
      ++ descriptor (lenN db) domain_off ++ descriptor (lenN wb) ws_off
      ++ version_marshal default_version ++ db ++ wb).

(* ---- ParseChallengeMessage ---- *)
Record challenge := {
  ch_target_name : list N; ch_flags : N; ch_server_challenge : list N; ch_reserved : list N;
  ch_target_info : list N; ch_version : version }.

(* One payload field: nil unless Len > 0 and Offset+Len <= len(data) (64-bit sum since the fix). *)
Definition challenge_field (data : list N) (len off : N) : R (list N) :=
  if (0 <? len) && (off + len <=? lenN data) then go_slice data off (off + len) else Ok [].

Definition parse_challenge (data : list N) : R challenge :=
  if lenN data <? 56 then Err else
  let* sig := go_slice data 0 8 in
  if negb (bytes_eqb sig c08_ntlm_signature) then Err else
  let* mtb := go_slice data 8 12 in
  let* mt := go_le_uint 4 mtb in
  if negb (mt =? c08_ntlm_challenge) then Err else
  let* b := go_slice data 12 14 in let* tn_len := go_le_uint 2 b in
  let* b := go_slice data 16 20 in let* tn_off := go_le_uint 4 b in
  let* tn := challenge_field data tn_len tn_off in
  let* b := go_slice data 20 24 in let* flags := go_le_uint 4 b in
  let* sc := go_slice data 24 32 in
  let* rsv := go_slice data 32 40 in
  let* b := go_slice data 40 42 in let* ti_len := go_le_uint 2 b in
  let* b := go_slice data 44 48 in let* ti_off := go_le_uint 4 b in
  let* ti := challenge_field data ti_len ti_off in
  let* ver :=
    (if has_flag flags c08_f_version && (56 <=? lenN data) then
       let* vb := go_slice data 48 56 in version_unmarshal vb
     else Ok zero_version) in
  Ok {| ch_target_name := tn; ch_flags := flags; ch_server_challenge := sc; ch_reserved := rsv;
        ch_target_info := ti; ch_version := ver |}.

(* ---- CreateAuthenticateMessage (layout) ---- *)
Definition authenticate_names (flags : N) (user domain ws : list N) : list N * list N * list N :=
  let unicode := has_flag flags c08_f_unicode in
  (enc_plain unicode (go_to_upper domain), enc_plain unicode user, enc_plain unicode (go_to_upper ws)).

Definition create_authenticate (flags : N) (lm nt user domain ws : list N) : R (list N) :=
  let '(db, ub, wb) := authenticate_names flags user domain ws in
  let key : list N := [] in
  if (65535 <? lenN lm) || (65535 <? lenN nt) || (65535 <? lenN db) || (65535 <? lenN ub) || (65535 <? lenN wb)
  then Err else
  let header_size := 88 in
  let lm_off := header_size in
  let nt_off := lm_off + lenN lm in
  let d_off := nt_off + lenN nt in
  let u_off := d_off + lenN db in
  let w_off := u_off + lenN ub in
  let k_off := w_off + lenN wb in
  Ok (c08_ntlm_signature ++ le32 (wrap32 c08_ntlm_authenticate)
      ++ descriptor (lenN lm) lm_off ++ descriptor (lenN nt) nt_off ++ descriptor (lenN db) d_off
      ++ descriptor (lenN ub) u_off ++ descriptor (lenN wb) w_off ++ descriptor (lenN key) k_off
      ++ le32 flags
      ++ (if has_flag flags c08_f_version then version_marshal default_version else repeatN 0 8)
      ++ repeatN 0 16
      ++ lm ++ nt ++ db ++ ub ++ wb ++ key).

(* ---- ParseTargetInfo ---- *)
(* The Go map, as an association list in first-insertion order whose values are overwritten. *)
Fixpoint av_put (m : list (N * list N)) (id : N) (v : list N) : list (N * list N) :=
  match m with
  | [] => [(id, v)]
  | (k, w) :: m' => if k =? id then (k, v) :: m' else (k, w) :: av_put m' id v
  end.

Fixpoint parse_target_info_fuel (fuel : nat) (ti : list N) (offset : N) (m : list (N * list N))
  : R (list (N * list N)) :=
  match fuel with
  | O => Ok m
  | S f =>
      if negb (offset <? lenN ti) then Ok m else
      if lenN ti <? offset + 4 then Err else
      let* b := go_slice ti offset (offset + 2) in let* id := go_le_uint 2 b in
      let* b := go_slice ti (offset + 2) (offset + 4) in let* len := go_le_uint 2 b in
      let offset := offset + 4 in
      if lenN ti <? offset + len then Err else
      let* m' := (if negb (id =? c08_msv_av_eol)
                  then let* v := go_slice ti offset (offset + len) in Ok (av_put m id v)
                  else Ok m) in
      let offset := offset + len in
      if id =? c08_msv_av_eol then Ok m' else parse_target_info_fuel f ti offset m'
  end.

Definition parse_target_info (ti : list N) : R (list (N * list N)) :=
  parse_target_info_fuel (S (length ti)) ti 0 [].

(* The observable projection: entries sorted by AvId. *)
Fixpoint av_insert_sorted (e : N * list N) (l : list (N * list N)) : list (N * list N) :=
  match l with
  | [] => [e]
  | x :: l' => if fst e <=? fst x then e :: l else x :: av_insert_sorted e l'
  end.
Definition av_sort (l : list (N * list N)) : list (N * list N) := fold_right av_insert_sorted [] l.
