(* Where fixed-width integer arithmetic can wrap and where integers are narrowed, in every anchored package, as it was
   when the hand-written models (which write each wrap explicitly) were written.  Recorded by
   tools/gen_shapes_expected.py from the pinned tree, reviewed, committed; never written by a check. *)
From Coq Require Import List String.
Import ListNotations.
Open Scope string_scope.

Definition expected_wraps_C01 : list string := [
  "crypto/lm: << uint8: _[0] << 7";
  "crypto/lm: << uint8: _[0] << 7";
  "crypto/lm: << uint8: _[1] << 6";
  "crypto/lm: << uint8: _[1] << 6";
  "crypto/lm: << uint8: _[2] << 5";
  "crypto/lm: << uint8: _[2] << 5";
  "crypto/lm: << uint8: _[3] << 4";
  "crypto/lm: << uint8: _[3] << 4";
  "crypto/lm: << uint8: _[4] << 3";
  "crypto/lm: << uint8: _[4] << 3";
  "crypto/lm: << uint8: _[5] << 2";
  "crypto/lm: << uint8: _[5] << 2";
  "crypto/lm: << uint8: _[6] << 1";
  "crypto/lm: << uint8: _[6] << 1";
  "crypto/md4: * uint64: uint64(_) * 8";
  "crypto/md4: + uint32: _ + ((_ & _) | (_ & (_ | _)))";
  "crypto/md4: + uint32: _ + ((_ & _) | (_ & (_ | _))) + _";
  "crypto/md4: + uint32: _ + ((_ & _) | (_ & (_ | _))) + _ + 0x5a827999";
  "crypto/md4: + uint32: _ + (_ ^ (_ & (_ ^ _)))";
  "crypto/md4: + uint32: _ + (_ ^ (_ & (_ ^ _))) + _";
  "crypto/md4: + uint32: _ + (_ ^ _ ^ _)";
  "crypto/md4: + uint32: _ + (_ ^ _ ^ _) + _";
  "crypto/md4: + uint32: _ + (_ ^ _ ^ _) + _ + 0x6ed9eba1";
  "crypto/md4: += uint32: _.state[0] += _";
  "crypto/md4: += uint32: _.state[1] += _";
  "crypto/md4: += uint32: _.state[2] += _";
  "crypto/md4: += uint32: _.state[3] += _";
  "crypto/md4: += uint64: _ += _";
  "crypto/md4: += uint64: _.count += uint64(_) * 8";
  "crypto/md4: - uint32: 32 - _";
  "crypto/md4: - uint64: 56 - _";
  "crypto/md4: - uint64: _.count/8 - uint64(_)";
  "crypto/md4: << uint32: _ << _";
  "utils/encoding/utf16: << uint16: uint16(_[_+1]) << 8"
].

Definition expected_wraps_C02 : list string := [
  "crypto/ntlmv1: << uint8: 1 << (7 - _)";
  "crypto/ntlmv1: narrow to uint8: byte(ParityBit(int(_)))";
  "network/smb/smb_v10/spnego/ntlm: << uint8: (_[0] & 0x01) << 6";
  "network/smb/smb_v10/spnego/ntlm: << uint8: (_[1] & 0x03) << 5";
  "network/smb/smb_v10/spnego/ntlm: << uint8: (_[2] & 0x07) << 4";
  "network/smb/smb_v10/spnego/ntlm: << uint8: (_[3] & 0x0F) << 3";
  "network/smb/smb_v10/spnego/ntlm: << uint8: (_[4] & 0x1F) << 2";
  "network/smb/smb_v10/spnego/ntlm: << uint8: (_[5] & 0x3F) << 1";
  "network/smb/smb_v10/spnego/ntlm: << uint8: 1 << _";
  "network/smb/smb_v10/spnego/ntlm: << uint8: _[_] << 1";
  "network/smb/smb_v10/spnego/ntlm: narrow to uint16: uint16(len(_))";
  "network/smb/smb_v10/spnego/ntlm: narrow to uint16: uint16(len(_))";
  "network/smb/smb_v10/spnego/ntlm: narrow to uint16: uint16(len(_))";
  "network/smb/smb_v10/spnego/ntlm: narrow to uint16: uint16(len(_))";
  "network/smb/smb_v10/spnego/ntlm: narrow to uint16: uint16(len(_))";
  "network/smb/smb_v10/spnego/ntlm: narrow to uint16: uint16(len(_))";
  "network/smb/smb_v10/spnego/ntlm: narrow to uint16: uint16(len(_))";
  "network/smb/smb_v10/spnego/ntlm: narrow to uint16: uint16(len(_))";
  "network/smb/smb_v10/spnego/ntlm: narrow to uint16: uint16(len(_))";
  "network/smb/smb_v10/spnego/ntlm: narrow to uint16: uint16(len(_))";
  "network/smb/smb_v10/spnego/ntlm: narrow to uint16: uint16(len(_))";
  "network/smb/smb_v10/spnego/ntlm: narrow to uint16: uint16(len(_))";
  "network/smb/smb_v10/spnego/ntlm: narrow to uint16: uint16(len(_))";
  "network/smb/smb_v10/spnego/ntlm: narrow to uint16: uint16(len(_))";
  "network/smb/smb_v10/spnego/ntlm: narrow to uint16: uint16(len(_))";
  "network/smb/smb_v10/spnego/ntlm: narrow to uint16: uint16(len(_))";
  "network/smb/smb_v10/spnego/ntlm: narrow to uint32: uint32(_)";
  "network/smb/smb_v10/spnego/ntlm: narrow to uint32: uint32(_)";
  "network/smb/smb_v10/spnego/ntlm: narrow to uint32: uint32(_)";
  "network/smb/smb_v10/spnego/ntlm: narrow to uint32: uint32(_)";
  "network/smb/smb_v10/spnego/ntlm: narrow to uint32: uint32(_)";
  "network/smb/smb_v10/spnego/ntlm: narrow to uint32: uint32(_)";
  "network/smb/smb_v10/spnego/ntlm: narrow to uint32: uint32(_)";
  "network/smb/smb_v10/spnego/ntlm: narrow to uint32: uint32(_)"
].

Definition expected_wraps_C03 : list string := [
  "network/smb/smb_v10/message/data: narrow to uint16: uint16(len(_))";
  "network/smb/smb_v10/message/data: narrow to uint16: uint16(len(_.Bytes))";
  "network/smb/smb_v10/message/parameters: << uint16: uint16(_[_]) << 8";
  "network/smb/smb_v10/message/parameters: narrow to uint16: uint16(len(_.Words))";
  "network/smb/smb_v10/message/parameters: narrow to uint8: uint8(_ & 0xFF)";
  "network/smb/smb_v10/message/parameters: narrow to uint8: uint8(_ >> 8)";
  "network/smb/smb_v10/message/parameters: narrow to uint8: uint8(len(_.Words) * 2)";
  "network/smb/smb_v10/message/parameters: narrow to uint8: uint8(len(_.Words))";
  "network/smb/smb_v10/message/parameters: narrow to uint8: uint8(len(_.Words))"
].

Definition expected_wraps_C04 : list string := [

].

Definition expected_wraps_C05 : list string := [
  "network/smb/smb_v10/types: - uint16: _.Year - 1980";
  "network/smb/smb_v10/types: << uint16: (_.Year - 1980) << 9";
  "network/smb/smb_v10/types: << uint16: uint16(_.Month) << 5";
  "network/smb/smb_v10/types: narrow to uint16: uint16(_)";
  "network/smb/smb_v10/types: narrow to uint16: uint16(len(_))";
  "network/smb/smb_v10/types: narrow to uint16: uint16(len(_))";
  "network/smb/smb_v10/types: narrow to uint16: uint16(len(_))";
  "network/smb/smb_v10/types: narrow to uint8: uint8(_)";
  "network/smb/smb_v10/types: narrow to uint8: uint8(_)"
].

Definition expected_wraps_C06 : list string := [
  "network/smb/smb_v10/message/data: narrow to uint16: uint16(len(_))";
  "network/smb/smb_v10/message/data: narrow to uint16: uint16(len(_.Bytes))";
  "network/smb/smb_v10/message/parameters: << uint16: uint16(_[_]) << 8";
  "network/smb/smb_v10/message/parameters: narrow to uint16: uint16(len(_.Words))";
  "network/smb/smb_v10/message/parameters: narrow to uint8: uint8(_ & 0xFF)";
  "network/smb/smb_v10/message/parameters: narrow to uint8: uint8(_ >> 8)";
  "network/smb/smb_v10/message/parameters: narrow to uint8: uint8(len(_.Words) * 2)";
  "network/smb/smb_v10/message/parameters: narrow to uint8: uint8(len(_.Words))";
  "network/smb/smb_v10/message/parameters: narrow to uint8: uint8(len(_.Words))";
  "network/smb/smb_v10/types: - uint16: _.Year - 1980";
  "network/smb/smb_v10/types: << uint16: (_.Year - 1980) << 9";
  "network/smb/smb_v10/types: << uint16: uint16(_.Month) << 5";
  "network/smb/smb_v10/types: narrow to uint16: uint16(_)";
  "network/smb/smb_v10/types: narrow to uint16: uint16(len(_))";
  "network/smb/smb_v10/types: narrow to uint16: uint16(len(_))";
  "network/smb/smb_v10/types: narrow to uint16: uint16(len(_))";
  "network/smb/smb_v10/types: narrow to uint8: uint8(_)";
  "network/smb/smb_v10/types: narrow to uint8: uint8(_)";
  "windows/ms_dtyp/common/data_structures: * int64: (_ % 10000000) * 100";
  "windows/ms_dtyp/common/data_structures: - int64: _/10000000 - _/10000000";
  "windows/ms_dtyp/common/data_structures: << int64: int64(_.DwHighDateTime) & 0xFFFFFFFF << 32"
].

Definition expected_wraps_C07 : list string := [
  "crypto/pkcs7: narrow to uint8: byte(_)";
  "crypto/uuid: << uint8: (_.Variant & 0xF) << 4";
  "crypto/uuid: << uint8: (_.Version & 0xF) << 4";
  "crypto/uuid: << uint8: (_[6] & 0x0F) << 4";
  "crypto/uuid: << uint8: (_[7] & 0x0F) << 4";
  "crypto/uuid: << uint8: _ & 0xF << 4";
  "crypto/uuid/uuid_v1: * int64: int64(_%10000000) * 100";
  "crypto/uuid/uuid_v1: - int64: int64(_/10000000) - int64(_/10000000)";
  "crypto/uuid/uuid_v1: << uint8: byte(_&0x0F) << 4";
  "crypto/uuid/uuid_v1: narrow to uint16: uint16((_.Time & 0x0000FFFF00000000) >> 32)";
  "crypto/uuid/uuid_v1: narrow to uint16: uint16((_.Time & 0x0FFF000000000000) >> 48)";
  "crypto/uuid/uuid_v1: narrow to uint32: uint32(_.Time & 0x00000000FFFFFFFF)";
  "crypto/uuid/uuid_v1: narrow to uint8: byte((_ >> 4) & 0xFF)";
  "crypto/uuid/uuid_v1: narrow to uint8: byte((_.ClockSeq & 0x0F00) >> 8)";
  "crypto/uuid/uuid_v1: narrow to uint8: byte(_ & 0x0F)";
  "crypto/uuid/uuid_v1: narrow to uint8: byte(_.ClockSeq & 0xFF)";
  "crypto/uuid/uuid_v2: * int64: int64(_%10000000) * 100";
  "crypto/uuid/uuid_v2: - int64: int64(_/10000000) - int64(_/10000000)";
  "crypto/uuid/uuid_v2: << uint8: byte(_&0x0F) << 4";
  "crypto/uuid/uuid_v2: narrow to uint16: uint16((_.Time & 0x0000FFFF00000000) >> 32)";
  "crypto/uuid/uuid_v2: narrow to uint16: uint16((_.Time & 0x0FFF000000000000) >> 48)";
  "crypto/uuid/uuid_v2: narrow to uint8: byte((_ >> 4) & 0xFF)";
  "crypto/uuid/uuid_v2: narrow to uint8: byte(_ & 0x0F)";
  "network/ip: - uint8: 32 - _.MaskBits";
  "network/ip: - uint8: 32 - _.MaskBits";
  "network/ip: << uint32: uint32(0xFFFFFFFF) << (32 - _.MaskBits)";
  "network/ip: << uint32: uint32(0xFFFFFFFF) << (32 - _.MaskBits)";
  "network/ip: << uint32: uint32(_.A) << 24";
  "network/ip: << uint32: uint32(_.B) << 16";
  "network/ip: << uint32: uint32(_.C) << 8";
  "network/ip: << uint64: uint64(_.A) << 48";
  "network/ip: << uint64: uint64(_.B) << 32";
  "network/ip: << uint64: uint64(_.C) << 16";
  "network/ip: << uint64: uint64(_.E) << 48";
  "network/ip: << uint64: uint64(_.F) << 32";
  "network/ip: << uint64: uint64(_.G) << 16";
  "network/ip: narrow to uint16: uint16(_)";
  "network/ip: narrow to uint16: uint16(_)";
  "network/ip: narrow to uint8: uint8((_ >> 16) & 0xFF)";
  "network/ip: narrow to uint8: uint8((_ >> 24) & 0xFF)";
  "network/ip: narrow to uint8: uint8((_ >> 8) & 0xFF)";
  "network/ip: narrow to uint8: uint8(_ & 0xFF)";
  "network/ldap: << uint64: uint64(_[2+0]) << 40";
  "network/ldap: << uint64: uint64(_[2+1]) << 32";
  "network/ldap: << uint64: uint64(_[2+2]) << 24";
  "network/ldap: << uint64: uint64(_[2+3]) << 16";
  "network/ldap: << uint64: uint64(_[2+4]) << 8";
  "network/llmnr: ++ uint16: _++";
  "network/llmnr: ++ uint16: _++";
  "network/llmnr: ++ uint16: _++";
  "network/llmnr: ++ uint16: _++";
  "network/llmnr: narrow to uint16: uint16(len(_.Additional))";
  "network/llmnr: narrow to uint16: uint16(len(_.Answers))";
  "network/llmnr: narrow to uint16: uint16(len(_.Answers))";
  "network/llmnr: narrow to uint16: uint16(len(_.Authority))";
  "network/llmnr: narrow to uint16: uint16(len(_.Questions))";
  "network/llmnr: narrow to uint16: uint16(len(_.Questions))";
  "network/llmnr: narrow to uint16: uint16(len(_.Questions))";
  "network/llmnr: narrow to uint16: uint16(len(_.Questions))";
  "network/llmnr: narrow to uint16: uint16(len(_.RData))";
  "network/llmnr: narrow to uint16: uint16(len(_.RData))";
  "network/llmnr: narrow to uint16: uint16(len(_.RData))";
  "network/netbios/nbt: narrow to uint8: byte((_ >> 16) & 0x01)";
  "network/netbios/nbt: narrow to uint8: byte((_ >> 8) & 0xFF)";
  "network/netbios/nbt: narrow to uint8: byte(_ & 0xFF)";
  "network/netbios/nbtns: + uint8: ((_[_] >> 4) & 0x0F) + _";
  "network/netbios/nbtns: + uint8: (_[_] & 0x0F) + _";
  "network/netbios/nbtns: ++ uint16: _++";
  "network/netbios/nbtns: ++ uint16: _++";
  "network/netbios/nbtns: narrow to uint16: uint16(len(_))";
  "network/netbios/nbtns: narrow to uint16: uint16(len(_.Answers))";
  "network/netbios/nbtns: narrow to uint16: uint16(len(_.Answers))";
  "network/netbios/nbtns: narrow to uint16: uint16(len(_.Answers))";
  "network/netbios/nbtns: narrow to uint8: byte(_.ServerPort >> 8)";
  "network/netbios/nbtns: narrow to uint8: byte(_.ServerPort)";
  "network/smb/smb_v10/message/data: narrow to uint16: uint16(len(_))";
  "network/smb/smb_v10/message/data: narrow to uint16: uint16(len(_.Bytes))";
  "network/smb/smb_v10/spnego: narrow to uint8: byte(0x80 | len(_))";
  "network/smb/smb_v10/spnego: narrow to uint8: byte(0x80 | len(_))";
  "network/smb/smb_v10/spnego: narrow to uint8: byte(_ & 0xFF)";
  "network/smb/smb_v10/spnego: narrow to uint8: byte(_)";
  "network/smb/smb_v10/spnego/ntlm: << uint8: (_[0] & 0x01) << 6";
  "network/smb/smb_v10/spnego/ntlm: << uint8: (_[1] & 0x03) << 5";
  "network/smb/smb_v10/spnego/ntlm: << uint8: (_[2] & 0x07) << 4";
  "network/smb/smb_v10/spnego/ntlm: << uint8: (_[3] & 0x0F) << 3";
  "network/smb/smb_v10/spnego/ntlm: << uint8: (_[4] & 0x1F) << 2";
  "network/smb/smb_v10/spnego/ntlm: << uint8: (_[5] & 0x3F) << 1";
  "network/smb/smb_v10/spnego/ntlm: << uint8: 1 << _";
  "network/smb/smb_v10/spnego/ntlm: << uint8: _[_] << 1";
  "network/smb/smb_v10/spnego/ntlm: narrow to uint16: uint16(len(_))";
  "network/smb/smb_v10/spnego/ntlm: narrow to uint16: uint16(len(_))";
  "network/smb/smb_v10/spnego/ntlm: narrow to uint16: uint16(len(_))";
  "network/smb/smb_v10/spnego/ntlm: narrow to uint16: uint16(len(_))";
  "network/smb/smb_v10/spnego/ntlm: narrow to uint16: uint16(len(_))";
  "network/smb/smb_v10/spnego/ntlm: narrow to uint16: uint16(len(_))";
  "network/smb/smb_v10/spnego/ntlm: narrow to uint16: uint16(len(_))";
  "network/smb/smb_v10/spnego/ntlm: narrow to uint16: uint16(len(_))";
  "network/smb/smb_v10/spnego/ntlm: narrow to uint16: uint16(len(_))";
  "network/smb/smb_v10/spnego/ntlm: narrow to uint16: uint16(len(_))";
  "network/smb/smb_v10/spnego/ntlm: narrow to uint16: uint16(len(_))";
  "network/smb/smb_v10/spnego/ntlm: narrow to uint16: uint16(len(_))";
  "network/smb/smb_v10/spnego/ntlm: narrow to uint16: uint16(len(_))";
  "network/smb/smb_v10/spnego/ntlm: narrow to uint16: uint16(len(_))";
  "network/smb/smb_v10/spnego/ntlm: narrow to uint16: uint16(len(_))";
  "network/smb/smb_v10/spnego/ntlm: narrow to uint16: uint16(len(_))";
  "network/smb/smb_v10/spnego/ntlm: narrow to uint32: uint32(_)";
  "network/smb/smb_v10/spnego/ntlm: narrow to uint32: uint32(_)";
  "network/smb/smb_v10/spnego/ntlm: narrow to uint32: uint32(_)";
  "network/smb/smb_v10/spnego/ntlm: narrow to uint32: uint32(_)";
  "network/smb/smb_v10/spnego/ntlm: narrow to uint32: uint32(_)";
  "network/smb/smb_v10/spnego/ntlm: narrow to uint32: uint32(_)";
  "network/smb/smb_v10/spnego/ntlm: narrow to uint32: uint32(_)";
  "network/smb/smb_v10/spnego/ntlm: narrow to uint32: uint32(_)";
  "network/smb/smb_v10/types: - uint16: _.Year - 1980";
  "network/smb/smb_v10/types: << uint16: (_.Year - 1980) << 9";
  "network/smb/smb_v10/types: << uint16: uint16(_.Month) << 5";
  "network/smb/smb_v10/types: narrow to uint16: uint16(_)";
  "network/smb/smb_v10/types: narrow to uint16: uint16(len(_))";
  "network/smb/smb_v10/types: narrow to uint16: uint16(len(_))";
  "network/smb/smb_v10/types: narrow to uint16: uint16(len(_))";
  "network/smb/smb_v10/types: narrow to uint8: uint8(_)";
  "network/smb/smb_v10/types: narrow to uint8: uint8(_)";
  "utils/encoding/utf16: << uint16: uint16(_[_+1]) << 8";
  "windows/guid: << uint16: uint16(_[5]) << 8";
  "windows/guid: << uint16: uint16(_[7]) << 8";
  "windows/guid: << uint16: uint16(_[8]) << 8";
  "windows/guid: << uint32: uint32(_[1]) << 8";
  "windows/guid: << uint32: uint32(_[2]) << 16";
  "windows/guid: << uint32: uint32(_[3]) << 24";
  "windows/guid: << uint64: _ << 8";
  "windows/guid: << uint64: _ << 8";
  "windows/guid: << uint64: uint64(_[10]) << 40";
  "windows/guid: << uint64: uint64(_[11]) << 32";
  "windows/guid: << uint64: uint64(_[12]) << 24";
  "windows/guid: << uint64: uint64(_[13]) << 16";
  "windows/guid: << uint64: uint64(_[14]) << 8";
  "windows/guid: narrow to uint16: uint16(_)";
  "windows/guid: narrow to uint8: byte((_.E >> uint64(_*8)) & 0xff)";
  "windows/guid: narrow to uint8: byte(_.A >> 16)";
  "windows/guid: narrow to uint8: byte(_.A >> 24)";
  "windows/guid: narrow to uint8: byte(_.A >> 8)";
  "windows/guid: narrow to uint8: byte(_.A)";
  "windows/guid: narrow to uint8: byte(_.B >> 8)";
  "windows/guid: narrow to uint8: byte(_.B)";
  "windows/guid: narrow to uint8: byte(_.C >> 8)";
  "windows/guid: narrow to uint8: byte(_.C)";
  "windows/guid: narrow to uint8: byte(_.D >> 8)";
  "windows/guid: narrow to uint8: byte(_.D)";
  "windows/keycredential: += uint32: _.RawBytesSize += _.Version.RawBytesSize";
  "windows/keycredential: narrow to uint16: uint16(len(_))";
  "windows/keycredential: narrow to uint32: uint32(len(_))";
  "windows/keycredential/crypto: << uint32: _.Exponent << 8";
  "windows/keycredential/crypto: narrow to uint32: uint32(_.Value)";
  "windows/keycredential/crypto: narrow to uint32: uint32(len(_))";
  "windows/keycredential/crypto: narrow to uint32: uint32(len(_))";
  "windows/keycredential/crypto: narrow to uint32: uint32(len(_))";
  "windows/keycredential/crypto: narrow to uint32: uint32(len(_))";
  "windows/keycredential/crypto: narrow to uint32: uint32(len(_.Modulus))";
  "windows/keycredential/key: - uint32: _.RawBytesSize - 19";
  "windows/keycredential/key: narrow to uint32: uint32(len(_))";
  "windows/keycredential/key: narrow to uint8: byte(_.Version)";
  "windows/keycredential/utils: * int64: int64(_%10000000) * 100"
].

Definition expected_wraps_C08 : list string := [
  "network/smb/smb_v10/spnego: narrow to uint8: byte(0x80 | len(_))";
  "network/smb/smb_v10/spnego: narrow to uint8: byte(0x80 | len(_))";
  "network/smb/smb_v10/spnego: narrow to uint8: byte(_ & 0xFF)";
  "network/smb/smb_v10/spnego: narrow to uint8: byte(_)";
  "network/smb/smb_v10/spnego/ntlm: << uint8: (_[0] & 0x01) << 6";
  "network/smb/smb_v10/spnego/ntlm: << uint8: (_[1] & 0x03) << 5";
  "network/smb/smb_v10/spnego/ntlm: << uint8: (_[2] & 0x07) << 4";
  "network/smb/smb_v10/spnego/ntlm: << uint8: (_[3] & 0x0F) << 3";
  "network/smb/smb_v10/spnego/ntlm: << uint8: (_[4] & 0x1F) << 2";
  "network/smb/smb_v10/spnego/ntlm: << uint8: (_[5] & 0x3F) << 1";
  "network/smb/smb_v10/spnego/ntlm: << uint8: 1 << _";
  "network/smb/smb_v10/spnego/ntlm: << uint8: _[_] << 1";
  "network/smb/smb_v10/spnego/ntlm: narrow to uint16: uint16(len(_))";
  "network/smb/smb_v10/spnego/ntlm: narrow to uint16: uint16(len(_))";
  "network/smb/smb_v10/spnego/ntlm: narrow to uint16: uint16(len(_))";
  "network/smb/smb_v10/spnego/ntlm: narrow to uint16: uint16(len(_))";
  "network/smb/smb_v10/spnego/ntlm: narrow to uint16: uint16(len(_))";
  "network/smb/smb_v10/spnego/ntlm: narrow to uint16: uint16(len(_))";
  "network/smb/smb_v10/spnego/ntlm: narrow to uint16: uint16(len(_))";
  "network/smb/smb_v10/spnego/ntlm: narrow to uint16: uint16(len(_))";
  "network/smb/smb_v10/spnego/ntlm: narrow to uint16: uint16(len(_))";
  "network/smb/smb_v10/spnego/ntlm: narrow to uint16: uint16(len(_))";
  "network/smb/smb_v10/spnego/ntlm: narrow to uint16: uint16(len(_))";
  "network/smb/smb_v10/spnego/ntlm: narrow to uint16: uint16(len(_))";
  "network/smb/smb_v10/spnego/ntlm: narrow to uint16: uint16(len(_))";
  "network/smb/smb_v10/spnego/ntlm: narrow to uint16: uint16(len(_))";
  "network/smb/smb_v10/spnego/ntlm: narrow to uint16: uint16(len(_))";
  "network/smb/smb_v10/spnego/ntlm: narrow to uint16: uint16(len(_))";
  "network/smb/smb_v10/spnego/ntlm: narrow to uint32: uint32(_)";
  "network/smb/smb_v10/spnego/ntlm: narrow to uint32: uint32(_)";
  "network/smb/smb_v10/spnego/ntlm: narrow to uint32: uint32(_)";
  "network/smb/smb_v10/spnego/ntlm: narrow to uint32: uint32(_)";
  "network/smb/smb_v10/spnego/ntlm: narrow to uint32: uint32(_)";
  "network/smb/smb_v10/spnego/ntlm: narrow to uint32: uint32(_)";
  "network/smb/smb_v10/spnego/ntlm: narrow to uint32: uint32(_)";
  "network/smb/smb_v10/spnego/ntlm: narrow to uint32: uint32(_)"
].

Definition expected_wraps_C09 : list string := [
  "network/llmnr: ++ uint16: _++";
  "network/llmnr: ++ uint16: _++";
  "network/llmnr: ++ uint16: _++";
  "network/llmnr: ++ uint16: _++";
  "network/llmnr: narrow to uint16: uint16(len(_.Additional))";
  "network/llmnr: narrow to uint16: uint16(len(_.Answers))";
  "network/llmnr: narrow to uint16: uint16(len(_.Answers))";
  "network/llmnr: narrow to uint16: uint16(len(_.Authority))";
  "network/llmnr: narrow to uint16: uint16(len(_.Questions))";
  "network/llmnr: narrow to uint16: uint16(len(_.Questions))";
  "network/llmnr: narrow to uint16: uint16(len(_.Questions))";
  "network/llmnr: narrow to uint16: uint16(len(_.Questions))";
  "network/llmnr: narrow to uint16: uint16(len(_.RData))";
  "network/llmnr: narrow to uint16: uint16(len(_.RData))";
  "network/llmnr: narrow to uint16: uint16(len(_.RData))"
].

Definition expected_wraps_C10 : list string := [
  "network/netbios/nbtns: + uint8: ((_[_] >> 4) & 0x0F) + _";
  "network/netbios/nbtns: + uint8: (_[_] & 0x0F) + _";
  "network/netbios/nbtns: ++ uint16: _++";
  "network/netbios/nbtns: ++ uint16: _++";
  "network/netbios/nbtns: narrow to uint16: uint16(len(_))";
  "network/netbios/nbtns: narrow to uint16: uint16(len(_.Answers))";
  "network/netbios/nbtns: narrow to uint16: uint16(len(_.Answers))";
  "network/netbios/nbtns: narrow to uint16: uint16(len(_.Answers))";
  "network/netbios/nbtns: narrow to uint8: byte(_.ServerPort >> 8)";
  "network/netbios/nbtns: narrow to uint8: byte(_.ServerPort)"
].

Definition expected_wraps_C11 : list string := [
  "network/netbios/nbt: narrow to uint8: byte((_ >> 16) & 0x01)";
  "network/netbios/nbt: narrow to uint8: byte((_ >> 8) & 0xFF)";
  "network/netbios/nbt: narrow to uint8: byte(_ & 0xFF)"
].

Definition expected_wraps_C12 : list string := [
  "crypto/cmac: << uint8: _[_] << 1";
  "crypto/pkcs7: narrow to uint8: byte(_)";
  "crypto/rc4: + uint8: _.s[_] + _[_%_]";
  "crypto/rc4: ++ uint8: _++";
  "crypto/rc4: += uint8: _ += _.s[_]";
  "crypto/rc4: += uint8: _ += _.s[_] + _[_%_]";
  "crypto/rc4: narrow to uint8: uint8(_)";
  "crypto/rc4: narrow to uint8: uint8(_)";
  "crypto/rc4: narrow to uint8: uint8(int(_.s[_]) + int(_.s[_]))"
].

Definition expected_wraps_C13 : list string := [
  "crypto/uuid: << uint8: (_.Variant & 0xF) << 4";
  "crypto/uuid: << uint8: (_.Version & 0xF) << 4";
  "crypto/uuid: << uint8: (_[6] & 0x0F) << 4";
  "crypto/uuid: << uint8: (_[7] & 0x0F) << 4";
  "crypto/uuid: << uint8: _ & 0xF << 4";
  "crypto/uuid/uuid_v1: * int64: int64(_%10000000) * 100";
  "crypto/uuid/uuid_v1: - int64: int64(_/10000000) - int64(_/10000000)";
  "crypto/uuid/uuid_v1: << uint8: byte(_&0x0F) << 4";
  "crypto/uuid/uuid_v1: narrow to uint16: uint16((_.Time & 0x0000FFFF00000000) >> 32)";
  "crypto/uuid/uuid_v1: narrow to uint16: uint16((_.Time & 0x0FFF000000000000) >> 48)";
  "crypto/uuid/uuid_v1: narrow to uint32: uint32(_.Time & 0x00000000FFFFFFFF)";
  "crypto/uuid/uuid_v1: narrow to uint8: byte((_ >> 4) & 0xFF)";
  "crypto/uuid/uuid_v1: narrow to uint8: byte((_.ClockSeq & 0x0F00) >> 8)";
  "crypto/uuid/uuid_v1: narrow to uint8: byte(_ & 0x0F)";
  "crypto/uuid/uuid_v1: narrow to uint8: byte(_.ClockSeq & 0xFF)";
  "crypto/uuid/uuid_v2: * int64: int64(_%10000000) * 100";
  "crypto/uuid/uuid_v2: - int64: int64(_/10000000) - int64(_/10000000)";
  "crypto/uuid/uuid_v2: << uint8: byte(_&0x0F) << 4";
  "crypto/uuid/uuid_v2: narrow to uint16: uint16((_.Time & 0x0000FFFF00000000) >> 32)";
  "crypto/uuid/uuid_v2: narrow to uint16: uint16((_.Time & 0x0FFF000000000000) >> 48)";
  "crypto/uuid/uuid_v2: narrow to uint8: byte((_ >> 4) & 0xFF)";
  "crypto/uuid/uuid_v2: narrow to uint8: byte(_ & 0x0F)";
  "windows/guid: << uint16: uint16(_[5]) << 8";
  "windows/guid: << uint16: uint16(_[7]) << 8";
  "windows/guid: << uint16: uint16(_[8]) << 8";
  "windows/guid: << uint32: uint32(_[1]) << 8";
  "windows/guid: << uint32: uint32(_[2]) << 16";
  "windows/guid: << uint32: uint32(_[3]) << 24";
  "windows/guid: << uint64: _ << 8";
  "windows/guid: << uint64: _ << 8";
  "windows/guid: << uint64: uint64(_[10]) << 40";
  "windows/guid: << uint64: uint64(_[11]) << 32";
  "windows/guid: << uint64: uint64(_[12]) << 24";
  "windows/guid: << uint64: uint64(_[13]) << 16";
  "windows/guid: << uint64: uint64(_[14]) << 8";
  "windows/guid: narrow to uint16: uint16(_)";
  "windows/guid: narrow to uint8: byte((_.E >> uint64(_*8)) & 0xff)";
  "windows/guid: narrow to uint8: byte(_.A >> 16)";
  "windows/guid: narrow to uint8: byte(_.A >> 24)";
  "windows/guid: narrow to uint8: byte(_.A >> 8)";
  "windows/guid: narrow to uint8: byte(_.A)";
  "windows/guid: narrow to uint8: byte(_.B >> 8)";
  "windows/guid: narrow to uint8: byte(_.B)";
  "windows/guid: narrow to uint8: byte(_.C >> 8)";
  "windows/guid: narrow to uint8: byte(_.C)";
  "windows/guid: narrow to uint8: byte(_.D >> 8)";
  "windows/guid: narrow to uint8: byte(_.D)";
  "windows/ms_dtyp/common/data_structures: * int64: (_ % 10000000) * 100";
  "windows/ms_dtyp/common/data_structures: - int64: _/10000000 - _/10000000";
  "windows/ms_dtyp/common/data_structures: << int64: int64(_.DwHighDateTime) & 0xFFFFFFFF << 32"
].

Definition expected_wraps_C14 : list string := [
  "windows/keycredential: += uint32: _.RawBytesSize += _.Version.RawBytesSize";
  "windows/keycredential: narrow to uint16: uint16(len(_))";
  "windows/keycredential: narrow to uint32: uint32(len(_))";
  "windows/keycredential/crypto: << uint32: _.Exponent << 8";
  "windows/keycredential/crypto: narrow to uint32: uint32(_.Value)";
  "windows/keycredential/crypto: narrow to uint32: uint32(len(_))";
  "windows/keycredential/crypto: narrow to uint32: uint32(len(_))";
  "windows/keycredential/crypto: narrow to uint32: uint32(len(_))";
  "windows/keycredential/crypto: narrow to uint32: uint32(len(_))";
  "windows/keycredential/crypto: narrow to uint32: uint32(len(_.Modulus))";
  "windows/keycredential/key: - uint32: _.RawBytesSize - 19";
  "windows/keycredential/key: narrow to uint32: uint32(len(_))";
  "windows/keycredential/key: narrow to uint8: byte(_.Version)";
  "windows/keycredential/utils: * int64: int64(_%10000000) * 100"
].

Definition expected_wraps_C15 : list string := [
  "crypto/uuid/uuid_v1: * int64: int64(_%10000000) * 100";
  "crypto/uuid/uuid_v1: - int64: int64(_/10000000) - int64(_/10000000)";
  "crypto/uuid/uuid_v1: << uint8: byte(_&0x0F) << 4";
  "crypto/uuid/uuid_v1: narrow to uint16: uint16((_.Time & 0x0000FFFF00000000) >> 32)";
  "crypto/uuid/uuid_v1: narrow to uint16: uint16((_.Time & 0x0FFF000000000000) >> 48)";
  "crypto/uuid/uuid_v1: narrow to uint32: uint32(_.Time & 0x00000000FFFFFFFF)";
  "crypto/uuid/uuid_v1: narrow to uint8: byte((_ >> 4) & 0xFF)";
  "crypto/uuid/uuid_v1: narrow to uint8: byte((_.ClockSeq & 0x0F00) >> 8)";
  "crypto/uuid/uuid_v1: narrow to uint8: byte(_ & 0x0F)";
  "crypto/uuid/uuid_v1: narrow to uint8: byte(_.ClockSeq & 0xFF)";
  "crypto/uuid/uuid_v2: * int64: int64(_%10000000) * 100";
  "crypto/uuid/uuid_v2: - int64: int64(_/10000000) - int64(_/10000000)";
  "crypto/uuid/uuid_v2: << uint8: byte(_&0x0F) << 4";
  "crypto/uuid/uuid_v2: narrow to uint16: uint16((_.Time & 0x0000FFFF00000000) >> 32)";
  "crypto/uuid/uuid_v2: narrow to uint16: uint16((_.Time & 0x0FFF000000000000) >> 48)";
  "crypto/uuid/uuid_v2: narrow to uint8: byte((_ >> 4) & 0xFF)";
  "crypto/uuid/uuid_v2: narrow to uint8: byte(_ & 0x0F)";
  "network/ldap: << uint64: uint64(_[2+0]) << 40";
  "network/ldap: << uint64: uint64(_[2+1]) << 32";
  "network/ldap: << uint64: uint64(_[2+2]) << 24";
  "network/ldap: << uint64: uint64(_[2+3]) << 16";
  "network/ldap: << uint64: uint64(_[2+4]) << 8";
  "windows/keycredential/utils: * int64: int64(_%10000000) * 100";
  "windows/ms_dtyp/common/data_structures: * int64: (_ % 10000000) * 100";
  "windows/ms_dtyp/common/data_structures: - int64: _/10000000 - _/10000000";
  "windows/ms_dtyp/common/data_structures: << int64: int64(_.DwHighDateTime) & 0xFFFFFFFF << 32"
].

Definition expected_wraps_C16 : list string := [
  "network/ldap: << uint64: uint64(_[2+0]) << 40";
  "network/ldap: << uint64: uint64(_[2+1]) << 32";
  "network/ldap: << uint64: uint64(_[2+2]) << 24";
  "network/ldap: << uint64: uint64(_[2+3]) << 16";
  "network/ldap: << uint64: uint64(_[2+4]) << 8"
].

Definition expected_wraps_C17 : list string := [
  "network/netbios/nbtns: + uint8: ((_[_] >> 4) & 0x0F) + _";
  "network/netbios/nbtns: + uint8: (_[_] & 0x0F) + _";
  "network/netbios/nbtns: ++ uint16: _++";
  "network/netbios/nbtns: ++ uint16: _++";
  "network/netbios/nbtns: narrow to uint16: uint16(len(_))";
  "network/netbios/nbtns: narrow to uint16: uint16(len(_.Answers))";
  "network/netbios/nbtns: narrow to uint16: uint16(len(_.Answers))";
  "network/netbios/nbtns: narrow to uint16: uint16(len(_.Answers))";
  "network/netbios/nbtns: narrow to uint8: byte(_.ServerPort >> 8)";
  "network/netbios/nbtns: narrow to uint8: byte(_.ServerPort)"
].

Definition expected_wraps_C18 : list string := [
  "network/llmnr: ++ uint16: _++";
  "network/llmnr: ++ uint16: _++";
  "network/llmnr: ++ uint16: _++";
  "network/llmnr: ++ uint16: _++";
  "network/llmnr: narrow to uint16: uint16(len(_.Additional))";
  "network/llmnr: narrow to uint16: uint16(len(_.Answers))";
  "network/llmnr: narrow to uint16: uint16(len(_.Answers))";
  "network/llmnr: narrow to uint16: uint16(len(_.Authority))";
  "network/llmnr: narrow to uint16: uint16(len(_.Questions))";
  "network/llmnr: narrow to uint16: uint16(len(_.Questions))";
  "network/llmnr: narrow to uint16: uint16(len(_.Questions))";
  "network/llmnr: narrow to uint16: uint16(len(_.Questions))";
  "network/llmnr: narrow to uint16: uint16(len(_.RData))";
  "network/llmnr: narrow to uint16: uint16(len(_.RData))";
  "network/llmnr: narrow to uint16: uint16(len(_.RData))";
  "network/netbios/nbtns: + uint8: ((_[_] >> 4) & 0x0F) + _";
  "network/netbios/nbtns: + uint8: (_[_] & 0x0F) + _";
  "network/netbios/nbtns: ++ uint16: _++";
  "network/netbios/nbtns: ++ uint16: _++";
  "network/netbios/nbtns: narrow to uint16: uint16(len(_))";
  "network/netbios/nbtns: narrow to uint16: uint16(len(_.Answers))";
  "network/netbios/nbtns: narrow to uint16: uint16(len(_.Answers))";
  "network/netbios/nbtns: narrow to uint16: uint16(len(_.Answers))";
  "network/netbios/nbtns: narrow to uint8: byte(_.ServerPort >> 8)";
  "network/netbios/nbtns: narrow to uint8: byte(_.ServerPort)"
].

Definition expected_wraps_C19 : list string := [
  "windows/keycredential/key: - uint32: _.RawBytesSize - 19";
  "windows/keycredential/key: narrow to uint32: uint32(len(_))";
  "windows/keycredential/key: narrow to uint8: byte(_.Version)"
].

Definition expected_wraps_C20 : list string := [
  "network/ip: - uint8: 32 - _.MaskBits";
  "network/ip: - uint8: 32 - _.MaskBits";
  "network/ip: << uint32: uint32(0xFFFFFFFF) << (32 - _.MaskBits)";
  "network/ip: << uint32: uint32(0xFFFFFFFF) << (32 - _.MaskBits)";
  "network/ip: << uint32: uint32(_.A) << 24";
  "network/ip: << uint32: uint32(_.B) << 16";
  "network/ip: << uint32: uint32(_.C) << 8";
  "network/ip: << uint64: uint64(_.A) << 48";
  "network/ip: << uint64: uint64(_.B) << 32";
  "network/ip: << uint64: uint64(_.C) << 16";
  "network/ip: << uint64: uint64(_.E) << 48";
  "network/ip: << uint64: uint64(_.F) << 32";
  "network/ip: << uint64: uint64(_.G) << 16";
  "network/ip: narrow to uint16: uint16(_)";
  "network/ip: narrow to uint16: uint16(_)";
  "network/ip: narrow to uint8: uint8((_ >> 16) & 0xFF)";
  "network/ip: narrow to uint8: uint8((_ >> 24) & 0xFF)";
  "network/ip: narrow to uint8: uint8((_ >> 8) & 0xFF)";
  "network/ip: narrow to uint8: uint8(_ & 0xFF)"
].

