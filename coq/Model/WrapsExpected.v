(* Where fixed-width integer arithmetic can wrap and where integers are narrowed, in every anchored package, as it was
   when the hand-written models (which write each wrap explicitly) were written.  Recorded by
   tools/gen_shapes_expected.py from the pinned tree, reviewed, committed; never written by a check. *)
From Coq Require Import List String.
Import ListNotations.
Open Scope string_scope.

Definition expected_wraps_C01 : list string := [
  "crypto/lm: << uint8: (_ << 1)";
  "crypto/lm: << uint8: (_ << 1)";
  "crypto/lm: << uint8: (_ << 2)";
  "crypto/lm: << uint8: (_ << 2)";
  "crypto/lm: << uint8: (_ << 3)";
  "crypto/lm: << uint8: (_ << 3)";
  "crypto/lm: << uint8: (_ << 4)";
  "crypto/lm: << uint8: (_ << 4)";
  "crypto/lm: << uint8: (_ << 5)";
  "crypto/lm: << uint8: (_ << 5)";
  "crypto/lm: << uint8: (_ << 6)";
  "crypto/lm: << uint8: (_ << 6)";
  "crypto/lm: << uint8: (_ << 7)";
  "crypto/lm: << uint8: (_ << 7)";
  "crypto/md4: * uint64: (uint64(_) * 8)";
  "crypto/md4: + uint32: (((_ + ((_ & _) | (_ & (_ | _)))) + _) + 1518500249)";
  "crypto/md4: + uint32: (((_ + ((_ ^ _) ^ _)) + _) + 1859775393)";
  "crypto/md4: + uint32: ((_ + ((_ & _) | (_ & (_ | _)))) + _)";
  "crypto/md4: + uint32: ((_ + ((_ ^ _) ^ _)) + _)";
  "crypto/md4: + uint32: ((_ + (_ ^ (_ & (_ ^ _)))) + _)";
  "crypto/md4: + uint32: (_ + ((_ & _) | (_ & (_ | _))))";
  "crypto/md4: + uint32: (_ + ((_ ^ _) ^ _))";
  "crypto/md4: + uint32: (_ + (_ ^ (_ & (_ ^ _))))";
  "crypto/md4: += uint32: _ += _";
  "crypto/md4: += uint32: _ += _";
  "crypto/md4: += uint32: _ += _";
  "crypto/md4: += uint32: _ += _";
  "crypto/md4: += uint64: _ += (uint64(_) * 8)";
  "crypto/md4: += uint64: _ += 64";
  "crypto/md4: - uint32: (32 - _)";
  "crypto/md4: - uint64: ((_ / 8) - uint64(_))";
  "crypto/md4: - uint64: (56 - _)";
  "crypto/md4: << uint32: (_ << _)"
].

Definition expected_wraps_C02 : list string := [
  "crypto/ntlmv1: << uint8: (1 << (7 - _))";
  "crypto/ntlmv1: narrow to uint8: byte(_)";
  "network/smb/smb_v10/spnego/ntlm: << uint8: (1 << _)";
  "network/smb/smb_v10/spnego/ntlm: << uint8: (_ << 1)";
  "network/smb/smb_v10/spnego/ntlm: narrow to uint16: uint16(len(_))";
  "network/smb/smb_v10/spnego/ntlm: narrow to uint16: uint16(len(_))";
  "network/smb/smb_v10/spnego/ntlm: narrow to uint16: uint16(len(_))";
  "network/smb/smb_v10/spnego/ntlm: narrow to uint16: uint16(len(_))";
  "network/smb/smb_v10/spnego/ntlm: narrow to uint16: uint16(len(_))";
  "network/smb/smb_v10/spnego/ntlm: narrow to uint16: uint16(len(_))";
  "network/smb/smb_v10/spnego/ntlm: narrow to uint16: uint16(len(_))";
  "network/smb/smb_v10/spnego/ntlm: narrow to uint16: uint16(len(_))";
  "network/smb/smb_v10/spnego/ntlm: narrow to uint16: uint16(len(_))";
  "network/smb/smb_v10/spnego/ntlm: narrow to uint16: uint16(len(_))";
  "network/smb/smb_v10/spnego/ntlm: narrow to uint16: uint16(len(_))";
  "network/smb/smb_v10/spnego/ntlm: narrow to uint16: uint16(len(_))";
  "network/smb/smb_v10/spnego/ntlm: narrow to uint16: uint16(len(_))";
  "network/smb/smb_v10/spnego/ntlm: narrow to uint16: uint16(len(_))";
  "network/smb/smb_v10/spnego/ntlm: narrow to uint16: uint16(len(_))";
  "network/smb/smb_v10/spnego/ntlm: narrow to uint16: uint16(len(_))";
  "network/smb/smb_v10/spnego/ntlm: narrow to uint32: uint32(_)";
  "network/smb/smb_v10/spnego/ntlm: narrow to uint32: uint32(_)";
  "network/smb/smb_v10/spnego/ntlm: narrow to uint32: uint32(_)";
  "network/smb/smb_v10/spnego/ntlm: narrow to uint32: uint32(_)";
  "network/smb/smb_v10/spnego/ntlm: narrow to uint32: uint32(_)";
  "network/smb/smb_v10/spnego/ntlm: narrow to uint32: uint32(_)";
  "network/smb/smb_v10/spnego/ntlm: narrow to uint32: uint32(_)";
  "network/smb/smb_v10/spnego/ntlm: narrow to uint32: uint32(_)"
].

Definition expected_wraps_C03 : list string := [
  "network/smb/smb_v10/message/data: narrow to uint16: uint16(len(_))";
  "network/smb/smb_v10/message/data: narrow to uint16: uint16(len(_))";
  "network/smb/smb_v10/message/parameters: narrow to uint16: uint16(len(_))";
  "network/smb/smb_v10/message/parameters: narrow to uint8: uint8((len(_) * 2))";
  "network/smb/smb_v10/message/parameters: narrow to uint8: uint8(len(_))";
  "network/smb/smb_v10/message/parameters: narrow to uint8: uint8(len(_))"
].

Definition expected_wraps_C04 : list string := [

].

Definition expected_wraps_C05 : list string := [
  "network/smb/smb_v10/types: - uint16: (_ - 1980)";
  "network/smb/smb_v10/types: << uint16: ((_ - 1980) << 9)";
  "network/smb/smb_v10/types: narrow to uint16: uint16(_)";
  "network/smb/smb_v10/types: narrow to uint16: uint16(len(_))";
  "network/smb/smb_v10/types: narrow to uint16: uint16(len(_))";
  "network/smb/smb_v10/types: narrow to uint16: uint16(len(_))";
  "network/smb/smb_v10/types: narrow to uint8: uint8(_)";
  "network/smb/smb_v10/types: narrow to uint8: uint8(_)"
].

Definition expected_wraps_C06 : list string := [
  "network/smb/smb_v10/message/data: narrow to uint16: uint16(len(_))";
  "network/smb/smb_v10/message/data: narrow to uint16: uint16(len(_))";
  "network/smb/smb_v10/message/parameters: narrow to uint16: uint16(len(_))";
  "network/smb/smb_v10/message/parameters: narrow to uint8: uint8((len(_) * 2))";
  "network/smb/smb_v10/message/parameters: narrow to uint8: uint8(len(_))";
  "network/smb/smb_v10/message/parameters: narrow to uint8: uint8(len(_))";
  "network/smb/smb_v10/types: - uint16: (_ - 1980)";
  "network/smb/smb_v10/types: << uint16: ((_ - 1980) << 9)";
  "network/smb/smb_v10/types: narrow to uint16: uint16(_)";
  "network/smb/smb_v10/types: narrow to uint16: uint16(len(_))";
  "network/smb/smb_v10/types: narrow to uint16: uint16(len(_))";
  "network/smb/smb_v10/types: narrow to uint16: uint16(len(_))";
  "network/smb/smb_v10/types: narrow to uint8: uint8(_)";
  "network/smb/smb_v10/types: narrow to uint8: uint8(_)";
  "windows/ms_dtyp/common/data_structures: * int64: ((_ % 10000000) * 100)";
  "windows/ms_dtyp/common/data_structures: - int64: ((_ / 10000000) - 11644473600)";
  "windows/ms_dtyp/common/data_structures: << int64: ((int64(_) & 4294967295) << 32)"
].

Definition expected_wraps_C07 : list string := [
  "crypto/pkcs7: narrow to uint8: byte(_)";
  "network/ip: - uint8: (32 - _)";
  "network/ip: - uint8: (32 - _)";
  "network/ip: << uint32: (4294967295 << (32 - _))";
  "network/ip: << uint32: (4294967295 << (32 - _))";
  "network/ip: narrow to uint16: uint16(_)";
  "network/ip: narrow to uint16: uint16(_)";
  "network/llmnr: ++ uint16: _++";
  "network/llmnr: ++ uint16: _++";
  "network/llmnr: ++ uint16: _++";
  "network/llmnr: ++ uint16: _++";
  "network/llmnr: narrow to uint16: uint16(len(_))";
  "network/llmnr: narrow to uint16: uint16(len(_))";
  "network/llmnr: narrow to uint16: uint16(len(_))";
  "network/llmnr: narrow to uint16: uint16(len(_))";
  "network/llmnr: narrow to uint16: uint16(len(_))";
  "network/llmnr: narrow to uint16: uint16(len(_))";
  "network/llmnr: narrow to uint16: uint16(len(_))";
  "network/llmnr: narrow to uint16: uint16(len(_))";
  "network/llmnr: narrow to uint16: uint16(len(_))";
  "network/llmnr: narrow to uint16: uint16(len(_))";
  "network/llmnr: narrow to uint16: uint16(len(_))";
  "network/netbios/nbtns: ++ uint16: _++";
  "network/netbios/nbtns: ++ uint16: _++";
  "network/netbios/nbtns: narrow to uint16: uint16(len(_))";
  "network/netbios/nbtns: narrow to uint16: uint16(len(_))";
  "network/netbios/nbtns: narrow to uint16: uint16(len(_))";
  "network/netbios/nbtns: narrow to uint16: uint16(len(_))";
  "network/netbios/nbtns: narrow to uint8: byte(_)";
  "network/smb/smb_v10/message/data: narrow to uint16: uint16(len(_))";
  "network/smb/smb_v10/message/data: narrow to uint16: uint16(len(_))";
  "network/smb/smb_v10/spnego: narrow to uint8: byte((128 | len(_)))";
  "network/smb/smb_v10/spnego: narrow to uint8: byte((128 | len(_)))";
  "network/smb/smb_v10/spnego: narrow to uint8: byte(_)";
  "network/smb/smb_v10/spnego/ntlm: << uint8: (1 << _)";
  "network/smb/smb_v10/spnego/ntlm: << uint8: (_ << 1)";
  "network/smb/smb_v10/spnego/ntlm: narrow to uint16: uint16(len(_))";
  "network/smb/smb_v10/spnego/ntlm: narrow to uint16: uint16(len(_))";
  "network/smb/smb_v10/spnego/ntlm: narrow to uint16: uint16(len(_))";
  "network/smb/smb_v10/spnego/ntlm: narrow to uint16: uint16(len(_))";
  "network/smb/smb_v10/spnego/ntlm: narrow to uint16: uint16(len(_))";
  "network/smb/smb_v10/spnego/ntlm: narrow to uint16: uint16(len(_))";
  "network/smb/smb_v10/spnego/ntlm: narrow to uint16: uint16(len(_))";
  "network/smb/smb_v10/spnego/ntlm: narrow to uint16: uint16(len(_))";
  "network/smb/smb_v10/spnego/ntlm: narrow to uint16: uint16(len(_))";
  "network/smb/smb_v10/spnego/ntlm: narrow to uint16: uint16(len(_))";
  "network/smb/smb_v10/spnego/ntlm: narrow to uint16: uint16(len(_))";
  "network/smb/smb_v10/spnego/ntlm: narrow to uint16: uint16(len(_))";
  "network/smb/smb_v10/spnego/ntlm: narrow to uint16: uint16(len(_))";
  "network/smb/smb_v10/spnego/ntlm: narrow to uint16: uint16(len(_))";
  "network/smb/smb_v10/spnego/ntlm: narrow to uint16: uint16(len(_))";
  "network/smb/smb_v10/spnego/ntlm: narrow to uint16: uint16(len(_))";
  "network/smb/smb_v10/spnego/ntlm: narrow to uint32: uint32(_)";
  "network/smb/smb_v10/spnego/ntlm: narrow to uint32: uint32(_)";
  "network/smb/smb_v10/spnego/ntlm: narrow to uint32: uint32(_)";
  "network/smb/smb_v10/spnego/ntlm: narrow to uint32: uint32(_)";
  "network/smb/smb_v10/spnego/ntlm: narrow to uint32: uint32(_)";
  "network/smb/smb_v10/spnego/ntlm: narrow to uint32: uint32(_)";
  "network/smb/smb_v10/spnego/ntlm: narrow to uint32: uint32(_)";
  "network/smb/smb_v10/spnego/ntlm: narrow to uint32: uint32(_)";
  "network/smb/smb_v10/types: - uint16: (_ - 1980)";
  "network/smb/smb_v10/types: << uint16: ((_ - 1980) << 9)";
  "network/smb/smb_v10/types: narrow to uint16: uint16(_)";
  "network/smb/smb_v10/types: narrow to uint16: uint16(len(_))";
  "network/smb/smb_v10/types: narrow to uint16: uint16(len(_))";
  "network/smb/smb_v10/types: narrow to uint16: uint16(len(_))";
  "network/smb/smb_v10/types: narrow to uint8: uint8(_)";
  "network/smb/smb_v10/types: narrow to uint8: uint8(_)";
  "windows/guid: << uint64: (_ << 8)";
  "windows/guid: << uint64: (_ << 8)";
  "windows/guid: narrow to uint16: uint16(_)";
  "windows/guid: narrow to uint8: byte((_ >> 16))";
  "windows/guid: narrow to uint8: byte((_ >> 8))";
  "windows/guid: narrow to uint8: byte(_)";
  "windows/guid: narrow to uint8: byte(_)";
  "windows/guid: narrow to uint8: byte(_)";
  "windows/guid: narrow to uint8: byte(_)";
  "windows/keycredential: += uint32: _ += _";
  "windows/keycredential: narrow to uint16: uint16(len(_))";
  "windows/keycredential: narrow to uint32: uint32(len(_))";
  "windows/keycredential/crypto: << uint32: (_ << 8)";
  "windows/keycredential/crypto: narrow to uint32: uint32(_)";
  "windows/keycredential/crypto: narrow to uint32: uint32(len(_))";
  "windows/keycredential/crypto: narrow to uint32: uint32(len(_))";
  "windows/keycredential/crypto: narrow to uint32: uint32(len(_))";
  "windows/keycredential/crypto: narrow to uint32: uint32(len(_))";
  "windows/keycredential/crypto: narrow to uint32: uint32(len(_))";
  "windows/keycredential/key: - uint32: (_ - 19)";
  "windows/keycredential/key: narrow to uint32: uint32(len(_))";
  "windows/keycredential/key: narrow to uint8: byte(_)"
].

Definition expected_wraps_C08 : list string := [
  "network/smb/smb_v10/spnego: narrow to uint8: byte((128 | len(_)))";
  "network/smb/smb_v10/spnego: narrow to uint8: byte((128 | len(_)))";
  "network/smb/smb_v10/spnego: narrow to uint8: byte(_)";
  "network/smb/smb_v10/spnego/ntlm: << uint8: (1 << _)";
  "network/smb/smb_v10/spnego/ntlm: << uint8: (_ << 1)";
  "network/smb/smb_v10/spnego/ntlm: narrow to uint16: uint16(len(_))";
  "network/smb/smb_v10/spnego/ntlm: narrow to uint16: uint16(len(_))";
  "network/smb/smb_v10/spnego/ntlm: narrow to uint16: uint16(len(_))";
  "network/smb/smb_v10/spnego/ntlm: narrow to uint16: uint16(len(_))";
  "network/smb/smb_v10/spnego/ntlm: narrow to uint16: uint16(len(_))";
  "network/smb/smb_v10/spnego/ntlm: narrow to uint16: uint16(len(_))";
  "network/smb/smb_v10/spnego/ntlm: narrow to uint16: uint16(len(_))";
  "network/smb/smb_v10/spnego/ntlm: narrow to uint16: uint16(len(_))";
  "network/smb/smb_v10/spnego/ntlm: narrow to uint16: uint16(len(_))";
  "network/smb/smb_v10/spnego/ntlm: narrow to uint16: uint16(len(_))";
  "network/smb/smb_v10/spnego/ntlm: narrow to uint16: uint16(len(_))";
  "network/smb/smb_v10/spnego/ntlm: narrow to uint16: uint16(len(_))";
  "network/smb/smb_v10/spnego/ntlm: narrow to uint16: uint16(len(_))";
  "network/smb/smb_v10/spnego/ntlm: narrow to uint16: uint16(len(_))";
  "network/smb/smb_v10/spnego/ntlm: narrow to uint16: uint16(len(_))";
  "network/smb/smb_v10/spnego/ntlm: narrow to uint16: uint16(len(_))";
  "network/smb/smb_v10/spnego/ntlm: narrow to uint32: uint32(_)";
  "network/smb/smb_v10/spnego/ntlm: narrow to uint32: uint32(_)";
  "network/smb/smb_v10/spnego/ntlm: narrow to uint32: uint32(_)";
  "network/smb/smb_v10/spnego/ntlm: narrow to uint32: uint32(_)";
  "network/smb/smb_v10/spnego/ntlm: narrow to uint32: uint32(_)";
  "network/smb/smb_v10/spnego/ntlm: narrow to uint32: uint32(_)";
  "network/smb/smb_v10/spnego/ntlm: narrow to uint32: uint32(_)";
  "network/smb/smb_v10/spnego/ntlm: narrow to uint32: uint32(_)"
].

Definition expected_wraps_C09 : list string := [
  "network/llmnr: ++ uint16: _++";
  "network/llmnr: ++ uint16: _++";
  "network/llmnr: ++ uint16: _++";
  "network/llmnr: ++ uint16: _++";
  "network/llmnr: narrow to uint16: uint16(len(_))";
  "network/llmnr: narrow to uint16: uint16(len(_))";
  "network/llmnr: narrow to uint16: uint16(len(_))";
  "network/llmnr: narrow to uint16: uint16(len(_))";
  "network/llmnr: narrow to uint16: uint16(len(_))";
  "network/llmnr: narrow to uint16: uint16(len(_))";
  "network/llmnr: narrow to uint16: uint16(len(_))";
  "network/llmnr: narrow to uint16: uint16(len(_))";
  "network/llmnr: narrow to uint16: uint16(len(_))";
  "network/llmnr: narrow to uint16: uint16(len(_))";
  "network/llmnr: narrow to uint16: uint16(len(_))"
].

Definition expected_wraps_C10 : list string := [
  "network/netbios/nbtns: ++ uint16: _++";
  "network/netbios/nbtns: ++ uint16: _++";
  "network/netbios/nbtns: narrow to uint16: uint16(len(_))";
  "network/netbios/nbtns: narrow to uint16: uint16(len(_))";
  "network/netbios/nbtns: narrow to uint16: uint16(len(_))";
  "network/netbios/nbtns: narrow to uint16: uint16(len(_))";
  "network/netbios/nbtns: narrow to uint8: byte(_)"
].

Definition expected_wraps_C11 : list string := [

].

Definition expected_wraps_C12 : list string := [
  "crypto/cmac: << uint8: (_ << 1)";
  "crypto/pkcs7: narrow to uint8: byte(_)";
  "crypto/rc4: + uint8: (_ + _)";
  "crypto/rc4: ++ uint8: _++";
  "crypto/rc4: += uint8: _ += (_ + _)";
  "crypto/rc4: += uint8: _ += _";
  "crypto/rc4: narrow to uint8: uint8((int(_) + int(_)))";
  "crypto/rc4: narrow to uint8: uint8(_)";
  "crypto/rc4: narrow to uint8: uint8(_)"
].

Definition expected_wraps_C13 : list string := [
  "windows/guid: << uint64: (_ << 8)";
  "windows/guid: << uint64: (_ << 8)";
  "windows/guid: narrow to uint16: uint16(_)";
  "windows/guid: narrow to uint8: byte((_ >> 16))";
  "windows/guid: narrow to uint8: byte((_ >> 8))";
  "windows/guid: narrow to uint8: byte(_)";
  "windows/guid: narrow to uint8: byte(_)";
  "windows/guid: narrow to uint8: byte(_)";
  "windows/guid: narrow to uint8: byte(_)";
  "windows/ms_dtyp/common/data_structures: * int64: ((_ % 10000000) * 100)";
  "windows/ms_dtyp/common/data_structures: - int64: ((_ / 10000000) - 11644473600)";
  "windows/ms_dtyp/common/data_structures: << int64: ((int64(_) & 4294967295) << 32)"
].

Definition expected_wraps_C14 : list string := [
  "windows/keycredential: += uint32: _ += _";
  "windows/keycredential: narrow to uint16: uint16(len(_))";
  "windows/keycredential: narrow to uint32: uint32(len(_))";
  "windows/keycredential/crypto: << uint32: (_ << 8)";
  "windows/keycredential/crypto: narrow to uint32: uint32(_)";
  "windows/keycredential/crypto: narrow to uint32: uint32(len(_))";
  "windows/keycredential/crypto: narrow to uint32: uint32(len(_))";
  "windows/keycredential/crypto: narrow to uint32: uint32(len(_))";
  "windows/keycredential/crypto: narrow to uint32: uint32(len(_))";
  "windows/keycredential/crypto: narrow to uint32: uint32(len(_))";
  "windows/keycredential/key: - uint32: (_ - 19)";
  "windows/keycredential/key: narrow to uint32: uint32(len(_))";
  "windows/keycredential/key: narrow to uint8: byte(_)"
].

Definition expected_wraps_C15 : list string := [
  "windows/ms_dtyp/common/data_structures: * int64: ((_ % 10000000) * 100)";
  "windows/ms_dtyp/common/data_structures: - int64: ((_ / 10000000) - 11644473600)";
  "windows/ms_dtyp/common/data_structures: << int64: ((int64(_) & 4294967295) << 32)"
].

Definition expected_wraps_C16 : list string := [

].

Definition expected_wraps_C17 : list string := [
  "network/netbios/nbtns: ++ uint16: _++";
  "network/netbios/nbtns: ++ uint16: _++";
  "network/netbios/nbtns: narrow to uint16: uint16(len(_))";
  "network/netbios/nbtns: narrow to uint16: uint16(len(_))";
  "network/netbios/nbtns: narrow to uint16: uint16(len(_))";
  "network/netbios/nbtns: narrow to uint16: uint16(len(_))";
  "network/netbios/nbtns: narrow to uint8: byte(_)"
].

Definition expected_wraps_C18 : list string := [
  "network/llmnr: ++ uint16: _++";
  "network/llmnr: ++ uint16: _++";
  "network/llmnr: ++ uint16: _++";
  "network/llmnr: ++ uint16: _++";
  "network/llmnr: narrow to uint16: uint16(len(_))";
  "network/llmnr: narrow to uint16: uint16(len(_))";
  "network/llmnr: narrow to uint16: uint16(len(_))";
  "network/llmnr: narrow to uint16: uint16(len(_))";
  "network/llmnr: narrow to uint16: uint16(len(_))";
  "network/llmnr: narrow to uint16: uint16(len(_))";
  "network/llmnr: narrow to uint16: uint16(len(_))";
  "network/llmnr: narrow to uint16: uint16(len(_))";
  "network/llmnr: narrow to uint16: uint16(len(_))";
  "network/llmnr: narrow to uint16: uint16(len(_))";
  "network/llmnr: narrow to uint16: uint16(len(_))";
  "network/netbios/nbtns: ++ uint16: _++";
  "network/netbios/nbtns: ++ uint16: _++";
  "network/netbios/nbtns: narrow to uint16: uint16(len(_))";
  "network/netbios/nbtns: narrow to uint16: uint16(len(_))";
  "network/netbios/nbtns: narrow to uint16: uint16(len(_))";
  "network/netbios/nbtns: narrow to uint16: uint16(len(_))";
  "network/netbios/nbtns: narrow to uint8: byte(_)"
].

Definition expected_wraps_C19 : list string := [
  "windows/keycredential/key: - uint32: (_ - 19)";
  "windows/keycredential/key: narrow to uint32: uint32(len(_))";
  "windows/keycredential/key: narrow to uint8: byte(_)"
].

Definition expected_wraps_C20 : list string := [
  "network/ip: - uint8: (32 - _)";
  "network/ip: - uint8: (32 - _)";
  "network/ip: << uint32: (4294967295 << (32 - _))";
  "network/ip: << uint32: (4294967295 << (32 - _))";
  "network/ip: narrow to uint16: uint16(_)";
  "network/ip: narrow to uint16: uint16(_)"
].

