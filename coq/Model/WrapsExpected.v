(* Where fixed-width integer arithmetic can wrap and where integers are narrowed, in every anchored package, as it was
   when the hand-written models (which write each wrap explicitly) were written.  Recorded by
   tools/gen_shapes_expected.py from the pinned tree, reviewed, committed; never written by a check. *)
From Coq Require Import List String.
Import ListNotations.
Open Scope string_scope.

Definition expected_wraps_C01 : list string := [
  "crypto/md4: * uint64: (uint64(_) * 8)";
  "crypto/md4: + uint32: (((_ + ((_ & _) | (_ & (_ | _)))) + _) + 1518500249)";
  "crypto/md4: + uint32: (((_ + ((_ ^ _) ^ _)) + _) + 1859775393)";
  "crypto/md4: + uint32: ((_ + ((_ & _) | (_ & (_ | _)))) + _)";
  "crypto/md4: + uint32: ((_ + ((_ ^ _) ^ _)) + _)";
  "crypto/md4: + uint32: ((_ + (_ ^ (_ & (_ ^ _)))) + _)";
  "crypto/md4: + uint32: (_ + ((_ & _) | (_ & (_ | _))))";
  "crypto/md4: + uint32: (_ + ((_ ^ _) ^ _))";
  "crypto/md4: + uint32: (_ + (_ ^ (_ & (_ ^ _))))";
  "crypto/md4: += uint32: _ += _";
  "crypto/md4: += uint32: _ += _";
  "crypto/md4: += uint32: _ += _";
  "crypto/md4: += uint32: _ += _";
  "crypto/md4: += uint64: _ += (uint64(_) * 8)";
  "crypto/md4: += uint64: _ += 64";
  "crypto/md4: - uint32: (32 - _)";
  "crypto/md4: - uint64: ((_ / 8) - uint64(_))";
  "crypto/md4: - uint64: (56 - _)";
  "crypto/md4: << uint32: (_ << _)"
].

Definition expected_wraps_C02 : list string := [

].

Definition expected_wraps_C03 : list string := [

].

Definition expected_wraps_C04 : list string := [

].

Definition expected_wraps_C05 : list string := [

].

Definition expected_wraps_C06 : list string := [

].

Definition expected_wraps_C07 : list string := [
  "network/llmnr: ++ uint16: _++";
  "network/llmnr: ++ uint16: _++";
  "network/llmnr: ++ uint16: _++";
  "network/llmnr: ++ uint16: _++";
  "network/llmnr: narrow to uint16: uint16(len(_))";
  "network/llmnr: narrow to uint16: uint16(len(_))";
  "network/llmnr: narrow to uint16: uint16(len(_))";
  "network/llmnr: narrow to uint16: uint16(len(_))";
  "network/llmnr: narrow to uint16: uint16(len(_))";
  "network/llmnr: narrow to uint16: uint16(len(_))";
  "network/llmnr: narrow to uint16: uint16(len(_))";
  "network/llmnr: narrow to uint16: uint16(len(_))";
  "network/llmnr: narrow to uint16: uint16(len(_))";
  "network/llmnr: narrow to uint16: uint16(len(_))";
  "network/llmnr: narrow to uint16: uint16(len(_))";
  "network/netbios/nbtns: ++ uint16: _++";
  "network/netbios/nbtns: ++ uint16: _++";
  "network/netbios/nbtns: narrow to uint16: uint16(len(_))";
  "network/netbios/nbtns: narrow to uint16: uint16(len(_))";
  "network/netbios/nbtns: narrow to uint16: uint16(len(_))";
  "network/netbios/nbtns: narrow to uint16: uint16(len(_))";
  "network/netbios/nbtns: narrow to uint8: byte(_)"
].

Definition expected_wraps_C08 : list string := [

].

Definition expected_wraps_C09 : list string := [
  "network/llmnr: ++ uint16: _++";
  "network/llmnr: ++ uint16: _++";
  "network/llmnr: ++ uint16: _++";
  "network/llmnr: ++ uint16: _++";
  "network/llmnr: narrow to uint16: uint16(len(_))";
  "network/llmnr: narrow to uint16: uint16(len(_))";
  "network/llmnr: narrow to uint16: uint16(len(_))";
  "network/llmnr: narrow to uint16: uint16(len(_))";
  "network/llmnr: narrow to uint16: uint16(len(_))";
  "network/llmnr: narrow to uint16: uint16(len(_))";
  "network/llmnr: narrow to uint16: uint16(len(_))";
  "network/llmnr: narrow to uint16: uint16(len(_))";
  "network/llmnr: narrow to uint16: uint16(len(_))";
  "network/llmnr: narrow to uint16: uint16(len(_))";
  "network/llmnr: narrow to uint16: uint16(len(_))"
].

Definition expected_wraps_C10 : list string := [
  "network/netbios/nbtns: ++ uint16: _++";
  "network/netbios/nbtns: ++ uint16: _++";
  "network/netbios/nbtns: narrow to uint16: uint16(len(_))";
  "network/netbios/nbtns: narrow to uint16: uint16(len(_))";
  "network/netbios/nbtns: narrow to uint16: uint16(len(_))";
  "network/netbios/nbtns: narrow to uint16: uint16(len(_))";
  "network/netbios/nbtns: narrow to uint8: byte(_)"
].

Definition expected_wraps_C11 : list string := [

].

Definition expected_wraps_C12 : list string := [

].

Definition expected_wraps_C13 : list string := [

].

Definition expected_wraps_C14 : list string := [

].

Definition expected_wraps_C15 : list string := [

].

Definition expected_wraps_C16 : list string := [

].

Definition expected_wraps_C17 : list string := [
  "network/netbios/nbtns: ++ uint16: _++";
  "network/netbios/nbtns: ++ uint16: _++";
  "network/netbios/nbtns: narrow to uint16: uint16(len(_))";
  "network/netbios/nbtns: narrow to uint16: uint16(len(_))";
  "network/netbios/nbtns: narrow to uint16: uint16(len(_))";
  "network/netbios/nbtns: narrow to uint16: uint16(len(_))";
  "network/netbios/nbtns: narrow to uint8: byte(_)"
].

Definition expected_wraps_C18 : list string := [
  "network/llmnr: ++ uint16: _++";
  "network/llmnr: ++ uint16: _++";
  "network/llmnr: ++ uint16: _++";
  "network/llmnr: ++ uint16: _++";
  "network/llmnr: narrow to uint16: uint16(len(_))";
  "network/llmnr: narrow to uint16: uint16(len(_))";
  "network/llmnr: narrow to uint16: uint16(len(_))";
  "network/llmnr: narrow to uint16: uint16(len(_))";
  "network/llmnr: narrow to uint16: uint16(len(_))";
  "network/llmnr: narrow to uint16: uint16(len(_))";
  "network/llmnr: narrow to uint16: uint16(len(_))";
  "network/llmnr: narrow to uint16: uint16(len(_))";
  "network/llmnr: narrow to uint16: uint16(len(_))";
  "network/llmnr: narrow to uint16: uint16(len(_))";
  "network/llmnr: narrow to uint16: uint16(len(_))";
  "network/netbios/nbtns: ++ uint16: _++";
  "network/netbios/nbtns: ++ uint16: _++";
  "network/netbios/nbtns: narrow to uint16: uint16(len(_))";
  "network/netbios/nbtns: narrow to uint16: uint16(len(_))";
  "network/netbios/nbtns: narrow to uint16: uint16(len(_))";
  "network/netbios/nbtns: narrow to uint16: uint16(len(_))";
  "network/netbios/nbtns: narrow to uint8: byte(_)"
].

Definition expected_wraps_C19 : list string := [

].

Definition expected_wraps_C20 : list string := [

].

