(* Where fixed-width integer arithmetic can wrap and where integers are narrowed, in every anchored package, as it was
   when the hand-written models (which write each wrap explicitly) were written.  Recorded by
   tools/gen_shapes_expected.py from the pinned tree, reviewed, committed; never written by a check. *)
From Coq Require Import List String.
Import ListNotations.
Open Scope string_scope.

Definition expected_wraps_C01 : list string := [
  "crypto/lm: LMHash: << uint8: firstHalf[0] << 7";
  "crypto/lm: LMHash: << uint8: firstHalf[1] << 6";
  "crypto/lm: LMHash: << uint8: firstHalf[2] << 5";
  "crypto/lm: LMHash: << uint8: firstHalf[3] << 4";
  "crypto/lm: LMHash: << uint8: firstHalf[4] << 3";
  "crypto/lm: LMHash: << uint8: firstHalf[5] << 2";
  "crypto/lm: LMHash: << uint8: firstHalf[6] << 1";
  "crypto/lm: LMHash: << uint8: secondHalf[0] << 7";
  "crypto/lm: LMHash: << uint8: secondHalf[1] << 6";
  "crypto/lm: LMHash: << uint8: secondHalf[2] << 5";
  "crypto/lm: LMHash: << uint8: secondHalf[3] << 4";
  "crypto/lm: LMHash: << uint8: secondHalf[4] << 3";
  "crypto/lm: LMHash: << uint8: secondHalf[5] << 2";
  "crypto/lm: LMHash: << uint8: secondHalf[6] << 1";
  "crypto/md4: *MD4.Sum: += uint64: padLen += chunkSize";
  "crypto/md4: *MD4.Sum: - uint64: 56 - index";
  "crypto/md4: *MD4.Write: * uint64: uint64(n) * 8";
  "crypto/md4: *MD4.Write: += uint64: md4.count += uint64(n) * 8";
  "crypto/md4: *MD4.Write: - uint64: md4.count/8 - uint64(n)";
  "crypto/md4: *MD4.processChunk: += uint32: md4.state[0] += a";
  "crypto/md4: *MD4.processChunk: += uint32: md4.state[1] += b";
  "crypto/md4: *MD4.processChunk: += uint32: md4.state[2] += c";
  "crypto/md4: *MD4.processChunk: += uint32: md4.state[3] += d";
  "crypto/md4: ff: + uint32: a + (d ^ (b & (c ^ d)))";
  "crypto/md4: ff: + uint32: a + (d ^ (b & (c ^ d))) + x";
  "crypto/md4: gg: + uint32: a + ((b & c) | (d & (b | c)))";
  "crypto/md4: gg: + uint32: a + ((b & c) | (d & (b | c))) + x";
  "crypto/md4: gg: + uint32: a + ((b & c) | (d & (b | c))) + x + 0x5a827999";
  "crypto/md4: hh: + uint32: a + (b ^ c ^ d)";
  "crypto/md4: hh: + uint32: a + (b ^ c ^ d) + x";
  "crypto/md4: hh: + uint32: a + (b ^ c ^ d) + x + 0x6ed9eba1";
  "crypto/md4: rol: - uint32: 32 - s";
  "crypto/md4: rol: << uint32: x << s";
  "utils/encoding/utf16: DecodeUTF16LE: << uint16: uint16(b[i+1]) << 8"
].

Definition expected_wraps_C02 : list string := [
  "crypto/ntlmv1: ParityAdjust: << uint8: 1 << (7 - offset)";
  "crypto/ntlmv1: ParityAdjust: narrow to uint8: byte(ParityBit(int(parityAdjustedByte)))";
  "network/smb/smb_v10/spnego/ntlm: CreateAuthenticateMessage: narrow to uint16: uint16(len(domainBytes))";
  "network/smb/smb_v10/spnego/ntlm: CreateAuthenticateMessage: narrow to uint16: uint16(len(domainBytes))";
  "network/smb/smb_v10/spnego/ntlm: CreateAuthenticateMessage: narrow to uint16: uint16(len(lmResponse))";
  "network/smb/smb_v10/spnego/ntlm: CreateAuthenticateMessage: narrow to uint16: uint16(len(lmResponse))";
  "network/smb/smb_v10/spnego/ntlm: CreateAuthenticateMessage: narrow to uint16: uint16(len(ntResponse))";
  "network/smb/smb_v10/spnego/ntlm: CreateAuthenticateMessage: narrow to uint16: uint16(len(ntResponse))";
  "network/smb/smb_v10/spnego/ntlm: CreateAuthenticateMessage: narrow to uint16: uint16(len(sessionKey))";
  "network/smb/smb_v10/spnego/ntlm: CreateAuthenticateMessage: narrow to uint16: uint16(len(sessionKey))";
  "network/smb/smb_v10/spnego/ntlm: CreateAuthenticateMessage: narrow to uint16: uint16(len(usernameBytes))";
  "network/smb/smb_v10/spnego/ntlm: CreateAuthenticateMessage: narrow to uint16: uint16(len(usernameBytes))";
  "network/smb/smb_v10/spnego/ntlm: CreateAuthenticateMessage: narrow to uint16: uint16(len(workstationBytes))";
  "network/smb/smb_v10/spnego/ntlm: CreateAuthenticateMessage: narrow to uint16: uint16(len(workstationBytes))";
  "network/smb/smb_v10/spnego/ntlm: CreateAuthenticateMessage: narrow to uint32: uint32(domainOffset)";
  "network/smb/smb_v10/spnego/ntlm: CreateAuthenticateMessage: narrow to uint32: uint32(lmResponseOffset)";
  "network/smb/smb_v10/spnego/ntlm: CreateAuthenticateMessage: narrow to uint32: uint32(ntResponseOffset)";
  "network/smb/smb_v10/spnego/ntlm: CreateAuthenticateMessage: narrow to uint32: uint32(sessionKeyOffset)";
  "network/smb/smb_v10/spnego/ntlm: CreateAuthenticateMessage: narrow to uint32: uint32(usernameOffset)";
  "network/smb/smb_v10/spnego/ntlm: CreateAuthenticateMessage: narrow to uint32: uint32(workstationOffset)";
  "network/smb/smb_v10/spnego/ntlm: CreateNegotiateMessage: narrow to uint16: uint16(len(domainBytes))";
  "network/smb/smb_v10/spnego/ntlm: CreateNegotiateMessage: narrow to uint16: uint16(len(domainBytes))";
  "network/smb/smb_v10/spnego/ntlm: CreateNegotiateMessage: narrow to uint16: uint16(len(workstationBytes))";
  "network/smb/smb_v10/spnego/ntlm: CreateNegotiateMessage: narrow to uint16: uint16(len(workstationBytes))";
  "network/smb/smb_v10/spnego/ntlm: CreateNegotiateMessage: narrow to uint32: uint32(domainOffset)";
  "network/smb/smb_v10/spnego/ntlm: CreateNegotiateMessage: narrow to uint32: uint32(workstationOffset)";
  "network/smb/smb_v10/spnego/ntlm: createDesKey: << uint8: (bytes[0] & 0x01) << 6";
  "network/smb/smb_v10/spnego/ntlm: createDesKey: << uint8: (bytes[1] & 0x03) << 5";
  "network/smb/smb_v10/spnego/ntlm: createDesKey: << uint8: (bytes[2] & 0x07) << 4";
  "network/smb/smb_v10/spnego/ntlm: createDesKey: << uint8: (bytes[3] & 0x0F) << 3";
  "network/smb/smb_v10/spnego/ntlm: createDesKey: << uint8: (bytes[4] & 0x1F) << 2";
  "network/smb/smb_v10/spnego/ntlm: createDesKey: << uint8: (bytes[5] & 0x3F) << 1";
  "network/smb/smb_v10/spnego/ntlm: createDesKey: << uint8: 1 << j";
  "network/smb/smb_v10/spnego/ntlm: createDesKey: << uint8: key[i] << 1"
].

Definition expected_wraps_C03 : list string := [
  "network/smb/smb_v10/message/data: *Data.Add: narrow to uint16: uint16(len(d.Bytes))";
  "network/smb/smb_v10/message/data: *Data.SetData: narrow to uint16: uint16(len(data))";
  "network/smb/smb_v10/message/parameters: *Parameters.AddWord: narrow to uint8: uint8(len(p.Words) * 2)";
  "network/smb/smb_v10/message/parameters: *Parameters.AddWordsFromBytesStream: << uint16: uint16(bytesStream[i]) << 8";
  "network/smb/smb_v10/message/parameters: *Parameters.AddWordsFromBytesStream: narrow to uint8: uint8(len(p.Words))";
  "network/smb/smb_v10/message/parameters: *Parameters.GetBytesStream: narrow to uint8: uint8(word & 0xFF)";
  "network/smb/smb_v10/message/parameters: *Parameters.GetBytesStream: narrow to uint8: uint8(word >> 8)";
  "network/smb/smb_v10/message/parameters: *Parameters.Marshal: narrow to uint8: uint8(len(p.Words))";
  "network/smb/smb_v10/message/parameters: *Parameters.Size: narrow to uint16: uint16(len(p.Words))"
].

Definition expected_wraps_C04 : list string := [

].

Definition expected_wraps_C05 : list string := [
  "network/smb/smb_v10/types: *OEM_STRING.SetString: narrow to uint16: uint16(len(str))";
  "network/smb/smb_v10/types: *SMB_DATE.Marshal: - uint16: d.Year - 1980";
  "network/smb/smb_v10/types: *SMB_DATE.Marshal: << uint16: (d.Year - 1980) << 9";
  "network/smb/smb_v10/types: *SMB_DATE.Marshal: << uint16: uint16(d.Month) << 5";
  "network/smb/smb_v10/types: *SMB_RESUME_KEY.Marshal: narrow to uint16: uint16(len(byteStream))";
  "network/smb/smb_v10/types: NewOEM_STRINGFromString: narrow to uint16: uint16(len(str))";
  "network/smb/smb_v10/types: NewSMB_DATEFromDate: narrow to uint16: uint16(year)";
  "network/smb/smb_v10/types: NewSMB_DATEFromDate: narrow to uint8: uint8(day)";
  "network/smb/smb_v10/types: NewSMB_DATEFromDate: narrow to uint8: uint8(month)"
].

Definition expected_wraps_C06 : list string := [
  "network/smb/smb_v10/message/data: *Data.Add: narrow to uint16: uint16(len(d.Bytes))";
  "network/smb/smb_v10/message/data: *Data.SetData: narrow to uint16: uint16(len(data))";
  "network/smb/smb_v10/message/parameters: *Parameters.AddWord: narrow to uint8: uint8(len(p.Words) * 2)";
  "network/smb/smb_v10/message/parameters: *Parameters.AddWordsFromBytesStream: << uint16: uint16(bytesStream[i]) << 8";
  "network/smb/smb_v10/message/parameters: *Parameters.AddWordsFromBytesStream: narrow to uint8: uint8(len(p.Words))";
  "network/smb/smb_v10/message/parameters: *Parameters.GetBytesStream: narrow to uint8: uint8(word & 0xFF)";
  "network/smb/smb_v10/message/parameters: *Parameters.GetBytesStream: narrow to uint8: uint8(word >> 8)";
  "network/smb/smb_v10/message/parameters: *Parameters.Marshal: narrow to uint8: uint8(len(p.Words))";
  "network/smb/smb_v10/message/parameters: *Parameters.Size: narrow to uint16: uint16(len(p.Words))";
  "network/smb/smb_v10/types: *OEM_STRING.SetString: narrow to uint16: uint16(len(str))";
  "network/smb/smb_v10/types: *SMB_DATE.Marshal: - uint16: d.Year - 1980";
  "network/smb/smb_v10/types: *SMB_DATE.Marshal: << uint16: (d.Year - 1980) << 9";
  "network/smb/smb_v10/types: *SMB_DATE.Marshal: << uint16: uint16(d.Month) << 5";
  "network/smb/smb_v10/types: *SMB_RESUME_KEY.Marshal: narrow to uint16: uint16(len(byteStream))";
  "network/smb/smb_v10/types: NewOEM_STRINGFromString: narrow to uint16: uint16(len(str))";
  "network/smb/smb_v10/types: NewSMB_DATEFromDate: narrow to uint16: uint16(year)";
  "network/smb/smb_v10/types: NewSMB_DATEFromDate: narrow to uint8: uint8(day)";
  "network/smb/smb_v10/types: NewSMB_DATEFromDate: narrow to uint8: uint8(month)";
  "windows/ms_dtyp/common/data_structures: *FILETIME.GetTime: * int64: (ticks % 10000000) * 100";
  "windows/ms_dtyp/common/data_structures: *FILETIME.GetTime: - int64: ticks/10000000 - UnixTimestampIn100NsIntervals/10000000";
  "windows/ms_dtyp/common/data_structures: *FILETIME.ToInt64: << int64: int64(ft.DwHighDateTime) & 0xFFFFFFFF << 32"
].

Definition expected_wraps_C07 : list string := [
  "crypto/pkcs7: Pad: narrow to uint8: byte(padLen)";
  "crypto/uuid: *UUID.Marshal: << uint8: (u.Variant & 0xF) << 4";
  "crypto/uuid: *UUID.Marshal: << uint8: (u.Version & 0xF) << 4";
  "crypto/uuid: *UUID.Marshal: << uint8: data6low & 0xF << 4";
  "crypto/uuid: *UUID.Unmarshal: << uint8: (marshalledData[6] & 0x0F) << 4";
  "crypto/uuid: *UUID.Unmarshal: << uint8: (marshalledData[7] & 0x0F) << 4";
  "crypto/uuid/uuid_v1: *UUIDv1.GetTime: * int64: int64(timestamp%10000000) * 100";
  "crypto/uuid/uuid_v1: *UUIDv1.GetTime: - int64: int64(timestamp/10000000) - int64(UUIDv1Epoch/10000000)";
  "crypto/uuid/uuid_v1: *UUIDv1.Marshal: << uint8: byte(timeHigh&0x0F) << 4";
  "crypto/uuid/uuid_v1: *UUIDv1.Marshal: narrow to uint16: uint16((u.Time & 0x0000FFFF00000000) >> 32)";
  "crypto/uuid/uuid_v1: *UUIDv1.Marshal: narrow to uint16: uint16((u.Time & 0x0FFF000000000000) >> 48)";
  "crypto/uuid/uuid_v1: *UUIDv1.Marshal: narrow to uint32: uint32(u.Time & 0x00000000FFFFFFFF)";
  "crypto/uuid/uuid_v1: *UUIDv1.Marshal: narrow to uint8: byte((timeHigh >> 4) & 0xFF)";
  "crypto/uuid/uuid_v1: *UUIDv1.Marshal: narrow to uint8: byte((u.ClockSeq & 0x0F00) >> 8)";
  "crypto/uuid/uuid_v1: *UUIDv1.Marshal: narrow to uint8: byte(timeHigh & 0x0F)";
  "crypto/uuid/uuid_v1: *UUIDv1.Marshal: narrow to uint8: byte(u.ClockSeq & 0xFF)";
  "crypto/uuid/uuid_v2: *UUIDv2.GetTime: * int64: int64(timestamp%10000000) * 100";
  "crypto/uuid/uuid_v2: *UUIDv2.GetTime: - int64: int64(timestamp/10000000) - int64(UUIDv2Epoch/10000000)";
  "crypto/uuid/uuid_v2: *UUIDv2.Marshal: << uint8: byte(timeHigh&0x0F) << 4";
  "crypto/uuid/uuid_v2: *UUIDv2.Marshal: narrow to uint16: uint16((u.Time & 0x0000FFFF00000000) >> 32)";
  "crypto/uuid/uuid_v2: *UUIDv2.Marshal: narrow to uint16: uint16((u.Time & 0x0FFF000000000000) >> 48)";
  "crypto/uuid/uuid_v2: *UUIDv2.Marshal: narrow to uint8: byte((timeHigh >> 4) & 0xFF)";
  "crypto/uuid/uuid_v2: *UUIDv2.Marshal: narrow to uint8: byte(timeHigh & 0x0F)";
  "network/ip: *IPv4.ComputeMask: - uint8: 32 - i.MaskBits";
  "network/ip: *IPv4.ComputeMask: << uint32: uint32(0xFFFFFFFF) << (32 - i.MaskBits)";
  "network/ip: *IPv4.ComputeMask: narrow to uint8: uint8((masked >> 16) & 0xFF)";
  "network/ip: *IPv4.ComputeMask: narrow to uint8: uint8((masked >> 24) & 0xFF)";
  "network/ip: *IPv4.ComputeMask: narrow to uint8: uint8((masked >> 8) & 0xFF)";
  "network/ip: *IPv4.ComputeMask: narrow to uint8: uint8(masked & 0xFF)";
  "network/ip: *IPv4.IsInSubnet: - uint8: 32 - subnet.MaskBits";
  "network/ip: *IPv4.IsInSubnet: << uint32: uint32(0xFFFFFFFF) << (32 - subnet.MaskBits)";
  "network/ip: *IPv4.ToUInt32: << uint32: uint32(i.A) << 24";
  "network/ip: *IPv4.ToUInt32: << uint32: uint32(i.B) << 16";
  "network/ip: *IPv4.ToUInt32: << uint32: uint32(i.C) << 8";
  "network/ip: *IPv6.ToUInt128: << uint64: uint64(i.A) << 48";
  "network/ip: *IPv6.ToUInt128: << uint64: uint64(i.B) << 32";
  "network/ip: *IPv6.ToUInt128: << uint64: uint64(i.C) << 16";
  "network/ip: *IPv6.ToUInt128: << uint64: uint64(i.E) << 48";
  "network/ip: *IPv6.ToUInt128: << uint64: uint64(i.F) << 32";
  "network/ip: *IPv6.ToUInt128: << uint64: uint64(i.G) << 16";
  "network/ip: NewTCPPortRangeFromString: narrow to uint16: uint16(end)";
  "network/ip: NewTCPPortRangeFromString: narrow to uint16: uint16(start)";
  "network/ldap: ParseSIDFromBytes: << uint64: uint64(sidBytes[2+0]) << 40";
  "network/ldap: ParseSIDFromBytes: << uint64: uint64(sidBytes[2+1]) << 32";
  "network/ldap: ParseSIDFromBytes: << uint64: uint64(sidBytes[2+2]) << 24";
  "network/ldap: ParseSIDFromBytes: << uint64: uint64(sidBytes[2+3]) << 16";
  "network/ldap: ParseSIDFromBytes: << uint64: uint64(sidBytes[2+4]) << 8";
  "network/llmnr: *Message.AddAnswer: narrow to uint16: uint16(len(m.Answers))";
  "network/llmnr: *Message.AddAnswerClassINTypeA: narrow to uint16: uint16(len(m.Questions))";
  "network/llmnr: *Message.AddAnswerClassINTypeA: narrow to uint16: uint16(len(rr.RData))";
  "network/llmnr: *Message.AddAnswerClassINTypeAAAA: narrow to uint16: uint16(len(m.Questions))";
  "network/llmnr: *Message.AddAnswerClassINTypeAAAA: narrow to uint16: uint16(len(rr.RData))";
  "network/llmnr: *Message.AddQuestion: narrow to uint16: uint16(len(m.Questions))";
  "network/llmnr: *Message.Encode: narrow to uint16: uint16(len(m.Additional))";
  "network/llmnr: *Message.Encode: narrow to uint16: uint16(len(m.Answers))";
  "network/llmnr: *Message.Encode: narrow to uint16: uint16(len(m.Authority))";
  "network/llmnr: *Message.Encode: narrow to uint16: uint16(len(m.Questions))";
  "network/llmnr: DecodeMessage: ++ uint16: i++";
  "network/llmnr: DecodeMessage: ++ uint16: i++";
  "network/llmnr: DecodeMessage: ++ uint16: i++";
  "network/llmnr: DecodeMessage: ++ uint16: i++";
  "network/llmnr: EncodeResourceRecord: narrow to uint16: uint16(len(rr.RData))";
  "network/netbios/nbt: *NBTTransport.Send: narrow to uint8: byte((length >> 16) & 0x01)";
  "network/netbios/nbt: *NBTTransport.Send: narrow to uint8: byte((length >> 8) & 0xFF)";
  "network/netbios/nbt: *NBTTransport.Send: narrow to uint8: byte(length & 0xFF)";
  "network/netbios/nbtns: *NBTNSPacket.Unmarshal: ++ uint16: i++";
  "network/netbios/nbtns: *NBTNSPacket.Unmarshal: ++ uint16: i++";
  "network/netbios/nbtns: *NameChallenger.DefendName: narrow to uint16: uint16(len(response.Answers))";
  "network/netbios/nbtns: *NetBIOSName.FirstLevelEncode: + uint8: ((name[i] >> 4) & 0x0F) + ASCII_A";
  "network/netbios/nbtns: *NetBIOSName.FirstLevelEncode: + uint8: (name[i] & 0x0F) + ASCII_A";
  "network/netbios/nbtns: *PacketHandler.handleNameQuery: narrow to uint16: uint16(len(response.Answers))";
  "network/netbios/nbtns: *RedirectManager.HandleRedirect: narrow to uint8: byte(info.ServerPort >> 8)";
  "network/netbios/nbtns: *RedirectManager.HandleRedirect: narrow to uint8: byte(info.ServerPort)";
  "network/netbios/nbtns: *Server.handleNameQuery: narrow to uint16: uint16(len(response.Answers))";
  "network/netbios/nbtns: *TCPServer.handleConnection: narrow to uint16: uint16(len(response))";
  "network/smb/smb_v10/message/data: *Data.Add: narrow to uint16: uint16(len(d.Bytes))";
  "network/smb/smb_v10/message/data: *Data.SetData: narrow to uint16: uint16(len(data))";
  "network/smb/smb_v10/spnego: CreateNegTokenInit: narrow to uint8: byte(0x80 | len(lenBytes))";
  "network/smb/smb_v10/spnego: CreateNegTokenResp: narrow to uint8: byte(0x80 | len(lenBytes))";
  "network/smb/smb_v10/spnego: encodeLength: narrow to uint8: byte(length & 0xFF)";
  "network/smb/smb_v10/spnego: encodeLength: narrow to uint8: byte(length)";
  "network/smb/smb_v10/spnego/ntlm: CreateAuthenticateMessage: narrow to uint16: uint16(len(domainBytes))";
  "network/smb/smb_v10/spnego/ntlm: CreateAuthenticateMessage: narrow to uint16: uint16(len(domainBytes))";
  "network/smb/smb_v10/spnego/ntlm: CreateAuthenticateMessage: narrow to uint16: uint16(len(lmResponse))";
  "network/smb/smb_v10/spnego/ntlm: CreateAuthenticateMessage: narrow to uint16: uint16(len(lmResponse))";
  "network/smb/smb_v10/spnego/ntlm: CreateAuthenticateMessage: narrow to uint16: uint16(len(ntResponse))";
  "network/smb/smb_v10/spnego/ntlm: CreateAuthenticateMessage: narrow to uint16: uint16(len(ntResponse))";
  "network/smb/smb_v10/spnego/ntlm: CreateAuthenticateMessage: narrow to uint16: uint16(len(sessionKey))";
  "network/smb/smb_v10/spnego/ntlm: CreateAuthenticateMessage: narrow to uint16: uint16(len(sessionKey))";
  "network/smb/smb_v10/spnego/ntlm: CreateAuthenticateMessage: narrow to uint16: uint16(len(usernameBytes))";
  "network/smb/smb_v10/spnego/ntlm: CreateAuthenticateMessage: narrow to uint16: uint16(len(usernameBytes))";
  "network/smb/smb_v10/spnego/ntlm: CreateAuthenticateMessage: narrow to uint16: uint16(len(workstationBytes))";
  "network/smb/smb_v10/spnego/ntlm: CreateAuthenticateMessage: narrow to uint16: uint16(len(workstationBytes))";
  "network/smb/smb_v10/spnego/ntlm: CreateAuthenticateMessage: narrow to uint32: uint32(domainOffset)";
  "network/smb/smb_v10/spnego/ntlm: CreateAuthenticateMessage: narrow to uint32: uint32(lmResponseOffset)";
  "network/smb/smb_v10/spnego/ntlm: CreateAuthenticateMessage: narrow to uint32: uint32(ntResponseOffset)";
  "network/smb/smb_v10/spnego/ntlm: CreateAuthenticateMessage: narrow to uint32: uint32(sessionKeyOffset)";
  "network/smb/smb_v10/spnego/ntlm: CreateAuthenticateMessage: narrow to uint32: uint32(usernameOffset)";
  "network/smb/smb_v10/spnego/ntlm: CreateAuthenticateMessage: narrow to uint32: uint32(workstationOffset)";
  "network/smb/smb_v10/spnego/ntlm: CreateNegotiateMessage: narrow to uint16: uint16(len(domainBytes))";
  "network/smb/smb_v10/spnego/ntlm: CreateNegotiateMessage: narrow to uint16: uint16(len(domainBytes))";
  "network/smb/smb_v10/spnego/ntlm: CreateNegotiateMessage: narrow to uint16: uint16(len(workstationBytes))";
  "network/smb/smb_v10/spnego/ntlm: CreateNegotiateMessage: narrow to uint16: uint16(len(workstationBytes))";
  "network/smb/smb_v10/spnego/ntlm: CreateNegotiateMessage: narrow to uint32: uint32(domainOffset)";
  "network/smb/smb_v10/spnego/ntlm: CreateNegotiateMessage: narrow to uint32: uint32(workstationOffset)";
  "network/smb/smb_v10/spnego/ntlm: createDesKey: << uint8: (bytes[0] & 0x01) << 6";
  "network/smb/smb_v10/spnego/ntlm: createDesKey: << uint8: (bytes[1] & 0x03) << 5";
  "network/smb/smb_v10/spnego/ntlm: createDesKey: << uint8: (bytes[2] & 0x07) << 4";
  "network/smb/smb_v10/spnego/ntlm: createDesKey: << uint8: (bytes[3] & 0x0F) << 3";
  "network/smb/smb_v10/spnego/ntlm: createDesKey: << uint8: (bytes[4] & 0x1F) << 2";
  "network/smb/smb_v10/spnego/ntlm: createDesKey: << uint8: (bytes[5] & 0x3F) << 1";
  "network/smb/smb_v10/spnego/ntlm: createDesKey: << uint8: 1 << j";
  "network/smb/smb_v10/spnego/ntlm: createDesKey: << uint8: key[i] << 1";
  "network/smb/smb_v10/types: *OEM_STRING.SetString: narrow to uint16: uint16(len(str))";
  "network/smb/smb_v10/types: *SMB_DATE.Marshal: - uint16: d.Year - 1980";
  "network/smb/smb_v10/types: *SMB_DATE.Marshal: << uint16: (d.Year - 1980) << 9";
  "network/smb/smb_v10/types: *SMB_DATE.Marshal: << uint16: uint16(d.Month) << 5";
  "network/smb/smb_v10/types: *SMB_RESUME_KEY.Marshal: narrow to uint16: uint16(len(byteStream))";
  "network/smb/smb_v10/types: NewOEM_STRINGFromString: narrow to uint16: uint16(len(str))";
  "network/smb/smb_v10/types: NewSMB_DATEFromDate: narrow to uint16: uint16(year)";
  "network/smb/smb_v10/types: NewSMB_DATEFromDate: narrow to uint8: uint8(day)";
  "network/smb/smb_v10/types: NewSMB_DATEFromDate: narrow to uint8: uint8(month)";
  "utils/encoding/utf16: DecodeUTF16LE: << uint16: uint16(b[i+1]) << 8";
  "windows/guid: *GUID.FromRawBytes: << uint16: uint16(data[5]) << 8";
  "windows/guid: *GUID.FromRawBytes: << uint16: uint16(data[7]) << 8";
  "windows/guid: *GUID.FromRawBytes: << uint16: uint16(data[8]) << 8";
  "windows/guid: *GUID.FromRawBytes: << uint32: uint32(data[1]) << 8";
  "windows/guid: *GUID.FromRawBytes: << uint32: uint32(data[2]) << 16";
  "windows/guid: *GUID.FromRawBytes: << uint32: uint32(data[3]) << 24";
  "windows/guid: *GUID.FromRawBytes: << uint64: uint64(data[10]) << 40";
  "windows/guid: *GUID.FromRawBytes: << uint64: uint64(data[11]) << 32";
  "windows/guid: *GUID.FromRawBytes: << uint64: uint64(data[12]) << 24";
  "windows/guid: *GUID.FromRawBytes: << uint64: uint64(data[13]) << 16";
  "windows/guid: *GUID.FromRawBytes: << uint64: uint64(data[14]) << 8";
  "windows/guid: *GUID.ToBytes: narrow to uint8: byte((guid.E >> uint64(i*8)) & 0xff)";
  "windows/guid: *GUID.ToBytes: narrow to uint8: byte(guid.A >> 16)";
  "windows/guid: *GUID.ToBytes: narrow to uint8: byte(guid.A >> 24)";
  "windows/guid: *GUID.ToBytes: narrow to uint8: byte(guid.A >> 8)";
  "windows/guid: *GUID.ToBytes: narrow to uint8: byte(guid.A)";
  "windows/guid: *GUID.ToBytes: narrow to uint8: byte(guid.B >> 8)";
  "windows/guid: *GUID.ToBytes: narrow to uint8: byte(guid.B)";
  "windows/guid: *GUID.ToBytes: narrow to uint8: byte(guid.C >> 8)";
  "windows/guid: *GUID.ToBytes: narrow to uint8: byte(guid.C)";
  "windows/guid: *GUID.ToBytes: narrow to uint8: byte(guid.D >> 8)";
  "windows/guid: *GUID.ToBytes: narrow to uint8: byte(guid.D)";
  "windows/guid: FromFormatX: << uint64: d << 8";
  "windows/guid: FromFormatX: << uint64: e << 8";
  "windows/guid: FromFormatX: narrow to uint16: uint16(d)";
  "windows/keycredential: *DNWithBinary.Parse: narrow to uint32: uint32(len(rawBytes))";
  "windows/keycredential: *KeyCredential.FromBytes: += uint32: kc.RawBytesSize += kc.Version.RawBytesSize";
  "windows/keycredential: writeEntry: narrow to uint16: uint16(len(data))";
  "windows/keycredential/crypto: *RSAKeyMaterial.FromBytes: << uint32: rk.Exponent << 8";
  "windows/keycredential/crypto: *RSAKeyMaterial.FromBytes: narrow to uint32: uint32(len(value))";
  "windows/keycredential/crypto: *RSAKeyMaterial.ToBytes: narrow to uint32: uint32(len(b_exponent))";
  "windows/keycredential/crypto: *RSAKeyMaterial.ToBytes: narrow to uint32: uint32(len(b_prime1))";
  "windows/keycredential/crypto: *RSAKeyMaterial.ToBytes: narrow to uint32: uint32(len(b_prime2))";
  "windows/keycredential/crypto: *RSAKeyMaterial.ToBytes: narrow to uint32: uint32(len(rk.Modulus))";
  "windows/keycredential/crypto: *SecretEncryptionType.ToBytes: narrow to uint32: uint32(set.Value)";
  "windows/keycredential/key: *CustomKeyInformation.FromBytes: - uint32: cki.RawBytesSize - 19";
  "windows/keycredential/key: *CustomKeyInformation.FromBytes: narrow to uint32: uint32(len(blob))";
  "windows/keycredential/key: *CustomKeyInformation.ToBytes: narrow to uint8: byte(cki.Version)";
  "windows/keycredential/utils: NewDateTime: * int64: int64(ticks%10000000) * 100"
].

Definition expected_wraps_C08 : list string := [
  "network/smb/smb_v10/spnego: CreateNegTokenInit: narrow to uint8: byte(0x80 | len(lenBytes))";
  "network/smb/smb_v10/spnego: CreateNegTokenResp: narrow to uint8: byte(0x80 | len(lenBytes))";
  "network/smb/smb_v10/spnego: encodeLength: narrow to uint8: byte(length & 0xFF)";
  "network/smb/smb_v10/spnego: encodeLength: narrow to uint8: byte(length)";
  "network/smb/smb_v10/spnego/ntlm: CreateAuthenticateMessage: narrow to uint16: uint16(len(domainBytes))";
  "network/smb/smb_v10/spnego/ntlm: CreateAuthenticateMessage: narrow to uint16: uint16(len(domainBytes))";
  "network/smb/smb_v10/spnego/ntlm: CreateAuthenticateMessage: narrow to uint16: uint16(len(lmResponse))";
  "network/smb/smb_v10/spnego/ntlm: CreateAuthenticateMessage: narrow to uint16: uint16(len(lmResponse))";
  "network/smb/smb_v10/spnego/ntlm: CreateAuthenticateMessage: narrow to uint16: uint16(len(ntResponse))";
  "network/smb/smb_v10/spnego/ntlm: CreateAuthenticateMessage: narrow to uint16: uint16(len(ntResponse))";
  "network/smb/smb_v10/spnego/ntlm: CreateAuthenticateMessage: narrow to uint16: uint16(len(sessionKey))";
  "network/smb/smb_v10/spnego/ntlm: CreateAuthenticateMessage: narrow to uint16: uint16(len(sessionKey))";
  "network/smb/smb_v10/spnego/ntlm: CreateAuthenticateMessage: narrow to uint16: uint16(len(usernameBytes))";
  "network/smb/smb_v10/spnego/ntlm: CreateAuthenticateMessage: narrow to uint16: uint16(len(usernameBytes))";
  "network/smb/smb_v10/spnego/ntlm: CreateAuthenticateMessage: narrow to uint16: uint16(len(workstationBytes))";
  "network/smb/smb_v10/spnego/ntlm: CreateAuthenticateMessage: narrow to uint16: uint16(len(workstationBytes))";
  "network/smb/smb_v10/spnego/ntlm: CreateAuthenticateMessage: narrow to uint32: uint32(domainOffset)";
  "network/smb/smb_v10/spnego/ntlm: CreateAuthenticateMessage: narrow to uint32: uint32(lmResponseOffset)";
  "network/smb/smb_v10/spnego/ntlm: CreateAuthenticateMessage: narrow to uint32: uint32(ntResponseOffset)";
  "network/smb/smb_v10/spnego/ntlm: CreateAuthenticateMessage: narrow to uint32: uint32(sessionKeyOffset)";
  "network/smb/smb_v10/spnego/ntlm: CreateAuthenticateMessage: narrow to uint32: uint32(usernameOffset)";
  "network/smb/smb_v10/spnego/ntlm: CreateAuthenticateMessage: narrow to uint32: uint32(workstationOffset)";
  "network/smb/smb_v10/spnego/ntlm: CreateNegotiateMessage: narrow to uint16: uint16(len(domainBytes))";
  "network/smb/smb_v10/spnego/ntlm: CreateNegotiateMessage: narrow to uint16: uint16(len(domainBytes))";
  "network/smb/smb_v10/spnego/ntlm: CreateNegotiateMessage: narrow to uint16: uint16(len(workstationBytes))";
  "network/smb/smb_v10/spnego/ntlm: CreateNegotiateMessage: narrow to uint16: uint16(len(workstationBytes))";
  "network/smb/smb_v10/spnego/ntlm: CreateNegotiateMessage: narrow to uint32: uint32(domainOffset)";
  "network/smb/smb_v10/spnego/ntlm: CreateNegotiateMessage: narrow to uint32: uint32(workstationOffset)";
  "network/smb/smb_v10/spnego/ntlm: createDesKey: << uint8: (bytes[0] & 0x01) << 6";
  "network/smb/smb_v10/spnego/ntlm: createDesKey: << uint8: (bytes[1] & 0x03) << 5";
  "network/smb/smb_v10/spnego/ntlm: createDesKey: << uint8: (bytes[2] & 0x07) << 4";
  "network/smb/smb_v10/spnego/ntlm: createDesKey: << uint8: (bytes[3] & 0x0F) << 3";
  "network/smb/smb_v10/spnego/ntlm: createDesKey: << uint8: (bytes[4] & 0x1F) << 2";
  "network/smb/smb_v10/spnego/ntlm: createDesKey: << uint8: (bytes[5] & 0x3F) << 1";
  "network/smb/smb_v10/spnego/ntlm: createDesKey: << uint8: 1 << j";
  "network/smb/smb_v10/spnego/ntlm: createDesKey: << uint8: key[i] << 1"
].

Definition expected_wraps_C09 : list string := [
  "network/llmnr: *Message.AddAnswer: narrow to uint16: uint16(len(m.Answers))";
  "network/llmnr: *Message.AddAnswerClassINTypeA: narrow to uint16: uint16(len(m.Questions))";
  "network/llmnr: *Message.AddAnswerClassINTypeA: narrow to uint16: uint16(len(rr.RData))";
  "network/llmnr: *Message.AddAnswerClassINTypeAAAA: narrow to uint16: uint16(len(m.Questions))";
  "network/llmnr: *Message.AddAnswerClassINTypeAAAA: narrow to uint16: uint16(len(rr.RData))";
  "network/llmnr: *Message.AddQuestion: narrow to uint16: uint16(len(m.Questions))";
  "network/llmnr: *Message.Encode: narrow to uint16: uint16(len(m.Additional))";
  "network/llmnr: *Message.Encode: narrow to uint16: uint16(len(m.Answers))";
  "network/llmnr: *Message.Encode: narrow to uint16: uint16(len(m.Authority))";
  "network/llmnr: *Message.Encode: narrow to uint16: uint16(len(m.Questions))";
  "network/llmnr: DecodeMessage: ++ uint16: i++";
  "network/llmnr: DecodeMessage: ++ uint16: i++";
  "network/llmnr: DecodeMessage: ++ uint16: i++";
  "network/llmnr: DecodeMessage: ++ uint16: i++";
  "network/llmnr: EncodeResourceRecord: narrow to uint16: uint16(len(rr.RData))"
].

Definition expected_wraps_C10 : list string := [
  "network/netbios/nbtns: *NBTNSPacket.Unmarshal: ++ uint16: i++";
  "network/netbios/nbtns: *NBTNSPacket.Unmarshal: ++ uint16: i++";
  "network/netbios/nbtns: *NameChallenger.DefendName: narrow to uint16: uint16(len(response.Answers))";
  "network/netbios/nbtns: *NetBIOSName.FirstLevelEncode: + uint8: ((name[i] >> 4) & 0x0F) + ASCII_A";
  "network/netbios/nbtns: *NetBIOSName.FirstLevelEncode: + uint8: (name[i] & 0x0F) + ASCII_A";
  "network/netbios/nbtns: *PacketHandler.handleNameQuery: narrow to uint16: uint16(len(response.Answers))";
  "network/netbios/nbtns: *RedirectManager.HandleRedirect: narrow to uint8: byte(info.ServerPort >> 8)";
  "network/netbios/nbtns: *RedirectManager.HandleRedirect: narrow to uint8: byte(info.ServerPort)";
  "network/netbios/nbtns: *Server.handleNameQuery: narrow to uint16: uint16(len(response.Answers))";
  "network/netbios/nbtns: *TCPServer.handleConnection: narrow to uint16: uint16(len(response))"
].

Definition expected_wraps_C11 : list string := [
  "network/netbios/nbt: *NBTTransport.Send: narrow to uint8: byte((length >> 16) & 0x01)";
  "network/netbios/nbt: *NBTTransport.Send: narrow to uint8: byte((length >> 8) & 0xFF)";
  "network/netbios/nbt: *NBTTransport.Send: narrow to uint8: byte(length & 0xFF)"
].

Definition expected_wraps_C12 : list string := [
  "crypto/cmac: shift1: << uint8: src[i] << 1";
  "crypto/pkcs7: Pad: narrow to uint8: byte(padLen)";
  "crypto/rc4: *RC4.Reset: narrow to uint8: uint8(i)";
  "crypto/rc4: *RC4.XORKeyStream: ++ uint8: i++";
  "crypto/rc4: *RC4.XORKeyStream: += uint8: j += c.s[i]";
  "crypto/rc4: *RC4.XORKeyStream: narrow to uint8: uint8(int(c.s[i]) + int(c.s[j]))";
  "crypto/rc4: NewRC4WithKey: + uint8: c.s[i] + key[i%k]";
  "crypto/rc4: NewRC4WithKey: += uint8: j += c.s[i] + key[i%k]";
  "crypto/rc4: NewRC4WithKey: narrow to uint8: uint8(i)"
].

Definition expected_wraps_C13 : list string := [
  "crypto/uuid: *UUID.Marshal: << uint8: (u.Variant & 0xF) << 4";
  "crypto/uuid: *UUID.Marshal: << uint8: (u.Version & 0xF) << 4";
  "crypto/uuid: *UUID.Marshal: << uint8: data6low & 0xF << 4";
  "crypto/uuid: *UUID.Unmarshal: << uint8: (marshalledData[6] & 0x0F) << 4";
  "crypto/uuid: *UUID.Unmarshal: << uint8: (marshalledData[7] & 0x0F) << 4";
  "crypto/uuid/uuid_v1: *UUIDv1.GetTime: * int64: int64(timestamp%10000000) * 100";
  "crypto/uuid/uuid_v1: *UUIDv1.GetTime: - int64: int64(timestamp/10000000) - int64(UUIDv1Epoch/10000000)";
  "crypto/uuid/uuid_v1: *UUIDv1.Marshal: << uint8: byte(timeHigh&0x0F) << 4";
  "crypto/uuid/uuid_v1: *UUIDv1.Marshal: narrow to uint16: uint16((u.Time & 0x0000FFFF00000000) >> 32)";
  "crypto/uuid/uuid_v1: *UUIDv1.Marshal: narrow to uint16: uint16((u.Time & 0x0FFF000000000000) >> 48)";
  "crypto/uuid/uuid_v1: *UUIDv1.Marshal: narrow to uint32: uint32(u.Time & 0x00000000FFFFFFFF)";
  "crypto/uuid/uuid_v1: *UUIDv1.Marshal: narrow to uint8: byte((timeHigh >> 4) & 0xFF)";
  "crypto/uuid/uuid_v1: *UUIDv1.Marshal: narrow to uint8: byte((u.ClockSeq & 0x0F00) >> 8)";
  "crypto/uuid/uuid_v1: *UUIDv1.Marshal: narrow to uint8: byte(timeHigh & 0x0F)";
  "crypto/uuid/uuid_v1: *UUIDv1.Marshal: narrow to uint8: byte(u.ClockSeq & 0xFF)";
  "crypto/uuid/uuid_v2: *UUIDv2.GetTime: * int64: int64(timestamp%10000000) * 100";
  "crypto/uuid/uuid_v2: *UUIDv2.GetTime: - int64: int64(timestamp/10000000) - int64(UUIDv2Epoch/10000000)";
  "crypto/uuid/uuid_v2: *UUIDv2.Marshal: << uint8: byte(timeHigh&0x0F) << 4";
  "crypto/uuid/uuid_v2: *UUIDv2.Marshal: narrow to uint16: uint16((u.Time & 0x0000FFFF00000000) >> 32)";
  "crypto/uuid/uuid_v2: *UUIDv2.Marshal: narrow to uint16: uint16((u.Time & 0x0FFF000000000000) >> 48)";
  "crypto/uuid/uuid_v2: *UUIDv2.Marshal: narrow to uint8: byte((timeHigh >> 4) & 0xFF)";
  "crypto/uuid/uuid_v2: *UUIDv2.Marshal: narrow to uint8: byte(timeHigh & 0x0F)";
  "windows/guid: *GUID.FromRawBytes: << uint16: uint16(data[5]) << 8";
  "windows/guid: *GUID.FromRawBytes: << uint16: uint16(data[7]) << 8";
  "windows/guid: *GUID.FromRawBytes: << uint16: uint16(data[8]) << 8";
  "windows/guid: *GUID.FromRawBytes: << uint32: uint32(data[1]) << 8";
  "windows/guid: *GUID.FromRawBytes: << uint32: uint32(data[2]) << 16";
  "windows/guid: *GUID.FromRawBytes: << uint32: uint32(data[3]) << 24";
  "windows/guid: *GUID.FromRawBytes: << uint64: uint64(data[10]) << 40";
  "windows/guid: *GUID.FromRawBytes: << uint64: uint64(data[11]) << 32";
  "windows/guid: *GUID.FromRawBytes: << uint64: uint64(data[12]) << 24";
  "windows/guid: *GUID.FromRawBytes: << uint64: uint64(data[13]) << 16";
  "windows/guid: *GUID.FromRawBytes: << uint64: uint64(data[14]) << 8";
  "windows/guid: *GUID.ToBytes: narrow to uint8: byte((guid.E >> uint64(i*8)) & 0xff)";
  "windows/guid: *GUID.ToBytes: narrow to uint8: byte(guid.A >> 16)";
  "windows/guid: *GUID.ToBytes: narrow to uint8: byte(guid.A >> 24)";
  "windows/guid: *GUID.ToBytes: narrow to uint8: byte(guid.A >> 8)";
  "windows/guid: *GUID.ToBytes: narrow to uint8: byte(guid.A)";
  "windows/guid: *GUID.ToBytes: narrow to uint8: byte(guid.B >> 8)";
  "windows/guid: *GUID.ToBytes: narrow to uint8: byte(guid.B)";
  "windows/guid: *GUID.ToBytes: narrow to uint8: byte(guid.C >> 8)";
  "windows/guid: *GUID.ToBytes: narrow to uint8: byte(guid.C)";
  "windows/guid: *GUID.ToBytes: narrow to uint8: byte(guid.D >> 8)";
  "windows/guid: *GUID.ToBytes: narrow to uint8: byte(guid.D)";
  "windows/guid: FromFormatX: << uint64: d << 8";
  "windows/guid: FromFormatX: << uint64: e << 8";
  "windows/guid: FromFormatX: narrow to uint16: uint16(d)";
  "windows/ms_dtyp/common/data_structures: *FILETIME.GetTime: * int64: (ticks % 10000000) * 100";
  "windows/ms_dtyp/common/data_structures: *FILETIME.GetTime: - int64: ticks/10000000 - UnixTimestampIn100NsIntervals/10000000";
  "windows/ms_dtyp/common/data_structures: *FILETIME.ToInt64: << int64: int64(ft.DwHighDateTime) & 0xFFFFFFFF << 32"
].

Definition expected_wraps_C14 : list string := [
  "windows/keycredential: *DNWithBinary.Parse: narrow to uint32: uint32(len(rawBytes))";
  "windows/keycredential: *KeyCredential.FromBytes: += uint32: kc.RawBytesSize += kc.Version.RawBytesSize";
  "windows/keycredential: writeEntry: narrow to uint16: uint16(len(data))";
  "windows/keycredential/crypto: *RSAKeyMaterial.FromBytes: << uint32: rk.Exponent << 8";
  "windows/keycredential/crypto: *RSAKeyMaterial.FromBytes: narrow to uint32: uint32(len(value))";
  "windows/keycredential/crypto: *RSAKeyMaterial.ToBytes: narrow to uint32: uint32(len(b_exponent))";
  "windows/keycredential/crypto: *RSAKeyMaterial.ToBytes: narrow to uint32: uint32(len(b_prime1))";
  "windows/keycredential/crypto: *RSAKeyMaterial.ToBytes: narrow to uint32: uint32(len(b_prime2))";
  "windows/keycredential/crypto: *RSAKeyMaterial.ToBytes: narrow to uint32: uint32(len(rk.Modulus))";
  "windows/keycredential/crypto: *SecretEncryptionType.ToBytes: narrow to uint32: uint32(set.Value)";
  "windows/keycredential/key: *CustomKeyInformation.FromBytes: - uint32: cki.RawBytesSize - 19";
  "windows/keycredential/key: *CustomKeyInformation.FromBytes: narrow to uint32: uint32(len(blob))";
  "windows/keycredential/key: *CustomKeyInformation.ToBytes: narrow to uint8: byte(cki.Version)";
  "windows/keycredential/utils: NewDateTime: * int64: int64(ticks%10000000) * 100"
].

Definition expected_wraps_C15 : list string := [
  "crypto/uuid/uuid_v1: *UUIDv1.GetTime: * int64: int64(timestamp%10000000) * 100";
  "crypto/uuid/uuid_v1: *UUIDv1.GetTime: - int64: int64(timestamp/10000000) - int64(UUIDv1Epoch/10000000)";
  "crypto/uuid/uuid_v1: *UUIDv1.Marshal: << uint8: byte(timeHigh&0x0F) << 4";
  "crypto/uuid/uuid_v1: *UUIDv1.Marshal: narrow to uint16: uint16((u.Time & 0x0000FFFF00000000) >> 32)";
  "crypto/uuid/uuid_v1: *UUIDv1.Marshal: narrow to uint16: uint16((u.Time & 0x0FFF000000000000) >> 48)";
  "crypto/uuid/uuid_v1: *UUIDv1.Marshal: narrow to uint32: uint32(u.Time & 0x00000000FFFFFFFF)";
  "crypto/uuid/uuid_v1: *UUIDv1.Marshal: narrow to uint8: byte((timeHigh >> 4) & 0xFF)";
  "crypto/uuid/uuid_v1: *UUIDv1.Marshal: narrow to uint8: byte((u.ClockSeq & 0x0F00) >> 8)";
  "crypto/uuid/uuid_v1: *UUIDv1.Marshal: narrow to uint8: byte(timeHigh & 0x0F)";
  "crypto/uuid/uuid_v1: *UUIDv1.Marshal: narrow to uint8: byte(u.ClockSeq & 0xFF)";
  "crypto/uuid/uuid_v2: *UUIDv2.GetTime: * int64: int64(timestamp%10000000) * 100";
  "crypto/uuid/uuid_v2: *UUIDv2.GetTime: - int64: int64(timestamp/10000000) - int64(UUIDv2Epoch/10000000)";
  "crypto/uuid/uuid_v2: *UUIDv2.Marshal: << uint8: byte(timeHigh&0x0F) << 4";
  "crypto/uuid/uuid_v2: *UUIDv2.Marshal: narrow to uint16: uint16((u.Time & 0x0000FFFF00000000) >> 32)";
  "crypto/uuid/uuid_v2: *UUIDv2.Marshal: narrow to uint16: uint16((u.Time & 0x0FFF000000000000) >> 48)";
  "crypto/uuid/uuid_v2: *UUIDv2.Marshal: narrow to uint8: byte((timeHigh >> 4) & 0xFF)";
  "crypto/uuid/uuid_v2: *UUIDv2.Marshal: narrow to uint8: byte(timeHigh & 0x0F)";
  "network/ldap: ParseSIDFromBytes: << uint64: uint64(sidBytes[2+0]) << 40";
  "network/ldap: ParseSIDFromBytes: << uint64: uint64(sidBytes[2+1]) << 32";
  "network/ldap: ParseSIDFromBytes: << uint64: uint64(sidBytes[2+2]) << 24";
  "network/ldap: ParseSIDFromBytes: << uint64: uint64(sidBytes[2+3]) << 16";
  "network/ldap: ParseSIDFromBytes: << uint64: uint64(sidBytes[2+4]) << 8";
  "windows/keycredential/utils: NewDateTime: * int64: int64(ticks%10000000) * 100";
  "windows/ms_dtyp/common/data_structures: *FILETIME.GetTime: * int64: (ticks % 10000000) * 100";
  "windows/ms_dtyp/common/data_structures: *FILETIME.GetTime: - int64: ticks/10000000 - UnixTimestampIn100NsIntervals/10000000";
  "windows/ms_dtyp/common/data_structures: *FILETIME.ToInt64: << int64: int64(ft.DwHighDateTime) & 0xFFFFFFFF << 32"
].

Definition expected_wraps_C16 : list string := [
  "network/ldap: ParseSIDFromBytes: << uint64: uint64(sidBytes[2+0]) << 40";
  "network/ldap: ParseSIDFromBytes: << uint64: uint64(sidBytes[2+1]) << 32";
  "network/ldap: ParseSIDFromBytes: << uint64: uint64(sidBytes[2+2]) << 24";
  "network/ldap: ParseSIDFromBytes: << uint64: uint64(sidBytes[2+3]) << 16";
  "network/ldap: ParseSIDFromBytes: << uint64: uint64(sidBytes[2+4]) << 8"
].

Definition expected_wraps_C17 : list string := [
  "network/netbios/nbtns: *NBTNSPacket.Unmarshal: ++ uint16: i++";
  "network/netbios/nbtns: *NBTNSPacket.Unmarshal: ++ uint16: i++";
  "network/netbios/nbtns: *NameChallenger.DefendName: narrow to uint16: uint16(len(response.Answers))";
  "network/netbios/nbtns: *NetBIOSName.FirstLevelEncode: + uint8: ((name[i] >> 4) & 0x0F) + ASCII_A";
  "network/netbios/nbtns: *NetBIOSName.FirstLevelEncode: + uint8: (name[i] & 0x0F) + ASCII_A";
  "network/netbios/nbtns: *PacketHandler.handleNameQuery: narrow to uint16: uint16(len(response.Answers))";
  "network/netbios/nbtns: *RedirectManager.HandleRedirect: narrow to uint8: byte(info.ServerPort >> 8)";
  "network/netbios/nbtns: *RedirectManager.HandleRedirect: narrow to uint8: byte(info.ServerPort)";
  "network/netbios/nbtns: *Server.handleNameQuery: narrow to uint16: uint16(len(response.Answers))";
  "network/netbios/nbtns: *TCPServer.handleConnection: narrow to uint16: uint16(len(response))"
].

Definition expected_wraps_C18 : list string := [
  "network/llmnr: *Message.AddAnswer: narrow to uint16: uint16(len(m.Answers))";
  "network/llmnr: *Message.AddAnswerClassINTypeA: narrow to uint16: uint16(len(m.Questions))";
  "network/llmnr: *Message.AddAnswerClassINTypeA: narrow to uint16: uint16(len(rr.RData))";
  "network/llmnr: *Message.AddAnswerClassINTypeAAAA: narrow to uint16: uint16(len(m.Questions))";
  "network/llmnr: *Message.AddAnswerClassINTypeAAAA: narrow to uint16: uint16(len(rr.RData))";
  "network/llmnr: *Message.AddQuestion: narrow to uint16: uint16(len(m.Questions))";
  "network/llmnr: *Message.Encode: narrow to uint16: uint16(len(m.Additional))";
  "network/llmnr: *Message.Encode: narrow to uint16: uint16(len(m.Answers))";
  "network/llmnr: *Message.Encode: narrow to uint16: uint16(len(m.Authority))";
  "network/llmnr: *Message.Encode: narrow to uint16: uint16(len(m.Questions))";
  "network/llmnr: DecodeMessage: ++ uint16: i++";
  "network/llmnr: DecodeMessage: ++ uint16: i++";
  "network/llmnr: DecodeMessage: ++ uint16: i++";
  "network/llmnr: DecodeMessage: ++ uint16: i++";
  "network/llmnr: EncodeResourceRecord: narrow to uint16: uint16(len(rr.RData))";
  "network/netbios/nbtns: *NBTNSPacket.Unmarshal: ++ uint16: i++";
  "network/netbios/nbtns: *NBTNSPacket.Unmarshal: ++ uint16: i++";
  "network/netbios/nbtns: *NameChallenger.DefendName: narrow to uint16: uint16(len(response.Answers))";
  "network/netbios/nbtns: *NetBIOSName.FirstLevelEncode: + uint8: ((name[i] >> 4) & 0x0F) + ASCII_A";
  "network/netbios/nbtns: *NetBIOSName.FirstLevelEncode: + uint8: (name[i] & 0x0F) + ASCII_A";
  "network/netbios/nbtns: *PacketHandler.handleNameQuery: narrow to uint16: uint16(len(response.Answers))";
  "network/netbios/nbtns: *RedirectManager.HandleRedirect: narrow to uint8: byte(info.ServerPort >> 8)";
  "network/netbios/nbtns: *RedirectManager.HandleRedirect: narrow to uint8: byte(info.ServerPort)";
  "network/netbios/nbtns: *Server.handleNameQuery: narrow to uint16: uint16(len(response.Answers))";
  "network/netbios/nbtns: *TCPServer.handleConnection: narrow to uint16: uint16(len(response))"
].

Definition expected_wraps_C19 : list string := [
  "windows/keycredential/key: *CustomKeyInformation.FromBytes: - uint32: cki.RawBytesSize - 19";
  "windows/keycredential/key: *CustomKeyInformation.FromBytes: narrow to uint32: uint32(len(blob))";
  "windows/keycredential/key: *CustomKeyInformation.ToBytes: narrow to uint8: byte(cki.Version)"
].

Definition expected_wraps_C20 : list string := [
  "network/ip: *IPv4.ComputeMask: - uint8: 32 - i.MaskBits";
  "network/ip: *IPv4.ComputeMask: << uint32: uint32(0xFFFFFFFF) << (32 - i.MaskBits)";
  "network/ip: *IPv4.ComputeMask: narrow to uint8: uint8((masked >> 16) & 0xFF)";
  "network/ip: *IPv4.ComputeMask: narrow to uint8: uint8((masked >> 24) & 0xFF)";
  "network/ip: *IPv4.ComputeMask: narrow to uint8: uint8((masked >> 8) & 0xFF)";
  "network/ip: *IPv4.ComputeMask: narrow to uint8: uint8(masked & 0xFF)";
  "network/ip: *IPv4.IsInSubnet: - uint8: 32 - subnet.MaskBits";
  "network/ip: *IPv4.IsInSubnet: << uint32: uint32(0xFFFFFFFF) << (32 - subnet.MaskBits)";
  "network/ip: *IPv4.ToUInt32: << uint32: uint32(i.A) << 24";
  "network/ip: *IPv4.ToUInt32: << uint32: uint32(i.B) << 16";
  "network/ip: *IPv4.ToUInt32: << uint32: uint32(i.C) << 8";
  "network/ip: *IPv6.ToUInt128: << uint64: uint64(i.A) << 48";
  "network/ip: *IPv6.ToUInt128: << uint64: uint64(i.B) << 32";
  "network/ip: *IPv6.ToUInt128: << uint64: uint64(i.C) << 16";
  "network/ip: *IPv6.ToUInt128: << uint64: uint64(i.E) << 48";
  "network/ip: *IPv6.ToUInt128: << uint64: uint64(i.F) << 32";
  "network/ip: *IPv6.ToUInt128: << uint64: uint64(i.G) << 16";
  "network/ip: NewTCPPortRangeFromString: narrow to uint16: uint16(end)";
  "network/ip: NewTCPPortRangeFromString: narrow to uint16: uint16(start)"
].

