(* Slice-level model of network/netbios/nbtns/nbtns.go: the same six methods as Model/NameTable.v,
   but record.Owners is a Go slice header (pointer, len) into a backing array that lives in a
   heap, so that "who shares memory with whom" can be stated.

   heap      : list of backing arrays; a location is an index; the capacity of a slice based at
               a location is the length of the array there (all slices of this file start at
               offset 0 of their array).  Allocation appends; nothing is ever freed.
   []net.IP{owner}            allocates an array of capacity 1
   append(s, x), len < cap    writes slot len of the SAME array
   append(s, x), len == cap   allocates an array of capacity 2*cap (Go's growslice below 256
                              elements; 24-byte elements hit exact size classes), copies
   make + copy (QueryName)    allocates an array of exactly len elements
   append(s[:i], s[i+1:]...)  moves s[i+1:len] one slot down inside the SAME array; slot len-1
                              keeps its old (stale) content
   The IP values themselves (byte slices) are never written by nbtns.go and are values here. *)
From Coq Require Import List NArith ZArith Bool Arith.
From Mant Require Import Prim.Bytes Model.NameTable.
Import ListNotations.

Record hrecord := mkhrec {
  h_type : N;
  h_status : N;
  h_loc : nat;        (* Owners: base pointer *)
  h_len : nat;        (* Owners: len *)
  h_ttl : Z;
  h_refresh : Z
}.

Definition heap := list (list ip).

Record hstate := mkhs { hs_tbl : list (name * hrecord); hs_heap : heap }.

Definition hempty : hstate := mkhs [] [].

Definition cell (h : heap) (l : nat) : list ip := nth l h [].

Fixpoint set_cell (h : heap) (l : nat) (arr : list ip) : heap :=
  match h, l with
  | [], _ => []
  | _ :: h', O => arr :: h'
  | c :: h', S l' => c :: set_cell h' l' arr
  end.

Definition owners_of (h : heap) (r : hrecord) : list ip := firstn (h_len r) (cell h (h_loc r)).

Inductive hout :=
| HOk
| HErr
| HPanic
| HOwners (loc len : nat) (ty : N).   (* the returned slice: base pointer, len (= cap), and the type *)

Definition hwith_slice (r : hrecord) (l len : nat) : hrecord :=
  mkhrec (h_type r) (h_status r) l len (h_ttl r) (h_refresh r).
Definition hwith_ttl (r : hrecord) (t : Z) : hrecord :=
  mkhrec (h_type r) (h_status r) (h_loc r) (h_len r) t (h_refresh r).
Definition hwith_status (r : hrecord) (s : N) : hrecord :=
  mkhrec (h_type r) s (h_loc r) (h_len r) (h_ttl r) (h_refresh r).

Definition grow (cap : nat) : nat := match cap with O => 1 | _ => 2 * cap end.

(* record.Owners = append(record.Owners, a): new heap, new base, (len is len+1) *)
Definition append_owner (h : heap) (r : hrecord) (a : ip) : heap * nat :=
  let arr := cell h (h_loc r) in
  if Nat.ltb (h_len r) (length arr) then
    (set_cell h (h_loc r) (firstn (h_len r) arr ++ [a] ++ skipn (S (h_len r)) arr), h_loc r)
  else
    (h ++ [firstn (h_len r) arr ++ [a] ++ repeat [] (grow (length arr) - S (h_len r))], length h).

Definition hstep (now : Z) (st : hstate) (o : op) : hstate * hout :=
  let t := hs_tbl st in
  let h := hs_heap st in
  match o with
  | Register n ty a ttl =>
      let fresh := mkhrec ty st_active (length h) 1 (now + ttl)%Z ttl in
      match tget t n with
      | Some r =>
          if (h_type r =? ty_group)%N && (ty =? ty_group)%N then
            if has_owner a (owners_of h r) then (st, HOk)
            else
              let '(h', l') := append_owner h r a in
              (mkhs (tset t n (hwith_ttl (hwith_slice r l' (S (h_len r))) (now + ttl)%Z)) h', HOk)
          else if (h_type r =? ty_unique)%N || (ty =? ty_unique)%N then (st, HErr)
          else (mkhs (tset t n fresh) (h ++ [[a]]), HOk)
      | None => (mkhs (tset t n fresh) (h ++ [[a]]), HOk)
      end
  | Query n =>
      match tget t n with
      | Some r =>
          if (h_status r =? st_active)%N then
            (mkhs t (h ++ [owners_of h r]), HOwners (length h) (h_len r) (h_type r))
          else (st, HErr)
      | None => (st, HErr)
      end
  | Release n a =>
      match tget t n with
      | None => (st, HErr)
      | Some r =>
          if (h_type r =? ty_group)%N then
            match remove_first a (owners_of h r) with
            | Some l' =>
                let arr := cell h (h_loc r) in
                let h' := set_cell h (h_loc r) (l' ++ skipn (h_len r - 1) arr) in
                match l' with
                | [] => (mkhs (tdel t n) h', HOk)
                | _ => (mkhs (tset t n (hwith_slice r (h_loc r) (h_len r - 1))) h', HOk)
                end
            | None => (st, HErr)
            end
          else
            match owners_of h r with
            | [] => (st, HPanic)
            | b :: _ => if ip_equal b a then (mkhs (tdel t n) h, HOk) else (st, HErr)
            end
      end
  | Refresh n a =>
      match tget t n with
      | None => (st, HErr)
      | Some r =>
          if has_owner a (owners_of h r) then (mkhs (tset t n (hwith_ttl r (now + h_refresh r)%Z)) h, HOk)
          else (st, HErr)
      end
  | MarkConflict n =>
      match tget t n with
      | None => (st, HErr)
      | Some r => (mkhs (tset t n (hwith_status r st_conflict)) h, HOk)
      end
  | CleanExpired =>
      (mkhs (filter (fun kr => negb (h_ttl (snd kr) <? now)%Z) t) h, HOk)
  end.

Fixpoint hrun (st : hstate) (h : history) : hstate * list hout :=
  match h with
  | [] => (st, [])
  | (now, o) :: h' =>
      let '(st1, x) := hstep now st o in
      let '(st2, xs) := hrun st1 h' in
      (st2, x :: xs)
  end.
