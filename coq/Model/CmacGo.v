(* Model of crypto/cmac/cmac.go (hand-written; tied by the correspondence cases named cmac.xxx), in a
   Section over the block cipher:  E = c.Encrypt (one block -> one block, already keyed),
   n = c.BlockSize().
     New        -> cm_new      (panics unless n is 8 or 16; subkeys by the byte-wise shift1)
     Write      -> cm_write    (xor into ci at position p; encrypt only when a further byte arrives)
     Sum        -> cm_sum      (works in the scratch buffer d.digest; ci and p are not touched)
     Reset      -> cm_reset
     Size       -> cm_size     BlockSize -> cm_blocksize (the constant 16, whatever the cipher)
   The struct is  k1, k2, ci, digest []byte; p int; c cipher.Block.  Definitions only. *)
From Coq Require Import List Arith NArith Bool.
From Mant Require Import Prim.R Prim.Bytes.
Import ListNotations.
Open Scope N_scope.

(* shift1(src, dst): from the last byte to the first, dst[i] = src[i]<<1 | carry (a uint8),
   carry = src[i]>>7; returns the final carry.  (dst, carry-out) *)
Fixpoint shift1_go (src : list N) : list N * N :=
  match src with
  | [] => ([], 0)
  | x :: r =>
      let '(r', b) := shift1_go r in
      (N.lor ((x * 2) mod 256) b :: r', x / 128)
  end.

(* l[i] ^= v  (i < len l in every use) *)
Fixpoint xor_at (l : list N) (i : nat) (v : N) : list N :=
  match l with
  | [] => []
  | x :: r => match i with O => N.lxor x v :: r | S i' => x :: xor_at r i' v end
  end.

(* for i := 0; i < len(a); i++ { out[i] = a[i] ^ b[i] }  (len b >= len a in every use) *)
Fixpoint xor_go (a b : list N) : list N :=
  match a, b with
  | x :: a', y :: b' => N.lxor x y :: xor_go a' b'
  | _, _ => []
  end.

Record cmst : Type := mk_cmst { cm_k1 : list N; cm_k2 : list N; cm_ci : list N; cm_digest : list N; cm_p : nat }.

Section CmacGo.
  Variable E : list N -> list N.
  Variable n : nat.

  Definition cm_new : R cmst :=
    if Nat.eqb n 8 || Nat.eqb n 16 then
      let r : N := if Nat.eqb n 8 then 0x1b else 0x87 in
      let l := E (repeatN 0 n) in                      (* c.Encrypt(d.k1, d.k1) on n zero bytes *)
      let '(s1, c1) := shift1_go l in                  (* shift1(d.k1, d.k1) *)
      let k1 := if c1 =? 0 then s1 else xor_at s1 (n - 1) r in
      let '(s2, c2) := shift1_go k1 in                 (* shift1(d.k1, d.k2) *)
      let k2 := if c2 =? 0 then s2 else xor_at s2 (n - 1) r in
      Ok (mk_cmst k1 k2 (repeatN 0 n) (repeatN 0 n) 0)
    else Panic.

  Definition cm_reset (d : cmst) : cmst :=
    mk_cmst (cm_k1 d) (cm_k2 d) (map (fun _ => 0) (cm_ci d)) (cm_digest d) 0.

  (* one iteration of the loop of Write *)
  Definition cm_write_byte (d : cmst) (c : N) : cmst :=
    let '(ci, p) := if (length (cm_ci d) <=? cm_p d)%nat then (E (cm_ci d), O) else (cm_ci d, cm_p d) in
    mk_cmst (cm_k1 d) (cm_k2 d) (xor_at ci p c) (cm_digest d) (S p).

  (* returns (len(p), nil) *)
  Definition cm_write (d : cmst) (data : list N) : cmst := fold_left cm_write_byte data d.

  Definition cm_sum (d : cmst) (inp : list N) : list N * cmst :=
    let short := (cm_p d <? length (cm_digest d))%nat in
    let k := if short then cm_k2 d else cm_k1 d in
    (* d.digest[i] = d.ci[i] ^ k[i] for i < len(d.ci); the rest of d.digest (none) is kept *)
    let dg := xor_go (cm_ci d) k ++ skipn (length (cm_ci d)) (cm_digest d) in
    let dg := if short then xor_at dg (cm_p d) 0x80 else dg in
    let dg := E dg in
    (inp ++ dg, mk_cmst (cm_k1 d) (cm_k2 d) (cm_ci d) dg (cm_p d)).

  Definition cm_size (d : cmst) : N := lenN (cm_digest d).
  Definition cm_blocksize (d : cmst) : N := 16.
End CmacGo.

(* a history of calls on one hash object *)
Inductive cmac_op : Type :=
| OpWrite (data : list N)
| OpSum (inp : list N)
| OpReset.

Fixpoint cm_run (E : list N -> list N) (d : cmst) (ops : list cmac_op) : cmst :=
  match ops with
  | [] => d
  | OpWrite data :: r => cm_run E (cm_write E d data) r
  | OpSum inp :: r => cm_run E (snd (cm_sum E d inp)) r
  | OpReset :: r => cm_run E (cm_reset d) r
  end.

(* the bytes written since the last Reset *)
Fixpoint written_acc (acc : list N) (ops : list cmac_op) : list N :=
  match ops with
  | [] => acc
  | OpWrite data :: r => written_acc (acc ++ data) r
  | OpSum _ :: r => written_acc acc r
  | OpReset :: r => written_acc [] r
  end.
Definition written (ops : list cmac_op) : list N := written_acc [] ops.
