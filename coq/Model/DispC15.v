(* Routes the C15 harness entry points (harness/c15.go) to Model/WinTime.v. *)
From Coq Require Import List NArith ZArith String.
From Mant Require Import Prim.R Prim.Val Model.DispUtil Model.WinTime.
Import ListNotations.
Open Scope string_scope.

Definition vtime (t : gotime) : val := VL [VN (fst t); VN (snd t)].
Definition vft (ft : filetime) : val := VL [VN (fst ft); VN (snd ft)].

(* DateTime observation: () when the tick count read was 0 ("now"), else (ticks sec nsec) *)
Definition vdatetime_plain (dt : datetime) : val := VL [VN (fst dt); VN (fst (snd dt)); VN (snd (snd dt))].
Definition vdatetime (in_ticks : Z) (dt : datetime) : val :=
  if (in_ticks =? 0)%Z then VL [] else vdatetime_plain dt.

Definition dummy_now : gotime := (0%Z, 0%Z).

Definition dispatch_C15 (f : string) (args : list val) : val :=
  match args with
  | [VL [VN sec; VN nsec]] =>
      let t := time_unix sec nsec in
      if f =? "filetime.from_time" then vft (filetime_from_time_go t)
      else if f =? "ldap.unix_to_ts" then VN (ldap_unix_to_timestamp_go t)
      else if f =? "uuidv1.set_time" then VN (uuidv1_set_time_go t)
      else if f =? "uuidv2.set_time" then VN (uuidv2_set_time_go t)
      else vunknown
  | [VL [VN sec; VN nsec]; VN source; VN version] =>
      if f =? "datetime.to_binary" then VB (convert_to_binary_time_go (time_unix sec nsec) source version)
      else vunknown
  | [VN lo; VN hi] =>
      let ft := (lo, hi) in
      if f =? "filetime.to_int64" then VN (filetime_to_int64_go ft)
      else if f =? "filetime.get_time" then vtime (filetime_get_time_go ft)
      else if f =? "filetime.unix_ts" then VN (filetime_get_unix_timestamp_go ft)
      else if f =? "filetime.marshal" then VB (filetime_marshal ft)
      else vunknown
  | [VN n] =>
      if f =? "ldap.sec_to_dur" then VB (ldap_seconds_to_duration_go n)
      else if f =? "datetime.new" then vdatetime n (new_datetime_go dummy_now n)
      else if f =? "datetime.to_bytes" then
        (if (n =? 0)%Z then VB [] else VB (datetime_to_bytes (new_datetime_go dummy_now n)))
      else if f =? "uuidv1.get_time" then vtime (uuidv1_get_time_go n)
      else if f =? "uuidv2.get_time" then vtime (uuidv2_get_time_go n)
      else vunknown
  | [VB b] =>
      if f =? "filetime.unmarshal" then
        r_val (fun r => VL [VN (fst r); VN (fst (snd r)); VN (snd (snd r))]) (filetime_unmarshal b)
      else if f =? "ldap.ts_to_unix" then r_val VN (ldap_timestamp_to_unix_go b)
      else if f =? "ldap.dur_to_sec" then r_val VN (ldap_duration_to_seconds_go b)
      else vunknown
  | [VB raw; VN source; VN version] =>
      if f =? "datetime.from_binary" then
        match convert_from_binary_time_go dummy_now raw source version with
        | Ok dt =>
            if (Prim.Bytes.lenN raw <? 8)%N then vdatetime_plain dt
            else match Prim.Bytes.go_le_uint 8 raw with
                 | Ok ts => vdatetime (Z.of_N ts) dt
                 | _ => VPanic
                 end
        | Err => VErr
        | Panic => VPanic
        end
      else vunknown
  | _ => vunknown
  end.
