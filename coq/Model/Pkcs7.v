(* Model of crypto/pkcs7/pkcs7.go (hand-written; tied by the correspondence cases named pkcs7.xxx).
     Pad(buffer, blockSize uint8)  -> pkcs7_pad
     Unpad(buffer)                 -> pkcs7_unpad   (the constant-time accumulator loop as written)
   crypto/subtle: ConstantTimeLessOrEq(x, y) = 1 if x <= y else 0; ConstantTimeByteEq(x, y) = 1 if
   x == y else 0; ConstantTimeSelect(v, a, b) = a if v == 1, b if v == 0.  Definitions only. *)
From Coq Require Import List NArith Bool.
From Mant Require Import Prim.R Prim.Bytes.
Import ListNotations.
Open Scope N_scope.

Definition ct_le (x y : N) : N := if x <=? y then 1 else 0.
Definition ct_byte_eq (x y : N) : N := if x =? y then 1 else 0.
Definition ct_select (v a b : N) : N := if v =? 1 then a else b.

(* blockSize is a uint8 (0..255); blockSize < 1 is the only rejected value *)
Definition pkcs7_pad (buffer : list N) (blockSize : N) : R (list N) :=
  if blockSize <? 1 then Err
  else
    let padLen := blockSize - lenN buffer mod blockSize in
    Ok (buffer ++ repeatN (padLen mod 256) (N.to_nat padLen)).   (* byte(padLen), padLen times *)

(* for i := 0; i < blockSize; i++ { b := buffer[len(buffer)-1-i]; ... good &= ... }
   [rbuf] is the buffer read from its end: the i-th element of rev buffer is buffer[len-1-i];
   [cnt] iterations are left. *)
Fixpoint unpad_loop (cnt : nat) (rbuf : list N) (i : N) (padLen : N) (good : N) : N :=
  match cnt with
  | O => good
  | S cnt' =>
      match rbuf with
      | [] => good                                  (* not reached: cnt <= len(buffer) *)
      | b :: rbuf' =>
          let outOfRange := ct_le padLen i in
          let equal := ct_byte_eq padLen b in
          unpad_loop cnt' rbuf' (i + 1) padLen (N.land good (ct_select outOfRange 1 equal))
      end
  end.

Definition pkcs7_unpad (buffer : list N) : R (list N) :=
  match rev buffer with
  | [] => Err                                                        (* ErrUnPaddingEmptyBuffer *)
  | padLen :: _ =>
      let len := lenN buffer in
      let blockSize := if len <? 255 then len else 255 in           (* blockSize := 255; if blockSize > len {…} *)
      let good := unpad_loop (N.to_nat blockSize) (rev buffer) 0 padLen 1 in
      let good := N.land good (ct_le 1 padLen) in
      let good := N.land good (ct_le padLen len) in
      if negb (good =? 1) then Err                                   (* ErrInvalidPadding *)
      else go_upto buffer (len - padLen)                             (* buffer[:len(buffer)-int(padLen)] *)
  end.
