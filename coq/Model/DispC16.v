From Coq Require Import List NArith ZArith String.
From Mant Require Import Prim.R Prim.Val Model.DispUtil Model.Sid Model.Dn.
Import ListNotations.
Open Scope string_scope.

Definition dispatch_C16 (f : string) (args : list val) : val :=
  match args with
  | [VB b] =>
      if f =? "sid.parse" then r_bytes (parse_sid b)
      else if f =? "dn.domain" then VB (domain_of_dn b)
      else vunknown
  | _ => vunknown
  end.
