(* Helpers shared by the per-property dispatch tables. *)
From Coq Require Import List NArith ZArith String.
From Mant Require Import Prim.R Prim.Val.
Import ListNotations.

Definition vunknown : val := VL [VErr; VPanic].

Definition r_val {A} (f : A -> val) (r : R A) : val :=
  match r with Ok a => f a | Err => VErr | Panic => VPanic end.
Definition r_bytes (r : R (list N)) : val := r_val VB r.
Definition o_val {A} (f : A -> val) (o : option A) : val :=
  match o with Some a => f a | None => VErr end.

Definition vZ (z : Z) : val := VN z.
Definition n_of_val (v : val) : N := match v with VN z => Z.to_N z | _ => 0%N end.
Definition z_of_val (v : val) : Z := match v with VN z => z | _ => 0%Z end.
Definition b_of_val (v : val) : list N := match v with VB b => b | _ => [] end.
Definition l_of_val (v : val) : list val := match v with VL l => l | _ => [] end.
Definition bool_of_val (v : val) : bool := match v with VN Z0 => false | VN _ => true | _ => false end.
