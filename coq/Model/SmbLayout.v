(* Generic model of the SMB1 command structures (properties C03 C04 C05 C07).
   go2coq re-reads every commands/<Cmd>.go on every run and emits, per structure, a [cmd_desc]:
   the declared fields, the values its Marshal appends to the parameter and data streams, and the
   guarded reads its Unmarshal performs (Gen/SmbLayouts.v).  This file gives those descriptions
   their meaning: [cmd_marshal] and [cmd_unmarshal] are interpreters that follow the template of the
   Go code (Parameters / Data blocks with their accumulators, the AndX words, the early returns, the
   shared offset cursor, slice expressions that can panic).  Definitions only. *)
From Coq Require Import List NArith ZArith String Bool.
From Mant Require Import Prim.R Prim.Bytes Model.SmbTypes Model.SmbBlocks Model.SmbDialects.
Import ListNotations.
Open Scope N_scope.

(* ---- the description language ---- *)
Inductive ctype :=
| TInt (w : nat)
| TBytes
| TArray (t : ctype)
| TFixedArray (n : nat) (t : ctype)
| TNamed (s : string).

Inductive stream := SP | SD | SNone.

Inductive lenexp :=
| EConst (n : N)
| EField (f : string)
| ELenOf (f : string)
| EVar (v : string)
| ERead
| ERest
| EAdd (a b : lenexp)
| EMul (a b : lenexp)
| ESub (a b : lenexp).

(* conditions of the optional trailing fields: "if c.GetParameters().WordCount == k" (in Marshal: the count the
   accumulator holds when Marshal starts, after the AndX words; in Unmarshal: the count just decoded), and
   "if c.F != 0" / "if c.F != [n]T{0,...}" *)
Inductive mcond := MCWcEq (k : N) | MCNonZero (f : string) | MCArrNonZero (f : string).
Inductive ucond := UCWcEq (k : N).

Inductive mop :=
| MIf (c : mcond) (m : mop)
| MInt (s : stream) (f : string) (w : nat) (e : endian)
| MBytes (s : stream) (f : string)
| MNested (s : stream) (f : string) (t : ctype) (fmt : string)
| MConst (s : stream) (w : nat) (e : endian) (n : N)
| MLen (s : stream) (f : string) (w : nat) (e : endian)
| MDerive (f g : string)
| MIntArray (s : stream) (f : string) (w : nat) (e : endian)
| MNestedArray (s : stream) (f : string) (t : ctype)
| MOpaque (text : string).

Inductive uop :=
| UIf (c : ucond) (u : uop)
| UGuard (s : stream) (e : lenexp)
| UInt (s : stream) (f : string) (w : nat) (e : endian) (acc : lenexp)
| UBytes (s : stream) (f : string) (e : lenexp)
| UIntArr (s : stream) (f : string) (w : nat) (en : endian) (e : lenexp)
| UNested (s : stream) (f : string) (t : ctype) (e : lenexp)
| UNested0 (s : stream) (f : string) (t : ctype)
| UEmptyRet (s : stream)
| UAdv (e : lenexp)
| ULet (v : string) (e : lenexp)
| UReset (s : stream)
| UOpaque (text : string).

Inductive empty_rule := EmptyNone | EmptyParams | EmptyBoth.

Record cmd_desc := {
  cd_name : string;
  cd_code : N;
  cd_andx : bool;
  cd_request : bool;
  cd_params_first : bool;
  cd_empty : empty_rule;
  cd_decl : list (string * ctype);
  cd_marshal : list mop;
  cd_unmarshal : list uop;
  cd_opaque : list string
}.

Definition cd_translated (c : cmd_desc) : bool :=
  match cd_opaque c with [] => true | _ => false end.

(* ---- field values ---- *)
Inductive fval :=
| FInt (n : N)
| FBytes (b : list N)
| FStruct (l : list fval).

Definition valuation := list (string * fval).

Fixpoint vget (v : valuation) (f : string) : option fval :=
  match v with
  | [] => None
  | (g, x) :: r => if String.eqb g f then Some x else vget r f
  end.

Fixpoint vset (v : valuation) (f : string) (x : fval) : valuation :=
  match v with
  | [] => [(f, x)]
  | (g, y) :: r => if String.eqb g f then (g, x) :: r else (g, y) :: vset r f x
  end.

Definition vint (v : valuation) (f : string) : N :=
  match vget v f with Some (FInt n) => n | _ => 0 end.

Definition vlen (v : valuation) (f : string) : N :=
  match vget v f with
  | Some (FBytes b) => lenN b
  | Some (FStruct l) => lenN l
  | _ => 0
  end.

(* ---- the named wire types (models from Model/SmbTypes.v) ---- *)
Definition ss_of (x : fval) : smb_string :=
  match x with
  | FStruct [FInt f; FInt l; FBytes b] => mk_ss f l b
  | _ => mk_ss 0 0 []
  end.
Definition ss_to (s : smb_string) : fval := FStruct [FInt (ss_fmt s); FInt (ss_len s); FBytes (ss_buf s)].

Definition format_code (fmt : string) : option N :=
  if String.eqb fmt "types.SMB_STRING_BUFFER_FORMAT_VARIABLE_BLOCK_16BIT" then Some 1
  else if String.eqb fmt "types.SMB_STRING_BUFFER_FORMAT_NULL_TERMINATED_OEM_STRING" then Some 2
  else if String.eqb fmt "types.SMB_STRING_BUFFER_FORMAT_NULL_TERMINATED_OEM_STRING_16BIT" then Some 3
  else if String.eqb fmt "types.SMB_STRING_BUFFER_FORMAT_NULL_TERMINATED_ASCII_STRING" then Some 4
  else if String.eqb fmt "types.SMB_STRING_BUFFER_FORMAT_VARIABLE_BLOCK" then Some 5
  else None.

(* SMB_RESUME_KEY { SMB_STRING; Reserved; ServerState [16]; ClientState [4] } and dialects.Dialects { []string } *)
Definition ints_of (l : list fval) : list N := flat_map (fun y => match y with FInt n => [n] | _ => [] end) l.
Definition rk_of (x : fval) : option resume_key :=
  match x with
  | FStruct [s; FInt r; FStruct srv; FStruct cli] => Some (mk_rk (ss_of s) r (ints_of srv) (ints_of cli))
  | _ => None
  end.
Definition rk_to (r : resume_key) : fval :=
  FStruct [ss_to (rk_str r); FInt (rk_reserved r); FStruct (map FInt (rk_server r)); FStruct (map FInt (rk_client r))].
Definition dialects_of (x : fval) : list (list N) :=
  match x with
  | FStruct [FStruct l] => flat_map (fun y => match y with FBytes b => [b] | _ => [] end) l
  | _ => []
  end.
Definition dialects_to (ds : list (list N)) : fval := FStruct [FStruct (map FBytes ds)].

(* marshal of a nested value: bytes and the (possibly updated) value *)
Definition nested_marshal (t : ctype) (fmt : string) (x : fval) : R (list N * fval) :=
  match t with
  | TNamed n =>
      if String.eqb n "SMB_STRING" then
        let s := ss_of x in
        let s := match format_code fmt with Some k => mk_ss k (ss_len s) (ss_buf s) | None => s end in
        let* (bs, s') := smb_string_marshal s in Ok (bs, ss_to s')
      else if String.eqb n "OEM_STRING" then
        (* OEM_STRING embeds SMB_STRING: FStruct [FStruct [fmt; len; buf]] *)
        match x with
        | FStruct [inner] =>
            let s := ss_of inner in
            let s := match format_code fmt with Some k => mk_ss k (ss_len s) (ss_buf s) | None => s end in
            let* (bs, s') := oem_marshal s in Ok (bs, FStruct [ss_to s'])
        | _ => Panic
        end
      else if String.eqb n "FILETIME" || String.eqb n "SMB_TIME" then
        match x with
        | FStruct [FInt lo; FInt hi] => Ok (filetime_marshal (lo, hi), x)
        | _ => Panic
        end
      else if String.eqb n "SMB_DATE" then
        match x with
        | FStruct [FInt y; FInt m; FInt d] => Ok (date_marshal (mk_date y m d), x)
        | _ => Panic
        end
      else if String.eqb n "SMB_FILE_ATTRIBUTES" then
        match x with
        | FStruct [FInt a] => Ok (fileattr_marshal a, x)
        | _ => Panic
        end
      else if String.eqb n "SMB_NMPIPE_STATUS" then
        match x with
        | FStruct [FInt a; FInt b] => Ok (nmpipe_marshal [a; b], x)
        | _ => Panic
        end
      else if String.eqb n "SMB_RESUME_KEY" then
        match rk_of x with
        | Some r => let* (bs, r') := resume_key_marshal r in Ok (bs, rk_to r')
        | None => Panic
        end
      else if String.eqb n "Dialects" then Ok (dialects_marshal (dialects_of x), x)
      else Panic
  | _ => Panic
  end.

Definition nested_unmarshal (t : ctype) (data : list N) : R (fval * N) :=
  match t with
  | TNamed n =>
      if String.eqb n "SMB_STRING" then
        let* (s, k) := smb_string_unmarshal data in Ok (ss_to s, k)
      else if String.eqb n "OEM_STRING" then
        let* (s, k) := oem_unmarshal data in Ok (FStruct [ss_to s], k)
      else if String.eqb n "FILETIME" || String.eqb n "SMB_TIME" then
        let* (p, k) := filetime_unmarshal data in Ok (FStruct [FInt (fst p); FInt (snd p)], k)
      else if String.eqb n "SMB_DATE" then
        let* (d, k) := date_unmarshal data in Ok (FStruct [FInt (d_year d); FInt (d_month d); FInt (d_day d)], k)
      else if String.eqb n "SMB_FILE_ATTRIBUTES" then
        let* (a, k) := fileattr_unmarshal data in Ok (FStruct [FInt a], k)
      else if String.eqb n "SMB_NMPIPE_STATUS" then
        let* (vs, k) := nmpipe_unmarshal data in Ok (FStruct [FInt (fv vs 0); FInt (fv vs 1)], k)
      else if String.eqb n "SMB_RESUME_KEY" then
        let* (r, k) := resume_key_unmarshal data in Ok (rk_to r, k)
      else if String.eqb n "Dialects" then
        let* (ds, k) := dialects_unmarshal data in Ok (dialects_to ds, k)
      else Panic
  | _ => Panic
  end.

Definition known_nested (t : ctype) : bool :=
  match t with
  | TNamed n => String.eqb n "SMB_STRING" || String.eqb n "OEM_STRING" || String.eqb n "FILETIME"
                || String.eqb n "SMB_TIME" || String.eqb n "SMB_DATE" || String.eqb n "SMB_FILE_ATTRIBUTES"
                || String.eqb n "SMB_NMPIPE_STATUS" || String.eqb n "SMB_RESUME_KEY" || String.eqb n "Dialects"
  | _ => false
  end.

Definition int_bytes (w : nat) (e : endian) (n : N) : list N :=
  match e with LE => le_bytes w n | BE => be_bytes w n end.

(* ---- Marshal ---- *)
Record mstate := { ms_p : list N; ms_d : list N; ms_v : valuation }.

Definition emit (st : mstate) (s : stream) (bs : list N) : mstate :=
  match s with
  | SP => {| ms_p := ms_p st ++ bs; ms_d := ms_d st; ms_v := ms_v st |}
  | SD => {| ms_p := ms_p st; ms_d := ms_d st ++ bs; ms_v := ms_v st |}
  | SNone => st
  end.

Definition fbytes_of (x : option fval) : list N :=
  match x with
  | Some (FBytes b) => b
  | Some (FStruct l) => flat_map (fun y => match y with FInt n => [n mod 256] | _ => [] end) l
  | _ => []
  end.

Definition mcond_holds (wc : N) (v : valuation) (c : mcond) : bool :=
  match c with
  | MCWcEq k => wc =? k
  | MCNonZero f => negb (vint v f =? 0)
  | MCArrNonZero f =>
      match vget v f with
      | Some (FStruct l) => existsb (fun y => match y with FInt n => negb (n =? 0) | _ => false end) l
      | _ => false
      end
  end.

Fixpoint mop_step (wc : N) (st : mstate) (m : mop) : R mstate :=
  match m with
  | MIf c m' => if mcond_holds wc (ms_v st) c then mop_step wc st m' else Ok st
  | MInt s f w e => Ok (emit st s (int_bytes w e (vint (ms_v st) f)))
  | MBytes s f => Ok (emit st s (fbytes_of (vget (ms_v st) f)))
  | MNested s f t fmt =>
      match vget (ms_v st) f with
      | Some x =>
          let* (bs, x') := nested_marshal t fmt x in
          let st' := emit st s bs in
          Ok {| ms_p := ms_p st'; ms_d := ms_d st'; ms_v := vset (ms_v st') f x' |}
      | None => Panic
      end
  | MConst s w e n => Ok (emit st s (int_bytes w e n))
  | MLen s f w e => Ok (emit st s (int_bytes w e (vlen (ms_v st) f)))
  | MDerive f g =>
      (* c.F = T(len(c.G)) : the conversion truncates to the declared width of F, applied by the caller *)
      Ok {| ms_p := ms_p st; ms_d := ms_d st; ms_v := vset (ms_v st) f (FInt (vlen (ms_v st) g)) |}
  | MIntArray s f w e =>
      match vget (ms_v st) f with
      | Some (FStruct l) =>
          Ok (emit st s (flat_map (fun y => match y with FInt n => int_bytes w e n | _ => [] end) l))
      | _ => Ok st
      end
  | MNestedArray _ _ _ => Panic
  | MOpaque _ => Panic
  end.

Fixpoint mops_run (wc : N) (st : mstate) (ms : list mop) : R mstate :=
  match ms with
  | [] => Ok st
  | m :: r => let* st' := mop_step wc st m in mops_run wc st' r
  end.

(* the command's Parameters and Data accumulators survive between Marshal calls *)
Record cstate := { cs_params : params; cs_data : datablk }.
Definition cstate_new : cstate := {| cs_params := params_new; cs_data := data_new |}.

(* NewAndX() with AndXCommand = SMB_COM_NO_ANDX_COMMAND (0xFF) *)
Definition default_andx : list N := [255; 0; 0].

Fixpoint truncate_decl (decl : list (string * ctype)) (v : valuation) : valuation :=
  match decl with
  | [] => v
  | (f, TInt w) :: r =>
      let v' := match vget v f with
                | Some (FInt n) => vset v f (FInt (n mod 2 ^ (8 * N.of_nat w)))
                | _ => v
                end in
      truncate_decl r v'
  | _ :: r => truncate_decl r v
  end.

(* one call of Marshal: output bytes, new accumulator state, new field values *)
Definition cmd_marshal (c : cmd_desc) (cs : cstate) (v : valuation) : R (list N * cstate * valuation) :=
  let p0 := if cd_andx c
            then fold_left params_add_word (andx_words default_andx) (cs_params cs)
            else cs_params cs in
  let* st := mops_run (p_wc p0) {| ms_p := []; ms_d := []; ms_v := v |} (cd_marshal c) in
  let v' := truncate_decl (cd_decl c) (ms_v st) in
  let p1 := params_add_stream p0 (ms_p st) in
  let* pb := params_marshal p1 in
  let d1 := data_add (cs_data cs) (ms_d st) in
  let db := data_marshal d1 in
  Ok (pb ++ db, {| cs_params := p1; cs_data := d1 |}, v').

(* ---- Unmarshal ---- *)
Record ustate := {
  us_off : N; us_read : N; us_env : list (string * N); us_v : valuation
}.

Fixpoint env_get (env : list (string * N)) (x : string) : N :=
  match env with
  | [] => 0
  | (y, n) :: r => if String.eqb x y then n else env_get r x
  end.

(* A stream is the visible slice and the bytes between its length and its capacity: the parameter
   bytes come from GetBytesStream (a fresh slice grown by append: capacity 8,16,...,512, zero filled),
   the data bytes are a sub-slice of the input (capacity extends over whatever follows the data block).
   len(S) sees only the visible part; a slice expression S[lo:hi] is legal up to the capacity. *)
Definition sbuf := (list N * list N)%type.

Definition stream_of (s : stream) (p d : sbuf) : sbuf :=
  match s with SP => p | SD => d | SNone => ([], []) end.

Definition slen (S : sbuf) : N := lenN (fst S).

(* Go int arithmetic on small non-negative values; subtraction below zero is reported as a Z so that
   a negative slice bound panics *)
Fixpoint leval (e : lenexp) (st : ustate) (sl : N) : Z :=
  match e with
  | EConst n => Z.of_N n
  | EField f => Z.of_N (vint (us_v st) f)
  | ELenOf f => Z.of_N (vlen (us_v st) f)
  | EVar x => Z.of_N (env_get (us_env st) x)
  | ERead => Z.of_N (us_read st)
  | ERest => Z.of_N sl - Z.of_N (us_off st)
  | EAdd a b => leval a st sl + leval b st sl
  | EMul a b => leval a st sl * leval b st sl
  | ESub a b => leval a st sl - leval b st sl
  end.

(* S[offset : offset+E]  (legal up to cap)   and   S[offset:]  (legal up to len) *)
Definition window (S : sbuf) (st : ustate) (e : lenexp) : R (list N) :=
  match e with
  | ERest => go_from (fst S) (us_off st)
  | _ =>
      let hi := (Z.of_N (us_off st) + leval e st (slen S))%Z in
      if (hi <? 0)%Z then Panic else go_slice (fst S ++ snd S) (us_off st) (Z.to_N hi)
  end.

Definition with_v (st : ustate) (v : valuation) : ustate :=
  {| us_off := us_off st; us_read := us_read st; us_env := us_env st; us_v := v |}.

Inductive ures := UCont (st : ustate) | URet (st : ustate).

(* consecutive w-byte integers of a byte string (a trailing partial slot is ignored); fuel = the length *)
Fixpoint chunk_ints (w : nat) (en : endian) (fuel : nat) (l : list N) : list N :=
  match fuel with
  | O => []
  | S k =>
      match w with
      | O => []
      | _ =>
        if Nat.ltb (List.length l) w then []
        else (match en with LE => le_val (firstn w l) | BE => be_val (firstn w l) end)
             :: chunk_ints w en k (skipn w l)
      end
  end.

(* the word count decoded from the parameter block is kept in the environment under a name no Go identifier has *)
Definition wc_var : string := "$wc".
Definition ucond_holds (st : ustate) (c : ucond) : bool :=
  match c with UCWcEq k => env_get (us_env st) wc_var =? k end.

Fixpoint uop_step (p d : sbuf) (st : ustate) (u : uop) : R ures :=
  match u with
  | UIf c u' => if ucond_holds st c then uop_step p d st u' else Ok (UCont st)
  | UGuard s e =>
      let S := stream_of s p d in
      if (Z.of_N (slen S) <? Z.of_N (us_off st) + leval e st (slen S))%Z then Err else Ok (UCont st)
  | UInt s f w e acc =>
      let S := stream_of s p d in
      let* win := window S st acc in
      let* n := match e with LE => go_le_uint w win | BE => go_be_uint w win end in
      Ok (UCont (with_v st (vset (us_v st) f (FInt n))))
  | UBytes s f e =>
      let S := stream_of s p d in
      let* win := window S st e in
      Ok (UCont (with_v st (vset (us_v st) f (FBytes win))))
  | UIntArr s f w en e =>
      (* c.F = [...]T{ T(Uint(S[offset:offset+w])), T(Uint(S[offset+w:offset+2w])), ... }  and the counted loop that
         fills c.F[i] from consecutive w-byte slots: the window is E bytes, every whole slot in it is one element *)
      let S := stream_of s p d in
      let* win := window S st e in
      Ok (UCont (with_v st (vset (us_v st) f (FStruct (map FInt (chunk_ints w en (List.length win) win))))))
  | UNested s f t e =>
      let S := stream_of s p d in
      let* win := window S st e in
      let* (x, k) := nested_unmarshal t win in
      Ok (UCont {| us_off := us_off st; us_read := k; us_env := us_env st; us_v := vset (us_v st) f x |})
  | UNested0 s f t =>
      let S := stream_of s p d in
      let* (x, k) := nested_unmarshal t (fst S) in
      Ok (UCont {| us_off := us_off st; us_read := k; us_env := us_env st; us_v := vset (us_v st) f x |})
  | UEmptyRet s =>
      if slen (stream_of s p d) =? 0 then Ok (URet st) else Ok (UCont st)
  | UAdv e =>
      let n := (Z.of_N (us_off st) + leval e st 0)%Z in
      Ok (UCont {| us_off := Z.to_N n; us_read := us_read st; us_env := us_env st; us_v := us_v st |})
  | ULet x e =>
      Ok (UCont {| us_off := us_off st; us_read := us_read st;
                   us_env := (x, Z.to_N (leval e st 0)) :: us_env st; us_v := us_v st |})
  | UReset _ =>
      Ok (UCont {| us_off := 0; us_read := us_read st; us_env := us_env st; us_v := us_v st |})
  | UOpaque _ => Panic
  end.

Fixpoint uops_run (p d : sbuf) (st : ustate) (us : list uop) : R ustate :=
  match us with
  | [] => Ok st
  | u :: r =>
      let* res := uop_step p d st u in
      match res with
      | UCont st' => uops_run p d st' r
      | URet st' => Ok st'
      end
  end.

(* zero value of every declared field (what a fresh structure from NewX() holds) *)
Fixpoint zero_of (t : ctype) : fval :=
  match t with
  | TInt _ => FInt 0
  | TBytes => FBytes []
  | TArray _ => FStruct []
  | TFixedArray n t' => FStruct (repeat (zero_of t') n)
  | TNamed n =>
      if String.eqb n "SMB_STRING" then FStruct [FInt 0; FInt 0; FBytes []]
      else if String.eqb n "OEM_STRING" then FStruct [FStruct [FInt 0; FInt 0; FBytes []]]
      else if String.eqb n "FILETIME" || String.eqb n "SMB_TIME" then FStruct [FInt 0; FInt 0]
      else if String.eqb n "SMB_DATE" then FStruct [FInt 0; FInt 0; FInt 0]
      else if String.eqb n "SMB_FILE_ATTRIBUTES" then FStruct [FInt 0]
      else if String.eqb n "SMB_NMPIPE_STATUS" then FStruct [FInt 0; FInt 0]
      else if String.eqb n "SMB_RESUME_KEY" then
        FStruct [FStruct [FInt 0; FInt 0; FBytes []]; FInt 0; FStruct (repeat (FInt 0) 16); FStruct (repeat (FInt 0) 4)]
      else if String.eqb n "Dialects" then FStruct [FStruct []]
      else FStruct []
  end.

Definition zero_valuation (c : cmd_desc) : valuation :=
  map (fun ft => (fst ft, zero_of (snd ft))) (cd_decl c).

(* capacity of a byte slice grown from []byte{} by appending two bytes at a time (Go 1.2x growslice
   with size-class rounding), for lengths up to 510 *)
Definition append_cap (n : N) : N :=
  if n =? 0 then 0 else if n <=? 8 then 8 else if n <=? 16 then 16 else if n <=? 32 then 32
  else if n <=? 64 then 64 else if n <=? 128 then 128 else if n <=? 256 then 256 else 512.

(* Unmarshal into a structure holding [v0]: the resulting field values *)
Definition cmd_unmarshal (c : cmd_desc) (v0 : valuation) (data : list N) : R valuation :=
  let* (pp, n) := params_unmarshal data in
  let p := params_get_bytes pp in
  let* rest := go_from data n in
  let* (dd, _) := data_unmarshal rest in
  let d := data_get_bytes dd in
  let early := match cd_empty c with
               | EmptyNone => false
               | EmptyParams => lenN p =? 0
               | EmptyBoth => (lenN p =? 0) && (lenN d =? 0)
               end in
  if early then Ok v0 else
  let ph := repeatN 0 (N.to_nat (append_cap (lenN p) - lenN p)) in
  let* dh := if lenN d =? 0 then Ok [] else go_from rest (2 + lenN d) in
  let* st := uops_run (p, ph) (d, dh) {| us_off := 0; us_read := n; us_env := [(wc_var, p_wc pp)]; us_v := v0 |} (cd_unmarshal c) in
  Ok (us_v st).
