(* Model of network/netbios/nbtns/packet.go: appendName, readName, NBTNSPacket.Marshal and
   Unmarshal (hand-written; tied to the Go code by the correspondence check).
   Offsets are N; every slice expression is a go_slice / go_index that panics when Go does.
   Definitions only. *)
From Coq Require Import List NArith Bool.
From Mant Require Import Prim.R Prim.Bytes Model.NbName.
Import ListNotations.
Open Scope N_scope.

(* uint16 / uint32 fields are N (the harness supplies values in range; be16/be32 truncate like PutUint16) *)
Record nbheader := mk_hdr { h_id : N; h_flags : N; h_qd : N; h_an : N; h_ns : N; h_ar : N }.
(* Name is a *NetBIOSName: None = nil *)
Record nbquestion := mk_q { q_name : option nbname; q_type : N; q_class : N }.
Record nbrr := mk_rr { rr_name : option nbname; rr_type : N; rr_class : N; rr_ttl : N;
                       rr_rdlength : N; rr_rdata : list N }.
Record nbpacket := mk_pkt { p_hdr : nbheader; p_qs : list nbquestion;
                            p_an : list nbrr; p_ns : list nbrr; p_ar : list nbrr }.

(* ------------------------------------------------------------------ Marshal *)

(* appendName: length-prefixed labels of strings.Split(encoded, "."), then the root label *)
Definition append_name (n : option nbname) : R (list N) :=
  match n with
  | None => Panic (* nil pointer dereference in Validate *)
  | Some n =>
      let* enc := first_level_encode n in
      if 255 <? lenN enc + 2 then Err
      else Ok (flat_map (fun l => wrap8 (lenN l) :: l) (split_dot enc) ++ [0])
  end.

Definition marshal_question (q : nbquestion) : R (list N) :=
  let* nm := append_name (q_name q) in
  Ok (nm ++ be16 (q_type q) ++ be16 (q_class q)).

Definition marshal_rr (r : nbrr) : R (list N) :=
  let* nm := append_name (rr_name r) in
  Ok (nm ++ be16 (rr_type r) ++ be16 (rr_class r) ++ be32 (rr_ttl r) ++ be16 (rr_rdlength r) ++ rr_rdata r).

(* the loops stop at the first element that fails (error or panic) *)
Fixpoint marshal_list {A} (f : A -> R (list N)) (l : list A) : R (list N) :=
  match l with
  | [] => Ok []
  | x :: r =>
      let* a := f x in
      let* b := marshal_list f r in
      Ok (a ++ b)
  end.

Definition marshal_header (h : nbheader) : list N :=
  be16 (h_id h) ++ be16 (h_flags h) ++ be16 (h_qd h) ++ be16 (h_an h) ++ be16 (h_ns h) ++ be16 (h_ar h).

Definition marshal (p : nbpacket) : R (list N) :=
  let* qs := marshal_list marshal_question (p_qs p) in
  let* an := marshal_list marshal_rr (p_an p) in
  let* ns := marshal_list marshal_rr (p_ns p) in
  let* ar := marshal_list marshal_rr (p_ar p) in
  Ok (marshal_header (p_hdr p) ++ qs ++ an ++ ns ++ ar).

(* ------------------------------------------------------------------ Unmarshal *)

(* the loop of readName.  Every iteration moves the offset forward, so length data + 1
   iterations always suffice; running out of fuel is modelled as Panic and proved unreachable
   (C10_total_unmarshal). *)
Fixpoint read_labels (fuel : nat) (data : list N) (off : N) (acc : list (list N))
  : R (list (list N) * N) :=
  match fuel with
  | O => Panic
  | S f =>
      if lenN data <=? off then Err
      else
        let* l := go_index data off in
        let off1 := off + 1 in
        if l =? 0 then Ok (acc, off1)
        else if 63 <? l then Err
        else if lenN data <? off1 + l then Err
        else
          let* lab := go_slice data off1 (off1 + l) in
          read_labels f data (off1 + l) (acc ++ [lab])
  end.

Definition read_name (data : list N) (off : N) : R (nbname * N) :=
  let* (labels, off') := read_labels (S (length data)) data off [] in
  let* nm := first_level_decode (join_dot labels) in
  Ok (nm, off').

(* binary.BigEndian.Uint16(data[off : off+2]) *)
Definition read_u16 (data : list N) (off : N) : R N :=
  let* s := go_slice data off (off + 2) in go_be_uint 2 s.
Definition read_u32 (data : list N) (off : N) : R N :=
  let* s := go_slice data off (off + 4) in go_be_uint 4 s.

(* the counts are 16-bit header words, so the recursion depth is at most 65535 *)
Fixpoint read_questions (cnt : nat) (data : list N) (off : N) : R (list nbquestion * N) :=
  match cnt with
  | O => Ok ([], off)
  | S c =>
      let* (nm, off1) := read_name data off in
      if lenN data <? off1 + 4 then Err
      else
        let* ty := read_u16 data off1 in
        let* cl := read_u16 data (off1 + 2) in
        let* (rest, off2) := read_questions c data (off1 + 4) in
        Ok (mk_q (Some nm) ty cl :: rest, off2)
  end.

Fixpoint read_rrs (cnt : nat) (data : list N) (off : N) : R (list nbrr * N) :=
  match cnt with
  | O => Ok ([], off)
  | S c =>
      let* (nm, off1) := read_name data off in
      if lenN data <? off1 + 10 then Err
      else
        let* ty := read_u16 data off1 in
        let* cl := read_u16 data (off1 + 2) in
        let* ttl := read_u32 data (off1 + 4) in
        let* rdl := read_u16 data (off1 + 8) in
        let off2 := off1 + 10 in
        if lenN data <? off2 + rdl then Err
        else
          let* rd := go_slice data off2 (off2 + rdl) in
          let* (rest, off3) := read_rrs c data (off2 + rdl) in
          Ok (mk_rr (Some nm) ty cl ttl rdl rd :: rest, off3)
  end.

(* Unmarshal into a zero NBTNSPacket (as every caller does): the number of bytes reported as
   consumed (always len(data)) and the packet *)
Definition unmarshal (data : list N) : R (N * nbpacket) :=
  if lenN data <? 12 then Err
  else
    let* id := read_u16 data 0 in
    let* fl := read_u16 data 2 in
    let* qd := read_u16 data 4 in
    let* an := read_u16 data 6 in
    let* ns := read_u16 data 8 in
    let* ar := read_u16 data 10 in
    let* (qs, o1) := read_questions (N.to_nat qd) data 12 in
    let* (ans, o2) := read_rrs (N.to_nat an) data o1 in
    let* (nss, o3) := read_rrs (N.to_nat ns) data o2 in
    let* (ars, _) := read_rrs (N.to_nat ar) data o3 in
    Ok (lenN data, mk_pkt (mk_hdr id fl qd an ns ar) qs ans nss ars).
