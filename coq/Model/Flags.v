(* Generic model of the flag-word decompositions, bit predicates and name tables whose rows are
   regenerated from the Go source into Gen/Tables*.v (property C19). Definitions only. *)
From Coq Require Import List NArith ZArith String Bool Ascii.
Import ListNotations.
Open Scope N_scope.

(* ---- rows as go2coq emits them ---- *)
Definition chain_entry := (string * Z * string * Z * bool * string)%type.
Definition ce_maskid (e : chain_entry) : string := let '(a, _, _, _, _, _) := e in a.
Definition ce_mask (e : chain_entry) : N := let '(_, m, _, _, _, _) := e in Z.to_N m.
Definition ce_maskz (e : chain_entry) : Z := let '(_, m, _, _, _, _) := e in m.
Definition ce_cmpid (e : chain_entry) : string := let '(_, _, c, _, _, _) := e in c.
Definition ce_cmp (e : chain_entry) : N := let '(_, _, _, c, _, _) := e in Z.to_N c.
Definition ce_cmpz (e : chain_entry) : Z := let '(_, _, _, c, _, _) := e in c.
Definition ce_eq (e : chain_entry) : bool := let '(_, _, _, _, b, _) := e in b.
Definition ce_lit (e : chain_entry) : string := let '(_, _, _, _, _, l) := e in l.

Definition pred_entry := (string * string * string * Z * Z * bool)%type.
Definition pe_recv (p : pred_entry) : string := let '(r, _, _, _, _, _) := p in r.
Definition pe_method (p : pred_entry) : string := let '(_, m, _, _, _, _) := p in m.
Definition pe_mask (p : pred_entry) : N := let '(_, _, _, m, _, _) := p in Z.to_N m.
Definition pe_maskz (p : pred_entry) : Z := let '(_, _, _, m, _, _) := p in m.
Definition pe_cmp (p : pred_entry) : N := let '(_, _, _, _, c, _) := p in Z.to_N c.
Definition pe_cmpz (p : pred_entry) : Z := let '(_, _, _, _, c, _) := p in c.
Definition pe_eq (p : pred_entry) : bool := let '(_, _, _, _, _, b) := p in b.

Definition map_entry := (string * Z * bool * string)%type.
Definition me_key (e : map_entry) : string := let '(k, _, _, _) := e in k.
Definition me_val (e : map_entry) : Z := let '(_, v, _, _) := e in v.
Definition me_islit (e : map_entry) : bool := let '(_, _, b, _) := e in b.
Definition me_text (e : map_entry) : string := let '(_, _, _, t) := e in t.

Definition const_entry := (string * string * Z)%type.
Definition co_name (c : const_entry) : string := let '(n, _, _) := c in n.
Definition co_type (c : const_entry) : string := let '(_, t, _) := c in t.
Definition co_val (c : const_entry) : Z := let '(_, _, v) := c in v.

Definition switch_entry := (string * Z * string)%type.

(* ---- what the Go code computes ---- *)

(* if w&M == V / != V *)
Definition test (m c : N) (eq : bool) (w : N) : bool :=
  let r := N.land w m =? c in if eq then r else negb r.

Definition entry_holds (e : chain_entry) (w : N) : bool := test (ce_mask e) (ce_cmp e) (ce_eq e) w.

(* the if-chain: literals of the entries whose test succeeds, in source order *)
Definition decompose (t : list chain_entry) (w : N) : list string :=
  map ce_lit (filter (fun e => entry_holds e w) t).

Definition pred_holds (p : pred_entry) (w : N) : bool := test (pe_mask p) (pe_cmp p) (pe_eq p) w.

(* map-driven decomposition (UserAccountControl.String): entries with w&key != 0, then sorted *)
Definition map_decompose (t : list map_entry) (w : N) : list string :=
  map me_text (filter (fun e => negb (N.land w (Z.to_N (me_val e)) =? 0)) t).

Fixpoint insert_sorted (s : string) (l : list string) : list string :=
  match l with
  | [] => [s]
  | x :: r => if String.leb s x then s :: l else x :: insert_sorted s r
  end.
Definition sort_strings (l : list string) : list string := fold_right insert_sorted [] l.

Fixpoint join_str (sep : string) (l : list string) : string :=
  match l with
  | [] => EmptyString
  | [x] => x
  | x :: r => (x ++ sep ++ join_str sep r)%string
  end.

(* map lookup by value *)
Fixpoint lookup (t : list map_entry) (v : Z) : option string :=
  match t with
  | [] => None
  | e :: r => if Z.eqb (me_val e) v then Some (me_text e) else lookup r v
  end.

Fixpoint lookup_switch (t : list switch_entry) (v : Z) : option string :=
  match t with
  | [] => None
  | (_, x, l) :: r => if Z.eqb x v then Some l else lookup_switch r v
  end.

(* ---- the specification side ---- *)

(* names of the table's bits that are set in w *)
Definition bit_of (m : N) : N := N.log2 m.
Definition set_bit_names (t : list chain_entry) (w : N) : list string :=
  map ce_lit (filter (fun e => N.testbit w (bit_of (ce_mask e))) t).

Definition single_bit (m : N) : bool := m =? 2 ^ N.log2 m.

Fixpoint nodupb {A} (eqb : A -> A -> bool) (l : list A) : bool :=
  match l with
  | [] => true
  | x :: r => negb (existsb (eqb x) r) && nodupb eqb r
  end.

(* literal = identifier, or identifier minus a prefix ending in '_' : the literal is a suffix of the
   identifier and the character before it (if any) is an underscore *)
Fixpoint string_rev_acc (s acc : string) : string :=
  match s with EmptyString => acc | String c r => string_rev_acc r (String c acc) end.
Definition string_rev (s : string) : string := string_rev_acc s EmptyString.

Definition ident_names (ident lit : string) : bool :=
  let ri := string_rev ident in
  let rl := string_rev lit in
  String.prefix rl ri &&
  match substring (String.length rl) 1 ri with
  | EmptyString => true
  | String c _ => Ascii.eqb c "_"%char
  end.

Definition placeholder (s : string) : bool :=
  String.eqb s "" || String.eqb s "UNKNOWN" || String.eqb s "Unknown" || String.eqb s "unknown"
  || String.prefix "Unknown " s || String.prefix "Unknown:" s || String.prefix "Unknown(" s
  || String.prefix "UNKNOWN " s || String.eqb s "TODO" || String.eqb s "?".

(* every entry tests exactly one bit against itself (== M) or against zero (!= 0), the identifier
   compared is the identifier masked, masks and literals are pairwise distinct, every literal names
   its identifier and none is a placeholder *)
Definition chain_entry_ok (e : chain_entry) : bool :=
  (0 <? ce_maskz e)%Z && single_bit (ce_mask e) &&
  (if ce_eq e then Z.eqb (ce_cmpz e) (ce_maskz e) && String.eqb (ce_cmpid e) (ce_maskid e)
   else Z.eqb (ce_cmpz e) 0) &&
  ident_names (ce_maskid e) (ce_lit e) && negb (placeholder (ce_lit e)).

(* the same without the identifier/literal naming convention (free-text literals) *)
Definition chain_entry_ok_weak (e : chain_entry) : bool :=
  (0 <? ce_maskz e)%Z && single_bit (ce_mask e) &&
  (if ce_eq e then Z.eqb (ce_cmpz e) (ce_maskz e) && String.eqb (ce_cmpid e) (ce_maskid e)
   else Z.eqb (ce_cmpz e) 0) && negb (placeholder (ce_lit e)).

Definition table_ok_weak (t : list chain_entry) : bool :=
  forallb chain_entry_ok_weak t && nodupb N.eqb (map ce_mask t) && nodupb String.eqb (map ce_lit t).

Definition table_ok (t : list chain_entry) : bool :=
  forallb chain_entry_ok t && nodupb N.eqb (map ce_mask t) && nodupb String.eqb (map ce_lit t).

(* a predicate is "bit set" (!= 0 or == M) or "bit clear" (== 0) of a single bit *)
Definition pred_ok (p : pred_entry) : bool :=
  (0 <? pe_maskz p)%Z && single_bit (pe_mask p) &&
  (Z.eqb (pe_cmpz p) 0 || (Z.eqb (pe_cmpz p) (pe_maskz p))).

(* polarity: true when the predicate is true iff the bit is set *)
Definition pred_positive (p : pred_entry) : bool :=
  if Z.eqb (pe_cmpz p) 0 then negb (pe_eq p) else pe_eq p.

(* name maps *)
Definition names_ok (t : list map_entry) : bool :=
  forallb (fun e => me_islit e && negb (placeholder (me_text e))) t
  && nodupb Z.eqb (map me_val t) && nodupb String.eqb (map me_text t).

Definition names_match_idents (t : list map_entry) : bool :=
  forallb (fun e => ident_names (me_key e) (me_text e)) t.

Definition consts_of (ty : string) (cs : list const_entry) : list const_entry :=
  filter (fun c => String.eqb (co_type c) ty) cs.

(* every declared constant of the type has a row (aliases share their value's row) *)
Definition rows_complete (cs : list const_entry) (t : list map_entry) : bool :=
  forallb (fun c => existsb (fun e => Z.eqb (me_val e) (co_val c)) t) cs.

(* rows are keyed by declared constants with the right value *)
Definition rows_declared (cs : list const_entry) (t : list map_entry) : bool :=
  forallb (fun e => existsb (fun c => if Z.eqb (co_val c) (me_val e) then String.eqb (co_name c) (me_key e) else false) cs) t.

Definition switch_ok (cs : list const_entry) (t : list switch_entry) : bool :=
  forallb (fun '(id, v, l) => negb (placeholder l) &&
            existsb (fun c => if Z.eqb (co_val c) v then String.eqb (co_name c) id else false) cs) t
  && nodupb Z.eqb (map (fun '(_, v, _) => v) t) && nodupb String.eqb (map (fun '(_, _, l) => l) t).

(* NT status: every declared non-success status has an error row *)
Definition errors_complete (cs : list const_entry) (t : list map_entry) : bool :=
  forallb (fun c => Z.eqb (co_val c) 0 || existsb (fun e => Z.eqb (me_val e) (co_val c)) t) cs.
