(* Model of crypto/gppp/gppp.go (hand-written; tied by the correspondence cases named gppp.xxx).
     GPPPEncrypt        -> gppp_encrypt
     GPPPDecryptBase64  -> gppp_decrypt_b64   (with the code's base64 re-padding rule)
     GPPPDecryptBytes   -> gppp_decrypt_bytes
   and of the two functions of utils/encoding/utf16 they call:
     EncodeUTF16LE      -> enc_utf16le_go     DecodeUTF16LE -> dec_utf16le_go
   Go standard library pieces are modelled, not verified, by the reference algorithms of Algo/
   (validated against the standard library by the ALGO check):
     []rune(s)                        -> go_runes (here: lenient UTF-8 decoding, an invalid byte is U+FFFD)
     unicode/utf16.Encode / Decode    -> Algo.Utf16.utf16_encode / utf16_decode
     string([]rune)                   -> Algo.Utf8.utf8_encode
     base64.StdEncoding               -> Algo.Base64.b64_encode / b64_decode
     cipher.NewCBCEncrypter/Decrypter -> Algo.AES.cbc_encrypt / cbc_decrypt, CryptBlocks panics on a
                                         partial block
     aes.NewCipher                    -> the Section variables (instantiated with Algo.AES below);
                                         error unless the key has 16, 24 or 32 bytes
   The key is regenerated from the source (Gen/ConstsC12.v).  Definitions only. *)
From Coq Require Import List NArith Bool.
From Mant Require Import Prim.R Prim.Bytes Algo.Word Algo.AES Algo.Base64 Algo.Utf16 Algo.Utf8.
From Mant Require Import Model.Pkcs7 Gen.ConstsC12.
Import ListNotations.
Open Scope N_scope.

(* ------------------------------------------------------------------ *)
(* []rune(s): utf8.DecodeRuneInString at every position; any invalid or truncated sequence
   yields (U+FFFD, width 1).  Written with the case structure of RFC 3629 section 4. *)
Definition go_decode_rune (s : list N) : N * nat :=
  match s with
  | [] => (replacement_char, 1%nat)
  | b0 :: r =>
      if b0 <? 0x80 then (b0, 1%nat)
      else if in_range 0xC2 0xDF b0 then
        match r with
        | b1 :: _ =>
            if utf8_tail b1 then ((b0 - 0xC0) * 64 + (b1 - 0x80), 2%nat) else (replacement_char, 1%nat)
        | _ => (replacement_char, 1%nat)
        end
      else if in_range 0xE0 0xEF b0 then
        match r with
        | b1 :: b2 :: _ =>
            let lo := if b0 =? 0xE0 then 0xA0 else 0x80 in
            let hi := if b0 =? 0xED then 0x9F else 0xBF in
            if in_range lo hi b1 && utf8_tail b2
            then ((b0 - 0xE0) * 4096 + (b1 - 0x80) * 64 + (b2 - 0x80), 3%nat)
            else (replacement_char, 1%nat)
        | _ => (replacement_char, 1%nat)
        end
      else if in_range 0xF0 0xF4 b0 then
        match r with
        | b1 :: b2 :: b3 :: _ =>
            let lo := if b0 =? 0xF0 then 0x90 else 0x80 in
            let hi := if b0 =? 0xF4 then 0x8F else 0xBF in
            if in_range lo hi b1 && utf8_tail b2 && utf8_tail b3
            then ((b0 - 0xF0) * 262144 + (b1 - 0x80) * 4096 + (b2 - 0x80) * 64 + (b3 - 0x80), 4%nat)
            else (replacement_char, 1%nat)
        | _ => (replacement_char, 1%nat)
        end
      else (replacement_char, 1%nat)
  end.

Fixpoint go_runes_fuel (fuel : nat) (s : list N) : list N :=
  match fuel with
  | O => []
  | S f =>
      match s with
      | [] => []
      | _ => let '(r, w) := go_decode_rune s in r :: go_runes_fuel f (skipn w s)
      end
  end.
Definition go_runes (s : list N) : list N := go_runes_fuel (length s) s.

(* ------------------------------------------------------------------ *)
(* utils/encoding/utf16 *)

(* utf16le := utf16.Encode([]rune(s)); bytes[i*2] = byte(r); bytes[i*2+1] = byte(r >> 8) *)
Definition enc_utf16le_go (s : list N) : list N :=
  flat_map (fun u => [u mod 256; (u / 256) mod 256]) (utf16_encode (go_runes s)).

(* utf16le := make([]uint16, len(b)/2)
   for i := 0; i+1 < len(b); i += 2 { utf16le[i/2] = uint16(b[i]) | uint16(b[i+1])<<8 } : a trailing
   odd byte is ignored (the loop bound was i < len(b), an index panic on odd lengths, until
   /repo commit 6323136).  GPPPDecryptBytes only calls it on an even length. *)
Fixpoint dec_units_go (b : list N) : R (list N) :=
  match b with
  | [] => Ok []
  | [_] => Ok []
  | lo :: hi :: r => let* us := dec_units_go r in Ok (N.lor lo (hi * 256) :: us)
  end.
Definition dec_utf16le_go (b : list N) : R (list N) :=
  let* us := dec_units_go b in Ok (utf8_encode (utf16_decode us)).

(* ------------------------------------------------------------------ *)
(* crypto/cipher CBC: CryptBlocks panics ("input not full blocks") unless len(src) % 16 = 0 *)
Definition full_blocks (data : list N) : bool := (lenN data mod 16 =? 0).

Section Gppp.
  (* aes.NewCipher(key): Encrypt and Decrypt of one 16-byte block *)
  Variable aes_enc aes_dec : list N -> list N -> list N.
  Variable key : list N.

  Definition key_size_ok : bool :=
    let k := lenN key in (k =? 16) || (k =? 24) || (k =? 32).

  Definition zero_iv : list N := repeatN 0 16.

  Definition gppp_encrypt_with (plaintext : list N) : R (list N) :=
    let plaintextBytes := enc_utf16le_go plaintext in
    let* padded := pkcs7_pad plaintextBytes 16 in
    if negb key_size_ok then Err else
    if negb (full_blocks padded) then Panic else
    let ciphertext := cbc_encrypt (aes_enc key) 16 zero_iv padded in
    Ok (b64_encode ciphertext).

  Definition gppp_decrypt_bytes_with (ciphertext : list N) : R (list N) :=
    if negb key_size_ok then Err else
    if negb (full_blocks ciphertext) then Err else
    let plaintext := cbc_decrypt (aes_dec key) 16 zero_iv ciphertext in
    let* plaintext := pkcs7_unpad plaintext in
    if negb (lenN plaintext mod 2 =? 0) then Err else      (* odd length: not UTF-16LE *)
    dec_utf16le_go plaintext.

  Definition gppp_repad (encStr : list N) : list N :=
    let pad := lenN encStr mod 4 in
    if pad =? 1 then firstn (length encStr - 1) encStr
    else if (pad =? 2) || (pad =? 3) then encStr ++ repeatN b64_pad (N.to_nat (4 - pad))
    else encStr.

  Definition gppp_decrypt_b64_with (encStr : list N) : R (list N) :=
    match b64_decode (gppp_repad encStr) with
    | None => Err
    | Some ciphertext => gppp_decrypt_bytes_with ciphertext
    end.
End Gppp.

(* the executable instance: FIPS 197 AES under the key found in the source *)
Definition aes_block_enc (key : list N) : list N -> list N := aes_cipher (aes_round_keys key).
Definition aes_block_dec (key : list N) : list N -> list N := aes_inv_cipher (rev (aes_round_keys key)).

Definition gppp_encrypt : list N -> R (list N) := gppp_encrypt_with aes_block_enc c12_gppp_aes_key.
Definition gppp_decrypt_bytes : list N -> R (list N) := gppp_decrypt_bytes_with aes_block_dec c12_gppp_aes_key.
Definition gppp_decrypt_b64 : list N -> R (list N) := gppp_decrypt_b64_with aes_block_dec c12_gppp_aes_key.
