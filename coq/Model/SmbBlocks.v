(* Models of the SMB parameter block and data block WITH their accumulators
     network/smb/smb_v10/message/parameters/parameters.go   (Parameters)
     network/smb/smb_v10/message/data/data.go               (Data)
   Mutating methods are  state -> state ; Marshal reads the state; Unmarshal overwrites every field on
   success and is modelled from a fresh receiver.  Definitions only. *)
From Coq Require Import List NArith Lia Bool.
From Mant Require Import Prim.R Prim.Bytes.
Import ListNotations.
Open Scope N_scope.

(* ------------------------------------------------------------------ *)
(* Parameters { WordCount uint8; Words []uint16 }                      *)

Record params := mk_params { p_wc : N; p_words : list N }.

Definition params_new : params := mk_params 0 [].

(* AddWord: p.WordCount = uint8(len(p.Words) * 2)   (sic: twice the number of words) *)
Definition params_add_word (p : params) (w : N) : params :=
  let ws := p_words p ++ [w] in
  mk_params (wrap8 (lenN ws * 2)) ws.

(* AddWordsFromBytesStream: pairs become uint16(b0)<<8 | uint16(b1); a last odd byte becomes uint16(b) *)
Fixpoint words_of_stream (bs : list N) : list N :=
  match bs with
  | [] => []
  | [b] => [b]
  | b0 :: b1 :: rest => N.lor (N.shiftl b0 8) b1 :: words_of_stream rest
  end.

Definition params_add_stream (p : params) (bs : list N) : params :=
  let ws := p_words p ++ words_of_stream bs in
  mk_params (wrap8 (lenN ws)) ws.

(* GetBytesStream / GetBytes: uint8(word>>8), uint8(word&0xFF) per word; no WordCount byte *)
Definition params_get_bytes (p : params) : list N :=
  flat_map (fun w => [wrap8 (N.shiftr w 8); wrap8 (N.land w 255)]) (p_words p).

(* Size: uint16(len(p.Words)) *)
Definition params_size (p : params) : N := wrap16 (lenN (p_words p)).

Definition params_marshal (p : params) : R (list N) :=
  if negb (p_wc p =? wrap8 (lenN (p_words p))) then Err else
  Ok ([p_wc p] ++ (if 0 <? p_wc p then flat_map be16 (p_words p) else [])).

(* for i := 0; i < int(p.WordCount); i++ { p.Words[i] = binary.BigEndian.Uint16(data[i*2 : 2+i*2]) } *)
Fixpoint params_read_words (data : list N) (i : N) (n : nat) : R (list N) :=
  match n with
  | O => Ok []
  | S n' =>
      let* s := go_slice data (i * 2) (2 + i * 2) in
      let* w := go_be_uint 2 s in
      let* r := params_read_words data (i + 1) n' in
      Ok (w :: r)
  end.

Definition params_unmarshal (data : list N) : R (params * N) :=
  if lenN data =? 0 then Err else
  let* wc := go_index data 0 in
  let* d := go_from data 1 in
  if 0 <? wc then
    if lenN d <? wc * 2 then Err else
    let* ws := params_read_words d 0 (N.to_nat wc) in
    Ok (mk_params wc ws, 1 + wc * 2)
  else Ok (mk_params wc [], 1).

(* ------------------------------------------------------------------ *)
(* Data { ByteCount uint16; Bytes []byte }                             *)

Record datablk := mk_data { d_bc : N; d_bytes : list N }.

Definition data_new : datablk := mk_data 0 [].

(* Add: ByteCount = uint16(len(d.Bytes)) *)
Definition data_add (d : datablk) (bs : list N) : datablk :=
  let b := d_bytes d ++ bs in mk_data (wrap16 (lenN b)) b.

Definition data_set (d : datablk) (bs : list N) : datablk := mk_data (wrap16 (lenN bs)) bs.

Definition data_get_bytes (d : datablk) : list N := d_bytes d.
Definition data_size (d : datablk) : N := d_bc d.

Definition data_marshal (d : datablk) : list N := le16 (d_bc d) ++ d_bytes d.

(* the  len(data) < 2  check was added by the fix (one-byte inputs used to panic in data[:2]) *)
Definition data_unmarshal (data : list N) : R (datablk * N) :=
  if lenN data =? 0 then Err else
  if lenN data <? 2 then Err else
  let* h := go_upto data 2 in
  let* bc := go_le_uint 2 h in
  let* d := go_from data 2 in
  if 0 <? bc then
    if lenN d <? bc then Err else
    let* bs := go_upto d bc in
    Ok (mk_data bc bs, 2 + bc)
  else Ok (mk_data bc [], 2).
