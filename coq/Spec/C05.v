(* C05 — the encoding MS-CIFS prescribes, written from the specification and from the structure
   DECLARATIONS only (field order and declared type), independently of Marshal/Unmarshal. *)
From Coq Require Import List NArith ZArith String Bool.
From Mant Require Import Prim.R Prim.Bytes Model.SmbTypes Model.SmbLayout Model.SmbAnalysis Spec.C04.
Import ListNotations.
Open Scope N_scope.
Open Scope list_scope.

(* MS-CIFS 2.2.3.2/2.2.3.3: WordCount, the parameter words, ByteCount, the data bytes; every
   UCHAR/USHORT/ULONG(/ULONGLONG) field occupies 1/2/4(/8) bytes, least significant byte first. *)
Fixpoint decl_widths (decl : list (string * ctype)) : option (list nat) :=
  match decl with
  | [] => Some []
  | (_, TInt w) :: r => match decl_widths r with Some l => Some (w :: l) | None => None end
  | _ => None
  end.

Definition cifs_fields (ws : list nat) (ns : list N) : list N :=
  List.concat (map (fun wn => le_bytes (fst wn) (snd wn)) (combine ws ns)).

Definition cifs_encode_fixed (ws : list nat) (ns : list N) : list N :=
  let p := cifs_fields ws ns in
  [lenN p / 2] ++ p ++ le_bytes 2 0.

(* the encoding check: every multi-byte integer is emitted little-endian *)
Definition all_le (fs : list ifield) : bool :=
  forallb (fun x => match snd x with LE => true | BE => Nat.leb (snd (fst x)) 1 end) fs.

(* MS-CIFS 2.2.4.52.1: each dialect is BufferFormat 0x02 followed by a null-terminated string *)
Definition cifs_dialects (ds : list (list N)) : list N :=
  flat_map (fun d => [2] ++ d ++ [0]) ds.

Definition no_nul (d : list N) : Prop := Forall (fun b => b <> 0) d.

(* MS-CIFS 2.2.3.1: the 32-byte header *)
Record smb_header := {
  h_protocol : list N; h_command : N; h_status : N; h_flags : N; h_flags2 : N; h_pidhigh : N;
  h_security : list N; h_reserved : N; h_tid : N; h_pidlow : N; h_uid : N; h_mid : N }.

Definition cifs_header (h : smb_header) : list N :=
  h_protocol h ++ [h_command h] ++ le_bytes 4 (h_status h) ++ [h_flags h] ++ le_bytes 2 (h_flags2 h)
  ++ le_bytes 2 (h_pidhigh h) ++ h_security h ++ le_bytes 2 (h_reserved h) ++ le_bytes 2 (h_tid h)
  ++ le_bytes 2 (h_pidlow h) ++ le_bytes 2 (h_uid h) ++ le_bytes 2 (h_mid h).
