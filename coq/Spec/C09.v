(* C09 specification: an independent RFC 1035 message codec (section 3.1 names, 4.1 message
   format, 4.1.4 compression), written from the RFC and not from the Go code.
   Names are label lists.  Definitions only. *)
From Coq Require Import List NArith Bool.
From Mant Require Import Prim.Bytes Model.Llmnr.
Import ListNotations.
Open Scope N_scope.

Definition label := list N.
Definition name := list label.

(* ---- abstract content of a message ---- *)
Record rfc_question := { rq_name : name; rq_type : N; rq_class : N }.
Record rfc_rr := { rr_name : name; rr_type : N; rr_class : N; rr_ttl : N; rr_rdata : list N }.
Record rfc_msg := { rm_id : N; rm_flags : N; rm_qd : list rfc_question;
                    rm_an : list rfc_rr; rm_ns : list rfc_rr; rm_ar : list rfc_rr }.

(* ---- validity (the domain of the property) ---- *)
(* labels of 1..63 bytes containing no dot (46); a name has at least one label (the root name is
   outside the domain) and occupies at most 255 octets on the wire (RFC 1035 3.1) *)
Definition label_ok (l : label) : Prop := 1 <= lenN l <= 63 /\ ~ In 46 l.
Definition name_wire_len (n : name) : N := fold_right (fun l a => 1 + lenN l + a) 1 n.
Definition labels_ok (n : name) : Prop := n <> [] /\ Forall label_ok n.
Definition name_ok (n : name) : Prop := labels_ok n /\ name_wire_len n <= 255.

Definition question_ok (P : name -> Prop) (q : rfc_question) : Prop :=
  P (rq_name q) /\ rq_type q < 65536 /\ rq_class q < 65536.
Definition rr_ok (P : name -> Prop) (r : rfc_rr) : Prop :=
  P (rr_name r) /\ rr_type r < 65536 /\ rr_class r < 65536 /\ rr_ttl r < 4294967296
  /\ lenN (rr_rdata r) <= 65535.
(* [P] is the condition on names: [name_ok], or the weaker [labels_ok] where the 255 limit is not needed *)
Definition msg_ok (P : name -> Prop) (m : rfc_msg) : Prop :=
  rm_id m < 65536 /\ rm_flags m < 65536
  /\ lenN (rm_qd m) <= 65535 /\ lenN (rm_an m) <= 65535 /\ lenN (rm_ns m) <= 65535 /\ lenN (rm_ar m) <= 65535
  /\ Forall (question_ok P) (rm_qd m)
  /\ Forall (rr_ok P) (rm_an m) /\ Forall (rr_ok P) (rm_ns m) /\ Forall (rr_ok P) (rm_ar m).

(* presentation form: labels joined by dots *)
Fixpoint name_text (n : name) : list N :=
  match n with
  | [] => []
  | [l] => l
  | l :: r => l ++ 46 :: name_text r
  end.

(* ---- plain (uncompressed) encoder, RFC 1035 3.1 / 4.1 ---- *)
Definition rfc_encode_name (n : name) : list N := flat_map (fun l => lenN l :: l) n ++ [0].

Definition rfc_encode_question (q : rfc_question) : list N :=
  rfc_encode_name (rq_name q) ++ be_bytes 2 (rq_type q) ++ be_bytes 2 (rq_class q).

Definition rr_fixed (r : rfc_rr) : list N :=
  be_bytes 2 (rr_type r) ++ be_bytes 2 (rr_class r) ++ be_bytes 4 (rr_ttl r)
  ++ be_bytes 2 (lenN (rr_rdata r)) ++ rr_rdata r.

Definition rfc_encode_rr (r : rfc_rr) : list N := rfc_encode_name (rr_name r) ++ rr_fixed r.

Definition rfc_header (m : rfc_msg) : list N :=
  be_bytes 2 (rm_id m) ++ be_bytes 2 (rm_flags m)
  ++ be_bytes 2 (lenN (rm_qd m)) ++ be_bytes 2 (lenN (rm_an m))
  ++ be_bytes 2 (lenN (rm_ns m)) ++ be_bytes 2 (lenN (rm_ar m)).

Definition rfc_encode_msg (m : rfc_msg) : list N :=
  rfc_header m ++ flat_map rfc_encode_question (rm_qd m)
  ++ flat_map rfc_encode_rr (rm_an m) ++ flat_map rfc_encode_rr (rm_ns m) ++ flat_map rfc_encode_rr (rm_ar m).

(* ---- reading the wire ---- *)
Definition byte_at (d : list N) (i : N) : option N := nth_error d (N.to_nat i).
Definition bytes_at (d : list N) (i n : N) : option (list N) :=
  if i + n <=? lenN d then Some (firstn (N.to_nat n) (skipn (N.to_nat i) d)) else None.
Definition u16_at (d : list N) (i : N) : option N :=
  match byte_at d i, byte_at d (i + 1) with
  | Some a, Some b => Some (a * 256 + b)
  | _, _ => None
  end.
Definition u32_at (d : list N) (i : N) : option N :=
  match u16_at d i, u16_at d (i + 2) with
  | Some a, Some b => Some (a * 65536 + b)
  | _, _ => None
  end.

(* Declarative meaning of a (possibly compressed) name, RFC 1035 4.1.4: a sequence of labels
   ending in a zero octet, or a sequence of labels ending with a pointer, or a pointer; a
   pointer designates a PRIOR occurrence: it lies strictly before the name that contains it.
   [wire_name d start pos n fin]: reading at [pos] inside the name that starts at [start] yields
   the labels [n]; the name occupies the octets up to [fin] (exclusive) in its own record. *)
Inductive wire_name (d : list N) : N -> N -> name -> N -> Prop :=
| wn_end : forall start pos,
    byte_at d pos = Some 0 -> wire_name d start pos [] (pos + 1)
| wn_label : forall start pos l n fin,
    1 <= lenN l <= 63 ->
    byte_at d pos = Some (lenN l) -> bytes_at d (pos + 1) (lenN l) = Some l ->
    wire_name d start (pos + 1 + lenN l) n fin ->
    wire_name d start pos (l :: n) fin
| wn_pointer : forall start pos hi lo n fin',
    hi < 64 -> lo < 256 ->
    byte_at d pos = Some (192 + hi) -> byte_at d (pos + 1) = Some lo ->
    hi * 256 + lo < start ->
    wire_name d (hi * 256 + lo) (hi * 256 + lo) n fin' ->
    wire_name d start pos n (pos + 2).

(* Pointers that are NOT to a prior occurrence.  [ptr_violation d start pos]: reading at [pos]
   in the name that starts at [start] runs, after any number of labels and strictly backward
   pointers, into a pointer whose target is not before the start of the name that contains it
   (a self pointer, a forward pointer, a pointer into the name itself, a loop). *)
Inductive ptr_violation (d : list N) : N -> N -> Prop :=
| pv_here : forall start pos hi lo,
    hi < 64 -> lo < 256 -> byte_at d pos = Some (192 + hi) -> byte_at d (pos + 1) = Some lo ->
    start <= hi * 256 + lo -> ptr_violation d start pos
| pv_label : forall start pos len,
    1 <= len <= 63 -> byte_at d pos = Some len -> pos + 1 + len <= lenN d ->
    ptr_violation d start (pos + 1 + len) -> ptr_violation d start pos
| pv_chain : forall start pos hi lo,
    hi < 64 -> lo < 256 -> byte_at d pos = Some (192 + hi) -> byte_at d (pos + 1) = Some lo ->
    hi * 256 + lo < start -> ptr_violation d (hi * 256 + lo) (hi * 256 + lo) -> ptr_violation d start pos.


Definition wire_question (d : list N) (off : N) (q : rfc_question) (fin : N) : Prop :=
  exists e, wire_name d off off (rq_name q) e
    /\ u16_at d e = Some (rq_type q) /\ u16_at d (e + 2) = Some (rq_class q) /\ fin = e + 4.

Definition wire_rr (d : list N) (off : N) (r : rfc_rr) (fin : N) : Prop :=
  exists e, wire_name d off off (rr_name r) e
    /\ u16_at d e = Some (rr_type r) /\ u16_at d (e + 2) = Some (rr_class r)
    /\ u32_at d (e + 4) = Some (rr_ttl r) /\ u16_at d (e + 8) = Some (lenN (rr_rdata r))
    /\ bytes_at d (e + 10) (lenN (rr_rdata r)) = Some (rr_rdata r)
    /\ fin = e + 10 + lenN (rr_rdata r).

Inductive wire_list {A} (W : list N -> N -> A -> N -> Prop) (d : list N) : N -> list A -> N -> Prop :=
| wl_nil : forall off, wire_list W d off [] off
| wl_cons : forall off x mid l fin,
    W d off x mid -> wire_list W d mid l fin -> wire_list W d off (x :: l) fin.

(* [d] is a wire form of [m]: header, then the four sections back to back; names may be
   compressed in any way RFC 1035 4.1.4 allows.  RDATA is opaque. *)
Definition wire_msg (d : list N) (m : rfc_msg) : Prop :=
  u16_at d 0 = Some (rm_id m) /\ u16_at d 2 = Some (rm_flags m)
  /\ u16_at d 4 = Some (lenN (rm_qd m)) /\ u16_at d 6 = Some (lenN (rm_an m))
  /\ u16_at d 8 = Some (lenN (rm_ns m)) /\ u16_at d 10 = Some (lenN (rm_ar m))
  /\ exists o1 o2 o3 o4,
       wire_list wire_question d 12 (rm_qd m) o1 /\ wire_list wire_rr d o1 (rm_an m) o2
       /\ wire_list wire_rr d o2 (rm_ns m) o3 /\ wire_list wire_rr d o3 (rm_ar m) o4.

(* ---- executable reference decoder: follows ANY pointer (forward ones too), guarded by a step
   budget; rejects the reserved label types 01/10 and names longer than 255 octets ---- *)
Fixpoint rfc_walk (fuel : nat) (d : list N) (pos : N) : option (name * N) :=
  match fuel with
  | O => None
  | S f =>
      match byte_at d pos with
      | None => None
      | Some c =>
          if c =? 0 then Some ([], pos + 1)
          else if c <? 64 then
            match bytes_at d (pos + 1) c with
            | None => None
            | Some l =>
                match rfc_walk f d (pos + 1 + c) with
                | None => None
                | Some (n, e) => Some (l :: n, e)
                end
            end
          else if 192 <=? c then
            match byte_at d (pos + 1) with
            | None => None
            | Some c2 =>
                match rfc_walk f d ((c - 192) * 256 + c2) with
                | None => None
                | Some (n, _) => Some (n, pos + 2)
                end
            end
          else None
      end
  end.

Definition rfc_decode_name (d : list N) (off : N) : option (name * N) :=
  match rfc_walk (length d + 130) d off with
  | Some (n, e) => if name_wire_len n <=? 255 then Some (n, e) else None
  | None => None
  end.

Definition rfc_decode_question (d : list N) (off : N) : option (rfc_question * N) :=
  match rfc_decode_name d off with
  | None => None
  | Some (n, e) =>
      match u16_at d e, u16_at d (e + 2) with
      | Some t, Some c => Some ({| rq_name := n; rq_type := t; rq_class := c |}, e + 4)
      | _, _ => None
      end
  end.

Definition rfc_decode_rr (d : list N) (off : N) : option (rfc_rr * N) :=
  match rfc_decode_name d off with
  | None => None
  | Some (n, e) =>
      match u16_at d e, u16_at d (e + 2), u32_at d (e + 4), u16_at d (e + 8) with
      | Some t, Some c, Some ttl, Some rdl =>
          match bytes_at d (e + 10) rdl with
          | Some rd => Some ({| rr_name := n; rr_type := t; rr_class := c; rr_ttl := ttl; rr_rdata := rd |},
                             e + 10 + rdl)
          | None => None
          end
      | _, _, _, _ => None
      end
  end.

Fixpoint rfc_decode_list {A} (dec : list N -> N -> option (A * N)) (d : list N) (n : nat) (off : N)
  : option (list A * N) :=
  match n with
  | O => Some ([], off)
  | S n' =>
      match dec d off with
      | None => None
      | Some (x, e) =>
          match rfc_decode_list dec d n' e with
          | None => None
          | Some (l, e') => Some (x :: l, e')
          end
      end
  end.

Definition rfc_decode_msg (d : list N) : option rfc_msg :=
  match u16_at d 0, u16_at d 2, u16_at d 4, u16_at d 6, u16_at d 8, u16_at d 10 with
  | Some id, Some fl, Some qd, Some an, Some ns, Some ar =>
      match rfc_decode_list rfc_decode_question d (N.to_nat qd) 12 with
      | None => None
      | Some (qs, o1) =>
          match rfc_decode_list rfc_decode_rr d (N.to_nat an) o1 with
          | None => None
          | Some (ans, o2) =>
              match rfc_decode_list rfc_decode_rr d (N.to_nat ns) o2 with
              | None => None
              | Some (aut, o3) =>
                  match rfc_decode_list rfc_decode_rr d (N.to_nat ar) o3 with
                  | None => None
                  | Some (add, _) =>
                      Some {| rm_id := id; rm_flags := fl; rm_qd := qs; rm_an := ans; rm_ns := aut; rm_ar := add |}
                  end
              end
          end
      end
  | _, _, _, _, _, _ => None
  end.

(* ---- compressing encoder (RFC 1035 4.1.4): a suffix that was already emitted at an offset
   below 2^14 is replaced by a pointer to it; new suffixes are recorded ---- *)
Definition label_eqb (a b : label) : bool := bytes_eqb a b.
Fixpoint name_eqb (a b : name) : bool :=
  match a, b with
  | [], [] => true
  | x :: a', y :: b' => label_eqb x y && name_eqb a' b'
  | _, _ => false
  end.

Definition ctable := list (name * N).
Fixpoint lookup (t : ctable) (n : name) : option N :=
  match t with
  | [] => None
  | (s, p) :: t' => if name_eqb s n then Some p else lookup t' n
  end.

(* [off] = offset of the next octet to be written; returns the octets and the table extended
   with the suffixes written here *)
Fixpoint comp_name (t : ctable) (off : N) (n : name) : list N * ctable :=
  match n with
  | [] => ([0], t)
  | l :: rest =>
      match lookup t n with
      | Some p => ([192 + p / 256; p mod 256], t)
      | None =>
          let '(b, t') := comp_name t (off + 1 + lenN l) rest in
          (lenN l :: l ++ b, if off <? 16384 then (n, off) :: t' else t')
      end
  end.

Definition comp_question (t : ctable) (off : N) (q : rfc_question) : list N * ctable :=
  let '(b, t') := comp_name t off (rq_name q) in
  (b ++ be_bytes 2 (rq_type q) ++ be_bytes 2 (rq_class q), t').

Definition comp_rr (t : ctable) (off : N) (r : rfc_rr) : list N * ctable :=
  let '(b, t') := comp_name t off (rr_name r) in (b ++ rr_fixed r, t').

Fixpoint comp_list {A} (comp : ctable -> N -> A -> list N * ctable) (t : ctable) (off : N) (l : list A)
  : list N * ctable :=
  match l with
  | [] => ([], t)
  | x :: r =>
      let '(b, t') := comp t off x in
      let '(b2, t'') := comp_list comp t' (off + lenN b) r in
      (b ++ b2, t'')
  end.

Definition rfc_encode_compressed (m : rfc_msg) : list N :=
  let h := rfc_header m in
  let '(b1, t1) := comp_list comp_question [] 12 (rm_qd m) in
  let '(b2, t2) := comp_list comp_rr t1 (12 + lenN b1) (rm_an m) in
  let '(b3, t3) := comp_list comp_rr t2 (12 + lenN b1 + lenN b2) (rm_ns m) in
  let '(b4, _) := comp_list comp_rr t3 (12 + lenN b1 + lenN b2 + lenN b3) (rm_ar m) in
  h ++ b1 ++ b2 ++ b3 ++ b4.

(* ---- "the same content": library structures <-> abstract content.  The library keeps names
   as dotted text, a redundant RDLength per record and the four counts in the header. ---- *)
Definition lib_q (q : rfc_question) : question :=
  {| q_name := name_text (rq_name q); q_type := rq_type q; q_class := rq_class q |}.
Definition lib_rr (r : rfc_rr) : rr :=
  {| r_name := name_text (rr_name r); r_type := rr_type r; r_class := rr_class r; r_ttl := rr_ttl r;
     r_rdlen := lenN (rr_rdata r); r_data := rr_rdata r |}.
Definition lib_msg (m : rfc_msg) : message :=
  {| m_id := rm_id m; m_flags := rm_flags m;
     m_qd := lenN (rm_qd m); m_an := lenN (rm_an m); m_ns := lenN (rm_ns m); m_ar := lenN (rm_ar m);
     m_questions := map lib_q (rm_qd m); m_answers := map lib_rr (rm_an m);
     m_authority := map lib_rr (rm_ns m); m_additional := map lib_rr (rm_ar m) |}.

(* text -> labels: split at every dot *)
Definition abs_q (q : question) : rfc_question :=
  {| rq_name := split_dot (q_name q); rq_type := q_type q; rq_class := q_class q |}.
Definition abs_rr (r : rr) : rfc_rr :=
  {| rr_name := split_dot (r_name r); rr_type := r_type r; rr_class := r_class r; rr_ttl := r_ttl r;
     rr_rdata := r_data r |}.
Definition abs_msg (m : message) : rfc_msg :=
  {| rm_id := m_id m; rm_flags := m_flags m; rm_qd := map abs_q (m_questions m);
     rm_an := map abs_rr (m_answers m); rm_ns := map abs_rr (m_authority m); rm_ar := map abs_rr (m_additional m) |}.

(* validity stated on the library's own structures (names are text) *)
Definition text_labels_ok (s : list N) : Prop := Forall (fun l => 1 <= lenN l <= 63) (split_dot s).
Definition text_name_ok (s : list N) : Prop := text_labels_ok s /\ name_wire_len (split_dot s) <= 255.
(* a message as the caller hands it to Encode: counts and RDLength fields are ignored and recomputed *)
Definition lib_msg_ok (P : list N -> Prop) (m : message) : Prop :=
  m_id m < 65536 /\ m_flags m < 65536
  /\ lenN (m_questions m) <= 65535 /\ lenN (m_answers m) <= 65535
  /\ lenN (m_authority m) <= 65535 /\ lenN (m_additional m) <= 65535
  /\ Forall (fun q => P (q_name q) /\ q_type q < 65536 /\ q_class q < 65536) (m_questions m)
  /\ (forall r, In r (m_answers m ++ m_authority m ++ m_additional m) ->
        P (r_name r) /\ r_type r < 65536 /\ r_class r < 65536 /\ r_ttl r < 4294967296
        /\ lenN (r_data r) <= 65535).
(* the message with its derived fields made consistent (what Encode stores / what a decoder returns) *)
Definition normalize_rr (r : rr) : rr :=
  {| r_name := r_name r; r_type := r_type r; r_class := r_class r; r_ttl := r_ttl r;
     r_rdlen := lenN (r_data r); r_data := r_data r |}.
Definition normalize (m : message) : message :=
  {| m_id := m_id m; m_flags := m_flags m;
     m_qd := lenN (m_questions m); m_an := lenN (m_answers m);
     m_ns := lenN (m_authority m); m_ar := lenN (m_additional m);
     m_questions := m_questions m; m_answers := map normalize_rr (m_answers m);
     m_authority := map normalize_rr (m_authority m); m_additional := map normalize_rr (m_additional m) |}.
(* consistent messages (what Message.Validate checks for the counts) are their own normal form *)
Definition consistent (m : message) : Prop := normalize m = m.
